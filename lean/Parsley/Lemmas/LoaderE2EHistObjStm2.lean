/-
  C04 end-to-end with OBJECT STREAMS inside a history (part 2: the file and the composition).

  `MixFile.WFo f root ws`   well-formedness of a mixed history (layout `MixFile` of Lemmas/LoaderE2EHistMix.lean) whose
                            cross-reference streams may have rows of type 2 naming the object streams `ws`
                            (`LoaderObjStm.WCont`: unfiltered or Flate stored blocks, header in any legal layout, members
                            in any legal spelling), under THE EXCLUSION `memberTouchedLater f.secEnts = false`
  `xrefinfo_mix2`           the /Prev walk (as `MixFile.xrefinfo_mix`, by `xrefinfo_msecs` + `msec_reads2`)
  `load_mix_core2`          the composition up to the loading stage
  `load_mix_objstm`         the end-to-end theorem: per object number the NEWEST section that mentions it decides
                            (`Decides` for in-use / free entries, `DecidesStm` for in-stream entries), every member of
                            every object stream is bound to the value written in the stream, unmentioned numbers are
                            undefined
  `load_mix_objstm_objs`    read from the objects written
-/
import Parsley.Lemmas.LoaderE2EHistObjStm
namespace Parsley.LoaderE2E
open Parsley Parsley.Prim Parsley.Obj Parsley.Indirect Parsley.Loader Parsley.C02 Parsley.Spelling
open Parsley.XrefSpec Parsley.C13 Parsley.LoaderChain Parsley.LoaderStage Parsley.LoaderObjStm
open Parsley.C03 (Item ReadsAt)
open Parsley.C04 (StableGen)

/-- what the final definitions say about the number of `e` when the entry that decides it is an in-stream entry
    `(n, inStream c i)`: `c` is one of the object streams, `n` is the number of its `i`-th member, `(n, 0)` is bound to
    the value written in the stream, no other generation of `n` is defined -/
def DecidesStm (ws : List WCont) (defs : ObjStm.Defs) (e : Xref.Ent) : Prop :=
  ∀ c i, e.st = .inStream c i → ∃ w ∈ ws, w.num = c ∧ ∃ m, w.mems[i]? = some m ∧ m.num = e.obj ∧
    ObjStm.defsGet (e.obj, 0) defs = some m.v ∧ ∀ g, g ≠ 0 → ObjStm.defsGet (e.obj, g) defs = none

/-- where every object of a written body lies -/
theorem body_cursors (ps : List Placed) (s : Bytes) (pos : Nat) (rest : Bytes)
    (hpos : pos ≤ s.length) (hd : s.drop pos = bodyBytes ps ++ rest) (hok : ∀ q ∈ ps, q.p.Reads) :
    ∀ q ∈ place ps pos, q.2 ≤ s.length ∧ ∃ post, s.drop q.2 = q.1.bytes ++ post := by
  intro q hq
  exact (body_all (fun p s i => i ≤ s.length ∧ ∃ post, s.drop i = p.bytes ++ post) ps s pos rest hpos hd
    (fun x hx => ⟨(hok x hx).1, fun s i post hi hd => ⟨hi, post, hd⟩⟩) q hq).2

/-- an object stream is not a cross-reference stream object: /Type /ObjStm versus /Type /XRef -/
theorem objstm_not_xref (m : MRev) (hok : MRevOK2 m) (k : ObjId) (hk : m.xsKey = some k) (c : Nat) (w : WCont)
    (view : Bytes) (hdata : w.Data view) (hv : (m.xsVal c).val = .stream w.kvs w.sc) : False := by
  cases m with
  | classic r D => cases hk
  | stream r =>
    have hok' : StmOK2 r := hok
    have h1 : dictGet Xref.kType r.xs.kvs = some (.name Xref.nXRef) := hok'.dict.type
    have h2 : dictGet ObjStm.kType w.kvs = some (.name ObjStm.nObjStm) := hdata.type
    have hv' : Obj.stream r.xs.kvs ⟨c + r.xs.kwOfs + 6 + r.xs.e1.length, r.xs.data.length, r.xs.data⟩ =
        .stream w.kvs w.sc := hv
    have hkv : r.xs.kvs = w.kvs := by
      injection hv' with ha _
    rw [← hkv] at h2
    have h3 : dictGet Xref.kType r.xs.kvs = some (.name ObjStm.nObjStm) := h2
    rw [h1] at h3
    injection h3 with h3
    injection h3 with h3
    revert h3
    decide

namespace MixFile

/-- the sections' entry lists, OLDEST first: the argument of `memberTouchedLater` -/
def secEnts (f : MixFile) : List (List Xref.Ent) := f.revs.map (·.ents)

/-- well-formedness of a mixed history with the object streams `ws`, for root identifier `root` -/
structure WFo (f : MixFile) (root : ObjId) (ws : List WCont) : Prop where
  /-- the magic `%PDF-` does not occur before the header -/
  noMagic : ∀ k, k < f.garbage.length → kwPdf.isPrefixOf (f.bytes.drop k) = false
  /-- every revision is lexically well formed (`ClassicOK` / `StmOK2`: rows of type 0, 1 and 2), its objects read -/
  revsOk : ∀ m ∈ f.revs, MRevOK2 m
  /-- revision 0 has no /Prev; /Prev of revision i+1 is the offset of the section of revision i -/
  prevs : MPrevOK none f.segs
  /-- the newest revision names the root, the last `startxref` gives the offset of its section -/
  newest : ∃ q, f.segs.getLast? = some q ∧ q.1.root = some (.ref root.1 root.2) ∧ digitsVal f.ds 0 = secOfs q
  /-- STABLE GENERATIONS across all sections (the opposite case is the code's known defect #29); an in-stream entry
      has generation 0 -/
  stableGen : StableGen f.tables
  /-- the file is smaller than 2^63 bytes -/
  size : f.garbage.length + f.view.length ≤ 2 ^ 63
  /-- the in-use entries of each section are the objects of its revision (cross-reference stream object and object
      streams included), each with its number, generation, offset -/
  tableObjs : ∀ q ∈ f.segs, TableOf2 q.1.ents (mobjsOf q)
  /-- no NEWER section mentions the number of a cross-reference stream object -/
  notEdited : ∀ pre q post, f.segs = pre ++ q :: post → ∀ k, q.1.xsKey = some k →
    ∀ q' ∈ post, ∀ e' ∈ q'.1.ents, e'.obj ≠ k.1
  /-- a row of type 2 `(n, inStream c i)` names one of the object streams; `n` is the number of its `i`-th member
      (with `placed` and `untouched`: the object stream is written in the SAME revision) -/
  rows : ∀ q ∈ f.segs, ∀ e ∈ q.1.ents, ∀ c i, e.st = .inStream c i →
    ∃ w ∈ ws, w.num = c ∧ ∃ m, w.mems[i]? = some m ∧ m.num = e.obj
  /-- every object stream is an object (generation 0) of some revision whose section has a row of type 2 for EVERY
      member (no orphan members) -/
  placed : ∀ w ∈ ws, ∃ q ∈ f.segs, (∃ p ∈ mobjsOf q, ContAt w p) ∧
    ∀ m ∈ w.mems, ∃ e ∈ q.1.ents, e.obj = m.num ∧ ∃ i, e.st = .inStream w.num i
  /-- the object streams have pairwise distinct numbers -/
  contsNodup : (ws.map WCont.num).Nodup
  /-- member numbers are pairwise distinct over all object streams -/
  memsNodup : (ws.flatMap fun w => w.mems.map (·.num)).Nodup
  /-- THE EXCLUSION (known finding C04-objstm-member-touched-later): no later section mentions the number of a member
      or of an object stream of an earlier section -/
  untouched : memberTouchedLater f.secEnts = false
  wsx : WsRun f.wsx
  wsxNe : f.wsx ≠ []
  wsxNoS : (115 : UInt8) ∉ f.wsx
  dsNe : f.ds ≠ []
  dsDig : ∀ y ∈ f.ds, isDigit y = true
  ofsFits : digitsVal f.ds 0 ≤ i64Max
  e : ∀ y ∈ f.e, isWsEol y = true
  /-- no further `%%EOF` after the last one -/
  trail : ∀ k, 0 < k → kwEOF.isPrefixOf ((kwEOF ++ f.trail).drop k) = false

/-- a history without rows of type 2 (`MixFile.WF`) is the special case `ws = []` -/
theorem WF.toWFo {f : MixFile} {root : ObjId} (h : f.WF root) (hsize : f.garbage.length + f.view.length ≤ 2 ^ 63) :
    f.WFo root [] where
  noMagic := h.noMagic
  revsOk := fun m hm => (h.revsOk m hm).toOK2
  prevs := h.prevs
  newest := h.newest
  stableGen := h.stableGen
  size := hsize
  tableObjs := fun q hq => (h.tableObjs q hq).toTableOf2 (h.revsOk q.1 (f.mem_segs_revs q hq)).noStm
  notEdited := h.notEdited
  rows := by
    intro q hq e he c i hst
    exact absurd hst ((h.revsOk q.1 (f.mem_segs_revs q hq)).noStm e he c i)
  placed := by intro w hw; cases hw
  contsNodup := List.nodup_nil
  memsNodup := List.nodup_nil
  untouched := by
    have hno : ∀ E ∈ f.secEnts, guardedNums E = [] := by
      intro E hE
      obtain ⟨m, hm, rfl⟩ := List.mem_map.mp hE
      unfold guardedNums
      rw [List.flatMap_eq_nil_iff]
      intro e he
      have := (h.revsOk m hm).noStm e he
      cases hst : e.st with
      | free n => rfl
      | inUse o => rfl
      | inStream a b => exact absurd hst (this a b)
    generalize f.secEnts = S at hno
    induction S with
    | nil => rfl
    | cons E t ih =>
      simp only [memberTouchedLater, hno E List.mem_cons_self, List.any_nil, Bool.false_or]
      exact ih (fun E' hE' => hno E' (List.mem_cons_of_mem _ hE'))
  wsx := h.wsx
  wsxNe := h.wsxNe
  wsxNoS := h.wsxNoS
  dsNe := h.dsNe
  dsDig := h.dsDig
  ofsFits := h.ofsFits
  e := h.e
  trail := h.trail

theorem secEnts_eq (f : MixFile) : f.secEnts = f.segs.map (·.1.ents) := by
  have := placeM_fst f.revs f.hdr.length
  unfold secEnts segs
  conv => lhs; rw [← this]
  rw [List.map_map]
  rfl

theorem reads_all2 (f : MixFile) (root : ObjId) (ws : List WCont) (h : f.WFo root ws) :
    ∀ q ∈ f.segs, MReads f.view (msecOf q) := by
  intro q hq
  obtain ⟨hle, r, hd⟩ := f.cursors q hq
  exact msec_reads2 f.view q (h.revsOk q.1 (f.mem_segs_revs q hq)) hle r hd

/-- the own entry of a cross-reference stream object -/
theorem own_entry2 (f : MixFile) (root : ObjId) (ws : List WCont) (h : f.WFo root ws) (q : MRev × Nat) (hq : q ∈ f.segs)
    (k : ObjId) (hk : q.1.xsKey = some k) :
    ∃ e ∈ q.1.ents, e.obj = k.1 ∧ e.gen = k.2 ∧ e.st = .inUse (secOfs q) ∧
      ∃ p ∈ mobjsOf q, p.2 = secOfs q ∧ p.1.val p.2 = q.1.xsVal (secOfs q) := by
  obtain ⟨m, pos⟩ := q
  cases m with
  | classic r D => cases hk
  | stream r =>
    simp only [MRev.xsKey, Option.some.injEq] at hk
    subst hk
    have hmem := xs_mem_objs r pos
    obtain ⟨e, he, ho, hg, hst⟩ := (h.tableObjs _ hq).ent_of_obj _ hmem
    exact ⟨e, he, ho, hg, hst, _, hmem, rfl, rfl⟩

/-- the identifiers of the cross-reference stream objects are pairwise distinct -/
theorem keysApart2 (f : MixFile) (root : ObjId) (ws : List WCont) (h : f.WFo root ws) : KeysApart f.msecs := by
  unfold KeysApart msecs
  rw [List.pairwise_reverse, List.pairwise_map]
  apply pairwise_of_decomp _ f.segs []
  intro pre q post hseg q' hq' k hk' hk
  have hseg' : f.segs = pre ++ q :: post := by simpa using hseg
  have hq'm : q' ∈ f.segs := by rw [hseg']; simp [hq']
  have hk1 : q.1.xsKey = some k := hk
  have hk2 : q'.1.xsKey = some k := hk'
  obtain ⟨e, he, ho, _, _, _⟩ := f.own_entry2 root ws h q' hq'm k hk2
  exact h.notEdited pre q post hseg' k hk1 q' hq' e he ho

/-- **`get_xref_info` on a mixed history whose streams may have rows of type 2** -/
theorem xrefinfo_mix2 (f : MixFile) (root : ObjId) (ws : List WCont) (h : f.WFo root ws) :
    getXrefInfo ⟨Ctx.new 50, false⟩ f.view (digitsVal f.ds 0) =
      (.ok (dedupKey f.tables [], .ref root.1 root.2), ⟨⟨f.defs0, 0, 50, false⟩, false⟩) := by
  obtain ⟨q, hlast, hroot, hsx⟩ := h.newest
  cases hrev : f.msecs with
  | nil =>
    have : f.segs = [] := by
      have := congrArg List.length hrev
      simp only [msecs, List.length_reverse, List.length_map, List.length_nil] at this
      exact List.eq_nil_of_length_eq_zero this
    rw [this] at hlast
    cases hlast
  | cons x older =>
    have hx : x = msecOf q := by
      have := List.head?_reverse (l := f.segs.map msecOf)
      rw [List.getLast?_map, hlast] at this
      have h2 : (f.segs.map msecOf).reverse = x :: older := hrev
      rw [h2] at this
      simpa using this
    have hmem : ∀ y ∈ x :: older, ∃ q' ∈ f.segs, y = msecOf q' := by
      intro y hy
      rw [← hrev] at hy
      obtain ⟨q', hq', rfl⟩ := List.mem_map.mp (List.mem_reverse.mp hy)
      exact ⟨q', hq', rfl⟩
    have hall : ∀ y ∈ x :: older, MReads f.view y := by
      intro y hy
      obtain ⟨q', hq', rfl⟩ := hmem y hy
      exact f.reads_all2 root ws h q' hq'
    have hl : MLinked (x :: older) := by
      rw [← hrev]
      have := mlinked_reverse_aux f.segs none [] h.prevs trivial rfl
      simpa [msecs] using this
    have hnd : ((x :: older).map (·.c)).Nodup := by
      rw [← hrev]
      unfold msecs
      rw [List.map_reverse, List.map_map]
      show List.Pairwise (· ≠ ·) _
      rw [List.pairwise_reverse]
      have hs := placeM_sorted f.revs f.hdr.length
      exact hs.imp (fun h => (Nat.ne_of_lt h).symm)
    have hka : KeysApart (x :: older) := by rw [← hrev]; exact f.keysApart2 root ws h
    have hxr : x.root = some (.ref root.1 root.2) := by rw [hx]; exact hroot
    have hres := xrefinfo_msecs f.view x older (.ref root.1 root.2) hall hl hnd hxr hka
    have hxc : x.c = digitsVal f.ds 0 := by rw [hx, hsx]; rfl
    rw [hxc, ← hrev, f.msecEnts_msecs] at hres
    exact hres

/-- splitting the sections splits the entry lists -/
theorem secEnts_split (f : MixFile) (pre : List (MRev × Nat)) (q : MRev × Nat) (post : List (MRev × Nat))
    (hseg : f.segs = pre ++ q :: post) :
    f.secEnts = pre.map (·.1.ents) ++ q.1.ents :: post.map (·.1.ents) := by
  rw [f.secEnts_eq, hseg]
  simp

/-- the exclusion, on the sections: the number of a member and of its object stream are mentioned by no later section -/
theorem untouched_segs (f : MixFile) (hun : memberTouchedLater f.secEnts = false)
    (pre : List (MRev × Nat)) (q : MRev × Nat) (post : List (MRev × Nat)) (hseg : f.segs = pre ++ q :: post)
    (e : Xref.Ent) (he : e ∈ q.1.ents) (c i : Nat) (hst : e.st = .inStream c i) :
    ∀ q' ∈ post, ∀ e' ∈ q'.1.ents, e'.obj ≠ e.obj ∧ e'.obj ≠ c := by
  intro q' hq' e' he'
  exact untouched_spec f.secEnts hun _ _ _ (f.secEnts_split pre q post hseg) e he c i hst q'.1.ents
    (List.mem_map_of_mem hq') e' he'

end MixFile

/-! ## the composition -/

/-- the composition up to the loading stage -/
theorem load_mix_core2 (f : MixFile) (root : ObjId) (ws : List WCont) (h : f.WFo root ws) (P : ObjStm.Defs → Prop)
    (hstage : ∃ defs, parseObjects f.garbage.length ⟨⟨f.defs0, 0, 50, false⟩, false⟩ (infoOf (dedupKey f.tables [])) f.view
      = .ok defs ∧ P defs) :
    ∃ L : Loaded, parseData f.bytes = .ok L ∧ L.root = root ∧ P L.defs := by
  have hpdf : kwPdf.isPrefixOf f.hdr = true := by
    rw [List.isPrefixOf_iff_prefix]; exact List.prefix_append _ _
  have hscan := parseData_scan f.garbage f.hdr f.mid f.wsx f.ds f.e f.trail h.noMagic hpdf h.wsx h.wsxNe h.wsxNoS
    h.dsNe h.dsDig h.ofsFits h.e h.trail
  have hx := f.xrefinfo_mix2 root ws h
  have hlt : digitsVal f.ds 0 < f.view.length := by
    obtain ⟨q, hlast, _, hsx⟩ := h.newest
    have hq : q ∈ f.segs := List.mem_of_getLast? hlast
    have := (f.reads_all2 root ws h q hq).1
    rw [hsx]
    exact this
  obtain ⟨defs, hpo, hP⟩ := hstage
  refine ⟨⟨defs, root⟩, ?_, rfl, hP⟩
  show parseData (f.garbage ++ f.view) = _
  unfold MixFile.view
  rw [hscan]
  unfold loadRest
  have hlt' : digitsVal f.ds 0 < (f.hdr ++ (f.mid ++ (kwStartxref ++ (f.wsx ++ (f.ds ++ (f.e ++ (kwEOF ++ f.trail))))))).length := hlt
  have hx' : getXrefInfo ⟨Ctx.new 50, false⟩ (f.hdr ++ (f.mid ++ (kwStartxref ++ (f.wsx ++ (f.ds ++ (f.e ++ (kwEOF ++ f.trail))))))) (digitsVal f.ds 0) = _ := hx
  have hpo' : parseObjects f.garbage.length ⟨⟨f.defs0, 0, 50, false⟩, false⟩ (infoOf (dedupKey f.tables []))
    (f.hdr ++ (f.mid ++ (kwStartxref ++ (f.wsx ++ (f.ds ++ (f.e ++ (kwEOF ++ f.trail))))))) = _ := hpo
  simp only [hlt', decide_true, Bool.not_true, Bool.false_eq_true, if_false, hx', hpo']

/-- **`load_mix_objstm` (C04, end to end, any number of revisions, classic tables and cross-reference streams in any
    mix, OBJECT STREAMS whose members and containers no later revision touches)** -/
theorem load_mix_objstm (f : MixFile) (root : ObjId) (ws : List WCont) (h : f.WFo root ws) :
    ∃ L : Loaded, parseData f.bytes = .ok L ∧ L.root = root ∧
      (∀ pre q post, f.segs = pre ++ q :: post → ∀ e ∈ q.1.ents,
        (∀ q' ∈ post, ∀ e' ∈ q'.1.ents, e'.obj ≠ e.obj) → Decides (mobjsOf q) L.defs e ∧ DecidesStm ws L.defs e) ∧
      (∀ w ∈ ws, ∀ m ∈ w.mems, ObjStm.defsGet (m.num, 0) L.defs = some m.v) ∧
      (∀ n, (∀ q ∈ f.segs, ∀ e ∈ q.1.ents, e.obj ≠ n) → ∀ g, ObjStm.defsGet (n, g) L.defs = none) := by
  refine load_mix_core2 f root ws h (fun defs =>
    (∀ pre q post, f.segs = pre ++ q :: post → ∀ e ∈ q.1.ents,
      (∀ q' ∈ post, ∀ e' ∈ q'.1.ents, e'.obj ≠ e.obj) → Decides (mobjsOf q) defs e ∧ DecidesStm ws defs e) ∧
    (∀ w ∈ ws, ∀ m ∈ w.mems, ObjStm.defsGet (m.num, 0) defs = some m.v) ∧
    (∀ n, (∀ q ∈ f.segs, ∀ e ∈ q.1.ents, e.obj ≠ n) → ∀ g, ObjStm.defsGet (n, g) defs = none)) ?_
  have hok : ∀ q ∈ f.segs, MRevOK2 q.1 := fun q hq => h.revsOk q.1 (f.mem_segs_revs q hq)
  -- the context left by the walk
  obtain ⟨hs0, hbound, hfree⟩ := regAll_spec f.msecs [] List.Pairwise.nil (f.keysApart2 root ws h)
  have hmsec : ∀ y ∈ f.msecs, ∃ q ∈ f.segs, y = msecOf q := by
    intro y hy
    obtain ⟨q, hq, rfl⟩ := List.mem_map.mp (List.mem_reverse.mp hy)
    exact ⟨q, hq, rfl⟩
  -- a binding of the context belongs to the cross-reference stream object of some stream revision
  have hd0 : ∀ k v0, defsGet k f.defs0 = some v0 → ∃ q ∈ f.segs, q.1.xsKey = some k ∧ v0 = q.1.xsVal (secOfs q) := by
    intro k v0 hk
    by_cases hex : ∃ y ∈ f.msecs, y.key = some k
    · obtain ⟨y, hy, hyk⟩ := hex
      obtain ⟨q, hq, rfl⟩ := hmsec y hy
      have := hbound _ hy k hyk
      have h2 : defsGet k f.defs0 = some (msecOf q).val := this
      rw [hk] at h2
      exact ⟨q, hq, hyk, Option.some.inj h2⟩
    · have := hfree k (fun y hy hyk => hex ⟨y, hy, hyk⟩)
      have h2 : defsGet k f.defs0 = defsGet k [] := this
      rw [hk] at h2
      cases h2
  -- the newest entry of the number of a cross-reference stream object is its own entry
  have hown : ∀ q ∈ f.segs, ∀ k, q.1.xsKey = some k → ∃ e0, f.tables.find? (·.obj == k.1) = some e0 ∧ e0.gen = k.2 ∧
      e0.st = .inUse (secOfs q) ∧ ∃ p ∈ mobjsOf q, p.2 = secOfs q ∧ p.1.val p.2 = q.1.xsVal (secOfs q) := by
    intro q hq k hk
    obtain ⟨e0, he0, ho, hg, hst, hp⟩ := f.own_entry2 root ws h q hq k hk
    obtain ⟨pre, post, hseg⟩ := List.append_of_mem hq
    have hfind := f.find_tables pre q post hseg (hok q hq).nums e0 he0 (by
      rw [ho]; exact h.notEdited pre q post hseg k hk)
    rw [ho] at hfind
    exact ⟨e0, hfind, hg, hst, hp⟩
  -- a number bound by the context (under any generation): its newest entry is in use
  have hd0use : ∀ n g v0, defsGet (n, g) f.defs0 = some v0 → ∃ e0 o, f.tables.find? (·.obj == n) = some e0 ∧
      e0.st = .inUse o := by
    intro n g v0 hb
    obtain ⟨q0, hq0, hk0, _⟩ := hd0 _ _ hb
    obtain ⟨e0, hf0, _, hst0, _⟩ := hown q0 hq0 _ hk0
    exact ⟨e0, _, hf0, hst0⟩
  let all : List (Piece × Nat) := f.segs.flatMap mobjsOf
  have hrall : ∀ p ∈ all, p.2 < f.view.length ∧ ReadsAt 0 50 false f.view (itemOf p) := by
    intro p hp
    obtain ⟨q, hq, hpq⟩ := List.mem_flatMap.mp hp
    obtain ⟨hle, r, hd⟩ := f.cursors q hq
    exact reads_body q.1.body f.view q.2 _ hle hd (hok q hq).reads p hpq
  have hcurs : ∀ q ∈ f.segs, ∀ p ∈ mobjsOf q, p.2 ≤ f.view.length ∧ ∃ post, f.view.drop p.2 = p.1.bytes ++ post := by
    intro q hq p hp
    obtain ⟨hle, r, hd⟩ := f.cursors q hq
    exact body_cursors q.1.body f.view q.2 _ hle hd (hok q hq).reads p hp
  have hobj : ∀ e ∈ f.tables, ∀ o, e.st = .inUse o → ∃ p ∈ all, p.1.num = e.obj ∧ p.1.gen = e.gen ∧ p.2 = o := by
    intro e he o hst
    obtain ⟨q, hq, heq⟩ := (f.mem_tables e).mp he
    obtain ⟨p, hp, hp'⟩ := (h.tableObjs q hq).obj_of_ent e heq o hst
    exact ⟨p, List.mem_flatMap.mpr ⟨q, hq, hp⟩, hp'⟩
  have hval : ∀ e ∈ f.tables, ∀ o, e.st = .inUse o → ∀ p ∈ all, p.2 = o → lookupVal all e.obj e.gen o = p.1.val p.2 := by
    intro e he o hst p hp h3
    obtain ⟨p', hp', _, _, h3', hv⟩ := lookupVal_spec _ e.obj e.gen o (hobj e he o hst)
    rw [hv]
    exact readsAt_val_unique (hrall p' hp').2 (hrall p hp).2 (by show p'.2 = p.2; rw [h3, h3'])
  -- the newest entry of a member's number is its row of type 2
  have hmemE : ∀ w ∈ ws, ∀ m ∈ w.mems, ∃ e i, f.tables.find? (·.obj == m.num) = some e ∧ e.st = .inStream w.num i := by
    intro w hw m hm
    obtain ⟨q, hq, _, hall⟩ := h.placed w hw
    obtain ⟨e, he, ho, i, hst⟩ := hall m hm
    obtain ⟨pre, post, hseg⟩ := List.append_of_mem hq
    have hfind := f.find_tables pre q post hseg (hok q hq).nums e he
      (fun q' hq' e' he' => (f.untouched_segs h.untouched pre q post hseg e he _ _ hst q' hq' e' he').1)
    rw [ho] at hfind
    exact ⟨e, i, hfind, hst⟩
  -- the newest entry of an object stream's number is the in-use entry of the stream object
  have hcontE : ∀ w ∈ ws, w.OK f.view ∧ ∃ e o, f.tables.find? (·.obj == w.num) = some e ∧ e.gen = 0 ∧ e.st = .inUse o ∧
      (lookupVal all w.num 0 o).val = .stream w.kvs w.sc := by
    intro w hw
    obtain ⟨q, hq, ⟨p, hp, o, hpo, hnum, hgen, hkvs, hsc, hdata⟩, hall⟩ := h.placed w hw
    obtain ⟨hle, post0, hdrop⟩ := hcurs q hq p hp
    refine ⟨?_, ?_⟩
    · rw [hpo] at hdrop
      exact WCont.ok_of_wstm f.view p.2 o post0 w hle hdrop hsc hdata
    · obtain ⟨e, he, heo, heg, hest⟩ := (h.tableObjs q hq).ent_of_obj p hp
      have hpn : p.1.num = w.num := by rw [hpo]; exact hnum
      have hpg : p.1.gen = 0 := by rw [hpo]; exact hgen
      -- some member's row names the container: later sections do not mention its number
      cases hms : w.mems with
      | nil => exact absurd hms hdata.ne
      | cons m t =>
        obtain ⟨em, hem, _, i, hstm⟩ := hall m (by rw [hms]; exact List.mem_cons_self)
        obtain ⟨pre, post, hseg⟩ := List.append_of_mem hq
        have hfind := f.find_tables pre q post hseg (hok q hq).nums e he (by
          intro q' hq' e' he'
          rw [heo, hpn]
          exact (f.untouched_segs h.untouched pre q post hseg em hem _ _ hstm q' hq' e' he').2)
        rw [heo, hpn] at hfind
        have het : e ∈ f.tables := (f.mem_tables e).mpr ⟨q, hq, he⟩
        have hlv := hval e het p.2 hest p (List.mem_flatMap.mpr ⟨q, hq, hp⟩) rfl
        rw [heo, heg, hpn, hpg] at hlv
        refine ⟨e, p.2, hfind, by rw [heg, hpg], hest, ?_⟩
        rw [hlv, hpo]
        exact WCont.wstm_val p.2 o w hkvs hsc
  obtain ⟨defs, hpo, hF, hU, hM, hS, hN, hK⟩ := stage_merged_objstm f.garbage.length f.view f.defs0 hs0 f.tables
    (lookupVal all) ws h.size h.stableGen
    (by
      intro e he o hst
      obtain ⟨p, hp, h1, h2, h3, hv⟩ := lookupVal_spec _ e.obj e.gen o (hobj e he o hst)
      have := hrall p hp
      rw [hv, ← h1, ← h2, ← h3]
      exact this)
    (by
      intro n e c i hf hst
      have het : e ∈ f.tables := List.mem_of_find?_eq_some hf
      obtain ⟨q, hq, heq⟩ := (f.mem_tables e).mp het
      obtain ⟨w, hw, hwc, _⟩ := h.rows q hq e heq c i hst
      exact ⟨w, hw, hwc⟩)
    (by
      intro w hw
      obtain ⟨hwok, hrest⟩ := hcontE w hw
      refine ⟨hwok, ?_, hrest⟩
      cases hb : defsGet (w.num, 0) f.defs0 with
      | none => rfl
      | some v0 =>
        -- the stream object would be a cross-reference stream object, read at the same offset
        exfalso
        obtain ⟨q0, hq0, hk0, hv0⟩ := hd0 _ _ hb
        obtain ⟨e0, hf0, _, hst0, p0, hp0, hp0o, hp0v⟩ := hown q0 hq0 _ hk0
        obtain ⟨e, o, hf, heg, hst, hv⟩ := hrest
        have hf0' : f.tables.find? (·.obj == w.num) = some e0 := hf0
        rw [hf] at hf0'
        have hee : e = e0 := Option.some.inj hf0'
        subst hee
        have ho : o = secOfs q0 := by
          rw [hst] at hst0
          injection hst0
        have het : e ∈ f.tables := List.mem_of_find?_eq_some hf
        have hlv := hval e het o hst p0 (List.mem_flatMap.mpr ⟨q0, hq0, hp0⟩) (by rw [hp0o, ho])
        rw [find_obj hf, heg] at hlv
        rw [hlv, hp0v] at hv
        exact objstm_not_xref q0.1 (hok q0 hq0) _ hk0 _ w _ hwok.data hv)
    h.contsNodup h.memsNodup
    (by
      intro w hw m hm
      obtain ⟨e, i, hf, hst⟩ := hmemE w hw m hm
      refine ⟨?_, e, i, hf, hst⟩
      cases hb : defsGet (m.num, 0) f.defs0 with
      | none => rfl
      | some v0 =>
        obtain ⟨e0, o, hf0, hst0⟩ := hd0use _ _ _ hb
        rw [hf] at hf0
        cases hf0
        rw [hst] at hst0
        cases hst0)
  refine ⟨defs, hpo, ?_, hM, ?_⟩
  · intro pre q post hseg e he hno
    have hq : q ∈ f.segs := by rw [hseg]; simp
    have hfind := f.find_tables pre q post hseg (hok q hq).nums e he hno
    have het : e ∈ f.tables := (f.mem_tables e).mpr ⟨q, hq, he⟩
    -- if the context binds a generation of e.obj, then e is the own entry of that cross-reference stream object
    have hbnd : ∀ g v0, defsGet (e.obj, g) f.defs0 = some v0 → g = e.gen ∧ ∃ q0 ∈ f.segs, e.st = .inUse (secOfs q0) ∧
        ∃ p0 ∈ mobjsOf q0, p0.2 = secOfs q0 ∧ p0.1.val p0.2 = v0 := by
      intro g v0 hg
      obtain ⟨q0, hq0, hk0, hv0⟩ := hd0 _ _ hg
      obtain ⟨e0, hf0, hg0, hst0, p0, hp0, hp0o, hp0v⟩ := hown q0 hq0 _ hk0
      have hee : e0 = e := by
        have : f.tables.find? (·.obj == e.obj) = some e0 := hf0
        rw [hfind] at this
        exact (Option.some.inj this).symm
      subst hee
      exact ⟨hg0.symm, q0, hq0, hst0, p0, hp0, hp0o, by rw [hp0v, hv0]⟩
    refine ⟨⟨fun o hst => ⟨(h.tableObjs q hq).obj_of_ent e he o hst, ?_, ?_⟩, ?_⟩, ?_⟩
    · intro p hp _ _ h3
      have hpall : p ∈ all := List.mem_flatMap.mpr ⟨q, hq, hp⟩
      cases hb : defsGet (e.obj, e.gen) f.defs0 with
      | none =>
        rw [((hU e.obj e o hfind hst).1 hb), hval e het o hst p hpall h3]
      | some v0 =>
        obtain ⟨_, q0, hq0, hst0, p0, hp0, hp0o, hp0v⟩ := hbnd e.gen v0 hb
        rw [hK _ v0 hb, ← hp0v]
        have ho : o = secOfs q0 := by
          rw [hst] at hst0
          injection hst0
        have hp0all : p0 ∈ all := List.mem_flatMap.mpr ⟨q0, hq0, hp0⟩
        have hpv : p0.1.val p0.2 = p.1.val p.2 :=
          readsAt_val_unique (hrall p0 hp0all).2 (hrall p hpall).2 (by show p0.2 = p.2; rw [hp0o, h3, ho])
        rw [hpv]
    · intro g hne
      cases hb : defsGet (e.obj, g) f.defs0 with
      | none => exact (hU e.obj e o hfind hst).2 g hne hb
      | some v0 => exact absurd (hbnd g v0 hb).1 hne
    · intro nx hfree g
      cases hb : defsGet (e.obj, g) f.defs0 with
      | none => exact hF e.obj e nx hfind hfree g hb
      | some v0 =>
        obtain ⟨_, q0, _, hst0, _⟩ := hbnd g v0 hb
        rw [hfree] at hst0
        cases hst0
    · intro c i hst
      obtain ⟨w, hw, hwc, m, hmi, hmn⟩ := h.rows q hq e he c i hst
      have hmw : m ∈ w.mems := List.mem_of_getElem? hmi
      refine ⟨w, hw, hwc, m, hmi, hmn, ?_, ?_⟩
      · rw [← hmn]; exact hM w hw m hmw
      · intro g hg
        apply hS e.obj e c i hfind hst g
        · intro w' _ m' _ hk
          exact hg (congrArg Prod.snd hk).symm
        · cases hb : defsGet (e.obj, g) f.defs0 with
          | none => rfl
          | some v0 =>
            obtain ⟨_, _, _, hst0, _⟩ := hbnd g v0 hb
            rw [hst] at hst0
            cases hst0
  · intro n hn g
    have hnone : f.tables.find? (·.obj == n) = none := by
      apply find_none_of
      intro e he
      obtain ⟨q, hq, heq⟩ := (f.mem_tables e).mp he
      exact hn q hq e heq
    rw [hN n hnone g]
    cases hb : defsGet (n, g) f.defs0 with
    | none => rfl
    | some v0 =>
      obtain ⟨e0, _, hf0, _⟩ := hd0use _ _ _ hb
      rw [hnone] at hf0
      cases hf0

/-- the same read from the objects: an object whose number no NEWER section mentions is defined with its value (every
    object stream, every cross-reference stream object), and every member of every object stream is defined with the
    value written in the stream -/
theorem load_mix_objstm_objs (f : MixFile) (root : ObjId) (ws : List WCont) (h : f.WFo root ws) :
    ∃ L : Loaded, parseData f.bytes = .ok L ∧ L.root = root ∧
      (∀ pre q post, f.segs = pre ++ q :: post → ∀ p ∈ mobjsOf q,
        (∀ q' ∈ post, ∀ e' ∈ q'.1.ents, e'.obj ≠ p.1.num) →
        ObjStm.defsGet (p.1.num, p.1.gen) L.defs = some (p.1.val p.2).val) ∧
      (∀ w ∈ ws, ∀ m ∈ w.mems, ObjStm.defsGet (m.num, 0) L.defs = some m.v) := by
  obtain ⟨L, hL, hroot, hdec, hmem, _⟩ := load_mix_objstm f root ws h
  refine ⟨L, hL, hroot, ?_, hmem⟩
  intro pre q post hseg p hp hno
  have hq : q ∈ f.segs := by rw [hseg]; simp
  obtain ⟨e, he, ho, hg, hst⟩ := (h.tableObjs q hq).ent_of_obj p hp
  have := (((hdec pre q post hseg e he (by rw [ho]; exact hno)).1).1 p.2 hst).2.1 p hp ho.symm hg.symm rfl
  rw [ho, hg] at this
  exact this

end Parsley.LoaderE2E
