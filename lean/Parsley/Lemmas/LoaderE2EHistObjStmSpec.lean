/-
  C04 end-to-end with OBJECT STREAMS inside a history, spec side: the outcome of `load_mix_objstm` in the vocabulary
  of Spec/Doc.lean.  `f.saidsO ws rt` is what the revisions SAID, oldest first (`saidOfO`: the objects written - the
  cross-reference stream object and the object streams included -, for every row of type 2 the member it stands for
  with the value written in the object stream, the numbers of the free entries, a root).
  `load_mix_objstm_spec`: the loader's final definitions are exactly the bindings of `DocSpec.resolve (f.saidsO ws rt)`
  and the root is the one `resolve` reports.
-/
import Parsley.Lemmas.LoaderE2EHistObjStm2
import Parsley.Lemmas.LoaderE2EHistMixSpec
namespace Parsley.LoaderE2E
open Parsley Parsley.Prim Parsley.Obj Parsley.Indirect Parsley.Loader
open Parsley.XrefSpec Parsley.C13 Parsley.LoaderChain Parsley.LoaderStage Parsley.LoaderObjStm
open Parsley.DocSpec (forget applyRev insertSorted sortDefs resolve Said)

/-- the binding a row of type 2 stands for: member `i` of the object stream numbered `c`, under generation 0 -/
def memberOf (ws : List WCont) (e : Xref.Ent) : Option (DocSpec.ObjId × Obj) :=
  match e.st with
  | .inStream c i => (ws.find? (·.num == c)).bind fun w => (w.mems[i]?).map fun m => ((e.obj, 0), m.v)
  | _ => none

/-- what the revision with objects `objs` and section entries `E` said, the object streams being `ws` -/
def saidOfO (ws : List WCont) (objs : List (Piece × Nat)) (E : List Xref.Ent) (root : DocSpec.ObjId) : Said where
  written := (objs.map fun q => ((q.1.num, q.1.gen), (q.1.val q.2).val)) ++ E.filterMap (memberOf ws)
  freed := (E.filter isFreeEnt).map (·.obj)
  root := root

theorem find_wcont_num (ws : List WCont) (hnd : (ws.map WCont.num).Nodup) (w : WCont) (hw : w ∈ ws) :
    ws.find? (·.num == w.num) = some w := by
  induction ws with
  | nil => cases hw
  | cons a t ih =>
    simp only [List.map_cons, List.nodup_cons] at hnd
    rcases List.mem_cons.mp hw with rfl | hw
    · simp
    · have hne : a.num ≠ w.num := fun h => hnd.1 (by rw [h]; exact List.mem_map_of_mem hw)
      rw [List.find?_cons_of_neg (by simpa using hne)]
      exact ih hnd.2 hw

theorem memberOf_num (ws : List WCont) (e : Xref.Ent) (x : DocSpec.ObjId × Obj) (h : memberOf ws e = some x) :
    x.1.1 = e.obj ∧ ∃ c i, e.st = .inStream c i := by
  unfold memberOf at h
  split at h
  · rename_i c i hst
    refine ⟨?_, c, i, hst⟩
    cases hf : ws.find? (·.num == c) with
    | none => rw [hf] at h; cases h
    | some w =>
      rw [hf] at h
      simp only [Option.bind_some, Option.map_eq_some_iff] at h
      obtain ⟨m, _, hx⟩ := h
      rw [← hx]
  · cases h

theorem memberOf_of (ws : List WCont) (hnd : (ws.map WCont.num).Nodup) (e : Xref.Ent) (c i : Nat)
    (hst : e.st = .inStream c i) (w : WCont) (hw : w ∈ ws) (hwc : w.num = c) (m : WMem) (hm : w.mems[i]? = some m) :
    memberOf ws e = some ((e.obj, 0), m.v) := by
  unfold memberOf
  rw [hst]
  simp only
  rw [← hwc, find_wcont_num ws hnd w hw]
  simp [hm]

theorem mem_writtenO (ws : List WCont) (objs : List (Piece × Nat)) (E : List Xref.Ent) (root : DocSpec.ObjId)
    (k : DocSpec.ObjId) (v : Obj) :
    (k, v) ∈ (saidOfO ws objs E root).written ↔
      (∃ q ∈ objs, (q.1.num, q.1.gen) = k ∧ (q.1.val q.2).val = v) ∨ ∃ e ∈ E, memberOf ws e = some (k, v) := by
  simp only [saidOfO, List.mem_append, List.mem_map, Prod.mk.injEq, List.mem_filterMap]

theorem filesOf_nums_sublist : ∀ E : List Xref.Ent, ((filesOf (infoOf E)).map infoNum).Sublist (E.map (·.obj))
  | [] => List.Sublist.slnil
  | e :: t => by
    have ih := filesOf_nums_sublist t
    unfold infoOf
    cases hst : e.st with
    | free n => exact List.Sublist.cons _ ih
    | inUse o => exact List.Sublist.cons_cons _ ih
    | inStream a b => exact List.Sublist.cons _ ih

theorem members_nums_sublist (ws : List WCont) : ∀ E : List Xref.Ent,
    ((E.filterMap (memberOf ws)).map (·.1.1)).Sublist (E.map (·.obj))
  | [] => List.Sublist.slnil
  | e :: t => by
    have ih := members_nums_sublist ws t
    cases hm : memberOf ws e with
    | none =>
      rw [List.filterMap_cons_none hm]
      exact List.Sublist.cons _ ih
    | some x =>
      rw [List.filterMap_cons_some hm, List.map_cons, List.map_cons, (memberOf_num ws e x hm).1]
      exact List.Sublist.cons_cons _ ih

/-- a revision whose section mentions every number once writes every number once -/
theorem TableOf2.written_nodup {E : List Xref.Ent} {objs : List (Piece × Nat)} (h : TableOf2 E objs)
    (hnd : (E.map (·.obj)).Nodup) (ws : List WCont) (root : DocSpec.ObjId) :
    ((saidOfO ws objs E root).written.map (·.1.1)).Nodup := by
  have hobjs : (objs.map (·.1.num)).Nodup := by
    obtain ⟨perm, hperm, htab⟩ := h
    have h1 : perm.map (·.1.num) = (filesOf (infoOf E)).map infoNum := by
      rw [htab, List.map_map]; rfl
    have h2 : (perm.map (·.1.num)).Nodup := by
      rw [h1]; exact List.Nodup.sublist (filesOf_nums_sublist E) hnd
    exact (hperm.map _).nodup_iff.mp h2
  simp only [saidOfO, List.map_append, List.map_map]
  rw [List.nodup_append]
  refine ⟨hobjs, List.Nodup.sublist (members_nums_sublist ws E) hnd, ?_⟩
  intro a ha b hb hab
  obtain ⟨q, hq, rfl⟩ := List.mem_map.mp ha
  obtain ⟨x, hx, rfl⟩ := List.mem_map.mp hb
  obtain ⟨e2, he2, hm2⟩ := List.mem_filterMap.mp hx
  obtain ⟨hx1, c, i, hst2⟩ := memberOf_num ws e2 x hm2
  obtain ⟨e1, he1, ho1, _, hst1⟩ := h.ent_of_obj q hq
  have hee : e1 = e2 := eq_of_obj_nodup E hnd e1 e2 he1 he2 (by
    rw [ho1, ← hx1]
    exact hab)
  rw [hee, hst2] at hst1
  cases hst1

/-- a number is neither freed nor written by a revision iff its section does not mention it; the rows of type 2 of
    the section stand for members (`hrows`) -/
theorem not_mentioned_iffO {E : List Xref.Ent} {objs : List (Piece × Nat)} (h : TableOf2 E objs) (ws : List WCont)
    (hrows : ∀ e ∈ E, ∀ c i, e.st = .inStream c i → ∃ x, memberOf ws e = some x)
    (root : DocSpec.ObjId) (n : Nat) :
    (n ∉ (saidOfO ws objs E root).freed ∧ n ∉ (saidOfO ws objs E root).written.map (·.1.1)) ↔ ∀ e ∈ E, e.obj ≠ n := by
  constructor
  · rintro ⟨hf, hw⟩ e he hen
    cases hst : e.st with
    | free nx =>
      apply hf
      simp only [saidOfO, List.mem_map, List.mem_filter]
      exact ⟨e, ⟨he, by simp [isFreeEnt, hst]⟩, hen⟩
    | inUse o =>
      obtain ⟨q, hq, hq1, _, _⟩ := h.obj_of_ent e he o hst
      apply hw
      simp only [saidOfO, List.map_append, List.mem_append, List.mem_map]
      exact Or.inl ⟨_, ⟨q, hq, rfl⟩, hq1.trans hen⟩
    | inStream a b =>
      obtain ⟨x, hx⟩ := hrows e he a b hst
      apply hw
      simp only [saidOfO, List.map_append, List.mem_append, List.mem_map]
      exact Or.inr ⟨x, List.mem_filterMap.mpr ⟨e, he, hx⟩, (memberOf_num ws e x hx).1.trans hen⟩
  · intro hall
    constructor
    · intro hf
      simp only [saidOfO, List.mem_map, List.mem_filter] at hf
      obtain ⟨e, ⟨he, _⟩, hen⟩ := hf
      exact hall e he hen
    · intro hw
      simp only [saidOfO, List.map_append, List.mem_append, List.mem_map] at hw
      rcases hw with ⟨x, ⟨q, hq, rfl⟩, hxn⟩ | ⟨x, hx, hxn⟩
      · obtain ⟨e, he, heo, _, _⟩ := h.ent_of_obj q hq
        exact hall e he (heo.trans hxn)
      · obtain ⟨e, he, hm⟩ := List.mem_filterMap.mp hx
        exact hall e he ((memberOf_num ws e x hm).1.symm.trans hxn)

namespace MixFile

/-- what a placed revision said; `rt` supplies the root it named (only the newest matters) -/
def saidAtO (ws : List WCont) (rt : MRev × Nat → DocSpec.ObjId) (q : MRev × Nat) : Said :=
  saidOfO ws (mobjsOf q) q.1.ents (rt q)

/-- what the revisions said, oldest first -/
def saidsO (f : MixFile) (ws : List WCont) (rt : MRev × Nat → DocSpec.ObjId) : List Said :=
  f.segs.map (saidAtO ws rt)

end MixFile

/-- **`load_mix_objstm_spec`**: the loaded document is `DocSpec.resolve` of what the revisions said, members of
    object streams included -/
theorem load_mix_objstm_spec (f : MixFile) (root : ObjId) (ws : List WCont) (rt : MRev × Nat → ObjId)
    (h : f.WFo root ws) (hrt : ∀ q, f.segs.getLast? = some q → rt q = root) :
    ∃ L : Loaded, parseData f.bytes = .ok L ∧
      (resolve (f.saidsO ws rt)).2 = some L.root ∧
      ∀ (k : ObjId) (v : Obj), (k, v) ∈ (resolve (f.saidsO ws rt)).1 ↔ ObjStm.defsGet k L.defs = some v := by
  obtain ⟨L, hL, hroot, hdec, _, hnone⟩ := load_mix_objstm f root ws h
  have hok : ∀ q ∈ f.segs, MRevOK2 q.1 := fun q hq => h.revsOk q.1 (f.mem_segs_revs q hq)
  -- a row of type 2 stands for a member
  have hrowsM : ∀ q ∈ f.segs, ∀ e ∈ q.1.ents, ∀ c i, e.st = .inStream c i → ∃ x, memberOf ws e = some x := by
    intro q hq e he c i hst
    obtain ⟨w, hw, hwc, m, hmi, _⟩ := h.rows q hq e he c i hst
    exact ⟨_, memberOf_of ws h.contsNodup e c i hst w hw hwc m hmi⟩
  refine ⟨L, hL, ?_, ?_⟩
  · -- the root
    obtain ⟨q, hq, _, _⟩ := h.newest
    show ((f.saidsO ws rt).getLast?).map (·.root) = some L.root
    unfold MixFile.saidsO
    rw [List.getLast?_map, hq, hroot, ← hrt q hq]
    rfl
  · intro k v
    have hnd : ∀ q ∈ f.segs, ((MixFile.saidAtO ws rt q).written.map (·.1.1)).Nodup := by
      intro q hq
      exact (h.tableObjs q hq).written_nodup (hok q hq).nums ws (rt q)
    have hres : (resolve (f.saidsO ws rt)).1 = sortDefs ((f.segs.map (MixFile.saidAtO ws rt)).foldl applyRev []) := rfl
    rw [hres, mem_sortDefs, mem_foldl_applyRev (MixFile.saidAtO ws rt) f.segs hnd [] (k, v)]
    have hB : ∀ q ∈ f.segs, NotMent (MixFile.saidAtO ws rt q) (k, v) ↔ ∀ e ∈ q.1.ents, e.obj ≠ k.1 := by
      intro q hq
      exact not_mentioned_iffO (h.tableObjs q hq) ws (hrowsM q hq) (rt q) k.1
    have hA : ∀ q, (k, v) ∈ (MixFile.saidAtO ws rt q).written ↔
        (∃ p ∈ mobjsOf q, (p.1.num, p.1.gen) = k ∧ (p.1.val p.2).val = v) ∨
        ∃ e ∈ q.1.ents, memberOf ws e = some (k, v) := by
      intro q
      exact mem_writtenO ws (mobjsOf q) q.1.ents (rt q) k v
    constructor
    · rintro (⟨hnil, _⟩ | ⟨pre, q, post, hseg, hw, hall⟩)
      · cases hnil
      · have hq : q ∈ f.segs := by rw [hseg]; simp
        have hlater : ∀ q' ∈ post, ∀ e' ∈ q'.1.ents, e'.obj ≠ k.1 :=
          fun q' hq' => (hB q' (by rw [hseg]; simp [hq'])).mp (hall q' hq')
        rcases (hA q).mp hw with ⟨p, hp, hk, hv⟩ | ⟨e, he, hm⟩
        · obtain ⟨e, he, heo, heg, hst⟩ := (h.tableObjs q hq).ent_of_obj p hp
          have hk1 : p.1.num = k.1 := congrArg Prod.fst hk
          have D := (hdec pre q post hseg e he (by rw [heo, hk1]; exact hlater)).1
          rw [← hk, ← hv]
          exact D.obj_bound p hp heo.symm heg.symm hst
        · obtain ⟨hk1, c, i, hst⟩ := memberOf_num ws e (k, v) hm
          have hk1' : k.1 = e.obj := hk1
          have D := (hdec pre q post hseg e he (by rw [← hk1']; exact hlater)).2
          obtain ⟨w, hw', hwc, m, hmi, _, hdef, _⟩ := D c i hst
          have hm' := memberOf_of ws h.contsNodup e c i hst w hw' hwc m hmi
          rw [hm] at hm'
          injection hm' with hm'
          injection hm' with hk' hv'
          rw [hk', hv']
          exact hdef
    · intro hg
      obtain ⟨n, g⟩ := k
      by_cases hm : ∃ q ∈ f.segs, ∃ e ∈ q.1.ents, e.obj = n
      · obtain ⟨pre, q, post, hseg, ⟨e, he, hen⟩, hall⟩ :=
          exists_last (fun q : MRev × Nat => ∃ e ∈ q.1.ents, e.obj = n) f.segs hm
        subst hen
        have hq : q ∈ f.segs := by rw [hseg]; simp
        have hno : ∀ q' ∈ post, ∀ e' ∈ q'.1.ents, e'.obj ≠ e.obj :=
          fun q' hq' e' he' hee => hall q' hq' ⟨e', he', hee⟩
        have hnm : ∀ q' ∈ post, NotMent (MixFile.saidAtO ws rt q') ((e.obj, g), v) :=
          fun q' hq' => (hB q' (by rw [hseg]; simp [hq'])).mpr (hno q' hq')
        obtain ⟨D, DS⟩ := hdec pre q post hseg e he hno
        right
        refine ⟨pre, q, post, hseg, (hA q).mpr ?_, hnm⟩
        by_cases hstm : ∃ c i, e.st = .inStream c i
        · obtain ⟨c, i, hst⟩ := hstm
          obtain ⟨w, hw', hwc, m, hmi, _, hdef, hoth⟩ := DS c i hst
          right
          refine ⟨e, he, ?_⟩
          by_cases hg0 : g = 0
          · subst hg0
            rw [hdef] at hg
            injection hg with hg
            rw [memberOf_of ws h.contsNodup e c i hst w hw' hwc m hmi, hg]
          · rw [hoth g hg0] at hg
            cases hg
        · left
          exact D.bound_inv (fun a b hst => hstm ⟨a, b, hst⟩) g v hg
      · rw [hnone n (fun q hq e he hen => hm ⟨q, hq, e, he, hen⟩) g] at hg
        cases hg

end Parsley.LoaderE2E
