/-
  C04 generator link, COMPOSITION (follow-up C03d): the file `DocSpec.renderHistory garbage binary revs` written by the
  executable encoder for ANY number of revisions is the byte string of a well-formed `MixFile`
  (Lemmas/LoaderE2EHistMix.lean), provided every revision links to a written revision (`RevLink`, interface file
  LoaderE2EHistRenderI.lean; proved per kind in LoaderE2EHistRenderC / LoaderE2EHistRenderS).

    `Step`, `plan`      the schedule of the encoder: for each revision the position it is rendered at, its /Prev, and the
                        bytes that follow it up to the next revision's first object (its own `startxref` tail and the
                        detached padding of the next revision's first object) - these go into the revision's gap
    `renderRevs_saids`, `renderRevs_bytes`, `placeM_plan`   `renderRevs` in terms of the plan
    `histFile`          the layout
    `histFile_bytes`    its bytes are the rendered file
    `histFile_wf`       it is well formed (`MixFile.WF`) under conditions on the REVISIONS only (`HistOK`)
    `render_history_resolve`  what the encoder reports (`saids`) and what the layout says resolve to the same bindings
-/
import Parsley.Lemmas.LoaderE2EHistRenderI
import Parsley.Lemmas.LoaderE2EHistMixSpec
namespace Parsley.LoaderE2E
open Parsley Parsley.Prim Parsley.Obj Parsley.Indirect Parsley.Loader Parsley.C02 Parsley.Spelling Parsley.DocSpec
open Parsley.XrefSpec Parsley.C13 Parsley.LoaderChain Parsley.LoaderStage
open Parsley.C04 (StableGen)

/-- one revision in the encoder's schedule -/
structure Step where
  r : Rev
  pos : Nat            -- where `renderRev` starts writing
  pv : Option Nat      -- its /Prev
  g : Bytes            -- what follows the revision up to the first object of the next one

abbrev Mk := Rev → Nat → Option Nat → MRev × Ch

def autoRevs (revs : List Rev) : List (Rev × PrevMode) := revs.map fun r => (r, PrevMode.auto)

/-- what follows revision `r` (rendered at `pos` with /Prev `pv`) when `t` are the revisions after it -/
def gapOf (mk : Mk) (r : Rev) (t : List Rev) (pos : Nat) (pv : Option Nat) : Bytes :=
  match t with
  | [] => []
  | r' :: _ => tailBytes (renderRev r pos pv).2.1 (mk r pos pv).2 ++ nextPre r'.objs

/-- the schedule of `renderRevs` for revisions chained with `PrevMode.auto` -/
def plan (mk : Mk) : List Rev → Nat → Option Nat → List Step
  | [], _, _ => []
  | r :: t, pos, pv =>
    ⟨r, pos, pv, gapOf mk r t pos pv⟩ :: plan mk t (pos + (renderRev r pos pv).1.length) (some (renderRev r pos pv).2.1)

theorem plan_cons (mk : Mk) (r : Rev) (t : List Rev) (pos : Nat) (pv : Option Nat) :
    plan mk (r :: t) pos pv =
      ⟨r, pos, pv, gapOf mk r t pos pv⟩ :: plan mk t (pos + (renderRev r pos pv).1.length) (some (renderRev r pos pv).2.1) := rfl

namespace Step
/-- the written revision: the linked one with the gap extended -/
def mrev (mk : Mk) (s : Step) : MRev := (mk s.r s.pos s.pv).1.addGap s.g
/-- where the revision (its first object) starts -/
def start (s : Step) : Nat := s.pos + (nextPre s.r.objs).length
def seg (mk : Mk) (s : Step) : MRev × Nat := (s.mrev mk, s.start)
def said (s : Step) : Said := (renderRev s.r s.pos s.pv).2.2
def xofs (s : Step) : Nat := (renderRev s.r s.pos s.pv).2.1
def link (mk : Mk) (s : Step) : Prop := RevLink s.r s.pos s.pv (mk s.r s.pos s.pv).1 (mk s.r s.pos s.pv).2
end Step

theorem plan_revs (mk : Mk) : ∀ (revs : List Rev) (pos : Nat) (pv : Option Nat), (plan mk revs pos pv).map (·.r) = revs
  | [], _, _ => rfl
  | r :: t, pos, pv => by simp [plan, plan_revs mk t]

theorem plan_length (mk : Mk) (revs : List Rev) (pos : Nat) (pv : Option Nat) : (plan mk revs pos pv).length = revs.length := by
  have := congrArg List.length (plan_revs mk revs pos pv)
  simpa using this

theorem mem_plan_rev (mk : Mk) (revs : List Rev) (pos : Nat) (pv : Option Nat) (s : Step) (hs : s ∈ plan mk revs pos pv) :
    s.r ∈ revs := by
  have := plan_revs mk revs pos pv
  rw [← this]
  exact List.mem_map_of_mem hs

theorem plan_ne (mk : Mk) (revs : List Rev) (pos : Nat) (pv : Option Nat) (h : revs ≠ []) : plan mk revs pos pv ≠ [] := by
  intro hp
  have := plan_length mk revs pos pv
  rw [hp] at this
  exact h (List.eq_nil_of_length_eq_zero this.symm)

theorem getLast?_concat' {α : Type} (l : List α) (a : α) : (l ++ [a]).getLast? = some a := by
  simp

/-- what the encoder reports: one `Said` per step -/
theorem renderRevs_saids (mk : Mk) : ∀ (revs : List Rev) (pos : Nat) (xs : List Nat),
    (renderRevs (autoRevs revs) pos xs).2.2 = (plan mk revs pos xs.getLast?).map Step.said
  | [], _, _ => rfl
  | r :: t, pos, xs => by
    have ih := renderRevs_saids mk t (pos + (renderRev r pos xs.getLast?).1.length) (xs ++ [(renderRev r pos xs.getLast?).2.1])
    rw [getLast?_concat'] at ih
    show (renderRevs ((r, PrevMode.auto) :: autoRevs t) pos xs).2.2 = _
    simp only [renderRevs, plan, List.map_cons, Step.said]
    rw [← ih]

/-- the tail of the last step -/
def lastTail (mk : Mk) (p : List Step) : Bytes :=
  match p.getLast? with
  | some s => tailBytes s.xofs (mk s.r s.pos s.pv).2
  | none => []

theorem lastTail_cons_cons (mk : Mk) (a b : Step) (t : List Step) : lastTail mk (a :: b :: t) = lastTail mk (b :: t) := by
  simp [lastTail, List.getLast?_cons_cons]

theorem lastTail_cons_ne (mk : Mk) (a : Step) (P : List Step) (h : P ≠ []) : lastTail mk (a :: P) = lastTail mk P := by
  cases P with
  | nil => exact absurd rfl h
  | cons b t => exact lastTail_cons_cons mk a b t

/-- the detached padding of the first object of the first revision -/
def firstPre : List Rev → Bytes
  | [] => []
  | r :: _ => nextPre r.objs

theorem link_bytes {mk : Mk} {s : Step} (h : s.link mk) :
    (renderRev s.r s.pos s.pv).1 =
      nextPre s.r.objs ++ ((mk s.r s.pos s.pv).1.bytes ++ tailBytes s.xofs (mk s.r s.pos s.pv).2) := by
  have h1 := congrArg Prod.fst h.render
  have h2 := congrArg (fun t => t.2.1) h.render
  simp only at h1 h2
  rw [h1]
  unfold Step.xofs
  rw [h2]

theorem link_xofs {mk : Mk} {s : Step} (h : s.link mk) : s.xofs = s.start + (mk s.r s.pos s.pv).1.secRel := by
  have h2 := congrArg (fun t => t.2.1) h.render
  exact h2

/-- **the bytes `renderRevs` writes**: padding of the first object, the revisions of the plan, the last tail -/
theorem renderRevs_bytes (mk : Mk) : ∀ (revs : List Rev) (pos : Nat) (xs : List Nat),
    (∀ s ∈ plan mk revs pos xs.getLast?, s.link mk) →
    (renderRevs (autoRevs revs) pos xs).1 =
      firstPre revs ++ (mrevsBytes ((plan mk revs pos xs.getLast?).map (Step.mrev mk)) ++ lastTail mk (plan mk revs pos xs.getLast?))
  | [], _, _, _ => rfl
  | [r], pos, xs, hl => by
    rw [plan_cons] at hl
    have h0 := hl _ List.mem_cons_self
    have hb := link_bytes h0
    simp only [Step.xofs] at hb
    show (renderRevs [(r, PrevMode.auto)] pos xs).1 = _
    rw [plan_cons]
    simp only [renderRevs, plan, gapOf, List.map_cons, List.map_nil, mrevsBytes, lastTail, List.getLast?_singleton, firstPre,
      Step.mrev, MRev.addGap_bytes, List.append_nil, Step.xofs]
    rw [hb]
  | r :: r' :: t, pos, xs, hl => by
    rw [plan_cons] at hl
    have h0 := hl _ List.mem_cons_self
    have hb := link_bytes h0
    simp only [Step.xofs] at hb
    have ih := renderRevs_bytes mk (r' :: t) (pos + (renderRev r pos xs.getLast?).1.length)
      (xs ++ [(renderRev r pos xs.getLast?).2.1])
      (by rw [getLast?_concat']; exact fun s hs => hl s (List.mem_cons_of_mem _ hs))
    rw [getLast?_concat'] at ih
    show (renderRevs ((r, PrevMode.auto) :: autoRevs (r' :: t)) pos xs).1 = _
    simp only [renderRevs]
    rw [ih, plan_cons mk r (r' :: t), List.map_cons]
    have hP := plan_ne mk (r' :: t) (pos + (renderRev r pos xs.getLast?).1.length) (some (renderRev r pos xs.getLast?).2.1)
      (by simp)
    generalize plan mk (r' :: t) (pos + (renderRev r pos xs.getLast?).1.length) (some (renderRev r pos xs.getLast?).2.1) = P
      at hP ⊢
    rw [lastTail_cons_ne mk _ P hP]
    simp only [mrevsBytes, firstPre, Step.mrev, MRev.addGap_bytes, gapOf]
    generalize mrevsBytes (P.map fun s => (mk s.r s.pos s.pv).1.addGap s.g) = Z
    rw [hb]
    simp only [List.append_assoc]

/-- **the layout's placement of the plan's revisions** is the plan's own schedule -/
theorem placeM_plan (mk : Mk) : ∀ (revs : List Rev) (pos : Nat) (pv : Option Nat),
    (∀ s ∈ plan mk revs pos pv, s.link mk) →
    placeM ((plan mk revs pos pv).map (Step.mrev mk)) (pos + (firstPre revs).length) = (plan mk revs pos pv).map (Step.seg mk)
  | [], _, _, _ => rfl
  | [r], pos, pv, _ => by
    simp [plan, placeM, Step.seg, Step.start, firstPre]
  | r :: r' :: t, pos, pv, hl => by
    rw [plan_cons] at hl
    have h0 := hl _ List.mem_cons_self
    have hb := link_bytes h0
    simp only [Step.xofs] at hb
    have ih := placeM_plan mk (r' :: t) (pos + (renderRev r pos pv).1.length) (some (renderRev r pos pv).2.1)
      (fun s hs => hl s (List.mem_cons_of_mem _ hs))
    rw [plan_cons mk r (r' :: t)]
    simp only [List.map_cons, placeM]
    have hlen : pos + (firstPre (r :: r' :: t)).length +
        (Step.mrev mk ⟨r, pos, pv, gapOf mk r (r' :: t) pos pv⟩).bytes.length =
        pos + (renderRev r pos pv).1.length + (firstPre (r' :: t)).length := by
      rw [hb]
      simp only [Step.mrev, MRev.addGap_bytes, firstPre, gapOf, List.length_append]
      omega
    rw [hlen, ih]
    rfl

/-! ## facts about the plan -/

/-- /Prev of every revision is the offset of the section before it -/
theorem plan_prevs (mk : Mk) : ∀ (revs : List Rev) (pos : Nat) (pv : Option Nat),
    (∀ s ∈ plan mk revs pos pv, s.link mk) → MPrevOK pv ((plan mk revs pos pv).map (Step.seg mk))
  | [], _, _, _ => trivial
  | r :: t, pos, pv, hl => by
    rw [plan_cons] at hl ⊢
    rw [List.map_cons, MPrevOK_cons]
    have h0 := hl _ List.mem_cons_self
    refine ⟨?_, ?_⟩
    · show ((mk r pos pv).1.addGap _).prev = pv
      rw [MRev.addGap_prev]
      exact h0.prev
    · have hx := link_xofs h0
      have : secOfs (Step.seg mk ⟨r, pos, pv, gapOf mk r t pos pv⟩) = (renderRev r pos pv).2.1 := by
        simp only [secOfs, Step.seg, Step.mrev, MRev.addGap_secRel]
        exact hx.symm
      rw [this]
      exact plan_prevs mk t _ _ (fun s hs => hl s (List.mem_cons_of_mem _ hs))

/-! ## the layout -/

/-- the layout of the file `renderHistory garbage binary (autoRevs revs)` -/
def histFile (mk : Mk) (garbage : Bytes) (binary : Bool) (revs : List Rev) : MixFile where
  garbage := garbage
  hdrRest := hdrTail binary ++ firstPre revs
  revs := (plan mk revs (header binary).length none).map (Step.mrev mk)
  wsx := match (plan mk revs (header binary).length none).getLast? with
    | some s => (wsReq (mk s.r s.pos s.pv).2).1
    | none => []
  ds := match (plan mk revs (header binary).length none).getLast? with
    | some s => natDigits s.xofs
    | none => []
  e := [10]
  trail := [10]

theorem histFile_hdr_length (mk : Mk) (garbage : Bytes) (binary : Bool) (revs : List Rev) :
    (histFile mk garbage binary revs).hdr.length = (header binary).length + (firstPre revs).length := by
  simp only [MixFile.hdr, histFile, header_eq, List.length_append]
  omega

/-- **the bytes of the layout are the rendered file** -/
theorem histFile_bytes (mk : Mk) (garbage : Bytes) (binary : Bool) (revs : List Rev) (hne : revs ≠ [])
    (hl : ∀ s ∈ plan mk revs (header binary).length none, s.link mk) :
    (renderHistory garbage binary (autoRevs revs)).1 = (histFile mk garbage binary revs).bytes := by
  have hb := renderRevs_bytes mk revs (header binary).length [] hl
  simp only [List.getLast?_nil] at hb
  simp only [renderHistory]
  rw [hb]
  have hp := plan_ne mk revs (header binary).length none hne
  obtain ⟨s, hs⟩ : ∃ s, (plan mk revs (header binary).length none).getLast? = some s := by
    cases h : (plan mk revs (header binary).length none).getLast? with
    | none => exact absurd (List.getLast?_eq_none_iff.mp h) hp
    | some s => exact ⟨s, rfl⟩
  simp only [MixFile.bytes, MixFile.view, MixFile.hdr, MixFile.mid, histFile, lastTail]
  generalize plan mk revs (header binary).length none = P at hs ⊢
  simp only [hs, tailBytes_eq, header_eq, List.append_assoc]

theorem histFile_segs (mk : Mk) (garbage : Bytes) (binary : Bool) (revs : List Rev)
    (hl : ∀ s ∈ plan mk revs (header binary).length none, s.link mk) :
    (histFile mk garbage binary revs).segs = (plan mk revs (header binary).length none).map (Step.seg mk) := by
  unfold MixFile.segs
  rw [histFile_hdr_length]
  exact placeM_plan mk revs _ none hl

/-- conditions on the REVISIONS of a history (besides each revision being linkable) -/
structure HistOK (revs : List Rev) : Prop where
  ne : revs ≠ []
  /-- stable generations: an object number is mentioned with one generation only, over all revisions -/
  stable : ∀ k1 ∈ revs.flatMap revKeys, ∀ k2 ∈ revs.flatMap revKeys, k1.1 = k2.1 → k1.2 = k2.2
  /-- infrastructure objects are not edited: no later revision mentions the number of a cross-reference stream object -/
  notEdited : ∀ pre r post, revs = pre ++ r :: post → r.lay.kind = 1 → ∀ r' ∈ post, ∀ k ∈ revKeys r', k.1 ≠ r.lay.xnum
  /-- object number 0 is the head of the free list, never an object -/
  nonzero : ∀ r ∈ revs, (∀ o ∈ r.objs, o.num ≠ 0) ∧ (r.lay.kind = 1 → r.lay.xnum ≠ 0)

/-- the root of the newest revision -/
def lastRoot (revs : List Rev) : DocSpec.ObjId := ((revs.getLast?).map (·.root)).getD (0, 0)

theorem map_decomp {α β : Type} (f : α → β) (l : List α) (pre : List β) (q : β) (post : List β)
    (h : l.map f = pre ++ q :: post) :
    ∃ lpre s lpost, l = lpre ++ s :: lpost ∧ lpre.map f = pre ∧ f s = q ∧ lpost.map f = post := by
  obtain ⟨l1, l2, rfl, h1, h2⟩ := List.map_eq_append_iff.mp h
  obtain ⟨s, l3, rfl, h3, h4⟩ := List.map_eq_cons_iff.mp h2
  exact ⟨l1, s, l3, rfl, h1, h3, h4⟩

/-- **the layout of a rendered history is well formed** -/
theorem histFile_wf (mk : Mk) (garbage : Bytes) (binary : Bool) (revs : List Rev) (hg : NoMagic garbage)
    (hok : HistOK revs) (hl : ∀ s ∈ plan mk revs (header binary).length none, s.link mk)
    (hfit : ∀ s ∈ plan mk revs (header binary).length none, s.xofs ≤ i64Max) :
    (histFile mk garbage binary revs).WF (lastRoot revs) := by
  have hsegs := histFile_segs mk garbage binary revs hl
  have hp := plan_ne mk revs (header binary).length none hok.ne
  obtain ⟨sl, hsl⟩ : ∃ s, (plan mk revs (header binary).length none).getLast? = some s := by
    cases h : (plan mk revs (header binary).length none).getLast? with
    | none => exact absurd (List.getLast?_eq_none_iff.mp h) hp
    | some s => exact ⟨s, rfl⟩
  have hslm : sl ∈ plan mk revs (header binary).length none := List.mem_of_getLast? hsl
  generalize hf : histFile mk garbage binary revs = f at *
  have hwsx : f.wsx = (wsReq (mk sl.r sl.pos sl.pv).2).1 := by rw [← hf]; simp only [histFile, hsl]
  have hds : f.ds = natDigits sl.xofs := by rw [← hf]; simp only [histFile, hsl]
  obtain ⟨d1, d2, d3⟩ := natDigits_spec _ (hfit sl hslm)
  have hkeys : ∀ s ∈ plan mk revs (header binary).length none, ∀ e ∈ (Step.mrev mk s).ents,
      (e.obj, e.gen) ∈ revs.flatMap revKeys := by
    intro s hs e he
    rw [Step.mrev, MRev.addGap_ents] at he
    exact List.mem_flatMap.mpr ⟨s.r, mem_plan_rev mk revs _ _ s hs, ((hl s hs).keys _).mp ⟨e, he, rfl⟩⟩
  exact {
    noMagic := by
      have : f.bytes = f.garbage ++ f.view := rfl
      have hgb : f.garbage = garbage := by rw [← hf]; rfl
      rw [this, hgb]
      intro k hk
      have hv : f.view = kwPdf ++ (f.hdrRest ++ (f.mid ++ (kwStartxref ++ (f.wsx ++ (f.ds ++ (f.e ++ (kwEOF ++ f.trail))))))) := by
        simp [MixFile.view, MixFile.hdr]
      rw [List.drop_append_of_le_length (by omega), hv, ← List.append_assoc,
        isPrefixOf_append_of_le _ _ _ (by simp [kwPdf])]
      exact hg k hk
    revsOk := by
      intro m hm
      have : f.revs = (plan mk revs (header binary).length none).map (Step.mrev mk) := by rw [← hf]; rfl
      rw [this] at hm
      obtain ⟨s, hs, rfl⟩ := List.mem_map.mp hm
      exact MRev.addGap_ok _ _ (hl s hs).ok
    prevs := by
      rw [hsegs]
      exact plan_prevs mk revs _ none hl
    newest := by
      refine ⟨Step.seg mk sl, ?_, ?_, ?_⟩
      · rw [hsegs, List.getLast?_map, hsl]; rfl
      · show ((mk sl.r sl.pos sl.pv).1.addGap sl.g).root = _
        rw [MRev.addGap_root, (hl sl hslm).root]
        have : (revs.getLast?).map (·.root) = some sl.r.root := by
          have h1 := plan_revs mk revs (header binary).length none
          rw [← h1, List.getLast?_map, hsl]
          rfl
        simp [lastRoot, this]
      · rw [hds, d3]
        simp only [secOfs, Step.seg, Step.mrev, MRev.addGap_secRel]
        exact link_xofs (hl sl hslm)
    stableGen := by
      intro a ha b hb hab
      obtain ⟨qa, hqa, hea⟩ := (f.mem_tables a).mp ha
      obtain ⟨qb, hqb, heb⟩ := (f.mem_tables b).mp hb
      rw [hsegs] at hqa hqb
      obtain ⟨sa, hsa, rfl⟩ := List.mem_map.mp hqa
      obtain ⟨sb, hsb, rfl⟩ := List.mem_map.mp hqb
      exact hok.stable _ (hkeys sa hsa a hea) _ (hkeys sb hsb b heb) hab
    tableObjs := by
      intro q hq
      rw [hsegs] at hq
      obtain ⟨s, hs, rfl⟩ := List.mem_map.mp hq
      show TableOf (Step.mrev mk s).ents (place (Step.mrev mk s).body s.start)
      rw [Step.mrev, MRev.addGap_ents, MRev.addGap_body]
      exact (hl s hs).tableObjs
    notEdited := by
      intro pre q post hseg k hk q' hq' e' he'
      rw [hsegs] at hseg
      obtain ⟨ppre, s, ppost, hpl, -, rfl, rfl⟩ := map_decomp _ _ _ _ _ hseg
      obtain ⟨s', hs', rfl⟩ := List.mem_map.mp hq'
      have hs : s ∈ plan mk revs (header binary).length none := by rw [hpl]; simp
      have hs'm : s' ∈ plan mk revs (header binary).length none := by rw [hpl]; simp [hs']
      have hk' : (mk s.r s.pos s.pv).1.xsKey = some k := by
        have : (Step.mrev mk s).xsKey = some k := hk
        rwa [Step.mrev, MRev.addGap_xsKey] at this
      rw [(hl s hs).xsKey] at hk'
      have hrevs : revs = ppre.map (·.r) ++ s.r :: ppost.map (·.r) := by
        rw [← plan_revs mk revs (header binary).length none, hpl]
        simp
      by_cases hkind : s.r.lay.kind = 1
      · rw [if_pos hkind] at hk'
        cases hk'
        have hkey := hkeys s' hs'm e' he'
        have hkey' : (e'.obj, e'.gen) ∈ revKeys s'.r := by
          have he'' : e' ∈ (mk s'.r s'.pos s'.pv).1.ents := by
            have : e' ∈ (Step.mrev mk s').ents := he'
            rwa [Step.mrev, MRev.addGap_ents] at this
          exact ((hl s' hs'm).keys _).mp ⟨e', he'', rfl⟩
        exact hok.notEdited _ _ _ hrevs hkind s'.r (List.mem_map_of_mem hs') _ hkey'
      · rw [if_neg hkind] at hk'
        cases hk'
    wsx := by rw [hwsx]; exact (wsReq_run _).1
    wsxNe := by rw [hwsx]; exact (wsReq_run _).2
    wsxNoS := by rw [hwsx]; exact wsReq_no_s _
    dsNe := by rw [hds]; exact d1
    dsDig := by rw [hds]; exact d2
    ofsFits := by rw [hds, d3]; exact hfit sl hslm
    e := by rw [← hf]; show ∀ y ∈ ([10] : Bytes), isWsEol y = true; decide
    trail := by rw [← hf]; exact noLaterEOF_of_no_percent [10] (by decide) }

/-! ## every step links, from a bound on the size of the file -/

theorem renderRevs_cons_bytes (r : Rev) (t : List Rev) (pos : Nat) (xs : List Nat) :
    (renderRevs (autoRevs (r :: t)) pos xs).1 =
      (renderRev r pos xs.getLast?).1 ++
        (renderRevs (autoRevs t) (pos + (renderRev r pos xs.getLast?).1.length) (xs ++ [(renderRev r pos xs.getLast?).2.1])).1 := by
  show (renderRevs ((r, PrevMode.auto) :: autoRevs t) pos xs).1 = _
  simp only [renderRevs]

/-- **all steps link** when every revision links wherever it fits below the bound `B` and the whole file does -/
theorem plan_links (mk : Mk) (B : Nat) (revs : List Rev)
    (hmk : ∀ r ∈ revs, ∀ pos pv, pos + (renderRev r pos pv).1.length < B → (∀ p, pv = some p → p < B) →
      RevLink r pos pv (mk r pos pv).1 (mk r pos pv).2) :
    ∀ (rs : List Rev) (pos : Nat) (xs : List Nat), (∀ r ∈ rs, r ∈ revs) →
      pos + (renderRevs (autoRevs rs) pos xs).1.length < B ∨ rs = [] → (∀ p, xs.getLast? = some p → p < B) →
      ∀ s ∈ plan mk rs pos xs.getLast?, s.link mk ∧ s.xofs < B
  | [], _, _, _, _, _ => by intro s hs; cases hs
  | r :: t, pos, xs, hsub, hB, hpv => by
    have hB' : pos + (renderRevs (autoRevs (r :: t)) pos xs).1.length < B := by
      rcases hB with h | h
      · exact h
      · cases h
    rw [renderRevs_cons_bytes, List.length_append] at hB'
    have hlink : RevLink r pos xs.getLast? (mk r pos xs.getLast?).1 (mk r pos xs.getLast?).2 :=
      hmk r (hsub r List.mem_cons_self) pos xs.getLast? (by omega) hpv
    have hs0 : Step.link mk ⟨r, pos, xs.getLast?, gapOf mk r t pos xs.getLast?⟩ := hlink
    have hx : (renderRev r pos xs.getLast?).2.1 < pos + (renderRev r pos xs.getLast?).1.length := by
      have h1 := link_xofs hs0
      have h2 := link_bytes hs0
      simp only [Step.xofs, Step.start] at h1 h2
      rw [h2, h1]
      have := (mk r pos xs.getLast?).1.secRel_lt
      simp only [List.length_append]
      omega
    intro s hs
    rw [plan_cons] at hs
    rcases List.mem_cons.mp hs with rfl | hs
    · exact ⟨hs0, by show (renderRev r pos xs.getLast?).2.1 < B; omega⟩
    · have ih := plan_links mk B revs hmk t (pos + (renderRev r pos xs.getLast?).1.length)
        (xs ++ [(renderRev r pos xs.getLast?).2.1]) (fun r' hr' => hsub r' (List.mem_cons_of_mem _ hr'))
        (Or.inl (by omega)) (by
          intro p hp
          rw [getLast?_concat'] at hp
          cases hp
          omega)
      rw [getLast?_concat'] at ih
      exact ih s hs

/-! ## what the encoder reports resolves like what the layout says -/

theorem place_map_fst : ∀ (ps : List Placed) (pos : Nat), (place ps pos).map Prod.fst = ps.map (·.p)
  | [], _ => rfl
  | q :: t, pos => by simp [place, place_map_fst t]

theorem place_nums (ps : List Placed) (pos : Nat) :
    (place ps pos).map (fun q => q.1.num) = (ps.map (fun q => (q.p.num, q.p.gen))).map Prod.fst := by
  have : (place ps pos).map (fun q => q.1.num) = ((place ps pos).map Prod.fst).map Piece.num := by
    rw [List.map_map]; rfl
  rw [this, place_map_fst, List.map_map, List.map_map]
  rfl

/-- the numbers of the keys a revision's section mentions -/
theorem revKeys_nums (r : Rev) (n : Nat) :
    (∃ k ∈ revKeys r, k.1 = n) ↔
      (n ∈ r.objs.map DObj.num ∨ (r.zero = true ∧ n = 0) ∨ n ∈ r.frees.map Prod.fst ∨ (r.lay.kind = 1 ∧ n = r.lay.xnum)) := by
  unfold revKeys
  constructor
  · rintro ⟨k, hk, rfl⟩
    simp only [List.mem_append, List.mem_map] at hk
    rcases hk with ⟨o, ho, rfl⟩ | hk | hk | hk
    · exact Or.inl (List.mem_map_of_mem ho)
    · cases hz : r.zero <;> simp [hz] at hk
      subst hk
      exact Or.inr (Or.inl ⟨rfl, rfl⟩)
    · exact Or.inr (Or.inr (Or.inl (List.mem_map_of_mem hk)))
    · by_cases hkind : r.lay.kind = 1
      · simp [hkind] at hk
        subst hk
        exact Or.inr (Or.inr (Or.inr ⟨hkind, rfl⟩))
      · simp [hkind] at hk
  · rintro (h | ⟨hz, rfl⟩ | h | ⟨hkind, rfl⟩)
    · obtain ⟨o, ho, rfl⟩ := List.mem_map.mp h
      exact ⟨(o.num, o.gen), by simp only [List.mem_append, List.mem_map]; exact Or.inl ⟨o, ho, rfl⟩, rfl⟩
    · exact ⟨(0, 65535), by simp [hz], rfl⟩
    · obtain ⟨fr, hfr, rfl⟩ := List.mem_map.mp h
      exact ⟨fr, by simp only [List.mem_append]; exact Or.inr (Or.inr (Or.inl hfr)), rfl⟩
    · exact ⟨(r.lay.xnum, 0), by simp [hkind], rfl⟩

/-- the numbers of the objects a linked revision writes -/
theorem link_written_nums {r : Rev} {pos : Nat} {pv : Option Nat} {m : MRev} {c : Ch} (h : RevLink r pos pv m c) (p : Nat) (n : Nat) :
    n ∈ (place m.body p).map (fun q => q.1.num) ↔ (n ∈ r.objs.map DObj.num ∨ (r.lay.kind = 1 ∧ n = r.lay.xnum)) := by
  rw [place_nums, h.ids]
  by_cases hkind : r.lay.kind = 1
  · simp [hkind, List.map_map, Function.comp_def]
  · simp [hkind, List.map_map, Function.comp_def]

/-- **`render_history_resolve`**: the encoder's report and the layout's description of the revisions have the same
    meaning (`DocSpec.resolve`), and the root is the newest revision's -/
theorem render_history_resolve (mk : Mk) (garbage : Bytes) (binary : Bool) (revs : List Rev) (hok : HistOK revs)
    (hl : ∀ s ∈ plan mk revs (header binary).length none, s.link mk) (rt : MRev × Nat → DocSpec.ObjId) :
    (resolve (renderHistory garbage binary (autoRevs revs)).2.2.2).2 = some (lastRoot revs) ∧
    ∀ x, x ∈ (resolve (renderHistory garbage binary (autoRevs revs)).2.2.2).1 ↔
      x ∈ (resolve ((histFile mk garbage binary revs).saids rt)).1 := by
  have hsaids : (renderHistory garbage binary (autoRevs revs)).2.2.2 =
      (plan mk revs (header binary).length none).map Step.said := by
    have := renderRevs_saids mk revs (header binary).length []
    simp only [List.getLast?_nil] at this
    simp only [renderHistory]
    exact this
  have hsegs := histFile_segs mk garbage binary revs hl
  have hfs : (histFile mk garbage binary revs).saids rt =
      (plan mk revs (header binary).length none).map (fun s => MixFile.saidAt rt (Step.seg mk s)) := by
    unfold MixFile.saids
    rw [hsegs, List.map_map]
    rfl
  rw [hsaids, hfs]
  have hpl := plan_revs mk revs (header binary).length none
  have hpne := plan_ne mk revs (header binary).length none hok.ne
  generalize plan mk revs (header binary).length none = P at hl hpl hpne
  -- per step
  have hrender : ∀ s ∈ P, s.said = ⟨(place (Step.mrev mk s).body s.start).map (fun q => ((q.1.num, q.1.gen), (q.1.val q.2).val)),
      s.r.frees.map Prod.fst, s.r.root⟩ := by
    intro s hs
    have := congrArg (fun t => t.2.2) (hl s hs).render
    simp only at this
    rw [Step.mrev, MRev.addGap_body]
    exact this
  have hA : ∀ s ∈ P, s.said.written = (MixFile.saidAt rt (Step.seg mk s)).written := by
    intro s hs
    rw [hrender s hs]
    rfl
  have hrev : ∀ s ∈ P, s.r ∈ revs := by
    intro s hs
    rw [← hpl]
    exact List.mem_map_of_mem hs
  have hwn : ∀ s ∈ P, ∀ n, n ∈ s.said.written.map (·.1.1) ↔
      (n ∈ s.r.objs.map DObj.num ∨ (s.r.lay.kind = 1 ∧ n = s.r.lay.xnum)) := by
    intro s hs n
    rw [hrender s hs]
    simp only [List.map_map]
    have := link_written_nums (hl s hs) s.start n
    rw [Step.mrev, MRev.addGap_body]
    exact this
  have hC : ∀ s ∈ P, ∀ x ∈ s.said.written, x.1.1 ≠ 0 := by
    intro s hs x hx h0
    have hm : x.1.1 ∈ s.said.written.map (·.1.1) := List.mem_map_of_mem hx
    rw [hwn s hs, h0] at hm
    obtain ⟨hz1, hz2⟩ := hok.nonzero s.r (hrev s hs)
    rcases hm with hm | ⟨hk, hm⟩
    · obtain ⟨o, ho, hon⟩ := List.mem_map.mp hm
      exact hz1 o ho hon
    · exact hz2 hk hm.symm
  have hB : ∀ s ∈ P, ∀ x : DocSpec.ObjId × Obj, x.1.1 ≠ 0 →
      (NotMent s.said x ↔ NotMent (MixFile.saidAt rt (Step.seg mk s)) x) := by
    intro s hs x hx0
    have hlk := hl s hs
    have hto : TableOf (Step.seg mk s).1.ents (mobjsOf (Step.seg mk s)) := by
      show TableOf (Step.mrev mk s).ents (place (Step.mrev mk s).body s.start)
      rw [Step.mrev, MRev.addGap_ents, MRev.addGap_body]
      exact hlk.tableObjs
    have hnostm := (MRev.addGap_ok _ s.g hlk.ok).noStm
    have h2 : NotMent (MixFile.saidAt rt (Step.seg mk s)) x ↔ ∀ e ∈ (Step.seg mk s).1.ents, e.obj ≠ x.1.1 :=
      not_mentioned_iff hto hnostm (rt _) x.1.1
    rw [h2]
    have hents : (Step.seg mk s).1.ents = (mk s.r s.pos s.pv).1.ents := by
      show (Step.mrev mk s).ents = _
      rw [Step.mrev, MRev.addGap_ents]
    rw [hents]
    have hk : (∃ e ∈ (mk s.r s.pos s.pv).1.ents, e.obj = x.1.1) ↔ ∃ k ∈ revKeys s.r, k.1 = x.1.1 := by
      constructor
      · rintro ⟨e, he, hen⟩
        exact ⟨(e.obj, e.gen), (hlk.keys _).mp ⟨e, he, rfl⟩, hen⟩
      · rintro ⟨k, hk, hkn⟩
        obtain ⟨e, he, hek⟩ := (hlk.keys k).mpr hk
        exact ⟨e, he, by rw [← hkn, ← hek]⟩
    unfold NotMent
    have hfr : s.said.freed = s.r.frees.map Prod.fst := by rw [hrender s hs]
    rw [hfr, hwn s hs]
    have hkn := (revKeys_nums s.r x.1.1)
    constructor
    · rintro ⟨hf, hw⟩ e he hen
      have := hkn.mp (hk.mp ⟨e, he, hen⟩)
      rcases this with h | ⟨_, h⟩ | h | h
      · exact hw (Or.inl h)
      · exact hx0 h
      · exact hf h
      · exact hw (Or.inr h)
    · intro hall
      refine ⟨fun hf => ?_, fun hw => ?_⟩
      · obtain ⟨e, he, hen⟩ := hk.mpr (hkn.mpr (Or.inr (Or.inr (Or.inl hf))))
        exact hall e he hen
      · rcases hw with h | h
        · obtain ⟨e, he, hen⟩ := hk.mpr (hkn.mpr (Or.inl h))
          exact hall e he hen
        · obtain ⟨e, he, hen⟩ := hk.mpr (hkn.mpr (Or.inr (Or.inr (Or.inr h))))
          exact hall e he hen
  have hnd2 : ∀ s ∈ P, ((MixFile.saidAt rt (Step.seg mk s)).written.map (·.1.1)).Nodup := by
    intro s hs
    have hlk := hl s hs
    have hto : TableOf (Step.seg mk s).1.ents (mobjsOf (Step.seg mk s)) := by
      show TableOf (Step.mrev mk s).ents (place (Step.mrev mk s).body s.start)
      rw [Step.mrev, MRev.addGap_ents, MRev.addGap_body]
      exact hlk.tableObjs
    unfold MixFile.saidAt
    rw [written_nums]
    exact hto.nums_nodup (MRev.addGap_ok _ s.g hlk.ok).noStm (MRev.addGap_ok _ s.g hlk.ok).nums
  have hnd1 : ∀ s ∈ P, (s.said.written.map (·.1.1)).Nodup := by
    intro s hs
    rw [hA s hs]
    exact hnd2 s hs
  refine ⟨?_, ?_⟩
  · show ((P.map Step.said).getLast?).map (·.root) = _
    rw [List.getLast?_map]
    cases hlast : P.getLast? with
    | none => exact absurd (List.getLast?_eq_none_iff.mp hlast) hpne
    | some sl =>
      have hslm : sl ∈ P := List.mem_of_getLast? hlast
      have : (revs.getLast?).map (·.root) = some sl.r.root := by
        rw [← hpl, List.getLast?_map, hlast]
        rfl
      simp only [lastRoot, this, Option.map_some, Option.getD_some]
      rw [hrender sl hslm]
  · intro x
    show x ∈ sortDefs ((P.map Step.said).foldl applyRev []) ↔
      x ∈ sortDefs ((P.map fun s => MixFile.saidAt rt (Step.seg mk s)).foldl applyRev [])
    rw [mem_sortDefs, mem_sortDefs, mem_foldl_applyRev Step.said P hnd1 [] x,
      mem_foldl_applyRev (fun s => MixFile.saidAt rt (Step.seg mk s)) P hnd2 [] x]
    constructor
    · rintro (⟨hnil, _⟩ | ⟨pre, a, post, hP, hw, hall⟩)
      · cases hnil
      · right
        have ha : a ∈ P := by rw [hP]; simp
        refine ⟨pre, a, post, hP, by rw [← hA a ha]; exact hw, ?_⟩
        intro b hb
        have hbm : b ∈ P := by rw [hP]; simp [hb]
        exact (hB b hbm x (hC a ha x hw)).mp (hall b hb)
    · rintro (⟨hnil, _⟩ | ⟨pre, a, post, hP, hw, hall⟩)
      · cases hnil
      · right
        have ha : a ∈ P := by rw [hP]; simp
        have hw' : x ∈ a.said.written := by rw [hA a ha]; exact hw
        refine ⟨pre, a, post, hP, hw', ?_⟩
        intro b hb
        have hbm : b ∈ P := by rw [hP]; simp [hb]
        exact (hB b hbm x (hC a ha x hw')).mpr (hall b hb)

end Parsley.LoaderE2E
