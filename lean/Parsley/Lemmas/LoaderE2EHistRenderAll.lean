/-
  C04 generator link, both kinds (follow-up C03d): `mkRev` picks the written revision for a `Rev` by its layout kind
  (0: classic table, Lemmas/LoaderE2EHistRenderC.lean; 1: cross-reference stream, Lemmas/LoaderE2EHistRenderS.lean);
  `mkRev_link`: every simple revision links wherever it is rendered below 2^32.
-/
import Parsley.Lemmas.LoaderE2EHistRender
import Parsley.Lemmas.LoaderE2EHistRenderC
import Parsley.Lemmas.LoaderE2EHistRenderS
namespace Parsley.LoaderE2E
open Parsley Parsley.Prim Parsley.Obj Parsley.Indirect Parsley.Loader Parsley.C02 Parsley.Spelling Parsley.DocSpec
open Parsley.XrefSpec Parsley.C13

/-- the written revision (and the choice stream of its `startxref` tail) for a revision of kind 0 or 1 -/
def mkRev : Mk := fun r pos pv =>
  if r.lay.kind = 0 then (clsRev r pos pv, clsCh r pos pv) else (stmRev r pos pv, stmCh r pos pv)

/-- the restriction of the link (`_partial`): a revision with a classic table (`SimpleRev`) or with a cross-reference
    stream (`SimpleRevX`; when FlateDecode'd the rows must fit one stored block: at most 13 bytes per row) -/
def SimpleRevAny (r : Rev) : Prop :=
  SimpleRev r ∨ (SimpleRevX r ∧ (r.lay.flate = true → (r.objs.length + r.frees.length + 2) * 13 ≤ 65535))

theorem xesOf_length (r : Rev) (pos : Nat) (h : SimpleRevX r) : (xesOf r pos).length ≤ r.objs.length + r.frees.length + 2 := by
  unfold xesOf
  rw [(sortXE_perm _).length_eq]
  simp only [List.length_append, List.length_cons, List.length_nil, memsOf_nil r h.noMembers]
  rw [usesOf_eq r pos h.objs, List.length_map, place_length]
  have : (freesOf r).length ≤ r.frees.length + 1 := by
    unfold freesOf
    cases r.zero <;> simp
  omega

theorem mkRev_link (r : Rev) (h : SimpleRevAny r) (pos : Nat) (pv : Option Nat)
    (hsz : pos + (renderRev r pos pv).1.length < 2 ^ 32) (hpv : ∀ p, pv = some p → p < 2 ^ 32) :
    RevLink r pos pv (mkRev r pos pv).1 (mkRev r pos pv).2 := by
  have h32 : (2 : Nat) ^ 32 < 10 ^ 10 := by decide
  rcases h with h | ⟨h, hst⟩
  · have hk := h.kind
    simp only [mkRev, hk, if_true]
    exact cls_link r pos pv h (by omega) (fun p hp => by have := hpv p hp; omega)
  · have hk := h.kind
    simp only [mkRev, hk, (by decide : ¬ (1 : Nat) = 0), if_false]
    refine stm_link r pos pv h ?_ hsz hpv
    intro hfl
    have hlen := xesOf_length r pos h
    have := hst hfl
    exact xstoreFits_of_count r.lay (xesOf r pos) h.w0 (by
      have : (xesOf r pos).length * 13 ≤ (r.objs.length + r.frees.length + 2) * 13 := Nat.mul_le_mul_right _ hlen
      omega) hfl

end Parsley.LoaderE2E
