/-
  C04 generator link, classic-table revisions (follow-up C03d): a revision written by the executable encoder
  `DocSpec.renderRev r pos pv` with `r.lay.kind = 0` (classic cross-reference table, trailer with an optional
  /Prev entry), at ANY position `pos`, IS a written classic revision `clsRev r pos pv : MRev` of the declarative
  layout of Lemmas/LoaderE2EHistMix.lean (interface: `RevLink`, Lemmas/LoaderE2EHistRenderI.lean).

    `pad10_val`, `padDec_isDigit`, `rawPrev`   the zero padded /Prev value spells the integer
    `rotate_three`, `cls_trailer_spells`       the trailer dictionary (Size, Root, optional Prev, any rotation) is a legal
                                               spelling of the canonical dictionary `clsDict`
    `renderRev_cls`                            the kind-0 branch of `renderRev` spelled out for any /Prev
    `clsRev`, `clsCh`, `cls_link`              the written revision, the choice stream of its tail, the link

  Restriction as in Lemmas/LoaderE2ERender.lean (`SimpleRev`: scalar objects written canonically, no offset swap /
  relabelling).  Size hypotheses: the revision ends below 10^10, /Prev below 10^10.
-/
import Parsley.Lemmas.LoaderE2EHistRenderI
namespace Parsley.LoaderE2E
open Parsley Parsley.Prim Parsley.Obj Parsley.Indirect Parsley.Loader Parsley.C02 Parsley.Spelling Parsley.DocSpec
open Parsley.XrefSpec Parsley.C13 Parsley.LoaderChain Parsley.LoaderStage

/-! ## the /Prev value -/

theorem padDec_isDigit : ∀ (w v : Nat), ∀ y ∈ padDec w v, isDigit y = true
  | 0, _ => by intro y hy; cases hy
  | w + 1, v => by
    intro y hy
    simp only [padDec, encBase, List.mem_cons] at hy
    rcases hy with rfl | hy
    · exact (digit_ofNat _ (Nat.mod_lt _ (by decide))).1
    · exact padDec_isDigit w (v % 10 ^ w) y hy

theorem pad10_val (p : Nat) (hp : p < 10 ^ 10) : digitsVal (pad10 p) 0 = p := by
  have := foldl_encBase 10 48 (by omega) (by omega) 10 p 0 hp
  simpa [digitsVal, pad10, padDec] using this

theorem pad10_ne (p : Nat) : pad10 p ≠ [] := by
  intro h
  have := congrArg List.length h
  simp [pad10, padDec_length] at this

theorem bs_Prev : bs "Prev" = kPrev := by decide +kernel

/-- the zero padded /Prev value spells the integer (leading zeros are legal) -/
theorem rawPrev (p : Nat) (hp : p < 10 ^ 10) : RawEnt (kPrev, pad10 p) (kPrev, .int (p : Int)) := by
  refine ⟨rfl, (by decide : okKey kPrev = true), ⟨[1, 0, 0, 1, 0, 0, 1, 0, 0, 1, 0, 0], (by decide : (nameBody kPrev _).1 = kPrev)⟩, ?_⟩
  have hfit : digitsVal (pad10 p) 0 ≤ i64Max := by
    rw [pad10_val p hp]
    have : (10 : Nat) ^ 10 ≤ i64Max := by decide
    omega
  have := Spells.int 0 .none (pad10 p) (pad10_ne p) (padDec_isDigit 10 p) hfit
  rw [pad10_val p hp] at this
  exact this

/-! ## the trailer dictionary -/

theorem rotate_three {α : Type} (a b c : α) (k : Nat) :
    rotate [a, b, c] k = [a, b, c] ∨ rotate [a, b, c] k = [b, c, a] ∨ rotate [a, b, c] k = [c, a, b] := by
  unfold rotate
  have : k % 3 = 0 ∨ k % 3 = 1 ∨ k % 3 = 2 := by omega
  rcases this with h | h | h <;> simp [h]

/-- the pre-rendered /Prev entry of a trailer -/
def prevRaw : Option Nat → List (Bytes × Bytes)
  | some p => [(bs "Prev", pad10 p)]
  | none => []

/-- the trailer dictionary VALUE of a classic revision: key-sorted (Prev, Root, Size) -/
def clsDict (size : Nat) (root : Nat × Nat) : Option Nat → List (Bytes × Obj)
  | none => trailerDict size root
  | some p => (kPrev, .int (p : Int)) :: trailerDict size root

/-- **trailer**: the trailer dictionary written by the kind-0 branch (Size, Root, optional Prev, any rotation) is a
    legal spelling of `clsDict` -/
theorem cls_trailer_spells (size : Nat) (root : Nat × Nat) (pv : Option Nat) (k : Nat) (c : Ch)
    (hs : size ≤ i64Max) (h1 : root.1 ≤ i64Max) (h2 : root.2 ≤ i64Max) (hpv : ∀ p, pv = some p → p < 10 ^ 10) :
    Spells 2 (.dict (clsDict size root pv))
      (bs "<<" ++ (spellRaw (rotate ([(bs "Size", natDigits size), (bs "Root", refBytes root)] ++ prevRaw pv) k) c).1) := by
  cases pv with
  | none => exact trailer_spells size root k c hs h1 h2
  | some p =>
    have hp := hpv p rfl
    have e : ([(bs "Size", natDigits size), (bs "Root", refBytes root)] ++ prevRaw (some p) : List (Bytes × Bytes)) =
        [(kSize, natDigits size), (kRoot, refBytes root), (kPrev, pad10 p)] := by
      rw [bs_Size, bs_Root]
      show _ ++ [(bs "Prev", pad10 p)] = _
      rw [bs_Prev]
      rfl
    rw [bs_ltlt, e]
    rcases rotate_three (kSize, natDigits size) (kRoot, refBytes root) (kPrev, pad10 p) k with e | e | e <;> rw [e]
    · obtain ⟨body, sep, hb, hse, hsep⟩ := spellRaw_entries
        (RawEnts.cons (rawSize size hs) (RawEnts.cons (rawRoot root h1 h2) (RawEnts.cons (rawPrev p hp) RawEnts.nil)))
        [] c (by simp [kSize, kRoot, kPrev]) (by simp)
      rw [hb]
      exact Spells.dict 1 _ body sep hse hsep
    · obtain ⟨body, sep, hb, hse, hsep⟩ := spellRaw_entries
        (RawEnts.cons (rawRoot root h1 h2) (RawEnts.cons (rawPrev p hp) (RawEnts.cons (rawSize size hs) RawEnts.nil)))
        [] c (by simp [kSize, kRoot, kPrev]) (by simp)
      rw [hb]
      exact Spells.dict 1 _ body sep hse hsep
    · obtain ⟨body, sep, hb, hse, hsep⟩ := spellRaw_entries
        (RawEnts.cons (rawPrev p hp) (RawEnts.cons (rawSize size hs) (RawEnts.cons (rawRoot root h1 h2) RawEnts.nil)))
        [] c (by simp [kSize, kRoot, kPrev]) (by simp)
      rw [hb]
      exact Spells.dict 1 _ body sep hse hsep

theorem clsDict_prev (size : Nat) (root : Nat × Nat) (pv : Option Nat) : ObjStm.getUsize (clsDict size root pv) kPrev = pv := by
  cases pv with
  | none => rfl
  | some p => simp [clsDict, ObjStm.getUsize, dictGet, isUsize]

theorem clsDict_root (size : Nat) (root : Nat × Nat) (pv : Option Nat) :
    dictGet kRoot (clsDict size root pv) = some (.ref root.1 root.2) := by
  cases pv <;> rfl

theorem clsDict_noXRefStm (size : Nat) (root : Nat × Nat) (pv : Option Nat) :
    ObjStm.getUsize (clsDict size root pv) kXRefStm = none := by
  cases pv <;> rfl

theorem clsDict_noEncrypt (size : Nat) (root : Nat × Nat) (pv : Option Nat) :
    dictGet kEncrypt (clsDict size root pv) = none := by
  cases pv <;> rfl

/-! ## the kind-0 branch of `renderRev` with any /Prev -/

/-- the trailer dictionary as written (after `<<`) and the choices left for the tail -/
def clsRaw (r : Rev) (pos : Nat) (pv : Option Nat) : Bytes × Ch :=
  spellRaw (rotate ([(bs "Size", natDigits (sizeOf r pos)), (bs "Root", refBytes r.root)] ++ prevRaw pv) r.lay.dictOrder)
    (wsOpt r.lay.ch).2

theorem renderRev_cls (r : Rev) (pos : Nat) (pv : Option Nat) (hk : r.lay.kind = 0) (hs : r.lay.swap = none)
    (hr : r.lay.relabel = none) :
    renderRev r pos pv =
      ((renderObjs r.objs pos).1 ++ encTable (tableSubs r.lay (sortXE (usesOf r pos ++ freesOf r))) ++ bs "trailer" ++
        (wsOpt r.lay.ch).1 ++ bs "<<" ++ (clsRaw r pos pv).1 ++ [10] ++
        tailBytes (pos + (renderObjs r.objs pos).1.length) (clsRaw r pos pv).2,
       pos + (renderObjs r.objs pos).1.length, ⟨(renderObjs r.objs pos).2.2, r.frees.map (·.1), r.root⟩) := by
  cases pv with
  | none =>
    unfold renderRev
    simp only [hk, hs, hr, swapOfs, relabelUse]
    rfl
  | some p =>
    unfold renderRev
    simp only [hk, hs, hr, swapOfs, relabelUse]
    rfl

/-! ## the written revision -/

/-- the written revision for a kind-0 `Rev` rendered at `pos` with /Prev `pv`; its gap is the LF after the trailer
    dictionary -/
def clsRev (r : Rev) (pos : Nat) (pv : Option Nat) : MRev :=
  .classic ⟨placedOf r.objs, tableSubs r.lay (sortXE (usesOf r pos ++ freesOf r)), (wsOpt r.lay.ch).1,
    bs "<<" ++ (clsRaw r pos pv).1, [10]⟩ (clsDict (sizeOf r pos) r.root pv)

/-- the choice stream handed to `tailBytes` -/
def clsCh (r : Rev) (pos : Nat) (pv : Option Nat) : Ch := (clsRaw r pos pv).2

theorem cls_render (r : Rev) (pos : Nat) (pv : Option Nat) (h : SimpleRev r) :
    renderRev r pos pv =
      (nextPre r.objs ++ ((clsRev r pos pv).bytes ++
        tailBytes (pos + (nextPre r.objs).length + (clsRev r pos pv).secRel) (clsCh r pos pv)),
       pos + (nextPre r.objs).length + (clsRev r pos pv).secRel,
       ⟨(place (clsRev r pos pv).body (pos + (nextPre r.objs).length)).map
          (fun q => ((q.1.num, q.1.gen), (q.1.val q.2).val)), r.frees.map Prod.fst, r.root⟩) := by
  rw [renderRev_cls r pos pv h.kind h.swap h.relabel, renderObjs_body r.objs pos h.objs]
  simp only [clsRev, clsCh, MRev.bytes, MRev.body, MRev.tail, MRev.secRel, bs_trailer, List.append_assoc,
    List.length_append, Nat.add_assoc]

/-- the body ends inside the rendered revision -/
theorem cls_bound (r : Rev) (pos : Nat) (pv : Option Nat) (h : SimpleRev r) :
    pos + (nextPre r.objs).length + (bodyBytes (placedOf r.objs)).length ≤ pos + (renderRev r pos pv).1.length := by
  rw [cls_render r pos pv h]
  simp only [clsRev, MRev.bytes, MRev.body, List.length_append]
  omega

/-! ## sizes and entries -/

theorem cls_size (r : Rev) (pos : Nat) (h : SimpleRev r) : sizeOf r pos ≤ i64Max := by
  have hU := usesOf_eq r pos h.objs
  unfold sizeOf
  have : maxOf ((usesOf r pos ++ memsOf r ++ freesOf r).map (·.num) ++ [r.lay.xnum]) ≤ i64Max - 1 := by
    apply maxOf_le
    intro x hx
    have hnf := h.numsFit
    simp only [List.map_append, List.append_assoc, hU, List.map_map, freesOf_nums] at hx
    have e1 : ((place (placedOf r.objs) (pos + (nextPre r.objs).length)).map ((fun x => x.num) ∘ xeOf)) =
        r.objs.map DObj.num := pieces_nums r.objs _ h.objs
    rw [e1] at hx
    simp only [List.mem_append] at hx hnf
    have hi : 0 < i64Max := by decide
    rcases hx with hx | hx | hx | hx | hx
    · have := hnf x (Or.inl hx); omega
    · have : x ∈ r.members.map Prod.fst := by
        simp only [memsOf, List.map_map] at hx
        exact hx
      have := hnf x (Or.inr (Or.inl this)); omega
    · cases hz : r.zero <;> simp [hz] at hx
      omega
    · have := hnf x (Or.inr (Or.inr (Or.inl hx))); omega
    · have := hnf x (Or.inr (Or.inr (Or.inr hx))); omega
  have hi : 0 < i64Max := by decide
  omega

theorem place_length (objs : List DObj) (p : Nat) : (place (placedOf objs) p).length = objs.length := by
  have := congrArg List.length (place_fst objs p)
  simpa using this

/-- the entries of the table fit their fields -/
theorem cls_entries (r : Rev) (pos : Nat) (h : SimpleRev r)
    (hofs : ∀ q ∈ place (placedOf r.objs) (pos + (nextPre r.objs).length), q.2 < 10 ^ 10) :
    ∀ e ∈ sortXE (usesOf r pos ++ freesOf r), e.num < 2 ^ 63 ∧ e.f2 < 10 ^ 10 ∧ e.f3 ≤ 65535 := by
  have hU := usesOf_eq r pos h.objs
  have hperm := sortXE_perm (usesOf r pos ++ freesOf r)
  intro e he
  have he' := hperm.mem_iff.mp he
  have hnf := h.numsFit
  simp only [List.mem_append] at he' hnf
  rcases he' with he' | he'
  · rw [hU] at he'
    obtain ⟨q, hq, rfl⟩ := List.mem_map.mp he'
    have hm : q.1 ∈ r.objs.map pieceOf := by
      rw [← place_fst r.objs (pos + (nextPre r.objs).length)]
      exact List.mem_map_of_mem hq
    obtain ⟨o, ho, hoq⟩ := List.mem_map.mp hm
    have hso := h.objs o ho
    refine ⟨?_, hofs q hq, ?_⟩
    · show q.1.num < 2 ^ 63
      rw [← hoq, pieceOf_num o hso]
      have := hso.2.1
      unfold i64Max at this; omega
    · show q.1.gen ≤ 65535
      rw [← hoq, pieceOf_gen o hso]
      exact h.gens o ho
  · unfold freesOf at he'
    simp only [List.mem_append, List.mem_map] at he'
    rcases he' with he' | ⟨fr, hfr, rfl⟩
    · cases hz : r.zero <;> simp [hz] at he'
      subst he'
      exact ⟨by decide, by decide, by decide⟩
    · refine ⟨?_, (by decide : (0 : Nat) < 10 ^ 10), h.freeGens fr hfr⟩
      have := hnf fr.1 (Or.inr (Or.inr (Or.inl (List.mem_map_of_mem hfr))))
      show fr.1 < 2 ^ 63
      unfold i64Max at this; omega

theorem cls_count (r : Rev) (pos : Nat) (h : SimpleRev r) : (sortXE (usesOf r pos ++ freesOf r)).length < 2 ^ 63 := by
  rw [(sortXE_perm _).length_eq, List.length_append, usesOf_eq r pos h.objs, List.length_map, place_length]
  have : (freesOf r).length ≤ r.frees.length + 1 := by
    unfold freesOf
    cases r.zero <;> simp
  have := h.count
  omega

theorem cls_ne (r : Rev) (pos : Nat) (h : SimpleRev r) : sortXE (usesOf r pos ++ freesOf r) ≠ [] := by
  intro he
  have := (sortXE_perm (usesOf r pos ++ freesOf r)).length_eq
  rw [he, List.length_append, usesOf_eq r pos h.objs, List.length_map, place_length] at this
  have : r.objs.length = 0 := by simp at this; omega
  exact h.objsNe (List.eq_nil_of_length_eq_zero this)

/-- the table mentions every object number at most once -/
theorem cls_numsNodup (r : Rev) (pos : Nat) (h : SimpleRev r) :
    ((tableEnts (tableSubs r.lay (sortXE (usesOf r pos ++ freesOf r)))).map (·.obj)).Nodup := by
  have hnumsU : (usesOf r pos).map (·.num) = r.objs.map DObj.num := by
    rw [usesOf_eq r pos h.objs, List.map_map]
    exact pieces_nums r.objs _ h.objs
  rw [tableEnts_tableSubs, List.map_map]
  have : (sortXE (usesOf r pos ++ freesOf r)).map ((fun x => x.obj) ∘ entOf) =
      (sortXE (usesOf r pos ++ freesOf r)).map (·.num) := rfl
  rw [this]
  apply ((sortXE_perm _).map _).nodup_iff.mpr
  rw [List.map_append, hnumsU, freesOf_nums]
  exact h.numsNodup

/-- the in-use entries of the table are exactly the objects at their offsets -/
theorem cls_tableObjs (r : Rev) (pos : Nat) (h : SimpleRev r) :
    TableOf (tableEnts (tableSubs r.lay (sortXE (usesOf r pos ++ freesOf r))))
      (place (placedOf r.objs) (pos + (nextPre r.objs).length)) := by
  have hU := usesOf_eq r pos h.objs
  have hfil : ((sortXE (usesOf r pos ++ freesOf r)).filter (·.typ == 1)).Perm
      ((place (placedOf r.objs) (pos + (nextPre r.objs).length)).map xeOf) := by
    have := (sortXE_perm (usesOf r pos ++ freesOf r)).filter (·.typ == 1)
    rw [List.filter_append, freesOf_filter, List.append_nil] at this
    have e : (usesOf r pos).filter (·.typ == 1) = (place (placedOf r.objs) (pos + (nextPre r.objs).length)).map xeOf := by
      rw [hU, uses_filter]
    rw [e] at this
    exact this
  obtain ⟨perm, hp, hm⟩ := perm_of_perm_map xeOf hfil
  refine ⟨perm, hp, ?_⟩
  rw [tableEnts_tableSubs, infoOf_map_entOf, ← hm, List.map_map]
  rfl

/-! ## the keys mentioned -/

/-- the (number, generation) pair an entry to be written stands for -/
def keyOf (x : XE) : Nat × Nat := (x.num, x.f3)

theorem pieces_ids : ∀ (objs : List DObj) (p : Nat), (∀ o ∈ objs, SimpleObj o) →
    (place (placedOf objs) p).map (fun q => (q.1.num, q.1.gen)) = objs.map (fun o => (o.num, o.gen))
  | [], _, _ => rfl
  | o :: t, p, h => by
    have ho := h o List.mem_cons_self
    show ((pieceOf o).num, (pieceOf o).gen) :: (place (placedOf t) _).map _ = _
    rw [pieces_ids t _ (fun x hx => h x (List.mem_cons_of_mem _ hx)), pieceOf_num o ho, pieceOf_gen o ho]
    rfl

theorem placedOf_ids : ∀ (objs : List DObj), (∀ o ∈ objs, SimpleObj o) →
    (placedOf objs).map (fun q => (q.p.num, q.p.gen)) = objs.map (fun o => (o.num, o.gen))
  | [], _ => rfl
  | o :: t, h => by
    have ho := h o List.mem_cons_self
    show ((pieceOf o).num, (pieceOf o).gen) :: (placedOf t).map _ = _
    rw [placedOf_ids t (fun x hx => h x (List.mem_cons_of_mem _ hx)), pieceOf_num o ho, pieceOf_gen o ho]
    rfl

theorem cls_keyList (r : Rev) (pos : Nat) (h : SimpleRev r) : (usesOf r pos ++ freesOf r).map keyOf = revKeys r := by
  rw [List.map_append, usesOf_eq r pos h.objs, List.map_map]
  have e1 : (place (placedOf r.objs) (pos + (nextPre r.objs).length)).map (keyOf ∘ xeOf) =
      r.objs.map (fun o => (o.num, o.gen)) := pieces_ids r.objs _ h.objs
  rw [e1]
  unfold revKeys freesOf
  cases r.zero <;> simp [h.kind, keyOf, List.map_map, Function.comp_def]

theorem cls_keys (r : Rev) (pos : Nat) (h : SimpleRev r) (k : Nat × Nat) :
    (∃ e ∈ tableEnts (tableSubs r.lay (sortXE (usesOf r pos ++ freesOf r))), (e.obj, e.gen) = k) ↔ k ∈ revKeys r := by
  rw [tableEnts_tableSubs, ← cls_keyList r pos h]
  have hperm := sortXE_perm (usesOf r pos ++ freesOf r)
  constructor
  · rintro ⟨e, he, rfl⟩
    obtain ⟨x, hx, rfl⟩ := List.mem_map.mp he
    exact List.mem_map.mpr ⟨x, hperm.mem_iff.mp hx, rfl⟩
  · intro hk
    obtain ⟨x, hx, rfl⟩ := List.mem_map.mp hk
    exact ⟨entOf x, List.mem_map_of_mem (hperm.mem_iff.mpr hx), rfl⟩

/-! ## the link -/

/-- **the per-revision link for a classic-table revision** written at any position with any /Prev -/
theorem cls_link (r : Rev) (pos : Nat) (pv : Option Nat) (h : SimpleRev r)
    (hsz : pos + (renderRev r pos pv).1.length < 10 ^ 10) (hpv : ∀ p, pv = some p → p < 10 ^ 10) :
    RevLink r pos pv (clsRev r pos pv) (clsCh r pos pv) := by
  have hofs : ∀ q ∈ place (placedOf r.objs) (pos + (nextPre r.objs).length), q.2 < 10 ^ 10 := by
    intro q hq
    have h1 := place_bound _ _ q hq
    have h2 := cls_bound r pos pv h
    omega
  have hsec : SecOK ⟨0, tableSubs r.lay (sortXE (usesOf r pos ++ freesOf r)), (wsOpt r.lay.ch).1,
      bs "<<" ++ (clsRaw r pos pv).1, clsDict (sizeOf r pos) r.root pv⟩ :=
    { subsNe := tableSubs_ne _ _ (cls_ne r pos h)
      subsOk := tableSubs_subOk _ _ (cls_entries r pos h hofs) (cls_count r pos h)
      numsNodup := cls_numsNodup r pos h
      wt := wsOpt_run _
      trailer := ⟨2, cls_trailer_spells _ _ pv _ _ (cls_size r pos h) h.rootFit.1 h.rootFit.2 hpv, by decide⟩
      noXRefStm := clsDict_noXRefStm _ _ _ }
  have hok : ClassicOK ⟨placedOf r.objs, tableSubs r.lay (sortXE (usesOf r pos ++ freesOf r)), (wsOpt r.lay.ch).1,
      bs "<<" ++ (clsRaw r pos pv).1, [10]⟩ (clsDict (sizeOf r pos) r.root pv) :=
    { sec := hsec
      noEncrypt := clsDict_noEncrypt _ _ _
      reads := by
        intro q hq
        obtain ⟨o, ho, e⟩ := mem_placedOf r.objs q hq
        rw [e]
        exact pieceOf_reads o (h.objs o ho) }
  exact {
    render := cls_render r pos pv h
    ok := hok
    prev := clsDict_prev _ _ _
    root := clsDict_root _ _ _
    xsKey := by rw [h.kind]; rfl
    tableObjs := cls_tableObjs r pos h
    keys := cls_keys r pos h
    ids := by
      rw [h.kind]
      show (placedOf r.objs).map (fun q => (q.p.num, q.p.gen)) = r.objs.map (fun o => (o.num, o.gen)) ++ []
      rw [List.append_nil]
      exact placedOf_ids r.objs h.objs }

/-! ## non-vacuity: a concrete update revision written at offset 100 with /Prev 9 -/

/-- `LF 1 0 obj 7 endobj` (offset after the padding), `SP LF 2 0 obj /Cat endobj` (offset at the padding), one free
    entry, object 0, dictionary rotated once -/
def exClsRev : Rev where
  objs := [
    { num := 1, gen := 0, body := .val (.int 7) (.int 7), ch := [1, 6, 0, 2, 3, 1, 0, 0, 1, 2], pad := [10], ofsAtPad := false,
      lenRef := none, lenPos := 0, eol1 := 0, eol2 := 0 },
    { num := 2, gen := 0, body := .val (.name [67, 97, 116]) (.name [67, 97, 116]), ch := [0, 7, 1, 1, 0, 0], pad := [32, 10],
      ofsAtPad := true, lenRef := none, lenPos := 0, eol1 := 0, eol2 := 0 }]
  members := []
  frees := [(3, 1)]
  zero := true
  root := (2, 0)
  lay := { kind := 0, ch := [1, 7, 2, 0, 8, 1, 1, 9, 0, 2, 1], cut := 2, eols := [0, 1, 2], w0 := 1, x1 := 0, x2 := 0, omitIndex := false,
           flate := false, up := false, xnum := 9, hiddenGen := 0, swap := none, relabel := none, dictOrder := 1 }

theorem exClsRev_simple : SimpleRev exClsRev where
  kind := rfl
  swap := rfl
  relabel := rfl
  objs := by
    intro o ho
    simp only [exClsRev, List.mem_cons, List.mem_nil_iff, or_false] at ho
    rcases ho with rfl | rfl
    · exact SimpleObj.of_scalar (wsRun_of_ws _ (by decide)) (by decide) (by decide) (.int 7) rfl (by simp [wf]) trivial
    · exact SimpleObj.of_scalar (wsRun_of_ws _ (by decide)) (by decide) (by decide) (.name [67, 97, 116]) rfl (by simp [wf, okKey]) trivial
  objsNe := by simp [exClsRev]
  gens := by decide
  freeGens := by decide
  numsNodup := by decide
  numsFit := by decide
  count := by decide
  rootFit := by decide

set_option maxRecDepth 100000 in
/-- the hypotheses of `cls_link` are satisfiable (with a /Prev entry) -/
example : RevLink exClsRev 100 (some 9) (clsRev exClsRev 100 (some 9)) (clsCh exClsRev 100 (some 9)) :=
  cls_link exClsRev 100 (some 9) exClsRev_simple (by decide +kernel) (by
    intro p hp
    cases hp
    decide)

set_option maxRecDepth 100000 in
/-- ... and the written revision says /Prev 9 and lists the keys (1,0) (2,0) (0,65535) (3,1) -/
example : (clsRev exClsRev 100 (some 9)).prev = some 9 ∧
    (∀ k : Nat × Nat, (∃ e ∈ (clsRev exClsRev 100 (some 9)).ents, (e.obj, e.gen) = k) ↔
      k ∈ [(1, 0), (2, 0), (0, 65535), (3, 1)]) :=
  have l := cls_link exClsRev 100 (some 9) exClsRev_simple (by decide +kernel) (by
    intro p hp
    cases hp
    decide)
  ⟨l.prev, l.keys⟩

end Parsley.LoaderE2E
