/-
  C04 generator link, INTERFACE (follow-up C03d): what it means that one revision written by the executable encoder
  `DocSpec.renderRev r pos prev` IS a written revision `m : MRev` of the declarative layout of
  Lemmas/LoaderE2EHistMix.lean.

    `MRev.addGap`   append bytes to the arbitrary gap that ends a revision (the revision's own `startxref .. %%EOF`,
                    the detached padding of the next revision's first object); nothing else changes
    `revKeys`       the (number, generation) pairs a revision's cross-reference section mentions
    `RevLink r pos pv m c`   the per-revision link: bytes, offset, what the revision said, lexical well-formedness,
                    /Prev, /Root, the table lists exactly the objects, the keys mentioned
  Proved per kind in Lemmas/LoaderE2EHistRenderC.lean (classic table + /Prev) and LoaderE2EHistRenderS.lean
  (cross-reference stream + /Prev); composed over `renderRevs` in Lemmas/LoaderE2EHistRender.lean.
-/
import Parsley.Lemmas.LoaderE2EHistMix
import Parsley.Lemmas.LoaderE2ERenderX
namespace Parsley.LoaderE2E
open Parsley Parsley.Prim Parsley.Obj Parsley.Indirect Parsley.Loader Parsley.C02 Parsley.Spelling Parsley.DocSpec
open Parsley.XrefSpec Parsley.C13 Parsley.LoaderChain Parsley.LoaderStage

/-- append `g` to the arbitrary bytes that end the revision -/
def MRev.addGap : MRev → Bytes → MRev
  | .classic r D, g => .classic { r with gap := r.gap ++ g } D
  | .stream r, g => .stream { r with gap := r.gap ++ g }

theorem MRev.addGap_bytes (m : MRev) (g : Bytes) : (m.addGap g).bytes = m.bytes ++ g := by
  cases m with
  | classic r D => simp [MRev.addGap, MRev.bytes, MRev.body, MRev.tail]
  | stream r => simp [MRev.addGap, MRev.bytes, MRev.body, MRev.tail, StmSeg.body]

theorem MRev.addGap_body (m : MRev) (g : Bytes) : (m.addGap g).body = m.body := by
  cases m <;> rfl
theorem MRev.addGap_secRel (m : MRev) (g : Bytes) : (m.addGap g).secRel = m.secRel := by
  cases m <;> rfl
theorem MRev.addGap_ents (m : MRev) (g : Bytes) : (m.addGap g).ents = m.ents := by
  cases m <;> rfl
theorem MRev.addGap_prev (m : MRev) (g : Bytes) : (m.addGap g).prev = m.prev := by
  cases m <;> rfl
theorem MRev.addGap_root (m : MRev) (g : Bytes) : (m.addGap g).root = m.root := by
  cases m <;> rfl
theorem MRev.addGap_xsKey (m : MRev) (g : Bytes) : (m.addGap g).xsKey = m.xsKey := by
  cases m <;> rfl
theorem MRev.addGap_xsVal (m : MRev) (g : Bytes) (c : Nat) : (m.addGap g).xsVal c = m.xsVal c := by
  cases m <;> rfl

theorem MRev.addGap_ok (m : MRev) (g : Bytes) (h : MRevOK m) : MRevOK (m.addGap g) := by
  cases m with
  | classic r D =>
    have h' : ClassicOK r D := h
    exact (⟨h'.sec, h'.noEncrypt, h'.reads⟩ : ClassicOK { r with gap := r.gap ++ g } D)
  | stream r =>
    have h' : StmOK r := h
    exact (⟨h'.xsOK, h'.xsLen, h'.dict, h'.stored, h'.fits, h'.lim, h'.noInStm, h'.numsNodup, h'.reads1, h'.reads2⟩ :
      StmOK { r with gap := r.gap ++ g })

/-- the (number, generation) pairs the cross-reference section of a rendered revision mentions (no object-stream
    members): the objects written, object 0 if listed, the free entries, and for a cross-reference stream its own row -/
def revKeys (r : Rev) : List (Nat × Nat) :=
  r.objs.map (fun o => (o.num, o.gen)) ++ ((if r.zero then [(0, 65535)] else []) ++
    (r.frees ++ (if r.lay.kind = 1 then [(r.lay.xnum, 0)] else [])))

/-- **the per-revision link**: `renderRev r pos pv` writes - after the detached padding of its first object - the
    revision `m` followed by its own `startxref` tail (choice stream `c`); the offset it reports is where `m`'s
    cross-reference section starts; what it says it wrote are `m`'s objects (for a stream revision the
    cross-reference stream object included) with the values they have where they are written. -/
structure RevLink (r : Rev) (pos : Nat) (pv : Option Nat) (m : MRev) (c : Ch) : Prop where
  render : renderRev r pos pv =
    (nextPre r.objs ++ (m.bytes ++ tailBytes (pos + (nextPre r.objs).length + m.secRel) c),
     pos + (nextPre r.objs).length + m.secRel,
     ⟨(place m.body (pos + (nextPre r.objs).length)).map (fun q => ((q.1.num, q.1.gen), (q.1.val q.2).val)),
      r.frees.map Prod.fst, r.root⟩)
  ok : MRevOK m
  prev : m.prev = pv
  root : m.root = some (.ref r.root.1 r.root.2)
  xsKey : m.xsKey = if r.lay.kind = 1 then some (r.lay.xnum, 0) else none
  /-- the in-use entries are exactly the objects at their offsets -/
  tableObjs : TableOf m.ents (place m.body (pos + (nextPre r.objs).length))
  /-- the (number, generation) pairs the section mentions -/
  keys : ∀ k : Nat × Nat, (∃ e ∈ m.ents, (e.obj, e.gen) = k) ↔ k ∈ revKeys r
  /-- the identifiers of the objects of the body, in file order -/
  ids : m.body.map (fun q => (q.p.num, q.p.gen)) =
    r.objs.map (fun o => (o.num, o.gen)) ++ (if r.lay.kind = 1 then [(r.lay.xnum, 0)] else [])

end Parsley.LoaderE2E
