/-
  C04 generator link, cross-reference STREAM revisions (follow-up C03d), part 2: one revision written by the kind-1
  branch of `DocSpec.renderRev r pos pv` (any position `pos`, any /Prev `pv`) IS the written stream revision
  `stmRev r pos pv` of the declarative layout of Lemmas/LoaderE2EHistMix.lean, followed by its own `startxref` tail:

      stm_link : SimpleRevX r → XStoreFits .. → sizes → RevLink r pos pv (stmRev r pos pv) (stmCh r pos pv)

  The cross-reference stream object with /Prev is treated in Lemmas/LoaderE2EHistRenderS2.lean; the rows / widths /
  storage lemmas are those of Lemmas/LoaderE2ERenderX.lean, LoaderE2ERenderX3.lean (they do not depend on /Prev).
  Same restriction as the single-revision link (`SimpleRevX`): scalar objects written canonically, no object-stream
  members, no offset swap / relabelling.
-/
import Parsley.Lemmas.LoaderE2EHistRenderI
import Parsley.Lemmas.LoaderE2EHistRenderS2
namespace Parsley.LoaderE2E
open Parsley Parsley.Prim Parsley.Obj Parsley.Indirect Parsley.Loader Parsley.C02 Parsley.Spelling Parsley.DocSpec
open Parsley.XrefSpec Parsley.C13 Parsley.LoaderChain Parsley.LoaderStage

/-! ## the revision -/

/-- the cross-reference stream object of a kind-1 `Rev` rendered at `pos` with /Prev `pv` -/
def stmXs (r : Rev) (pos : Nat) (pv : Option Nat) : WStm := xstmOfP r.lay (xesOf r pos) (sizeOf r pos) r.root pv

/-- the written revision for a kind-1 `Rev` (no object-stream members) rendered at `pos` with /Prev `pv` -/
def stmRev (r : Rev) (pos : Nat) (pv : Option Nat) : MRev :=
  .stream ⟨placedOf r.objs, stmXs r pos pv, [10], [], [],
           xsubsOf r.lay.cut (xesOf r pos), xw0 r.lay (xesOf r pos), xw1 r.lay (xesOf r pos), xw2 r.lay (xesOf r pos)⟩

/-- the choice stream of the revision's own `startxref` tail -/
def stmCh (r : Rev) (_pos : Nat) (_pv : Option Nat) : Ch := r.lay.ch

/-! ## the kind-1 branch of `renderRev` with /Prev -/

theorem renderRev_xrefP (r : Rev) (pos : Nat) (pv : Option Nat) (hk : r.lay.kind = 1) (hs : r.lay.swap = none)
    (hr : r.lay.relabel = none) :
    renderRev r pos pv =
      ((renderObjs r.objs pos).1 ++
        (renderXrefStream r.lay (pos + (renderObjs r.objs pos).1.length) (xesOf r pos) (sizeOf r pos) (some r.root) pv).1 ++
        tailBytes (pos + (renderObjs r.objs pos).1.length) r.lay.ch,
       pos + (renderObjs r.objs pos).1.length,
       ⟨(renderObjs r.objs pos).2.2 ++ (r.members.map fun m => ((m.1, 0), m.2.2.2)) ++
          [((r.lay.xnum, 0),
            (renderXrefStream r.lay (pos + (renderObjs r.objs pos).1.length) (xesOf r pos) (sizeOf r pos) (some r.root) pv).2)],
        r.frees.map (·.1), r.root⟩) := by
  unfold renderRev
  simp only [hk, hs, hr, swapOfs, relabelUse]
  rfl

theorem stmRev_bytes (r : Rev) (pos : Nat) (pv : Option Nat) :
    (stmRev r pos pv).bytes = bodyBytes (placedOf r.objs) ++ ((stmXs r pos pv).bytes ++ [10]) := by
  simp [stmRev, MRev.bytes, MRev.body, MRev.tail, StmSeg.body, bodyBytes_append, bodyBytes, WStm.piece]

theorem stmRev_secRel (r : Rev) (pos : Nat) (pv : Option Nat) :
    (stmRev r pos pv).secRel = (bodyBytes (placedOf r.objs)).length := rfl

theorem stmRev_place (r : Rev) (pos : Nat) (pv : Option Nat) (p : Nat) :
    place (stmRev r pos pv).body p =
      place (placedOf r.objs) p ++ [((stmXs r pos pv).piece, p + (bodyBytes (placedOf r.objs)).length)] := by
  show place (placedOf r.objs ++ [⟨(stmXs r pos pv).piece, [10]⟩]) p = _
  rw [bodyBytes_length_place]
  rfl

/-- where the cross-reference stream object is written -/
theorem stm_p1 (r : Rev) (pos : Nat) (h : ∀ o ∈ r.objs, SimpleObj o) :
    pos + (renderObjs r.objs pos).1.length = pos + (nextPre r.objs).length + (bodyBytes (placedOf r.objs)).length := by
  rw [renderObjs_body r.objs pos h]
  simp only [List.length_append]
  omega

theorem stm_render (r : Rev) (pos : Nat) (pv : Option Nat) (h : SimpleRevX r) :
    renderRev r pos pv =
      (nextPre r.objs ++ ((stmRev r pos pv).bytes ++
          tailBytes (pos + (nextPre r.objs).length + (stmRev r pos pv).secRel) (stmCh r pos pv)),
       pos + (nextPre r.objs).length + (stmRev r pos pv).secRel,
       ⟨(place (stmRev r pos pv).body (pos + (nextPre r.objs).length)).map
          (fun q => ((q.1.num, q.1.gen), (q.1.val q.2).val)),
        r.frees.map Prod.fst, r.root⟩) := by
  have hx : r.lay.xnum ≤ i64Max := Nat.le_of_lt (h.numsFit _ (by simp))
  have hp1 := stm_p1 r pos h.objs
  rw [renderRev_xrefP r pos pv h.kind h.swap h.relabel, renderXrefStream_eqP, h.noMembers, hp1,
    stmRev_secRel, stmRev_bytes, stmRev_place, stmCh]
  rw [renderObjs_body r.objs pos h.objs]
  simp only [List.map_nil, List.append_nil, List.map_append, List.map_cons, List.append_assoc]
  have e1 : (stmXs r pos pv).piece.num = r.lay.xnum := xstm_numP _ _ _ _ _ hx
  have e2 : (stmXs r pos pv).piece.gen = 0 := rfl
  rw [e1, e2]
  rfl

/-! ## the rows -/

theorem xes_perm (r : Rev) (pos : Nat) (hm : r.members = []) :
    (xesOf r pos).Perm (usesOf r pos ++ freesOf r ++ [xselfOf r pos]) := by
  have := sortXE_perm (usesOf r pos ++ memsOf r ++ freesOf r ++ [xselfOf r pos])
  rw [memsOf_nil r hm, List.append_nil] at this
  unfold xesOf
  rw [memsOf_nil r hm, List.append_nil]
  exact this

theorem xes_rows (r : Rev) (pos : Nat) (h : SimpleRevX r)
    (hofs : ∀ q ∈ place (placedOf r.objs) (pos + (nextPre r.objs).length), q.2 < 2 ^ 32)
    (hp1 : pos + (renderObjs r.objs pos).1.length < 2 ^ 32) :
    ∀ e ∈ xesOf r pos, e.typ ≤ 1 ∧ e.num < 2 ^ 63 ∧ e.f2 < 2 ^ 32 ∧ e.f3 ≤ 65535 := by
  have hi63 : i64Max = 2 ^ 63 - 1 := rfl
  intro e he
  have he' := (xes_perm r pos h.noMembers).mem_iff.mp he
  have hnf := h.numsFit
  simp only [List.mem_append, List.mem_singleton] at he' hnf
  rcases he' with (he' | he') | he'
  · rw [usesOf_eq r pos h.objs] at he'
    obtain ⟨q, hq, rfl⟩ := List.mem_map.mp he'
    have hm : q.1 ∈ r.objs.map pieceOf := by
      rw [← place_fst r.objs (pos + (nextPre r.objs).length)]
      exact List.mem_map_of_mem hq
    obtain ⟨o, ho, hoq⟩ := List.mem_map.mp hm
    have hso := h.objs o ho
    refine ⟨Nat.le_refl 1, ?_, hofs q hq, ?_⟩
    · show q.1.num < 2 ^ 63
      rw [← hoq, pieceOf_num o hso]
      have := hso.2.1
      omega
    · show q.1.gen ≤ 65535
      rw [← hoq, pieceOf_gen o hso]
      exact h.gens o ho
  · unfold freesOf at he'
    simp only [List.mem_append, List.mem_map] at he'
    rcases he' with he' | ⟨fr, hfr, rfl⟩
    · cases hz : r.zero <;> simp [hz] at he'
      subst he'
      exact ⟨by decide, by decide, by decide, by decide⟩
    · refine ⟨Nat.zero_le 1, ?_, (by decide : (0 : Nat) < 2 ^ 32), h.freeGens fr hfr⟩
      have := hnf fr.1 (Or.inr (Or.inl (List.mem_map_of_mem hfr)))
      show fr.1 < 2 ^ 63
      omega
  · rw [he']
    refine ⟨Nat.le_refl 1, ?_, hp1, Nat.zero_le _⟩
    have := hnf r.lay.xnum (Or.inr (Or.inr rfl))
    show r.lay.xnum < 2 ^ 63
    omega

theorem stm_place_length (objs : List DObj) (p : Nat) : (place (placedOf objs) p).length = objs.length := by
  have := congrArg List.length (place_fst objs p)
  simpa using this

theorem xes_count (r : Rev) (pos : Nat) (h : SimpleRevX r) : (xesOf r pos).length < 2 ^ 63 ∧ xesOf r pos ≠ [] := by
  have hperm := xes_perm r pos h.noMembers
  constructor
  · rw [hperm.length_eq]
    simp only [List.length_append, List.length_cons, List.length_nil, usesOf_eq r pos h.objs, List.length_map, stm_place_length]
    have : (freesOf r).length ≤ r.frees.length + 1 := by
      unfold freesOf
      cases r.zero <;> simp
    have := h.count
    omega
  · intro he
    have := hperm.length_eq
    rw [he] at this
    simp at this

theorem xes_index (r : Rev) (pos : Nat)
    (hrows : ∀ e ∈ xesOf r pos, e.typ ≤ 1 ∧ e.num < 2 ^ 63 ∧ e.f2 < 2 ^ 32 ∧ e.f3 ≤ 65535)
    (hcount : (xesOf r pos).length < 2 ^ 63) :
    ∀ n ∈ xindexOf r.lay.cut (xesOf r pos), n ≤ i64Max := by
  have hi63 : i64Max = 2 ^ 63 - 1 := rfl
  intro n hn
  unfold xindexOf at hn
  obtain ⟨run, hrun, hn⟩ := List.mem_flatMap.mp hn
  simp only [List.mem_cons, List.mem_nil_iff, or_false] at hn
  rcases hn with rfl | rfl
  · cases hr : run with
    | nil => simp [startOf]
    | cons a t =>
      have ha : a ∈ xesOf r pos := runs_mem_sub _ _ run hrun a (by rw [hr]; exact List.mem_cons_self)
      have := (hrows a ha).2.1
      simp only [startOf, List.head?_cons, Option.map_some, Option.getD_some]
      omega
  · have := runs_length_le r.lay.cut (xesOf r pos) run hrun
    omega

theorem stm_uses_nums (r : Rev) (pos : Nat) (h : ∀ o ∈ r.objs, SimpleObj o) :
    (usesOf r pos).map (·.num) = r.objs.map DObj.num := by
  rw [usesOf_eq r pos h, List.map_map]; exact pieces_nums r.objs _ h

theorem stm_size_fit (r : Rev) (pos : Nat) (h : SimpleRevX r) : sizeOf r pos ≤ i64Max := by
  have hi63 : i64Max = 2 ^ 63 - 1 := rfl
  unfold sizeOf
  have : maxOf ((usesOf r pos ++ memsOf r ++ freesOf r).map (·.num) ++ [r.lay.xnum]) ≤ i64Max - 1 := by
    apply maxOf_le
    intro x hx
    have hnf := h.numsFit
    rw [memsOf_nil r h.noMembers, List.append_nil, List.map_append, stm_uses_nums r pos h.objs, freesOf_nums] at hx
    simp only [List.mem_append, List.mem_singleton] at hx hnf
    rcases hx with (hx | hx | hx) | hx
    · have := hnf x (Or.inl hx); omega
    · cases hz : r.zero <;> simp [hz] at hx
      omega
    · have := hnf x (Or.inr (Or.inl hx)); omega
    · have := hnf x (Or.inr (Or.inr hx)); omega
  omega

/-- the object numbers of the rows -/
theorem xes_nums (r : Rev) (pos : Nat) (h : SimpleRevX r) :
    ((xesOf r pos).map (·.num)).Perm
      (r.objs.map DObj.num ++ (((if r.zero then [0] else []) ++ r.frees.map Prod.fst) ++ [r.lay.xnum])) := by
  have := (xes_perm r pos h.noMembers).map (·.num)
  rw [List.map_append, List.map_append, stm_uses_nums r pos h.objs, freesOf_nums] at this
  simpa [List.append_assoc, xselfOf] using this

theorem stm_pieces_ids (objs : List DObj) (p : Nat) (h : ∀ o ∈ objs, SimpleObj o) :
    (place (placedOf objs) p).map (fun q => (q.1.num, q.1.gen)) = objs.map (fun o => (o.num, o.gen)) := by
  have : (place (placedOf objs) p).map (fun q => (q.1.num, q.1.gen)) =
      ((place (placedOf objs) p).map Prod.fst).map (fun q : Piece => (q.num, q.gen)) := by
    rw [List.map_map]; rfl
  rw [this, place_fst, List.map_map]
  apply List.map_congr_left
  intro o ho
  show ((pieceOf o).num, (pieceOf o).gen) = _
  rw [pieceOf_num o (h o ho), pieceOf_gen o (h o ho)]

theorem stm_placed_ids : ∀ (objs : List DObj), (∀ o ∈ objs, SimpleObj o) →
    (placedOf objs).map (fun q => (q.p.num, q.p.gen)) = objs.map (fun o => (o.num, o.gen))
  | [], _ => rfl
  | o :: t, h => by
    have ho := h o List.mem_cons_self
    show ((pieceOf o).num, (pieceOf o).gen) :: (placedOf t).map (fun q => (q.p.num, q.p.gen)) = _
    rw [stm_placed_ids t (fun x hx => h x (List.mem_cons_of_mem _ hx)), pieceOf_num o ho, pieceOf_gen o ho]
    rfl

theorem stm_frees_keys (r : Rev) :
    (freesOf r).map (fun e => (e.num, e.f3)) = (if r.zero then [(0, 65535)] else []) ++ r.frees := by
  unfold freesOf
  have : (r.frees.map fun f => (⟨f.1, 0, 0, f.2⟩ : XE)).map (fun e => (e.num, e.f3)) = r.frees := by
    rw [List.map_map]
    exact Eq.trans (List.map_congr_left (g := id) (fun f _ => rfl)) (List.map_id _)
  cases r.zero
  · simpa using this
  · simp only [if_true, List.map_append, this]
    rfl

/-! ## the storage hypothesis -/

/-- a simple sufficient condition for the storage hypothesis, independent of the position -/
theorem xstoreFits_of_count (lay : RevLay) (es : List XE) (hw0 : lay.w0 ≤ 4) (h : es.length * 13 ≤ 65535) :
    XStoreFits lay es := by
  obtain ⟨h0, _, h1, h2⟩ := xwidths lay es hw0
  have hW : xrowW lay es ≤ 12 := by unfold xrowW; omega
  have e1 : es.length * (xrowW lay es + 1) ≤ es.length * 13 := Nat.mul_le_mul_left _ (by omega)
  have e2 : es.length * xrowW lay es ≤ es.length * 13 := Nat.mul_le_mul_left _ (by omega)
  intro _
  split
  · omega
  · rw [xrows_length]; omega

/-! ## the link -/

/-- **the per-revision link, cross-reference stream revisions** -/
theorem stm_link (r : Rev) (pos : Nat) (pv : Option Nat) (h : SimpleRevX r)
    (hstore : XStoreFits r.lay (xesOf r pos))
    (hsz : pos + (renderRev r pos pv).1.length < 2 ^ 32) (hpv : ∀ p, pv = some p → p < 2 ^ 32) :
    RevLink r pos pv (stmRev r pos pv) (stmCh r pos pv) := by
  have hi63 : i64Max = 2 ^ 63 - 1 := rfl
  have hrender := stm_render r pos pv h
  have hp1e := stm_p1 r pos h.objs
  have hxb := WStm.bytes_pos (stmXs r pos pv)
  have hdl := wstm_data_le (stmXs r pos pv)
  -- sizes
  have hlen : pos + (nextPre r.objs).length + (bodyBytes (placedOf r.objs)).length + (stmXs r pos pv).bytes.length
      < 2 ^ 32 := by
    rw [hrender] at hsz
    simp only [stmRev_bytes, List.length_append] at hsz
    omega
  have hp1 : pos + (renderObjs r.objs pos).1.length < 2 ^ 32 := by omega
  have hofs : ∀ q ∈ place (placedOf r.objs) (pos + (nextPre r.objs).length), q.2 < 2 ^ 32 := by
    intro q hq
    have := place_bound (placedOf r.objs) _ q hq
    omega
  have hU := usesOf_eq r pos h.objs
  have hperm := xes_perm r pos h.noMembers
  have hrows := xes_rows r pos h hofs hp1
  obtain ⟨hcount, hne⟩ := xes_count r pos h
  have hidx := xes_index r pos hrows hcount
  have hxnum : r.lay.xnum < i64Max := h.numsFit _ (by simp)
  have hfitN : XNumsFit r.lay (xesOf r pos) (sizeOf r pos) r.root :=
    ⟨stm_size_fit r pos h, h.rootFit.1, h.rootFit.2, hidx, h.w0⟩
  have hdata : (xdataOf r.lay (xesOf r pos)).length ≤ i64Max := by
    have : (xdataOf r.lay (xesOf r pos)).length = (stmXs r pos pv).data.length := rfl
    omega
  have hpv10 : ∀ p, pv = some p → p < 10 ^ 10 := by
    intro p hp
    have := hpv p hp
    have : (2 : Nat) ^ 32 ≤ 10 ^ 10 := by decide
    omega
  have hse : streamEnts (xsubsOf r.lay.cut (xesOf r pos)) = (xesOf r pos).map entOf :=
    streamEnts_xsubsOf _ _ (fun e he => (hrows e he).1)
  have hxsnum : (stmXs r pos pv).num = r.lay.xnum := xstm_numP _ _ _ _ _ (by omega)
  have hxsgen : (stmXs r pos pv).gen = 0 := rfl
  have hself : xselfOf r pos =
      ⟨r.lay.xnum, 1, pos + (nextPre r.objs).length + (bodyBytes (placedOf r.objs)).length, 0⟩ := by
    rw [xselfOf, hp1e]
  have hents : (stmRev r pos pv).ents = (xesOf r pos).map entOf := hse
  have hok : StmOK ⟨placedOf r.objs, stmXs r pos pv, [10], [], [],
      xsubsOf r.lay.cut (xesOf r pos), xw0 r.lay (xesOf r pos), xw1 r.lay (xesOf r pos), xw2 r.lay (xesOf r pos)⟩ :=
    { xsOK := xstm_okP _ _ _ _ _ (by omega) hdata hfitN hpv10
      xsLen := xstm_lenP _ _ _ _ _
      dict := xstm_dictP _ _ _ _ _ h.w0
      stored := xstm_storedP _ _ _ _ _ hne hstore
      fits := xsubsOf_fits r.lay r.lay.cut (xesOf r pos)
        (fun e he => ⟨(hrows e he).1, (hrows e he).2.2.1, by have := (hrows e he).2.2.2; omega⟩)
      lim := xsubsOf_lim r.lay.cut (xesOf r pos) (fun e he => (hrows e he).2.1) hcount
      noInStm := by
        intro p hp e he
        simp only [xsubsOf, List.mem_map] at hp
        obtain ⟨run, hrun, rfl⟩ := hp
        simp only [List.mem_map] at he
        obtain ⟨a, ha, rfl⟩ := he
        exact (hrows a (runs_mem_sub _ _ run hrun a ha)).1
      numsNodup := by
        show ((streamEnts (xsubsOf r.lay.cut (xesOf r pos))).map (·.obj)).Nodup
        rw [hse, List.map_map]
        have : (xesOf r pos).map ((fun x => x.obj) ∘ entOf) = (xesOf r pos).map (·.num) := rfl
        rw [this]
        exact (xes_nums r pos h).nodup_iff.mpr h.numsNodup
      reads1 := by
        intro q hq
        obtain ⟨o, ho, e⟩ := mem_placedOf r.objs q hq
        rw [e]
        exact pieceOf_reads o (h.objs o ho)
      reads2 := by
        intro q hq
        cases hq }
  exact {
    render := hrender
    ok := hok
    prev := xstm_prevP _ _ _ _ _
    root := xstm_rootP _ _ _ _ _
    xsKey := by
      show some ((stmXs r pos pv).num, (stmXs r pos pv).gen) = _
      rw [if_pos h.kind, hxsnum, hxsgen]
    tableObjs := by
      rw [hents, stmRev_place]
      have hfil : ((xesOf r pos).filter (·.typ == 1)).Perm
          ((place (placedOf r.objs) (pos + (nextPre r.objs).length) ++
            [((stmXs r pos pv).piece, pos + (nextPre r.objs).length + (bodyBytes (placedOf r.objs)).length)]).map xeOf) := by
        have := hperm.filter (·.typ == 1)
        rw [List.filter_append, List.filter_append, freesOf_filter, List.append_nil, hU, uses_filter, hself] at this
        rw [List.map_append]
        have e2 : [((stmXs r pos pv).piece, pos + (nextPre r.objs).length + (bodyBytes (placedOf r.objs)).length)].map xeOf =
            [(⟨r.lay.xnum, 1, pos + (nextPre r.objs).length + (bodyBytes (placedOf r.objs)).length, 0⟩ : XE)] := by
          simp only [List.map_cons, List.map_nil, xeOf]
          rw [show ((stmXs r pos pv).piece).num = (stmXs r pos pv).num from rfl,
            show ((stmXs r pos pv).piece).gen = (stmXs r pos pv).gen from rfl, hxsnum, hxsgen]
        rw [e2]
        exact this
      obtain ⟨perm, hp, hm⟩ := perm_of_perm_map xeOf hfil
      refine ⟨perm, hp, ?_⟩
      rw [infoOf_map_entOf, ← hm, List.map_map]
      rfl
    keys := by
      intro k
      rw [hents]
      have hkeys : ((xesOf r pos).map (fun e : XE => (e.num, e.f3))).Perm (revKeys r) := by
        have := hperm.map (fun e => (e.num, e.f3))
        rw [List.map_append, List.map_append, stm_frees_keys, hU, List.map_map] at this
        have e1 : (place (placedOf r.objs) (pos + (nextPre r.objs).length)).map ((fun e => (e.num, e.f3)) ∘ xeOf) =
            r.objs.map (fun o => (o.num, o.gen)) := stm_pieces_ids r.objs _ h.objs
        rw [e1] at this
        unfold revKeys
        rw [if_pos h.kind]
        simpa [List.append_assoc, xselfOf] using this
      rw [← hkeys.mem_iff]
      constructor
      · rintro ⟨e, he, rfl⟩
        obtain ⟨a, ha, rfl⟩ := List.mem_map.mp he
        exact List.mem_map.mpr ⟨a, ha, rfl⟩
      · intro hk
        obtain ⟨a, ha, rfl⟩ := List.mem_map.mp hk
        exact ⟨entOf a, List.mem_map_of_mem ha, rfl⟩
    ids := by
      show (placedOf r.objs ++ [(⟨(stmXs r pos pv).piece, [10]⟩ : Placed)]).map (fun q : Placed => (q.p.num, q.p.gen)) = _
      rw [List.map_append, stm_placed_ids r.objs h.objs, if_pos h.kind]
      simp only [List.map_cons, List.map_nil]
      rw [show ((stmXs r pos pv).piece).num = (stmXs r pos pv).num from rfl,
        show ((stmXs r pos pv).piece).gen = (stmXs r pos pv).gen from rfl, hxsnum, hxsgen] }

/-! ## non-vacuity: a concrete revision of kind 1 (two scalar objects, one free entry, object 0) written at
     position 9 with /Prev 9, FlateDecode'd with the PNG-Up predictor, /Index written, dictionary rotated -/

def exStmObjs : List DObj := [
    { num := 1, gen := 0, body := .val (.int 7) (.int 7), ch := [1, 6, 0, 2, 3, 1, 0, 0, 1, 2], pad := [10], ofsAtPad := false,
      lenRef := none, lenPos := 0, eol1 := 0, eol2 := 0 },
    { num := 2, gen := 0, body := .val (.name [67, 97, 116]) (.name [67, 97, 116]), ch := [0, 7, 1, 1, 0, 0], pad := [32, 10],
      ofsAtPad := true, lenRef := none, lenPos := 0, eol1 := 0, eol2 := 0 }]

def exStmRev : Rev where
  objs := exStmObjs
  members := []
  frees := [(3, 1)]
  zero := true
  root := (2, 0)
  lay := { kind := 1, ch := [1, 7, 2, 0, 8, 1, 1, 9, 0, 2, 1], cut := 2, eols := [], w0 := 1, x1 := 1, x2 := 0, omitIndex := false,
           flate := true, up := true, xnum := 4, hiddenGen := 0, swap := none, relabel := none, dictOrder := 5 }

theorem exStmObjs_simple : ∀ o ∈ exStmObjs, SimpleObj o := by
  intro o ho
  simp only [exStmObjs, List.mem_cons, List.mem_nil_iff, or_false] at ho
  rcases ho with rfl | rfl
  · exact SimpleObj.of_scalar (wsRun_of_ws _ (by decide)) (by decide) (by decide) (.int 7) rfl (by simp [wf]) trivial
  · exact SimpleObj.of_scalar (wsRun_of_ws _ (by decide)) (by decide) (by decide) (.name [67, 97, 116]) rfl (by simp [wf, okKey]) trivial

theorem exStmRev_simple : SimpleRevX exStmRev where
  kind := rfl
  swap := rfl
  relabel := rfl
  noMembers := rfl
  objs := exStmObjs_simple
  gens := by decide
  freeGens := by decide
  numsNodup := by decide
  numsFit := by decide
  count := by decide
  rootFit := by decide
  w0 := by decide

/-- the hypotheses of `stm_link` are satisfiable, with a /Prev entry -/
example : RevLink exStmRev 9 (some 9) (stmRev exStmRev 9 (some 9)) (stmCh exStmRev 9 (some 9)) :=
  stm_link exStmRev 9 (some 9) exStmRev_simple
    (xstoreFits_of_count _ _ (by decide) (by decide +kernel)) (by decide +kernel)
    (by intro p hp; cases hp; decide)

/-- and what the link says there: the section mentions /Prev 9 and five rows -/
example : (stmRev exStmRev 9 (some 9)).prev = some 9 ∧ (stmRev exStmRev 9 (some 9)).ents.length = 5 := by
  refine ⟨(stm_link exStmRev 9 (some 9) exStmRev_simple
    (xstoreFits_of_count _ _ (by decide) (by decide +kernel)) (by decide +kernel)
    (by intro p hp; cases hp; decide)).prev, by decide +kernel⟩

end Parsley.LoaderE2E
