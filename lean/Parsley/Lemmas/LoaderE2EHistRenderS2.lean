/-
  C04 generator link, cross-reference STREAM revisions (follow-up C03d), part 1: the cross-reference stream object
  written by `DocSpec.renderXrefStream` WITH an optional /Prev entry.

  Prev-generalised copies of the dictionary lemmas of Lemmas/LoaderE2ERenderX.lean (which treat `prev = none`):
  `xentsOfP`, `xallOfP`, `xspellP`, `xstmOfP`; `xrefStreamParts_eqP`, `xents_okP`, `xents_keys_nodupP`,
  `renderXrefStream_eqP`, `xstm_okP`, `xstm_lenP`, `xstm_rootP`, `xstm_prevP`, `xstm_dictP`, `xstm_storedP`.
  The /Prev value is written by `rawVal` as ten digits with leading zeros (`pad10`): `stm_pad10_spells`.
  The rows, the /Index partition, the widths and the storage do not depend on /Prev.
-/
import Parsley.Lemmas.LoaderE2EHistRenderI
namespace Parsley.LoaderE2E
open Parsley Parsley.Prim Parsley.Obj Parsley.Indirect Parsley.Loader Parsley.C02 Parsley.Spelling Parsley.DocSpec
open Parsley.XrefSpec Parsley.C13 Parsley.LoaderChain Parsley.LoaderStage

/-! ## the /Prev value -/

theorem stm_bs_prev : bs "Prev" = kPrev := by decide +kernel

theorem stm_pad10_spec (p : Nat) (hp : p < 10 ^ 10) :
    pad10 p ≠ [] ∧ (∀ y ∈ pad10 p, isDigit y = true) ∧ digitsVal (pad10 p) 0 = p := by
  refine ⟨?_, ?_, ?_⟩
  · intro h
    have := congrArg List.length h
    simp [pad10, padDec_length] at this
  · intro y hy
    exact List.all_eq_true.mp (all_isDigit_padDec 10 p) y hy
  · exact decVal_padDec 10 p hp

/-- ten digits with leading zeros spell the number -/
theorem stm_pad10_spells (d p : Nat) (hp : p < 10 ^ 10) : Spells (d + 1) (.int (p : Int)) (pad10 p) := by
  obtain ⟨n1, n2, n3⟩ := stm_pad10_spec p hp
  have hfit : p ≤ i64Max := by
    have : (10 : Nat) ^ 10 ≤ i64Max := by decide
    omega
  have := Spells.int d .none (pad10 p) n1 n2 (by rw [n3]; exact hfit)
  rw [n3] at this
  exact this

/-! ## `xrefStreamParts`, spelled out -/

/-- the /Prev entry -/
def xprevEnt : Option Nat → List (Bytes × Obj)
  | some p => [(kPrev, .int (p : Int))]
  | none => []

def xentsOfP (lay : RevLay) (es : List XE) (size : Nat) (root : Nat × Nat) (pv : Option Nat) : List (Bytes × Obj) :=
  [(Xref.kType, .name Xref.nXRef), (Xref.kSize, .int size),
   (Xref.kW, .arr [.int (xw0 lay es), .int (xw1 lay es), .int (xw2 lay es)])]
  ++ (if (xindexOf lay.cut es == [0, size]) && lay.omitIndex then []
      else [(Xref.kIndex, .arr ((xindexOf lay.cut es).map fun n => .int (Int.ofNat n)))])
  ++ [(kRoot, .ref root.1 root.2)]
  ++ xprevEnt pv
  ++ (if lay.flate then [(Xref.kFilter, .name Filters.nFlate)] else [])
  ++ (if lay.flate && lay.up then [(Xref.kDecodeParms, .dict [(kColumns, .int (xrowW lay es)), (kPredictor, .int 12)])] else [])

theorem xentsOfP_none (lay : RevLay) (es : List XE) (size : Nat) (root : Nat × Nat) :
    xentsOfP lay es size root none = xentsOf lay es size root := by
  simp only [xentsOfP, xentsOf, xprevEnt, List.append_nil]

theorem xrefStreamParts_eqP (lay : RevLay) (es : List XE) (size : Nat) (root : Nat × Nat) (pv : Option Nat) :
    xrefStreamParts lay es size (some root) pv = (xdataOf lay es, xentsOfP lay es size root pv) := by
  cases pv with
  | none => rw [xentsOfP_none]; exact xrefStreamParts_eq lay es size root
  | some p =>
    unfold xrefStreamParts
    simp only [bs_keys.1, bs_keys.2.1, bs_keys.2.2.1, bs_keys.2.2.2.1, bs_keys.2.2.2.2.1, bs_keys.2.2.2.2.2.1,
      spec_keys.1, spec_keys.2.1, spec_keys.2.2.1, spec_keys.2.2.2.1, spec_keys.2.2.2.2, stm_bs_prev]
    rfl

/-! ## the entries are legal -/

theorem stm_prev_eq : (kPrev == bs "Prev") = true := by decide +kernel

theorem xents_okP (lay : RevLay) (es : List XE) (size : Nat) (root : Nat × Nat) (pv : Option Nat) (len : Nat)
    (hlen : len ≤ i64Max) (h : XNumsFit lay es size root) (hpv : ∀ p, pv = some p → p < 10 ^ 10) :
    ∀ kv ∈ xentsOfP lay es size root pv ++ [(keyLength, .int (len : Int))], EntOKd 3 rawF kv ∧ isNullV kv.2 = false := by
  cases pv with
  | none => rw [xentsOfP_none]; exact xents_ok lay es size root len hlen h
  | some p =>
    have hold := xents_ok lay es size root len hlen h
    intro kv hkv
    by_cases hk : kv = (kPrev, .int (p : Int))
    · subst hk
      refine ⟨entOK_mk 3 rawF kPrev _ (by decide) (by decide) ?_, rfl⟩
      have : rawF (kPrev, .int (p : Int)) = pad10 p := by simp [rawF, rawVal, stm_prev_eq]
      rw [this]
      exact stm_pad10_spells 2 p (hpv p rfl)
    · apply hold kv
      simp only [xentsOfP, xentsOf, xprevEnt, List.mem_append, List.mem_cons, List.mem_nil_iff, or_false] at hkv ⊢
      rcases hkv with (((((h1 | h1) | h1) | h1) | h1) | h1) | h1
      · exact Or.inl (Or.inl (Or.inl (Or.inl (Or.inl h1))))
      · exact Or.inl (Or.inl (Or.inl (Or.inl (Or.inr h1))))
      · exact Or.inl (Or.inl (Or.inl (Or.inr h1)))
      · exact absurd h1 hk
      · exact Or.inl (Or.inl (Or.inr h1))
      · exact Or.inl (Or.inr h1)
      · exact Or.inr h1

set_option linter.unusedSimpArgs false in
theorem xents_keys_nodupP (lay : RevLay) (es : List XE) (size : Nat) (root : Nat × Nat) (pv : Option Nat) (len : Int) :
    ((xentsOfP lay es size root pv ++ [(keyLength, Obj.int len)]).map Prod.fst).Nodup := by
  cases pv with
  | none => rw [xentsOfP_none]; exact xents_keys_nodup lay es size root len
  | some p =>
    unfold xentsOfP xprevEnt
    cases ((xindexOf lay.cut es == [0, size]) && lay.omitIndex) <;> cases lay.flate <;> cases lay.up <;>
      simp only [List.map_append, List.map_cons, List.map_nil, Bool.false_eq_true, if_true, if_false, ↓reduceIte,
        Bool.and_self, Bool.and_false, Bool.and_true, List.append_nil, List.cons_append, List.nil_append] <;>
      decide +kernel

/-! ## the cross-reference stream object as a `WStm` -/

def xallOfP (lay : RevLay) (es : List XE) (size : Nat) (root : Nat × Nat) (pv : Option Nat) : List (Bytes × Obj) :=
  rotate (xentsOfP lay es size root pv ++ [(keyLength, .int ((xdataOf lay es).length : Int))]) lay.dictOrder

def xspellP (lay : RevLay) (es : List XE) (size : Nat) (root : Nat × Nat) (pv : Option Nat) : Bytes × Ch :=
  spellRaw ((xallOfP lay es size root pv).map fun kv => (kv.1, rawVal kv.1 kv.2)) lay.ch

/-- the cross-reference stream object the encoder writes, with /Prev `pv` -/
def xstmOfP (lay : RevLay) (es : List XE) (size : Nat) (root : Nat × Nat) (pv : Option Nat) : WStm :=
  ⟨[], natDigits lay.xnum, (wsReq (xspellP lay es size root pv).2).1, [48], [32],
   (wsOpt (wsReq (xspellP lay es size root pv).2).2).1, [60, 60] ++ (xspellP lay es size root pv).1,
   (wsOpt (wsReq (xspellP lay es size root pv).2).2).1, [10], xdataOf lay es, [10], [10],
   DocSpec.canonKvs (xallOfP lay es size root pv), 4⟩

theorem renderXrefStream_eqP (lay : RevLay) (pos : Nat) (es : List XE) (size : Nat) (root : Nat × Nat) (pv : Option Nat) :
    renderXrefStream lay pos es size (some root) pv =
      ((xstmOfP lay es size root pv).bytes ++ [10], ((xstmOfP lay es size root pv).val pos).val) := by
  unfold renderXrefStream
  rw [xrefStreamParts_eqP]
  simp only [kLength, bs_keys.2.2.2.2.2.2, bs_kws.1, bs_kws.2.1, bs_kws.2.2, bs_endobj, bs_ltlt]
  refine Prod.ext ?_ ?_
  · simp [xstmOfP, xspellP, xallOfP, WStm.bytes, WObj.headBytes, WStm.head, WStm.tailBytes]
  · simp only [WStm.val, xstmOfP, xspellP, xallOfP, WStm.kwOfs, WObj.valOfs, WStm.head]
    congr 2
    simp only [List.length_append, List.length_cons, List.length_nil, kwObj, kwStream]
    omega

/-! ## the object is legally written; what its dictionary says -/

theorem xall_nodupP (lay : RevLay) (es : List XE) (size : Nat) (root : Nat × Nat) (pv : Option Nat) :
    ((xallOfP lay es size root pv).map Prod.fst).Nodup := by
  unfold xallOfP
  rw [rotate_map]
  exact (rotate_perm _ _).nodup_iff.mpr (xents_keys_nodupP lay es size root pv _)

theorem xall_okP (lay : RevLay) (es : List XE) (size : Nat) (root : Nat × Nat) (pv : Option Nat)
    (hlen : (xdataOf lay es).length ≤ i64Max) (h : XNumsFit lay es size root) (hpv : ∀ p, pv = some p → p < 10 ^ 10) :
    (∀ kv ∈ xallOfP lay es size root pv, EntOKd 3 rawF kv) ∧ (∀ kv ∈ xallOfP lay es size root pv, isNullV kv.2 = false) ∧
    ((xallOfP lay es size root pv).map Prod.fst).Nodup := by
  refine ⟨fun kv hkv => ?_, fun kv hkv => ?_, xall_nodupP lay es size root pv⟩
  · exact (xents_okP lay es size root pv _ hlen h hpv kv ((mem_rotate _ _ _).mp hkv)).1
  · exact (xents_okP lay es size root pv _ hlen h hpv kv ((mem_rotate _ _ _).mp hkv)).2

theorem xstm_okP (lay : RevLay) (es : List XE) (size : Nat) (root : Nat × Nat) (pv : Option Nat) (hnum : lay.xnum ≤ i64Max)
    (hlen : (xdataOf lay es).length ≤ i64Max) (h : XNumsFit lay es size root) (hpv : ∀ p, pv = some p → p < 10 ^ 10) :
    (xstmOfP lay es size root pv).OK := by
  obtain ⟨hok, hnn, hnd⟩ := xall_okP lay es size root pv hlen h hpv
  obtain ⟨n1, n2, n3⟩ := natDigits_spec lay.xnum hnum
  obtain ⟨body, sep, hb, hse, hsep⟩ := spellRaw_map 3 rawF (xallOfP lay es size root pv) [] lay.ch hok hnd (by simp)
  have hsp : Spells 4 (.dict (DocSpec.canonKvs (xallOfP lay es size root pv))) ([60, 60] ++ (xspellP lay es size root pv).1) := by
    have hb' : (xspellP lay es size root pv).1 = body ++ (sep ++ [62, 62]) := hb
    rw [hb', ← dictOf_eq_canon _ hnn]
    exact Spells.dict 3 _ body sep hse hsep
  unfold xstmOfP
  exact wstm_ok_of _ _ _ _ _ _ n1 n2 (by rw [n3]; exact hnum) (wsReq_run _).1 (wsReq_run _).2 (wsOpt_run _) hsp

theorem xstm_numP (lay : RevLay) (es : List XE) (size : Nat) (root : Nat × Nat) (pv : Option Nat) (hnum : lay.xnum ≤ i64Max) :
    (xstmOfP lay es size root pv).num = lay.xnum := (natDigits_spec lay.xnum hnum).2.2
theorem xstm_genP (lay : RevLay) (es : List XE) (size : Nat) (root : Nat × Nat) (pv : Option Nat) :
    (xstmOfP lay es size root pv).gen = 0 := rfl

theorem xget_memP (lay : RevLay) (es : List XE) (size : Nat) (root : Nat × Nat) (pv : Option Nat) (k : Bytes) (v : Obj)
    (h : (k, v) ∈ xentsOfP lay es size root pv ++ [(keyLength, Obj.int ((xdataOf lay es).length : Int))]) :
    dictGet k (xstmOfP lay es size root pv).kvs = some v :=
  dictGet_canon_mem _ (xall_nodupP lay es size root pv) k v ((mem_rotate _ _ _).mpr h)

theorem xget_noneP (lay : RevLay) (es : List XE) (size : Nat) (root : Nat × Nat) (pv : Option Nat) (k : Bytes)
    (h : k ∉ (xentsOfP lay es size root pv ++ [(keyLength, Obj.int ((xdataOf lay es).length : Int))]).map Prod.fst) :
    dictGet k (xstmOfP lay es size root pv).kvs = none := by
  apply dictGet_canon_none
  unfold xallOfP
  rw [rotate_map]
  intro hm
  exact h ((mem_rotate _ _ _).mp hm)

theorem xstm_lenP (lay : RevLay) (es : List XE) (size : Nat) (root : Nat × Nat) (pv : Option Nat) :
    dictGet keyLength (xstmOfP lay es size root pv).kvs = some (.int (xstmOfP lay es size root pv).data.length) :=
  xget_memP lay es size root pv _ _ (List.mem_append_right _ List.mem_cons_self)

theorem xstm_rootP (lay : RevLay) (es : List XE) (size : Nat) (root : Nat × Nat) (pv : Option Nat) :
    dictGet kRoot (xstmOfP lay es size root pv).kvs = some (.ref root.1 root.2) :=
  xget_memP lay es size root pv _ _ (by simp [xentsOfP])

/-- membership in the keys, reduced to the entries without /Prev -/
theorem xkeys_P (lay : RevLay) (es : List XE) (size : Nat) (root : Nat × Nat) (pv : Option Nat) (k : Bytes) (len : Int)
    (hk : k ≠ kPrev)
    (h : k ∉ (xentsOf lay es size root ++ [(keyLength, Obj.int len)]).map Prod.fst) :
    k ∉ (xentsOfP lay es size root pv ++ [(keyLength, Obj.int len)]).map Prod.fst := by
  cases pv with
  | none => rw [xentsOfP_none]; exact h
  | some p =>
    intro hm
    apply h
    simp only [xentsOfP, xentsOf, xprevEnt, List.map_append, List.mem_append, List.map_cons, List.map_nil, List.mem_cons,
      List.mem_nil_iff, or_false] at hm ⊢
    rcases hm with (((((h1 | h1) | h1) | h1) | h1) | h1) | h1
    · exact Or.inl (Or.inl (Or.inl (Or.inl (Or.inl h1))))
    · exact Or.inl (Or.inl (Or.inl (Or.inl (Or.inr h1))))
    · exact Or.inl (Or.inl (Or.inl (Or.inr h1)))
    · exact absurd h1 hk
    · exact Or.inl (Or.inl (Or.inr h1))
    · exact Or.inl (Or.inr h1)
    · exact Or.inr h1

/-- membership in the entries, lifted from the entries without /Prev -/
theorem xmem_P (lay : RevLay) (es : List XE) (size : Nat) (root : Nat × Nat) (pv : Option Nat) (kv : Bytes × Obj) (len : Int)
    (h : kv ∈ xentsOf lay es size root ++ [(keyLength, Obj.int len)]) :
    kv ∈ xentsOfP lay es size root pv ++ [(keyLength, Obj.int len)] := by
  simp only [xentsOfP, xentsOf, List.mem_append] at h ⊢
  rcases h with ((((h1 | h1) | h1) | h1) | h1) | h1
  · exact Or.inl (Or.inl (Or.inl (Or.inl (Or.inl (Or.inl h1)))))
  · exact Or.inl (Or.inl (Or.inl (Or.inl (Or.inl (Or.inr h1)))))
  · exact Or.inl (Or.inl (Or.inl (Or.inl (Or.inr h1))))
  · exact Or.inl (Or.inl (Or.inr h1))
  · exact Or.inl (Or.inr h1)
  · exact Or.inr h1

theorem xstm_prevP (lay : RevLay) (es : List XE) (size : Nat) (root : Nat × Nat) (pv : Option Nat) :
    ObjStm.getUsize (xstmOfP lay es size root pv).kvs kPrev = pv := by
  cases pv with
  | none =>
    have : dictGet kPrev (xstmOfP lay es size root none).kvs = none := by
      apply xget_noneP
      rw [xentsOfP_none]
      unfold xentsOf
      cases ((xindexOf lay.cut es == [0, size]) && lay.omitIndex) <;> cases lay.flate <;> cases lay.up <;>
        simp <;> decide
    simp [ObjStm.getUsize, this]
  | some p =>
    have : dictGet kPrev (xstmOfP lay es size root (some p)).kvs = some (.int (p : Int)) :=
      xget_memP lay es size root (some p) _ _ (by simp [xentsOfP, xprevEnt])
    simp [ObjStm.getUsize, this, isUsize]

theorem xstm_dictP (lay : RevLay) (es : List XE) (size : Nat) (root : Nat × Nat) (pv : Option Nat) (hw0 : lay.w0 ≤ 4) :
    XDictOK (xstmOfP lay es size root pv).kvs (xsubsOf lay.cut es) (xw0 lay es) (xw1 lay es) (xw2 lay es) := by
  obtain ⟨h0, h1p, h1, h2⟩ := xwidths lay es hw0
  refine ⟨xget_memP lay es size root pv _ _ (xmem_P _ _ _ _ _ _ _ (by simp [xentsOf])),
    ⟨size, xget_memP lay es size root pv _ _ (xmem_P _ _ _ _ _ _ _ (by simp [xentsOf])), ?_⟩,
    xget_memP lay es size root pv _ _ (xmem_P _ _ _ _ _ _ _ (by simp [xentsOf])), h0, h1, h1p, h2⟩
  cases hc : ((xindexOf lay.cut es == [0, size]) && lay.omitIndex)
  · left
    rw [indexAtoms_xsubsOf]
    exact xget_memP lay es size root pv _ _ (xmem_P _ _ _ _ _ _ _ (by simp [xentsOf, hc]))
  · right
    simp only [Bool.and_eq_true, beq_iff_eq] at hc
    refine ⟨?_, xindex_plain lay.cut es size hc.1⟩
    apply xget_noneP
    apply xkeys_P _ _ _ _ _ _ _ (by decide)
    unfold xentsOf
    have hc' : ((xindexOf lay.cut es == [0, size]) && lay.omitIndex) = true := by simp [hc]
    rw [hc']
    cases lay.flate <;> cases lay.up <;> simp <;> decide

/-! ## how the rows are stored -/

theorem xstm_storedP (lay : RevLay) (es : List XE) (size : Nat) (root : Nat × Nat) (pv : Option Nat) (hne : es ≠ [])
    (hsz : XStoreFits lay es) :
    Stored (xstmOfP lay es size root pv).kvs
      (XrefStreamFile.rowBytes (xsubsOf lay.cut es) (xw0 lay es) (xw1 lay es) (xw2 lay es))
      (xstmOfP lay es size root pv).data := by
  rw [rowBytes_xsubsOf]
  show Stored _ (xrowsOf lay es) (xdataOf lay es)
  cases hf : lay.flate
  · have hd : xdataOf lay es = xrowsOf lay es ++ [] := by simp [xdataOf, hf]
    rw [hd]
    refine Stored.plain [] (xget_noneP lay es size root pv _ ?_)
    apply xkeys_P _ _ _ _ _ _ _ (by decide)
    unfold xentsOf
    rw [hf]
    cases ((xindexOf lay.cut es == [0, size]) && lay.omitIndex) <;> simp <;> decide
  · have hfil : dictGet Xref.kFilter (xstmOfP lay es size root pv).kvs = some (.name Filters.nFlate) :=
      xget_memP lay es size root pv _ _ (xmem_P _ _ _ _ _ _ _ (by simp [xentsOf, hf]))
    have hsz' := hsz hf
    cases hu : lay.up
    · rw [hu] at hsz'
      have hd : xdataOf lay es = FiltersSpec.zlibStored [xrowsOf lay es] ++ [] := by simp [xdataOf, hf, hu]
      rw [hd]
      refine Stored.flate [xrowsOf lay es] [] [] hfil (xget_noneP lay es size root pv _ ?_) ?_ (by simp)
      · apply xkeys_P _ _ _ _ _ _ _ (by decide)
        unfold xentsOf
        rw [hf, hu]
        cases ((xindexOf lay.cut es == [0, size]) && lay.omitIndex) <;> simp <;> decide
      · intro p hp
        simp only [List.mem_singleton] at hp
        subst hp
        simpa using hsz'
    · rw [hu] at hsz'
      simp only [if_true] at hsz'
      have hd : xdataOf lay es = FiltersSpec.zlibStored
          [PredSpec.pngRows 2 1 [] (PredSpec.splitRows (xrowW lay es) es.length (xrowsOf lay es))] ++ [] := by
        simp [xdataOf, hf, hu]
      rw [hd]
      have hpar : dictGet Xref.kDecodeParms (xstmOfP lay es size root pv).kvs =
          some (.dict [(kColumns, .int (xrowW lay es : Int)), (kPredictor, .int 12)]) :=
        xget_memP lay es size root pv _ _ (xmem_P _ _ _ _ _ _ _ (by simp [xentsOf, hf, hu]))
      have hlen := xrows_length lay es
      have hrl := splitRows_row_length (xrowW lay es) es.length (xrowsOf lay es) hlen
      have hn : 1 ≤ es.length := by
        cases es with
        | nil => exact absurd rfl hne
        | cons a t => simp
      have hw : xrowW lay es < 65535 := by
        have : 1 * (xrowW lay es + 1) ≤ es.length * (xrowW lay es + 1) := Nat.mul_le_mul_right _ hn
        omega
      have hrb : PredSpec.rowBytes (xrowW lay es) 1 8 = xrowW lay es := by unfold PredSpec.rowBytes; omega
      exact Stored.flatePred [(kColumns, .int (xrowW lay es : Int)), (kPredictor, .int 12)] ⟨12, 1, xrowW lay es, 8⟩
        (PredSpec.splitRows (xrowW lay es) es.length (xrowsOf lay es))
        [PredSpec.pngRows 2 1 [] (PredSpec.splitRows (xrowW lay es) es.length (xrowsOf lay es))] [] hfil hpar rfl rfl
        (Or.inr ⟨rfl, rfl⟩) (Or.inr ⟨rfl, rfl⟩)
        (Or.inr ⟨⟨by show 10 ≤ 12; decide, by show 12 ≤ 14; decide⟩, Or.inr (Or.inr (Or.inr (Or.inl rfl)))⟩)
        (by show xrowW lay es < _; omega) (by show 1 * 8 < _; omega)
        (by show xrowW lay es * 1 * 8 < _; omega) (by intro r hr; rw [hrb]; exact hrl r hr)
        (Or.inr (by
          intro h
          have := splitRows_length (xrowW lay es) es.length (xrowsOf lay es)
          rw [h] at this; simp at this; omega))
        (splitRows_flatten (xrowW lay es) es.length (xrowsOf lay es) hlen)
        (by simp [predict_up])
        (by
          intro q hq
          simp only [List.mem_singleton] at hq
          subst hq
          rw [C07.png_encoded_length 2 1 (xrowW lay es) _ [] hrl, splitRows_length]
          exact hsz')

end Parsley.LoaderE2E
