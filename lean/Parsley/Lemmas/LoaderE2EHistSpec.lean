/-
  C04 end-to-end, spec side, any number of revisions: the outcome of `load_hist` in the vocabulary of Spec/Doc.lean.

  `f.saids rt` is what the revisions SAID, oldest first (`saidOf`: objects written, numbers of the free entries of the
  revision's table, a root).  `load_hist_spec`: for a well-formed `HistFile` the loader's final definitions are exactly
  the bindings of `DocSpec.resolve (f.saids rt)` and the root is the one `resolve` reports.
-/
import Parsley.Lemmas.LoaderE2EHist
import Parsley.Lemmas.LoaderE2EChainSpec
namespace Parsley.LoaderE2E
open Parsley Parsley.Prim Parsley.Obj Parsley.Indirect Parsley.Loader
open Parsley.XrefSpec Parsley.C13 Parsley.LoaderChain Parsley.LoaderStage
open Parsley.DocSpec (forget applyRev insertSorted sortDefs resolve Said)

/-- the revision neither frees nor writes the number of `x` -/
def NotMent (r : Said) (x : DocSpec.ObjId × Obj) : Prop := x.1.1 ∉ r.freed ∧ x.1.1 ∉ r.written.map (·.1.1)

/-- what is known after a list of revisions (each writing pairwise distinct numbers): what was known before and no
    revision mentions, or what some revision wrote and no later one mentions -/
theorem mem_foldl_applyRev {α : Type} (sd : α → Said) : ∀ (l : List α), (∀ a ∈ l, ((sd a).written.map (·.1.1)).Nodup) →
    ∀ (m : List (DocSpec.ObjId × Obj)) (x : DocSpec.ObjId × Obj),
    x ∈ (l.map sd).foldl applyRev m ↔
      (x ∈ m ∧ ∀ a ∈ l, NotMent (sd a) x) ∨
      ∃ pre a post, l = pre ++ a :: post ∧ x ∈ (sd a).written ∧ ∀ b ∈ post, NotMent (sd b) x
  | [], _, m, x => by
    simp
  | a :: t, hnd, m, x => by
    have ih := mem_foldl_applyRev sd t (fun b hb => hnd b (List.mem_cons_of_mem _ hb)) (applyRev m (sd a)) x
    rw [List.map_cons, List.foldl_cons, ih, mem_applyRev m (sd a) (hnd a List.mem_cons_self) x]
    constructor
    · rintro (⟨(⟨hm, hn1, hn2⟩ | hw), hall⟩ | ⟨pre, b, post, ht, hw, hall⟩)
      · left
        refine ⟨hm, ?_⟩
        intro b hb
        rcases List.mem_cons.mp hb with rfl | hb
        · exact ⟨hn1, hn2⟩
        · exact hall b hb
      · right
        exact ⟨[], a, t, rfl, hw, hall⟩
      · right
        exact ⟨a :: pre, b, post, by rw [ht]; rfl, hw, hall⟩
    · rintro (⟨hm, hall⟩ | ⟨pre, b, post, ht, hw, hall⟩)
      · left
        have := hall a List.mem_cons_self
        exact ⟨Or.inl ⟨hm, this.1, this.2⟩, fun b hb => hall b (List.mem_cons_of_mem _ hb)⟩
      · cases pre with
        | nil =>
          simp only [List.nil_append, List.cons.injEq] at ht
          obtain ⟨rfl, rfl⟩ := ht
          left
          exact ⟨Or.inr hw, hall⟩
        | cons a' pre' =>
          simp only [List.cons_append, List.cons.injEq] at ht
          obtain ⟨rfl, rfl⟩ := ht
          right
          exact ⟨pre', b, post, rfl, hw, hall⟩

/-- the last element with a property -/
theorem exists_last {α : Type} (P : α → Prop) : ∀ (l : List α), (∃ a ∈ l, P a) →
    ∃ pre a post, l = pre ++ a :: post ∧ P a ∧ ∀ b ∈ post, ¬ P b
  | [], h => by obtain ⟨a, ha, _⟩ := h; cases ha
  | a :: t, h => by
    by_cases ht : ∃ b ∈ t, P b
    · obtain ⟨pre, b, post, hl, hb, hall⟩ := exists_last P t ht
      exact ⟨a :: pre, b, post, by rw [hl]; rfl, hb, hall⟩
    · obtain ⟨b, hb, hP⟩ := h
      rcases List.mem_cons.mp hb with rfl | hb
      · exact ⟨[], b, t, rfl, hP, fun c hc hPc => ht ⟨c, hc, hPc⟩⟩
      · exact absurd ⟨b, hb, hP⟩ ht

namespace HistFile

/-- what a placed revision said; `rt` supplies the root it named (only the newest matters) -/
def saidAt (rt : RevSeg × Nat → DocSpec.ObjId) (q : RevSeg × Nat) : Said :=
  saidOf (objsOf q) (tableEnts q.1.subs) (rt q)

/-- what the revisions said, oldest first -/
def saids (f : HistFile) (rt : RevSeg × Nat → DocSpec.ObjId) : List Said := f.segs.map (saidAt rt)

end HistFile

/-- **`load_hist_spec`**: the loaded document is `DocSpec.resolve` of what the revisions said -/
theorem load_hist_spec (f : HistFile) (Ds : List (List (Bytes × Obj))) (root : ObjId) (rt : RevSeg × Nat → ObjId)
    (h : f.WF Ds root) (hrt : ∀ q, f.segs.getLast? = some q → rt q = root) :
    ∃ L : Loaded, parseData f.bytes = .ok L ∧
      (resolve (f.saids rt)).2 = some L.root ∧
      ∀ (k : ObjId) (v : Obj), (k, v) ∈ (resolve (f.saids rt)).1 ↔ ObjStm.defsGet k L.defs = some v := by
  obtain ⟨L, hL, hroot, hdec, hnone⟩ := load_hist f Ds root h
  have hnums := f.nums_nodup Ds root h.toWF0
  refine ⟨L, hL, ?_, ?_⟩
  · -- the root
    obtain ⟨x, hlast, _, _⟩ := h.newest
    have hne : f.segs ≠ [] := by
      intro hnil
      have : f.secs Ds = [] := by unfold HistFile.secs; rw [hnil]; cases Ds <;> rfl
      rw [this] at hlast
      cases hlast
    obtain ⟨q, hq⟩ : ∃ q, f.segs.getLast? = some q := by
      cases hs : f.segs.getLast? with
      | none => exact absurd (List.getLast?_eq_none_iff.mp hs) hne
      | some q => exact ⟨q, rfl⟩
    show ((f.saids rt).getLast?).map (·.root) = some L.root
    unfold HistFile.saids
    rw [List.getLast?_map, hq, hroot, ← hrt q hq]
    rfl
  · intro k v
    have hnd : ∀ q ∈ f.segs, ((HistFile.saidAt rt q).written.map (·.1.1)).Nodup := by
      intro q hq
      unfold HistFile.saidAt
      rw [written_nums]
      exact (h.tableObjs q hq).nums_nodup (tableEnts_noStm _) (hnums q hq)
    have hres : (resolve (f.saids rt)).1 = sortDefs ((f.segs.map (HistFile.saidAt rt)).foldl applyRev []) := rfl
    rw [hres, mem_sortDefs, mem_foldl_applyRev (HistFile.saidAt rt) f.segs hnd [] (k, v)]
    -- both sides: some revision wrote the binding and no newer table mentions the number
    have hB : ∀ q ∈ f.segs, NotMent (HistFile.saidAt rt q) (k, v) ↔ ∀ e ∈ tableEnts q.1.subs, e.obj ≠ k.1 := by
      intro q hq
      exact not_mentioned_iff (h.tableObjs q hq) (tableEnts_noStm _) (rt q) k.1
    have hA : ∀ q, (k, v) ∈ (HistFile.saidAt rt q).written ↔
        ∃ p ∈ objsOf q, (p.1.num, p.1.gen) = k ∧ (p.1.val p.2).val = v := by
      intro q
      exact mem_written (objsOf q) (tableEnts q.1.subs) (rt q) k v
    constructor
    · rintro (⟨hnil, _⟩ | ⟨pre, q, post, hseg, hw, hall⟩)
      · cases hnil
      · have hq : q ∈ f.segs := by rw [hseg]; simp
        obtain ⟨p, hp, hk, hv⟩ := (hA q).mp hw
        obtain ⟨e, he, heo, heg, hst⟩ := (h.tableObjs q hq).ent_of_obj p hp
        have hk1 : p.1.num = k.1 := congrArg Prod.fst hk
        have D := hdec pre q post hseg e he (by
          intro q' hq' e' he'
          rw [heo, hk1]
          exact (hB q' (by rw [hseg]; simp [hq'])).mp (hall q' hq') e' he')
        rw [← hk, ← hv]
        exact D.obj_bound p hp heo.symm heg.symm hst
    · intro hg
      obtain ⟨n, g⟩ := k
      by_cases hm : ∃ q ∈ f.segs, ∃ e ∈ tableEnts q.1.subs, e.obj = n
      · obtain ⟨pre, q, post, hseg, ⟨e, he, hen⟩, hall⟩ :=
          exists_last (fun q : RevSeg × Nat => ∃ e ∈ tableEnts q.1.subs, e.obj = n) f.segs hm
        subst hen
        have hno : ∀ q' ∈ post, ∀ e' ∈ tableEnts q'.1.subs, e'.obj ≠ e.obj :=
          fun q' hq' e' he' hee => hall q' hq' ⟨e', he', hee⟩
        obtain ⟨p, hp, hk, hv⟩ := (hdec pre q post hseg e he hno).bound_inv (tableEnts_noStm _ e he) g v hg
        right
        refine ⟨pre, q, post, hseg, (hA q).mpr ⟨p, hp, hk, hv⟩, ?_⟩
        intro q' hq'
        exact (hB q' (by rw [hseg]; simp [hq'])).mpr (hno q' hq')
      · rw [hnone n (fun q hq e he hen => hm ⟨q, hq, e, he, hen⟩) g] at hg
        cases hg

end Parsley.LoaderE2E
