/-
  C03 end-to-end, HYBRID files (follow-up C03c): a classic table whose trailer points, through /XRefStm, at a
  cross-reference stream object written in the body.

    section_hybrid       `parse_xref_section` on table + trailer with /XRefStm x: the table's entries followed by
                         the stream's entries, the trailer's /Root and /Prev; the stream object is registered
    xrefinfo_hybrid      `get_xref_info` on a single hybrid section whose (number, generation) keys are pairwise
                         distinct over BOTH parts (i.e. outside known finding #31: a hidden object's free entry in
                         the table must not carry generation 0)
    load_hybrid_core     the composition up to the loading stage
-/
import Parsley.Lemmas.LoaderE2EXrefLoad
namespace Parsley.LoaderE2E
open Parsley Parsley.Prim Parsley.Obj Parsley.Indirect Parsley.Loader Parsley.C02 Parsley.Spelling
open Parsley.XrefSpec Parsley.C13 Parsley.LoaderChain

/-- **`parse_xref_section` on a hybrid section** -/
theorem section_hybrid (s : Bytes) (c : Nat) (subs : List TSub)
    (w tok rest : Bytes) (d : Nat) (D : List (Bytes × Obj))
    (hs : s.drop c = encTable subs ++ (kwTrailer ++ (w ++ (tok ++ rest))))
    (hne : subs ≠ []) (hok : ∀ t ∈ subs, subOk t)
    (hw : WsRun w) (hsp : Spells d (.dict D) tok) (hdep : d ≤ 51)
    (x : Nat) (hxs : ObjStm.getUsize D kXRefStm = some x) (henc : dictGet kEncrypt D = none) (hx : x ≤ s.length)
    (ents : List Xref.Ent) (rt : Option Obj) (pv : Option Nat) (j : Nat) (st2 : St)
    (hstm : parseXrefStream ⟨⟨[], 0, 50, false⟩, false⟩ s x = (.ok (some (ents, rt, pv)), j, st2)) :
    parseXrefSection ⟨⟨[], 0, 50, false⟩, false⟩ s c =
      (.ok (some (tableEnts subs ++ ents, dictGet kRoot D, ObjStm.getUsize D kPrev)), j, st2) := by
  obtain ⟨l, hxp, hents, -⟩ := table_roundtrip_at s c subs _ hs hne hok (stops_trailer _)
  have hc : c ≤ s.length := by
    apply Nat.le_of_lt
    apply Nat.lt_of_not_le
    intro hge
    rw [List.drop_eq_nil_of_le hge] at hs
    have := congrArg List.length hs
    simp [encTable, kwXref] at this
  have hd1 := drop_next hs
  have hi1 := drop_le hs hc
  have hscan : scanFwd kwTrailer (s.drop (c + (encTable subs).length)) = some 0 := by
    rw [hd1]
    apply scanFwd_head
    · simp [kwTrailer]
    · rw [List.isPrefixOf_iff_prefix]; exact List.prefix_append _ _
  have htr := trailer_spelled [] false s _ w tok rest d D hi1 hd1 hw hsp hdep
  unfold parseXrefSection
  rw [hxp]
  simp only [hscan, Nat.add_zero, htr, hxs, hents, henc, Option.isSome_none, Bool.or_false, hx, decide_true, Bool.not_true,
    Bool.false_eq_true, if_false, hstm]

/-- **`get_xref_info` on a single hybrid section** -/
theorem xrefinfo_hybrid (s : Bytes) (c : Nat) (subs : List TSub)
    (w tok rest : Bytes) (d : Nat) (D : List (Bytes × Obj)) (r : Obj)
    (hs : s.drop c = encTable subs ++ (kwTrailer ++ (w ++ (tok ++ rest))))
    (hne : subs ≠ []) (hok : ∀ t ∈ subs, subOk t)
    (hw : WsRun w) (hsp : Spells d (.dict D) tok) (hdep : d ≤ 51)
    (x : Nat) (hxs : ObjStm.getUsize D kXRefStm = some x) (henc : dictGet kEncrypt D = none)
    (hprev : ObjStm.getUsize D kPrev = none) (hroot : dictGet kRoot D = some r)
    -- the cross-reference stream object written at x
    (o : WStm) (post : Bytes) (hx : x ≤ s.length) (hd : s.drop x = o.bytes ++ post) (hok' : o.OK)
    (hlen : dictGet keyLength o.kvs = some (.int o.data.length))
    (l : List (Located Xref.Ent)) (c' : Nat)
    (hdec : Xref.xrefStreamP false (toXDict o.kvs) (xrefXf o.kvs) o.data 0 = (.ok l, c'))
    (hnd : ((tableEnts subs ++ l.map (·.val)).map keyOf).Nodup) :
    getXrefInfo ⟨Ctx.new 50, false⟩ s c =
      (.ok (tableEnts subs ++ l.map (·.val), r), ⟨⟨[((o.num, o.gen), o.val x)], 0, 50, false⟩, false⟩) := by
  obtain ⟨j, hstm⟩ := parseXrefStream_written s x o post hx hd hok' hlen [] List.Pairwise.nil rfl l c' hdec
  have hsec := section_hybrid s c subs w tok rest d D hs hne hok hw hsp hdep x hxs henc hx _ _ _ _ _ hstm
  have hc : c < s.length := by
    apply Nat.lt_of_not_le
    intro hge
    rw [List.drop_eq_nil_of_le hge] at hs
    have := congrArg List.length hs
    simp [encTable, kwXref] at this
  have hadd : addEnts (tableEnts subs ++ l.map (·.val)) [] [] =
      ((addEnts (tableEnts subs ++ l.map (·.val)) [] []).1, tableEnts subs ++ l.map (·.val)) := by
    have h2 := addEnts_snd (tableEnts subs ++ l.map (·.val)) [] []
    rw [dedupKey_nodup _ [] hnd (by simp)] at h2
    simp only [List.nil_append] at h2
    exact Prod.ext rfl h2
  unfold getXrefInfo xrefLoop
  have hsec' : parseXrefSection ⟨Ctx.new 50, false⟩ s c = _ := hsec
  simp only [List.contains_nil, Bool.false_eq_true, if_false, hc, decide_true, Bool.not_true, hsec', hprev, hroot]
  rw [hadd]
  simp [defsInsert]

/-- a single-revision hybrid file, as written -/
structure HybridFile where
  garbage : Bytes
  hdrRest : Bytes
  body1 : List Placed        -- the objects written before the cross-reference stream object
  xs : WStm                  -- the cross-reference stream object
  xpost : Bytes
  body2 : List Placed        -- objects written after it
  subs : List TSub           -- the table
  wt : Bytes                 -- after the keyword `trailer`
  ttok : Bytes               -- the trailer dictionary as spelled
  gap : Bytes
  wsx : Bytes
  ds : Bytes
  e : Bytes
  trail : Bytes

namespace HybridFile

def hdr (f : HybridFile) : Bytes := kwPdf ++ f.hdrRest
def body (f : HybridFile) : List Placed := f.body1 ++ ⟨f.xs.piece, f.xpost⟩ :: f.body2
def mid (f : HybridFile) : Bytes :=
  bodyBytes f.body ++ (encTable f.subs ++ (kwTrailer ++ (f.wt ++ (f.ttok ++ f.gap))))
def view (f : HybridFile) : Bytes :=
  f.hdr ++ (f.mid ++ (kwStartxref ++ (f.wsx ++ (f.ds ++ (f.e ++ (kwEOF ++ f.trail))))))
def bytes (f : HybridFile) : Bytes := f.garbage ++ f.view
/-- offset of the cross-reference stream object -/
def xofs (f : HybridFile) : Nat := f.hdr.length + (bodyBytes f.body1).length
/-- offset of the table -/
def tofs (f : HybridFile) : Nat := f.hdr.length + (bodyBytes f.body).length
def objs (f : HybridFile) : List (Piece × Nat) := place f.body f.hdr.length
def defs0 (f : HybridFile) : Defs := [((f.xs.num, f.xs.gen), f.xs.val f.xofs)]

/-- all cross-reference entries of the section: the table's, then the stream's -/
def ents (f : HybridFile) (ssubs : List (Nat × List SEnt)) : List Xref.Ent := tableEnts f.subs ++ streamEnts ssubs

/-- well-formedness apart from the objects -/
structure WF0 (f : HybridFile) (D : List (Bytes × Obj)) (ssubs : List (Nat × List SEnt)) (w0 w1 w2 : Nat)
    (root : ObjId) : Prop where
  noMagic : ∀ k, k < f.garbage.length → kwPdf.isPrefixOf (f.bytes.drop k) = false
  subsNe : f.subs ≠ []
  subsOk : ∀ t ∈ f.subs, subOk t
  wt : WsRun f.wt
  trailer : ∃ d, Spells d (.dict D) f.ttok ∧ d ≤ 51
  root : dictGet kRoot D = some (.ref root.1 root.2)
  noPrev : ObjStm.getUsize D kPrev = none
  noEncrypt : dictGet kEncrypt D = none
  /-- /XRefStm gives the offset of the cross-reference stream object -/
  xrefStm : ObjStm.getUsize D kXRefStm = some f.xofs
  xsOK : f.xs.OK
  xsLen : dictGet keyLength f.xs.kvs = some (.int f.xs.data.length)
  dict : XDictOK f.xs.kvs ssubs w0 w1 w2
  stored : Stored f.xs.kvs (XrefStreamFile.rowBytes ssubs w0 w1 w2) f.xs.data
  fits : ∀ p ∈ ssubs, ∀ e ∈ p.2, e.fits w0 w1 w2
  lim : ∀ p ∈ ssubs, p.1 + p.2.length ≤ Xref.usizeLim
  /-- every (number, generation) is mentioned once over table and stream together: a hidden object's free entry in
      the table must not carry the generation (0) of its in-stream entry (known finding #31 otherwise) -/
  keysNodup : ((f.ents ssubs).map keyOf).Nodup
  wsx : WsRun f.wsx
  wsxNe : f.wsx ≠ []
  wsxNoS : (115 : UInt8) ∉ f.wsx
  dsNe : f.ds ≠ []
  dsDig : ∀ y ∈ f.ds, isDigit y = true
  startxref : digitsVal f.ds 0 = f.tofs
  ofsFits : digitsVal f.ds 0 ≤ i64Max
  e : ∀ y ∈ f.e, isWsEol y = true
  trail : ∀ k, 0 < k → kwEOF.isPrefixOf ((kwEOF ++ f.trail).drop k) = false

end HybridFile

theorem HybridFile.view_eq (f : HybridFile) : f.view = f.hdr ++ (bodyBytes f.body1 ++ (f.xs.bytes ++ (f.xpost ++ (bodyBytes f.body2 ++
    (encTable f.subs ++ (kwTrailer ++ (f.wt ++ (f.ttok ++ (f.gap ++
      (kwStartxref ++ (f.wsx ++ (f.ds ++ (f.e ++ (kwEOF ++ f.trail)))))))))))))) := by
  simp [HybridFile.view, HybridFile.mid, HybridFile.body, bodyBytes_append, bodyBytes, WStm.piece]

theorem HybridFile.view_xs (f : HybridFile) : f.xofs ≤ f.view.length ∧
    ∃ post, f.view.drop f.xofs = f.xs.bytes ++ post := by
  refine ⟨by rw [f.view_eq]; simp [HybridFile.xofs], ?_⟩
  rw [f.view_eq]
  exact ⟨_, drop_two _ _ _⟩

theorem HybridFile.view_body (f : HybridFile) : f.hdr.length ≤ f.view.length ∧
    ∃ rest, f.view.drop f.hdr.length = bodyBytes f.body ++ rest := by
  have hview : f.view = f.hdr ++ (bodyBytes f.body ++ ((encTable f.subs ++ (kwTrailer ++ (f.wt ++ (f.ttok ++ f.gap)))) ++
      (kwStartxref ++ (f.wsx ++ (f.ds ++ (f.e ++ (kwEOF ++ f.trail))))))) := by
    simp [HybridFile.view, HybridFile.mid]
  refine ⟨by rw [hview]; simp, ?_⟩
  rw [hview]
  exact ⟨_, List.drop_left' rfl⟩

theorem HybridFile.view_table (f : HybridFile) : f.view.drop f.tofs = encTable f.subs ++ (kwTrailer ++ (f.wt ++ (f.ttok ++
    (f.gap ++ (kwStartxref ++ (f.wsx ++ (f.ds ++ (f.e ++ (kwEOF ++ f.trail))))))))) := by
  have hview : f.view = f.hdr ++ (bodyBytes f.body ++ (encTable f.subs ++ (kwTrailer ++ (f.wt ++ (f.ttok ++
      (f.gap ++ (kwStartxref ++ (f.wsx ++ (f.ds ++ (f.e ++ (kwEOF ++ f.trail))))))))))) := by
    simp [HybridFile.view, HybridFile.mid]
  rw [hview]
  exact drop_two _ _ _

/-- the composition up to the loading stage -/
theorem load_hybrid_core (f : HybridFile) (D : List (Bytes × Obj)) (ssubs : List (Nat × List SEnt)) (w0 w1 w2 : Nat)
    (root : ObjId) (h : f.WF0 D ssubs w0 w1 w2 root) (P : ObjStm.Defs → Prop)
    (hstage : ∃ defs, parseObjects f.garbage.length ⟨⟨f.defs0, 0, 50, false⟩, false⟩ (infoOf (f.ents ssubs)) f.view
      = .ok defs ∧ P defs) :
    ∃ L : Loaded, parseData f.bytes = .ok L ∧ L.root = root ∧ P L.defs := by
  obtain ⟨dT, hsp, hdT⟩ := h.trailer
  have hpdf : kwPdf.isPrefixOf f.hdr = true := by
    rw [List.isPrefixOf_iff_prefix]; exact List.prefix_append _ _
  have hscan := parseData_scan f.garbage f.hdr f.mid f.wsx f.ds f.e f.trail h.noMagic hpdf h.wsx h.wsxNe h.wsxNoS
    h.dsNe h.dsDig h.ofsFits h.e h.trail
  obtain ⟨hxl, post, hdropX⟩ := f.view_xs
  have hdropT := f.view_table
  obtain ⟨fs, extra, hfs, hap⟩ := stored_decodes _ _ _ h.stored
  obtain ⟨l, c, hl, hmap⟩ := xrefStreamP_decoded f.xs.kvs ssubs w0 w1 w2 h.dict fs f.xs.data extra hfs hap h.fits h.lim
  have hx := xrefinfo_hybrid f.view f.tofs f.subs f.wt f.ttok _ dT D (.ref root.1 root.2) hdropT h.subsNe h.subsOk h.wt hsp hdT
    f.xofs h.xrefStm h.noEncrypt h.noPrev h.root f.xs post hxl hdropX h.xsOK h.xsLen l c hl
    (by rw [hmap]; exact h.keysNodup)
  rw [hmap] at hx
  have hlt : f.tofs < f.view.length := by
    apply Nat.lt_of_not_le
    intro hge
    rw [List.drop_eq_nil_of_le hge] at hdropT
    have := congrArg List.length hdropT
    simp [encTable, kwXref] at this
  obtain ⟨defs, hpo, hP⟩ := hstage
  refine ⟨⟨defs, root⟩, ?_, rfl, hP⟩
  show parseData (f.garbage ++ f.view) = _
  unfold HybridFile.view
  rw [hscan]
  unfold loadRest
  rw [h.startxref]
  have hlt' : f.tofs < (f.hdr ++ (f.mid ++ (kwStartxref ++ (f.wsx ++ (f.ds ++ (f.e ++ (kwEOF ++ f.trail))))))).length := hlt
  have hx' : getXrefInfo ⟨Ctx.new 50, false⟩ (f.hdr ++ (f.mid ++ (kwStartxref ++ (f.wsx ++ (f.ds ++ (f.e ++ (kwEOF ++ f.trail))))))) f.tofs = _ := hx
  have hpo' : parseObjects f.garbage.length ⟨⟨f.defs0, 0, 50, false⟩, false⟩ (infoOf (f.ents ssubs))
    (f.hdr ++ (f.mid ++ (kwStartxref ++ (f.wsx ++ (f.ds ++ (f.e ++ (kwEOF ++ f.trail))))))) = _ := hpo
  simp only [hlt', decide_true, Bool.not_true, Bool.false_eq_true, if_false, hx']
  have hd0 : ([((f.xs.num, f.xs.gen), f.xs.val f.xofs)] : Defs) = f.defs0 := rfl
  have he : tableEnts f.subs ++ streamEnts ssubs = f.ents ssubs := rfl
  simp only [hd0, he, hpo']


namespace HybridFile

/-- well-formedness of a hybrid file whose objects are all file-level objects readable in every context: the in-use
    entries of table and stream together are exactly the objects of the body at their offsets -/
structure WF (f : HybridFile) (D : List (Bytes × Obj)) (ssubs : List (Nat × List SEnt)) (w0 w1 w2 : Nat)
    (root : ObjId) : Prop extends WF0 f D ssubs w0 w1 w2 root where
  reads1 : ∀ q ∈ f.body1, q.p.Reads
  reads2 : ∀ q ∈ f.body2, q.p.Reads
  idsNodup : (f.objs.map fun q => (q.1.num, q.1.gen)).Nodup
  tableObjs : ∃ perm : List (Piece × Nat), perm.Perm f.objs ∧
    infoOf (f.ents ssubs) = perm.map fun q => ObjInfo.inFile q.1.num q.1.gen q.2

end HybridFile

theorem HybridFile.xs_mem (f : HybridFile) : (f.xs.piece, f.xofs) ∈ f.objs := by
  simp [HybridFile.objs, HybridFile.body, bodyBytes_length_place, place, HybridFile.xofs]

theorem HybridFile.reads_objs (f : HybridFile)
    (h1 : ∀ q ∈ f.body1, q.p.Reads) (h2 : ∀ q ∈ f.body2, q.p.Reads) :
    ∀ q ∈ f.objs, q.2 < f.view.length ∧
      ((q.1.num, q.1.gen) = (f.xs.num, f.xs.gen) ∨ C03.ReadsAt 0 50 false f.view (itemOf q)) := by
  obtain ⟨hhl, rest, hdropB⟩ := f.view_body
  apply body_all (fun p s i => (p.num, p.gen) = (f.xs.num, f.xs.gen) ∨ C03.ReadsAt 0 50 false s (p.item i))
    f.body f.view f.hdr.length rest hhl hdropB
  intro q hq
  simp only [HybridFile.body, List.mem_append, List.mem_cons] at hq
  rcases hq with hq | rfl | hq
  · exact ⟨(h1 q hq).1, fun s i post hi hd => Or.inr ((h1 q hq).2 s i post hi hd)⟩
  · exact ⟨WStm.bytes_pos f.xs, fun s i post hi hd => Or.inl rfl⟩
  · exact ⟨(h2 q hq).1, fun s i post hi hd => Or.inr ((h2 q hq).2 s i post hi hd)⟩

/-- **`load_hybrid` (C03, end to end, hybrid file with file-level objects)**: table + /XRefStm stream, every
    (number, generation) mentioned once; `parse_data` accepts, reports the trailer's /Root, binds every object of the
    body (the cross-reference stream object included) to the value written, and defines nothing else. -/
theorem load_hybrid (f : HybridFile) (D : List (Bytes × Obj)) (ssubs : List (Nat × List SEnt)) (w0 w1 w2 : Nat)
    (root : ObjId) (h : f.WF D ssubs w0 w1 w2 root) :
    ∃ L : Loaded, parseData f.bytes = .ok L ∧ L.root = root ∧
      (∀ q ∈ f.objs, ObjStm.defsGet (q.1.num, q.1.gen) L.defs = some (q.1.val q.2).val) ∧
      (∀ k, (∀ q ∈ f.objs, (q.1.num, q.1.gen) ≠ k) → ObjStm.defsGet k L.defs = none) :=
  load_hybrid_core f D ssubs w0 w1 w2 root h.toWF0 (fun defs =>
    (∀ q ∈ f.objs, ObjStm.defsGet (q.1.num, q.1.gen) defs = some (q.1.val q.2).val) ∧
    (∀ k, (∀ q ∈ f.objs, (q.1.num, q.1.gen) ≠ k) → ObjStm.defsGet k defs = none))
    (stage_with_xs f.garbage.length f.view f.objs (f.xs.piece, f.xofs) f.xs_mem (f.ents ssubs)
      (f.reads_objs h.reads1 h.reads2) h.idsNodup h.tableObjs)

end Parsley.LoaderE2E
