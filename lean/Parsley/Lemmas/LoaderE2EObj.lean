/-
  C03 end-to-end, object side: the premise `ReadsAt` of the object-loading stage discharged from
  C02's `spell_parse` - for EVERY legal spelling (`Spells`) of every non-stream value, with any
  white space / comments between the pieces of `n g obj <value> endobj`, any digit strings for the
  two numbers (leading zeros allowed), anywhere in any buffer - and the trailer dictionary parser
  (`TrailerP` / `DictP` called directly) on every legal spelling of a dictionary.

  Everything is phrased "at a cursor": `s.drop i = <what is written> ++ <anything>`.
-/
import Parsley.Props.C02Struct
import Parsley.Props.C03
namespace Parsley.LoaderE2E
open Parsley Parsley.Prim Parsley.Obj Parsley.Indirect Parsley.Loader Parsley.C02 Parsley.Spelling

/-! ## steps at a cursor -/

theorem take_len {s : Bytes} {i : Nat} (hi : i ≤ s.length) : (s.take i).length = i := by
  simp [List.length_take, Nat.min_eq_left hi]

theorem split_at {s : Bytes} {i : Nat} {r : Bytes} (h : s.drop i = r) : s = s.take i ++ r := by
  rw [← h]; simp

theorem drop_next {s : Bytes} {i : Nat} {x r : Bytes} (h : s.drop i = x ++ r) : s.drop (i + x.length) = r := by
  rw [← List.drop_drop, h]; simp

theorem drop_le {s : Bytes} {i : Nat} {x r : Bytes} (h : s.drop i = x ++ r) (hi : i ≤ s.length) :
    i + x.length ≤ s.length := by
  have := congrArg List.length h
  simp only [List.length_drop, List.length_append] at this
  omega

theorem ws_d (e : Bool) (s : Bytes) (i : Nat) (lead rest : Bytes) (hi : i ≤ s.length)
    (hd : s.drop i = lead ++ rest) (hlead : WsRun lead)
    (hrest : ∀ b, rest.head? = some b → isWsEol b = false ∧ b ≠ 37) (hne : lead ≠ [] ∨ e = true) :
    wsEOL e s i = (.ok ⟨(), i, i + lead.length⟩, i + lead.length) := by
  have := ws_at' e s (s.take i) lead rest (split_at hd) hlead hrest hne
  rw [take_len hi] at this
  exact this

theorem exact_d (tag s : Bytes) (i : Nat) (rest : Bytes) (hd : s.drop i = tag ++ rest) :
    exact tag s i = (true, i + tag.length) := by
  unfold exact startsWith
  rw [hd]
  have : tag.isPrefixOf (tag ++ rest) = true := by
    rw [List.isPrefixOf_iff_prefix]; exact List.prefix_append _ _
  simp [this]

theorem int_d (s : Bytes) (i : Nat) (ds ctx : Bytes) (hi : i ≤ s.length) (hd : s.drop i = ds ++ ctx)
    (hne : ds ≠ []) (hds : ∀ y ∈ ds, isDigit y = true)
    (hctx : ∀ y, ctx.head? = some y → isDigit y = false) (hfit : digitsVal ds 0 ≤ i64Max) :
    integerP s i = (.ok ⟨(digitsVal ds 0 : Int), i, i + ds.length⟩, i + ds.length) := by
  have h := int_at (s.take i) ds ctx hne hds hctx hfit
  rw [← split_at hd, take_len hi] at h
  exact h

theorem obj_d {d : Nat} {v : Obj} {tok : Bytes} (h : Spells d v tok) (c : Depth) (hc : c.cur + d ≤ c.max)
    (s : Bytes) (i : Nat) (rest : Bytes) (hi : i ≤ s.length) (hd : s.drop i = tok ++ rest) (hf : Follows v rest) :
    parseObj c s i = ((.ok ⟨v, i, i + tok.length⟩, i + tok.length), c) := by
  have := spell_parse_at h c hc (s.take i) [] WsRun.nil rest hf
  simp only [List.nil_append, List.length_nil, Nat.zero_add, Nat.add_zero] at this
  rw [← split_at hd, take_len hi] at this
  exact this

/-! ## what may follow a value inside an indirect object -/

/-- a white-space run and then a byte that is neither white space, `%`, a digit nor a sign (a
    keyword such as `endobj`) is a legal context after any value, provided a value ending in a
    regular character is separated from it -/
theorem follows_ws_kw (v : Obj) (w u : Bytes) (hw : WsRun w)
    (hu : ∀ b, u.head? = some b → isWsEol b = false ∧ b ≠ 37 ∧ isDigit b = false ∧ b ≠ 43 ∧ b ≠ 45)
    (hreq : endsReg v = true → w ≠ []) : Follows v (w ++ u) := by
  refine ⟨fun he => wsRun_head w u hw (hreq he), fun _ hr => ?_⟩
  have := (lookAhead_iff_refTail (w ++ u)).mpr hr
  rw [lookAhead_closer w u hw hu] at this
  cases this

/-! ## a written direct object -/

/-- one indirect object as written: `pad n w1 g w2 obj w3 <value> w4 endobj` -/
structure WObj where
  pad : Bytes
  nds : Bytes       -- digits of the object number (leading zeros allowed)
  w1 : Bytes
  gds : Bytes       -- digits of the generation
  w2 : Bytes
  w3 : Bytes
  tok : Bytes       -- the spelling of the value
  w4 : Bytes
  v : Obj
  d : Nat           -- nesting depth index of the spelling

def WObj.num (o : WObj) : Nat := digitsVal o.nds 0
def WObj.gen (o : WObj) : Nat := digitsVal o.gds 0

def WObj.bytes (o : WObj) : Bytes :=
  o.pad ++ (o.nds ++ (o.w1 ++ (o.gds ++ (o.w2 ++ (kwObj ++ (o.w3 ++ (o.tok ++ (o.w4 ++ kwEndobj))))))))

/-- the same up to the value; what follows is `w4` and a keyword (`endobj`, or `stream` for a stream object) -/
def WObj.headBytes (o : WObj) (u : Bytes) : Bytes :=
  o.pad ++ (o.nds ++ (o.w1 ++ (o.gds ++ (o.w2 ++ (kwObj ++ (o.w3 ++ (o.tok ++ (o.w4 ++ u))))))))

/-- offset of the value's first byte relative to the start of the padding -/
def WObj.valOfs (o : WObj) : Nat :=
  o.pad.length + (o.nds.length + (o.w1.length + (o.gds.length + (o.w2.length + (3 + o.w3.length)))))

/-- the lexical well-formedness of a written object -/
structure WObj.OK (o : WObj) : Prop where
  pad : WsRun o.pad
  nne : o.nds ≠ []
  ndig : ∀ y ∈ o.nds, isDigit y = true
  nfit : digitsVal o.nds 0 ≤ i64Max
  w1 : WsRun o.w1
  w1ne : o.w1 ≠ []
  gne : o.gds ≠ []
  gdig : ∀ y ∈ o.gds, isDigit y = true
  gfit : digitsVal o.gds 0 ≤ i64Max
  w2 : WsRun o.w2
  w3 : WsRun o.w3
  spells : Spells o.d o.v o.tok
  depth : o.d ≤ 50
  w4 : WsRun o.w4
  w4req : endsReg o.v = true → o.w4 ≠ []

theorem kw_head (tag post : Bytes) (c : UInt8) (t : Bytes) (htag : tag = c :: t)
    (hc : isWsEol c = false ∧ c ≠ 37 ∧ isDigit c = false ∧ c ≠ 43 ∧ c ≠ 45) :
    ∀ b, (tag ++ post).head? = some b → isWsEol b = false ∧ b ≠ 37 ∧ isDigit b = false ∧ b ≠ 43 ∧ b ≠ 45 := by
  intro b hb
  subst htag
  simp at hb
  subst hb
  exact hc

theorem spells_not_stream {d : Nat} {v : Obj} {tok : Bytes} (h : Spells d v tok) :
    ∀ kvs sc, v ≠ .stream kvs sc := by
  intro kvs sc hv
  cases h <;> cases hv

/-- the head `n g obj <value>` of a written object; `u` is what follows the white space after the
    value: a keyword -/
theorem head_spelled (s : Bytes) (i : Nat) (o : WObj) (u : Bytes) (hi : i ≤ s.length)
    (hd : s.drop i = o.headBytes u) (hok : o.OK)
    (hu : ∀ b, u.head? = some b → isWsEol b = false ∧ b ≠ 37 ∧ isDigit b = false ∧ b ≠ 43 ∧ b ≠ 45)
    (defs : Defs) :
    wsEOL true s i = (.ok ⟨(), i, i + o.pad.length⟩, i + o.pad.length) ∧
    indirectHead ⟨defs, 0, 50, false⟩ s (i + o.pad.length) =
      ((.ok ⟨o.num, o.gen, ⟨o.v, i + o.valOfs, i + o.valOfs + o.tok.length⟩⟩, i + o.valOfs + o.tok.length),
       ⟨defs, 0, 50, false⟩) ∧
    s.drop (i + o.valOfs + o.tok.length) = o.w4 ++ u ∧
    i + o.valOfs + o.tok.length ≤ s.length := by
  have hd0 : s.drop i = o.pad ++ (o.nds ++ (o.w1 ++ (o.gds ++ (o.w2 ++ (kwObj ++ (o.w3 ++ (o.tok ++ (o.w4 ++ u)))))))) := hd
  -- padding
  have h0 := ws_d true s i o.pad _ hi hd0 hok.pad (digits_head_not_ws o.nds _ hok.nne hok.ndig) (Or.inr rfl)
  have hd1 := drop_next hd0
  have hi1 := drop_le hd0 hi
  -- object number
  have h1 := int_d s _ o.nds _ hi1 hd1 hok.nne hok.ndig
    (fun y hy => (wsRun_head_not o.w1 _ hok.w1 hok.w1ne y hy).1) hok.nfit
  have hd2 := drop_next hd1
  have hi2 := drop_le hd1 hi1
  have h2 := ws_d true s _ o.w1 _ hi2 hd2 hok.w1 (digits_head_not_ws o.gds _ hok.gne hok.gdig) (Or.inr rfl)
  have hd3 := drop_next hd2
  have hi3 := drop_le hd2 hi2
  -- generation: followed by w2 ++ "obj"
  have hctx3 : ∀ y, (o.w2 ++ (kwObj ++ (o.w3 ++ (o.tok ++ (o.w4 ++ u))))).head? = some y →
      isDigit y = false := by
    intro y hy
    by_cases hw2 : o.w2 = []
    · rw [hw2] at hy; simp [kwObj] at hy; subst hy; decide
    · exact (wsRun_head_not o.w2 _ hok.w2 hw2 y hy).1
  have h3 := int_d s _ o.gds _ hi3 hd3 hok.gne hok.gdig hctx3 hok.gfit
  have hd4 := drop_next hd3
  have hi4 := drop_le hd3 hi3
  have h4 := ws_d true s _ o.w2 _ hi4 hd4 hok.w2
    (by intro b hb; simp [kwObj] at hb; subst hb; decide) (Or.inr rfl)
  have hd5 := drop_next hd4
  have hi5 := drop_le hd4 hi4
  have h5 := exact_d kwObj s _ _ hd5
  have hd6 := drop_next hd5
  have hi6 := drop_le hd5 hi5
  -- white space before the value: the value starts with a token byte
  obtain ⟨b0, tl, htok, hstart, -, -⟩ := hok.spells.head
  obtain ⟨f1, f2, -, -, -⟩ := tokStart_facts b0 hstart
  have h6 := ws_d true s _ o.w3 _ hi6 hd6 hok.w3
    (by intro b hb; rw [htok] at hb; simp at hb; subst hb; exact ⟨f1, f2⟩) (Or.inr rfl)
  have hd7 := drop_next hd6
  have hi7 := drop_le hd6 hi6
  -- the value
  have hf : Follows o.v (o.w4 ++ u) := follows_ws_kw o.v o.w4 _ hok.w4 hu hok.w4req
  have h7 := obj_d hok.spells ⟨0, 50⟩ (by simpa using hok.depth) s _ _ hi7 hd7 hf
  have hd8 := drop_next hd7
  have hi8 := drop_le hd7 hi7
  have hpos : i + o.pad.length + o.nds.length + o.w1.length + o.gds.length + o.w2.length + kwObj.length + o.w3.length
      = i + o.valOfs := by
    simp only [WObj.valOfs, kwObj, List.length_cons, List.length_nil]; omega
  rw [hpos] at h7 hd8 hi8
  refine ⟨h0, ?_, hd8, hi8⟩
  unfold indirectHead
  rw [h1]
  have hus1 : isUsize ((digitsVal o.nds 0 : Nat) : Int) = true := by simp [isUsize]
  simp only [hus1, Bool.not_true, Bool.false_eq_true, if_false]
  rw [h2]
  simp only
  rw [h3]
  have hus2 : isUsize ((digitsVal o.gds 0 : Nat) : Int) = true := by simp [isUsize]
  simp only [hus2, Bool.or_true, Bool.not_true, Bool.false_eq_true, if_false]
  rw [h4]
  simp only
  rw [h5]
  simp only
  rw [h6]
  simp only
  rw [hpos, h7]
  simp [WObj.num, WObj.gen]

/-- **`reads_spelled`**: a written object reads, in every context that does not define its
    identifier yet, as `(num, gen) ↦ value` - the premise `ReadsAt` of the loading stage. -/
theorem reads_spelled (s : Bytes) (i : Nat) (o : WObj) (post : Bytes) (hi : i ≤ s.length)
    (hd : s.drop i = o.bytes ++ post) (hok : o.OK) :
    C03.ReadsAt 0 50 false s ⟨o.num, o.gen, i, ⟨o.v, i + o.valOfs, i + o.valOfs + o.tok.length⟩⟩ := by
  intro defs hs hn
  obtain ⟨h0, hhead, hd8, hi8⟩ := head_spelled s i o (kwEndobj ++ post) hi
    (by rw [hd]; simp [WObj.bytes, WObj.headBytes]) hok (kw_head kwEndobj post 101 _ rfl (by decide)) defs
  have hn' : defsGet (o.num, o.gen) defs = none := hn
  have hkw : ∀ b, (kwEndobj ++ post).head? = some b → isWsEol b = false ∧ b ≠ 37 := by
    intro b hb; simp [kwEndobj] at hb; subst hb; decide
  -- white space before `endobj`
  have hw4 := ws_d true s _ o.w4 _ hi8 hd8 hok.w4 hkw (Or.inr rfl)
  have hd9 := drop_next hd8
  have hi9 := drop_le hd8 hi8
  have hw9 := ws_d true s _ [] _ hi9 (by simpa using hd9) WsRun.nil hkw (Or.inr rfl)
  simp only [List.length_nil, Nat.add_zero] at hw9
  have hex := exact_d kwEndobj s _ post hd9
  -- the body: not a stream
  have hbody : ∃ j, indirectBody ⟨defs, 0, 50, false⟩ s ⟨o.v, i + o.valOfs, i + o.valOfs + o.tok.length⟩
        (i + o.valOfs + o.tok.length) = (.ok ⟨o.v, i + o.valOfs, i + o.valOfs + o.tok.length⟩, j) ∧
      wsEOL true s j = (.ok ⟨(), j, i + o.valOfs + o.tok.length + o.w4.length⟩, i + o.valOfs + o.tok.length + o.w4.length) := by
    cases hv : o.v with
    | dict kvs =>
      refine ⟨i + o.valOfs + o.tok.length + o.w4.length, ?_, hw9⟩
      unfold indirectBody
      simp only
      rw [hw4]
      have hns : startsWith kwStream s (i + o.valOfs + o.tok.length + o.w4.length) = false := by
        unfold startsWith; rw [hd9]; simp [kwStream, kwEndobj, List.isPrefixOf]
      simp [hns]
    | stream kvs sc => exact absurd hv (spells_not_stream hok.spells kvs sc)
    | null => exact ⟨_, by simp [indirectBody], hw4⟩
    | bool b => exact ⟨_, by simp [indirectBody], hw4⟩
    | int n => exact ⟨_, by simp [indirectBody], hw4⟩
    | real n d => exact ⟨_, by simp [indirectBody], hw4⟩
    | str b => exact ⟨_, by simp [indirectBody], hw4⟩
    | name b => exact ⟨_, by simp [indirectBody], hw4⟩
    | ref n g => exact ⟨_, by simp [indirectBody], hw4⟩
    | arr xs => exact ⟨_, by simp [indirectBody], hw4⟩
    | comment b => exact ⟨_, by simp [indirectBody], hw4⟩
  obtain ⟨j, hb, hwj⟩ := hbody
  have hold : (defsInsert (o.num, o.gen) ⟨o.v, i + o.valOfs, i + o.valOfs + o.tok.length⟩ defs).1 = none := by
    rw [defsInsert_old _ _ defs hs, hn']
  refine ⟨i + o.pad.length, i + o.valOfs + o.tok.length + o.w4.length + kwEndobj.length, ?_⟩
  unfold parseIndirect
  rw [h0]
  simp only
  unfold indirectInternal
  rw [hhead]
  simp only [hb]
  unfold indirectFinish
  rw [hwj]
  simp only [hex]
  rcases hins : defsInsert (o.num, o.gen) ⟨o.v, i + o.valOfs, i + o.valOfs + o.tok.length⟩ defs with ⟨old, d'⟩
  rw [hins] at hold
  simp only at hold
  subst hold
  simp [C03.Item.key, hins]

/-! ## the trailer dictionary -/

/-- `DictP::parse` called directly is the dictionary branch of the dispatcher -/
theorem parseInternal_dictP (cur max : Nat) (s : Bytes) (i : Nat) (rest : Bytes)
    (hd : s.drop i = 60 :: 60 :: rest) :
    parseInternal (parseObjB max (max - cur)) cur s i =
      match dictP cur max s i with
      | ((.ok kvs, j), c') => ((.ok (.dict kvs), j), c')
      | ((.err k, j), c') => ((.err k, j), c')
      | ((.panic p, j), c') => ((.panic p, j), c') := by
  have hp0 : peek s i = some 60 := by
    have := congrArg List.head? hd
    simpa [peek, List.head?_drop] using this
  have hp1 : peek s (i + 1) = some 60 := by
    have h1 : s.drop (i + 1) = 60 :: rest := by
      have := drop_next (x := [60]) (r := 60 :: rest) (by simpa using hd)
      simpa using this
    have := congrArg List.head? h1
    simpa [peek, List.head?_drop] using this
  have hex : exact [60, 60] s i = (true, i + 2) := exact_d [60, 60] s i rest (by simpa using hd)
  unfold parseInternal dictP
  rw [hp0, hex]
  simp only [hp1]
  simp only [show ((60 : UInt8) == 116 || (60 : UInt8) == 102) = false by decide, show ((60 : UInt8) == 110) = false by decide,
    show ((60 : UInt8) == 40) = false by decide, show ((60 : UInt8) == 37) = false by decide,
    show ((60 : UInt8) == 47) = false by decide, show ((60 : UInt8) == 91) = false by decide,
    beq_self_eq_true, Bool.false_eq_true, if_false, if_true]
  rcases dictLoop (parseObjB max (max - cur)) (s.length + 1 - i) cur s (i + 2) [] [] with ⟨⟨r, j⟩, c'⟩
  cases r <;> rfl

/-- **the trailer**: `trailer`, white space, any legal spelling of a dictionary -/
theorem trailer_spelled (defs : Defs) (eol : Bool) (s : Bytes) (i : Nat) (w tok rest : Bytes) (d : Nat)
    (D : List (Bytes × Obj)) (hi : i ≤ s.length)
    (hd : s.drop i = kwTrailer ++ (w ++ (tok ++ rest))) (hw : WsRun w) (hsp : Spells d (.dict D) tok) (hdep : d ≤ 51) :
    trailerP ⟨defs, 0, 50, eol⟩ s i =
      ((.ok D, i + kwTrailer.length + w.length + tok.length), ⟨defs, 0, 50, eol⟩) := by
  obtain ⟨body, htok⟩ : ∃ body, tok = 60 :: 60 :: body := by
    cases hsp with
    | dict d ents body sep h hsep => exact ⟨_, rfl⟩
  have h0 := exact_d kwTrailer s i _ hd
  have hd1 := drop_next hd
  have hi1 := drop_le hd hi
  have h1 := ws_d true s _ w _ hi1 hd1 hw
    (by intro b hb; rw [htok] at hb; simp at hb; subst hb; decide) (Or.inr rfl)
  have hd2 := drop_next hd1
  have hi2 := drop_le hd1 hi1
  -- the dispatcher on the spelling, shifted to the cursor
  have hf : Follows (.dict D) rest := by
    refine ⟨fun he => by simp [endsReg] at he, fun hn => ?_⟩
    obtain ⟨n, hn⟩ := hn; cases hn
  have hpi := parseInternal_spells hsp 50 0 rest hf (by omega)
  have hsh := Parsley.Shift.parseInternal_pre (s.take (i + kwTrailer.length + w.length)) (tok ++ rest) 0
    (parseObjB 50 (50 - 0)) (Parsley.Shift.parseObjB_pre _ 50 (50 - 0)) 0
  rw [← split_at hd2, take_len hi2, hpi] at hsh
  simp only [Nat.add_zero, Parsley.Shift.shiftL] at hsh
  have hdp := parseInternal_dictP 0 50 s (i + kwTrailer.length + w.length) (body ++ rest)
    (by rw [hd2, htok]; simp)
  rw [hsh] at hdp
  unfold trailerP
  rw [h0]
  simp only
  rw [h1]
  simp only
  rcases hdict : dictP 0 50 s (i + kwTrailer.length + w.length) with ⟨⟨r, j⟩, c'⟩
  rw [hdict] at hdp
  cases r with
  | ok kvs =>
    simp only at hdp
    injection hdp with h1 h2
    injection h1 with h1 h3
    injection h1 with h1
    injection h1 with h1
    subst h1 h2 h3
    simp
  | err k => simp at hdp
  | panic p => simp at hdp

end Parsley.LoaderE2E
