/-
  C03 - the object-loading stage WITH object streams.

  `LoaderStage.stage_from` describes `parse_objects` on entry lists made of in-file entries only.
  This file generalises it to entry lists that also contain in-stream entries (all theorems are about
  the faithful model `Parsley.Loader`, Model/Loader.lean):

    firstPass_mixed        the first pass over a mixed list = the first pass over its in-file entries
                           (`filesOf`), and `obj_streams` = the `BTreeSet` of the container identifiers
                           named by its in-stream entries (`stmSet`, `mem_stmSet`, `stmSet_sorted`)
    definedStreams_conts   `defined_obj_streams` under the final definitions = the containers, in the
                           set's order (each container exactly once)
    objStmPass_conts       the last loop over containers that load (`Cont.Loads`) binds every member
                           and nothing else
    stage_from_objstm      the three together, from ANY sorted starting context (the cross-reference
                           stream object is registered before `parse_objects` starts)

  `Cont.Loads hofs s c` is the semantic interface of one container: `ObjStreamP` on its dictionary and
  content view accepts, in every unencrypted sorted context that does not bind its members, binds the
  members and changes nothing else.  Lemmas/LoaderE2EObjStmW.lean proves it from a DECLARATIVE description
  of the stream as written (by `C14.objstm_roundtrip`), and instantiates the stage theorem on concrete files
  (non-vacuity: container bound beforehand, container loaded through its own in-file entry, Flate variant).
-/
import Parsley.Lemmas.LoaderStage
import Parsley.Props.C14
namespace Parsley.LoaderObjStm
open Parsley Parsley.Prim Parsley.Obj Parsley.Indirect Parsley.Loader
open Parsley.C03 (Item ReadsAt valDefs_get)
open Parsley.LoaderStage (insertNew insertNew_sorted defsGet_insertNew_other defsGet_insertNew_old
  defsGet_insertNew_mem)

/-! ## the entry list -/

/-- the in-file infos, in order -/
def filesOf : List ObjInfo → List ObjInfo
  | [] => []
  | .inFile id gen ofs :: t => .inFile id gen ofs :: filesOf t
  | .inStm _ _ :: t => filesOf t

/-- the container identifiers named by the in-stream infos, in order (with repetitions) -/
def stmsOf : List ObjInfo → List ObjId
  | [] => []
  | .inFile _ _ _ :: t => stmsOf t
  | .inStm id gen :: t => (id, gen) :: stmsOf t

/-- `obj_streams` after the first loop, started from `os` -/
def stmSet : List ObjInfo → List ObjId → List ObjId
  | [], os => os
  | .inFile _ _ _ :: t, os => stmSet t os
  | .inStm id gen :: t, os => stmSet t (setInsert (id, gen) os)

/-! ## `BTreeSet::insert` -/

/-- the `BTreeSet` invariant -/
def SetSorted (os : List ObjId) : Prop := os.Pairwise fun a b => idLt a b = true

theorem mem_setInsert (k x : ObjId) : ∀ os : List ObjId, x ∈ setInsert k os ↔ x = k ∨ x ∈ os
  | [] => by simp [setInsert]
  | k' :: t => by
    unfold setInsert
    split
    · simp
    · split
      · simp only [List.mem_cons, mem_setInsert k x t]
        constructor
        · rintro (h | h | h)
          · exact .inr (.inl h)
          · exact .inl h
          · exact .inr (.inr h)
        · rintro (h | h | h)
          · exact .inr (.inl h)
          · exact .inl h
          · exact .inr (.inr h)
      · rename_i h1 h2
        have : k = k' := idLt_tricho (by simpa using h1) (by simpa using h2)
        subst this
        simp only [List.mem_cons]
        constructor
        · intro h; exact .inr h
        · rintro (h | h)
          · exact .inl h
          · exact h

theorem setInsert_sorted (k : ObjId) : ∀ os : List ObjId, SetSorted os → SetSorted (setInsert k os)
  | [], _ => by simp [setInsert, SetSorted]
  | k' :: t, hs => by
    have hs' := List.pairwise_cons.mp hs
    unfold setInsert
    split
    · rename_i h1
      refine List.pairwise_cons.mpr ⟨?_, hs⟩
      intro y hy
      rcases List.mem_cons.mp hy with rfl | hy
      · exact h1
      · exact idLt_trans h1 (hs'.1 y hy)
    · split
      · rename_i h1 h2
        refine List.pairwise_cons.mpr ⟨?_, setInsert_sorted k t hs'.2⟩
        intro y hy
        rcases (mem_setInsert k y t).mp hy with rfl | hy
        · exact h2
        · exact hs'.1 y hy
      · exact hs

theorem setSorted_nodup (os : List ObjId) (h : SetSorted os) : os.Nodup :=
  List.Pairwise.imp (fun hab => idLt_ne hab) h

theorem mem_stmSet (x : ObjId) : ∀ (infos : List ObjInfo) (os : List ObjId),
    x ∈ stmSet infos os ↔ x ∈ stmsOf infos ∨ x ∈ os
  | [], os => by simp [stmSet, stmsOf]
  | .inFile _ _ _ :: t, os => by simp only [stmSet, stmsOf]; exact mem_stmSet x t os
  | .inStm id gen :: t, os => by
    simp only [stmSet, stmsOf, List.mem_cons]
    rw [mem_stmSet x t, mem_setInsert]
    constructor
    · rintro (h | h | h)
      · exact .inl (.inr h)
      · exact .inl (.inl h)
      · exact .inr h
    · rintro ((h | h) | h)
      · exact .inr (.inl h)
      · exact .inl h
      · exact .inr (.inr h)

theorem stmSet_sorted : ∀ (infos : List ObjInfo) (os : List ObjId), SetSorted os → SetSorted (stmSet infos os)
  | [], _, h => h
  | .inFile _ _ _ :: t, os, h => by simp only [stmSet]; exact stmSet_sorted t os h
  | .inStm id gen :: t, os, h => by
    simp only [stmSet]; exact stmSet_sorted t _ (setInsert_sorted _ _ h)

/-! ## the first pass over a mixed list -/

/-- the first pass over ANY entry list whose in-file entries are `items`, from any sorted context: the
    in-file entries are treated as in `LoaderStage.firstPass_from`, an in-stream entry only adds its
    container's identifier to `obj_streams` -/
theorem firstPass_mixed (cur max : Nat) (eol : Bool) (s : Bytes) :
    ∀ (infos : List ObjInfo) (items : List Item) (defs : Defs) (os : List ObjId) (sp : List (Nat × Nat × Nat)),
      DefsSorted defs → (items.map Item.key).Nodup → filesOf infos = items.map Item.info →
      (∀ it ∈ items, defsGet it.key defs = none → it.ofs < s.length ∧ ReadsAt cur max eol s it) →
      firstPass infos ⟨defs, cur, max, eol⟩ s os sp =
        (.ok (stmSet infos os, sp.reverse), ⟨insertNew items defs, cur, max, eol⟩)
  | [], items, defs, os, sp, _, _, hf, _ => by
    cases items with
    | nil => simp [firstPass, insertNew, stmSet]
    | cons it t => simp [filesOf] at hf
  | .inStm id gen :: t, items, defs, os, sp, hs, hnd, hf, hread => by
    simp only [firstPass, stmSet]
    exact firstPass_mixed cur max eol s t items defs _ sp hs hnd (by simpa [filesOf] using hf) hread
  | .inFile id gen ofs :: t, items, defs, os, sp, hs, hnd, hf, hread => by
    cases items with
    | nil => simp [filesOf] at hf
    | cons it items' =>
      simp only [filesOf, List.map_cons, List.cons.injEq] at hf
      obtain ⟨hit, hf'⟩ := hf
      simp only [Item.info, ObjInfo.inFile.injEq] at hit
      obtain ⟨rfl, rfl, rfl⟩ := hit
      simp only [List.map_cons, List.nodup_cons] at hnd
      cases hg : defsGet it.key defs with
      | some v0 =>
        have hg' : defsGet (it.id, it.gen) defs = some v0 := hg
        simp only [firstPass, hg', Option.isSome_some, if_true, insertNew, hg, stmSet]
        exact firstPass_mixed cur max eol s t items' defs os sp hs hnd.2 hf'
          (fun x hx => hread x (List.mem_cons_of_mem _ hx))
      | none =>
        obtain ⟨hlt, hr⟩ := hread it List.mem_cons_self hg
        obtain ⟨a, e, hp⟩ := hr defs hs hg
        have hg' : defsGet (it.id, it.gen) defs = none := hg
        simp only [firstPass, hg', Option.isSome_none, Bool.false_eq_true, if_false, hlt,
          decide_true, Bool.not_true, hp, bne_self_eq_false, insertNew, hg, stmSet]
        apply firstPass_mixed cur max eol s t items' _ os sp (defsInsert_sorted it.key it.v defs hs) hnd.2 hf'
        intro x hx
        rw [defsGet_insert_other it.key x.key it.v defs
          (fun hk => hnd.1 (by rw [← hk]; exact List.mem_map_of_mem hx))]
        exact hread x (List.mem_cons_of_mem _ hx)

/-! ## containers -/

/-- an object stream of the document: its object number (generation 0), the dictionary and content
    descriptor of the stream object, and the objects it holds as (number, value) pairs -/
structure Cont where
  num : Nat
  kvs : List (Bytes × Obj)
  sc : StreamContent
  members : List (Nat × Obj)

def Cont.key (c : Cont) : ObjId := (c.num, 0)

/-- the triple `defined_obj_streams` holds for the container -/
def Cont.entry (c : Cont) : ObjId × List (Bytes × Obj) × StreamContent := (c.key, c.kvs, c.sc)

/-- **the container loads** in the document view `s` (absolute start `hofs`): its content lies inside the
    view, and `ObjStreamP` run on it in ANY unencrypted context with the loader's depth budget and a
    sorted map that binds none of its members accepts, binds every member `(n, 0)` to its value and
    changes nothing else. -/
def Cont.Loads (hofs : Nat) (s : Bytes) (c : Cont) : Prop :=
  (c.sc.size ≤ s.length ∧ c.sc.start ≤ s.length - c.sc.size) ∧
  ∀ oc : ObjStm.Ctx, oc.encrypted = false → oc.depth = ⟨0, 50⟩ → ObjStm.DefsSorted oc.defs →
    (∀ m ∈ c.members, ObjStm.defsGet (m.1, 0) oc.defs = none) →
    ∃ ms oc', ObjStm.objStmParse objDec (hofs + c.sc.start) oc c.kvs ((s.drop c.sc.start).take c.sc.size) 0
        = (.ok ms, oc') ∧
      oc'.encrypted = false ∧ oc'.depth = ⟨0, 50⟩ ∧ ObjStm.DefsSorted oc'.defs ∧
      (∀ m ∈ c.members, ObjStm.defsGet (m.1, 0) oc'.defs = some m.2) ∧
      (∀ k, (∀ m ∈ c.members, (m.1, 0) ≠ k) → ObjStm.defsGet k oc'.defs = ObjStm.defsGet k oc.defs)

/-- `defined_obj_streams` over identifiers that all name containers bound (as stream objects) by the
    definitions: the containers, in the order of the identifiers -/
theorem definedStreams_conts (conts : List Cont) (D : Defs)
    (hF : ∀ c ∈ conts, ∃ lv, defsGet c.key D = some lv ∧ lv.val = .stream c.kvs c.sc) :
    ∀ os : List ObjId, (∀ id ∈ os, ∃ c ∈ conts, id = c.key) →
      ∃ cs : List Cont, definedStreams os D = cs.map Cont.entry ∧ cs.map Cont.key = os ∧ ∀ c ∈ cs, c ∈ conts
  | [], _ => ⟨[], rfl, rfl, by simp⟩
  | id :: t, h => by
    obtain ⟨c, hc, rfl⟩ := h id List.mem_cons_self
    obtain ⟨cs, h1, h2, h3⟩ := definedStreams_conts conts D hF t (fun x hx => h x (List.mem_cons_of_mem _ hx))
    obtain ⟨lv, hlv, hval⟩ := hF c hc
    obtain ⟨val, a, b⟩ := lv
    simp only at hval
    subst hval
    refine ⟨c :: cs, ?_, by simp [h2], ?_⟩
    · simp only [definedStreams, hlv, h1, List.map_cons, Cont.entry]
    · intro x hx
      rcases List.mem_cons.mp hx with rfl | hx
      · exact hc
      · exact h3 x hx

/-- the last loop of `parse_objects` over containers that load, with pairwise disjoint fresh members:
    every member is bound, nothing else changes -/
theorem objStmPass_conts (hofs : Nat) (s : Bytes) : ∀ (cs : List Cont) (oc : ObjStm.Ctx),
    oc.encrypted = false → oc.depth = ⟨0, 50⟩ → ObjStm.DefsSorted oc.defs →
    (∀ c ∈ cs, c.Loads hofs s) → (cs.map Cont.num).Nodup →
    (∀ c1 ∈ cs, ∀ c2 ∈ cs, c1.num ≠ c2.num → ∀ m1 ∈ c1.members, ∀ m2 ∈ c2.members, m1.1 ≠ m2.1) →
    (∀ c ∈ cs, ∀ m ∈ c.members, ObjStm.defsGet (m.1, 0) oc.defs = none) →
    ∃ oc', objStmPass hofs s (cs.map Cont.entry) oc = (.ok (), oc') ∧
      (∀ c ∈ cs, ∀ m ∈ c.members, ObjStm.defsGet (m.1, 0) oc'.defs = some m.2) ∧
      (∀ k, (∀ c ∈ cs, ∀ m ∈ c.members, (m.1, 0) ≠ k) → ObjStm.defsGet k oc'.defs = ObjStm.defsGet k oc.defs)
  | [], oc, _, _, _, _, _, _, _ => ⟨oc, rfl, by simp, fun _ _ => rfl⟩
  | c :: t, oc, henc, hdep, hsort, hloads, hnd, hdisj, hfresh => by
    simp only [List.map_cons, List.nodup_cons] at hnd
    obtain ⟨⟨hv1, hv2⟩, hL⟩ := hloads c List.mem_cons_self
    obtain ⟨ms, oc1, hrun, henc1, hdep1, hsort1, hmem1, hoth1⟩ :=
      hL oc henc hdep hsort (hfresh c List.mem_cons_self)
    have hne : ∀ c2 ∈ t, c.num ≠ c2.num := fun c2 hc2 he => hnd.1 (by rw [he]; exact List.mem_map_of_mem hc2)
    have hfresh1 : ∀ c2 ∈ t, ∀ m ∈ c2.members, ObjStm.defsGet (m.1, 0) oc1.defs = none := by
      intro c2 hc2 m hm
      rw [hoth1 (m.1, 0) (fun m1 hm1 he => hdisj c List.mem_cons_self c2 (List.mem_cons_of_mem _ hc2) (hne c2 hc2)
        m1 hm1 m hm (by simpa using he))]
      exact hfresh c2 (List.mem_cons_of_mem _ hc2) m hm
    obtain ⟨oc', hrun', hmem', hoth'⟩ := objStmPass_conts hofs s t oc1 henc1 hdep1 hsort1
      (fun x hx => hloads x (List.mem_cons_of_mem _ hx)) hnd.2
      (fun c1 h1 c2 h2 => hdisj c1 (List.mem_cons_of_mem _ h1) c2 (List.mem_cons_of_mem _ h2)) hfresh1
    refine ⟨oc', ?_, ?_, ?_⟩
    · simp only [List.map_cons, Cont.entry, objStmPass, hv1, hv2, decide_true, Bool.and_self, Bool.not_true,
        Bool.false_eq_true, if_false, hrun]
      exact hrun'
    · intro x hx m hm
      rcases List.mem_cons.mp hx with rfl | hx
      · rw [hoth' (m.1, 0) (fun c2 hc2 m2 hm2 he => hdisj x List.mem_cons_self c2 (List.mem_cons_of_mem _ hc2)
          (hne c2 hc2) m hm m2 hm2 (by simpa using he.symm))]
        exact hmem1 m hm
      · exact hmem' x hx m hm
    · intro k hk
      rw [hoth' k (fun c2 hc2 => hk c2 (List.mem_cons_of_mem _ hc2)), hoth1 k (hk c List.mem_cons_self)]

/-! ## the stage theorem -/

/-- pairwise distinct member numbers over all containers, in the membership form the induction uses -/
theorem disjoint_of_nodup : ∀ (conts : List Cont),
    (conts.flatMap fun c => c.members.map (·.1)).Nodup →
    ∀ c1 ∈ conts, ∀ c2 ∈ conts, c1.num ≠ c2.num → ∀ m1 ∈ c1.members, ∀ m2 ∈ c2.members, m1.1 ≠ m2.1
  | [], _ => by simp
  | c :: t, h => by
    simp only [List.flatMap_cons, List.nodup_append] at h
    obtain ⟨-, ht, hx⟩ := h
    have ih := disjoint_of_nodup t ht
    have key : ∀ c2 ∈ t, ∀ m1 ∈ c.members, ∀ m2 ∈ c2.members, m1.1 ≠ m2.1 := by
      intro c2 hc2 m1 hm1 m2 hm2
      exact hx m1.1 (List.mem_map_of_mem hm1) m2.1
        (List.mem_flatMap.mpr ⟨c2, hc2, List.mem_map_of_mem hm2⟩)
    intro c1 h1 c2 h2 hne m1 hm1 m2 hm2
    rcases List.mem_cons.mp h1 with e1 | h1'
    · rcases List.mem_cons.mp h2 with e2 | h2'
      · exact absurd (by rw [e1, e2]) hne
      · rw [e1] at hm1; exact key c2 h2' m1 hm1 m2 hm2
    · rcases List.mem_cons.mp h2 with e2 | h2'
      · rw [e2] at hm2; exact fun he => key c1 h1' m2 hm2 m1 hm1 he.symm
      · exact ih c1 h1' c2 h2' hne m1 hm1 m2 hm2

theorem nodup_of_nodup_map {α β : Type} (f : α → β) : ∀ l : List α, (l.map f).Nodup → l.Nodup
  | [], _ => List.nodup_nil
  | a :: t, h => by
    simp only [List.map_cons, List.nodup_cons] at h ⊢
    exact ⟨fun ha => h.1 (List.mem_map_of_mem ha), nodup_of_nodup_map f t h.2⟩

theorem inj_of_nodup_map {α β : Type} (f : α → β) : ∀ l : List α, (l.map f).Nodup →
    ∀ a ∈ l, ∀ b ∈ l, f a = f b → a = b
  | [], _, _, ha, _, _, _ => by cases ha
  | x :: t, h, a, ha, b, hb, he => by
    simp only [List.map_cons, List.nodup_cons] at h
    rcases List.mem_cons.mp ha with e1 | ha'
    · rcases List.mem_cons.mp hb with e2 | hb'
      · rw [e1, e2]
      · exact absurd (by rw [← e1, he]; exact List.mem_map_of_mem hb') h.1
    · rcases List.mem_cons.mp hb with e2 | hb'
      · exact absurd (by rw [← e2, ← he]; exact List.mem_map_of_mem ha') h.1
      · exact inj_of_nodup_map f t h.2 a ha' b hb' he

/-- **stage_from_objstm** (stage: direct objects AND object streams, arbitrary starting context).
    `parse_objects`, unencrypted, started in a context that already binds `defs0` (sorted), on ANY entry
    list whose in-file entries are `items` (pairwise distinct identifiers; every entry not yet bound lies
    in the file and holds an object that reads as the entry says) and whose in-stream entries name exactly
    the containers `conts` (pairwise distinct numbers; each container is bound, by an entry or by `defs0`,
    to a stream object and loads; member numbers are pairwise distinct over ALL containers, differ from
    every entry's identifier and are not bound in `defs0`):  the load ends without rejection and
    (a) every entry not yet bound is bound to the value written at its offset, (b) every member `(n, 0)` of
    every container is bound to its value, (c) an identifier that is neither an entry nor a member keeps
    what `defs0` said (in particular stays undefined), (d) every binding of `defs0` survives. -/
theorem stage_from_objstm (hofs : Nat) (s : Bytes) (defs0 : Defs) (hs0 : DefsSorted defs0)
    (infos : List ObjInfo) (items : List Item) (conts : List Cont)
    (hfiles : filesOf infos = items.map Item.info)
    (hstms : ∀ id, id ∈ stmsOf infos ↔ ∃ c ∈ conts, id = c.key)
    (hnd : (items.map Item.key).Nodup)
    (hread : ∀ it ∈ items, defsGet it.key defs0 = none → it.ofs < s.length ∧ ReadsAt 0 50 false s it)
    (hcnd : (conts.map Cont.num).Nodup)
    (hcont : ∀ c ∈ conts,
      ((∃ it ∈ items, it.key = c.key ∧ defsGet it.key defs0 = none ∧ it.v.val = .stream c.kvs c.sc) ∨
       (∃ v0, defsGet c.key defs0 = some v0 ∧ v0.val = .stream c.kvs c.sc)) ∧ c.Loads hofs s)
    (hmnd : (conts.flatMap fun c => c.members.map (·.1)).Nodup)
    (hfresh : ∀ c ∈ conts, ∀ m ∈ c.members, (∀ it ∈ items, it.key ≠ (m.1, 0)) ∧ defsGet (m.1, 0) defs0 = none) :
    ∃ defs, parseObjects hofs ⟨⟨defs0, 0, 50, false⟩, false⟩ infos s = .ok defs ∧
      (∀ it ∈ items, defsGet it.key defs0 = none → ObjStm.defsGet it.key defs = some it.v.val) ∧
      (∀ c ∈ conts, ∀ m ∈ c.members, ObjStm.defsGet (m.1, 0) defs = some m.2) ∧
      (∀ k, (∀ it ∈ items, it.key ≠ k) → (∀ c ∈ conts, ∀ m ∈ c.members, (m.1, 0) ≠ k) →
          ObjStm.defsGet k defs = (defsGet k defs0).map (·.val)) ∧
      (∀ k v0, defsGet k defs0 = some v0 → ObjStm.defsGet k defs = some v0.val) := by
  have hfp := firstPass_mixed 0 50 false s infos items defs0 [] [] hs0 hnd hfiles hread
  -- the containers under the final definitions
  have hF : ∀ c ∈ conts, ∃ lv, defsGet c.key (insertNew items defs0) = some lv ∧ lv.val = .stream c.kvs c.sc := by
    intro c hc
    rcases (hcont c hc).1 with ⟨it, hit, hk, hn, hv⟩ | ⟨v0, h0, hv⟩
    · exact ⟨it.v, by rw [← hk]; exact defsGet_insertNew_mem items defs0 it hnd hit hn, hv⟩
    · exact ⟨v0, defsGet_insertNew_old c.key v0 items defs0 h0, hv⟩
  have hos : ∀ id ∈ stmSet infos [], ∃ c ∈ conts, id = c.key := by
    intro id hid
    rcases (mem_stmSet id infos []).mp hid with h | h
    · exact (hstms id).mp h
    · cases h
  obtain ⟨cs, hds, hkeys, hsub⟩ := definedStreams_conts conts (insertNew items defs0) hF (stmSet infos []) hos
  have hosnd : (stmSet infos []).Nodup := setSorted_nodup _ (stmSet_sorted infos [] List.Pairwise.nil)
  have hcsnd : (cs.map Cont.num).Nodup := by
    have h1 : (cs.map Cont.key).Nodup := by rw [hkeys]; exact hosnd
    have h2 : cs.map Cont.key = (cs.map Cont.num).map (fun n => (n, 0)) := by simp [Cont.key]
    rw [h2] at h1
    have h3 := nodup_of_nodup_map _ _ h1
    exact h3
  -- every container is processed
  have hall : ∀ c ∈ conts, c ∈ cs := by
    intro c hc
    have h1 : c.key ∈ stmSet infos [] :=
      (mem_stmSet c.key infos []).mpr (.inl ((hstms c.key).mpr ⟨c, hc, rfl⟩))
    rw [← hkeys] at h1
    obtain ⟨c', hc', hk⟩ := List.mem_map.mp h1
    have hnum : c'.num = c.num := by simpa [Cont.key] using hk
    have hc'' := hsub c' hc'
    have : c' = c := inj_of_nodup_map Cont.num conts hcnd c' hc'' c hc hnum
    rw [← this]; exact hc'
  have hdisj := disjoint_of_nodup conts hmnd
  have hsortD := insertNew_sorted items defs0 hs0
  have hfreshD : ∀ c ∈ cs, ∀ m ∈ c.members,
      ObjStm.defsGet (m.1, 0) (valDefs (insertNew items defs0)) = none := by
    intro c hc m hm
    obtain ⟨h1, h2⟩ := hfresh c (hsub c hc) m hm
    rw [valDefs_get, defsGet_insertNew_other (m.1, 0) items defs0 h1, h2]
    rfl
  obtain ⟨oc', hrun, hmem, hoth⟩ := objStmPass_conts hofs s cs ⟨valDefs (insertNew items defs0), ⟨0, 50⟩, false⟩
    rfl rfl (LoaderNoPanic.valDefs_sorted _ hsortD) (fun c hc => (hcont c (hsub c hc)).2) hcsnd
    (fun c1 h1 c2 h2 => hdisj c1 (hsub c1 h1) c2 (hsub c2 h2)) hfreshD
  refine ⟨oc'.defs, ?_, ?_, ?_, ?_, ?_⟩
  · unfold parseObjects
    show (match firstPass infos ⟨defs0, 0, 50, false⟩ s [] [] with
      | (.panic p, _) => _ | (.reject, _) => _ | (.ok (os, sp), c1) => _) = _
    rw [hfp]
    simp only [List.reverse_nil, secondPass, hds, hrun]
  · intro it hit hn
    rw [hoth it.key (fun c hc m hm he => (hfresh c (hsub c hc) m hm).1 it hit he.symm), valDefs_get,
      defsGet_insertNew_mem items defs0 it hnd hit hn]
    rfl
  · intro c hc m hm
    exact hmem c (hall c hc) m hm
  · intro k hk1 hk2
    rw [hoth k (fun c hc => hk2 c (hsub c hc)), valDefs_get, defsGet_insertNew_other k items defs0 hk1]
  · intro k v0 h0
    rw [hoth k (fun c hc m hm he => by
        have := (hfresh c (hsub c hc) m hm).2
        rw [he, h0] at this; cases this),
      valDefs_get, defsGet_insertNew_old k v0 items defs0 h0]
    rfl

end Parsley.LoaderObjStm
