/-
  C03 end-to-end with OBJECT STREAMS (follow-up C03c): files whose cross-reference stream (alone, or behind a hybrid
  table's /XRefStm) has type-2 rows naming object-stream containers written in the body.

    stage_with_xs_objstm     the loading stage for a body one of whose objects (the cross-reference stream object) is
                             already registered, with in-stream entries: file-level objects AND members are bound
    load_xrefstream_objstm   end to end for `XrefStreamFile`
    load_hybrid_objstm       end to end for `HybridFile` (hidden objects: free entries in the table with a generation
                             other than 0, in-stream entries in the /XRefStm stream)
-/
import Parsley.Lemmas.LoaderE2EHybrid
import Parsley.Lemmas.LoaderE2EObjStmW
namespace Parsley.LoaderE2E
open Parsley Parsley.Prim Parsley.Obj Parsley.Indirect Parsley.Loader Parsley.C02 Parsley.Spelling
open Parsley.XrefSpec Parsley.C13 Parsley.LoaderChain Parsley.LoaderObjStm

/-- the object stream `w` is written as the file-level stream object at `q` (number `w.num`, generation 0): same
    dictionary, content = that object's data, which is an object stream as `WCont.Data` describes -/
def ContAt (w : WCont) (q : Piece × Nat) : Prop :=
  ∃ o : WStm, q.1 = o.piece ∧ o.num = w.num ∧ o.gen = 0 ∧ w.kvs = o.kvs ∧
    w.sc = ⟨q.2 + o.kwOfs + 6 + o.e1.length, o.data.length, o.data⟩ ∧ w.Data o.data

/-- the conditions on the object streams of a file with objects `objs`, cross-reference stream object `x` and
    cross-reference entries `X` -/
structure ContsOK (objs : List (Piece × Nat)) (x : Piece × Nat) (X : List Xref.Ent) (ws : List WCont) : Prop where
  /-- the in-stream entries name exactly the containers -/
  stms : ∀ id, id ∈ stmsOf (infoOf X) ↔ ∃ w ∈ ws, id = (w.num, 0)
  numsNodup : (ws.map WCont.num).Nodup
  /-- every container is an object of the body, not the cross-reference stream object -/
  placed : ∀ w ∈ ws, (w.num, 0) ≠ (x.1.num, x.1.gen) ∧ ∃ q ∈ objs, ContAt w q
  /-- member numbers are pairwise distinct over all containers and differ from every file-level identifier -/
  memsNodup : (ws.flatMap fun w => w.mems.map (·.num)).Nodup
  memsFresh : ∀ w ∈ ws, ∀ m ∈ w.mems, ∀ q ∈ objs, (q.1.num, q.1.gen) ≠ (m.num, 0)

theorem stage_with_xs_objstm (hofs : Nat) (view : Bytes) (objs : List (Piece × Nat)) (x : Piece × Nat) (hx : x ∈ objs)
    (X : List Xref.Ent) (ws : List WCont)
    (hsize : hofs + view.length ≤ 2 ^ 63)
    (hrb : ∀ q ∈ objs, (q.2 ≤ view.length ∧ ∃ post, view.drop q.2 = q.1.bytes ++ post) ∧ q.2 < view.length ∧
      ((q.1.num, q.1.gen) = (x.1.num, x.1.gen) ∨ C03.ReadsAt 0 50 false view (itemOf q)))
    (idsNodup : (objs.map fun q => (q.1.num, q.1.gen)).Nodup)
    (tableObjs : ∃ perm : List (Piece × Nat), perm.Perm objs ∧
      filesOf (infoOf X) = perm.map fun q => ObjInfo.inFile q.1.num q.1.gen q.2)
    (hws : ContsOK objs x X ws) :
    ∃ defs, parseObjects hofs ⟨⟨[((x.1.num, x.1.gen), x.1.val x.2)], 0, 50, false⟩, false⟩ (infoOf X) view = .ok defs ∧
      (∀ q ∈ objs, ObjStm.defsGet (q.1.num, q.1.gen) defs = some (q.1.val q.2).val) ∧
      (∀ w ∈ ws, ∀ m ∈ w.mems, ObjStm.defsGet (m.num, 0) defs = some m.v) ∧
      (∀ k, (∀ q ∈ objs, (q.1.num, q.1.gen) ≠ k) → (∀ w ∈ ws, ∀ m ∈ w.mems, (m.num, 0) ≠ k) →
        ObjStm.defsGet k defs = none) := by
  obtain ⟨perm, hperm, htab⟩ := tableObjs
  have hmem : ∀ q, q ∈ perm ↔ q ∈ objs := fun q => hperm.mem_iff
  have hinfo : filesOf (infoOf X) = (perm.map itemOf).map C03.Item.info := by
    rw [htab, List.map_map]; rfl
  have hnd : ((perm.map itemOf).map C03.Item.key).Nodup := by
    have : (perm.map itemOf).map C03.Item.key = perm.map fun q => (q.1.num, q.1.gen) := by
      rw [List.map_map]; rfl
    rw [this]
    exact (hperm.map _).nodup_iff.mpr idsNodup
  have hget0 : ∀ k, defsGet k [((x.1.num, x.1.gen), x.1.val x.2)] =
      if k = (x.1.num, x.1.gen) then some (x.1.val x.2) else none := by
    intro k
    simp only [defsGet]
    by_cases hk : k = (x.1.num, x.1.gen)
    · simp [hk]
    · simp [hk]
  have hs0 : DefsSorted [((x.1.num, x.1.gen), x.1.val x.2)] := by simp [DefsSorted]
  obtain ⟨defs, hpo, hA, hM, hB, hC⟩ := stage_from_objstm_written hofs view _ hs0 (infoOf X) (perm.map itemOf) ws hsize
    hinfo hws.stms hnd
    (by
      intro it hit hn
      obtain ⟨q, hq, rfl⟩ := List.mem_map.mp hit
      obtain ⟨-, hlt, hor⟩ := hrb q ((hmem q).mp hq)
      refine ⟨hlt, ?_⟩
      rcases hor with hx | hr
      · rw [hget0] at hn
        have : (itemOf q).key = (x.1.num, x.1.gen) := hx
        simp [this] at hn
      · exact hr)
    hws.numsNodup
    (by
      intro w hw
      obtain ⟨hne, q, hq, o, hqo, hnum, hgen, hkvs, hsc, hdata⟩ := hws.placed w hw
      obtain ⟨⟨hle, post, hdrop⟩, -, -⟩ := hrb q hq
      have hkey : (itemOf q).key = (w.num, 0) := by
        show (q.1.num, q.1.gen) = _
        rw [hqo]; simp [WStm.piece, hnum, hgen]
      refine ⟨Or.inl ⟨itemOf q, List.mem_map_of_mem ((hmem q).mpr hq), hkey, ?_, ?_⟩, ?_⟩
      · rw [hkey, hget0]; simp [hne]
      · show (q.1.val q.2).val = _
        rw [hqo]
        exact WCont.wstm_val q.2 o w hkvs hsc
      · rw [hqo] at hdrop
        exact WCont.ok_of_wstm view q.2 o post w hle hdrop hsc hdata)
    hws.memsNodup
    (by
      intro w hw m hm
      refine ⟨?_, ?_⟩
      · intro it hit
        obtain ⟨q, hq, rfl⟩ := List.mem_map.mp hit
        exact hws.memsFresh w hw m hm q ((hmem q).mp hq)
      · rw [hget0]
        have := hws.memsFresh w hw m hm x hx
        simp [Ne.symm this])
  have hxs_unique : ∀ q ∈ objs, (q.1.num, q.1.gen) = (x.1.num, x.1.gen) → q = x := by
    intro q hq hk
    exact LoaderTwoPass.key_inj (fun q : Piece × Nat => (q.1.num, q.1.gen)) objs idsNodup q hq _ hx hk
  refine ⟨defs, hpo, ?_, hM, ?_⟩
  · intro q hq
    by_cases hk : (q.1.num, q.1.gen) = (x.1.num, x.1.gen)
    · have hq' := hxs_unique q hq hk
      have := hC (x.1.num, x.1.gen) (x.1.val x.2) (by rw [hget0]; simp)
      rw [hk, this, hq']
    · have := hA (itemOf q) (List.mem_map_of_mem ((hmem q).mpr hq)) (by
        rw [hget0]
        have : (itemOf q).key = (q.1.num, q.1.gen) := rfl
        simp [this, hk])
      exact this
  · intro k hk hkm
    rw [hB k (by
      intro it hit
      obtain ⟨q, hq, rfl⟩ := List.mem_map.mp hit
      exact hk q ((hmem q).mp hq)) hkm]
    rw [hget0]
    have : k ≠ (x.1.num, x.1.gen) := fun hh => hk _ hx hh.symm
    simp [this]

/-- what holds at every offset of a written body, including where each piece lies -/
theorem body_reads_at (body : List Placed) (view : Bytes) (pos : Nat) (rest : Bytes) (xkey : ObjId)
    (hpos : pos ≤ view.length) (hd : view.drop pos = bodyBytes body ++ rest)
    (hr : ∀ q ∈ body, 0 < q.p.bytes.length ∧ ((q.p.num, q.p.gen) = xkey ∨ q.p.Reads)) :
    ∀ q ∈ place body pos, (q.2 ≤ view.length ∧ ∃ post, view.drop q.2 = q.1.bytes ++ post) ∧ q.2 < view.length ∧
      ((q.1.num, q.1.gen) = xkey ∨ C03.ReadsAt 0 50 false view (itemOf q)) := by
  have h := body_all (fun p s i => (i ≤ s.length ∧ ∃ post, s.drop i = p.bytes ++ post) ∧
      ((p.num, p.gen) = xkey ∨ C03.ReadsAt 0 50 false s (p.item i))) body view pos rest hpos hd (by
    intro q hq
    obtain ⟨hb, hor⟩ := hr q hq
    refine ⟨hb, fun s i post hi hd => ⟨⟨hi, post, hd⟩, ?_⟩⟩
    rcases hor with h | h
    · exact Or.inl h
    · exact Or.inr (h.2 s i post hi hd))
  intro q hq
  obtain ⟨h1, h2, h3⟩ := h q hq
  exact ⟨h2, h1, h3⟩

namespace XrefStreamFile

/-- well-formedness of a cross-reference stream file with object streams `ws` -/
structure WFstm (f : XrefStreamFile) (subs : List (Nat × List SEnt)) (w0 w1 w2 : Nat) (root : ObjId)
    (ws : List WCont) : Prop extends WF0 f subs w0 w1 w2 root where
  stored : Stored f.xs.kvs (rowBytes subs w0 w1 w2) f.xs.data
  /-- the file is smaller than 2^63 bytes -/
  size : f.garbage.length + f.view.length ≤ 2 ^ 63
  reads1 : ∀ q ∈ f.body1, q.p.Reads
  reads2 : ∀ q ∈ f.body2, q.p.Reads
  idsNodup : (f.objs.map fun q => (q.1.num, q.1.gen)).Nodup
  /-- the type-1 rows are exactly the objects of the body at their offsets -/
  tableObjs : ∃ perm : List (Piece × Nat), perm.Perm f.objs ∧
    filesOf (infoOf (streamEnts subs)) = perm.map fun q => ObjInfo.inFile q.1.num q.1.gen q.2
  /-- the type-2 rows name the object streams, which are objects of the body -/
  conts : ContsOK f.objs (f.xs.piece, f.xofs) (streamEnts subs) ws

end XrefStreamFile

theorem XrefStreamFile.reads_objs_at (f : XrefStreamFile)
    (h1 : ∀ q ∈ f.body1, q.p.Reads) (h2 : ∀ q ∈ f.body2, q.p.Reads) :
    ∀ q ∈ f.objs, (q.2 ≤ f.view.length ∧ ∃ post, f.view.drop q.2 = q.1.bytes ++ post) ∧ q.2 < f.view.length ∧
      ((q.1.num, q.1.gen) = (f.xs.num, f.xs.gen) ∨ C03.ReadsAt 0 50 false f.view (itemOf q)) := by
  obtain ⟨hhl, rest, hdropB⟩ := f.view_body
  apply body_reads_at f.body f.view f.hdr.length rest (f.xs.num, f.xs.gen) hhl hdropB
  intro q hq
  simp only [XrefStreamFile.body, List.mem_append, List.mem_cons] at hq
  rcases hq with hq | rfl | hq
  · exact ⟨(h1 q hq).1, Or.inr (h1 q hq)⟩
  · exact ⟨WStm.bytes_pos f.xs, Or.inl rfl⟩
  · exact ⟨(h2 q hq).1, Or.inr (h2 q hq)⟩

/-- **`load_xrefstream_objstm` (C03, end to end, cross-reference stream + object streams)**: `parse_data` accepts,
    reports /Root, binds every file-level object (containers and the cross-reference stream object included) to the
    value written, binds every member `(n, 0)` of every object stream to the value written in it, and defines
    nothing else. -/
theorem load_xrefstream_objstm (f : XrefStreamFile) (subs : List (Nat × List SEnt)) (w0 w1 w2 : Nat) (root : ObjId)
    (ws : List WCont) (h : f.WFstm subs w0 w1 w2 root ws) :
    ∃ L : Loaded, parseData f.bytes = .ok L ∧ L.root = root ∧
      (∀ q ∈ f.objs, ObjStm.defsGet (q.1.num, q.1.gen) L.defs = some (q.1.val q.2).val) ∧
      (∀ w ∈ ws, ∀ m ∈ w.mems, ObjStm.defsGet (m.num, 0) L.defs = some m.v) ∧
      (∀ k, (∀ q ∈ f.objs, (q.1.num, q.1.gen) ≠ k) → (∀ w ∈ ws, ∀ m ∈ w.mems, (m.num, 0) ≠ k) →
        ObjStm.defsGet k L.defs = none) :=
  load_xrefstream_core f subs w0 w1 w2 root h.toWF0 (f.decodes_of_stored subs w0 w1 w2 h.stored) (fun defs =>
    (∀ q ∈ f.objs, ObjStm.defsGet (q.1.num, q.1.gen) defs = some (q.1.val q.2).val) ∧
    (∀ w ∈ ws, ∀ m ∈ w.mems, ObjStm.defsGet (m.num, 0) defs = some m.v) ∧
    (∀ k, (∀ q ∈ f.objs, (q.1.num, q.1.gen) ≠ k) → (∀ w ∈ ws, ∀ m ∈ w.mems, (m.num, 0) ≠ k) →
      ObjStm.defsGet k defs = none))
    (stage_with_xs_objstm f.garbage.length f.view f.objs (f.xs.piece, f.xofs) f.xs_mem (streamEnts subs) ws h.size
      (f.reads_objs_at h.reads1 h.reads2) h.idsNodup h.tableObjs h.conts)

namespace HybridFile

/-- well-formedness of a hybrid file with object streams `ws` (the usual hybrid: the table lists the file-level
    objects and marks the hidden ones free, the /XRefStm stream lists the hidden ones as members) -/
structure WFstm (f : HybridFile) (D : List (Bytes × Obj)) (ssubs : List (Nat × List SEnt)) (w0 w1 w2 : Nat)
    (root : ObjId) (ws : List WCont) : Prop extends WF0 f D ssubs w0 w1 w2 root where
  size : f.garbage.length + f.view.length ≤ 2 ^ 63
  reads1 : ∀ q ∈ f.body1, q.p.Reads
  reads2 : ∀ q ∈ f.body2, q.p.Reads
  idsNodup : (f.objs.map fun q => (q.1.num, q.1.gen)).Nodup
  tableObjs : ∃ perm : List (Piece × Nat), perm.Perm f.objs ∧
    filesOf (infoOf (f.ents ssubs)) = perm.map fun q => ObjInfo.inFile q.1.num q.1.gen q.2
  conts : ContsOK f.objs (f.xs.piece, f.xofs) (f.ents ssubs) ws

end HybridFile

theorem HybridFile.reads_objs_at (f : HybridFile)
    (h1 : ∀ q ∈ f.body1, q.p.Reads) (h2 : ∀ q ∈ f.body2, q.p.Reads) :
    ∀ q ∈ f.objs, (q.2 ≤ f.view.length ∧ ∃ post, f.view.drop q.2 = q.1.bytes ++ post) ∧ q.2 < f.view.length ∧
      ((q.1.num, q.1.gen) = (f.xs.num, f.xs.gen) ∨ C03.ReadsAt 0 50 false f.view (itemOf q)) := by
  obtain ⟨hhl, rest, hdropB⟩ := f.view_body
  apply body_reads_at f.body f.view f.hdr.length rest (f.xs.num, f.xs.gen) hhl hdropB
  intro q hq
  simp only [HybridFile.body, List.mem_append, List.mem_cons] at hq
  rcases hq with hq | rfl | hq
  · exact ⟨(h1 q hq).1, Or.inr (h1 q hq)⟩
  · exact ⟨WStm.bytes_pos f.xs, Or.inl rfl⟩
  · exact ⟨(h2 q hq).1, Or.inr (h2 q hq)⟩

/-- **`load_hybrid_objstm` (C03, end to end, hybrid file with hidden objects in object streams)** -/
theorem load_hybrid_objstm (f : HybridFile) (D : List (Bytes × Obj)) (ssubs : List (Nat × List SEnt)) (w0 w1 w2 : Nat)
    (root : ObjId) (ws : List WCont) (h : f.WFstm D ssubs w0 w1 w2 root ws) :
    ∃ L : Loaded, parseData f.bytes = .ok L ∧ L.root = root ∧
      (∀ q ∈ f.objs, ObjStm.defsGet (q.1.num, q.1.gen) L.defs = some (q.1.val q.2).val) ∧
      (∀ w ∈ ws, ∀ m ∈ w.mems, ObjStm.defsGet (m.num, 0) L.defs = some m.v) ∧
      (∀ k, (∀ q ∈ f.objs, (q.1.num, q.1.gen) ≠ k) → (∀ w ∈ ws, ∀ m ∈ w.mems, (m.num, 0) ≠ k) →
        ObjStm.defsGet k L.defs = none) :=
  load_hybrid_core f D ssubs w0 w1 w2 root h.toWF0 (fun defs =>
    (∀ q ∈ f.objs, ObjStm.defsGet (q.1.num, q.1.gen) defs = some (q.1.val q.2).val) ∧
    (∀ w ∈ ws, ∀ m ∈ w.mems, ObjStm.defsGet (m.num, 0) defs = some m.v) ∧
    (∀ k, (∀ q ∈ f.objs, (q.1.num, q.1.gen) ≠ k) → (∀ w ∈ ws, ∀ m ∈ w.mems, (m.num, 0) ≠ k) →
      ObjStm.defsGet k defs = none))
    (stage_with_xs_objstm f.garbage.length f.view f.objs (f.xs.piece, f.xofs) f.xs_mem (f.ents ssubs) ws h.size
      (f.reads_objs_at h.reads1 h.reads2) h.idsNodup h.tableObjs h.conts)

end Parsley.LoaderE2E
