/-
  C03 - object streams AS WRITTEN: the premise `Cont.Loads` of `stage_from_objstm`
  (Lemmas/LoaderE2EObjStm.lean) discharged from a declarative description of the bytes.

    WMem, contentOf, MemsOK    the content of an object stream: for each member arbitrary gap bytes, then - at
                               the declared offset - optional white space and the value in ANY legal spelling
                               (`C02.Spells`), followed by something `parse_pdf_obj` accepts after it (`Follows`)
    extracts_written           such a content has, at every declared offset, the member's value, ending at or
                               before the next declared offset: the premise `Extracts` of `C14.objstm_roundtrip`
    Stored                     the decoded data is the stream's content itself (no /Filter), or the content is
                               a zlib stream of stored blocks of it under /Filter /FlateDecode without
                               /DecodeParms (`C06.layer_roundtrip`)
    WCont, WCont.OK            the object stream as written: dictionary entries by `dictGet`, header in any legal
                               layout, content as above, where the stream object's descriptor says it is
    WCont.loads                => `Cont.Loads`   (by `C14.objstm_roundtrip`)
    wstm_content               the descriptor conditions for a container written as a `LoaderE2E.WStm`
    stage_from_objstm_written  the stage theorem with declarative container hypotheses only
  and a concrete two-member container (unfiltered and Flate) at the end.
-/
import Parsley.Lemmas.LoaderE2EObjStm
import Parsley.Lemmas.LoaderE2EStm
import Parsley.Props.C06
namespace Parsley.LoaderObjStm
open Parsley Parsley.Prim Parsley.Obj Parsley.Indirect Parsley.Loader Parsley.C02 Parsley.ObjStmSpec
open Parsley.C03 (Item ReadsAt)
open Parsley.LoaderE2E (drop_next drop_le ws_d obj_d WStm)
open Parsley.Spelling (Ch)

/-! ## the content -/

/-- one member as written: gap bytes that belong to no object, then (at the declared offset) a
    white-space run and the spelling `tok` of the value `v` (nesting depth index `d`) -/
structure WMem where
  num : Nat
  gap : Bytes
  lead : Bytes
  tok : Bytes
  v : Obj
  d : Nat

/-- the content bytes: the members in order, then `fin` -/
def contentOf : List WMem → Bytes → Bytes
  | [], fin => fin
  | m :: t, fin => m.gap ++ (m.lead ++ (m.tok ++ contentOf t fin))

/-- the (number, offset) pairs the header has to declare when the first member's gap starts at `pos` -/
def pairsOf : List WMem → Nat → List (Nat × Nat)
  | [], _ => []
  | m :: t, pos => (m.num, pos + m.gap.length) :: pairsOf t (pos + m.gap.length + m.lead.length + m.tok.length)

/-- the members with the spans they occupy -/
def locatedOf : List WMem → Nat → List (Nat × Located Obj)
  | [], _ => []
  | m :: t, pos =>
    (m.num, ⟨m.v, pos + m.gap.length + m.lead.length, pos + m.gap.length + m.lead.length + m.tok.length⟩) ::
      locatedOf t (pos + m.gap.length + m.lead.length + m.tok.length)

/-- lexical well-formedness of the members: white space, a legal spelling of a value nested at most
    50 deep, and a legal context after it (`C02.Follows`: a token ending in a regular character is not
    followed by a regular character; an integer is not followed by `ws int ws R`) -/
def MemsOK : List WMem → Bytes → Prop
  | [], _ => True
  | m :: t, fin =>
    WsRun m.lead ∧ Spells m.d m.v m.tok ∧ m.d ≤ 50 ∧ Follows m.v (contentOf t fin) ∧ MemsOK t fin

/-- a legal context after a value that is not an integer: the end of the content or a non-regular byte -/
theorem follows_nonint (v : Obj) (rest : Bytes) (hv : ∀ n, v ≠ .int n)
    (h : ∀ y, rest.head? = some y → isRegular y = false) : Follows v rest :=
  ⟨fun _ => h, fun ⟨n, hn⟩ => absurd hn (hv n)⟩

/-- a legal context after an integer: the end of the content or a non-regular byte, and no `R`
    anywhere behind it -/
theorem follows_int (n : Int) (rest : Bytes) (h : ∀ y, rest.head? = some y → isRegular y = false)
    (hR : (82 : UInt8) ∉ rest) : Follows (.int n) rest := by
  refine ⟨fun _ => h, fun _ hr => ?_⟩
  obtain ⟨w1, sg, ds, w2, tail, hs, -⟩ := hr
  exact hR (by rw [hs]; simp)

theorem locatedOf_vals : ∀ (ms : List WMem) (pos : Nat),
    (locatedOf ms pos).map (fun p => (p.1, p.2.val)) = ms.map fun m => (m.num, m.v)
  | [], _ => rfl
  | m :: t, pos => by simp [locatedOf, locatedOf_vals t]

theorem pairsOf_ids : ∀ (ms : List WMem) (pos : Nat), (pairsOf ms pos).map (·.1) = ms.map (·.num)
  | [], _ => rfl
  | m :: t, pos => by simp [pairsOf, pairsOf_ids t]

theorem pairsOf_length : ∀ (ms : List WMem) (pos : Nat), (pairsOf ms pos).length = ms.length
  | [], _ => rfl
  | m :: t, pos => by simp [pairsOf, pairsOf_length t]

/-- the declared offsets are strictly increasing (a spelling is never empty) -/
theorem pairsOf_inc : ∀ (ms : List WMem) (fin : Bytes) (pos : Nat), MemsOK ms fin →
    List.Pairwise (· < ·) ((pairsOf ms pos).map (·.2)) ∧ ∀ o ∈ (pairsOf ms pos).map (·.2), pos ≤ o
  | [], _, _, _ => by simp [pairsOf]
  | m :: t, fin, pos, h => by
    obtain ⟨-, hsp, -, -, hrest⟩ := h
    obtain ⟨b0, tl, htok, -⟩ := hsp.head
    have hlen : 0 < m.tok.length := by rw [htok]; simp
    obtain ⟨ih1, ih2⟩ := pairsOf_inc t fin (pos + m.gap.length + m.lead.length + m.tok.length) hrest
    simp only [pairsOf, List.map_cons, List.pairwise_cons, List.mem_cons]
    refine ⟨⟨?_, ih1⟩, ?_⟩
    · intro o ho; have := ih2 o ho; omega
    · rintro o (rfl | ho)
      · omega
      · have := ih2 o ho; omega

/-- **the content holds every member at its declared offset**: the `Extracts` premise of
    `C14.objstm_roundtrip`, with the loader's depth budget -/
theorem extracts_written (content : Bytes) : ∀ (ms : List WMem) (fin : Bytes) (pos e : Nat),
    pos ≤ content.length → content.drop pos = contentOf ms fin → MemsOK ms fin → e ≤ pos →
    Extracts (ObjStm.readAt ⟨0, 50⟩ content) content.length e (pairsOf ms pos) (locatedOf ms pos)
  | [], _, _, _, _, _, _, _ => rfl
  | m :: t, fin, pos, e, hpos, hd, hok, he => by
    obtain ⟨hlead, hsp, hdep, hfol, hrest⟩ := hok
    have hd0 : content.drop pos = m.gap ++ (m.lead ++ (m.tok ++ contentOf t fin)) := hd
    have hd1 := drop_next hd0
    have hi1 := drop_le hd0 hpos
    obtain ⟨b0, tl, htok, hstart, -, -⟩ := hsp.head
    obtain ⟨f1, f2, -, -, -⟩ := tokStart_facts b0 hstart
    have hw := ws_d true content _ m.lead _ hi1 hd1 hlead
      (by intro b hb; rw [htok] at hb; simp at hb; subst hb; exact ⟨f1, f2⟩) (Or.inr rfl)
    have hd2 := drop_next hd1
    have hi2 := drop_le hd1 hi1
    have hp := obj_d hsp ⟨0, 50⟩ (by simpa using hdep) content _ _ hi2 hd2 hfol
    have hd3 := drop_next hd2
    have hi3 := drop_le hd2 hi2
    refine ⟨_, _, rfl, by omega, hi1, ?_, extracts_written content t fin _ _ hi3 hd3 hrest (Nat.le_refl _)⟩
    unfold ObjStm.readAt
    simp only [hw, hp]

/-! ## how the decoded data is stored -/

/-- the decoded data `decoded` of a stream with dictionary `kvs` and content `view` -/
inductive Stored (kvs : List (Bytes × Obj)) (view decoded : Bytes) : Prop
  /-- no /Filter: the content is the data -/
  | plain (hf : dictGet ObjStm.kFilter kvs = none) (hv : view = decoded)
  /-- /Filter /FlateDecode, no /DecodeParms: the content is a zlib stream of stored blocks (any
      partition into parts of at most 65535 bytes), followed by anything -/
  | flate (parts : List Bytes) (trailing : Bytes)
      (hf : dictGet ObjStm.kFilter kvs = some (.name ObjStm.nFlate))
      (hp : dictGet ObjStm.kDecodeParms kvs = none)
      (hv : view = FiltersSpec.zlibStored parts ++ trailing)
      (hparts : ∀ p ∈ parts, p.length ≤ 65535) (hd : parts.flatten = decoded)
  /-- /Filter /FlateDecode, no /DecodeParms, the content being ANY zlib stream the modelled inflate decodes to the data:
      in particular every stream of the specification's encoders - stored, fixed-Huffman and dynamic-Huffman blocks in
      any mixture (`Stored.of_layerEnc`, C06's round-trip theorems).  A compressed stream may be shorter than its data,
      hence the size bound on the data itself. -/
  | flateAny (hf : dictGet ObjStm.kFilter kvs = some (.name ObjStm.nFlate))
      (hp : dictGet ObjStm.kDecodeParms kvs = none)
      (hz : Inflate.inflate view = .ok decoded) (hlen : decoded.length ≤ 2 ^ 63)

theorem flatten_le_stored : ∀ parts : List Bytes, parts.flatten.length ≤ (FiltersSpec.storedBlocks parts).length
  | [] => by simp
  | p :: ps => by
    have := flatten_le_stored ps
    simp only [List.flatten_cons, FiltersSpec.storedBlocks, List.length_append, List.length_cons, List.length_nil]
    omega

/-- the decoded data and the absolute start of its buffer, as `ObjStreamP` obtains them -/
theorem decodesTo_of_stored (kvs : List (Bytes × Obj)) (view decoded : Bytes) (vbase : Nat)
    (h : Stored kvs view decoded) :
    ∃ dbase, C14.DecodesTo objDec kvs view 0 vbase decoded dbase ∧ (dbase = vbase ∨ dbase = 0) ∧
      (decoded.length ≤ view.length ∨ (dbase = 0 ∧ decoded.length ≤ 2 ^ 63)) := by
  cases h with
  | plain hf hv =>
    refine ⟨vbase, ⟨[], ?_, .inl ⟨rfl, hv.symm, rfl⟩⟩, .inl rfl, .inl (by rw [hv]; exact Nat.le_refl _)⟩
    simp [ObjStm.filters, ObjStm.getName, ObjStm.getArray, hf]
  | flate parts trailing hf hp hv hparts hd =>
    refine ⟨0, ⟨[⟨ObjStm.nFlate, none⟩], ?_, .inr ⟨by simp, ?_, rfl⟩⟩, .inr rfl, .inl ?_⟩
    · simp [ObjStm.filters, ObjStm.getName, ObjStm.getDict, ObjStm.getArray, hf, hp]
    · have henc : C06.LayerEnc Filters.nFlate decoded view := by
        rw [hv, ← hd]; exact C06.LayerEnc.flateStored hparts
      have hrt : objDec ⟨ObjStm.nFlate, none⟩ view = .ok decoded :=
        C06.layer_roundtrip ext ⟨Filters.nFlate, none⟩ decoded view henc rfl
      have hk : ObjStm.knownFilter ObjStm.nFlate = true := by decide
      simp only [List.drop_zero, ObjStm.decodeLoop, hk, Bool.not_true, Bool.false_eq_true, if_false, hrt]
    · have := flatten_le_stored parts
      rw [hv, ← hd]
      simp only [FiltersSpec.zlibStored, List.length_append]
      omega
  | flateAny hf hp hz hlen =>
    refine ⟨0, ⟨[⟨ObjStm.nFlate, none⟩], ?_, .inr ⟨by simp, ?_, rfl⟩⟩, .inr rfl, .inr ⟨rfl, hlen⟩⟩
    · simp [ObjStm.filters, ObjStm.getName, ObjStm.getDict, ObjStm.getArray, hf, hp]
    · have hrt : objDec ⟨ObjStm.nFlate, none⟩ view = .ok decoded :=
        C06.layer_roundtrip ext ⟨Filters.nFlate, none⟩ decoded view (C06.LayerEnc.flateAny hz) rfl
      have hk : ObjStm.knownFilter ObjStm.nFlate = true := by decide
      simp only [List.drop_zero, ObjStm.decodeLoop, hk, Bool.not_true, Bool.false_eq_true, if_false, hrt]

/-! ## `parseViews` keeps the flag and the map invariant -/

theorem parseViews_ok (dbase : Nat) (ctx : ObjStm.Ctx) (n first : Nat) (data : Bytes)
    (res : List ObjStm.Member) (ctx' : ObjStm.Ctx)
    (hdepth : ctx.depth.cur ≤ ctx.depth.max) (hsorted : ObjStm.DefsSorted ctx.defs) (hbase : dbase + first ≤ 2 ^ 63)
    (h : ObjStm.parseViews dbase ctx n first data = (.ok res, ctx')) :
    ctx'.encrypted = ctx.encrypted ∧ ObjStm.DefsSorted ctx'.defs := by
  unfold ObjStm.parseViews at h
  split at h
  · cases h
  · have hm := ObjStm.parseMetadata_good (data.take first) n
    split at h
    · cases h
    · cases h
    · rename_i md c heq
      rw [heq] at hm
      obtain ⟨-, -, m3⟩ := hm
      split at h
      · cases h
      · have hg := ObjStm.streamLoop_good (dbase + first) (data.drop first) ctx.depth hdepth hbase md ctx 0 []
          rfl hsorted m3
        rw [h] at hg
        obtain ⟨r, -, -, -, -, h5, h6, -, -⟩ := hg
        exact ⟨h5, h6⟩

/-! ## the object stream as written -/

/-- an object stream as written: the stream object's number, dictionary and content descriptor, and
    the pieces of its DECODED data: header entries with their layout, the bytes between the header and
    /First, the members, the bytes after the last member -/
structure WCont where
  num : Nat
  kvs : List (Bytes × Obj)
  sc : StreamContent
  es : List HdrEntry
  tail : Bytes
  mems : List WMem
  fin : Bytes

namespace WCont

def content (w : WCont) : Bytes := contentOf w.mems w.fin

/-- the decoded data: header, anything up to /First, content -/
def decoded (w : WCont) : Bytes := (encodeHeader w.es ++ w.tail) ++ w.content

/-- the container the loading stage talks about: members as (number, value) -/
def cont (w : WCont) : Cont := ⟨w.num, w.kvs, w.sc, w.mems.map fun m => (m.num, m.v)⟩

/-- **well-formedness of a written object stream** whose (undecoded) stream content is `view` -/
structure Data (w : WCont) (view : Bytes) : Prop where
  /-- /Type /ObjStm -/
  type : dictGet ObjStm.kType w.kvs = some (.name ObjStm.nObjStm)
  /-- /N = number of members -/
  n : dictGet ObjStm.kN w.kvs = some (.int w.mems.length)
  /-- /First = length of the header and what follows it up to the content -/
  first : dictGet ObjStm.kFirst w.kvs = some (.int (encodeHeader w.es ++ w.tail).length)
  ne : w.mems ≠ []
  /-- the header declares, in order, every member's number and the offset where its white space and
      spelling start -/
  decl : declared w.es = pairsOf w.mems 0
  layout : layoutsOK true w.es = true
  bounded : ObjStm.Bounded w.es
  tail : ∀ y, w.tail.head? = some y → isDigit y = false
  mems : MemsOK w.mems w.fin
  /-- unfiltered, or stored-block Flate -/
  stored : Stored w.kvs view w.decoded

/-- ... inside the document view `s`: the stream content is where the descriptor says -/
structure OK (s : Bytes) (w : WCont) : Prop where
  size : w.sc.size ≤ s.length
  start : w.sc.start ≤ s.length - w.sc.size
  data : w.Data ((s.drop w.sc.start).take w.sc.size)

theorem getUsize_nat (d : List (Bytes × Obj)) (k : Bytes) (n : Nat) (h : dictGet k d = some (.int n)) :
    ObjStm.getUsize d k = some n := by
  simp [ObjStm.getUsize, h, isUsize]

/-- **a written object stream loads** -/
theorem loads (hofs : Nat) (s : Bytes) (w : WCont) (hsize : hofs + s.length ≤ 2 ^ 63) (hok : w.OK s)
    (hnd : (w.mems.map (·.num)).Nodup) : w.cont.Loads hofs s := by
  refine ⟨⟨hok.size, hok.start⟩, ?_⟩
  intro oc henc hdep hsort hfresh
  have hsz := hok.size
  have hst := hok.start
  -- the dictionary
  have hdict : ObjStm.getDictInfo w.kvs = .ok (w.mems.length, (encodeHeader w.es ++ w.tail).length) := by
    apply C14.dictInfo_ok
    · simp [ObjStm.getName, hok.data.type]
    · exact getUsize_nat _ _ _ hok.data.n
    · exact getUsize_nat _ _ _ hok.data.first
  -- the data
  obtain ⟨dbase, hdec, hdb, hdlen⟩ :=
    decodesTo_of_stored w.kvs ((s.drop w.sc.start).take w.sc.size) w.decoded (hofs + w.sc.start) hok.data.stored
  have hvlen : ((s.drop w.sc.start).take w.sc.size).length ≤ w.sc.size := by
    simp only [List.length_take]; omega
  have hflen : (encodeHeader w.es ++ w.tail).length ≤ w.decoded.length := by
    simp only [decoded, List.length_append]; omega
  have hbase : dbase + (encodeHeader w.es ++ w.tail).length ≤ 2 ^ 63 := by
    rcases hdlen with hdlen | ⟨rfl, hdlen⟩
    · rcases hdb with rfl | rfl <;> omega
    · omega
  -- the header
  have hlen : w.es.length = w.mems.length := by
    have := congrArg List.length hok.data.decl
    simpa [declared, pairsOf_length] using this
  have hes : w.es ≠ [] := by
    intro h; rw [h] at hlen
    exact hok.data.ne (List.length_eq_zero_iff.mp hlen.symm)
  have hofs' : w.es.map (·.ofs) = (pairsOf w.mems 0).map (·.2) := by
    rw [← hok.data.decl]; simp [declared]
  have hids : w.es.map (·.id) = w.mems.map (·.num) := by
    rw [← pairsOf_ids w.mems 0, ← hok.data.decl]; simp [declared]
  have hinc : List.Pairwise (· < ·) (w.es.map (·.ofs)) := by
    rw [hofs']; exact (pairsOf_inc w.mems w.fin 0 hok.data.mems).1
  -- the content
  have hcne : w.content ≠ [] := by
    cases hm : w.mems with
    | nil => exact absurd hm hok.data.ne
    | cons m t =>
      have hmk := hok.data.mems
      rw [hm] at hmk
      obtain ⟨b0, tl, htok, -⟩ := hmk.2.1.head
      intro h
      have := congrArg List.length h
      simp [content, hm, contentOf, htok] at this
  have hex : Extracts (ObjStm.readAt oc.depth w.content) w.content.length 0 (declared w.es) (locatedOf w.mems 0) := by
    rw [hdep, hok.data.decl]
    exact extracts_written w.content w.mems w.fin 0 0 (Nat.zero_le _) rfl hok.data.mems (Nat.le_refl _)
  have hfr : Fresh (ObjStm.definedIn oc.defs) (w.es.map (·.id)) := by
    refine ⟨by rw [hids]; exact hnd, ?_⟩
    intro id hid
    rw [hids] at hid
    obtain ⟨m, hm, rfl⟩ := List.mem_map.mp hid
    have := hfresh (m.num, m.v) (List.mem_map.mpr ⟨m, hm, rfl⟩)
    simp only [ObjStm.definedIn, this, Option.isSome_none]
  have hdepth : oc.depth.cur ≤ oc.depth.max := by rw [hdep]; decide
  obtain ⟨oc', hrun, -, -, -, hbind, hoth, hdep'⟩ :=
    C14.objstm_roundtrip objDec (hofs + w.sc.start) oc w.kvs ((s.drop w.sc.start).take w.sc.size) 0
      w.mems.length (encodeHeader w.es ++ w.tail).length w.decoded dbase w.es w.tail w.content (locatedOf w.mems 0)
      hdict hdec henc rfl rfl hlen hes hok.data.layout hok.data.bounded hinc hok.data.tail hcne hdepth hsort hbase hex hfr
  have hrun' := hrun
  rw [C14.objStmParse_eq objDec _ oc w.kvs _ 0 _ _ w.decoded dbase hdict hdec henc] at hrun'
  obtain ⟨henc', hsort'⟩ := parseViews_ok dbase oc _ _ w.decoded _ oc' hdepth hsort hbase hrun'
  refine ⟨_, oc', hrun, by rw [henc', henc], by rw [hdep', hdep], hsort', ?_, ?_⟩
  · intro m hm
    obtain ⟨x, hx, rfl⟩ := List.mem_map.mp hm
    have hmem : (x.num, x.v) ∈ (locatedOf w.mems 0).map (fun p => (p.1, p.2.val)) := by
      rw [locatedOf_vals]; exact List.mem_map.mpr ⟨x, hx, rfl⟩
    obtain ⟨p, hp, hpe⟩ := List.mem_map.mp hmem
    have h1 : p.1 = x.num := congrArg Prod.fst hpe
    have h2 : p.2.val = x.v := congrArg Prod.snd hpe
    have := hbind p hp
    rw [h1, h2] at this
    exact this
  · intro k hk
    apply hoth
    intro e he hke
    have : e.id ∈ w.es.map (·.id) := List.mem_map_of_mem he
    rw [hids] at this
    obtain ⟨m, hm, hme⟩ := List.mem_map.mp this
    exact hk (m.num, m.v) (List.mem_map.mpr ⟨m, hm, rfl⟩) (by rw [hke, ← hme])

end WCont

/-! ## a container written as a stream object -/

/-- a stream object written at offset `i` of `s`: its content descriptor (the one `WStm.val i` carries)
    points at the data bytes, inside the buffer -/
theorem wstm_content (s : Bytes) (i : Nat) (o : WStm) (post : Bytes) (hi : i ≤ s.length)
    (hd : s.drop i = o.bytes ++ post) :
    (s.drop (i + o.kwOfs + 6 + o.e1.length)).take o.data.length = o.data ∧
    o.data.length ≤ s.length ∧ i + o.kwOfs + 6 + o.e1.length ≤ s.length - o.data.length := by
  have hsplit : o.bytes ++ post =
      (o.pad ++ (o.nds ++ (o.w1 ++ (o.gds ++ (o.w2 ++ (kwObj ++ (o.w3 ++ (o.dtok ++ (o.w5 ++ (kwStream ++ o.e1)))))))))) ++
        (o.data ++ (o.e2 ++ (kwEndstream ++ (o.w4 ++ kwEndobj)) ++ post)) := by
    simp [WStm.bytes, LoaderE2E.WObj.headBytes, WStm.tailBytes, WStm.head]
  rw [hsplit] at hd
  have hlen : i + (o.pad ++ (o.nds ++ (o.w1 ++ (o.gds ++ (o.w2 ++ (kwObj ++ (o.w3 ++ (o.dtok ++ (o.w5 ++
      (kwStream ++ o.e1)))))))))).length = i + o.kwOfs + 6 + o.e1.length := by
    simp only [WStm.kwOfs, LoaderE2E.WObj.valOfs, WStm.head, kwObj, kwStream, List.length_append, List.length_cons,
      List.length_nil]
    omega
  have hd1 := drop_next hd
  have hi1 := drop_le hd hi
  rw [hlen] at hd1 hi1
  have hi2 := drop_le hd1 hi1
  refine ⟨by rw [hd1]; simp, by omega, by omega⟩

/-- the descriptor conditions of `WCont.OK` for a container that is the stream object `o` written at
    offset `i` of `s` (so that the stream object's value is `o.val i`): what is left is `WCont.Data` on
    the stream's data bytes -/
theorem WCont.ok_of_wstm (s : Bytes) (i : Nat) (o : WStm) (post : Bytes) (w : WCont) (hi : i ≤ s.length)
    (hd : s.drop i = o.bytes ++ post)
    (hsc : w.sc = ⟨i + o.kwOfs + 6 + o.e1.length, o.data.length, o.data⟩) (hdata : w.Data o.data) : w.OK s := by
  obtain ⟨h1, h2, h3⟩ := wstm_content s i o post hi hd
  refine ⟨by rw [hsc]; exact h2, by rw [hsc]; exact h3, ?_⟩
  rw [hsc]
  simp only [h1]
  exact hdata

/-- ... and the stream object's value is a stream with that descriptor -/
theorem WCont.wstm_val (i : Nat) (o : WStm) (w : WCont) (hkvs : w.kvs = o.kvs)
    (hsc : w.sc = ⟨i + o.kwOfs + 6 + o.e1.length, o.data.length, o.data⟩) :
    (o.val i).val = .stream w.kvs w.sc := by
  rw [hkvs, hsc]; rfl

/-! ## the stage theorem with declarative container hypotheses -/

/-- **stage_from_objstm_written**: `stage_from_objstm` where every container is an object stream AS WRITTEN
    (`WCont.OK`): no hypothesis mentions the object-stream parser. -/
theorem stage_from_objstm_written (hofs : Nat) (s : Bytes) (defs0 : Defs) (hs0 : DefsSorted defs0)
    (infos : List ObjInfo) (items : List Item) (ws : List WCont)
    (hsize : hofs + s.length ≤ 2 ^ 63)
    (hfiles : filesOf infos = items.map Item.info)
    (hstms : ∀ id, id ∈ stmsOf infos ↔ ∃ w ∈ ws, id = (w.num, 0))
    (hnd : (items.map Item.key).Nodup)
    (hread : ∀ it ∈ items, defsGet it.key defs0 = none → it.ofs < s.length ∧ ReadsAt 0 50 false s it)
    (hcnd : (ws.map WCont.num).Nodup)
    (hcont : ∀ w ∈ ws,
      ((∃ it ∈ items, it.key = (w.num, 0) ∧ defsGet it.key defs0 = none ∧ it.v.val = .stream w.kvs w.sc) ∨
       (∃ v0, defsGet (w.num, 0) defs0 = some v0 ∧ v0.val = .stream w.kvs w.sc)) ∧ w.OK s)
    (hmnd : (ws.flatMap fun w => w.mems.map (·.num)).Nodup)
    (hfresh : ∀ w ∈ ws, ∀ m ∈ w.mems, (∀ it ∈ items, it.key ≠ (m.num, 0)) ∧ defsGet (m.num, 0) defs0 = none) :
    ∃ defs, parseObjects hofs ⟨⟨defs0, 0, 50, false⟩, false⟩ infos s = .ok defs ∧
      (∀ it ∈ items, defsGet it.key defs0 = none → ObjStm.defsGet it.key defs = some it.v.val) ∧
      (∀ w ∈ ws, ∀ m ∈ w.mems, ObjStm.defsGet (m.num, 0) defs = some m.v) ∧
      (∀ k, (∀ it ∈ items, it.key ≠ k) → (∀ w ∈ ws, ∀ m ∈ w.mems, (m.num, 0) ≠ k) →
          ObjStm.defsGet k defs = (defsGet k defs0).map (·.val)) ∧
      (∀ k v0, defsGet k defs0 = some v0 → ObjStm.defsGet k defs = some v0.val) := by
  have hflat : ∀ l : List WCont, (l.map WCont.cont).flatMap (fun c => c.members.map (·.1)) =
      l.flatMap fun w => w.mems.map (·.num) := by
    intro l
    induction l with
    | nil => rfl
    | cons w t ih => simp only [List.map_cons, List.flatMap_cons, ih, WCont.cont, List.map_map]; rfl
  have hndw : ∀ w ∈ ws, (w.mems.map (·.num)).Nodup := by
    intro w hw
    have : ∀ l : List WCont, (l.flatMap fun w => w.mems.map (·.num)).Nodup → ∀ w ∈ l, (w.mems.map (·.num)).Nodup := by
      intro l
      induction l with
      | nil => intro _ w hw; cases hw
      | cons x t ih =>
        intro h w hw
        simp only [List.flatMap_cons, List.nodup_append] at h
        rcases List.mem_cons.mp hw with e | hw'
        · rw [e]; exact h.1
        · exact ih h.2.1 w hw'
    exact this ws hmnd w hw
  obtain ⟨defs, h1, h2, h3, h4, h5⟩ := stage_from_objstm hofs s defs0 hs0 infos items (ws.map WCont.cont)
    hfiles
    (by
      intro id
      rw [hstms id]
      constructor
      · rintro ⟨w, hw, rfl⟩; exact ⟨w.cont, List.mem_map_of_mem hw, rfl⟩
      · rintro ⟨c, hc, rfl⟩
        obtain ⟨w, hw, rfl⟩ := List.mem_map.mp hc
        exact ⟨w, hw, rfl⟩)
    hnd hread
    (by simpa [List.map_map, Function.comp_def, WCont.cont] using hcnd)
    (by
      intro c hc
      obtain ⟨w, hw, rfl⟩ := List.mem_map.mp hc
      exact ⟨(hcont w hw).1, WCont.loads hofs s w hsize (hcont w hw).2 (hndw w hw)⟩)
    (by rw [hflat]; exact hmnd)
    (by
      intro c hc m hm
      obtain ⟨w, hw, rfl⟩ := List.mem_map.mp hc
      obtain ⟨x, hx, rfl⟩ := List.mem_map.mp hm
      exact hfresh w hw x hx)
  refine ⟨defs, h1, h2, ?_, ?_, h5⟩
  · intro w hw m hm
    exact h3 w.cont (List.mem_map_of_mem hw) (m.num, m.v) (List.mem_map.mpr ⟨m, hm, rfl⟩)
  · intro k hk1 hk2
    apply h4 k hk1
    intro c hc m hm
    obtain ⟨w, hw, rfl⟩ := List.mem_map.mp hc
    obtain ⟨x, hx, rfl⟩ := List.mem_map.mp hm
    exact hk2 w hw x hx

/-! ## non-vacuity -/

/-- `11` then junk ` x`, then ` true` -/
def exMems : List WMem := [⟨11, [], [], [49, 49], .int 11, 1⟩, ⟨12, [32, 120], [32], [116, 114, 117, 101], .bool true, 1⟩]
/-- header `11 0 12 4`, then a blank up to /First -/
def exEs : List HdrEntry := [⟨11, 0, [], [32]⟩, ⟨12, 4, [32], [32]⟩]
def exKvs : List (Bytes × Obj) :=
  [(ObjStm.kFirst, .int 10), (ObjStm.kN, .int 2), (ObjStm.kType, .name ObjStm.nObjStm)]
/-- `11 0 12 4 11 x true` -/
def exDecoded : Bytes := [49, 49, 32, 48, 32, 49, 50, 32, 52, 32, 49, 49, 32, 120, 32, 116, 114, 117, 101]
/-- the document view: five bytes, the stream content, two bytes -/
def exS : Bytes := [37, 80, 68, 70, 10] ++ exDecoded ++ [10, 10]
def exW : WCont := ⟨3, exKvs, ⟨5, 19, exDecoded⟩, exEs, [32], exMems, []⟩

example : exW.decoded = exDecoded := by decide

theorem exMems_ok : MemsOK exMems [] :=
  ⟨WsRun.nil, Spells.int 0 .none [49, 49] (by simp) (by decide) (by decide), by decide,
    follows_int 11 _ (by decide) (by decide),
    WsRun.ws 32 [] (by decide) WsRun.nil, Spells.tru 0, by decide, follows_nil _, trivial⟩

theorem exW_data : exW.Data exDecoded where
  type := by rfl
  n := by rfl
  first := by rfl
  ne := by simp [exW, exMems]
  decl := by decide
  layout := by decide
  bounded := by intro e he; simp [exW, exEs] at he; rcases he with rfl | rfl <;> decide
  tail := by decide
  mems := exMems_ok
  stored := .plain (by rfl) (by decide)

theorem exW_ok : exW.OK exS := ⟨by decide, by decide, exW_data⟩

/-- the container's stream object is already bound (as a cross-reference stream object would be) -/
def exDefs0 : Defs := [((3, 0), ⟨.stream exKvs ⟨5, 19, exDecoded⟩, 0, 0⟩)]

/-- the hypotheses of `stage_from_objstm_written` are satisfiable: two in-stream entries naming
    container 3, whose two members are then bound -/
example : ∃ defs, parseObjects 0 ⟨⟨exDefs0, 0, 50, false⟩, false⟩ [.inStm 3 0, .inStm 3 0] exS = .ok defs ∧
    ObjStm.defsGet (11, 0) defs = some (.int 11) ∧ ObjStm.defsGet (12, 0) defs = some (.bool true) ∧
    ObjStm.defsGet (13, 0) defs = none := by
  obtain ⟨defs, h1, -, h3, h4, -⟩ := stage_from_objstm_written 0 exS exDefs0 (by simp [exDefs0, DefsSorted])
    [.inStm 3 0, .inStm 3 0] [] [exW] (by decide) rfl
    (by intro id; simp [stmsOf, exW]) (by simp) (by intro it hit; cases hit) (by simp)
    (by
      intro w hw
      simp only [List.mem_singleton] at hw
      subst hw
      exact ⟨.inr ⟨_, rfl, rfl⟩, exW_ok⟩)
    (by decide)
    (by
      intro w hw m hm
      simp only [List.mem_singleton] at hw
      subst hw
      refine ⟨fun it hit => (by cases hit), ?_⟩
      simp [exW, exMems] at hm
      rcases hm with rfl | rfl <;> rfl)
  refine ⟨defs, h1, h3 exW (by simp) ⟨11, [], [], [49, 49], .int 11, 1⟩ (by simp [exW, exMems]),
    h3 exW (by simp) ⟨12, [32, 120], [32], [116, 114, 117, 101], .bool true, 1⟩ (by simp [exW, exMems]), ?_⟩
  rw [h4 (13, 0) (by intro it hit; cases hit)
    (by
      intro w hw m hm
      simp only [List.mem_singleton] at hw
      subst hw
      simp [exW, exMems] at hm
      rcases hm with rfl | rfl <;> decide)]
  rfl

/-! ### the Flate variant: the same data in two stored blocks, with a trailing byte -/

def exKvsF : List (Bytes × Obj) := (ObjStm.kFilter, .name ObjStm.nFlate) :: exKvs
def exParts : List Bytes := [exDecoded.take 7, exDecoded.drop 7]
def exViewF : Bytes := FiltersSpec.zlibStored exParts ++ [10]
def exSF : Bytes := [37, 80, 68, 70, 10] ++ exViewF ++ [10, 10]
def exWF : WCont := ⟨3, exKvsF, ⟨5, exViewF.length, exViewF⟩, exEs, [32], exMems, []⟩

theorem exWF_ok : exWF.OK exSF where
  size := by decide
  start := by decide
  data := {
    type := by rfl
    n := by rfl
    first := by rfl
    ne := by simp [exWF, exMems]
    decl := by decide
    layout := by decide
    bounded := by intro e he; simp [exWF, exEs] at he; rcases he with rfl | rfl <;> decide
    tail := by decide
    mems := exMems_ok
    stored := .flate exParts [10] (by rfl) (by rfl) (by decide) (by decide) (by decide) }

example : exWF.cont.Loads 0 exSF := WCont.loads 0 exSF exWF (by decide) exWF_ok (by decide)

/-! ### the container as a stream object of the file, loaded through its own in-file entry -/

/-- the entries of `<</Type/ObjStm/N 2/First 10/Length 19>>` -/
def exEnts : List (Bytes × Obj) :=
  [(ObjStm.kType, .name ObjStm.nObjStm), (ObjStm.kN, .int 2), (ObjStm.kFirst, .int 10), (keyLength, .int 19)]
def exDtok : Bytes := [60, 60, 47, 84, 121, 112, 101, 47, 79, 98, 106, 83, 116, 109, 47, 78, 32, 50, 47, 70, 105, 114, 115,
  116, 32, 49, 48, 47, 76, 101, 110, 103, 116, 104, 32, 49, 57, 62, 62]
/-- every name byte written raw -/
def exRawCh : Ch := List.replicate 30 1

theorem exWs32 : WsRun [32] := WsRun.ws 32 [] (by decide) WsRun.nil

theorem exDict_spells : Spells 2 (.dict (dictOf exEnts)) exDtok := by
  have e := SpellsEntries.cons 1 [] ObjStm.kType (.name ObjStm.nObjStm) _ [] exRawCh [] _ _ WsRun.nil (by decide) (by simp)
    WsRun.nil (Spells.name 0 ObjStm.nObjStm exRawCh (by decide)) (fun h => by simp [startsReg] at h)
    (SpellsEntries.cons 1 _ ObjStm.kN (.int 2) _ [] exRawCh [32] _ _ WsRun.nil (by decide) (by decide) exWs32
      (Spells.int 0 .none [50] (by simp) (by decide) (by decide)) (fun _ => by simp)
      (SpellsEntries.cons 1 _ ObjStm.kFirst (.int 10) _ [] exRawCh [32] _ _ WsRun.nil (by decide) (by decide) exWs32
        (Spells.int 0 .none [49, 48] (by simp) (by decide) (by decide)) (fun _ => by simp)
        (SpellsEntries.cons 1 _ keyLength (.int 19) [] [] exRawCh [32] _ _ WsRun.nil (by decide) (by decide) exWs32
          (Spells.int 0 .none [49, 57] (by simp) (by decide) (by decide)) (fun _ => by simp)
          (SpellsEntries.nil 1 _))))
  have d := Spells.dict 1 _ _ [] e WsRun.nil
  exact d

/-- `3 0 obj<<...>>stream LF data LF endstream SP endobj` -/
def exStm : WStm := ⟨[], [51], [32], [48], [32], [], exDtok, [], [10], exDecoded, [10], [32], dictOf exEnts, 2⟩

theorem exStm_ok : exStm.OK where
  head := {
    pad := WsRun.nil
    nne := by simp [exStm, WStm.head]
    ndig := by decide
    nfit := by decide
    w1 := exWs32
    w1ne := by simp [exStm, WStm.head]
    gne := by simp [exStm, WStm.head]
    gdig := by decide
    gfit := by decide
    w2 := exWs32
    w3 := WsRun.nil
    spells := exDict_spells
    depth := by decide
    w4 := WsRun.nil
    w4req := by intro h; simp [exStm, WStm.head, endsReg] at h }
  e1 := by decide
  e2 := by decide
  w4 := exWs32

/-- the document view: a header line, the stream object at offset 5, two more bytes -/
def exFile : Bytes := [37, 80, 68, 70, 10] ++ (exStm.bytes ++ [10, 10])

def exW3 : WCont := ⟨3, exStm.kvs, ⟨5 + exStm.kwOfs + 6 + exStm.e1.length, exStm.data.length, exStm.data⟩,
  exEs, [32], exMems, []⟩

theorem exW3_ok : exW3.OK exFile :=
  WCont.ok_of_wstm exFile 5 exStm [10, 10] exW3 (by decide) (by decide) rfl {
    type := by rfl
    n := by rfl
    first := by rfl
    ne := by simp [exW3, exMems]
    decl := by decide
    layout := by decide
    bounded := by intro e he; simp [exW3, exEs] at he; rcases he with rfl | rfl <;> decide
    tail := by decide
    mems := exMems_ok
    stored := .plain (by rfl) (by decide) }

def exItem : Item := ⟨3, 0, 5, exStm.val 5⟩

theorem exItem_reads : ReadsAt 0 50 false exFile exItem :=
  LoaderE2E.reads_stream_direct exFile 5 exStm [10, 10] (by decide) (by decide) exStm_ok (by rfl)

/-- the hypotheses of `stage_from_objstm_written` are satisfiable with the container loaded through its
    own in-file entry from the empty context: the stream object and both members end up bound,
    nothing else -/
example : ∃ defs, parseObjects 0 ⟨⟨[], 0, 50, false⟩, false⟩ [.inStm 3 0, .inFile 3 0 5, .inStm 3 0] exFile = .ok defs ∧
    ObjStm.defsGet (3, 0) defs = some (exStm.val 5).val ∧
    ObjStm.defsGet (11, 0) defs = some (.int 11) ∧ ObjStm.defsGet (12, 0) defs = some (.bool true) ∧
    ObjStm.defsGet (13, 0) defs = none := by
  have hmems : ∀ m ∈ exW3.mems, m.num = 11 ∨ m.num = 12 := by
    intro m hm
    simp [exW3, exMems] at hm
    rcases hm with rfl | rfl
    · exact .inl rfl
    · exact .inr rfl
  obtain ⟨defs, h1, h2, h3, h4, -⟩ := stage_from_objstm_written 0 exFile [] List.Pairwise.nil
    [.inStm 3 0, .inFile 3 0 5, .inStm 3 0] [exItem] [exW3] (by decide) rfl
    (by intro id; simp [stmsOf, exW3]) (by simp)
    (by
      intro it hit _
      simp only [List.mem_singleton] at hit
      subst hit
      exact ⟨by decide, exItem_reads⟩)
    (by simp)
    (by
      intro w hw
      simp only [List.mem_singleton] at hw
      subst hw
      exact ⟨.inl ⟨exItem, by simp, rfl, rfl, rfl⟩, exW3_ok⟩)
    (by decide)
    (by
      intro w hw m hm
      simp only [List.mem_singleton] at hw
      subst hw
      refine ⟨?_, rfl⟩
      intro it hit
      simp only [List.mem_singleton] at hit
      subst hit
      rcases hmems m hm with h | h <;> rw [h] <;> decide)
  refine ⟨defs, h1, h2 exItem (by simp) rfl,
    h3 exW3 (by simp) ⟨11, [], [], [49, 49], .int 11, 1⟩ (by simp [exW3, exMems]),
    h3 exW3 (by simp) ⟨12, [32, 120], [32], [116, 114, 117, 101], .bool true, 1⟩ (by simp [exW3, exMems]), ?_⟩
  rw [h4 (13, 0)
    (by
      intro it hit
      simp only [List.mem_singleton] at hit
      subst hit; decide)
    (by
      intro w hw m hm
      simp only [List.mem_singleton] at hw
      subst hw
      rcases hmems m hm with h | h <;> rw [h] <;> decide)]
  rfl

end Parsley.LoaderObjStm
