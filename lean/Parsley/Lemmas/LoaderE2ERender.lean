/-
  C03 - the link between the EXECUTABLE spec-side encoder (`DocSpec.renderHistory`, Spec/Doc.lean: the generator
  of the correspondence run) and the DECLARATIVE layout `ClassicFile` of Lemmas/LoaderE2E.lean, for one revision
  with a classic cross-reference table:

      the file rendered for such a revision IS the bytes of a well-formed `ClassicFile`

  so that `load_classic` applies to what the generator writes.

  Object VALUES are written with `Spelling.spell`; `C02.spell_is_Spells` (Lemmas/SpellEncoder.lean) proves that it
  emits legal spellings for every value of its domain `wfDeep` - scalars, references, arrays and dictionaries nested
  to any depth - so the objects may be `Body.val (canon s) s` for any such `s` of depth at most 50 (the loader's
  limit): the entries are spelled in the order given by `s`, the value reported (and compared by `DocSpec.resolve`)
  is `canon s`, every dictionary as a sorted map (`SimpleObj`; the scalar-only form it used to have is
  `SimpleObj.of_scalar`, the form `Body.val v v` for a value with sorted dictionaries is `SimpleObj.of_sorted`).
  Stream objects `Body.stm` with a direct /Length are covered too (`wstm0`, `wstmOf`, `renderObj_stm`, `wstmOf_ok`: any data,
  both end-of-line forms after `stream`, all four before `endstream`, /Length anywhere among the entries); a referenced
  /Length is handled in Lemmas/LoaderE2ERenderFwd.lean (the byte-level lemmas here do not depend on `lenRef`).
  Everything else of the layout is unrestricted: every choice stream, object padding
  (any white-space / comment run), offsets pointing at the padding or at the object number, any subsection
  partition / header widths / entry terminators, Size and Root in either order, free entries, object 0,
  leading garbage, binary comment.
  Steps: objects (`renderObj_simple`), body (`renderObjs_body`), trailer (`trailer_spells`), tail
  (`tailBytes_eq`, `wsReq_no_s`), table (Lemmas/LoaderE2ERender2.lean), composition (`classicOf_bytes`,
  `classicOf_wf`).
  The subtlety of offsets: with `ofsAtPad = false` the xref offset points AFTER the object's padding, so the piece
  is the object without its padding and the padding belongs to what precedes it (`Placed.post` of the previous
  object; for the first object: the header remainder `hdrRest`).
-/
import Parsley.Lemmas.LoaderE2E
import Parsley.Spec.Doc
import Parsley.Lemmas.LoaderE2ERender2
import Parsley.Lemmas.SpellEncoder
import Parsley.Lemmas.LoaderE2ERenderX2
namespace Parsley.LoaderE2E
open Parsley Parsley.Prim Parsley.Obj Parsley.Indirect Parsley.Loader Parsley.C02 Parsley.Spelling Parsley.DocSpec
open Parsley.XrefSpec Parsley.C13

theorem bs_obj : bs "obj" = kwObj := by decide +kernel
theorem bs_endobj : bs "endobj" = kwEndobj := by decide +kernel

theorem wsOpt_run (c : Ch) : WsRun (wsOpt c).1 := by
  unfold wsOpt
  exact wsRun_run _ _

/-- the object `o` as written: the spelling is `spell s` (entries in the order given), the value it denotes is `c`;
    without or with its padding.  The depth index is the loader's limit (`Spells` is monotone in it). -/
def wobjOf (o : DObj) (c s : Obj) (withPad : Bool) : WObj :=
  let c1 := (wsReq o.ch).2
  let c2 := (wsOpt c1).2
  let c3 := (wsReq c2).2
  let c4 := (wsReq c3).2
  ⟨if withPad then o.pad else [], natDigits o.num, (wsReq o.ch).1, natDigits o.gen, (wsOpt c1).1, (wsReq c2).1,
   (spell s c4).1, (wsReq c3).1, c, 50⟩

theorem renderObj_val (o : DObj) (pos : Nat) (c s : Obj) (hb : o.body = .val c s) :
    renderObj o pos = (o.pad ++ ((wobjOf o c s false).bytes ++ [10]), (if o.ofsAtPad then pos else pos + o.pad.length), c) := by
  unfold renderObj
  rw [hb]
  simp [wobjOf, WObj.bytes, bs_obj, bs_endobj]


theorem wobjOf_pad (o : DObj) (c s : Obj) : (wobjOf o c s true).bytes = o.pad ++ (wobjOf o c s false).bytes := by
  simp [wobjOf, WObj.bytes]

theorem bs_stream : bs "stream" = kwStream := by decide +kernel
theorem bs_endstream : bs "endstream" = kwEndstream := by decide +kernel

def eol1Of (k : Nat) : Bytes := if k % 2 == 0 then [10] else [13, 10]
def eol2Of (k : Nat) : Bytes := match k % 4 with | 0 => [] | 1 => [13] | 2 => [10] | _ => [13, 10]

/-- a written stream object with another padding -/
def WStm.withPad (w : WStm) (p : Bytes) : WStm := { w with pad := p }

theorem WStm.withPad_bytes (w : WStm) (p : Bytes) : (w.withPad p).bytes = p ++ (w.withPad []).bytes := by
  cases w
  simp [WStm.withPad, WStm.bytes, WStm.head, WObj.headBytes, WStm.tailBytes]

/-- the value of a written stream object does not depend on where the padding is counted -/
theorem WStm.withPad_val (w : WStm) (p : Bytes) (pos : Nat) :
    ((w.withPad p).val pos).val = ((w.withPad []).val (pos + p.length)).val := by
  cases w
  simp only [WStm.withPad, WStm.val, WStm.kwOfs, WObj.valOfs, WStm.head, List.length_nil]
  congr 2
  omega

theorem WStm.withPad_num (w : WStm) (p : Bytes) : (w.withPad p).num = w.num := rfl
theorem WStm.withPad_gen (w : WStm) (p : Bytes) : (w.withPad p).gen = w.gen := rfl

/-- a stream object as written by `renderObj` (dictionary entries `es` = the given entries with /Length inserted, spelled
    in that order; value = the entries as a sorted map), without its padding -/
def wstm0 (o : DObj) (entries : List (Bytes × Obj)) (data : Bytes) : WStm :=
  let c1 := (wsReq o.ch).2
  let c2 := (wsOpt c1).2
  let c3 := (wsReq c2).2
  let c4 := (wsReq c3).2
  let es := streamEntries o entries data.length
  let c5 := (spell (.dict es) c4).2
  ⟨[], natDigits o.num, (wsReq o.ch).1, natDigits o.gen, (wsOpt c1).1, (wsReq c2).1,
   (spell (.dict es) c4).1, (wsOpt c5).1, eol1Of o.eol1, data, eol2Of o.eol2, (wsReq c3).1, DocSpec.canonKvs es, 50⟩

/-- ... without or with its padding -/
def wstmOf (o : DObj) (entries : List (Bytes × Obj)) (data : Bytes) (withPad : Bool) : WStm :=
  (wstm0 o entries data).withPad (if withPad then o.pad else [])

theorem wstmOf_pad (o : DObj) (entries : List (Bytes × Obj)) (data : Bytes) :
    (wstmOf o entries data true).bytes = o.pad ++ (wstmOf o entries data false).bytes := by
  simp only [wstmOf, if_true, Bool.false_eq_true, if_false]
  exact WStm.withPad_bytes _ _

theorem wstmOf_val_pad (o : DObj) (entries : List (Bytes × Obj)) (data : Bytes) (pos : Nat) :
    ((wstmOf o entries data true).val pos).val = ((wstmOf o entries data false).val (pos + o.pad.length)).val := by
  simp only [wstmOf, if_true, Bool.false_eq_true, if_false]
  exact WStm.withPad_val _ _ _

theorem eol2Of_eq (k : Nat) : eol2Of k = (match k % 4 with | 0 => [] | 1 => [13] | 2 => [10] | _ => [13, 10]) := by
  have h4 : k % 4 = 0 ∨ k % 4 = 1 ∨ k % 4 = 2 ∨ k % 4 = 3 := by omega
  unfold eol2Of
  rcases h4 with h4 | h4 | h4 | h4 <;> simp only [h4]

theorem renderObj_stm (o : DObj) (pos : Nat) (entries : List (Bytes × Obj)) (data : Bytes) (hb : o.body = .stm entries data) :
    renderObj o pos = (o.pad ++ ((wstmOf o entries data false).bytes ++ [10]), (if o.ofsAtPad then pos else pos + o.pad.length),
      ((wstmOf o entries data false).val (pos + o.pad.length)).val) := by
  have h4 : o.eol2 % 4 = 0 ∨ o.eol2 % 4 = 1 ∨ o.eol2 % 4 = 2 ∨ o.eol2 % 4 = 3 := by omega
  unfold renderObj
  rw [hb]
  simp only [WStm.val, wstmOf, wstm0, WStm.withPad, WStm.bytes, WStm.head, WObj.headBytes, WStm.tailBytes, WStm.kwOfs, WObj.valOfs,
    bs_obj, bs_endobj, bs_stream, bs_endstream, eol1Of, eol2Of, Bool.false_eq_true, if_false, List.nil_append, List.length_nil]
  refine Prod.ext ?_ (Prod.ext rfl ?_)
  · rcases h4 with h4 | h4 | h4 | h4 <;> simp [h4, List.append_assoc]
  · simp only
    congr 2
    simp only [List.length_append, kwObj, kwStream, List.length_cons, List.length_nil]
    omega

/-- the values of a dictionary's entries are their own canonical forms (e.g. scalars, or values whose dictionaries are
    sorted: `canon_sorted`) -/
def ValsCanon (es : List (Bytes × Obj)) : Prop := ∀ kv ∈ es, canon kv.2 = kv.2

theorem canonKvs_of_valsCanon : ∀ (es : List (Bytes × Obj)), ValsCanon es → Spelling.canonKvs es = es
  | [], _ => rfl
  | (k, v) :: t, h => by
    simp only [Spelling.canonKvs]
    rw [h (k, v) List.mem_cons_self, canonKvs_of_valsCanon t (fun kv hkv => h kv (List.mem_cons_of_mem _ hkv))]

theorem insAll_eq_foldl : ∀ (l m : List (Bytes × Obj)), insAll m l = l.foldl (fun m kv => dictInsert kv.1 kv.2 m) m
  | [], _ => rfl
  | (k, v) :: t, m => by simp only [insAll, List.foldl_cons]; exact insAll_eq_foldl t _

/-- for entries whose values are canonical the value denoted by the spelled dictionary is the encoder's `canonKvs` -/
theorem canon_dict_eq (es : List (Bytes × Obj)) (h : ValsCanon es) : canon (.dict es) = .dict (DocSpec.canonKvs es) := by
  simp only [canon, canonKvs_of_valsCanon es h, insAll_eq_foldl]
  rfl

/-- the objects the link covers (the name dates from the scalar-only version of this file): white-space padding,
    numbers in range, and EITHER a VALUE OF ANY SHAPE in the exact domain of the executable encoder (`wfDeep`:
    scalars, references, arrays and dictionaries nested to any depth below the loader's limit), spelled with its
    entries in any order `s`, the value reported being the one the spelling denotes (`canon s`: every
    dictionary as a sorted map), OR a STREAM OBJECT with a direct /Length (`Body.stm`, `lenRef = none`): any data, both
    end-of-line forms after `stream`, all four before `endstream`, /Length inserted anywhere among the entries, the
    dictionary as written (/Length included) in the encoder's domain, the entries' values in canonical form (the encoder
    reports the dictionary sorted by key with the values as given).  Streams whose /Length is a reference are not covered. -/
def SimpleObj (o : DObj) : Prop :=
  WsRun o.pad ∧ o.num ≤ i64Max ∧ o.gen ≤ i64Max ∧
    ((∃ s, o.body = .val (canon s) s ∧ wfDeep s = true ∧ Obj.depth s ≤ 50) ∨
     (∃ entries data, o.body = .stm entries data ∧ o.lenRef = none ∧
        wfDeep (.dict (streamEntries o entries data.length)) = true ∧
        Obj.depth (.dict (streamEntries o entries data.length)) ≤ 50 ∧ ValsCanon (streamEntries o entries data.length)))

/-- the objects that are plain values (not streams) -/
def isVal (o : DObj) : Bool := match o.body with | .val _ _ => true | .stm _ _ => false

/-- the scalar-only form of the restriction (what `SimpleObj` used to be) -/
theorem SimpleObj.of_scalar {o : DObj} (hpad : WsRun o.pad) (hn : o.num ≤ i64Max) (hg : o.gen ≤ i64Max) (v : Obj)
    (hb : o.body = .val v v) (hwf : wf v = true) (hs : encSimple v) : SimpleObj o := by
  refine ⟨hpad, hn, hg, Or.inl ⟨v, ?_, ?_, ?_⟩⟩
  · cases v <;> first | exact hb | exact hs.elim
  · cases v <;> first | exact hwf | exact hs.elim | skip
    simp only [wf] at hwf
    simp only [wfDeep, Bool.and_eq_true, decide_eq_true_eq]
    exact ⟨by simpa [encSimple, i64Max] using hs, by simpa using hwf⟩
  · cases v <;> first | exact hs.elim | simp [Obj.depth]

/-- a value whose dictionaries are sorted is reported as it is spelled -/
theorem SimpleObj.of_sorted {o : DObj} (hpad : WsRun o.pad) (hn : o.num ≤ i64Max) (hg : o.gen ≤ i64Max) (v : Obj)
    (hb : o.body = .val v v) (hwf : wfDeep v = true) (hs : sortedDeep v = true) (hd : Obj.depth v ≤ 50) : SimpleObj o :=
  ⟨hpad, hn, hg, Or.inl ⟨v, by rw [canon_sorted v hs]; exact hb, hwf, hd⟩⟩

theorem wobjOf_ok (o : DObj) (s : Obj) (withPad : Bool) (hpad : WsRun o.pad) (hn : o.num ≤ i64Max) (hg : o.gen ≤ i64Max)
    (hwf : wfDeep s = true) (hd : Obj.depth s ≤ 50) : (wobjOf o (canon s) s withPad).OK := by
  obtain ⟨n1, n2, n3⟩ := natDigits_spec o.num hn
  obtain ⟨g1, g2, g3⟩ := natDigits_spec o.gen hg
  exact {
    pad := by
      show WsRun (if withPad then o.pad else [])
      cases withPad
      · exact WsRun.nil
      · exact hpad
    nne := n1
    ndig := n2
    nfit := by show digitsVal (natDigits o.num) 0 ≤ i64Max; rw [n3]; exact hn
    w1 := (wsReq_run _).1
    w1ne := (wsReq_run _).2
    gne := g1
    gdig := g2
    gfit := by show digitsVal (natDigits o.gen) 0 ≤ i64Max; rw [g3]; exact hg
    w2 := wsOpt_run _
    w3 := (wsReq_run _).1
    spells := spell_is_Spells s _ 50 hwf hd
    depth := Nat.le_refl 50
    w4 := (wsReq_run _).1
    w4req := fun _ => (wsReq_run _).2 }

theorem wobjOf_num (o : DObj) (c s : Obj) (b : Bool) (hn : o.num ≤ i64Max) : (wobjOf o c s b).num = o.num :=
  (natDigits_spec o.num hn).2.2
theorem wobjOf_gen (o : DObj) (c s : Obj) (b : Bool) (hg : o.gen ≤ i64Max) : (wobjOf o c s b).gen = o.gen :=
  (natDigits_spec o.gen hg).2.2

/-- **objects**: a plain object rendered by `renderObj` is `pad? ++ W.bytes ++ LF` for a well-formed written object `W`
    whose value is the canonical form of what was spelled -/
theorem renderObj_simple (o : DObj) (pos : Nat) (hpad : WsRun o.pad) (hn : o.num ≤ i64Max) (hg : o.gen ≤ i64Max) (s : Obj)
    (hb : o.body = .val (canon s) s) (hwf : wfDeep s = true) (hd : Obj.depth s ≤ 50) :
    ∃ (W : WObj), W.OK ∧ W.num = o.num ∧ W.gen = o.gen ∧ W.v = canon s ∧
      renderObj o pos = ((if o.ofsAtPad then [] else o.pad) ++ (W.bytes ++ [10]),
        pos + (if o.ofsAtPad then [] else o.pad).length, canon s) := by
  refine ⟨wobjOf o (canon s) s o.ofsAtPad, wobjOf_ok o s _ hpad hn hg hwf hd, wobjOf_num o _ s _ hn, wobjOf_gen o _ s _ hg,
    rfl, ?_⟩
  rw [renderObj_val o pos _ s hb]
  cases hp : o.ofsAtPad
  · simp
  · simp [wobjOf_pad]

theorem eol1Of_mem (k : Nat) : eol1Of k ∈ Framing.eolsAfterStream := by
  unfold eol1Of Framing.eolsAfterStream
  split <;> simp

theorem eol2Of_mem (k : Nat) : eol2Of k ∈ Framing.eolsBeforeEndstream := by
  unfold eol2Of Framing.eolsBeforeEndstream
  split <;> simp

/-- the written stream object is lexically well formed -/
theorem wstmOf_ok (o : DObj) (entries : List (Bytes × Obj)) (data : Bytes) (withPad : Bool) (hpad : WsRun o.pad)
    (hn : o.num ≤ i64Max) (hg : o.gen ≤ i64Max)
    (hwf : wfDeep (.dict (streamEntries o entries data.length)) = true)
    (hd : Obj.depth (.dict (streamEntries o entries data.length)) ≤ 50)
    (hc : ValsCanon (streamEntries o entries data.length)) : (wstmOf o entries data withPad).OK := by
  obtain ⟨n1, n2, n3⟩ := natDigits_spec o.num hn
  obtain ⟨g1, g2, g3⟩ := natDigits_spec o.gen hg
  have hsp := spell_is_Spells (.dict (streamEntries o entries data.length)) (wsReq (wsReq (wsOpt (wsReq o.ch).2).2).2).2 50 hwf hd
  rw [canon_dict_eq _ hc] at hsp
  exact {
    head := {
      pad := by
        show WsRun (if withPad then o.pad else [])
        cases withPad
        · exact WsRun.nil
        · exact hpad
      nne := n1
      ndig := n2
      nfit := by show digitsVal (natDigits o.num) 0 ≤ i64Max; rw [n3]; exact hn
      w1 := (wsReq_run _).1
      w1ne := (wsReq_run _).2
      gne := g1
      gdig := g2
      gfit := by show digitsVal (natDigits o.gen) 0 ≤ i64Max; rw [g3]; exact hg
      w2 := wsOpt_run _
      w3 := (wsReq_run _).1
      spells := hsp
      depth := Nat.le_refl 50
      w4 := wsOpt_run _
      w4req := by intro h; exact absurd h (by simp [WStm.head, endsReg]) }
    e1 := eol1Of_mem _
    e2 := eol2Of_mem _
    w4 := (wsReq_run _).1 }

theorem wstmOf_num (o : DObj) (entries : List (Bytes × Obj)) (data : Bytes) (b : Bool) (hn : o.num ≤ i64Max) :
    (wstmOf o entries data b).num = o.num := (natDigits_spec o.num hn).2.2
theorem kLength_eq : DocSpec.kLength = keyLength := by decide +kernel
theorem wstmOf_gen (o : DObj) (entries : List (Bytes × Obj)) (data : Bytes) (b : Bool) (hg : o.gen ≤ i64Max) :
    (wstmOf o entries data b).gen = o.gen := (natDigits_spec o.gen hg).2.2

/-- /Length is among the written entries, once, with the data length -/
theorem streamEntries_length (o : DObj) (entries : List (Bytes × Obj)) (n : Nat) (hl : o.lenRef = none)
    (hnd : ((streamEntries o entries n).map Prod.fst).Nodup) :
    dictGet keyLength (DocSpec.canonKvs (streamEntries o entries n)) = some (.int n) := by
  apply dictGet_canon_mem _ hnd
  unfold streamEntries insertAt
  rw [hl, kLength_eq]
  simp

/-! ## the body -/

def valOf (o : DObj) : Obj := match o.body with | .val c _ => c | .stm _ _ => .null

/-- the value as handed to the spelling encoder (entry order as written) -/
def spelledOf (o : DObj) : Obj := match o.body with | .val _ s => s | .stm _ _ => .null

/-- the padding that is NOT part of the object's piece (the offset points after it) -/
def preOf (o : DObj) : Bytes := if o.ofsAtPad then [] else o.pad

def nextPre : List DObj → Bytes
  | [] => []
  | o :: _ => preOf o

def pieceOf (o : DObj) : Piece :=
  match o.body with
  | .val c s => (wobjOf o c s o.ofsAtPad).piece
  | .stm entries data => (wstmOf o entries data o.ofsAtPad).piece

theorem pieceOf_val_eq (o : DObj) (c s : Obj) (hb : o.body = .val c s) : pieceOf o = (wobjOf o c s o.ofsAtPad).piece := by
  unfold pieceOf; rw [hb]
theorem pieceOf_stm_eq (o : DObj) (entries : List (Bytes × Obj)) (data : Bytes) (hb : o.body = .stm entries data) :
    pieceOf o = (wstmOf o entries data o.ofsAtPad).piece := by
  unfold pieceOf; rw [hb]

/-- the body as pieces: every object is followed by its LF and the detached padding of the next one -/
def placedOf : List DObj → List Placed
  | [] => []
  | o :: t => ⟨pieceOf o, [10] ++ nextPre t⟩ :: placedOf t

/-- the keys of a dictionary in the encoder's domain are distinct -/
theorem wfDeepKvs_nodup : ∀ (es : List (Bytes × Obj)), wfDeepKvs es = true → (es.map Prod.fst).Nodup
  | [], _ => List.nodup_nil
  | (k, v) :: t, h => by
    simp only [wfDeepKvs, Bool.and_eq_true, List.all_eq_true, bne_iff_ne, ne_eq] at h
    simp only [List.map_cons, List.nodup_cons, List.mem_map, not_exists, not_and]
    exact ⟨fun p hp hk => h.1.1.2 p hp hk, wfDeepKvs_nodup t h.2⟩

theorem renderObj_piece (o : DObj) (pos : Nat) (h : SimpleObj o) :
    renderObj o pos = (preOf o ++ ((pieceOf o).bytes ++ [10]), pos + (preOf o).length,
      ((pieceOf o).val (pos + (preOf o).length)).val) := by
  obtain ⟨hpad, hn, hg, ⟨s, hb, hwf, hd⟩ | ⟨entries, data, hb, hl, hwf, hd, hc⟩⟩ := h
  · rw [renderObj_val o pos _ s hb, pieceOf_val_eq o _ s hb]
    unfold preOf WObj.piece
    cases hp : o.ofsAtPad
    · simp
      rfl
    · simp [wobjOf_pad]
      rfl
  · rw [renderObj_stm o pos entries data hb, pieceOf_stm_eq o entries data hb]
    unfold preOf WStm.piece
    cases hp : o.ofsAtPad
    · simp
    · simp only [if_true, List.nil_append, List.length_nil, Nat.add_zero, wstmOf_pad, wstmOf_val_pad]
      simp

theorem pieceOf_num (o : DObj) (h : SimpleObj o) : (pieceOf o).num = o.num := by
  obtain ⟨hpad, hn, hg, ⟨s, hb, _⟩ | ⟨entries, data, hb, _⟩⟩ := h
  · rw [pieceOf_val_eq o _ s hb]; exact wobjOf_num o _ _ _ hn
  · rw [pieceOf_stm_eq o entries data hb]; exact wstmOf_num o _ _ _ hn
theorem pieceOf_gen (o : DObj) (h : SimpleObj o) : (pieceOf o).gen = o.gen := by
  obtain ⟨hpad, hn, hg, ⟨s, hb, _⟩ | ⟨entries, data, hb, _⟩⟩ := h
  · rw [pieceOf_val_eq o _ s hb]; exact wobjOf_gen o _ _ _ hg
  · rw [pieceOf_stm_eq o entries data hb]; exact wstmOf_gen o _ _ _ hg
/-- a plain object's value does not depend on where it is written -/
theorem pieceOf_val (o : DObj) (i : Nat) (hv : isVal o = true) : ((pieceOf o).val i).val = valOf o := by
  unfold isVal at hv
  unfold pieceOf valOf
  split at hv
  · rfl
  · cases hv
/-- a stream object's value: the entries with /Length as a sorted map, and a content descriptor holding the data -/
theorem pieceOf_val_stm (o : DObj) (i : Nat) (entries : List (Bytes × Obj)) (data : Bytes) (hb : o.body = .stm entries data) :
    ∃ start, ((pieceOf o).val i).val = .stream (DocSpec.canonKvs (streamEntries o entries data.length)) ⟨start, data.length, data⟩ := by
  rw [pieceOf_stm_eq o entries data hb]
  exact ⟨_, rfl⟩

theorem pieceOf_reads (o : DObj) (h : SimpleObj o) : (pieceOf o).Reads := by
  obtain ⟨hpad, hn, hg, ⟨s, hb, hwf, hd⟩ | ⟨entries, data, hb, hl, hwf, hd, hc⟩⟩ := h
  · rw [pieceOf_val_eq o _ s hb]
    exact WObj.piece_reads _ (wobjOf_ok o s _ hpad hn hg hwf hd)
  · rw [pieceOf_stm_eq o entries data hb]
    refine WStm.piece_reads _ (wstmOf_ok o entries data _ hpad hn hg hwf hd hc) ?_
    exact streamEntries_length o entries data.length hl (wfDeepKvs_nodup _ (by simpa [wfDeep] using hwf))

/-- **body**: the objects rendered one after the other are the detached padding of the first one, then the pieces;
    the offsets handed to the cross-reference data are the pieces' places, the values are the pieces' values -/
theorem renderObjs_body : ∀ (objs : List DObj) (pos : Nat), (∀ o ∈ objs, SimpleObj o) →
    renderObjs objs pos = (nextPre objs ++ bodyBytes (placedOf objs),
      (place (placedOf objs) (pos + (nextPre objs).length)).map (fun q => (q.1.num, q.1.gen, q.2)),
      (place (placedOf objs) (pos + (nextPre objs).length)).map (fun q => ((q.1.num, q.1.gen), (q.1.val q.2).val)))
  | [], pos, _ => by simp [renderObjs, nextPre, placedOf, bodyBytes, place]
  | o :: t, pos, h => by
    have ho := h o List.mem_cons_self
    have ih := renderObjs_body t (pos + (preOf o ++ ((pieceOf o).bytes ++ [10])).length) (fun x hx => h x (List.mem_cons_of_mem _ hx))
    unfold renderObjs
    rw [renderObj_piece o pos ho]
    simp only [ih]
    have hpos : pos + (preOf o ++ ((pieceOf o).bytes ++ [10])).length + (nextPre t).length =
        pos + (preOf o).length + ((pieceOf o).bytes.length + ([10] ++ nextPre t).length) := by
      simp only [List.length_append, List.length_cons, List.length_nil]; omega
    rw [hpos]
    have e1 : nextPre (o :: t) = preOf o := rfl
    have e2 : placedOf (o :: t) = ⟨pieceOf o, [10] ++ nextPre t⟩ :: placedOf t := rfl
    rw [e1, e2]
    simp only [bodyBytes, place, List.map_cons, pieceOf_num o ho, pieceOf_gen o ho]
    simp only [List.append_assoc]


/-! ## trailer -/

/-- a pre-rendered dictionary entry and the entry it spells -/
def RawEnt (kr : Bytes × Bytes) (kv : Bytes × Obj) : Prop :=
  kr.1 = kv.1 ∧ okKey kv.1 = true ∧ (∃ ch, (nameBody kv.1 ch).1 = kv.1) ∧ Spells 1 kv.2 kr.2

inductive RawEnts : List (Bytes × Bytes) → List (Bytes × Obj) → Prop
  | nil : RawEnts [] []
  | cons {kr kv tr ents} : RawEnt kr kv → RawEnts tr ents → RawEnts (kr :: tr) (kv :: ents)

theorem spellRaw_entries {tr : List (Bytes × Bytes)} {ents : List (Bytes × Obj)} (h : RawEnts tr ents) :
    ∀ (names : List Bytes) (c : Ch), (ents.map (·.1)).Nodup → (∀ k ∈ ents.map (·.1), k ∉ names) →
    ∃ body sep, (spellRaw tr c).1 = body ++ (sep ++ [62, 62]) ∧ SpellsEntries 1 names ents body ∧ WsRun sep := by
  induction h with
  | nil =>
    intro names c _ _
    exact ⟨[], (wsOpt c).1, by simp [spellRaw], SpellsEntries.nil 1 names, wsOpt_run c⟩
  | @cons kr kv tr' ents' hkv _ ih =>
    intro names c hnd hnew
    obtain ⟨k, raw⟩ := kr
    obtain ⟨k', v⟩ := kv
    obtain ⟨hk, hok, ⟨ch, hch⟩, hsp⟩ := hkv
    simp only at hk hok hch hsp
    subst hk
    simp only [List.map_cons, List.nodup_cons] at hnd
    obtain ⟨body', sep, hr, hse, hsep⟩ := ih (if isNullV v then names else k :: names)
      (wsReq (wsOpt c).2).2 hnd.2 (by
        intro x hx
        have h1 := hnew x (by simp only [List.map_cons]; exact List.mem_cons_of_mem _ hx)
        split
        · exact h1
        · intro hm
          simp only [List.mem_cons] at hm
          rcases hm with rfl | hm
          · exact hnd.1 hx
          · exact h1 hm)
    refine ⟨(wsOpt c).1 ++ (47 :: (nameBody k ch).1 ++ ((wsReq (wsOpt c).2).1 ++ (raw ++ body'))), sep, ?_, ?_, hsep⟩
    · simp only [spellRaw, hr, hch]
      simp [List.append_assoc]
    · exact SpellsEntries.cons 1 names k v ents' _ ch _ raw body' (wsOpt_run c) hok
        (hnew k (by simp)) (wsReq_run _).1 hsp (fun _ => (wsReq_run _).2) hse

theorem rotate_two {α : Type} (a b : α) (k : Nat) : rotate [a, b] k = [a, b] ∨ rotate [a, b] k = [b, a] := by
  unfold rotate
  have : k % 2 = 0 ∨ k % 2 = 1 := by omega
  rcases this with h | h <;> simp [h]

def kSize : Bytes := [83, 105, 122, 101]
theorem bs_Size : bs "Size" = kSize := by decide +kernel
theorem bs_Root : bs "Root" = kRoot := by decide +kernel
theorem bs_sp_R : bs " R" = [32, 82] := by decide +kernel
theorem bs_ltlt : bs "<<" = [60, 60] := by decide +kernel

theorem rawSize (n : Nat) (hn : n ≤ i64Max) : RawEnt (kSize, natDigits n) (kSize, .int (n : Int)) := by
  obtain ⟨n1, n2, n3⟩ := natDigits_spec n hn
  refine ⟨rfl, (by decide : okKey kSize = true), ⟨[1, 0, 0, 1, 0, 0, 1, 0, 0, 1, 0, 0], (by decide : (nameBody kSize _).1 = kSize)⟩, ?_⟩
  have := Spells.int 0 .none (natDigits n) n1 n2 (by rw [n3]; exact hn)
  rw [n3] at this
  exact this

theorem rawRoot (r : Nat × Nat) (h1 : r.1 ≤ i64Max) (h2 : r.2 ≤ i64Max) : RawEnt (kRoot, refBytes r) (kRoot, .ref r.1 r.2) := by
  obtain ⟨a1, a2, a3⟩ := natDigits_spec r.1 h1
  obtain ⟨b1, b2, b3⟩ := natDigits_spec r.2 h2
  refine ⟨rfl, (by decide : okKey kRoot = true), ⟨[1, 0, 0, 1, 0, 0, 1, 0, 0, 1, 0, 0], (by decide : (nameBody kRoot _).1 = kRoot)⟩, ?_⟩
  have := Spells.ref 0 (natDigits r.1) [32] (natDigits r.2) [32] a1 a2 (by rw [a3]; exact h1) b1 b2 (by rw [b3]; exact h2)
    C02.ws32 (by simp) C02.ws32 (by simp)
  rw [a3, b3] at this
  have e : refBytes r = natDigits r.1 ++ ([32] ++ (natDigits r.2 ++ ([32] ++ [82]))) := by
    simp [refBytes, bs_sp_R]
  show Spells 1 (.ref r.1 r.2) (refBytes r)
  rw [e]
  exact this

/-- the trailer dictionary value of a single classic revision -/
def trailerDict (size : Nat) (root : Nat × Nat) : List (Bytes × Obj) := [(kRoot, .ref root.1 root.2), (kSize, .int (size : Int))]

/-- **trailer**: the trailer dictionary written by the kind-0 branch (Size and Root in either order) is a legal
    spelling of `trailerDict` -/
theorem trailer_spells (size : Nat) (root : Nat × Nat) (k : Nat) (c : Ch)
    (hs : size ≤ i64Max) (h1 : root.1 ≤ i64Max) (h2 : root.2 ≤ i64Max) :
    Spells 2 (.dict (trailerDict size root))
      (bs "<<" ++ (spellRaw (rotate ([(bs "Size", natDigits size), (bs "Root", refBytes root)] ++ []) k) c).1) := by
  rw [bs_ltlt, bs_Size, bs_Root, List.append_nil]
  rcases rotate_two (kSize, natDigits size) (kRoot, refBytes root) k with e | e <;> rw [e]
  · obtain ⟨body, sep, hb, hse, hsep⟩ := spellRaw_entries
      (RawEnts.cons (rawSize size hs) (RawEnts.cons (rawRoot root h1 h2) RawEnts.nil)) [] c (by simp [kSize, kRoot]) (by simp)
    rw [hb]
    exact Spells.dict 1 _ body sep hse hsep
  · obtain ⟨body, sep, hb, hse, hsep⟩ := spellRaw_entries
      (RawEnts.cons (rawRoot root h1 h2) (RawEnts.cons (rawSize size hs) RawEnts.nil)) [] c (by simp [kSize, kRoot]) (by simp)
    rw [hb]
    exact Spells.dict 1 _ body sep hse hsep

theorem trailerDict_root (size : Nat) (root : Nat × Nat) : dictGet kRoot (trailerDict size root) = some (.ref root.1 root.2) := rfl
theorem trailerDict_noPrev (size : Nat) (root : Nat × Nat) : ObjStm.getUsize (trailerDict size root) kPrev = none := rfl
theorem trailerDict_noXRefStm (size : Nat) (root : Nat × Nat) : ObjStm.getUsize (trailerDict size root) kXRefStm = none := rfl

/-! ## tail -/

theorem wsRun_no_s : ∀ (k : Nat) (c : Ch), (115 : UInt8) ∉ (wsRun k c).1
  | 0, _ => by simp [wsRun]
  | k + 1, c => by
    simp only [wsRun, List.mem_append, not_or]
    refine ⟨?_, wsRun_no_s k _⟩
    cases h : wsPieces[(pick c wsPieces.length).1]? with
    | none => simp
    | some p =>
      have hp := List.mem_of_getElem? h
      have : ∀ p ∈ wsPieces, (115 : UInt8) ∉ p := by decide
      simpa using this p hp

/-- the mandatory white space of the encoder never contains the byte `s` (its comments are `%c`, `%`, `%%EOF (x) <<`) -/
theorem wsReq_no_s (c : Ch) : (115 : UInt8) ∉ (wsReq c).1 := by
  unfold wsReq
  exact wsRun_no_s _ _

theorem bs_startxref : bs "startxref" = kwStartxref := by decide +kernel
theorem bs_EOF : bs "%%EOF" = kwEOF := by decide +kernel
theorem bs_trailer : bs "trailer" = kwTrailer := by decide +kernel

theorem tailBytes_eq (p : Nat) (c : Ch) :
    tailBytes p c = kwStartxref ++ ((wsReq c).1 ++ (natDigits p ++ ([10] ++ (kwEOF ++ [10])))) := by
  simp [tailBytes, bs_startxref, bs_EOF]


/-! ## the kind-0 branch of `renderRev`, spelled out -/

def usesOf (r : Rev) (pos : Nat) : List XE := (renderObjs r.objs pos).2.1.map fun u => ⟨u.1, 1, u.2.2, u.2.1⟩
def freesOf (r : Rev) : List XE :=
  (if r.zero then [⟨0, 0, 0, 65535⟩] else []) ++ r.frees.map fun f => ⟨f.1, 0, 0, f.2⟩
def memsOf (r : Rev) : List XE := r.members.map fun m => ⟨m.1, 2, m.2.1, m.2.2.1⟩
/-- the value written under Size -/
def sizeOf (r : Rev) (pos : Nat) : Nat :=
  maxOf ((usesOf r pos ++ memsOf r ++ freesOf r).map (·.num) ++ [r.lay.xnum]) + 1
def trailerRaw (r : Rev) (pos : Nat) : Bytes × Ch :=
  spellRaw (rotate ([(bs "Size", natDigits (sizeOf r pos)), (bs "Root", refBytes r.root)] ++ []) r.lay.dictOrder) (wsOpt r.lay.ch).2

theorem renderRev_classic (r : Rev) (pos : Nat) (hk : r.lay.kind = 0) (hs : r.lay.swap = none) (hr : r.lay.relabel = none) :
    renderRev r pos none =
      ((renderObjs r.objs pos).1 ++ encTable (tableSubs r.lay (sortXE (usesOf r pos ++ freesOf r))) ++ bs "trailer" ++
        (wsOpt r.lay.ch).1 ++ bs "<<" ++ (trailerRaw r pos).1 ++ [10] ++
        tailBytes (pos + (renderObjs r.objs pos).1.length) (trailerRaw r pos).2,
       pos + (renderObjs r.objs pos).1.length, ⟨(renderObjs r.objs pos).2.2, r.frees.map (·.1), r.root⟩) := by
  unfold renderRev
  simp only [hk, hs, hr, swapOfs, relabelUse]
  rfl


/-! ## composition: the rendered file as a `ClassicFile` -/

/-- the header after the magic -/
def hdrTail (binary : Bool) : Bytes := [49, 46, 53, 10] ++ (if binary then [37, 0xE2, 0xE3, 0xCF, 0xD3, 10] else [])

theorem header_eq (binary : Bool) : header binary = kwPdf ++ hdrTail binary := by
  cases binary <;> decide +kernel

/-- the layout of the file rendered for one classic revision: the detached padding of the first object goes into
    the header remainder -/
def classicOf (garbage : Bytes) (binary : Bool) (r : Rev) : ClassicFile :=
  let pos := (header binary).length
  { garbage := garbage
    hdrRest := hdrTail binary ++ nextPre r.objs
    body := placedOf r.objs
    subs := tableSubs r.lay (sortXE (usesOf r pos ++ freesOf r))
    wt := (wsOpt r.lay.ch).1
    ttok := bs "<<" ++ (trailerRaw r pos).1
    gap := [10]
    wsx := (wsReq (trailerRaw r pos).2).1
    ds := natDigits (pos + (renderObjs r.objs pos).1.length)
    e := [10]
    trail := [10] }

/-- the restriction of the link (`_partial`): one revision with a classic table, no offset swap / relabelling
    (those make the file ill-formed on purpose), scalar objects written canonically; the rest are size bounds -/
structure SimpleRev (r : Rev) : Prop where
  kind : r.lay.kind = 0
  swap : r.lay.swap = none
  relabel : r.lay.relabel = none
  objs : ∀ o ∈ r.objs, SimpleObj o
  objsNe : r.objs ≠ []
  gens : ∀ o ∈ r.objs, o.gen ≤ 65535
  freeGens : ∀ f ∈ r.frees, f.2 ≤ 65535
  /-- object numbers are pairwise distinct (written objects, object 0 if listed, free entries) -/
  numsNodup : (r.objs.map DObj.num ++ ((if r.zero then [0] else []) ++ r.frees.map Prod.fst)).Nodup
  numsFit : ∀ n ∈ r.objs.map DObj.num ++ (r.members.map Prod.fst ++ (r.frees.map Prod.fst ++ [r.lay.xnum])), n < i64Max
  count : r.objs.length + r.frees.length + 1 < 2 ^ 63
  rootFit : r.root.1 ≤ i64Max ∧ r.root.2 ≤ i64Max

theorem classicOf_bytes (garbage : Bytes) (binary : Bool) (r : Rev) (h : SimpleRev r) :
    renderHistory garbage binary [(r, .auto)] =
      ((classicOf garbage binary r).bytes, [(header binary).length + (renderObjs r.objs (header binary).length).1.length],
       (header binary).length + ((renderRev r (header binary).length none).1 ++ []).length,
       [⟨(renderObjs r.objs (header binary).length).2.2, r.frees.map (·.1), r.root⟩]) := by
  simp only [renderHistory, renderRevs, List.getLast?_nil, List.nil_append]
  rw [renderRev_classic r _ h.kind h.swap h.relabel]
  simp only [List.append_nil]
  congr 1
  rw [renderObjs_body r.objs _ h.objs, tailBytes_eq, bs_trailer, header_eq]
  simp only [ClassicFile.bytes, ClassicFile.view, ClassicFile.mid, ClassicFile.hdr, classicOf, List.append_assoc]
  rw [renderObjs_body r.objs _ h.objs, header_eq]


theorem place_fst : ∀ (objs : List DObj) (p : Nat), (place (placedOf objs) p).map Prod.fst = objs.map pieceOf
  | [], _ => rfl
  | o :: t, p => by
    show pieceOf o :: (place (placedOf t) _).map Prod.fst = pieceOf o :: t.map pieceOf
    rw [place_fst t]

theorem place_bound : ∀ (ps : List Placed) (pos : Nat), ∀ q ∈ place ps pos, q.2 + q.1.bytes.length ≤ pos + (bodyBytes ps).length
  | [], _ => by intro q hq; cases hq
  | p :: t, pos => by
    intro q hq
    simp only [place, List.mem_cons] at hq
    simp only [bodyBytes, List.length_append]
    rcases hq with rfl | hq
    · show pos + p.p.bytes.length ≤ _
      omega
    · have := place_bound t _ q hq
      omega

theorem mem_placedOf : ∀ (objs : List DObj) (q : Placed), q ∈ placedOf objs → ∃ o ∈ objs, q.p = pieceOf o
  | [], _, h => by cases h
  | o :: t, q, h => by
    simp only [placedOf, List.mem_cons] at h
    rcases h with rfl | h
    · exact ⟨o, List.mem_cons_self, rfl⟩
    · obtain ⟨x, hx, e⟩ := mem_placedOf t q h
      exact ⟨x, List.mem_cons_of_mem _ hx, e⟩

theorem foldl_max_le (B : Nat) : ∀ (l : List Nat) (a : Nat), a ≤ B → (∀ x ∈ l, x ≤ B) → l.foldl Nat.max a ≤ B
  | [], _, ha, _ => ha
  | x :: t, a, ha, h => by
    simp only [List.foldl_cons]
    apply foldl_max_le B t
    · exact Nat.max_le.mpr ⟨ha, h x List.mem_cons_self⟩
    · exact fun y hy => h y (List.mem_cons_of_mem _ hy)

theorem maxOf_le (B : Nat) (l : List Nat) (h : ∀ x ∈ l, x ≤ B) : maxOf l ≤ B :=
  foldl_max_le B l 0 (Nat.zero_le _) h

theorem nodup_of_map {α β : Type} (g : α → β) : ∀ l : List α, (l.map g).Nodup → l.Nodup
  | [], _ => List.nodup_nil
  | a :: t, h => by
    simp only [List.map_cons, List.nodup_cons] at h ⊢
    exact ⟨fun hm => h.1 (List.mem_map_of_mem hm), nodup_of_map g t h.2⟩

/-- the cross-reference entry of a placed piece -/
def xeOf (q : Piece × Nat) : XE := ⟨q.1.num, 1, q.2, q.1.gen⟩

theorem usesOf_eq (r : Rev) (pos : Nat) (h : ∀ o ∈ r.objs, SimpleObj o) :
    usesOf r pos = (place (placedOf r.objs) (pos + (nextPre r.objs).length)).map xeOf := by
  unfold usesOf
  rw [renderObjs_body r.objs pos h, List.map_map]
  rfl

theorem pieces_nums (objs : List DObj) (p : Nat) (h : ∀ o ∈ objs, SimpleObj o) :
    (place (placedOf objs) p).map (fun q => q.1.num) = objs.map DObj.num := by
  have : (place (placedOf objs) p).map (fun q => q.1.num) = ((place (placedOf objs) p).map Prod.fst).map Piece.num := by
    rw [List.map_map]; rfl
  rw [this, place_fst, List.map_map]
  apply List.map_congr_left
  intro o ho
  exact pieceOf_num o (h o ho)

theorem freesOf_nums (r : Rev) : (freesOf r).map (·.num) = (if r.zero then [0] else []) ++ r.frees.map Prod.fst := by
  unfold freesOf
  cases r.zero <;> simp [List.map_map, Function.comp_def]

theorem freesOf_filter (r : Rev) : (freesOf r).filter (·.typ == 1) = [] := by
  unfold freesOf
  rw [List.filter_eq_nil_iff]
  intro e he
  simp only [List.mem_append, List.mem_map] at he
  rcases he with he | ⟨f, _, rfl⟩
  · cases hz : r.zero
    · simp [hz] at he
    · simp [hz] at he; subst he; simp
  · simp

theorem uses_filter (l : List (Piece × Nat)) : (l.map xeOf).filter (·.typ == 1) = l.map xeOf := by
  rw [List.filter_eq_self]
  intro e he
  obtain ⟨q, _, rfl⟩ := List.mem_map.mp he
  rfl

theorem classicOf_objs (garbage : Bytes) (binary : Bool) (r : Rev) :
    (classicOf garbage binary r).objs = place (placedOf r.objs) ((header binary).length + (nextPre r.objs).length) := by
  unfold ClassicFile.objs ClassicFile.hdr classicOf
  simp only [header_eq, List.length_append]
  rw [Nat.add_assoc]

theorem isPrefixOf_append_of_le : ∀ (tag a b : Bytes), tag.length ≤ a.length → tag.isPrefixOf (a ++ b) = tag.isPrefixOf a
  | [], _, _, _ => by simp
  | _ :: _, [], _, h => by simp at h
  | x :: t, y :: a, b, h => by
    simp only [List.cons_append, List.isPrefixOf]
    rw [isPrefixOf_append_of_le t a b (by simpa using h)]

/-- the magic `%PDF-` does not start inside the garbage (also not straddling the header that follows) -/
def NoMagic (garbage : Bytes) : Prop :=
  ∀ k, k < garbage.length → kwPdf.isPrefixOf (garbage.drop k ++ kwPdf) = false

theorem noMagic_of_no_percent' (garbage : Bytes) (h : (37 : UInt8) ∉ garbage) : NoMagic garbage := by
  intro k hk
  have := noMagic_of_no_percent garbage kwPdf h k hk
  rwa [List.drop_append_of_le_length (by omega)] at this

/-- **`classicOf_wf`**: the layout of the rendered file is well formed -/
theorem classicOf_wf (garbage : Bytes) (binary : Bool) (r : Rev) (hg : NoMagic garbage) (h : SimpleRev r)
    (hlen : (classicOf garbage binary r).bytes.length < 10 ^ 10) :
    (classicOf garbage binary r).WF (trailerDict (sizeOf r (header binary).length) r.root) r.root := by
  have hU := usesOf_eq r (header binary).length h.objs
  have hO := classicOf_objs garbage binary r
  rw [← hO] at hU
  generalize hf : classicOf garbage binary r = f at *
  have hbody : f.body = placedOf r.objs := by rw [← hf]; rfl
  have hsubs : f.subs = tableSubs r.lay (sortXE (usesOf r (header binary).length ++ freesOf r)) := by rw [← hf]; rfl
  have hperm := sortXE_perm (usesOf r (header binary).length ++ freesOf r)
  -- sizes
  have hp1 : f.hdr.length + (bodyBytes f.body).length ≤ f.bytes.length := by
    simp only [ClassicFile.bytes, ClassicFile.view, ClassicFile.mid, List.length_append]; omega
  have hofs : ∀ q ∈ f.objs, q.2 < 10 ^ 10 := by
    intro q hq
    have := place_bound f.body f.hdr.length q hq
    omega
  have hpos : (header binary).length + (renderObjs r.objs (header binary).length).1.length = f.hdr.length + (bodyBytes f.body).length := by
    rw [renderObjs_body r.objs _ h.objs, hbody, ← hf]
    simp only [ClassicFile.hdr, classicOf, header_eq, List.length_append]
    omega
  have hds : f.ds = natDigits (f.hdr.length + (bodyBytes f.body).length) := by
    rw [← hpos, ← hf]; rfl
  have hfit : f.hdr.length + (bodyBytes f.body).length ≤ i64Max := by
    have : (10 : Nat) ^ 10 ≤ i64Max := by decide
    omega
  obtain ⟨d1, d2, d3⟩ := natDigits_spec _ hfit
  have hsize : sizeOf r (header binary).length ≤ i64Max := by
    unfold sizeOf
    have : maxOf ((usesOf r (header binary).length ++ memsOf r ++ freesOf r).map (·.num) ++ [r.lay.xnum]) ≤ i64Max - 1 := by
      apply maxOf_le
      intro x hx
      have hnf := h.numsFit
      simp only [List.map_append, List.append_assoc, hU, List.map_map, freesOf_nums] at hx
      have e1 : (f.objs.map ((fun x => x.num) ∘ xeOf)) = r.objs.map DObj.num := by
        rw [hO]; exact pieces_nums r.objs _ h.objs
      rw [e1] at hx
      simp only [List.mem_append] at hx hnf
      have hi : 0 < i64Max := by decide
      rcases hx with hx | hx | hx | hx | hx
      · have := hnf x (Or.inl hx); omega
      · have : x ∈ r.members.map Prod.fst := by
          simp only [memsOf, List.map_map] at hx
          exact hx
        have := hnf x (Or.inr (Or.inl this)); omega
      · cases hz : r.zero <;> simp [hz] at hx
        omega
      · have := hnf x (Or.inr (Or.inr (Or.inl hx))); omega
      · have := hnf x (Or.inr (Or.inr (Or.inr hx))); omega
    have hi : 0 < i64Max := by decide
    omega
  -- the entries of the table
  have hxe : ∀ e ∈ sortXE (usesOf r (header binary).length ++ freesOf r), e.num < 2 ^ 63 ∧ e.f2 < 10 ^ 10 ∧ e.f3 ≤ 65535 := by
    intro e he
    have he' := hperm.mem_iff.mp he
    have hnf := h.numsFit
    simp only [List.mem_append] at he' hnf
    rcases he' with he' | he'
    · rw [hU] at he'
      obtain ⟨q, hq, rfl⟩ := List.mem_map.mp he'
      have hq' := hq
      rw [hO] at hq'
      have hm : q.1 ∈ r.objs.map pieceOf := by
        rw [← place_fst r.objs ((header binary).length + (nextPre r.objs).length)]
        exact List.mem_map_of_mem hq'
      obtain ⟨o, ho, hoq⟩ := List.mem_map.mp hm
      have hso := h.objs o ho
      refine ⟨?_, hofs q hq, ?_⟩
      · show q.1.num < 2 ^ 63
        rw [← hoq, pieceOf_num o hso]
        have := hso.2.1
        unfold i64Max at this; omega
      · show q.1.gen ≤ 65535
        rw [← hoq, pieceOf_gen o hso]
        exact h.gens o ho
    · unfold freesOf at he'
      simp only [List.mem_append, List.mem_map] at he'
      rcases he' with he' | ⟨fr, hfr, rfl⟩
      · cases hz : r.zero <;> simp [hz] at he'
        subst he'
        exact ⟨by decide, by decide, by decide⟩
      · refine ⟨?_, (by decide : (0 : Nat) < 10 ^ 10), h.freeGens fr hfr⟩
        have := hnf fr.1 (Or.inr (Or.inr (Or.inl (List.mem_map_of_mem hfr))))
        show fr.1 < 2 ^ 63
        unfold i64Max at this; omega
  have hcount : (sortXE (usesOf r (header binary).length ++ freesOf r)).length < 2 ^ 63 := by
    rw [hperm.length_eq, List.length_append, hU, List.length_map]
    have : f.objs.length = r.objs.length := by
      have := congrArg List.length (place_fst r.objs ((header binary).length + (nextPre r.objs).length))
      rw [← hO] at this
      simpa using this
    rw [this]
    have : (freesOf r).length ≤ r.frees.length + 1 := by
      unfold freesOf
      cases r.zero <;> simp
    have := h.count
    omega
  have hne : sortXE (usesOf r (header binary).length ++ freesOf r) ≠ [] := by
    intro he
    have := hperm.length_eq
    rw [he, List.length_append, hU, List.length_map] at this
    have hl : f.objs.length = r.objs.length := by
      have := congrArg List.length (place_fst r.objs ((header binary).length + (nextPre r.objs).length))
      rw [← hO] at this
      simpa using this
    have : r.objs.length = 0 := by simp at this; omega
    exact h.objsNe (List.eq_nil_of_length_eq_zero this)
  have hnumsU : (usesOf r (header binary).length).map (·.num) = r.objs.map DObj.num := by
    rw [hU, List.map_map, hO]
    exact pieces_nums r.objs _ h.objs
  have hte : tableEnts f.subs = (sortXE (usesOf r (header binary).length ++ freesOf r)).map entOf := by
    rw [hsubs, tableEnts_tableSubs]
  exact {
    noMagic := by
      have : f.bytes = f.garbage ++ f.view := rfl
      have hgb : f.garbage = garbage := by rw [← hf]; rfl
      rw [this, hgb]
      intro k hk
      have hv : f.view = kwPdf ++ (f.hdrRest ++ (f.mid ++ (kwStartxref ++ (f.wsx ++ (f.ds ++ (f.e ++ (kwEOF ++ f.trail))))))) := by
        simp [ClassicFile.view, ClassicFile.hdr]
      rw [List.drop_append_of_le_length (by omega), hv, ← List.append_assoc,
        isPrefixOf_append_of_le _ _ _ (by simp [kwPdf])]
      exact hg k hk
    subsNe := by rw [hsubs]; exact tableSubs_ne _ _ hne
    subsOk := by rw [hsubs]; exact tableSubs_subOk _ _ hxe hcount
    numsNodup := by
      rw [hte, List.map_map]
      have : (sortXE (usesOf r (header binary).length ++ freesOf r)).map ((fun x => x.obj) ∘ entOf) =
          (sortXE (usesOf r (header binary).length ++ freesOf r)).map (·.num) := rfl
      rw [this]
      apply (hperm.map _).nodup_iff.mpr
      rw [List.map_append, hnumsU, freesOf_nums]
      exact h.numsNodup
    wt := by rw [← hf]; exact wsOpt_run _
    trailer := ⟨2, by rw [← hf]; exact trailer_spells _ _ _ _ hsize h.rootFit.1 h.rootFit.2, by decide⟩
    root := trailerDict_root _ _
    noPrev := trailerDict_noPrev _ _
    noXRefStm := trailerDict_noXRefStm _ _
    wsx := by rw [← hf]; exact (wsReq_run _).1
    wsxNe := by rw [← hf]; exact (wsReq_run _).2
    wsxNoS := by rw [← hf]; exact wsReq_no_s _
    dsNe := by rw [hds]; exact d1
    dsDig := by rw [hds]; exact d2
    startxref := by rw [hds]; exact d3
    ofsFits := by rw [hds, d3]; exact hfit
    e := by rw [← hf]; show ∀ y ∈ ([10] : Bytes), isWsEol y = true; decide
    trail := by rw [← hf]; exact noLaterEOF_of_no_percent [10] (by decide)
    reads := by
      intro q hq
      rw [hbody] at hq
      obtain ⟨o, ho, e⟩ := mem_placedOf r.objs q hq
      rw [e]
      exact pieceOf_reads o (h.objs o ho)
    idsNodup := by
      apply nodup_of_map Prod.fst
      rw [List.map_map]
      have : f.objs.map (Prod.fst ∘ fun q => (q.1.num, q.1.gen)) = r.objs.map DObj.num := by
        rw [hO]; exact pieces_nums r.objs _ h.objs
      rw [this]
      exact (List.nodup_append.mp h.numsNodup).1
    tableObjs := by
      have hfil : ((sortXE (usesOf r (header binary).length ++ freesOf r)).filter (·.typ == 1)).Perm (f.objs.map xeOf) := by
        have := hperm.filter (·.typ == 1)
        rw [List.filter_append, freesOf_filter, List.append_nil] at this
        have e : (usesOf r (header binary).length).filter (·.typ == 1) = f.objs.map xeOf := by rw [hU, uses_filter]
        rw [e] at this
        exact this
      obtain ⟨perm, hp, hm⟩ := perm_of_perm_map xeOf hfil
      refine ⟨perm, hp, ?_⟩
      rw [hte, infoOf_map_entOf, ← hm, List.map_map]
      rfl }


theorem pieces_written : ∀ (objs : List DObj) (p : Nat), (∀ o ∈ objs, SimpleObj o) → (∀ o ∈ objs, isVal o = true) →
    (place (placedOf objs) p).map (fun q => ((q.1.num, q.1.gen), (q.1.val q.2).val)) =
      objs.map (fun o => ((o.num, o.gen), valOf o))
  | [], _, _, _ => rfl
  | o :: t, p, h, hv => by
    have ho := h o List.mem_cons_self
    show (((pieceOf o).num, (pieceOf o).gen), ((pieceOf o).val p).val) :: (place (placedOf t) _).map _ = _
    rw [pieces_written t _ (fun x hx => h x (List.mem_cons_of_mem _ hx)) (fun x hx => hv x (List.mem_cons_of_mem _ hx)),
      pieceOf_num o ho, pieceOf_gen o ho, pieceOf_val o p (hv o List.mem_cons_self)]
    rfl

/-- every object of the revision is one of the placed pieces -/
theorem mem_place_placedOf : ∀ (objs : List DObj) (p : Nat), ∀ o ∈ objs, ∃ i, (pieceOf o, i) ∈ place (placedOf objs) p
  | [], _, _, h => by cases h
  | x :: t, p, o, h => by
    simp only [List.mem_cons] at h
    rcases h with rfl | h
    · exact ⟨p, by simp [placedOf, place]⟩
    · obtain ⟨i, hi⟩ := mem_place_placedOf t _ o h
      exact ⟨i, by simp only [placedOf, place, List.mem_cons]; exact Or.inr hi⟩

/-- **the link**: the file rendered for one simple classic revision is (the bytes of) a well-formed `ClassicFile`
    whose objects are exactly what the revision said it wrote -/
theorem render_is_classic (garbage : Bytes) (binary : Bool) (r : Rev) (hg : NoMagic garbage) (h : SimpleRev r)
    (hlen : (renderHistory garbage binary [(r, .auto)]).1.length < 10 ^ 10) :
    ∃ (f : ClassicFile) (D : List (Bytes × Obj)),
      f.bytes = (renderHistory garbage binary [(r, .auto)]).1 ∧ f.WF D r.root ∧
      (renderHistory garbage binary [(r, .auto)]).2.2.2 =
        [⟨f.objs.map (fun q => ((q.1.num, q.1.gen), (q.1.val q.2).val)), r.frees.map Prod.fst, r.root⟩] ∧
      ((∀ o ∈ r.objs, isVal o = true) →
        f.objs.map (fun q => ((q.1.num, q.1.gen), (q.1.val q.2).val)) = r.objs.map (fun o => ((o.num, o.gen), valOf o))) ∧
      f.objs.map Prod.fst = r.objs.map pieceOf := by
  have hb := classicOf_bytes garbage binary r h
  rw [hb] at hlen ⊢
  refine ⟨classicOf garbage binary r, _, rfl, classicOf_wf garbage binary r hg h hlen, ?_, ?_, ?_⟩
  · show [_] = [_]
    rw [classicOf_objs, renderObjs_body r.objs _ h.objs]
  · intro hv
    rw [classicOf_objs]
    exact pieces_written r.objs _ h.objs hv
  · rw [classicOf_objs]
    exact place_fst r.objs _

end Parsley.LoaderE2E
