/-
  Pure list combinatorics about the spec-side cross-reference table layout of `Spec/Doc.lean`
  (`insertXE`, `sortXE`, `runs`, `tableSubs`): sorting is a permutation, the runs partition the
  list into non-empty blocks of consecutive numbers, the table written for a list of entries
  denotes exactly these entries (`tableEnts_tableSubs`) and its subsections are well formed
  (`tableSubs_subOk`).
-/
import Parsley.Spec.Doc
import Parsley.Props.C13
import Parsley.Props.C02Struct
import Parsley.Model.Loader
namespace Parsley.LoaderE2E
open Parsley Parsley.DocSpec Parsley.XrefSpec Parsley.C13 Parsley.Spelling Parsley.Loader

/-- the table entry an `XE` stands for -/
def entOf (e : XE) : Xref.Ent := ⟨e.num, e.f3, if e.typ == 1 then .inUse e.f2 else .free e.f2⟩

/-! ### sorting -/

theorem insertXE_perm (e : XE) (l : List XE) : (insertXE e l).Perm (e :: l) := by
  induction l with
  | nil => exact List.Perm.refl _
  | cons x t ih =>
    simp only [insertXE]
    split
    · exact List.Perm.refl _
    · exact (List.Perm.cons x ih).trans (List.Perm.swap e x t)

theorem foldl_insertXE_perm (l acc : List XE) :
    (l.foldl (fun acc e => insertXE e acc) acc).Perm (acc ++ l) := by
  induction l generalizing acc with
  | nil => simp
  | cons e t ih =>
    simp only [List.foldl_cons]
    refine (ih (insertXE e acc)).trans ?_
    refine ((insertXE_perm e acc).append_right t).trans ?_
    simp only [List.cons_append]
    exact List.perm_middle.symm

theorem sortXE_perm (l : List XE) : (sortXE l).Perm l := by
  have := foldl_insertXE_perm l []
  simpa [sortXE] using this

/-! ### runs -/

theorem runs_flatten (cut : Nat) (es : List XE) : (runs cut es).flatten = es := by
  induction es with
  | nil => rfl
  | cons e t ih =>
    rw [runs]
    split
    · rename_i x r rest heq
      rw [heq] at ih
      split
      · simpa using ih
      · simpa using ih
    · simp [ih]

theorem runs_ne (cut : Nat) (es : List XE) : ∀ r ∈ runs cut es, r ≠ [] := by
  induction es with
  | nil => intro r hr; simp [runs] at hr
  | cons e t ih =>
    rw [runs]
    split
    · rename_i x r rest heq
      rw [heq] at ih
      split
      · intro r' hr'
        simp only [List.mem_cons] at hr'
        rcases hr' with h | h
        · subst h; simp
        · exact ih r' (List.mem_cons_of_mem _ h)
      · intro r' hr'
        simp only [List.mem_cons] at hr'
        rcases hr' with h | h
        · subst h; simp
        · exact ih r' (by simpa using h)
    · intro r' hr'
      simp only [List.mem_cons] at hr'
      rcases hr' with h | h
      · subst h; simp
      · exact ih r' h

/-- consecutive object numbers -/
def Consec : List XE → Prop
  | [] => True
  | [_] => True
  | a :: b :: t => a.num + 1 = b.num ∧ Consec (b :: t)

/-- each run has consecutive numbers (for ANY input list, sorted or not) -/
theorem runs_consec (cut : Nat) (es : List XE) : ∀ r ∈ runs cut es, Consec r := by
  induction es with
  | nil => intro r hr; simp [runs] at hr
  | cons e t ih =>
    rw [runs]
    split
    · rename_i x r rest heq
      rw [heq] at ih
      split
      · rename_i hc
        intro r' hr'
        simp only [List.mem_cons] at hr'
        rcases hr' with h | h
        · subst h
          simp only [Bool.and_eq_true, beq_iff_eq] at hc
          exact ⟨hc.1, ih (x :: r) List.mem_cons_self⟩
        · exact ih r' (List.mem_cons_of_mem _ h)
      · intro r' hr'
        simp only [List.mem_cons] at hr'
        rcases hr' with h | h
        · subst h; trivial
        · exact ih r' (by simpa using h)
    · intro r' hr'
      simp only [List.mem_cons] at hr'
      rcases hr' with h | h
      · subst h; trivial
      · exact ih r' h

theorem runs_mem_sub (cut : Nat) (es : List XE) : ∀ r ∈ runs cut es, ∀ e ∈ r, e ∈ es := by
  intro r hr e he
  rw [← runs_flatten cut es]
  exact List.mem_flatten.mpr ⟨r, hr, he⟩

theorem length_le_flatten {α : Type} (L : List (List α)) : ∀ r ∈ L, r.length ≤ L.flatten.length := by
  induction L with
  | nil => intro r hr; simp at hr
  | cons a t ih =>
    intro r hr
    simp only [List.mem_cons] at hr
    simp only [List.flatten_cons, List.length_append]
    rcases hr with h | h
    · subst h; omega
    · have := ih r h; omega

theorem runs_length_le (cut : Nat) (es : List XE) : ∀ r ∈ runs cut es, r.length ≤ es.length := by
  intro r hr
  have := length_le_flatten (runs cut es) r hr
  rwa [runs_flatten] at this

/-! ### decimal digits -/

theorem decDigits_ne (f n : Nat) : decDigits f n ≠ [] := by
  cases f with
  | zero => simp [decDigits]
  | succ f =>
    unfold decDigits
    split <;> simp

theorem decDigits_lt (f n : Nat) (h : n < 10 ^ f) : n < 10 ^ (decDigits f n).length := by
  induction f generalizing n with
  | zero =>
    have : n = 0 := by simp at h; exact h
    subst this
    simp [decDigits]
  | succ f ih =>
    unfold decDigits
    split
    · rename_i hlt
      simpa using hlt
    · rename_i hge
      have hq : n / 10 < 10 ^ f := by
        rw [Nat.pow_succ] at h
        exact Nat.div_lt_of_lt_mul (by omega)
      have := ih (n / 10) hq
      simp only [List.length_append, List.length_cons, List.length_nil, Nat.zero_add]
      rw [Nat.pow_succ]
      omega

theorem natDigits_lt (n : Nat) (hn : n < 2 ^ 63) : n < 10 ^ (natDigits n).length := by
  have hlt : n < 10 ^ 64 := by
    have : (2 : Nat) ^ 63 < 10 ^ 64 := by decide
    omega
  exact decDigits_lt 64 n hlt

theorem natDigits_length_pos (n : Nat) : 0 < (natDigits n).length :=
  Nat.pos_of_ne_zero (fun h => decDigits_ne 64 n (List.eq_nil_of_length_eq_zero h))

/-! ### the table -/

theorem number_zipIdx (F : XE × Nat → TEnt)
    (hF : ∀ e j, (F (e, j)).info = e.f2 ∧ (F (e, j)).gen = e.f3 ∧ (F (e, j)).inuse = (e.typ == 1))
    (r : List XE) : ∀ (k s : Nat), Consec r → (∀ e, r.head? = some e → e.num = s) →
      number s ((r.zipIdx k).map F) = r.map entOf := by
  induction r with
  | nil => intro k s _ _; rfl
  | cons a t ih =>
    intro k s hc hs
    have ha : a.num = s := hs a rfl
    simp only [List.zipIdx_cons, List.map_cons, number]
    obtain ⟨h1, h2, h3⟩ := hF a k
    have ht : number (s + 1) ((t.zipIdx (k + 1)).map F) = t.map entOf := by
      apply ih
      · cases t with
        | nil => trivial
        | cons b t' => exact hc.2
      · intro e he
        cases t with
        | nil => simp at he
        | cons b t' =>
          simp only [List.head?_cons, Option.some.injEq] at he
          subst he
          have := hc.1
          omega
    rw [ht, h1, h2, h3]
    simp only [entOf, ha]

/-- the subsection written for the `k`-th run -/
def subOf (lay : RevLay) (p : List XE × Nat) : TSub :=
  { start := (p.1.head?.map (·.num)).getD 0,
    wStart := (natDigits ((p.1.head?.map (·.num)).getD 0)).length + p.2 % 2,
    wCount := (natDigits p.1.length).length, lead := (if p.2 % 3 == 1 then [32] else []),
    hdrEol := (if p.2 % 2 == 0 then [10] else [13, 10]),
    ents := p.1.zipIdx.map fun (e, j) =>
      ⟨e.f2, e.f3, e.typ == 1, eolOf (lay.eols[(p.2 + j) % (if lay.eols.length == 0 then 1 else lay.eols.length)]?.getD 0)⟩ }

theorem tableSubs_eq (lay : RevLay) (es : List XE) :
    tableSubs lay es = (runs lay.cut es).zipIdx.map (subOf lay) := rfl

theorem subOf_number (lay : RevLay) (run : List XE) (k : Nat) (hc : Consec run) :
    number (subOf lay (run, k)).start (subOf lay (run, k)).ents = run.map entOf := by
  simp only [subOf]
  apply number_zipIdx
  · intro e j; exact ⟨rfl, rfl, rfl⟩
  · exact hc
  · intro e he; simp [he]

theorem flatMap_subOf (lay : RevLay) (rs : List (List XE)) (hc : ∀ r ∈ rs, Consec r) : ∀ k : Nat,
    ((rs.zipIdx k).map (subOf lay)).flatMap (fun t => number t.start t.ents) = rs.flatten.map entOf := by
  induction rs with
  | nil => intro k; rfl
  | cons r t ih =>
    intro k
    simp only [List.zipIdx_cons, List.map_cons, List.flatMap_cons, List.flatten_cons, List.map_append]
    rw [subOf_number lay r k (hc r List.mem_cons_self),
      ih (fun r' hr' => hc r' (List.mem_cons_of_mem _ hr')) (k + 1)]

/-- the table written for `es` lists exactly the entries of `es`, in order, under their own numbers
    (for ANY list `es`) -/
theorem tableEnts_tableSubs (lay : RevLay) (es : List XE) : tableEnts (tableSubs lay es) = es.map entOf := by
  rw [tableSubs_eq, tableEnts, flatMap_subOf lay _ (runs_consec lay.cut es) 0, runs_flatten]

theorem mem_zipIdx_fst {α : Type} (l : List α) : ∀ (k : Nat) (p : α × Nat), p ∈ l.zipIdx k → p.1 ∈ l := by
  induction l with
  | nil => intro k p hp; simp at hp
  | cons a t ih =>
    intro k p hp
    simp only [List.zipIdx_cons, List.mem_cons] at hp
    rcases hp with h | h
    · subst h; exact List.mem_cons_self
    · exact List.mem_cons_of_mem _ (ih (k + 1) p h)

theorem subOf_subOk (lay : RevLay) (run : List XE) (k : Nat) (hne : run ≠ [])
    (h : ∀ e ∈ run, e.num < 2 ^ 63 ∧ e.f2 < 10 ^ 10 ∧ e.f3 ≤ 65535) (hlen : run.length < 2 ^ 63) :
    subOk (subOf lay (run, k)) := by
  have hstart : (run.head?.map (·.num)).getD 0 < 2 ^ 63 := by
    cases run with
    | nil => exact absurd rfl hne
    | cons a t => simpa using (h a List.mem_cons_self).1
  generalize hs : (run.head?.map (·.num)).getD 0 = s at hstart
  have hel : (subOf lay (run, k)).ents.length = run.length := by simp [subOf]
  refine ⟨⟨?_, ?_, ?_, ?_, ?_, ?_, ?_, ?_, ?_, ?_⟩, ?_⟩
  · show (run.head?.map (·.num)).getD 0 < 10 ^ ((natDigits ((run.head?.map (·.num)).getD 0)).length + k % 2)
    rw [hs]
    exact Nat.lt_of_lt_of_le (natDigits_lt s hstart) (Nat.pow_le_pow_right (by decide) (Nat.le_add_right _ _))
  · show (run.head?.map (·.num)).getD 0 < 2 ^ 63
    rw [hs]; exact hstart
  · show 0 < (natDigits ((run.head?.map (·.num)).getD 0)).length + k % 2
    have := natDigits_length_pos ((run.head?.map (·.num)).getD 0)
    omega
  · rw [hel]; exact natDigits_lt _ hlen
  · rw [hel]; exact hlen
  · exact natDigits_length_pos _
  · show (if k % 3 == 1 then [32] else ([] : Bytes)).all isBlank = true
    split <;> decide
  · show (if k % 2 == 0 then [10] else ([13, 10] : Bytes)) ≠ []
    split <;> simp
  · show (if k % 2 == 0 then [10] else ([13, 10] : Bytes)).all isWs = true
    split <;> decide
  · intro e' he'
    simp only [subOf, List.mem_map] at he'
    obtain ⟨p, hp, rfl⟩ := he'
    have := h p.1 (mem_zipIdx_fst run 0 p hp)
    exact ⟨this.2.1, this.2.2⟩
  · intro hnil
    have : (subOf lay (run, k)).ents.length = 0 := by rw [hnil]; rfl
    rw [hel] at this
    exact hne (List.eq_nil_of_length_eq_zero this)

theorem tableSubs_subOk (lay : RevLay) (es : List XE)
    (h : ∀ e ∈ es, e.num < 2 ^ 63 ∧ e.f2 < 10 ^ 10 ∧ e.f3 ≤ 65535) (hlen : es.length < 2 ^ 63) :
    ∀ t ∈ tableSubs lay es, subOk t := by
  intro t ht
  rw [tableSubs_eq] at ht
  simp only [List.mem_map] at ht
  obtain ⟨p, hp, rfl⟩ := ht
  have hr : p.1 ∈ runs lay.cut es := mem_zipIdx_fst _ 0 p hp
  obtain ⟨run, k⟩ := p
  apply subOf_subOk lay run k (runs_ne lay.cut es run hr)
  · intro e he; exact h e (runs_mem_sub lay.cut es run hr e he)
  · exact Nat.lt_of_le_of_lt (runs_length_le lay.cut es run hr) hlen

theorem runs_ne_nil (cut : Nat) (es : List XE) (hne : es ≠ []) : runs cut es ≠ [] := by
  intro h
  have := runs_flatten cut es
  rw [h] at this
  exact hne this.symm

theorem tableSubs_ne (lay : RevLay) (es : List XE) (hne : es ≠ []) : tableSubs lay es ≠ [] := by
  intro h
  have hl : (tableSubs lay es).length = (runs lay.cut es).length := by
    rw [tableSubs_eq]; simp
  rw [h] at hl
  exact runs_ne_nil lay.cut es hne (List.eq_nil_of_length_eq_zero hl.symm)

/-! ### the object list of a table -/

theorem infoOf_map_entOf (es : List XE) :
    infoOf (es.map entOf) = (es.filter (·.typ == 1)).map fun e => ObjInfo.inFile e.num e.f3 e.f2 := by
  induction es with
  | nil => rfl
  | cons e t ih =>
    simp only [List.map_cons, infoOf, List.filter_cons]
    cases ht : (e.typ == 1) with
    | true => simp [entOf, ht, ih]
    | false => simp [entOf, ht, ih]

/-! ### permutations and maps -/

theorem perm_of_perm_map {α β : Type} (g : α → β) {l' : List β} {l : List α} (h : l'.Perm (l.map g)) :
    ∃ p : List α, p.Perm l ∧ p.map g = l' := by
  generalize hm : l.map g = m at h
  induction h generalizing l with
  | nil =>
    have : l = [] := by simpa using hm
    subst this
    exact ⟨[], List.Perm.refl _, rfl⟩
  | cons x _ ih =>
    cases l with
    | nil => simp at hm
    | cons a l1 =>
      simp only [List.map_cons, List.cons.injEq] at hm
      obtain ⟨p1, hp1, hp1m⟩ := ih hm.2
      exact ⟨a :: p1, List.Perm.cons a hp1, by simp [hp1m, hm.1]⟩
  | swap x y l0 =>
    cases l with
    | nil => simp at hm
    | cons a l1 =>
      cases l1 with
      | nil => simp at hm
      | cons b l2 =>
        simp only [List.map_cons, List.cons.injEq] at hm
        exact ⟨b :: a :: l2, List.Perm.swap a b l2, by simp [hm.1, hm.2.1, hm.2.2]⟩
  | trans _ _ ih1 ih2 =>
    obtain ⟨p2, hp2, hp2m⟩ := ih2 hm
    obtain ⟨p1, hp1, hp1m⟩ := ih1 hp2m
    exact ⟨p1, hp1.trans hp2, hp1m⟩

end Parsley.LoaderE2E
