/-
  C03 - the generator link (Lemmas/LoaderE2ERender.lean) WITHOUT the exclusion of stream objects whose /Length is a
  reference, for one revision with a classic cross-reference table.

  `DObj.lenRef = some h` makes the encoder write `/Length h 0 R` into the stream dictionary; the data length is then
  held by another object of the revision, `h 0 obj <length> endobj`, written BEFORE OR AFTER the stream.  Such a piece
  does not read outright (`Piece.Reads`): it reads where the holder is bound to the data length and asks for more
  context where it is not (`Piece.ReadsDep`, the second pass of `parse_objects`).  The layout predicate for that is
  `ClassicFile.WFfwd f D root dep` and the end-to-end theorem is `load_classic_fwd` (Lemmas/LoaderE2E.lean).

    AnyObj o                 `SimpleObj o` OR a stream object with `lenRef = some h` (same conditions on the dictionary
                             as written: in the encoder's domain, depth at most 50, values in canonical form)
    AnyRev r                 `SimpleRev r` with `AnyObj` objects and the holder condition: for every such stream object
                             the revision has an object numbered `h`, generation 0, whose value is the data length
    depOf r                  the dependency map of the layout, read off the revision (keyed by the object number:
                             numbers are distinct in an `AnyRev`)
    pieceOf_readsDep         the written stream object with a referenced /Length is a dependent piece
    classicOf_wf0            the part of `classicOf_wf` that does not depend on how the objects read (garbage, table,
                             trailer, tail, identifiers, table = objects), from the number bounds only
    classicOf_wffwd          `(classicOf ..).WFfwd .. (depOf r)`
    render_is_classic_fwd    THE LINK: the rendered file is the byte string of a `WFfwd` layout

  The shape lemmas of LoaderE2ERender.lean (`renderObj_piece`, `pieceOf_num`, `pieceOf_gen`, `renderObjs_body`,
  `usesOf_eq`, `pieces_nums`, `classicOf_bytes`) are re-proved here from the number bounds alone (suffix `B`): their
  proofs never used more of `SimpleObj`.
-/
import Parsley.Lemmas.LoaderE2ERender
namespace Parsley.LoaderE2E
open Parsley Parsley.Prim Parsley.Obj Parsley.Indirect Parsley.Loader Parsley.C02 Parsley.Spelling Parsley.DocSpec
open Parsley.XrefSpec Parsley.C13

/-! ## objects -/

/-- a stream object whose /Length is the reference `h 0 R`: padding, number bounds, and the dictionary AS WRITTEN
    (the given entries with `/Length h 0 R` inserted) in the encoder's domain, exactly as in the stream alternative
    of `SimpleObj` -/
def FwdObj (o : DObj) : Prop :=
  WsRun o.pad ∧ o.num ≤ i64Max ∧ o.gen ≤ i64Max ∧
    ∃ entries data h, o.body = .stm entries data ∧ o.lenRef = some h ∧
      wfDeep (.dict (streamEntries o entries data.length)) = true ∧
      Obj.depth (.dict (streamEntries o entries data.length)) ≤ 50 ∧ ValsCanon (streamEntries o entries data.length)

/-- the objects the link covers now: plain values of any shape, stream objects with a direct /Length (`SimpleObj`),
    stream objects with a referenced /Length (`FwdObj`) -/
def AnyObj (o : DObj) : Prop := SimpleObj o ∨ FwdObj o

theorem AnyObj.num_le {o : DObj} (h : AnyObj o) : o.num ≤ i64Max := by
  rcases h with h | h
  · exact h.2.1
  · exact h.2.1

theorem AnyObj.gen_le {o : DObj} (h : AnyObj o) : o.gen ≤ i64Max := by
  rcases h with h | h
  · exact h.2.2.1
  · exact h.2.2.1

/-- the number bounds, which is all the shape lemmas need -/
def Bnd (o : DObj) : Prop := o.num ≤ i64Max ∧ o.gen ≤ i64Max

theorem AnyObj.bnd {o : DObj} (h : AnyObj o) : Bnd o := ⟨h.num_le, h.gen_le⟩
theorem SimpleObj.bnd {o : DObj} (h : SimpleObj o) : Bnd o := ⟨h.2.1, h.2.2.1⟩

/-! ## the shape lemmas from the bounds -/

theorem renderObj_pieceB (o : DObj) (pos : Nat) :
    renderObj o pos = (preOf o ++ ((pieceOf o).bytes ++ [10]), pos + (preOf o).length,
      ((pieceOf o).val (pos + (preOf o).length)).val) := by
  cases hb : o.body with
  | val c s =>
    rw [renderObj_val o pos c s hb, pieceOf_val_eq o c s hb]
    unfold preOf WObj.piece
    cases hp : o.ofsAtPad
    · simp
      rfl
    · simp [wobjOf_pad]
      rfl
  | stm entries data =>
    rw [renderObj_stm o pos entries data hb, pieceOf_stm_eq o entries data hb]
    unfold preOf WStm.piece
    cases hp : o.ofsAtPad
    · simp
    · simp only [if_true, List.nil_append, List.length_nil, Nat.add_zero, wstmOf_pad, wstmOf_val_pad]
      simp

theorem pieceOf_numB (o : DObj) (h : Bnd o) : (pieceOf o).num = o.num := by
  cases hb : o.body with
  | val c s => rw [pieceOf_val_eq o c s hb]; exact wobjOf_num o _ _ _ h.1
  | stm entries data => rw [pieceOf_stm_eq o entries data hb]; exact wstmOf_num o _ _ _ h.1

theorem pieceOf_genB (o : DObj) (h : Bnd o) : (pieceOf o).gen = o.gen := by
  cases hb : o.body with
  | val c s => rw [pieceOf_val_eq o c s hb]; exact wobjOf_gen o _ _ _ h.2
  | stm entries data => rw [pieceOf_stm_eq o entries data hb]; exact wstmOf_gen o _ _ _ h.2

theorem renderObjs_bodyB : ∀ (objs : List DObj) (pos : Nat), (∀ o ∈ objs, Bnd o) →
    renderObjs objs pos = (nextPre objs ++ bodyBytes (placedOf objs),
      (place (placedOf objs) (pos + (nextPre objs).length)).map (fun q => (q.1.num, q.1.gen, q.2)),
      (place (placedOf objs) (pos + (nextPre objs).length)).map (fun q => ((q.1.num, q.1.gen), (q.1.val q.2).val)))
  | [], pos, _ => by simp [renderObjs, nextPre, placedOf, bodyBytes, place]
  | o :: t, pos, h => by
    have ho := h o List.mem_cons_self
    have ih := renderObjs_bodyB t (pos + (preOf o ++ ((pieceOf o).bytes ++ [10])).length) (fun x hx => h x (List.mem_cons_of_mem _ hx))
    unfold renderObjs
    rw [renderObj_pieceB o pos]
    simp only [ih]
    have hpos : pos + (preOf o ++ ((pieceOf o).bytes ++ [10])).length + (nextPre t).length =
        pos + (preOf o).length + ((pieceOf o).bytes.length + ([10] ++ nextPre t).length) := by
      simp only [List.length_append, List.length_cons, List.length_nil]; omega
    rw [hpos]
    have e1 : nextPre (o :: t) = preOf o := rfl
    have e2 : placedOf (o :: t) = ⟨pieceOf o, [10] ++ nextPre t⟩ :: placedOf t := rfl
    rw [e1, e2]
    simp only [bodyBytes, place, List.map_cons, pieceOf_numB o ho, pieceOf_genB o ho]
    simp only [List.append_assoc]

theorem usesOf_eqB (r : Rev) (pos : Nat) (h : ∀ o ∈ r.objs, Bnd o) :
    usesOf r pos = (place (placedOf r.objs) (pos + (nextPre r.objs).length)).map xeOf := by
  unfold usesOf
  rw [renderObjs_bodyB r.objs pos h, List.map_map]
  rfl

theorem pieces_numsB (objs : List DObj) (p : Nat) (h : ∀ o ∈ objs, Bnd o) :
    (place (placedOf objs) p).map (fun q => q.1.num) = objs.map DObj.num := by
  have : (place (placedOf objs) p).map (fun q => q.1.num) = ((place (placedOf objs) p).map Prod.fst).map Piece.num := by
    rw [List.map_map]; rfl
  rw [this, place_fst, List.map_map]
  apply List.map_congr_left
  intro o ho
  exact pieceOf_numB o (h o ho)

/-! ## the revision -/

/-- `SimpleRev` with the bounds in the place of `SimpleObj`: what the object-independent part of the layout needs -/
structure BaseRev (r : Rev) : Prop where
  kind : r.lay.kind = 0
  swap : r.lay.swap = none
  relabel : r.lay.relabel = none
  bnds : ∀ o ∈ r.objs, Bnd o
  objsNe : r.objs ≠ []
  gens : ∀ o ∈ r.objs, o.gen ≤ 65535
  freeGens : ∀ f ∈ r.frees, f.2 ≤ 65535
  numsNodup : (r.objs.map DObj.num ++ ((if r.zero then [0] else []) ++ r.frees.map Prod.fst)).Nodup
  numsFit : ∀ n ∈ r.objs.map DObj.num ++ (r.members.map Prod.fst ++ (r.frees.map Prod.fst ++ [r.lay.xnum])), n < i64Max
  count : r.objs.length + r.frees.length + 1 < 2 ^ 63
  rootFit : r.root.1 ≤ i64Max ∧ r.root.2 ≤ i64Max

theorem SimpleRev.base {r : Rev} (h : SimpleRev r) : BaseRev r :=
  ⟨h.kind, h.swap, h.relabel, fun o ho => (h.objs o ho).bnd, h.objsNe, h.gens, h.freeGens, h.numsNodup, h.numsFit, h.count,
    h.rootFit⟩

/-- the holder condition: every stream object of the list with `lenRef = some h` has its length in an object of the
    list numbered `h`, generation 0, a plain integer (before or after the stream) -/
def HoldersIn (objs : List DObj) : Prop :=
  ∀ o ∈ objs, ∀ entries data h, o.body = .stm entries data → o.lenRef = some h →
    ∃ o' ∈ objs, o'.num = h ∧ o'.gen = 0 ∧ o'.body = .val (.int data.length) (.int data.length)

/-- the restriction of the link now: `SimpleRev` with `AnyObj` objects, and the holders present -/
structure AnyRev (r : Rev) : Prop where
  kind : r.lay.kind = 0
  swap : r.lay.swap = none
  relabel : r.lay.relabel = none
  objs : ∀ o ∈ r.objs, AnyObj o
  holders : HoldersIn r.objs
  objsNe : r.objs ≠ []
  gens : ∀ o ∈ r.objs, o.gen ≤ 65535
  freeGens : ∀ f ∈ r.frees, f.2 ≤ 65535
  numsNodup : (r.objs.map DObj.num ++ ((if r.zero then [0] else []) ++ r.frees.map Prod.fst)).Nodup
  numsFit : ∀ n ∈ r.objs.map DObj.num ++ (r.members.map Prod.fst ++ (r.frees.map Prod.fst ++ [r.lay.xnum])), n < i64Max
  count : r.objs.length + r.frees.length + 1 < 2 ^ 63
  rootFit : r.root.1 ≤ i64Max ∧ r.root.2 ≤ i64Max

theorem AnyRev.base {r : Rev} (h : AnyRev r) : BaseRev r :=
  ⟨h.kind, h.swap, h.relabel, fun o ho => (h.objs o ho).bnd, h.objsNe, h.gens, h.freeGens, h.numsNodup, h.numsFit, h.count,
    h.rootFit⟩

/-- a `SimpleRev` is an `AnyRev` (no stream object has a referenced /Length) -/
theorem SimpleRev.any {r : Rev} (h : SimpleRev r) : AnyRev r where
  kind := h.kind
  swap := h.swap
  relabel := h.relabel
  objs := fun o ho => Or.inl (h.objs o ho)
  holders := by
    intro o ho entries data hh hb hl
    obtain ⟨_, _, _, ⟨s, hb', _⟩ | ⟨e, d, _, hl', _⟩⟩ := h.objs o ho
    · rw [hb] at hb'; cases hb'
    · rw [hl] at hl'; cases hl'
  objsNe := h.objsNe
  gens := h.gens
  freeGens := h.freeGens
  numsNodup := h.numsNodup
  numsFit := h.numsFit
  count := h.count
  rootFit := h.rootFit

/-! ## the dependency map -/

/-- what an object depends on: a stream object with `lenRef = some h` on `(h, 0)` holding the data length -/
def depObj (o : DObj) : Option (Indirect.ObjId × Int) :=
  match o.body, o.lenRef with
  | .stm _ data, some h => some ((h, 0), (data.length : Int))
  | _, _ => none

/-- the dependency map of the objects `objs`, keyed by the piece's object number -/
def depIn (objs : List DObj) (p : Piece) : Option (Indirect.ObjId × Int) :=
  match objs.find? (fun o => o.num == p.num) with
  | some o => depObj o
  | none => none

/-- the dependency map of a revision's layout -/
def depOf (r : Rev) : Piece → Option (Indirect.ObjId × Int) := depIn r.objs

theorem find_num : ∀ (objs : List DObj), (objs.map DObj.num).Nodup → ∀ o ∈ objs,
    objs.find? (fun x => x.num == o.num) = some o
  | [], _, _, h => by cases h
  | x :: t, hnd, o, h => by
    simp only [List.map_cons, List.nodup_cons] at hnd
    simp only [List.mem_cons] at h
    rcases h with rfl | h
    · simp
    · have hne : x.num ≠ o.num := fun e => hnd.1 (e ▸ List.mem_map_of_mem h)
      rw [List.find?_cons_of_neg (by simpa using hne)]
      exact find_num t hnd.2 o h

theorem depIn_pieceOf (objs : List DObj) (hnd : (objs.map DObj.num).Nodup) (o : DObj) (ho : o ∈ objs) (hb : Bnd o) :
    depIn objs (pieceOf o) = depObj o := by
  unfold depIn
  rw [pieceOf_numB o hb, find_num objs hnd o ho]

theorem depObj_simple {o : DObj} (h : SimpleObj o) : depObj o = none := by
  obtain ⟨_, _, _, ⟨s, hb, _⟩ | ⟨e, d, hb, hl, _⟩⟩ := h
  · unfold depObj; rw [hb]
  · unfold depObj; rw [hb, hl]

theorem depObj_val {o : DObj} (c s : Obj) (hb : o.body = .val c s) : depObj o = none := by
  unfold depObj; rw [hb]

theorem depObj_fwd {o : DObj} (entries : List (Bytes × Obj)) (data : Bytes) (h : Nat) (hb : o.body = .stm entries data)
    (hl : o.lenRef = some h) : depObj o = some ((h, 0), (data.length : Int)) := by
  unfold depObj; rw [hb, hl]

/-! ## reading -/

/-- /Length is among the written entries, once, with the reference to the holder -/
theorem streamEntries_lengthRef (o : DObj) (entries : List (Bytes × Obj)) (n h : Nat) (hl : o.lenRef = some h)
    (hnd : ((streamEntries o entries n).map Prod.fst).Nodup) :
    dictGet keyLength (DocSpec.canonKvs (streamEntries o entries n)) = some (.ref h 0) := by
  apply dictGet_canon_mem _ hnd
  unfold streamEntries insertAt
  rw [hl, kLength_eq]
  simp

/-- a stream object with a referenced /Length, as written, is a dependent piece: it reads where `(h, 0)` is bound to the
    data length -/
theorem pieceOf_readsDep (o : DObj) (entries : List (Bytes × Obj)) (data : Bytes) (h : Nat) (hpad : WsRun o.pad)
    (hn : o.num ≤ i64Max) (hg : o.gen ≤ i64Max) (hb : o.body = .stm entries data) (hl : o.lenRef = some h)
    (hwf : wfDeep (.dict (streamEntries o entries data.length)) = true)
    (hd : Obj.depth (.dict (streamEntries o entries data.length)) ≤ 50)
    (hc : ValsCanon (streamEntries o entries data.length)) : (pieceOf o).ReadsDep (h, 0) (data.length : Int) := by
  rw [pieceOf_stm_eq o entries data hb]
  exact WStm.piece_readsDep _ (wstmOf_ok o entries data _ hpad hn hg hwf hd hc) (h, 0)
    (streamEntries_lengthRef o entries data.length h hl (wfDeepKvs_nodup _ (by simpa [wfDeep] using hwf)))

/-- every covered object reads as its dependency says -/
theorem pieceOf_readsAny (o : DObj) (h : AnyObj o) :
    match depObj o with
    | none => (pieceOf o).Reads
    | some (hh, len) => (pieceOf o).ReadsDep hh len := by
  rcases h with h | ⟨hpad, hn, hg, entries, data, hh, hb, hl, hwf, hd, hc⟩
  · rw [depObj_simple h]
    exact pieceOf_reads o h
  · rw [depObj_fwd entries data hh hb hl]
    exact pieceOf_readsDep o entries data hh hpad hn hg hb hl hwf hd hc

/-! ## composition -/

theorem classicOf_bytesB (garbage : Bytes) (binary : Bool) (r : Rev) (h : BaseRev r) :
    renderHistory garbage binary [(r, .auto)] =
      ((classicOf garbage binary r).bytes, [(header binary).length + (renderObjs r.objs (header binary).length).1.length],
       (header binary).length + ((renderRev r (header binary).length none).1 ++ []).length,
       [⟨(renderObjs r.objs (header binary).length).2.2, r.frees.map (·.1), r.root⟩]) := by
  simp only [renderHistory, renderRevs, List.getLast?_nil, List.nil_append]
  rw [renderRev_classic r _ h.kind h.swap h.relabel]
  simp only [List.append_nil]
  congr 1
  rw [renderObjs_bodyB r.objs _ h.bnds, tailBytes_eq, bs_trailer, header_eq]
  simp only [ClassicFile.bytes, ClassicFile.view, ClassicFile.mid, ClassicFile.hdr, classicOf, List.append_assoc]
  rw [renderObjs_bodyB r.objs _ h.bnds, header_eq]

/-- **`classicOf_wf0`**: everything of the layout's well-formedness that does not depend on how the objects read:
    garbage, table syntax, trailer, tail (`WF0`), distinct identifiers, the table lists exactly the objects -/
theorem classicOf_wf0 (garbage : Bytes) (binary : Bool) (r : Rev) (hg : NoMagic garbage) (h : BaseRev r)
    (hlen : (classicOf garbage binary r).bytes.length < 10 ^ 10) :
    (classicOf garbage binary r).WF0 (trailerDict (sizeOf r (header binary).length) r.root) r.root ∧
    ((classicOf garbage binary r).objs.map fun q => (q.1.num, q.1.gen)).Nodup ∧
    (∃ perm : List (Piece × Nat), perm.Perm (classicOf garbage binary r).objs ∧
      infoOf (tableEnts (classicOf garbage binary r).subs) = perm.map fun q => ObjInfo.inFile q.1.num q.1.gen q.2) := by
  have hU := usesOf_eqB r (header binary).length h.bnds
  have hO := classicOf_objs garbage binary r
  rw [← hO] at hU
  generalize hf : classicOf garbage binary r = f at *
  have hbody : f.body = placedOf r.objs := by rw [← hf]; rfl
  have hsubs : f.subs = tableSubs r.lay (sortXE (usesOf r (header binary).length ++ freesOf r)) := by rw [← hf]; rfl
  have hperm := sortXE_perm (usesOf r (header binary).length ++ freesOf r)
  -- sizes
  have hp1 : f.hdr.length + (bodyBytes f.body).length ≤ f.bytes.length := by
    simp only [ClassicFile.bytes, ClassicFile.view, ClassicFile.mid, List.length_append]; omega
  have hofs : ∀ q ∈ f.objs, q.2 < 10 ^ 10 := by
    intro q hq
    have := place_bound f.body f.hdr.length q hq
    omega
  have hpos : (header binary).length + (renderObjs r.objs (header binary).length).1.length = f.hdr.length + (bodyBytes f.body).length := by
    rw [renderObjs_bodyB r.objs _ h.bnds, hbody, ← hf]
    simp only [ClassicFile.hdr, classicOf, header_eq, List.length_append]
    omega
  have hds : f.ds = natDigits (f.hdr.length + (bodyBytes f.body).length) := by
    rw [← hpos, ← hf]; rfl
  have hfit : f.hdr.length + (bodyBytes f.body).length ≤ i64Max := by
    have : (10 : Nat) ^ 10 ≤ i64Max := by decide
    omega
  obtain ⟨d1, d2, d3⟩ := natDigits_spec _ hfit
  have hsize : sizeOf r (header binary).length ≤ i64Max := by
    unfold sizeOf
    have : maxOf ((usesOf r (header binary).length ++ memsOf r ++ freesOf r).map (·.num) ++ [r.lay.xnum]) ≤ i64Max - 1 := by
      apply maxOf_le
      intro x hx
      have hnf := h.numsFit
      simp only [List.map_append, List.append_assoc, hU, List.map_map, freesOf_nums] at hx
      have e1 : (f.objs.map ((fun x => x.num) ∘ xeOf)) = r.objs.map DObj.num := by
        rw [hO]; exact pieces_numsB r.objs _ h.bnds
      rw [e1] at hx
      simp only [List.mem_append] at hx hnf
      have hi : 0 < i64Max := by decide
      rcases hx with hx | hx | hx | hx | hx
      · have := hnf x (Or.inl hx); omega
      · have : x ∈ r.members.map Prod.fst := by
          simp only [memsOf, List.map_map] at hx
          exact hx
        have := hnf x (Or.inr (Or.inl this)); omega
      · cases hz : r.zero <;> simp [hz] at hx
        omega
      · have := hnf x (Or.inr (Or.inr (Or.inl hx))); omega
      · have := hnf x (Or.inr (Or.inr (Or.inr hx))); omega
    have hi : 0 < i64Max := by decide
    omega
  -- the entries of the table
  have hxe : ∀ e ∈ sortXE (usesOf r (header binary).length ++ freesOf r), e.num < 2 ^ 63 ∧ e.f2 < 10 ^ 10 ∧ e.f3 ≤ 65535 := by
    intro e he
    have he' := hperm.mem_iff.mp he
    have hnf := h.numsFit
    simp only [List.mem_append] at he' hnf
    rcases he' with he' | he'
    · rw [hU] at he'
      obtain ⟨q, hq, rfl⟩ := List.mem_map.mp he'
      have hq' := hq
      rw [hO] at hq'
      have hm : q.1 ∈ r.objs.map pieceOf := by
        rw [← place_fst r.objs ((header binary).length + (nextPre r.objs).length)]
        exact List.mem_map_of_mem hq'
      obtain ⟨o, ho, hoq⟩ := List.mem_map.mp hm
      have hso := h.bnds o ho
      refine ⟨?_, hofs q hq, ?_⟩
      · show q.1.num < 2 ^ 63
        rw [← hoq, pieceOf_numB o hso]
        have := hso.1
        unfold i64Max at this; omega
      · show q.1.gen ≤ 65535
        rw [← hoq, pieceOf_genB o hso]
        exact h.gens o ho
    · unfold freesOf at he'
      simp only [List.mem_append, List.mem_map] at he'
      rcases he' with he' | ⟨fr, hfr, rfl⟩
      · cases hz : r.zero <;> simp [hz] at he'
        subst he'
        exact ⟨by decide, by decide, by decide⟩
      · refine ⟨?_, (by decide : (0 : Nat) < 10 ^ 10), h.freeGens fr hfr⟩
        have := hnf fr.1 (Or.inr (Or.inr (Or.inl (List.mem_map_of_mem hfr))))
        show fr.1 < 2 ^ 63
        unfold i64Max at this; omega
  have hcount : (sortXE (usesOf r (header binary).length ++ freesOf r)).length < 2 ^ 63 := by
    rw [hperm.length_eq, List.length_append, hU, List.length_map]
    have : f.objs.length = r.objs.length := by
      have := congrArg List.length (place_fst r.objs ((header binary).length + (nextPre r.objs).length))
      rw [← hO] at this
      simpa using this
    rw [this]
    have : (freesOf r).length ≤ r.frees.length + 1 := by
      unfold freesOf
      cases r.zero <;> simp
    have := h.count
    omega
  have hne : sortXE (usesOf r (header binary).length ++ freesOf r) ≠ [] := by
    intro he
    have := hperm.length_eq
    rw [he, List.length_append, hU, List.length_map] at this
    have hl : f.objs.length = r.objs.length := by
      have := congrArg List.length (place_fst r.objs ((header binary).length + (nextPre r.objs).length))
      rw [← hO] at this
      simpa using this
    have : r.objs.length = 0 := by simp at this; omega
    exact h.objsNe (List.eq_nil_of_length_eq_zero this)
  have hnumsU : (usesOf r (header binary).length).map (·.num) = r.objs.map DObj.num := by
    rw [hU, List.map_map, hO]
    exact pieces_numsB r.objs _ h.bnds
  have hte : tableEnts f.subs = (sortXE (usesOf r (header binary).length ++ freesOf r)).map entOf := by
    rw [hsubs, tableEnts_tableSubs]
  refine ⟨?_, ?_, ?_⟩
  · exact {
      noMagic := by
        have : f.bytes = f.garbage ++ f.view := rfl
        have hgb : f.garbage = garbage := by rw [← hf]; rfl
        rw [this, hgb]
        intro k hk
        have hv : f.view = kwPdf ++ (f.hdrRest ++ (f.mid ++ (kwStartxref ++ (f.wsx ++ (f.ds ++ (f.e ++ (kwEOF ++ f.trail))))))) := by
          simp [ClassicFile.view, ClassicFile.hdr]
        rw [List.drop_append_of_le_length (by omega), hv, ← List.append_assoc,
          isPrefixOf_append_of_le _ _ _ (by simp [kwPdf])]
        exact hg k hk
      subsNe := by rw [hsubs]; exact tableSubs_ne _ _ hne
      subsOk := by rw [hsubs]; exact tableSubs_subOk _ _ hxe hcount
      numsNodup := by
        rw [hte, List.map_map]
        have : (sortXE (usesOf r (header binary).length ++ freesOf r)).map ((fun x => x.obj) ∘ entOf) =
            (sortXE (usesOf r (header binary).length ++ freesOf r)).map (·.num) := rfl
        rw [this]
        apply (hperm.map _).nodup_iff.mpr
        rw [List.map_append, hnumsU, freesOf_nums]
        exact h.numsNodup
      wt := by rw [← hf]; exact wsOpt_run _
      trailer := ⟨2, by rw [← hf]; exact trailer_spells _ _ _ _ hsize h.rootFit.1 h.rootFit.2, by decide⟩
      root := trailerDict_root _ _
      noPrev := trailerDict_noPrev _ _
      noXRefStm := trailerDict_noXRefStm _ _
      wsx := by rw [← hf]; exact (wsReq_run _).1
      wsxNe := by rw [← hf]; exact (wsReq_run _).2
      wsxNoS := by rw [← hf]; exact wsReq_no_s _
      dsNe := by rw [hds]; exact d1
      dsDig := by rw [hds]; exact d2
      startxref := by rw [hds]; exact d3
      ofsFits := by rw [hds, d3]; exact hfit
      e := by rw [← hf]; show ∀ y ∈ ([10] : Bytes), isWsEol y = true; decide
      trail := by rw [← hf]; exact noLaterEOF_of_no_percent [10] (by decide) }
  · apply nodup_of_map Prod.fst
    rw [List.map_map]
    have : f.objs.map (Prod.fst ∘ fun q => (q.1.num, q.1.gen)) = r.objs.map DObj.num := by
      rw [hO]; exact pieces_numsB r.objs _ h.bnds
    rw [this]
    exact (List.nodup_append.mp h.numsNodup).1
  · have hfil : ((sortXE (usesOf r (header binary).length ++ freesOf r)).filter (·.typ == 1)).Perm (f.objs.map xeOf) := by
      have := hperm.filter (·.typ == 1)
      rw [List.filter_append, freesOf_filter, List.append_nil] at this
      have e : (usesOf r (header binary).length).filter (·.typ == 1) = f.objs.map xeOf := by rw [hU, uses_filter]
      rw [e] at this
      exact this
    obtain ⟨perm, hp, hm⟩ := perm_of_perm_map xeOf hfil
    refine ⟨perm, hp, ?_⟩
    rw [hte, infoOf_map_entOf, ← hm, List.map_map]
    rfl

/-- the layout's objects that are the revision's objects -/
theorem mem_classicOf_objs (garbage : Bytes) (binary : Bool) (r : Rev) (q : Piece × Nat)
    (hq : q ∈ (classicOf garbage binary r).objs) : ∃ o ∈ r.objs, q.1 = pieceOf o := by
  rw [classicOf_objs] at hq
  have hm : q.1 ∈ r.objs.map pieceOf := by
    rw [← place_fst r.objs ((header binary).length + (nextPre r.objs).length)]
    exact List.mem_map_of_mem hq
  obtain ⟨o, ho, e⟩ := List.mem_map.mp hm
  exact ⟨o, ho, e.symm⟩

/-- **`classicOf_wffwd`**: the layout of the rendered file is well formed in the sense that allows referenced lengths -/
theorem classicOf_wffwd (garbage : Bytes) (binary : Bool) (r : Rev) (hg : NoMagic garbage) (h : AnyRev r)
    (hlen : (classicOf garbage binary r).bytes.length < 10 ^ 10) :
    (classicOf garbage binary r).WFfwd (trailerDict (sizeOf r (header binary).length) r.root) r.root (depOf r) := by
  obtain ⟨h0, hids, htab⟩ := classicOf_wf0 garbage binary r hg h.base hlen
  have hnd : (r.objs.map DObj.num).Nodup := (List.nodup_append.mp h.numsNodup).1
  have hdep : ∀ o ∈ r.objs, depOf r (pieceOf o) = depObj o := fun o ho =>
    depIn_pieceOf r.objs hnd o ho (h.objs o ho).bnd
  exact {
    toWF0 := h0
    reads := by
      intro q hq
      obtain ⟨o, ho, e⟩ := mem_placedOf r.objs q hq
      rw [e, hdep o ho]
      exact pieceOf_readsAny o (h.objs o ho)
    holders := by
      intro q hq hh len hd
      obtain ⟨o, ho, e⟩ := mem_classicOf_objs garbage binary r q hq
      rw [e, hdep o ho] at hd
      rcases h.objs o ho with hs | ⟨_, _, _, entries, data, h', hb, hl, _⟩
      · rw [depObj_simple hs] at hd; cases hd
      · rw [depObj_fwd entries data h' hb hl] at hd
        cases hd
        obtain ⟨o', ho', hn', hg', hb'⟩ := h.holders o ho entries data h' hb hl
        obtain ⟨i, hi⟩ := mem_place_placedOf r.objs ((header binary).length + (nextPre r.objs).length) o' ho'
        refine ⟨(pieceOf o', i), by rw [classicOf_objs]; exact hi, ?_, ?_, ?_⟩
        · show depOf r (pieceOf o') = none
          rw [hdep o' ho']
          exact depObj_val _ _ hb'
        · show ((pieceOf o').num, (pieceOf o').gen) = (h', 0)
          rw [pieceOf_numB o' (h.objs o' ho').bnd, pieceOf_genB o' (h.objs o' ho').bnd, hn', hg']
        · show ((pieceOf o').val i).val = .int (data.length : Int)
          rw [pieceOf_val o' i (by simp [isVal, hb'])]
          simp [valOf, hb']
    idsNodup := hids
    tableObjs := htab }

/-- **the link, referenced lengths included**: the file rendered for one classic revision whose objects are plain
    values, stream objects with a direct /Length and stream objects whose /Length is a reference to a holder written
    before or after them is (the bytes of) a `ClassicFile` well formed in the sense of `load_classic_fwd`, whose
    objects are exactly what the revision said it wrote -/
theorem render_is_classic_fwd (garbage : Bytes) (binary : Bool) (r : Rev) (hg : NoMagic garbage) (h : AnyRev r)
    (hlen : (renderHistory garbage binary [(r, .auto)]).1.length < 10 ^ 10) :
    ∃ (f : ClassicFile) (D : List (Bytes × Obj)),
      f.bytes = (renderHistory garbage binary [(r, .auto)]).1 ∧ f.WFfwd D r.root (depOf r) ∧
      (renderHistory garbage binary [(r, .auto)]).2.2.2 =
        [⟨f.objs.map (fun q => ((q.1.num, q.1.gen), (q.1.val q.2).val)), r.frees.map Prod.fst, r.root⟩] ∧
      f.objs.map Prod.fst = r.objs.map pieceOf := by
  have hb := classicOf_bytesB garbage binary r h.base
  rw [hb] at hlen ⊢
  refine ⟨classicOf garbage binary r, _, rfl, classicOf_wffwd garbage binary r hg h hlen, ?_, ?_⟩
  · show [_] = [_]
    rw [classicOf_objs, renderObjs_bodyB r.objs _ h.base.bnds]
  · rw [classicOf_objs]
    exact place_fst r.objs _

end Parsley.LoaderE2E
