/-
  C03 - the generator link for cross-reference stream revisions (Lemmas/LoaderE2ERenderX.lean) WITHOUT the exclusion
  of stream objects whose /Length is a reference (see Lemmas/LoaderE2ERenderFwd.lean for the classic-table version and
  the vocabulary: `AnyObj`, `HoldersIn`, `depOf`).

    AnyRevX r                  `SimpleRevX r` with `AnyObj` objects and the holders present
    xfileOf_base               the part of `xfileOf_wf` that does not depend on how the objects read
                               (`XrefStreamFile.WF0`, the stream is stored, identifiers, rows = objects, size)
    xfileOf_wfall              `(xfileOf ..).WFall .. r.root [] (depOf r)` (no object streams: `ws = []`)
    render_is_xrefstream_fwd   THE LINK for kind 1
-/
import Parsley.Lemmas.LoaderE2ERenderFwd
import Parsley.Lemmas.LoaderE2ERenderX
import Parsley.Lemmas.LoaderE2EFwdFile
namespace Parsley.LoaderE2E
open Parsley Parsley.Prim Parsley.Obj Parsley.Indirect Parsley.Loader Parsley.C02 Parsley.Spelling Parsley.DocSpec
open Parsley.XrefSpec Parsley.C13 Parsley.LoaderObjStm

/-- `SimpleRevX` with the number bounds in the place of `SimpleObj` -/
structure BaseRevX (r : Rev) : Prop where
  kind : r.lay.kind = 1
  swap : r.lay.swap = none
  relabel : r.lay.relabel = none
  noMembers : r.members = []
  bnds : ∀ o ∈ r.objs, Bnd o
  gens : ∀ o ∈ r.objs, o.gen ≤ 65535
  freeGens : ∀ f ∈ r.frees, f.2 ≤ 65535
  numsNodup : (r.objs.map DObj.num ++ (((if r.zero then [0] else []) ++ r.frees.map Prod.fst) ++ [r.lay.xnum])).Nodup
  numsFit : ∀ n ∈ r.objs.map DObj.num ++ (r.frees.map Prod.fst ++ [r.lay.xnum]), n < i64Max
  count : r.objs.length + r.frees.length + 2 < 2 ^ 63
  rootFit : r.root.1 ≤ i64Max ∧ r.root.2 ≤ i64Max
  w0 : r.lay.w0 ≤ 4

theorem SimpleRevX.base {r : Rev} (h : SimpleRevX r) : BaseRevX r :=
  ⟨h.kind, h.swap, h.relabel, h.noMembers, fun o ho => (h.objs o ho).bnd, h.gens, h.freeGens, h.numsNodup, h.numsFit,
    h.count, h.rootFit, h.w0⟩

/-- the restriction of the kind-1 link now: `SimpleRevX` with `AnyObj` objects, and the holders present -/
structure AnyRevX (r : Rev) : Prop where
  kind : r.lay.kind = 1
  swap : r.lay.swap = none
  relabel : r.lay.relabel = none
  noMembers : r.members = []
  objs : ∀ o ∈ r.objs, AnyObj o
  holders : HoldersIn r.objs
  gens : ∀ o ∈ r.objs, o.gen ≤ 65535
  freeGens : ∀ f ∈ r.frees, f.2 ≤ 65535
  /-- object numbers are pairwise distinct (written objects, object 0 if listed, free entries, the stream object) -/
  numsNodup : (r.objs.map DObj.num ++ (((if r.zero then [0] else []) ++ r.frees.map Prod.fst) ++ [r.lay.xnum])).Nodup
  numsFit : ∀ n ∈ r.objs.map DObj.num ++ (r.frees.map Prod.fst ++ [r.lay.xnum]), n < i64Max
  count : r.objs.length + r.frees.length + 2 < 2 ^ 63
  rootFit : r.root.1 ≤ i64Max ∧ r.root.2 ≤ i64Max
  w0 : r.lay.w0 ≤ 4

theorem AnyRevX.base {r : Rev} (h : AnyRevX r) : BaseRevX r :=
  ⟨h.kind, h.swap, h.relabel, h.noMembers, fun o ho => (h.objs o ho).bnd, h.gens, h.freeGens, h.numsNodup, h.numsFit,
    h.count, h.rootFit, h.w0⟩

theorem SimpleRevX.any {r : Rev} (h : SimpleRevX r) : AnyRevX r where
  kind := h.kind
  swap := h.swap
  relabel := h.relabel
  noMembers := h.noMembers
  objs := fun o ho => Or.inl (h.objs o ho)
  holders := by
    intro o ho entries data hh hb hl
    obtain ⟨_, _, _, ⟨s, hb', _⟩ | ⟨e, d, _, hl', _⟩⟩ := h.objs o ho
    · rw [hb] at hb'; cases hb'
    · rw [hl] at hl'; cases hl'
  gens := h.gens
  freeGens := h.freeGens
  numsNodup := h.numsNodup
  numsFit := h.numsFit
  count := h.count
  rootFit := h.rootFit
  w0 := h.w0

theorem xfileOf_bytesB (garbage : Bytes) (binary : Bool) (r : Rev) (h : BaseRevX r) :
    (renderHistory garbage binary [(r, .auto)]).1 = (xfileOf garbage binary r).bytes ∧
    (renderHistory garbage binary [(r, .auto)]).2.2.2 =
      [⟨(renderObjs r.objs (header binary).length).2.2 ++
          [((r.lay.xnum, 0), ((xsOf binary r).val ((header binary).length + (renderObjs r.objs (header binary).length).1.length)).val)],
        r.frees.map (·.1), r.root⟩] := by
  simp only [renderHistory, renderRevs, List.getLast?_nil, List.nil_append]
  rw [renderRev_xref r _ h.kind h.swap h.relabel, renderXrefStream_eq, h.noMembers]
  constructor
  · simp only [List.append_nil, XrefStreamFile.bytes, XrefStreamFile.view, XrefStreamFile.mid, XrefStreamFile.hdr,
      XrefStreamFile.body, xfileOf, xsOf, bodyBytes_append, bodyBytes, WStm.piece, tailBytes_eq]
    generalize (header binary).length = p
    rw [renderObjs_bodyB r.objs _ h.bnds, header_eq]
    simp only [List.append_assoc]
  · simp only [List.map_nil, List.append_nil]
    rfl

/-- **`xfileOf_base`**: everything of the layout's well-formedness that does not depend on how the objects read -/
theorem xfileOf_base (garbage : Bytes) (binary : Bool) (r : Rev) (hg : NoMagic garbage) (h : BaseRevX r)
    (hstore : XStoreFits r.lay (xesOf r (header binary).length))
    (hlen : (xfileOf garbage binary r).bytes.length < 2 ^ 32) :
    (xfileOf garbage binary r).WF0 (xsubsOf r.lay.cut (xesOf r (header binary).length))
      (xw0 r.lay (xesOf r (header binary).length)) (xw1 r.lay (xesOf r (header binary).length))
      (xw2 r.lay (xesOf r (header binary).length)) r.root ∧
    Stored (xfileOf garbage binary r).xs.kvs (XrefStreamFile.rowBytes (xsubsOf r.lay.cut (xesOf r (header binary).length))
      (xw0 r.lay (xesOf r (header binary).length)) (xw1 r.lay (xesOf r (header binary).length))
      (xw2 r.lay (xesOf r (header binary).length))) (xfileOf garbage binary r).xs.data ∧
    ((xfileOf garbage binary r).objs.map fun q => (q.1.num, q.1.gen)).Nodup ∧
    (∃ perm : List (Piece × Nat), perm.Perm (xfileOf garbage binary r).objs ∧
      infoOf (streamEnts (xsubsOf r.lay.cut (xesOf r (header binary).length))) =
        perm.map fun q => ObjInfo.inFile q.1.num q.1.gen q.2) := by
  have hU := usesOf_eqB r (header binary).length h.bnds
  have hO := xfileOf_objs garbage binary r
  have hperm : (xesOf r (header binary).length).Perm
      (usesOf r (header binary).length ++ freesOf r ++ [xselfOf r (header binary).length]) := by
    have := sortXE_perm (usesOf r (header binary).length ++ memsOf r ++ freesOf r ++ [xselfOf r (header binary).length])
    rw [memsOf_nil r h.noMembers, List.append_nil] at this
    unfold xesOf
    rw [memsOf_nil r h.noMembers, List.append_nil]
    exact this
  generalize hes : xesOf r (header binary).length = es at *
  generalize hf : xfileOf garbage binary r = f at *
  have hxs : f.xs = xstmOf r.lay es (sizeOf r (header binary).length) r.root := by rw [← hf, ← hes]; rfl
  have hbody1 : f.body1 = placedOf r.objs := by rw [← hf]; rfl
  have hxsOf : xsOf binary r = f.xs := by rw [← hf]; rfl
  rw [hxsOf] at hO
  have hi63 : i64Max = 2 ^ 63 - 1 := rfl
  -- positions and sizes
  have hpos : (header binary).length + (renderObjs r.objs (header binary).length).1.length = f.xofs := by
    rw [renderObjs_bodyB r.objs _ h.bnds, XrefStreamFile.xofs, hbody1, ← hf]
    simp only [XrefStreamFile.hdr, xfileOf, header_eq, List.length_append]
    omega
  have hself : xselfOf r (header binary).length = ⟨r.lay.xnum, 1, f.xofs, 0⟩ := by rw [xselfOf, hpos]
  have hp1 : f.xofs + f.xs.bytes.length ≤ f.bytes.length := by
    simp only [XrefStreamFile.xofs, XrefStreamFile.bytes, XrefStreamFile.view, XrefStreamFile.mid, XrefStreamFile.body,
      bodyBytes_append, bodyBytes, WStm.piece, List.length_append]
    omega
  have hxpos := WStm.bytes_pos f.xs
  have hdl := wstm_data_le f.xs
  have hofs1 : ∀ q ∈ place (placedOf r.objs) ((header binary).length + (nextPre r.objs).length), q.2 < 2 ^ 32 := by
    intro q hq
    have := place_bound (placedOf r.objs) _ q hq
    have e1 : f.hdr.length = (header binary).length + (nextPre r.objs).length := by
      rw [← hf]; simp only [XrefStreamFile.hdr, xfileOf, header_eq, List.length_append]; omega
    have e2 : f.xofs = f.hdr.length + (bodyBytes (placedOf r.objs)).length := by rw [XrefStreamFile.xofs, hbody1]
    omega
  have hds : f.ds = natDigits f.xofs := by rw [← hpos, ← hf]; rfl
  have hfit : f.xofs ≤ i64Max := by rw [hi63]; omega
  obtain ⟨d1, d2, d3⟩ := natDigits_spec _ hfit
  have hnumsU : (usesOf r (header binary).length).map (·.num) = r.objs.map DObj.num := by
    rw [hU, List.map_map]; exact pieces_numsB r.objs _ h.bnds
  have hxnum : r.lay.xnum < i64Max := h.numsFit _ (by simp)
  have hsize : sizeOf r (header binary).length ≤ i64Max := by
    unfold sizeOf
    have : maxOf ((usesOf r (header binary).length ++ memsOf r ++ freesOf r).map (·.num) ++ [r.lay.xnum]) ≤ i64Max - 1 := by
      apply maxOf_le
      intro x hx
      have hnf := h.numsFit
      rw [memsOf_nil r h.noMembers, List.append_nil, List.map_append, hnumsU, freesOf_nums] at hx
      simp only [List.mem_append, List.mem_singleton] at hx hnf
      rcases hx with (hx | hx | hx) | hx
      · have := hnf x (Or.inl hx); omega
      · cases hz : r.zero <;> simp [hz] at hx
        omega
      · have := hnf x (Or.inr (Or.inl hx)); omega
      · have := hnf x (Or.inr (Or.inr hx)); omega
    omega
  -- the rows
  have hrows : ∀ e ∈ es, e.typ ≤ 1 ∧ e.num < 2 ^ 63 ∧ e.f2 < 2 ^ 32 ∧ e.f3 ≤ 65535 := by
    intro e he
    have he' := hperm.mem_iff.mp he
    have hnf := h.numsFit
    simp only [List.mem_append, List.mem_singleton] at he' hnf
    rcases he' with (he' | he') | he'
    · rw [hU] at he'
      obtain ⟨q, hq, rfl⟩ := List.mem_map.mp he'
      have hm : q.1 ∈ r.objs.map pieceOf := by
        rw [← place_fst r.objs ((header binary).length + (nextPre r.objs).length)]
        exact List.mem_map_of_mem hq
      obtain ⟨o, ho, hoq⟩ := List.mem_map.mp hm
      have hso := h.bnds o ho
      refine ⟨Nat.le_refl 1, ?_, hofs1 q hq, ?_⟩
      · show q.1.num < 2 ^ 63
        rw [← hoq, pieceOf_numB o hso]
        have := hso.1
        omega
      · show q.1.gen ≤ 65535
        rw [← hoq, pieceOf_genB o hso]
        exact h.gens o ho
    · unfold freesOf at he'
      simp only [List.mem_append, List.mem_map] at he'
      rcases he' with he' | ⟨fr, hfr, rfl⟩
      · cases hz : r.zero <;> simp [hz] at he'
        subst he'
        exact ⟨by decide, by decide, by decide, by decide⟩
      · refine ⟨Nat.zero_le 1, ?_, (by decide : (0 : Nat) < 2 ^ 32), h.freeGens fr hfr⟩
        have := hnf fr.1 (Or.inr (Or.inl (List.mem_map_of_mem hfr)))
        show fr.1 < 2 ^ 63
        omega
    · rw [he', hself]
      refine ⟨Nat.le_refl 1, ?_, ?_, Nat.zero_le _⟩
      · show r.lay.xnum < 2 ^ 63; omega
      · show f.xofs < 2 ^ 32; omega
  have hO1len : (place (placedOf r.objs) ((header binary).length + (nextPre r.objs).length)).length = r.objs.length := by
    have := congrArg List.length (place_fst r.objs ((header binary).length + (nextPre r.objs).length))
    simpa using this
  have hcount : es.length < 2 ^ 63 := by
    rw [hperm.length_eq]
    simp only [List.length_append, List.length_cons, List.length_nil, hU, List.length_map, hO1len]
    have : (freesOf r).length ≤ r.frees.length + 1 := by
      unfold freesOf
      cases r.zero <;> simp
    have := h.count
    omega
  have hne : es ≠ [] := by
    intro he
    have := hperm.length_eq
    rw [he] at this
    simp at this
  have hidx : ∀ n ∈ xindexOf r.lay.cut es, n ≤ i64Max := by
    intro n hn
    unfold xindexOf at hn
    obtain ⟨run, hrun, hn⟩ := List.mem_flatMap.mp hn
    simp only [List.mem_cons, List.mem_nil_iff, or_false] at hn
    rcases hn with rfl | rfl
    · cases hr : run with
      | nil => simp [startOf]
      | cons a t =>
        have ha : a ∈ es := runs_mem_sub _ _ run hrun a (by rw [hr]; exact List.mem_cons_self)
        have := (hrows a ha).2.1
        simp only [startOf, List.head?_cons, Option.map_some, Option.getD_some]
        omega
    · have := runs_length_le r.lay.cut es run hrun
      omega
  have hfitN : XNumsFit r.lay es (sizeOf r (header binary).length) r.root :=
    ⟨hsize, h.rootFit.1, h.rootFit.2, hidx, h.w0⟩
  have hdata : (xdataOf r.lay es).length ≤ i64Max := by
    have : (xdataOf r.lay es).length = f.xs.data.length := by rw [hxs]; rfl
    omega
  have hse : streamEnts (xsubsOf r.lay.cut es) = es.map entOf :=
    streamEnts_xsubsOf _ _ (fun e he => (hrows e he).1)
  have hxsnum : f.xs.num = r.lay.xnum := by rw [hxs]; exact xstm_num _ _ _ _ (by omega)
  have hxsgen : f.xs.gen = 0 := by rw [hxs]; rfl
  have hnd := h.numsNodup
  have hobjs_nums : f.objs.map (fun q => q.1.num) = r.objs.map DObj.num ++ [r.lay.xnum] := by
    rw [hO, List.map_append, pieces_numsB r.objs _ h.bnds]
    simp only [List.map_cons, List.map_nil]
    rw [show (f.xs.piece).num = f.xs.num from rfl, hxsnum]
  refine ⟨?_, ?_, ?_, ?_⟩
  · exact {
      noMagic := by
        have : f.bytes = f.garbage ++ f.view := rfl
        have hgb : f.garbage = garbage := by rw [← hf]; rfl
        rw [this, hgb]
        intro k hk
        have hv : f.view = kwPdf ++ (f.hdrRest ++ (f.mid ++ (kwStartxref ++ (f.wsx ++ (f.ds ++ (f.e ++ (kwEOF ++ f.trail))))))) := by
          simp [XrefStreamFile.view, XrefStreamFile.hdr]
        rw [List.drop_append_of_le_length (by omega), hv, ← List.append_assoc,
          isPrefixOf_append_of_le _ _ _ (by simp [kwPdf])]
        exact hg k hk
      xsOK := by rw [hxs]; exact xstm_ok _ _ _ _ (by omega) hdata hfitN
      xsLen := by rw [hxs]; exact xstm_len _ _ _ _
      dict := by rw [hxs]; exact xstm_dict _ _ _ _ h.w0
      root := by rw [hxs]; exact xstm_root _ _ _ _
      noPrev := by rw [hxs]; exact xstm_noPrev _ _ _ _
      fits := xsubsOf_fits r.lay r.lay.cut es (fun e he => ⟨(hrows e he).1, (hrows e he).2.2.1, by have := (hrows e he).2.2.2; omega⟩)
      lim := xsubsOf_lim r.lay.cut es (fun e he => (hrows e he).2.1) hcount
      numsNodup := by
        rw [hse, List.map_map]
        have : es.map ((fun x => x.obj) ∘ entOf) = es.map (·.num) := rfl
        rw [this]
        apply (hperm.map _).nodup_iff.mpr
        rw [List.map_append, List.map_append, hnumsU, freesOf_nums, hself]
        simpa [List.append_assoc] using hnd
      wsx := by rw [← hf]; exact (wsReq_run _).1
      wsxNe := by rw [← hf]; exact (wsReq_run _).2
      wsxNoS := by rw [← hf]; exact wsReq_no_s _
      dsNe := by rw [hds]; exact d1
      dsDig := by rw [hds]; exact d2
      startxref := by rw [hds]; exact d3
      ofsFits := by rw [hds, d3]; exact hfit
      e := by rw [← hf]; show ∀ y ∈ ([10] : Bytes), isWsEol y = true; decide
      trail := by rw [← hf]; exact noLaterEOF_of_no_percent [10] (by decide) }
  · rw [hxs]; exact xstm_stored _ _ _ _ hne hstore
  · apply nodup_of_map Prod.fst
    rw [List.map_map]
    have : f.objs.map (Prod.fst ∘ fun q => (q.1.num, q.1.gen)) = f.objs.map (fun q => q.1.num) := rfl
    rw [this, hobjs_nums]
    have h1 : (r.objs.map DObj.num ++ [r.lay.xnum]).Sublist
        (r.objs.map DObj.num ++ (((if r.zero then [0] else []) ++ r.frees.map Prod.fst) ++ [r.lay.xnum])) :=
      List.Sublist.append_left (List.sublist_append_right _ _) _
    exact hnd.sublist h1
  · have hfil : (es.filter (·.typ == 1)).Perm (f.objs.map xeOf) := by
      have := hperm.filter (·.typ == 1)
      rw [List.filter_append, List.filter_append, freesOf_filter, List.append_nil, hU, uses_filter, hself] at this
      rw [hO, List.map_append]
      have e2 : [(f.xs.piece, f.xofs)].map xeOf = [(⟨r.lay.xnum, 1, f.xofs, 0⟩ : XE)] := by
        simp only [List.map_cons, List.map_nil, xeOf]
        rw [show (f.xs.piece).num = f.xs.num from rfl, show (f.xs.piece).gen = f.xs.gen from rfl, hxsnum, hxsgen]
      rw [e2]
      exact this
    obtain ⟨perm, hp, hm⟩ := perm_of_perm_map xeOf hfil
    refine ⟨perm, hp, ?_⟩
    rw [hse, infoOf_map_entOf, ← hm, List.map_map]
    rfl

theorem filesOf_inFile (l : List (Piece × Nat)) :
    filesOf (l.map fun q => ObjInfo.inFile q.1.num q.1.gen q.2) = l.map fun q => ObjInfo.inFile q.1.num q.1.gen q.2 := by
  induction l with
  | nil => rfl
  | cons a t ih => simp only [List.map_cons, filesOf, ih]

theorem stmsOf_inFile (l : List (Piece × Nat)) : stmsOf (l.map fun q => ObjInfo.inFile q.1.num q.1.gen q.2) = [] := by
  induction l with
  | nil => rfl
  | cons a t ih => simp only [List.map_cons, stmsOf, ih]

theorem depIn_none (objs : List DObj) (p : Piece) (h : p.num ∉ objs.map DObj.num) : depIn objs p = none := by
  unfold depIn
  have : objs.find? (fun o => o.num == p.num) = none := by
    rw [List.find?_eq_none]
    intro o ho he
    exact h (by rw [← (by simpa using he : o.num = p.num)]; exact List.mem_map_of_mem ho)
  rw [this]

theorem xfileOf_xofsB (garbage : Bytes) (binary : Bool) (r : Rev) (h : ∀ o ∈ r.objs, Bnd o) :
    (xfileOf garbage binary r).xofs = (header binary).length + (renderObjs r.objs (header binary).length).1.length := by
  rw [renderObjs_bodyB r.objs _ h]
  simp only [XrefStreamFile.xofs, XrefStreamFile.hdr, xfileOf, header_eq, List.length_append]
  omega

theorem xfileOf_written_genB (garbage : Bytes) (binary : Bool) (r : Rev) (h : BaseRevX r) :
    (xfileOf garbage binary r).objs.map (fun q => ((q.1.num, q.1.gen), (q.1.val q.2).val)) =
      (renderObjs r.objs (header binary).length).2.2 ++
        [((r.lay.xnum, 0), ((xsOf binary r).val (xfileOf garbage binary r).xofs).val)] := by
  have hx : r.lay.xnum ≤ i64Max := Nat.le_of_lt (h.numsFit _ (by simp))
  rw [xfileOf_objs, List.map_append, renderObjs_bodyB r.objs _ h.bnds]
  simp only [List.map_cons, List.map_nil]
  have e1 : (xsOf binary r).piece.num = r.lay.xnum := xstm_num _ _ _ _ hx
  have e2 : (xsOf binary r).piece.gen = 0 := rfl
  rw [e1, e2]
  rfl

/-- **`xfileOf_wfall`**: the layout of the file rendered for a cross-reference stream revision is well formed in the
    sense that allows referenced lengths (and object streams, of which there are none here) -/
theorem xfileOf_wfall (garbage : Bytes) (binary : Bool) (r : Rev) (hg : NoMagic garbage) (h : AnyRevX r)
    (hstore : XStoreFits r.lay (xesOf r (header binary).length))
    (hlen : (xfileOf garbage binary r).bytes.length < 2 ^ 32) :
    (xfileOf garbage binary r).WFall (xsubsOf r.lay.cut (xesOf r (header binary).length))
      (xw0 r.lay (xesOf r (header binary).length)) (xw1 r.lay (xesOf r (header binary).length))
      (xw2 r.lay (xesOf r (header binary).length)) r.root [] (depOf r) := by
  obtain ⟨h0, hst, hids, perm, hperm, htab⟩ := xfileOf_base garbage binary r hg h.base hstore hlen
  have hndAll := h.numsNodup
  have hnd : (r.objs.map DObj.num).Nodup := (List.nodup_append.mp hndAll).1
  have hxfresh : r.lay.xnum ∉ r.objs.map DObj.num := by
    intro hm
    exact (List.nodup_append.mp hndAll).2.2 _ hm _ (by simp) rfl
  have hxle : r.lay.xnum ≤ i64Max := Nat.le_of_lt (h.numsFit _ (by simp))
  have hxnum : (xsOf binary r).piece.num = r.lay.xnum := xstm_num _ _ _ _ hxle
  have hdep : ∀ o ∈ r.objs, depOf r (pieceOf o) = depObj o := fun o ho =>
    depIn_pieceOf r.objs hnd o ho (h.objs o ho).bnd
  have hdepx : depOf r (xsOf binary r).piece = none := depIn_none r.objs _ (by rw [hxnum]; exact hxfresh)
  have hxs : (xfileOf garbage binary r).xs = xsOf binary r := rfl
  exact {
    toWF0 := h0
    stored := hst
    size := by
      have : (xfileOf garbage binary r).bytes.length =
          (xfileOf garbage binary r).garbage.length + (xfileOf garbage binary r).view.length := by
        simp [XrefStreamFile.bytes]
      omega
    reads1 := by
      intro q hq
      obtain ⟨o, ho, e⟩ := mem_placedOf r.objs q hq
      unfold PieceOK
      rw [e, hdep o ho]
      rcases h.objs o ho with hs | ⟨hpad, hn, hg', entries, data, hh, hb, hl, hwf, hd, hc⟩
      · rw [depObj_simple hs]
        exact pieceOf_reads o hs
      · rw [depObj_fwd entries data hh hb hl]
        exact pieceOf_readsDep o entries data hh hpad hn hg' hb hl hwf hd hc
    reads2 := by
      intro q hq
      cases hq
    holders := by
      intro q hq hh len hd
      rw [xfileOf_objs, List.mem_append, List.mem_singleton] at hq
      rcases hq with hq | rfl
      · have hm : q.1 ∈ r.objs.map pieceOf := by
          rw [← place_fst r.objs ((header binary).length + (nextPre r.objs).length)]
          exact List.mem_map_of_mem hq
        obtain ⟨o, ho, e⟩ := List.mem_map.mp hm
        rw [← e, hdep o ho] at hd
        rcases h.objs o ho with hs | ⟨_, _, _, entries, data, h', hb, hl, _⟩
        · rw [depObj_simple hs] at hd; cases hd
        · rw [depObj_fwd entries data h' hb hl] at hd
          cases hd
          obtain ⟨o', ho', hn', hg', hb'⟩ := h.holders o ho entries data h' hb hl
          obtain ⟨i, hi⟩ := mem_place_placedOf r.objs ((header binary).length + (nextPre r.objs).length) o' ho'
          refine ⟨(pieceOf o', i), by rw [xfileOf_objs]; exact List.mem_append_left _ hi, ?_, ?_, ?_, ?_⟩
          · show depOf r (pieceOf o') = none
            rw [hdep o' ho']
            exact depObj_val _ _ hb'
          · show ((pieceOf o').num, (pieceOf o').gen) = (h', 0)
            rw [pieceOf_numB o' (h.objs o' ho').bnd, pieceOf_genB o' (h.objs o' ho').bnd, hn', hg']
          · show ((pieceOf o').val i).val = .int (data.length : Int)
            rw [pieceOf_val o' i (by simp [isVal, hb'])]
            simp [valOf, hb']
          · show ((pieceOf o').num, (pieceOf o').gen) ≠ ((xfileOf garbage binary r).xs.piece.num, _)
            rw [pieceOf_numB o' (h.objs o' ho').bnd, hxs, hxnum]
            intro he
            have : o'.num = r.lay.xnum := congrArg Prod.fst he
            exact hxfresh (this ▸ List.mem_map_of_mem ho')
      · rw [show ((xsOf binary r).piece, (xfileOf garbage binary r).xofs).1 = (xsOf binary r).piece from rfl, hdepx] at hd
        cases hd
    idsNodup := hids
    tableObjs := ⟨perm, hperm, by rw [htab, filesOf_inFile]⟩
    conts := {
      stms := by
        intro id
        rw [htab, stmsOf_inFile]
        simp
      numsNodup := List.nodup_nil
      placed := by intro w hw; cases hw
      memsNodup := List.nodup_nil
      memsFresh := by intro w hw; cases hw } }

/-- **the link (cross-reference stream), referenced lengths included**: the file rendered for one revision of kind 1
    whose objects are plain values, stream objects with a direct /Length and stream objects whose /Length is a reference
    to a holder written before or after them is (the bytes of) an `XrefStreamFile` well formed in the sense of
    `load_xrefstream_all`, whose objects - the cross-reference stream object included - are exactly what the revision
    said it wrote -/
theorem render_is_xrefstream_fwd (garbage : Bytes) (binary : Bool) (r : Rev) (hg : NoMagic garbage) (h : AnyRevX r)
    (hstore : XStoreFits r.lay (xesOf r (header binary).length))
    (hlen : (renderHistory garbage binary [(r, .auto)]).1.length < 2 ^ 32) :
    ∃ (f : XrefStreamFile) (subs : List (Nat × List SEnt)) (w0 w1 w2 : Nat),
      f.bytes = (renderHistory garbage binary [(r, .auto)]).1 ∧ f.WFall subs w0 w1 w2 r.root [] (depOf r) ∧
      (renderHistory garbage binary [(r, .auto)]).2.2.2 =
        [⟨f.objs.map (fun q => ((q.1.num, q.1.gen), (q.1.val q.2).val)), r.frees.map Prod.fst, r.root⟩] ∧
      f.objs.map Prod.fst = r.objs.map pieceOf ++ [f.xs.piece] ∧ f.xs.piece.num = r.lay.xnum ∧ f.xs.piece.gen = 0 := by
  obtain ⟨hb, hs⟩ := xfileOf_bytesB garbage binary r h.base
  rw [hb] at hlen
  refine ⟨xfileOf garbage binary r, _, _, _, _, hb.symm, xfileOf_wfall garbage binary r hg h hstore hlen, ?_, ?_,
    xstm_num _ _ _ _ (Nat.le_of_lt (h.numsFit _ (by simp))), rfl⟩
  · rw [hs, xfileOf_written_genB garbage binary r h.base, xfileOf_xofsB garbage binary r h.base.bnds]
  · rw [xfileOf_objs, List.map_append, place_fst]
    rfl

end Parsley.LoaderE2E
