/-
  C03 - the link between the EXECUTABLE spec-side encoder (`DocSpec.renderHistory`) and the DECLARATIVE layout
  `XrefStreamFile` of Lemmas/LoaderE2EXrefFile.lean / LoaderE2EXrefLoad.lean, for one revision whose
  cross-reference data is a cross-reference STREAM (`lay.kind = 1`):

      the file rendered for such a revision IS the bytes of a well-formed `XrefStreamFile`

  so that `load_xrefstream` applies to what the generator writes.  Same restriction as the classic link
  (Lemmas/LoaderE2ERender.lean): objects `SimpleObj` (values of any shape, direct /Length streams); in addition no object-stream
  members.  Unrestricted: choice streams, padding, `ofsAtPad`, /Index partition (`cut`), /Index omitted or not,
  extra width bytes `x1`, `x2`, type-field width, rotation of the dictionary, unfiltered / FlateDecode /
  FlateDecode + PNG-Up storage, free entries, object 0, garbage, binary comment.
  Steps: the stream dictionary written by `spellRaw` over `rawVal` is a legal spelling (`spellRaw_map`, `xents_ok`,
  `arr_spells`, `parms_spells`); the object is a `WStm` (`renderXrefStream_eq`, `xstm_ok`); what its dictionary
  says (`xstm_dict`, `xstm_root`, `xstm_noPrev`, `xstm_len`; lookup lemmas in LoaderE2ERenderX2.lean); how the
  rows are stored (`xstm_stored`); rows / subsections / widths (LoaderE2ERenderX3.lean); composition
  (`xfileOf_bytes`, `xfileOf_wf`, `render_is_xrefstream`).
-/
import Parsley.Lemmas.LoaderE2ERender
import Parsley.Lemmas.LoaderE2EXrefLoad
import Parsley.Lemmas.LoaderE2ERenderX2
import Parsley.Lemmas.LoaderE2ERenderX3
namespace Parsley.LoaderE2E
open Parsley Parsley.Prim Parsley.Obj Parsley.Indirect Parsley.Loader Parsley.C02 Parsley.Spelling Parsley.DocSpec
open Parsley.XrefSpec Parsley.C13

/-! ## a dictionary written by `spellRaw` over pre-rendered values -/

/-- an entry whose pre-rendered value `f kv` is a legal spelling at depth index `d` -/
def EntOKd (d : Nat) (f : Bytes × Obj → Bytes) (kv : Bytes × Obj) : Prop :=
  okKey kv.1 = true ∧ (∃ ch, (nameBody kv.1 ch).1 = kv.1) ∧ Spells d kv.2 (f kv)

theorem spellRaw_map (d : Nat) (f : Bytes × Obj → Bytes) : ∀ (all : List (Bytes × Obj)) (names : List Bytes) (c : Ch),
    (∀ kv ∈ all, EntOKd d f kv) → (all.map (·.1)).Nodup → (∀ k ∈ all.map (·.1), k ∉ names) →
    ∃ body sep, (spellRaw (all.map fun kv => (kv.1, f kv)) c).1 = body ++ (sep ++ [62, 62]) ∧
      SpellsEntries d names all body ∧ WsRun sep
  | [], names, c, _, _, _ => ⟨[], (wsOpt c).1, by simp [spellRaw], SpellsEntries.nil d names, wsOpt_run c⟩
  | (k, v) :: t, names, c, hok, hnd, hnew => by
    obtain ⟨hk, ⟨ch, hch⟩, hsp⟩ := hok (k, v) List.mem_cons_self
    simp only at hk hch hsp
    simp only [List.map_cons, List.nodup_cons] at hnd
    obtain ⟨body', sep, hr, hse, hsep⟩ := spellRaw_map d f t (if isNullV v then names else k :: names)
      (wsReq (wsOpt c).2).2 (fun kv hkv => hok kv (List.mem_cons_of_mem _ hkv)) hnd.2 (by
        intro x hx
        have h1 := hnew x (by simp only [List.map_cons]; exact List.mem_cons_of_mem _ hx)
        split
        · exact h1
        · intro hm
          simp only [List.mem_cons] at hm
          rcases hm with rfl | hm
          · exact hnd.1 hx
          · exact h1 hm)
    refine ⟨(wsOpt c).1 ++ (47 :: (nameBody k ch).1 ++ ((wsReq (wsOpt c).2).1 ++ (f (k, v) ++ body'))), sep, ?_, ?_, hsep⟩
    · simp only [List.map_cons, spellRaw, hr, hch]
      simp [List.append_assoc]
    · exact SpellsEntries.cons d names k v t _ ch _ (f (k, v)) body' (wsOpt_run c) hk
        (hnew k (by simp)) (wsReq_run _).1 hsp (fun _ => (wsReq_run _).2) hse

/-! ## the pre-rendered values -/

theorem nat_spells (d n : Nat) (hn : n ≤ i64Max) : Spells (d + 1) (.int (n : Int)) (natDigits n) := by
  obtain ⟨n1, n2, n3⟩ := natDigits_spec n hn
  have := Spells.int d .none (natDigits n) n1 n2 (by rw [n3]; exact hn)
  rw [n3] at this
  exact this

theorem ref_spells (d : Nat) (r : Nat × Nat) (h1 : r.1 ≤ i64Max) (h2 : r.2 ≤ i64Max) :
    Spells (d + 1) (.ref r.1 r.2) (refBytes r) := by
  obtain ⟨a1, a2, a3⟩ := natDigits_spec r.1 h1
  obtain ⟨b1, b2, b3⟩ := natDigits_spec r.2 h2
  have := Spells.ref d (natDigits r.1) [32] (natDigits r.2) [32] a1 a2 (by rw [a3]; exact h1) b1 b2 (by rw [b3]; exact h2)
    C02.ws32 (by simp) C02.ws32 (by simp)
  rw [a3, b3] at this
  have e : refBytes r = natDigits r.1 ++ ([32] ++ (natDigits r.2 ++ ([32] ++ [82]))) := by
    simp [refBytes, bs_sp_R]
  rw [e]
  exact this

/-- what follows an element of `arrBytes` -/
def arrTail : List Nat → Bytes
  | [] => [32] ++ [93]
  | n :: t => [32] ++ (natDigits n ++ arrTail t)

theorem arrTail_eq : ∀ (n : Nat) (t : List Nat),
    ((n :: t).flatMap fun n => natDigits n ++ [32]) ++ [93] = natDigits n ++ arrTail t
  | n, [] => by simp [arrTail]
  | n, m :: t => by
    have := arrTail_eq m t
    simp only [List.flatMap_cons, List.append_assoc] at this ⊢
    rw [this]
    simp [arrTail]

theorem arrTail_spells (d : Nat) : ∀ (l : List Nat), (∀ n ∈ l, n ≤ i64Max) →
    SpellsElems (d + 1) true (l.map fun n : Nat => Obj.int (n : Int)) (arrTail l)
  | [], _ => SpellsElems.nil (d + 1) true [32] C02.ws32
  | n :: t, h =>
    SpellsElems.cons (d + 1) true (.int (n : Int)) _ [32] (natDigits n) (arrTail t) C02.ws32
      (nat_spells d n (h n List.mem_cons_self)) (fun _ _ => by simp)
      (arrTail_spells d t (fun x hx => h x (List.mem_cons_of_mem _ hx)))

theorem arr_spells (d : Nat) (l : List Nat) (h : ∀ n ∈ l, n ≤ i64Max) :
    Spells (d + 2) (.arr (l.map fun n : Nat => Obj.int (n : Int))) (arrBytes l) := by
  cases l with
  | nil =>
    have := Spells.arr (d + 1) [] ([] ++ [93]) (SpellsElems.nil (d + 1) false [] WsRun.nil)
    simpa [arrBytes] using this
  | cons n t =>
    have e : arrBytes (n :: t) = 91 :: (natDigits n ++ arrTail t) := by
      unfold arrBytes
      rw [List.append_assoc, arrTail_eq]
      rfl
    rw [e]
    have e0 := SpellsElems.cons (d + 1) false (.int (n : Int)) (t.map fun n : Nat => Obj.int (n : Int)) [] (natDigits n) (arrTail t)
      WsRun.nil (nat_spells d n (h n List.mem_cons_self)) (fun hh => by cases hh)
      (arrTail_spells d t (fun x hx => h x (List.mem_cons_of_mem _ hx)))
    exact Spells.arr (d + 1) _ _ (by simpa using e0)


/-! ## `xrefStreamParts`, spelled out -/

theorem bs_keys : bs "Type" = Xref.kType ∧ bs "XRef" = Xref.nXRef ∧ bs "Size" = Xref.kSize ∧ bs "W" = Xref.kW ∧
    bs "Index" = Xref.kIndex ∧ bs "Root" = kRoot ∧ bs "Length" = keyLength := by decide +kernel

def xrowsOf (lay : RevLay) (es : List XE) : Bytes :=
  encRows (xw0 lay es) (xw1 lay es) (xw2 lay es) (es.map fun e => ⟨e.typ, e.f2, e.f3⟩)

def xrowW (lay : RevLay) (es : List XE) : Nat := xw0 lay es + xw1 lay es + xw2 lay es

def xdataOf (lay : RevLay) (es : List XE) : Bytes :=
  if !lay.flate then xrowsOf lay es
  else if lay.up then FiltersSpec.zlibStored [PredSpec.pngRows 2 1 [] (PredSpec.splitRows (xrowW lay es) es.length (xrowsOf lay es))]
  else FiltersSpec.zlibStored [xrowsOf lay es]

def xentsOf (lay : RevLay) (es : List XE) (size : Nat) (root : Nat × Nat) : List (Bytes × Obj) :=
  [(Xref.kType, .name Xref.nXRef), (Xref.kSize, .int size),
   (Xref.kW, .arr [.int (xw0 lay es), .int (xw1 lay es), .int (xw2 lay es)])]
  ++ (if (xindexOf lay.cut es == [0, size]) && lay.omitIndex then []
      else [(Xref.kIndex, .arr ((xindexOf lay.cut es).map fun n => .int (Int.ofNat n)))])
  ++ [(kRoot, .ref root.1 root.2)]
  ++ (if lay.flate then [(Xref.kFilter, .name Filters.nFlate)] else [])
  ++ (if lay.flate && lay.up then [(Xref.kDecodeParms, .dict [(kColumns, .int (xrowW lay es)), (kPredictor, .int 12)])] else [])

theorem xrefStreamParts_eq (lay : RevLay) (es : List XE) (size : Nat) (root : Nat × Nat) :
    xrefStreamParts lay es size (some root) none = (xdataOf lay es, xentsOf lay es size root) := by
  unfold xrefStreamParts
  simp only [bs_keys.1, bs_keys.2.1, bs_keys.2.2.1, bs_keys.2.2.2.1, bs_keys.2.2.2.2.1, bs_keys.2.2.2.2.2.1,
    spec_keys.1, spec_keys.2.1, spec_keys.2.2.1, spec_keys.2.2.2.1, spec_keys.2.2.2.2]
  simp only [List.append_nil]
  rfl


/-! ## the entries are legal -/

/-- the choice stream "every byte raw" -/
def rawChX : Nat → Ch
  | 0 => []
  | n + 1 => 1 :: 0 :: 0 :: rawChX n

def rawF (kv : Bytes × Obj) : Bytes := rawVal kv.1 kv.2

theorem prev_ne : (Xref.kSize == bs "Prev") = false ∧ (keyLength == bs "Prev") = false := by decide +kernel

theorem name_spells (d : Nat) (b : Bytes) (hb : okKey b = true) (hraw : (nameBody b (rawChX b.length)).1 = b) :
    Spells (d + 1) (.name b) ([47] ++ b) := by
  have := Spells.name d b (rawChX b.length) hb
  rw [hraw] at this
  exact this

theorem parms_spells (n : Nat) (hn : n ≤ i64Max) :
    Spells 3 (.dict [(kColumns, .int (n : Int)), (kPredictor, .int 12)])
      (rawVal Xref.kDecodeParms (.dict [(kColumns, .int (n : Int)), (kPredictor, .int 12)])) := by
  have v12 : Spells 2 (.int 12) (natDigits 12) := nat_spells 1 12 (by decide)
  have vn : Spells 2 (.int (n : Int)) (natDigits n) := nat_spells 1 n hn
  have n2 := SpellsEntries.nil 2 [kPredictor, kColumns]
  have n1 := SpellsEntries.cons 2 [kColumns] kPredictor (.int 12) [] [32] (rawChX 9) [32] (natDigits 12) [] C02.ws32
    (by decide) (by decide) C02.ws32 v12 (fun _ => by simp) n2
  have n0 := SpellsEntries.cons 2 [] kColumns (.int (n : Int)) _ [] (rawChX 7) [32] (natDigits n) _ WsRun.nil
    (by decide) (by simp) C02.ws32 vn (fun _ => by simp) n1
  have hd := Spells.dict 2 _ _ [32] n0 C02.ws32
  have e1 : (nameBody kPredictor (rawChX 9)).1 = kPredictor := by decide
  have e2 : (nameBody kColumns (rawChX 7)).1 = kColumns := by decide
  rw [e1, e2] at hd
  have e : rawVal Xref.kDecodeParms (.dict [(kColumns, .int (n : Int)), (kPredictor, .int 12)]) =
      60 :: 60 :: (([] : Bytes) ++ (47 :: kColumns ++ ([32] ++ (natDigits n ++ ([32] ++ (47 :: kPredictor ++ ([32] ++ (natDigits 12 ++ [])))))))
        ++ ([32] ++ [62, 62])) := by
    simp [rawVal, bs_ltlt, (by decide +kernel : bs ">>" = [62, 62])]
  rw [e]
  exact hd

theorem entOK_mk (d : Nat) (f : Bytes × Obj → Bytes) (k : Bytes) (v : Obj) (hk : okKey k = true)
    (hraw : (nameBody k (rawChX k.length)).1 = k) (hsp : Spells d v (f (k, v))) : EntOKd d f (k, v) :=
  ⟨hk, ⟨_, hraw⟩, hsp⟩

/-- size side conditions for the numbers written into the dictionary -/
structure XNumsFit (lay : RevLay) (es : List XE) (size : Nat) (root : Nat × Nat) : Prop where
  size : size ≤ i64Max
  root1 : root.1 ≤ i64Max
  root2 : root.2 ≤ i64Max
  index : ∀ n ∈ xindexOf lay.cut es, n ≤ i64Max
  w0 : lay.w0 ≤ 4

theorem xents_ok (lay : RevLay) (es : List XE) (size : Nat) (root : Nat × Nat) (len : Nat) (hlen : len ≤ i64Max)
    (h : XNumsFit lay es size root) :
    ∀ kv ∈ xentsOf lay es size root ++ [(keyLength, .int (len : Int))], EntOKd 3 rawF kv ∧ isNullV kv.2 = false := by
  obtain ⟨hw0, hw1p, hw1, hw2⟩ := xwidths lay es h.w0
  have i4 : (12 : Nat) ≤ i64Max := by decide
  intro kv hkv
  simp only [xentsOf, List.mem_append, List.mem_cons, List.mem_nil_iff, or_false, List.mem_ite_nil_left,
    List.mem_ite_nil_right] at hkv
  rcases hkv with (((((rfl | rfl | rfl) | ⟨_, rfl⟩) | rfl) | ⟨_, rfl⟩) | ⟨_, rfl⟩) | rfl
  · exact ⟨entOK_mk 3 rawF Xref.kType _ (by decide) (by decide) (name_spells 2 Xref.nXRef (by decide) (by decide)), rfl⟩
  · refine ⟨entOK_mk 3 rawF Xref.kSize _ (by decide) (by decide) ?_, rfl⟩
    have : rawF (Xref.kSize, .int (size : Int)) = natDigits size := by simp [rawF, rawVal, prev_ne.1]
    rw [this]
    exact nat_spells 2 size h.size
  · refine ⟨entOK_mk 3 rawF Xref.kW _ (by decide) (by decide) ?_, rfl⟩
    have : rawF (Xref.kW, .arr [.int (xw0 lay es), .int (xw1 lay es), .int (xw2 lay es)]) =
        arrBytes [xw0 lay es, xw1 lay es, xw2 lay es] := by simp [rawF, rawVal]
    rw [this]
    have := arr_spells 1 [xw0 lay es, xw1 lay es, xw2 lay es] (by
      intro n hn
      simp only [List.mem_cons, List.mem_nil_iff, or_false] at hn
      rcases hn with rfl | rfl | rfl <;> omega)
    exact this
  · refine ⟨entOK_mk 3 rawF Xref.kIndex _ (by decide) (by decide) ?_, rfl⟩
    have : rawF (Xref.kIndex, .arr ((xindexOf lay.cut es).map fun n => .int (Int.ofNat n))) = arrBytes (xindexOf lay.cut es) := by
      simp only [rawF, rawVal, List.map_map]
      congr 1
      refine Eq.trans (List.map_congr_left (g := id) ?_) (List.map_id _)
      intro n _
      rfl
    rw [this]
    exact arr_spells 1 _ h.index
  · exact ⟨entOK_mk 3 rawF kRoot _ (by decide) (by decide) (ref_spells 2 root h.root1 h.root2), rfl⟩
  · exact ⟨entOK_mk 3 rawF Xref.kFilter _ (by decide) (by decide) (name_spells 2 Filters.nFlate (by decide) (by decide)), rfl⟩
  · exact ⟨entOK_mk 3 rawF Xref.kDecodeParms _ (by decide) (by decide) (parms_spells _ (by unfold xrowW; omega)), rfl⟩
  · refine ⟨entOK_mk 3 rawF keyLength _ (by decide) (by decide) ?_, rfl⟩
    have : rawF (keyLength, .int (len : Int)) = natDigits len := by simp [rawF, rawVal, prev_ne.2]
    rw [this]
    exact nat_spells 2 len hlen

theorem xents_keys_nodup (lay : RevLay) (es : List XE) (size : Nat) (root : Nat × Nat) (len : Int) :
    ((xentsOf lay es size root ++ [(keyLength, Obj.int len)]).map Prod.fst).Nodup := by
  unfold xentsOf
  cases ((xindexOf lay.cut es == [0, size]) && lay.omitIndex) <;> cases lay.flate <;> cases lay.up <;>
    simp <;> decide


/-! ## the cross-reference stream object as a `WStm` -/

def xallOf (lay : RevLay) (es : List XE) (size : Nat) (root : Nat × Nat) : List (Bytes × Obj) :=
  rotate (xentsOf lay es size root ++ [(keyLength, .int ((xdataOf lay es).length : Int))]) lay.dictOrder

def xspell (lay : RevLay) (es : List XE) (size : Nat) (root : Nat × Nat) : Bytes × Ch :=
  spellRaw ((xallOf lay es size root).map fun kv => (kv.1, rawVal kv.1 kv.2)) lay.ch

/-- the cross-reference stream object the encoder writes -/
def xstmOf (lay : RevLay) (es : List XE) (size : Nat) (root : Nat × Nat) : WStm :=
  ⟨[], natDigits lay.xnum, (wsReq (xspell lay es size root).2).1, [48], [32],
   (wsOpt (wsReq (xspell lay es size root).2).2).1, [60, 60] ++ (xspell lay es size root).1,
   (wsOpt (wsReq (xspell lay es size root).2).2).1, [10], xdataOf lay es, [10], [10], DocSpec.canonKvs (xallOf lay es size root), 4⟩

/-- a stream object of the shape the encoder writes is legally written -/
theorem wstm_ok_of (nds w1 w3 tok data : Bytes) (kvs : List (Bytes × Obj))
    (n1 : nds ≠ []) (n2 : ∀ y ∈ nds, isDigit y = true) (n3 : digitsVal nds 0 ≤ i64Max)
    (hw1 : WsRun w1) (hw1ne : w1 ≠ []) (hw3 : WsRun w3) (hsp : Spells 4 (.dict kvs) tok) :
    (WStm.mk [] nds w1 [48] [32] w3 tok w3 [10] data [10] [10] kvs 4).OK where
  head := {
    pad := WsRun.nil
    nne := n1
    ndig := n2
    nfit := n3
    w1 := hw1
    w1ne := hw1ne
    gne := by show ([48] : Bytes) ≠ []; simp
    gdig := by show ∀ y ∈ ([48] : Bytes), isDigit y = true; decide
    gfit := by show digitsVal [48] 0 ≤ i64Max; decide
    w2 := C02.ws32
    w3 := hw3
    spells := hsp
    depth := by show (4 : Nat) ≤ 50; decide
    w4 := hw3
    w4req := by intro hh; simp [WStm.head, endsReg] at hh }
  e1 := by show ([10] : Bytes) ∈ Framing.eolsAfterStream; decide
  e2 := by show ([10] : Bytes) ∈ Framing.eolsBeforeEndstream; decide
  w4 := wsRun_of_ws [10] (by decide)

theorem bs_kws : bs "0 obj" = [48, 32] ++ kwObj ∧ bs "stream" = kwStream ∧ bs "endstream" = kwEndstream := by decide +kernel

theorem renderXrefStream_eq (lay : RevLay) (pos : Nat) (es : List XE) (size : Nat) (root : Nat × Nat) :
    renderXrefStream lay pos es size (some root) none =
      ((xstmOf lay es size root).bytes ++ [10], ((xstmOf lay es size root).val pos).val) := by
  unfold renderXrefStream
  rw [xrefStreamParts_eq]
  simp only [kLength, bs_keys.2.2.2.2.2.2, bs_kws.1, bs_kws.2.1, bs_kws.2.2, bs_endobj, bs_ltlt]
  refine Prod.ext ?_ ?_
  · simp [xstmOf, xspell, xallOf, WStm.bytes, WObj.headBytes, WStm.head, WStm.tailBytes]
  · simp only [WStm.val, xstmOf, xspell, xallOf, WStm.kwOfs, WObj.valOfs, WStm.head]
    congr 2
    simp only [List.length_append, List.length_cons, List.length_nil, kwObj, kwStream]
    omega


/-! ## the object is legally written; what its dictionary says -/

theorem xall_ok (lay : RevLay) (es : List XE) (size : Nat) (root : Nat × Nat)
    (hlen : (xdataOf lay es).length ≤ i64Max) (h : XNumsFit lay es size root) :
    (∀ kv ∈ xallOf lay es size root, EntOKd 3 rawF kv) ∧ (∀ kv ∈ xallOf lay es size root, isNullV kv.2 = false) ∧
    ((xallOf lay es size root).map Prod.fst).Nodup := by
  refine ⟨fun kv hkv => ?_, fun kv hkv => ?_, ?_⟩
  · exact (xents_ok lay es size root _ hlen h kv ((mem_rotate _ _ _).mp hkv)).1
  · exact (xents_ok lay es size root _ hlen h kv ((mem_rotate _ _ _).mp hkv)).2
  · unfold xallOf
    rw [rotate_map]
    exact (rotate_perm _ _).nodup_iff.mpr (xents_keys_nodup lay es size root _)

theorem xstm_ok (lay : RevLay) (es : List XE) (size : Nat) (root : Nat × Nat) (hnum : lay.xnum ≤ i64Max)
    (hlen : (xdataOf lay es).length ≤ i64Max) (h : XNumsFit lay es size root) : (xstmOf lay es size root).OK := by
  obtain ⟨hok, hnn, hnd⟩ := xall_ok lay es size root hlen h
  obtain ⟨n1, n2, n3⟩ := natDigits_spec lay.xnum hnum
  obtain ⟨body, sep, hb, hse, hsep⟩ := spellRaw_map 3 rawF (xallOf lay es size root) [] lay.ch hok hnd (by simp)
  have hsp : Spells 4 (.dict (DocSpec.canonKvs (xallOf lay es size root))) ([60, 60] ++ (xspell lay es size root).1) := by
    have hb' : (xspell lay es size root).1 = body ++ (sep ++ [62, 62]) := hb
    rw [hb', ← dictOf_eq_canon _ hnn]
    exact Spells.dict 3 _ body sep hse hsep
  unfold xstmOf
  exact wstm_ok_of _ _ _ _ _ _ n1 n2 (by rw [n3]; exact hnum) (wsReq_run _).1 (wsReq_run _).2 (wsOpt_run _) hsp

theorem xstm_num (lay : RevLay) (es : List XE) (size : Nat) (root : Nat × Nat) (hnum : lay.xnum ≤ i64Max) :
    (xstmOf lay es size root).num = lay.xnum := (natDigits_spec lay.xnum hnum).2.2
theorem xstm_gen (lay : RevLay) (es : List XE) (size : Nat) (root : Nat × Nat) : (xstmOf lay es size root).gen = 0 := rfl

theorem xget_mem (lay : RevLay) (es : List XE) (size : Nat) (root : Nat × Nat) (k : Bytes) (v : Obj)
    (h : (k, v) ∈ xentsOf lay es size root ++ [(keyLength, Obj.int ((xdataOf lay es).length : Int))]) :
    dictGet k (xstmOf lay es size root).kvs = some v := by
  have hnd : ((xallOf lay es size root).map Prod.fst).Nodup := by
    unfold xallOf
    rw [rotate_map]
    exact (rotate_perm _ _).nodup_iff.mpr (xents_keys_nodup lay es size root _)
  exact dictGet_canon_mem _ hnd k v ((mem_rotate _ _ _).mpr h)

theorem xget_none (lay : RevLay) (es : List XE) (size : Nat) (root : Nat × Nat) (k : Bytes)
    (h : k ∉ (xentsOf lay es size root ++ [(keyLength, Obj.int ((xdataOf lay es).length : Int))]).map Prod.fst) :
    dictGet k (xstmOf lay es size root).kvs = none := by
  apply dictGet_canon_none
  unfold xallOf
  rw [rotate_map]
  intro hm
  exact h ((mem_rotate _ _ _).mp hm)

theorem xstm_len (lay : RevLay) (es : List XE) (size : Nat) (root : Nat × Nat) :
    dictGet keyLength (xstmOf lay es size root).kvs = some (.int (xstmOf lay es size root).data.length) :=
  xget_mem lay es size root _ _ (List.mem_append_right _ List.mem_cons_self)

theorem xstm_root (lay : RevLay) (es : List XE) (size : Nat) (root : Nat × Nat) :
    dictGet kRoot (xstmOf lay es size root).kvs = some (.ref root.1 root.2) :=
  xget_mem lay es size root _ _ (by simp [xentsOf])

theorem xstm_noPrev (lay : RevLay) (es : List XE) (size : Nat) (root : Nat × Nat) :
    ObjStm.getUsize (xstmOf lay es size root).kvs kPrev = none := by
  have : dictGet kPrev (xstmOf lay es size root).kvs = none := by
    apply xget_none
    unfold xentsOf
    cases ((xindexOf lay.cut es == [0, size]) && lay.omitIndex) <;> cases lay.flate <;> cases lay.up <;>
      simp <;> decide
  simp [ObjStm.getUsize, this]

theorem xstm_dict (lay : RevLay) (es : List XE) (size : Nat) (root : Nat × Nat) (hw0 : lay.w0 ≤ 4) :
    XDictOK (xstmOf lay es size root).kvs (xsubsOf lay.cut es) (xw0 lay es) (xw1 lay es) (xw2 lay es) := by
  obtain ⟨h0, h1p, h1, h2⟩ := xwidths lay es hw0
  refine ⟨xget_mem lay es size root _ _ (by simp [xentsOf]), ⟨size, xget_mem lay es size root _ _ (by simp [xentsOf]), ?_⟩,
    xget_mem lay es size root _ _ (by simp [xentsOf]), h0, h1, h1p, h2⟩
  cases hc : ((xindexOf lay.cut es == [0, size]) && lay.omitIndex)
  · left
    rw [indexAtoms_xsubsOf]
    exact xget_mem lay es size root _ _ (by simp [xentsOf, hc])
  · right
    simp only [Bool.and_eq_true, beq_iff_eq] at hc
    refine ⟨?_, xindex_plain lay.cut es size hc.1⟩
    apply xget_none
    unfold xentsOf
    have hc' : ((xindexOf lay.cut es == [0, size]) && lay.omitIndex) = true := by simp [hc]
    rw [hc']
    cases lay.flate <;> cases lay.up <;> simp <;> decide


/-! ## how the rows are stored -/

theorem xrows_length (lay : RevLay) (es : List XE) : (xrowsOf lay es).length = es.length * xrowW lay es := by
  unfold xrowsOf xrowW
  rw [C13.encRows_length, List.length_map]

/-- size hypotheses of the stored-block encodings: one block holds at most 65535 bytes -/
def XStoreFits (lay : RevLay) (es : List XE) : Prop :=
  lay.flate = true → if lay.up then es.length * (xrowW lay es + 1) ≤ 65535 else (xrowsOf lay es).length ≤ 65535

theorem xstm_stored (lay : RevLay) (es : List XE) (size : Nat) (root : Nat × Nat) (hne : es ≠ [])
    (hsz : XStoreFits lay es) :
    Stored (xstmOf lay es size root).kvs
      (XrefStreamFile.rowBytes (xsubsOf lay.cut es) (xw0 lay es) (xw1 lay es) (xw2 lay es)) (xstmOf lay es size root).data := by
  rw [rowBytes_xsubsOf]
  show Stored _ (xrowsOf lay es) (xdataOf lay es)
  cases hf : lay.flate
  · have hd : xdataOf lay es = xrowsOf lay es ++ [] := by simp [xdataOf, hf]
    rw [hd]
    refine Stored.plain [] (xget_none lay es size root _ ?_)
    unfold xentsOf
    rw [hf]
    cases ((xindexOf lay.cut es == [0, size]) && lay.omitIndex) <;> simp <;> decide
  · have hfil : dictGet Xref.kFilter (xstmOf lay es size root).kvs = some (.name Filters.nFlate) :=
      xget_mem lay es size root _ _ (by simp [xentsOf, hf])
    have hsz' := hsz hf
    cases hu : lay.up
    · rw [hu] at hsz'
      have hd : xdataOf lay es = FiltersSpec.zlibStored [xrowsOf lay es] ++ [] := by simp [xdataOf, hf, hu]
      rw [hd]
      refine Stored.flate [xrowsOf lay es] [] [] hfil (xget_none lay es size root _ ?_) ?_ (by simp)
      · unfold xentsOf
        rw [hf, hu]
        cases ((xindexOf lay.cut es == [0, size]) && lay.omitIndex) <;> simp <;> decide
      · intro p hp
        simp only [List.mem_singleton] at hp
        subst hp
        simpa using hsz'
    · rw [hu] at hsz'
      simp only [if_true] at hsz'
      have hd : xdataOf lay es = FiltersSpec.zlibStored
          [PredSpec.pngRows 2 1 [] (PredSpec.splitRows (xrowW lay es) es.length (xrowsOf lay es))] ++ [] := by
        simp [xdataOf, hf, hu]
      rw [hd]
      have hpar : dictGet Xref.kDecodeParms (xstmOf lay es size root).kvs =
          some (.dict [(kColumns, .int (xrowW lay es : Int)), (kPredictor, .int 12)]) :=
        xget_mem lay es size root _ _ (by simp [xentsOf, hf, hu])
      have hlen := xrows_length lay es
      have hrl := splitRows_row_length (xrowW lay es) es.length (xrowsOf lay es) hlen
      have hn : 1 ≤ es.length := by
        cases es with
        | nil => exact absurd rfl hne
        | cons a t => simp
      have hw : xrowW lay es < 65535 := by
        have : 1 * (xrowW lay es + 1) ≤ es.length * (xrowW lay es + 1) := Nat.mul_le_mul_right _ hn
        omega
      have hrb : PredSpec.rowBytes (xrowW lay es) 1 8 = xrowW lay es := by unfold PredSpec.rowBytes; omega
      exact Stored.flatePred [(kColumns, .int (xrowW lay es : Int)), (kPredictor, .int 12)] ⟨12, 1, xrowW lay es, 8⟩
        (PredSpec.splitRows (xrowW lay es) es.length (xrowsOf lay es))
        [PredSpec.pngRows 2 1 [] (PredSpec.splitRows (xrowW lay es) es.length (xrowsOf lay es))] [] hfil hpar rfl rfl
        (Or.inr ⟨rfl, rfl⟩) (Or.inr ⟨rfl, rfl⟩)
        (Or.inr ⟨⟨by show 10 ≤ 12; decide, by show 12 ≤ 14; decide⟩, Or.inr (Or.inr (Or.inr (Or.inl rfl)))⟩)
        (by show xrowW lay es < _; omega) (by show 1 * 8 < _; omega)
        (by show xrowW lay es * 1 * 8 < _; omega) (by intro r hr; rw [hrb]; exact hrl r hr)
        (Or.inr (by
          intro h
          have := splitRows_length (xrowW lay es) es.length (xrowsOf lay es)
          rw [h] at this; simp at this; omega))
        (splitRows_flatten (xrowW lay es) es.length (xrowsOf lay es) hlen)
        (by simp [predict_up])
        (by
          intro q hq
          simp only [List.mem_singleton] at hq
          subst hq
          rw [C07.png_encoded_length 2 1 (xrowW lay es) _ [] hrl, splitRows_length]
          exact hsz')


/-! ## the kind-1 branch of `renderRev`, and the file as an `XrefStreamFile` -/

/-- the row of the cross-reference stream object itself -/
def xselfOf (r : Rev) (pos : Nat) : XE := ⟨r.lay.xnum, 1, pos + (renderObjs r.objs pos).1.length, 0⟩

/-- the sorted rows -/
def xesOf (r : Rev) (pos : Nat) : List XE := sortXE (usesOf r pos ++ memsOf r ++ freesOf r ++ [xselfOf r pos])

theorem renderRev_xref (r : Rev) (pos : Nat) (hk : r.lay.kind = 1) (hs : r.lay.swap = none) (hr : r.lay.relabel = none) :
    renderRev r pos none =
      ((renderObjs r.objs pos).1 ++
        (renderXrefStream r.lay (pos + (renderObjs r.objs pos).1.length) (xesOf r pos) (sizeOf r pos) (some r.root) none).1 ++
        tailBytes (pos + (renderObjs r.objs pos).1.length) r.lay.ch,
       pos + (renderObjs r.objs pos).1.length,
       ⟨(renderObjs r.objs pos).2.2 ++ (r.members.map fun m => ((m.1, 0), m.2.2.2)) ++
          [((r.lay.xnum, 0),
            (renderXrefStream r.lay (pos + (renderObjs r.objs pos).1.length) (xesOf r pos) (sizeOf r pos) (some r.root) none).2)],
        r.frees.map (·.1), r.root⟩) := by
  unfold renderRev
  simp only [hk, hs, hr, swapOfs, relabelUse]
  rfl

/-- the cross-reference stream object of the rendered revision -/
def xsOf (binary : Bool) (r : Rev) : WStm :=
  xstmOf r.lay (xesOf r (header binary).length) (sizeOf r (header binary).length) r.root

def xfileOf (garbage : Bytes) (binary : Bool) (r : Rev) : XrefStreamFile :=
  let pos := (header binary).length
  { garbage := garbage
    hdrRest := hdrTail binary ++ nextPre r.objs
    body1 := placedOf r.objs
    xs := xsOf binary r
    xpost := [10]
    body2 := []
    gap := []
    wsx := (wsReq r.lay.ch).1
    ds := natDigits (pos + (renderObjs r.objs pos).1.length)
    e := [10]
    trail := [10] }

/-- the restriction of the link for cross-reference stream layouts (`_partial`) -/
structure SimpleRevX (r : Rev) : Prop where
  kind : r.lay.kind = 1
  swap : r.lay.swap = none
  relabel : r.lay.relabel = none
  noMembers : r.members = []
  objs : ∀ o ∈ r.objs, SimpleObj o
  gens : ∀ o ∈ r.objs, o.gen ≤ 65535
  freeGens : ∀ f ∈ r.frees, f.2 ≤ 65535
  /-- object numbers are pairwise distinct (written objects, object 0 if listed, free entries, the stream object) -/
  numsNodup : (r.objs.map DObj.num ++ (((if r.zero then [0] else []) ++ r.frees.map Prod.fst) ++ [r.lay.xnum])).Nodup
  numsFit : ∀ n ∈ r.objs.map DObj.num ++ (r.frees.map Prod.fst ++ [r.lay.xnum]), n < i64Max
  count : r.objs.length + r.frees.length + 2 < 2 ^ 63
  rootFit : r.root.1 ≤ i64Max ∧ r.root.2 ≤ i64Max
  w0 : r.lay.w0 ≤ 4

theorem xfileOf_bytes (garbage : Bytes) (binary : Bool) (r : Rev) (h : SimpleRevX r) :
    (renderHistory garbage binary [(r, .auto)]).1 = (xfileOf garbage binary r).bytes ∧
    (renderHistory garbage binary [(r, .auto)]).2.2.2 =
      [⟨(renderObjs r.objs (header binary).length).2.2 ++
          [((r.lay.xnum, 0), ((xsOf binary r).val ((header binary).length + (renderObjs r.objs (header binary).length).1.length)).val)],
        r.frees.map (·.1), r.root⟩] := by
  simp only [renderHistory, renderRevs, List.getLast?_nil, List.nil_append]
  rw [renderRev_xref r _ h.kind h.swap h.relabel, renderXrefStream_eq, h.noMembers]
  constructor
  · simp only [List.append_nil, XrefStreamFile.bytes, XrefStreamFile.view, XrefStreamFile.mid, XrefStreamFile.hdr,
      XrefStreamFile.body, xfileOf, xsOf, bodyBytes_append, bodyBytes, WStm.piece, tailBytes_eq]
    generalize (header binary).length = p
    rw [renderObjs_body r.objs _ h.objs, header_eq]
    simp only [List.append_assoc]
  · simp only [List.map_nil, List.append_nil]
    rfl


theorem wstm_data_le (o : WStm) : o.data.length ≤ o.bytes.length := by
  simp only [WStm.bytes, WObj.headBytes, WStm.tailBytes, List.length_append]; omega

theorem xfileOf_objs (garbage : Bytes) (binary : Bool) (r : Rev) :
    (xfileOf garbage binary r).objs =
      place (placedOf r.objs) ((header binary).length + (nextPre r.objs).length) ++
        [((xsOf binary r).piece, (xfileOf garbage binary r).xofs)] := by
  unfold XrefStreamFile.objs XrefStreamFile.body
  rw [bodyBytes_length_place]
  have e1 : (xfileOf garbage binary r).hdr.length = (header binary).length + (nextPre r.objs).length := by
    simp only [XrefStreamFile.hdr, xfileOf, header_eq, List.length_append]; omega
  rw [e1]
  simp only [place, XrefStreamFile.xofs, e1]
  rfl

theorem memsOf_nil (r : Rev) (h : r.members = []) : memsOf r = [] := by simp [memsOf, h]

/-- **`xfileOf_wf`**: the layout of the file rendered for a cross-reference stream revision is well formed -/
theorem xfileOf_wf (garbage : Bytes) (binary : Bool) (r : Rev) (hg : NoMagic garbage) (h : SimpleRevX r)
    (hstore : XStoreFits r.lay (xesOf r (header binary).length))
    (hlen : (xfileOf garbage binary r).bytes.length < 2 ^ 32) :
    (xfileOf garbage binary r).WF (xsubsOf r.lay.cut (xesOf r (header binary).length))
      (xw0 r.lay (xesOf r (header binary).length)) (xw1 r.lay (xesOf r (header binary).length))
      (xw2 r.lay (xesOf r (header binary).length)) r.root := by
  have hU := usesOf_eq r (header binary).length h.objs
  have hO := xfileOf_objs garbage binary r
  have hperm : (xesOf r (header binary).length).Perm
      (usesOf r (header binary).length ++ freesOf r ++ [xselfOf r (header binary).length]) := by
    have := sortXE_perm (usesOf r (header binary).length ++ memsOf r ++ freesOf r ++ [xselfOf r (header binary).length])
    rw [memsOf_nil r h.noMembers, List.append_nil] at this
    unfold xesOf
    rw [memsOf_nil r h.noMembers, List.append_nil]
    exact this
  generalize hes : xesOf r (header binary).length = es at *
  generalize hf : xfileOf garbage binary r = f at *
  have hxs : f.xs = xstmOf r.lay es (sizeOf r (header binary).length) r.root := by rw [← hf, ← hes]; rfl
  have hbody1 : f.body1 = placedOf r.objs := by rw [← hf]; rfl
  have hxsOf : xsOf binary r = f.xs := by rw [← hf]; rfl
  rw [hxsOf] at hO
  have hi63 : i64Max = 2 ^ 63 - 1 := rfl
  -- positions and sizes
  have hpos : (header binary).length + (renderObjs r.objs (header binary).length).1.length = f.xofs := by
    rw [renderObjs_body r.objs _ h.objs, XrefStreamFile.xofs, hbody1, ← hf]
    simp only [XrefStreamFile.hdr, xfileOf, header_eq, List.length_append]
    omega
  have hself : xselfOf r (header binary).length = ⟨r.lay.xnum, 1, f.xofs, 0⟩ := by rw [xselfOf, hpos]
  have hp1 : f.xofs + f.xs.bytes.length ≤ f.bytes.length := by
    simp only [XrefStreamFile.xofs, XrefStreamFile.bytes, XrefStreamFile.view, XrefStreamFile.mid, XrefStreamFile.body,
      bodyBytes_append, bodyBytes, WStm.piece, List.length_append]
    omega
  have hxpos := WStm.bytes_pos f.xs
  have hdl := wstm_data_le f.xs
  have hofs1 : ∀ q ∈ place (placedOf r.objs) ((header binary).length + (nextPre r.objs).length), q.2 < 2 ^ 32 := by
    intro q hq
    have := place_bound (placedOf r.objs) _ q hq
    have e1 : f.hdr.length = (header binary).length + (nextPre r.objs).length := by
      rw [← hf]; simp only [XrefStreamFile.hdr, xfileOf, header_eq, List.length_append]; omega
    have e2 : f.xofs = f.hdr.length + (bodyBytes (placedOf r.objs)).length := by rw [XrefStreamFile.xofs, hbody1]
    omega
  have hds : f.ds = natDigits f.xofs := by rw [← hpos, ← hf]; rfl
  have hfit : f.xofs ≤ i64Max := by rw [hi63]; omega
  obtain ⟨d1, d2, d3⟩ := natDigits_spec _ hfit
  have hnumsU : (usesOf r (header binary).length).map (·.num) = r.objs.map DObj.num := by
    rw [hU, List.map_map]; exact pieces_nums r.objs _ h.objs
  have hxnum : r.lay.xnum < i64Max := h.numsFit _ (by simp)
  have hsize : sizeOf r (header binary).length ≤ i64Max := by
    unfold sizeOf
    have : maxOf ((usesOf r (header binary).length ++ memsOf r ++ freesOf r).map (·.num) ++ [r.lay.xnum]) ≤ i64Max - 1 := by
      apply maxOf_le
      intro x hx
      have hnf := h.numsFit
      rw [memsOf_nil r h.noMembers, List.append_nil, List.map_append, hnumsU, freesOf_nums] at hx
      simp only [List.mem_append, List.mem_singleton] at hx hnf
      rcases hx with (hx | hx | hx) | hx
      · have := hnf x (Or.inl hx); omega
      · cases hz : r.zero <;> simp [hz] at hx
        omega
      · have := hnf x (Or.inr (Or.inl hx)); omega
      · have := hnf x (Or.inr (Or.inr hx)); omega
    omega
  -- the rows
  have hrows : ∀ e ∈ es, e.typ ≤ 1 ∧ e.num < 2 ^ 63 ∧ e.f2 < 2 ^ 32 ∧ e.f3 ≤ 65535 := by
    intro e he
    have he' := hperm.mem_iff.mp he
    have hnf := h.numsFit
    simp only [List.mem_append, List.mem_singleton] at he' hnf
    rcases he' with (he' | he') | he'
    · rw [hU] at he'
      obtain ⟨q, hq, rfl⟩ := List.mem_map.mp he'
      have hm : q.1 ∈ r.objs.map pieceOf := by
        rw [← place_fst r.objs ((header binary).length + (nextPre r.objs).length)]
        exact List.mem_map_of_mem hq
      obtain ⟨o, ho, hoq⟩ := List.mem_map.mp hm
      have hso := h.objs o ho
      refine ⟨Nat.le_refl 1, ?_, hofs1 q hq, ?_⟩
      · show q.1.num < 2 ^ 63
        rw [← hoq, pieceOf_num o hso]
        have := hso.2.1
        omega
      · show q.1.gen ≤ 65535
        rw [← hoq, pieceOf_gen o hso]
        exact h.gens o ho
    · unfold freesOf at he'
      simp only [List.mem_append, List.mem_map] at he'
      rcases he' with he' | ⟨fr, hfr, rfl⟩
      · cases hz : r.zero <;> simp [hz] at he'
        subst he'
        exact ⟨by decide, by decide, by decide, by decide⟩
      · refine ⟨Nat.zero_le 1, ?_, (by decide : (0 : Nat) < 2 ^ 32), h.freeGens fr hfr⟩
        have := hnf fr.1 (Or.inr (Or.inl (List.mem_map_of_mem hfr)))
        show fr.1 < 2 ^ 63
        omega
    · rw [he', hself]
      refine ⟨Nat.le_refl 1, ?_, ?_, Nat.zero_le _⟩
      · show r.lay.xnum < 2 ^ 63; omega
      · show f.xofs < 2 ^ 32; omega
  have hO1len : (place (placedOf r.objs) ((header binary).length + (nextPre r.objs).length)).length = r.objs.length := by
    have := congrArg List.length (place_fst r.objs ((header binary).length + (nextPre r.objs).length))
    simpa using this
  have hcount : es.length < 2 ^ 63 := by
    rw [hperm.length_eq]
    simp only [List.length_append, List.length_cons, List.length_nil, hU, List.length_map, hO1len]
    have : (freesOf r).length ≤ r.frees.length + 1 := by
      unfold freesOf
      cases r.zero <;> simp
    have := h.count
    omega
  have hne : es ≠ [] := by
    intro he
    have := hperm.length_eq
    rw [he] at this
    simp at this
  have hidx : ∀ n ∈ xindexOf r.lay.cut es, n ≤ i64Max := by
    intro n hn
    unfold xindexOf at hn
    obtain ⟨run, hrun, hn⟩ := List.mem_flatMap.mp hn
    simp only [List.mem_cons, List.mem_nil_iff, or_false] at hn
    rcases hn with rfl | rfl
    · cases hr : run with
      | nil => simp [startOf]
      | cons a t =>
        have ha : a ∈ es := runs_mem_sub _ _ run hrun a (by rw [hr]; exact List.mem_cons_self)
        have := (hrows a ha).2.1
        simp only [startOf, List.head?_cons, Option.map_some, Option.getD_some]
        omega
    · have := runs_length_le r.lay.cut es run hrun
      omega
  have hfitN : XNumsFit r.lay es (sizeOf r (header binary).length) r.root :=
    ⟨hsize, h.rootFit.1, h.rootFit.2, hidx, h.w0⟩
  have hdata : (xdataOf r.lay es).length ≤ i64Max := by
    have : (xdataOf r.lay es).length = f.xs.data.length := by rw [hxs]; rfl
    omega
  have hse : streamEnts (xsubsOf r.lay.cut es) = es.map entOf :=
    streamEnts_xsubsOf _ _ (fun e he => (hrows e he).1)
  have hxsnum : f.xs.num = r.lay.xnum := by rw [hxs]; exact xstm_num _ _ _ _ (by omega)
  have hxsgen : f.xs.gen = 0 := by rw [hxs]; rfl
  have hnd := h.numsNodup
  have hobjs_nums : f.objs.map (fun q => q.1.num) = r.objs.map DObj.num ++ [r.lay.xnum] := by
    rw [hO, List.map_append, pieces_nums r.objs _ h.objs]
    simp only [List.map_cons, List.map_nil]
    rw [show (f.xs.piece).num = f.xs.num from rfl, hxsnum]
  exact {
    noMagic := by
      have : f.bytes = f.garbage ++ f.view := rfl
      have hgb : f.garbage = garbage := by rw [← hf]; rfl
      rw [this, hgb]
      intro k hk
      have hv : f.view = kwPdf ++ (f.hdrRest ++ (f.mid ++ (kwStartxref ++ (f.wsx ++ (f.ds ++ (f.e ++ (kwEOF ++ f.trail))))))) := by
        simp [XrefStreamFile.view, XrefStreamFile.hdr]
      rw [List.drop_append_of_le_length (by omega), hv, ← List.append_assoc,
        isPrefixOf_append_of_le _ _ _ (by simp [kwPdf])]
      exact hg k hk
    xsOK := by rw [hxs]; exact xstm_ok _ _ _ _ (by omega) hdata hfitN
    xsLen := by rw [hxs]; exact xstm_len _ _ _ _
    dict := by rw [hxs]; exact xstm_dict _ _ _ _ h.w0
    root := by rw [hxs]; exact xstm_root _ _ _ _
    noPrev := by rw [hxs]; exact xstm_noPrev _ _ _ _
    fits := xsubsOf_fits r.lay r.lay.cut es (fun e he => ⟨(hrows e he).1, (hrows e he).2.2.1, by have := (hrows e he).2.2.2; omega⟩)
    lim := xsubsOf_lim r.lay.cut es (fun e he => (hrows e he).2.1) hcount
    numsNodup := by
      rw [hse, List.map_map]
      have : es.map ((fun x => x.obj) ∘ entOf) = es.map (·.num) := rfl
      rw [this]
      apply (hperm.map _).nodup_iff.mpr
      rw [List.map_append, List.map_append, hnumsU, freesOf_nums, hself]
      simpa [List.append_assoc] using hnd
    wsx := by rw [← hf]; exact (wsReq_run _).1
    wsxNe := by rw [← hf]; exact (wsReq_run _).2
    wsxNoS := by rw [← hf]; exact wsReq_no_s _
    dsNe := by rw [hds]; exact d1
    dsDig := by rw [hds]; exact d2
    startxref := by rw [hds]; exact d3
    ofsFits := by rw [hds, d3]; exact hfit
    e := by rw [← hf]; show ∀ y ∈ ([10] : Bytes), isWsEol y = true; decide
    trail := by rw [← hf]; exact noLaterEOF_of_no_percent [10] (by decide)
    stored := by rw [hxs]; exact xstm_stored _ _ _ _ hne hstore
    reads1 := by
      intro q hq
      rw [hbody1] at hq
      obtain ⟨o, ho, e⟩ := mem_placedOf r.objs q hq
      rw [e]
      exact pieceOf_reads o (h.objs o ho)
    reads2 := by
      intro q hq
      have : f.body2 = [] := by rw [← hf]; rfl
      rw [this] at hq
      cases hq
    idsNodup := by
      apply nodup_of_map Prod.fst
      rw [List.map_map]
      have : f.objs.map (Prod.fst ∘ fun q => (q.1.num, q.1.gen)) = f.objs.map (fun q => q.1.num) := rfl
      rw [this, hobjs_nums]
      have h1 : (r.objs.map DObj.num ++ [r.lay.xnum]).Sublist
          (r.objs.map DObj.num ++ (((if r.zero then [0] else []) ++ r.frees.map Prod.fst) ++ [r.lay.xnum])) :=
        List.Sublist.append_left (List.sublist_append_right _ _) _
      exact hnd.sublist h1
    tableObjs := by
      have hfil : (es.filter (·.typ == 1)).Perm (f.objs.map xeOf) := by
        have := hperm.filter (·.typ == 1)
        rw [List.filter_append, List.filter_append, freesOf_filter, List.append_nil, hU, uses_filter, hself] at this
        rw [hO, List.map_append]
        have e2 : [(f.xs.piece, f.xofs)].map xeOf = [(⟨r.lay.xnum, 1, f.xofs, 0⟩ : XE)] := by
          simp only [List.map_cons, List.map_nil, xeOf]
          rw [show (f.xs.piece).num = f.xs.num from rfl, show (f.xs.piece).gen = f.xs.gen from rfl, hxsnum, hxsgen]
        rw [e2]
        exact this
      obtain ⟨perm, hp, hm⟩ := perm_of_perm_map xeOf hfil
      refine ⟨perm, hp, ?_⟩
      rw [hse, infoOf_map_entOf, ← hm, List.map_map]
      rfl }


theorem xfileOf_xofs (garbage : Bytes) (binary : Bool) (r : Rev) (h : ∀ o ∈ r.objs, SimpleObj o) :
    (xfileOf garbage binary r).xofs = (header binary).length + (renderObjs r.objs (header binary).length).1.length := by
  rw [renderObjs_body r.objs _ h]
  simp only [XrefStreamFile.xofs, XrefStreamFile.hdr, xfileOf, header_eq, List.length_append]
  omega

theorem xfileOf_written_gen (garbage : Bytes) (binary : Bool) (r : Rev) (h : SimpleRevX r) :
    (xfileOf garbage binary r).objs.map (fun q => ((q.1.num, q.1.gen), (q.1.val q.2).val)) =
      (renderObjs r.objs (header binary).length).2.2 ++
        [((r.lay.xnum, 0), ((xsOf binary r).val (xfileOf garbage binary r).xofs).val)] := by
  have hx : r.lay.xnum ≤ i64Max := Nat.le_of_lt (h.numsFit _ (by simp))
  rw [xfileOf_objs, List.map_append, renderObjs_body r.objs _ h.objs]
  simp only [List.map_cons, List.map_nil]
  have e1 : (xsOf binary r).piece.num = r.lay.xnum := xstm_num _ _ _ _ hx
  have e2 : (xsOf binary r).piece.gen = 0 := rfl
  rw [e1, e2]
  rfl

theorem xfileOf_written (garbage : Bytes) (binary : Bool) (r : Rev) (h : SimpleRevX r) (hv : ∀ o ∈ r.objs, isVal o = true) :
    (xfileOf garbage binary r).objs.map (fun q => ((q.1.num, q.1.gen), (q.1.val q.2).val)) =
      r.objs.map (fun o => ((o.num, o.gen), valOf o)) ++
        [((r.lay.xnum, 0), ((xsOf binary r).val (xfileOf garbage binary r).xofs).val)] := by
  have hx : r.lay.xnum ≤ i64Max := Nat.le_of_lt (h.numsFit _ (by simp))
  rw [xfileOf_objs, List.map_append, pieces_written r.objs _ h.objs hv]
  simp only [List.map_cons, List.map_nil]
  have e1 : (xsOf binary r).piece.num = r.lay.xnum := xstm_num _ _ _ _ hx
  have e2 : (xsOf binary r).piece.gen = 0 := rfl
  rw [e1, e2]
  rfl

/-- **the link (cross-reference stream)**: the file rendered for one simple revision of kind 1 is (the bytes of) a
    well-formed `XrefStreamFile` whose objects - the cross-reference stream object included - are exactly what the
    revision said it wrote -/
theorem render_is_xrefstream (garbage : Bytes) (binary : Bool) (r : Rev) (hg : NoMagic garbage) (h : SimpleRevX r)
    (hstore : XStoreFits r.lay (xesOf r (header binary).length))
    (hlen : (renderHistory garbage binary [(r, .auto)]).1.length < 2 ^ 32) :
    ∃ (f : XrefStreamFile) (subs : List (Nat × List SEnt)) (w0 w1 w2 : Nat),
      f.bytes = (renderHistory garbage binary [(r, .auto)]).1 ∧ f.WF subs w0 w1 w2 r.root ∧
      (renderHistory garbage binary [(r, .auto)]).2.2.2 =
        [⟨f.objs.map (fun q => ((q.1.num, q.1.gen), (q.1.val q.2).val)), r.frees.map Prod.fst, r.root⟩] ∧
      ((∀ o ∈ r.objs, isVal o = true) → f.objs.map (fun q => ((q.1.num, q.1.gen), (q.1.val q.2).val)) =
        r.objs.map (fun o => ((o.num, o.gen), valOf o)) ++ [((r.lay.xnum, 0), (f.xs.val f.xofs).val)]) ∧
      f.objs.map Prod.fst = r.objs.map pieceOf ++ [f.xs.piece] ∧ f.xs.piece.num = r.lay.xnum ∧ f.xs.piece.gen = 0 := by
  obtain ⟨hb, hs⟩ := xfileOf_bytes garbage binary r h
  rw [hb] at hlen
  refine ⟨xfileOf garbage binary r, _, _, _, _, hb.symm, xfileOf_wf garbage binary r hg h hstore hlen, ?_,
    xfileOf_written garbage binary r h, ?_, xstm_num _ _ _ _ (Nat.le_of_lt (h.numsFit _ (by simp))), rfl⟩
  · rw [hs, xfileOf_written_gen garbage binary r h, xfileOf_xofs garbage binary r h.objs]
  · rw [xfileOf_objs, List.map_append, place_fst]
    rfl

end Parsley.LoaderE2E
