/-
  Lookup lemmas for the sorted-dictionary insert (`dictInsert` / `dictGet`), the canonical
  dictionary `canonKvs`, the written-entry dictionary `dictOf`, and `rotate`.
-/
import Parsley.Spec.Doc
import Parsley.Props.C02Struct
namespace Parsley.LoaderE2E
open Parsley Parsley.Obj Parsley.DocSpec Parsley.C02

theorem bytesLt_asymm_x : ∀ (a b : Bytes), bytesLt a b = true → bytesLt b a = false
  | [], [], h => by simp [bytesLt] at h
  | [], _ :: _, _ => by simp [bytesLt]
  | _ :: _, [], h => by simp [bytesLt] at h
  | a :: s, b :: t, h => by
    simp only [bytesLt] at h ⊢
    by_cases h1 : a < b
    · have h2 : ¬ b < a := by rw [UInt8.lt_iff_toNat_lt] at *; omega
      simp [h1, h2]
    · by_cases h2 : b < a
      · simp [h1, h2] at h
      · simp only [h1, h2, if_false] at h ⊢
        exact bytesLt_asymm_x s t h

theorem bytesLt_irrefl_x (a : Bytes) : bytesLt a a = false := by
  cases h : bytesLt a a with
  | false => rfl
  | true => have := bytesLt_asymm_x a a h; simp_all

theorem bytesLt_total_x : ∀ (a b : Bytes), bytesLt a b = false → bytesLt b a = false → a = b
  | [], [], _, _ => rfl
  | [], _ :: _, h, _ => by simp [bytesLt] at h
  | _ :: _, [], _, h => by simp [bytesLt] at h
  | a :: s, b :: t, h1, h2 => by
    simp only [bytesLt] at h1 h2
    by_cases hab : a < b
    · simp [hab] at h1
    · by_cases hba : b < a
      · simp [hba] at h2
      · simp only [hab, hba, if_false] at h1 h2
        have : a = b := by
          apply UInt8.toNat_inj.mp
          rw [UInt8.lt_iff_toNat_lt] at *; omega
        rw [this, bytesLt_total_x s t h1 h2]

/-- holds for ANY list `m` (sorted or not) -/
theorem dictGet_insert_self (k : Bytes) (v : Obj) (m : List (Bytes × Obj)) :
    dictGet k (dictInsert k v m) = some v := by
  induction m with
  | nil => simp [dictInsert, dictGet]
  | cons x t ih =>
    obtain ⟨k', v'⟩ := x
    cases h1 : bytesLt k k' with
    | true => simp [dictInsert, h1, dictGet]
    | false =>
      cases h2 : bytesLt k' k with
      | true =>
        have hne : k ≠ k' := by
          intro he
          rw [he, bytesLt_irrefl_x] at h2
          exact absurd h2 (by decide)
        have hb : (k == k') = false := beq_eq_false_iff_ne.mpr hne
        simp [dictInsert, h1, h2, dictGet, hb, ih]
      | false => simp [dictInsert, h1, h2, dictGet]

theorem dictGet_insert_ne (k k' : Bytes) (v : Obj) (m : List (Bytes × Obj)) (h : k ≠ k') :
    dictGet k (dictInsert k' v m) = dictGet k m := by
  have hb : (k == k') = false := beq_eq_false_iff_ne.mpr h
  induction m with
  | nil => simp [dictInsert, dictGet, hb]
  | cons x t ih =>
    obtain ⟨k'', v''⟩ := x
    cases h1 : bytesLt k' k'' with
    | true => simp [dictInsert, h1, dictGet, hb]
    | false =>
      cases h2 : bytesLt k'' k' with
      | true => simp [dictInsert, h1, h2, dictGet, ih]
      | false =>
        have he : k' = k'' := bytesLt_total_x k' k'' h1 h2
        subst he
        simp [dictInsert, h1, dictGet, hb]

theorem dictGet_foldl_none (l : List (Bytes × Obj)) (m : List (Bytes × Obj)) (k : Bytes)
    (h : k ∉ l.map Prod.fst) :
    dictGet k (l.foldl (fun m kv => dictInsert kv.1 kv.2 m) m) = dictGet k m := by
  induction l generalizing m with
  | nil => rfl
  | cons x t ih =>
    simp only [List.map_cons, List.mem_cons, not_or] at h
    simp only [List.foldl_cons]
    rw [ih _ h.2, dictGet_insert_ne _ _ _ _ h.1]

theorem dictGet_foldl_mem (l : List (Bytes × Obj)) (m : List (Bytes × Obj))
    (hnd : (l.map Prod.fst).Nodup) (k : Bytes) (v : Obj) (h : (k, v) ∈ l) :
    dictGet k (l.foldl (fun m kv => dictInsert kv.1 kv.2 m) m) = some v := by
  induction l generalizing m with
  | nil => simp at h
  | cons x t ih =>
    simp only [List.map_cons, List.nodup_cons] at hnd
    simp only [List.foldl_cons]
    rcases List.mem_cons.mp h with he | ht
    · subst he
      rw [dictGet_foldl_none t _ k hnd.1]
      exact dictGet_insert_self k v m
    · exact ih _ hnd.2 ht

theorem dictGet_canon_mem (l : List (Bytes × Obj)) (hnd : (l.map Prod.fst).Nodup) (k : Bytes) (v : Obj)
    (h : (k, v) ∈ l) : dictGet k (canonKvs l) = some v :=
  dictGet_foldl_mem l [] hnd k v h

theorem dictGet_canon_none (l : List (Bytes × Obj)) (k : Bytes) (h : k ∉ l.map Prod.fst) :
    dictGet k (canonKvs l) = none := by
  unfold canonKvs
  rw [dictGet_foldl_none l [] k h]
  rfl

theorem accMap_eq_foldl (l : List (Bytes × Obj)) (m : List (Bytes × Obj))
    (h : ∀ kv ∈ l, isNullV kv.2 = false) :
    accMap m l = l.foldl (fun m kv => dictInsert kv.1 kv.2 m) m := by
  induction l generalizing m with
  | nil => rfl
  | cons x t ih =>
    obtain ⟨k, v⟩ := x
    have hv : isNullV v = false := h (k, v) (List.mem_cons_self ..)
    simp only [accMap, hv, List.foldl_cons]
    exact ih _ (fun kv hkv => h kv (List.mem_cons_of_mem _ hkv))

/-- the dictionary value denoted by written entries without null values is the canonical dictionary -/
theorem dictOf_eq_canon (l : List (Bytes × Obj)) (h : ∀ kv ∈ l, isNullV kv.2 = false) :
    dictOf l = canonKvs l :=
  accMap_eq_foldl l [] h

theorem rotate_perm {α : Type} (l : List α) (k : Nat) : (rotate l k).Perm l := by
  unfold rotate
  refine List.perm_append_comm.trans ?_
  rw [List.take_append_drop]

theorem mem_rotate {α : Type} (l : List α) (k : Nat) (x : α) : x ∈ rotate l k ↔ x ∈ l :=
  (rotate_perm l k).mem_iff

theorem rotate_map {α β : Type} (f : α → β) (l : List α) (k : Nat) :
    (rotate l k).map f = rotate (l.map f) k := by
  simp only [rotate, List.map_append, List.map_drop, List.map_take, List.length_map]

end Parsley.LoaderE2E
