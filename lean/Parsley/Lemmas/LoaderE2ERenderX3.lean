/-
  Pure list lemmas relating the cross-reference STREAM data computed by the spec-side encoder
  `xrefStreamParts` of `Spec/Doc.lean` (rows, /Index numbers, /W widths) to the declarative
  subsections `(start, rows)` used by the end-to-end loader theorems (`XrefStreamFile.rowBytes`,
  `indexAtoms`, `streamEnts`, `SEnt.fits`).
-/
import Parsley.Lemmas.LoaderE2ERender2
import Parsley.Lemmas.LoaderE2EXrefLoad
namespace Parsley.LoaderE2E
open Parsley Parsley.Obj Parsley.DocSpec Parsley.XrefSpec Parsley.C13 Parsley.Spelling Parsley.Loader

def sentOf (e : XE) : SEnt := ⟨e.typ, e.f2, e.f3⟩
def startOf (r : List XE) : Nat := (r.head?.map (·.num)).getD 0
/-- the /Index subsections with their rows for entries `es` -/
def xsubsOf (cut : Nat) (es : List XE) : List (Nat × List SEnt) := (runs cut es).map fun r => (startOf r, r.map sentOf)
/-- the /Index numbers the encoder writes -/
def xindexOf (cut : Nat) (es : List XE) : List Nat := (runs cut es).flatMap fun r => [startOf r, r.length]
-- the widths, exactly as `xrefStreamParts` computes them
def xw0 (lay : RevLay) (es : List XE) : Nat :=
  if lay.w0 == 0 && es.all (·.typ == 1) then 0 else if lay.w0 == 0 then 1 else lay.w0
def xw1 (lay : RevLay) (es : List XE) : Nat := Nat.min 4 (bytesNeeded (maxOf (es.map (·.f2))) + lay.x1)
def xw2 (lay : RevLay) (es : List XE) : Nat :=
  Nat.min 4 ((if maxOf (es.map (·.f3)) == 0 then 0 else bytesNeeded (maxOf (es.map (·.f3)))) + lay.x2)

/-! ### maxima -/

theorem foldl_max_ge (l : List Nat) : ∀ acc : Nat, acc ≤ l.foldl Nat.max acc := by
  induction l with
  | nil => intro acc; exact Nat.le_refl _
  | cons a t ih =>
    intro acc
    simp only [List.foldl_cons]
    exact Nat.le_trans (Nat.le_max_left acc a) (ih (Nat.max acc a))

theorem le_foldl_max (l : List Nat) (x : Nat) (h : x ∈ l) : ∀ acc : Nat, x ≤ l.foldl Nat.max acc := by
  induction l with
  | nil => simp at h
  | cons a t ih =>
    intro acc
    simp only [List.foldl_cons]
    simp only [List.mem_cons] at h
    rcases h with h | h
    · subst h
      exact Nat.le_trans (Nat.le_max_right acc x) (foldl_max_ge t (Nat.max acc x))
    · exact ih h (Nat.max acc a)

theorem le_maxOf (l : List Nat) (x : Nat) (h : x ∈ l) : x ≤ maxOf l :=
  le_foldl_max l x h 0

theorem foldl_max_lt (l : List Nat) (B : Nat) (h : ∀ x ∈ l, x < B) : ∀ acc : Nat, acc < B → l.foldl Nat.max acc < B := by
  induction l with
  | nil => intro acc hacc; exact hacc
  | cons a t ih =>
    intro acc hacc
    simp only [List.foldl_cons]
    apply ih (fun x hx => h x (List.mem_cons_of_mem _ hx))
    exact Nat.max_lt.mpr ⟨hacc, h a List.mem_cons_self⟩

theorem maxOf_lt (l : List Nat) (B : Nat) (h : ∀ x ∈ l, x < B) (hB : 0 < B) : maxOf l < B :=
  foldl_max_lt l B h 0 hB

/-! ### rows, entries, /Index -/

theorem rowBytes_xsubsOf (cut : Nat) (es : List XE) (w0 w1 w2 : Nat) :
    XrefStreamFile.rowBytes (xsubsOf cut es) w0 w1 w2 = encRows w0 w1 w2 (es.map fun e => ⟨e.typ, e.f2, e.f3⟩) := by
  have key : ∀ rs : List (List XE),
      (rs.map fun r => (startOf r, r.map sentOf)).flatMap (fun p => encRows w0 w1 w2 p.2)
        = encRows w0 w1 w2 (rs.flatten.map sentOf) := by
    intro rs
    induction rs with
    | nil => rfl
    | cons r t ih =>
      simp only [List.map_cons, List.flatMap_cons, List.flatten_cons, List.map_append, ih]
      simp only [encRows, List.flatMap_append]
  have := key (runs cut es)
  rw [runs_flatten] at this
  exact this

theorem sEnt_sentOf (a : XE) (h : a.typ ≤ 1) : sEnt a.num (sentOf a) = entOf a := by
  obtain ⟨num, typ, f2, f3⟩ := a
  simp only at h
  match typ, h with
  | 0, _ => rfl
  | 1, _ => rfl

theorem numberS_run (r : List XE) : ∀ s : Nat, Consec r → (∀ e, r.head? = some e → e.num = s) →
    (∀ e ∈ r, e.typ ≤ 1) → numberS s (r.map sentOf) = r.map entOf := by
  induction r with
  | nil => intro s _ _ _; rfl
  | cons a t ih =>
    intro s hc hs ht
    have ha : a.num = s := hs a rfl
    simp only [List.map_cons, numberS]
    have h1 : sEnt s (sentOf a) = entOf a := by
      rw [← ha]; exact sEnt_sentOf a (ht a List.mem_cons_self)
    have h2 : numberS (s + 1) (t.map sentOf) = t.map entOf := by
      apply ih
      · cases t with
        | nil => trivial
        | cons b t' => exact hc.2
      · intro e he
        cases t with
        | nil => simp at he
        | cons b t' =>
          simp only [List.head?_cons, Option.some.injEq] at he
          subst he
          have := hc.1
          omega
      · intro e he; exact ht e (List.mem_cons_of_mem _ he)
    rw [h1, h2]

theorem streamEnts_xsubsOf (cut : Nat) (es : List XE) (h : ∀ e ∈ es, e.typ ≤ 1) :
    streamEnts (xsubsOf cut es) = es.map entOf := by
  have key : ∀ rs : List (List XE), (∀ r ∈ rs, Consec r) → (∀ r ∈ rs, ∀ e ∈ r, e.typ ≤ 1) →
      (rs.map fun r => (startOf r, r.map sentOf)).flatMap (fun p => numberS p.1 p.2)
        = rs.flatten.map entOf := by
    intro rs
    induction rs with
    | nil => intro _ _; rfl
    | cons r t ih =>
      intro hc ht
      simp only [List.map_cons, List.flatMap_cons, List.flatten_cons, List.map_append]
      rw [ih (fun r' hr' => hc r' (List.mem_cons_of_mem _ hr')) (fun r' hr' => ht r' (List.mem_cons_of_mem _ hr'))]
      rw [numberS_run r (startOf r) (hc r List.mem_cons_self) (by intro e he; simp [startOf, he])
        (ht r List.mem_cons_self)]
  have := key (runs cut es) (runs_consec cut es)
    (fun r hr e he => h e (runs_mem_sub cut es r hr e he))
  rw [runs_flatten] at this
  exact this

theorem indexAtoms_xsubsOf (cut : Nat) (es : List XE) :
    indexAtoms (xsubsOf cut es) = (xindexOf cut es).map fun n => Obj.int (Int.ofNat n) := by
  have key : ∀ rs : List (List XE),
      indexAtoms (rs.map fun r => (startOf r, r.map sentOf))
        = (rs.flatMap fun r => [startOf r, r.length]).map fun n => Obj.int (Int.ofNat n) := by
    intro rs
    induction rs with
    | nil => rfl
    | cons r t ih =>
      simp only [List.map_cons, indexAtoms, List.flatMap_cons, List.cons_append, List.nil_append, ih,
        List.length_map]
      rfl
  exact key (runs cut es)

theorem xindex_plain (cut : Nat) (es : List XE) (size : Nat) (h : xindexOf cut es = [0, size]) :
    ∃ rows, xsubsOf cut es = [(0, rows)] ∧ size = rows.length := by
  unfold xindexOf at h
  unfold xsubsOf
  cases hr : runs cut es with
  | nil => rw [hr] at h; simp at h
  | cons r t =>
    rw [hr] at h
    cases t with
    | nil =>
      simp only [List.flatMap_cons, List.flatMap_nil, List.append_nil, List.cons.injEq, and_true] at h
      refine ⟨r.map sentOf, ?_, ?_⟩
      · simp only [List.map_cons, List.map_nil, h.1]
      · simp only [List.length_map]; exact h.2.symm
    | cons r' t' =>
      have := congrArg List.length h
      simp only [List.flatMap_cons, List.length_append, List.length_cons, List.length_nil] at this
      omega

theorem xsubsOf_lim (cut : Nat) (es : List XE) (h : ∀ e ∈ es, e.num < 2 ^ 63) (hlen : es.length < 2 ^ 63) :
    ∀ p ∈ xsubsOf cut es, p.1 + p.2.length ≤ Xref.usizeLim := by
  intro p hp
  simp only [xsubsOf, List.mem_map] at hp
  obtain ⟨r, hr, rfl⟩ := hp
  have hl := runs_length_le cut es r hr
  have hs : startOf r < 2 ^ 63 := by
    cases r with
    | nil => exact absurd rfl (runs_ne cut es [] hr)
    | cons a t =>
      have := h a (runs_mem_sub cut es _ hr a List.mem_cons_self)
      simpa [startOf] using this
  simp only [List.length_map, Xref.usizeLim]
  have : (2 : Nat) ^ 64 = 2 ^ 63 + 2 ^ 63 := by decide
  omega

/-! ### widths -/

theorem bytesNeeded_pos (v : Nat) : 0 < bytesNeeded v := by
  unfold bytesNeeded
  split
  · omega
  · split
    · omega
    · split <;> omega

theorem bytesNeeded_le (v : Nat) : bytesNeeded v ≤ 4 := by
  unfold bytesNeeded
  split
  · omega
  · split
    · omega
    · split <;> omega

theorem lt_pow_bytesNeeded (v : Nat) (h : v < 2 ^ 32) : v < 256 ^ bytesNeeded v := by
  have h1 : (256 : Nat) ^ 1 = 256 := by decide
  have h2 : (256 : Nat) ^ 2 = 65536 := by decide
  have h3 : (256 : Nat) ^ 3 = 16777216 := by decide
  have h4 : (256 : Nat) ^ 4 = 4294967296 := by decide
  have h32 : (2 : Nat) ^ 32 = 4294967296 := by decide
  unfold bytesNeeded
  split
  · omega
  · split
    · omega
    · split
      · omega
      · omega

theorem le_min4 (b x : Nat) (hb : b ≤ 4) : b ≤ Nat.min 4 (b + x) := by
  show b ≤ min 4 (b + x)
  omega

theorem min4_le (y : Nat) : Nat.min 4 y ≤ 4 := by
  show min 4 y ≤ 4
  omega

theorem lt_pow_width (v m x : Nat) (hv : v ≤ m) (hm : m < 2 ^ 32) :
    v < 256 ^ (Nat.min 4 (bytesNeeded m + x)) := by
  have h1 := lt_pow_bytesNeeded m hm
  have h2 : (256 : Nat) ^ bytesNeeded m ≤ 256 ^ (Nat.min 4 (bytesNeeded m + x)) :=
    Nat.pow_le_pow_right (by decide) (le_min4 _ _ (bytesNeeded_le m))
  omega

theorem xwidths (lay : RevLay) (es : List XE) (hw0 : lay.w0 ≤ 4) :
    xw0 lay es ≤ 4 ∧ 0 < xw1 lay es ∧ xw1 lay es ≤ 4 ∧ xw2 lay es ≤ 4 := by
  refine ⟨?_, ?_, min4_le _, min4_le _⟩
  · unfold xw0
    split
    · omega
    · split
      · omega
      · exact hw0
  · have hp := bytesNeeded_pos (maxOf (es.map (·.f2)))
    have := le_min4 (bytesNeeded (maxOf (es.map (·.f2)))) lay.x1 (bytesNeeded_le _)
    unfold xw1
    omega

theorem xsubsOf_fits (lay : RevLay) (cut : Nat) (es : List XE)
    (h : ∀ e ∈ es, e.typ ≤ 1 ∧ e.f2 < 2 ^ 32 ∧ e.f3 < 2 ^ 32) :
    ∀ p ∈ xsubsOf cut es, ∀ e ∈ p.2, e.fits (xw0 lay es) (xw1 lay es) (xw2 lay es) := by
  intro p hp e he
  simp only [xsubsOf, List.mem_map] at hp
  obtain ⟨r, hr, rfl⟩ := hp
  simp only [List.mem_map] at he
  obtain ⟨a, ha, rfl⟩ := he
  have hmem : a ∈ es := runs_mem_sub cut es r hr a ha
  obtain ⟨ht, hf2, hf3⟩ := h a hmem
  have hpos : 0 < 2 ^ 32 := by decide
  have hm2 : maxOf (es.map (·.f2)) < 2 ^ 32 := by
    apply maxOf_lt _ _ _ hpos
    intro x hx
    simp only [List.mem_map] at hx
    obtain ⟨b, hb, rfl⟩ := hx
    exact (h b hb).2.1
  have hm3 : maxOf (es.map (·.f3)) < 2 ^ 32 := by
    apply maxOf_lt _ _ _ hpos
    intro x hx
    simp only [List.mem_map] at hx
    obtain ⟨b, hb, rfl⟩ := hx
    exact (h b hb).2.2
  have hle2 : a.f2 ≤ maxOf (es.map (·.f2)) := le_maxOf _ _ (List.mem_map.mpr ⟨a, hmem, rfl⟩)
  have hle3 : a.f3 ≤ maxOf (es.map (·.f3)) := le_maxOf _ _ (List.mem_map.mpr ⟨a, hmem, rfl⟩)
  refine ⟨?_, ?_, ?_, ?_⟩
  · show a.typ ≤ 2
    omega
  · intro hz
    show a.typ = 1
    unfold xw0 at hz
    split at hz
    · rename_i hc
      simp only [Bool.and_eq_true, List.all_eq_true] at hc
      have := hc.2 a hmem
      simpa using this
    · split at hz
      · omega
      · rename_i _ hc
        simp only [beq_iff_eq] at hc
        exact absurd hz hc
  · show a.f2 < 256 ^ xw1 lay es
    exact lt_pow_width _ _ _ hle2 hm2
  · show a.f3 < 256 ^ xw2 lay es
    unfold xw2
    split
    · rename_i hc
      simp only [beq_iff_eq] at hc
      have : a.f3 = 0 := by omega
      rw [this]
      exact Nat.pow_pos (by decide)
    · exact lt_pow_width _ _ _ hle3 hm3

end Parsley.LoaderE2E
