/-
  C03b — the SCAN part of the end-to-end theorem for rendered files (Model/Loader.lean):
  cursor-exact results of the three scans of `parse_data` and of `StartXrefP`.

    scanFwd_at / scanBack_at      first / last occurrence of a tag, as plain list equalities
    noLater_of_head               "no later occurrence" from the first byte of the tag
    noLaterEOF_of_no_percent      the same for `%%EOF` (whose second byte is its first byte again)
    loadRest                      the tail of `loadView` after the startxref offset has been read
    loadView_tail                 header comment, last `%%EOF`, last `startxref` before it, `StartXrefP`
    parseData_garbage             the `%PDF-` scan and the leading-garbage view
    parseData_scan                both together
-/
import Parsley.Props.C02Struct
import Parsley.Model.Loader
namespace Parsley.LoaderE2E
open Parsley Parsley.Prim Parsley.Obj Parsley.Indirect Parsley.Loader Parsley.C02

theorem isPrefixOf_self_append (tag post : Bytes) : tag.isPrefixOf (tag ++ post) = true := by
  rw [List.isPrefixOf_iff_prefix]; exact List.prefix_append tag post

/-- first occurrence -/
theorem scanFwd_at (tag pre post : Bytes) (hne : tag ≠ [])
    (h : ∀ k, k < pre.length → tag.isPrefixOf ((pre ++ (tag ++ post)).drop k) = false) :
    scanFwd tag (pre ++ (tag ++ post)) = some pre.length := by
  induction pre with
  | nil =>
    cases tag with
    | nil => exact absurd rfl hne
    | cons c tl =>
      have := isPrefixOf_self_append (c :: tl) post
      simp only [List.nil_append, List.cons_append] at this ⊢
      unfold scanFwd
      simp [this]
  | cons b t ih =>
    have h0 := h 0 (by simp)
    simp only [List.drop_zero, List.cons_append] at h0
    simp only [List.cons_append]
    unfold scanFwd
    rw [if_neg (by simp [h0])]
    rw [ih (fun k hk => by
      have := h (k + 1) (by simp; omega)
      simpa using this)]
    simp

theorem scanBack_none (tag l : Bytes) (h : ∀ k, tag.isPrefixOf (l.drop k) = false) :
    scanBack tag l = none := by
  induction l with
  | nil => rfl
  | cons b t ih =>
    unfold scanBack
    rw [ih (fun k => by simpa using h (k + 1))]
    have h0 := h 0
    simp only [List.drop_zero] at h0
    simp [h0]

theorem scanBack_append (tag pre l : Bytes) (k : Nat) (h : scanBack tag l = some k) :
    scanBack tag (pre ++ l) = some (pre.length + k) := by
  induction pre with
  | nil => simpa using h
  | cons b t ih =>
    simp only [List.cons_append]
    unfold scanBack
    rw [ih]
    simp; omega

/-- last occurrence -/
theorem scanBack_at (tag pre post : Bytes) (hne : tag ≠ [])
    (h : ∀ k, 0 < k → tag.isPrefixOf ((tag ++ post).drop k) = false) :
    scanBack tag (pre ++ (tag ++ post)) = some pre.length := by
  have h0 : scanBack tag (tag ++ post) = some 0 := by
    have hp := isPrefixOf_self_append tag post
    cases hl : tag ++ post with
    | nil => cases tag with
      | nil => exact absurd rfl hne
      | cons c tl => simp at hl
    | cons b t =>
      rw [hl] at hp h
      unfold scanBack
      rw [scanBack_none tag t (fun k => by simpa using h (k + 1) (by omega))]
      simp [hp]
  simpa using scanBack_append tag pre _ 0 h0

/-- a sufficient condition for "no later occurrence": the first byte of the tag does not occur again -/
theorem noLater_of_head (c : UInt8) (tl post : Bytes) (h : c ∉ tl ++ post) :
    ∀ k, 0 < k → (c :: tl).isPrefixOf ((c :: tl ++ post).drop k) = false := by
  intro k hk
  obtain ⟨j, rfl⟩ : ∃ j, k = j + 1 := ⟨k - 1, by omega⟩
  simp only [List.cons_append, List.drop_succ_cons]
  cases hd : (tl ++ post).drop j with
  | nil => simp [List.isPrefixOf]
  | cons y r =>
    have hy : y ∈ tl ++ post := List.mem_of_mem_drop (by rw [hd]; exact List.mem_cons_self)
    have : c ≠ y := by intro hh; subst hh; exact h hy
    simp [List.isPrefixOf, this]

/-- everything of `loadView` after the startxref offset has been read -/
def loadRest (hofs : Nat) (s : Bytes) (ofs : Nat) : Out Loaded :=
  if !(ofs < s.length) then .reject
  else
    match getXrefInfo ⟨Ctx.new 50, false⟩ s ofs with
    | (.panic p, _) => .panic p
    | (.reject, _) => .reject
    | (.ok (ents, rootRef), st) =>
      match parseObjects hofs st (infoOf ents) s with
      | .panic p => .panic p
      | .reject => .reject
      | .ok defs =>
        match rootRef with
        | .ref n g => .ok ⟨defs, (n, g)⟩
        | _ => .reject

/-- `loadView` once its four scanning steps are known -/
theorem loadView_of_steps (hofs : Nat) (s : Bytes) (v : Located Bytes) (k eo sx ofs j : Nat)
    (hc : comment s 0 = (.ok v, k)) (he : scanBack kwEOF s = some eo)
    (hsx : scanBack kwStartxref (s.take eo) = some sx) (hst : startXrefP s sx = (.ok ofs, j)) :
    loadView hofs s = loadRest hofs s ofs := by
  unfold loadView loadRest
  simp only [hc, he, hsx, hst]
  rfl

/-- `Comment::parse` succeeds on anything that starts with `%` -/
theorem comment_ok_of_head (s : Bytes) (h : s.head? = some 37) : ∃ v k, comment s 0 = (.ok v, k) := by
  have hp : peek s 0 = some 37 := by
    cases s with
    | nil => simp at h
    | cons b t => simpa [peek] using h
  obtain ⟨v, k, hc, -⟩ := comment_skip s 0 hp
  exact ⟨v, k, hc⟩

theorem ws_not_digit (b : UInt8) (h : isWsEol b = true) : isDigit b = false ∧ b ≠ 115 := by
  revert h
  apply byte_cases (fun b => isWsEol b = true → isDigit b = false ∧ b ≠ 115)
  decide +kernel

theorem digit_not_s (b : UInt8) (h : isDigit b = true) : b ≠ 115 := by
  revert h
  apply byte_cases (fun b => isDigit b = true → b ≠ 115)
  decide +kernel

/-- `StartXrefP` on `startxref <ws> <digits>` followed by white space or `%` -/
theorem startXrefP_at (s pre w ds ctx : Bytes) (hs : s = pre ++ (kwStartxref ++ (w ++ (ds ++ ctx))))
    (hw : WsRun w) (hwne : w ≠ [])
    (hdne : ds ≠ []) (hds : ∀ y ∈ ds, isDigit y = true) (hfit : digitsVal ds 0 ≤ i64Max)
    (hctx : ∀ y, ctx.head? = some y → isDigit y = false) :
    startXrefP s pre.length =
      (.ok (digitsVal ds 0), pre.length + kwStartxref.length + w.length + ds.length) := by
  unfold startXrefP
  rw [exact_at kwStartxref s pre _ hs]
  simp only
  have h1 := ws_at' false s (pre ++ kwStartxref) w (ds ++ ctx) (by rw [hs]; simp [List.append_assoc]) hw
    (digits_head_not_ws ds ctx hdne hds) (Or.inl hwne)
  rw [List.length_append] at h1
  rw [h1]
  simp only
  have h2 := int_at_sg s (pre ++ kwStartxref ++ w) .none ds ctx
    (by rw [hs]; simp [Sign.bytes, List.append_assoc]) hdne hds hctx
  rw [if_pos hfit] at h2
  simp only [List.length_append, Sign.bytes, List.length_nil, Nat.zero_add, Sign.apply] at h2
  rw [h2]
  simp

/-- the tail `startxref <ws> <digits> <ws bytes> %%EOF <trail>` of a file whose view starts with `%` -/
theorem loadView_tail (hofs : Nat) (hdr mid w ds e trail : Bytes)
    (hhdr : hdr.head? = some 37)
    (hw : WsRun w) (hwne : w ≠ []) (hws : (115 : UInt8) ∉ w)
    (hdne : ds ≠ []) (hds : ∀ y ∈ ds, isDigit y = true) (hfit : digitsVal ds 0 ≤ i64Max)
    (he : ∀ y ∈ e, isWsEol y = true)
    (htrail : ∀ k, 0 < k → kwEOF.isPrefixOf ((kwEOF ++ trail).drop k) = false) :
    loadView hofs (hdr ++ (mid ++ (kwStartxref ++ (w ++ (ds ++ (e ++ (kwEOF ++ trail))))))) =
      loadRest hofs (hdr ++ (mid ++ (kwStartxref ++ (w ++ (ds ++ (e ++ (kwEOF ++ trail))))))) (digitsVal ds 0) := by
  generalize hS : hdr ++ (mid ++ (kwStartxref ++ (w ++ (ds ++ (e ++ (kwEOF ++ trail)))))) = s
  have hS' := hS.symm
  -- the header comment
  obtain ⟨v, k, hc⟩ := comment_ok_of_head s (by
    rw [hS']
    cases hdr with
    | nil => simp at hhdr
    | cons b t => simpa using hhdr)
  -- the last %%EOF
  have hs1 : s = (hdr ++ (mid ++ (kwStartxref ++ (w ++ (ds ++ e))))) ++ (kwEOF ++ trail) := by
    rw [hS']; simp [List.append_assoc]
  have hE : scanBack kwEOF s = some (hdr ++ (mid ++ (kwStartxref ++ (w ++ (ds ++ e))))).length := by
    rw [hs1]; exact scanBack_at kwEOF _ trail (by decide) htrail
  have hT : s.take (hdr ++ (mid ++ (kwStartxref ++ (w ++ (ds ++ e))))).length =
      (hdr ++ mid) ++ (kwStartxref ++ (w ++ (ds ++ e))) := by
    rw [hs1, List.take_left' rfl]; simp [List.append_assoc]
  -- the last startxref before it
  have hno : (115 : UInt8) ∉ [116, 97, 114, 116, 120, 114, 101, 102] ++ (w ++ (ds ++ e)) := by
    intro hm
    simp only [List.mem_append] at hm
    rcases hm with hm | hm | hm | hm
    · revert hm; decide
    · exact hws hm
    · exact digit_not_s _ (hds _ hm) rfl
    · exact (ws_not_digit _ (he _ hm)).2 rfl
  have hX : scanBack kwStartxref (s.take (hdr ++ (mid ++ (kwStartxref ++ (w ++ (ds ++ e))))).length) =
      some (hdr ++ mid).length := by
    rw [hT]
    exact scanBack_at kwStartxref (hdr ++ mid) (w ++ (ds ++ e)) (by decide)
      (noLater_of_head 115 [116, 97, 114, 116, 120, 114, 101, 102] (w ++ (ds ++ e)) hno)
  -- StartXrefP
  have hP := startXrefP_at s (hdr ++ mid) w ds (e ++ (kwEOF ++ trail)) (by rw [hS']; simp [List.append_assoc])
    hw hwne hdne hds hfit (by
      intro y hy
      cases e with
      | nil => simp [kwEOF] at hy; subst hy; decide
      | cons b t => simp at hy; subst hy; exact (ws_not_digit _ (he _ List.mem_cons_self)).1)
  exact loadView_of_steps hofs s v k _ _ _ _ hc hE hX hP

/-- the magic scan of `parseData` -/
theorem parseData_garbage (garbage view : Bytes) (hv : kwPdf.isPrefixOf view = true)
    (hg : ∀ k, k < garbage.length → kwPdf.isPrefixOf ((garbage ++ view).drop k) = false) :
    parseData (garbage ++ view) = loadView garbage.length view := by
  obtain ⟨post, rfl⟩ := List.isPrefixOf_iff_prefix.mp hv
  unfold parseData
  rw [scanFwd_at kwPdf garbage post (by decide) hg]
  simp only [List.drop_left]

/-- sufficient for `hg`: the garbage contains no '%' -/
theorem noMagic_of_no_percent (garbage view : Bytes) (h : (37 : UInt8) ∉ garbage) :
    ∀ k, k < garbage.length → kwPdf.isPrefixOf ((garbage ++ view).drop k) = false := by
  intro k hk
  rw [List.drop_append_of_le_length (by omega)]
  cases hd : garbage.drop k with
  | nil => have := congrArg List.length hd; simp at this; omega
  | cons y r =>
    have hy : y ∈ garbage := List.mem_of_mem_drop (by rw [hd]; exact List.mem_cons_self)
    have : (37 : UInt8) ≠ y := by intro hh; subst hh; exact h hy
    simp [kwPdf, List.isPrefixOf, this]

/-- sufficient for `htrail`: no '%' after the last `%%EOF` (`noLater_of_head` does not apply: the
    second byte of `%%EOF` is its first byte again) -/
theorem noLaterEOF_of_no_percent (trail : Bytes) (h : (37 : UInt8) ∉ trail) :
    ∀ k, 0 < k → kwEOF.isPrefixOf ((kwEOF ++ trail).drop k) = false := by
  intro k hk
  obtain ⟨j, rfl⟩ : ∃ j, k = j + 1 := ⟨k - 1, by omega⟩
  cases j with
  | zero => simp [kwEOF, List.isPrefixOf]
  | succ j =>
    have hd : (kwEOF ++ trail).drop (j + 1 + 1) = ([69, 79, 70] ++ trail).drop j := by simp [kwEOF]
    rw [hd]
    cases hr : ([69, 79, 70] ++ trail).drop j with
    | nil => simp [kwEOF]
    | cons y r =>
      have hy : y ∈ [69, 79, 70] ++ trail := List.mem_of_mem_drop (by rw [hr]; exact List.mem_cons_self)
      have : (37 : UInt8) ≠ y := by
        intro hh; subst hh
        simp only [List.mem_append] at hy
        rcases hy with hy | hy
        · revert hy; decide
        · exact h hy
      simp [kwEOF, List.isPrefixOf, this]

/-- plain white space is a white-space run … -/
theorem wsRun_of_ws (w : Bytes) (h : ∀ y ∈ w, isWsEol y = true) : WsRun w := by
  induction w with
  | nil => exact WsRun.nil
  | cons b t ih =>
    exact WsRun.ws b t (h b List.mem_cons_self) (ih (fun y hy => h y (List.mem_cons_of_mem _ hy)))

/-- … and contains no 's' -/
theorem no_s_of_ws (w : Bytes) (h : ∀ y ∈ w, isWsEol y = true) : (115 : UInt8) ∉ w :=
  fun hm => (ws_not_digit _ (h _ hm)).2 rfl

/-- both scans together: leading garbage without `%PDF-`, then a view `%PDF-…` whose tail is
    `startxref <ws> <digits> <ws bytes> %%EOF <trail>` -/
theorem parseData_scan (garbage hdr mid w ds e trail : Bytes)
    (hg : ∀ k, k < garbage.length → kwPdf.isPrefixOf
      ((garbage ++ (hdr ++ (mid ++ (kwStartxref ++ (w ++ (ds ++ (e ++ (kwEOF ++ trail)))))))).drop k) = false)
    (hhdr : kwPdf.isPrefixOf hdr = true)
    (hw : WsRun w) (hwne : w ≠ []) (hws : (115 : UInt8) ∉ w)
    (hdne : ds ≠ []) (hds : ∀ y ∈ ds, isDigit y = true) (hfit : digitsVal ds 0 ≤ i64Max)
    (he : ∀ y ∈ e, isWsEol y = true)
    (htrail : ∀ k, 0 < k → kwEOF.isPrefixOf ((kwEOF ++ trail).drop k) = false) :
    parseData (garbage ++ (hdr ++ (mid ++ (kwStartxref ++ (w ++ (ds ++ (e ++ (kwEOF ++ trail)))))))) =
      loadRest garbage.length (hdr ++ (mid ++ (kwStartxref ++ (w ++ (ds ++ (e ++ (kwEOF ++ trail)))))))
        (digitsVal ds 0) := by
  obtain ⟨post, rfl⟩ := List.isPrefixOf_iff_prefix.mp hhdr
  rw [parseData_garbage garbage _ (by simp [kwPdf, List.isPrefixOf]) hg]
  exact loadView_tail garbage.length _ mid w ds e trail (by simp [kwPdf]) hw hwne hws hdne hds hfit he htrail

/-! ## non-vacuity: `docClassic` of Props/C03.lean, re-typed as an explicit split, after five bytes
    of garbage; `mid` is the object, the table and the trailer -/

example :
    parseData ([106, 117, 110, 107, 10] ++ ([37, 80, 68, 70, 45, 49, 46, 48, 10] ++
      ([49, 32, 48, 32, 111, 98, 106, 32, 55, 32, 101, 110, 100, 111, 98, 106, 10, 120, 114, 101, 102, 10, 48, 32, 50,
        10, 48, 48, 48, 48, 48, 48, 48, 48, 48, 48, 32, 54, 53, 53, 51, 53, 32, 102, 32, 10, 48, 48, 48, 48, 48, 48,
        48, 48, 48, 57, 32, 48, 48, 48, 48, 48, 32, 110, 32, 10, 116, 114, 97, 105, 108, 101, 114, 60, 60, 47, 82,
        111, 111, 116, 32, 49, 32, 48, 32, 82, 62, 62, 10] ++
      (kwStartxref ++ ([10] ++ ([50, 54] ++ ([10] ++ (kwEOF ++ [10])))))))) =
    loadRest 5 ([37, 80, 68, 70, 45, 49, 46, 48, 10] ++
      ([49, 32, 48, 32, 111, 98, 106, 32, 55, 32, 101, 110, 100, 111, 98, 106, 10, 120, 114, 101, 102, 10, 48, 32, 50,
        10, 48, 48, 48, 48, 48, 48, 48, 48, 48, 48, 32, 54, 53, 53, 51, 53, 32, 102, 32, 10, 48, 48, 48, 48, 48, 48,
        48, 48, 48, 57, 32, 48, 48, 48, 48, 48, 32, 110, 32, 10, 116, 114, 97, 105, 108, 101, 114, 60, 60, 47, 82,
        111, 111, 116, 32, 49, 32, 48, 32, 82, 62, 62, 10] ++
      (kwStartxref ++ ([10] ++ ([50, 54] ++ ([10] ++ (kwEOF ++ [10]))))))) 26 := by
  rw [parseData_garbage _ _ (by decide) (noMagic_of_no_percent _ _ (by decide))]
  exact loadView_tail 5 _ _ [10] [50, 54] [10] [10] rfl (wsRun_of_ws _ (by decide)) (by decide) (by decide)
    (by decide) (by decide) (by decide) (by decide) (noLaterEOF_of_no_percent _ (by decide))

/-- the split above is `docClassic` byte for byte -/
example :
    [37, 80, 68, 70, 45, 49, 46, 48, 10] ++
      ([49, 32, 48, 32, 111, 98, 106, 32, 55, 32, 101, 110, 100, 111, 98, 106, 10, 120, 114, 101, 102, 10, 48, 32, 50,
        10, 48, 48, 48, 48, 48, 48, 48, 48, 48, 48, 32, 54, 53, 53, 51, 53, 32, 102, 32, 10, 48, 48, 48, 48, 48, 48,
        48, 48, 48, 57, 32, 48, 48, 48, 48, 48, 32, 110, 32, 10, 116, 114, 97, 105, 108, 101, 114, 60, 60, 47, 82,
        111, 111, 116, 32, 49, 32, 48, 32, 82, 62, 62, 10] ++
      (kwStartxref ++ ([10] ++ ([50, 54] ++ ([10] ++ (kwEOF ++ [10])))))) =
    ([37, 80, 68, 70, 45, 49, 46, 48, 10, 49, 32, 48, 32, 111, 98, 106, 32, 55, 32, 101, 110, 100, 111, 98, 106, 10, 120, 114, 101, 102, 10, 48, 32, 50, 10, 48, 48, 48, 48, 48,
  48, 48, 48, 48, 48, 32, 54, 53, 53, 51, 53, 32, 102, 32, 10, 48, 48, 48, 48, 48, 48, 48, 48, 48, 57, 32, 48, 48, 48, 48, 48, 32, 110, 32, 10, 116, 114, 97, 105, 108,
  101, 114, 60, 60, 47, 82, 111, 111, 116, 32, 49, 32, 48, 32, 82, 62, 62, 10, 115, 116, 97, 114, 116, 120, 114, 101, 102, 10, 50, 54, 10, 37, 37, 69, 79, 70, 10] : Bytes) := by
  decide

end Parsley.LoaderE2E
