/-
  C03 end-to-end, stream objects: `n g obj <<dict>> stream EOL data [EOL] endstream endobj` with the
  dictionary in any legal spelling.  With a direct /Length the object reads in every context
  (`ReadsAt`); with /Length a reference it reads where the holder is bound to the data length and fails
  with InsufficientContext where the holder is undefined (the second pass of `parse_objects`).
  Composes C02's `spell_parse` (head), C05's framing theorem (content) and the registration step.
-/
import Parsley.Lemmas.LoaderE2EObj
import Parsley.Props.C05
namespace Parsley.LoaderE2E
open Parsley Parsley.Prim Parsley.Obj Parsley.Indirect Parsley.Loader Parsley.C02 Parsley.Spelling

/-- a stream object as written -/
structure WStm where
  pad : Bytes
  nds : Bytes
  w1 : Bytes
  gds : Bytes
  w2 : Bytes
  w3 : Bytes
  dtok : Bytes                 -- the spelling of the stream dictionary
  w5 : Bytes                   -- between the dictionary and `stream`
  e1 : Bytes                   -- LF | CR LF
  data : Bytes
  e2 : Bytes                   -- nothing | CR | LF | CR LF
  w4 : Bytes                   -- between `endstream` and `endobj`
  kvs : List (Bytes × Obj)     -- the dictionary value
  d : Nat

namespace WStm

/-- the head part as a plain object whose value is the dictionary -/
def head (o : WStm) : WObj := ⟨o.pad, o.nds, o.w1, o.gds, o.w2, o.w3, o.dtok, o.w5, .dict o.kvs, o.d⟩

def num (o : WStm) : Nat := digitsVal o.nds 0
def gen (o : WStm) : Nat := digitsVal o.gds 0

/-- from the keyword `stream` on -/
def tailBytes (o : WStm) : Bytes :=
  kwStream ++ (o.e1 ++ (o.data ++ (o.e2 ++ (kwEndstream ++ (o.w4 ++ kwEndobj)))))

def bytes (o : WStm) : Bytes := o.head.headBytes o.tailBytes

/-- offset of the keyword `stream` -/
def kwOfs (o : WStm) : Nat := o.head.valOfs + o.dtok.length + o.w5.length

/-- the located value when written at offset `i` -/
def val (o : WStm) (i : Nat) : Located Obj :=
  ⟨.stream o.kvs ⟨i + o.kwOfs + 6 + o.e1.length, o.data.length, o.data⟩, i + o.head.valOfs,
    i + o.kwOfs + 6 + o.e1.length + o.data.length + o.e2.length + 9⟩

structure OK (o : WStm) : Prop where
  head : o.head.OK
  e1 : o.e1 ∈ Framing.eolsAfterStream
  e2 : o.e2 ∈ Framing.eolsBeforeEndstream
  w4 : WsRun o.w4

end WStm

theorem kwS_head (post : Bytes) :
    ∀ b, (kwStream ++ post).head? = some b → isWsEol b = false ∧ b ≠ 37 ∧ isDigit b = false ∧ b ≠ 43 ∧ b ≠ 45 :=
  kw_head kwStream post 115 _ rfl (by decide)

/-- everything up to the length lookup, and the two outcomes by what the lookup gives -/
theorem stm_reads_of_len (s : Bytes) (i : Nat) (o : WStm) (post : Bytes) (hi : i ≤ s.length)
    (hd : s.drop i = o.bytes ++ post) (hok : o.OK) (defs : Defs) (hs : DefsSorted defs)
    (hn : defsGet (o.num, o.gen) defs = none) :
    (streamLength defs o.kvs = .ok o.data.length →
      ∃ a e, parseIndirect ⟨defs, 0, 50, false⟩ s i =
        ((.ok ⟨⟨o.num, o.gen, o.val i⟩, a, e⟩, e), ⟨(defsInsert (o.num, o.gen) (o.val i) defs).2, 0, 50, false⟩)) ∧
    (streamLength defs o.kvs = .err .ctx →
      ∃ j, parseIndirect ⟨defs, 0, 50, false⟩ s i = ((.err .ctx, j), ⟨defs, 0, 50, false⟩)) := by
  have hd' : s.drop i = o.head.headBytes (o.tailBytes ++ post) := by
    rw [hd]; simp [WStm.bytes, WObj.headBytes, WStm.tailBytes]
  have hu : ∀ b, (o.tailBytes ++ post).head? = some b →
      isWsEol b = false ∧ b ≠ 37 ∧ isDigit b = false ∧ b ≠ 43 ∧ b ≠ 45 := by
    have := kwS_head (o.e1 ++ (o.data ++ (o.e2 ++ (kwEndstream ++ (o.w4 ++ kwEndobj)))) ++ post)
    simpa [WStm.tailBytes] using this
  obtain ⟨h0, hhead, hd8, hi8⟩ := head_spelled s i o.head (o.tailBytes ++ post) hi hd' hok.head hu defs
  -- white space before `stream`
  have hw5 := ws_d true s _ o.w5 _ hi8 hd8 hok.head.w4 (fun b hb => ⟨(hu b hb).1, (hu b hb).2.1⟩) (Or.inr rfl)
  have hd9 := drop_next hd8
  have hi9 := drop_le hd8 hi8
  have hp : i + o.head.valOfs + o.head.tok.length + o.head.w4.length = i + o.kwOfs := by
    simp [WStm.kwOfs, WStm.head]; omega
  have hp2 : i + o.head.valOfs + o.head.tok.length + o.w5.length = i + o.kwOfs := hp
  rw [hp2] at hw5
  rw [hp] at hd9 hi9
  have hkw : startsWith kwStream s (i + o.kwOfs) = true := by
    unfold startsWith
    rw [hd9, List.isPrefixOf_iff_prefix]
    simp only [WStm.tailBytes, List.append_assoc]
    exact List.prefix_append _ _
  have hdv : (⟨o.head.num, o.head.gen, ⟨o.head.v, i + o.head.valOfs, i + o.head.valOfs + o.head.tok.length⟩⟩ : Head).o.val
      = .dict o.kvs := rfl
  have heq := C05.internal_stream_eq ⟨defs, 0, 50, false⟩ s (i + o.head.pad.length) _ _ ⟨defs, 0, 50, false⟩ o.kvs _ _
    hhead hdv hw5 hkw
  constructor
  · intro hlen
    -- framing
    have hfr : Framing.Framed false s (i + o.kwOfs) o.data.length o.data (i + o.kwOfs + 6 + o.e1.length)
        (i + o.kwOfs + 6 + o.e1.length + o.data.length + o.e2.length + 9) := by
      refine ⟨o.e1, hok.e1, o.e2, hok.e2, o.w4 ++ (kwEndobj ++ post), ?_, rfl, rfl, rfl, by intro h; cases h⟩
      rw [hd9]
      simp [WStm.tailBytes, Framing.kwStream, Framing.kwEndstream, kwStream, kwEndstream]
    have hsc := C05.stream_content_framed false s _ _ _ _ _ hfr
    -- after `endstream`
    have hdE : s.drop (i + o.kwOfs + 6 + o.e1.length + o.data.length + o.e2.length + 9) = o.w4 ++ (kwEndobj ++ post) := by
      have h1 : s.drop (i + o.kwOfs) = kwStream ++ (o.e1 ++ (o.data ++ (o.e2 ++ (kwEndstream ++ (o.w4 ++ (kwEndobj ++ post)))))) := by
        rw [hd9]; simp [WStm.tailBytes]
      have h2 := drop_next (drop_next (drop_next (drop_next (drop_next h1))))
      simpa [kwStream, kwEndstream] using h2
    have hiE : i + o.kwOfs + 6 + o.e1.length + o.data.length + o.e2.length + 9 ≤ s.length := by
      apply Nat.le_of_not_lt
      intro hlt
      rw [List.drop_eq_nil_of_le (Nat.le_of_lt hlt)] at hdE
      have := congrArg List.length hdE
      simp [kwEndobj] at this
    have hkwE : ∀ b, (kwEndobj ++ post).head? = some b → isWsEol b = false ∧ b ≠ 37 := by
      intro b hb; simp [kwEndobj] at hb; subst hb; decide
    have hw4 := ws_d true s _ o.w4 _ hiE hdE hok.w4 hkwE (Or.inr rfl)
    have hex := exact_d kwEndobj s _ post (drop_next hdE)
    have hold : (defsInsert (o.num, o.gen) (o.val i) defs).1 = none := by
      rw [defsInsert_old _ _ defs hs, hn]
    refine ⟨i + o.head.pad.length, i + o.kwOfs + 6 + o.e1.length + o.data.length + o.e2.length + 9 + o.w4.length + kwEndobj.length, ?_⟩
    unfold parseIndirect
    rw [h0]
    simp only
    rw [heq]
    simp only [hlen, hsc]
    unfold indirectFinish
    rw [hw4]
    simp only [hex]
    have hv : (⟨Obj.stream o.kvs ⟨i + o.kwOfs + 6 + o.e1.length, o.data.length, o.data⟩, i + o.head.valOfs,
        i + o.kwOfs + 6 + o.e1.length + o.data.length + o.e2.length + 9⟩ : Located Obj) = o.val i := rfl
    have hnum : o.head.num = o.num := rfl
    have hgen : o.head.gen = o.gen := rfl
    simp only [hv, hnum, hgen]
    rcases hins : defsInsert (o.num, o.gen) (o.val i) defs with ⟨old, d'⟩
    rw [hins] at hold
    simp only at hold
    subst hold
    rfl
  · intro hlen
    refine ⟨i + o.kwOfs, ?_⟩
    unfold parseIndirect
    rw [h0]
    simp only
    rw [heq]
    simp only [hlen]

/-- **direct /Length**: the stream object reads in every context -/
theorem reads_stream_direct (s : Bytes) (i : Nat) (o : WStm) (post : Bytes) (hi : i ≤ s.length)
    (hd : s.drop i = o.bytes ++ post) (hok : o.OK)
    (hlen : dictGet keyLength o.kvs = some (.int o.data.length)) :
    C03.ReadsAt 0 50 false s ⟨o.num, o.gen, i, o.val i⟩ := by
  intro defs hs hn
  have hsl : streamLength defs o.kvs = .ok o.data.length := by
    simp [streamLength, hlen, convertStreamLength, isUsize]
  exact (stm_reads_of_len s i o post hi hd hok defs hs hn).1 hsl

/-- **/Length by reference**: reads where the holder is bound to the data length, InsufficientContext
    where the holder is not defined yet -/
theorem reads_stream_ref (s : Bytes) (i : Nat) (o : WStm) (post : Bytes) (hi : i ≤ s.length)
    (hd : s.drop i = o.bytes ++ post) (hok : o.OK) (h : ObjId)
    (hlen : dictGet keyLength o.kvs = some (.ref h.1 h.2)) :
    (∀ defs : Defs, DefsSorted defs → defsGet (o.num, o.gen) defs = none →
      (∃ lv, defsGet h defs = some lv ∧ lv.val = .int o.data.length) →
      ∃ a e, parseIndirect ⟨defs, 0, 50, false⟩ s i =
        ((.ok ⟨⟨o.num, o.gen, o.val i⟩, a, e⟩, e), ⟨(defsInsert (o.num, o.gen) (o.val i) defs).2, 0, 50, false⟩)) ∧
    (∀ defs : Defs, DefsSorted defs → defsGet (o.num, o.gen) defs = none → defsGet h defs = none →
      ∃ j, parseIndirect ⟨defs, 0, 50, false⟩ s i = ((.err .ctx, j), ⟨defs, 0, 50, false⟩)) := by
  constructor
  · intro defs hs hn ⟨lv, hlv, hval⟩
    have hsl : streamLength defs o.kvs = .ok o.data.length := by
      simp [streamLength, hlen, hlv, hval, convertStreamLength, isUsize]
    exact (stm_reads_of_len s i o post hi hd hok defs hs hn).1 hsl
  · intro defs hs hn hnone
    have hsl : streamLength defs o.kvs = .err .ctx := by
      simp [streamLength, hlen, hnone]
    exact (stm_reads_of_len s i o post hi hd hok defs hs hn).2 hsl

end Parsley.LoaderE2E
