/-
  Classic cross-reference table round trip at an ARBITRARY cursor of a larger buffer and with the
  EXACT final cursor (for the end-to-end loader theorem).  Extends `Props/C13.lean`
  (`table_roundtrip` is at cursor 0 with an inexact end cursor).
-/
import Parsley.Props.C13
namespace Parsley.LoaderE2E
open Parsley Parsley.Xref Parsley.XrefSpec Parsley.C13

/-- what follows the table: a byte that is neither white space (32,0,9,13,12,10) nor a digit nor
    '+'/'-' (e.g. the `t` of `trailer`) -/
def StopsTable (rest : Bytes) : Prop :=
  ∃ b t, rest = b :: t ∧ Xref.isWsEol b = false ∧ Xref.isDigit b = false ∧ b ≠ 43 ∧ b ≠ 45

theorem wsEol_false_noEol (b : UInt8) (h : Xref.isWsEol b = false) : Xref.isWsNoEol b = false := by
  simp only [Xref.isWsEol, Bool.or_eq_false_iff] at h
  simp only [Xref.isWsNoEol, Bool.or_eq_false_iff]
  obtain ⟨⟨⟨⟨⟨h1, h2⟩, h3⟩, h4⟩, _⟩, h6⟩ := h
  exact ⟨⟨⟨⟨h1, h2⟩, h3⟩, h4⟩, h6⟩

/-- exact version of `C13.lookahead_end`: at a byte that is neither a blank nor the start of a
    number the look-ahead of `sectLoop` consumes nothing and says "no further subsection". -/
theorem lookahead_stop (s : Bytes) (c : Nat) (rest : Bytes) (hs : s.drop c = rest)
    (hrest : StopsTable rest) :
    wsNoEol true s c = (.ok (), c) ∧ startsHeader s[c]? = false := by
  obtain ⟨b, t, rfl, hws, hdig, h43, h45⟩ := hrest
  have h0 := wsNoEol_blanks s c [] (b :: t) (by simpa using hs) rfl (by
    intro x hx; simp at hx; subst hx; exact wsEol_false_noEol _ hws)
  refine ⟨by simpa using h0, ?_⟩
  have hpk : s[c]? = some b := by simpa using head_of_drop hs
  simp [hpk, startsHeader, hdig, h43, h45]

/-- `C13.sect_roundtrip` with the exact final cursor -/
theorem sect_roundtrip_exact : ∀ (subs : List TSub) (fuel : Nat) (s : Bytes) (c : Nat) (rest : Bytes) (first : Bool),
    subs.length + 1 ≤ fuel → (first = true → subs ≠ []) → (∀ t ∈ subs, subOk t) →
    s.drop c = subs.flatMap encSub ++ rest → StopsTable rest →
    ∃ l, sectLoop fuel s c first = (.ok l, c + (subs.flatMap encSub).length) ∧ sectEnts l = tableEnts subs
      ∧ l.map (fun ss => (ss.val.start, ss.val.count)) = subs.map (fun t => (t.start, t.ents.length)) := by
  intro subs
  induction subs with
  | nil =>
    intro fuel s c rest first hf hfirst _ hs hend
    cases first with
    | true => exact absurd rfl (hfirst rfl)
    | false =>
      obtain ⟨f, rfl⟩ : ∃ f, fuel = f + 1 := ⟨fuel - 1, by simp at hf; omega⟩
      simp only [List.flatMap_nil, List.nil_append] at hs
      obtain ⟨hw, hnh⟩ := lookahead_stop s c rest hs hend
      refine ⟨[], ?_, rfl, rfl⟩
      simp [sectLoop, hw, hnh]
  | cons t ts ih =>
    intro fuel s c rest first hf hfirst hok hs hend
    obtain ⟨f, rfl⟩ : ∃ f, fuel = f + 1 := ⟨fuel - 1, by simp at hf; omega⟩
    simp only [List.flatMap_cons, List.append_assoc] at hs
    obtain ⟨hwf, hne⟩ := hok t (by simp)
    have hmore : (if first = true then ((.ok true, c) : Step Bool)
        else andThen (wsNoEol true s c) fun _ c1 =>
          if startsHeader s[c1]? = true then (.ok true, c) else (.ok false, c1)) = (.ok true, c) := by
      cases first with
      | true => rfl
      | false =>
        obtain ⟨_, _, hws, _, _, _, hlead, _, _, _⟩ := hwf
        obtain ⟨d0, t0, hd0, hdig0⟩ := padDec_head t.wStart t.start hws
        have hs0 : s.drop c = t.lead ++ (padDec t.wStart t.start ++ ([32] ++ padDec t.wCount t.ents.length
            ++ t.hdrEol ++ t.ents.flatMap encEntry ++ (ts.flatMap encSub ++ rest))) := by
          rw [hs]; simp [encSub]
        have h0 := wsNoEol_blanks s c t.lead _ hs0 hlead (by
          intro b hb; rw [hd0] at hb; simp at hb; subst hb; exact (digit_not_ws _ hdig0).1)
        have hpk : s[c + t.lead.length]? = some d0 := by
          have := head_of_drop (drop_step hs0); rw [hd0] at this; simpa using this
        simp [h0, hpk, startsHeader, hdig0]
    obtain ⟨l1, hsub, hm1⟩ := subsect_roundtrip t hwf hne s c _ hs
    have hs' := drop_step hs
    obtain ⟨l, hl, he, hsc⟩ := ih f s (c + (encSub t).length) rest false
      (by simp at hf ⊢; omega) (by intro h; cases h) (fun x hx => hok x (by simp [hx])) hs' hend
    refine ⟨(⟨⟨t.start, t.ents.length, l1⟩, c, c + (encSub t).length⟩ : Located SubSect) :: l, ?_, ?_, ?_⟩
    · simp only [sectLoop, hmore, hsub, hl, List.flatMap_cons, List.length_append, Nat.add_assoc]
    · simp only [sectEnts, List.flatMap_cons, tableEnts] at he ⊢
      rw [he, hm1]
    · simp [hsc]

/-- `C13.xrefSectP_start` at an arbitrary cursor -/
theorem xrefSectP_start_at (s : Bytes) (c : Nat) (lead body : Bytes)
    (hs : s.drop c = kwXref ++ ([10] ++ lead ++ body))
    (hlead : lead.all XrefSpec.isBlank = true)
    (hbody : ∃ d tl, body = d :: tl ∧ Xref.isDigit d = true) :
    xrefSectP s c =
      andThen (sectLoop (s.length - (c + 4 + (1 + lead.length)) + 2) s (c + 4 + (1 + lead.length)) true)
        (fun l c3 => (.ok ⟨l, c, c3⟩, c3))
    ∧ s.drop (c + 4 + (1 + lead.length)) = body := by
  obtain ⟨dd, tl, hdd, hddig⟩ := hbody
  have h1 : wsEol true s c = (.ok (), c) := by
    apply wsEol_none s c _ hs
    intro b hb; simp [kwXref] at hb; subst hb; decide
  have h2 : exact [120, 114, 101, 102] s c = (.ok (), c + 4) := by
    unfold exact
    have : List.isPrefixOf [120, 114, 101, 102] (s.drop c) = true := by
      rw [List.isPrefixOf_iff_prefix, hs]; exact List.prefix_append _ _
    rw [if_pos this]; rfl
  have hd4 : s.drop (c + 4) = ([10] ++ lead) ++ body := by
    have := drop_step hs
    simpa [kwXref] using this
  have h3 : wsEol false s (c + 4) = (.ok (), c + 4 + (1 + lead.length)) := by
    have := wsEol_ws s (c + 4) ([10] ++ lead) _ hd4 (by
        simp only [List.all_append, Bool.and_eq_true]
        exact ⟨by decide, all_imp lead isBlank_wsEol hlead⟩) (by simp) (by
        intro b hb; rw [hdd] at hb; simp at hb; subst hb
        exact ⟨(digit_not_ws _ hddig).2.1, (digit_not_ws _ hddig).2.2.1⟩)
    rw [this]; simp; omega
  have hd5 := drop_step hd4
  simp only [List.length_append, List.length_cons, List.length_nil, Nat.zero_add] at hd5
  refine ⟨?_, hd5⟩
  unfold xrefSectP
  simp only [h1, andThen_ok, h2, h3]

theorem table_roundtrip_at (s : Bytes) (c : Nat) (subs : List TSub) (rest : Bytes)
    (hs : s.drop c = encTable subs ++ rest) (hne : subs ≠ [])
    (hok : ∀ t ∈ subs, subOk t) (hrest : StopsTable rest) :
    ∃ l, xrefSectP s c = (.ok ⟨l, c, c + (encTable subs).length⟩, c + (encTable subs).length)
      ∧ sectEnts l = tableEnts subs
      ∧ l.map (fun ss => (ss.val.start, ss.val.count)) = subs.map (fun t => (t.start, t.ents.length)) := by
  obtain ⟨t, ts, rfl⟩ : ∃ t ts, subs = t :: ts := by
    cases subs with
    | nil => exact absurd rfl hne
    | cons t ts => exact ⟨t, ts, rfl⟩
  have htok := hok t (by simp)
  have hu := unlead_ok t htok
  obtain ⟨⟨_, _, hws, _, _, _, hlead, _, _, _⟩, _⟩ := htok
  have hS : s.drop c = kwXref ++ (([10] ++ t.lead) ++ ((unlead t :: ts).flatMap encSub ++ rest)) := by
    rw [hs]; simp [encTable, List.flatMap_cons, encSub_unlead t]
  have hlenT : (encTable (t :: ts)).length = 4 + (1 + t.lead.length) + ((unlead t :: ts).flatMap encSub).length := by
    simp [encTable, List.flatMap_cons, encSub_unlead t, kwXref]; omega
  obtain ⟨hP, hd5⟩ := xrefSectP_start_at s c t.lead ((unlead t :: ts).flatMap encSub ++ rest) hS hlead (by
    obtain ⟨d, tl, h, hd⟩ := encSub_head t hws (ts.flatMap encSub ++ rest)
    exact ⟨d, tl, by simpa [List.flatMap_cons] using h, hd⟩)
  have hlenS : s.length - (c + 4 + (1 + t.lead.length)) = ((unlead t :: ts).flatMap encSub ++ rest).length := by
    rw [← hd5]; simp
  simp only [List.length_append] at hlenS
  have hge := encSubs_length_ge (unlead t :: ts)
  simp only [List.length_cons] at hge
  obtain ⟨l, hl, he, hsc⟩ := sect_roundtrip_exact (unlead t :: ts)
    (s.length - (c + 4 + (1 + t.lead.length)) + 2) s (c + 4 + (1 + t.lead.length)) rest true
    (by simp only [List.length_cons]; omega) (by intro _; simp)
    (by
      intro x hx
      simp only [List.mem_cons] at hx
      rcases hx with rfl | hx
      · exact hu
      · exact hok x (by simp [hx]))
    hd5 hrest
  have hcur : c + 4 + (1 + t.lead.length) + ((unlead t :: ts).flatMap encSub).length
      = c + (encTable (t :: ts)).length := by rw [hlenT]; omega
  refine ⟨l, ?_, ?_, ?_⟩
  · rw [hP, hl, hcur]; rfl
  · rw [he]; simp [tableEnts, List.flatMap_cons, unlead]
  · rw [hsc]; simp [unlead]

/-! ### non-vacuity -/

/-- some bytes before the table (`%PDF-1.4` LF `junk` LF) -/
def exPre : Bytes := [37, 80, 68, 70, 45, 49, 46, 52, 10, 106, 117, 110, 107, 10]
/-- `trailer` LF `<<>>` -/
def exTrailer : Bytes := [116, 114, 97, 105, 108, 101, 114, 10, 60, 60, 62, 62]

theorem exTrailer_stops : StopsTable exTrailer :=
  ⟨116, [114, 97, 105, 108, 101, 114, 10, 60, 60, 62, 62], rfl, by decide, by decide, by decide, by decide⟩

theorem exSubs_ok : ∀ t ∈ exSubs, subOk t := by
  intro t ht
  simp only [exSubs, List.mem_cons, List.not_mem_nil, or_false] at ht
  rcases ht with rfl | rfl <;> exact ⟨by decide, by decide⟩

/-- the theorem instantiated inside a larger buffer, at cursor 14: the two-subsection table of
    `C13.exSubs` is read back and the cursor stops exactly on the `t` of `trailer` -/
example : ∃ l, xrefSectP (exPre ++ (encTable exSubs ++ exTrailer)) 14
      = (.ok ⟨l, 14, 14 + (encTable exSubs).length⟩, 14 + (encTable exSubs).length)
    ∧ sectEnts l = tableEnts exSubs
    ∧ l.map (fun ss => (ss.val.start, ss.val.count)) = exSubs.map (fun t => (t.start, t.ents.length)) :=
  table_roundtrip_at (exPre ++ (encTable exSubs ++ exTrailer)) 14 exSubs exTrailer
    (List.drop_left' rfl) (by decide) exSubs_ok exTrailer_stops

/-- the same instance evaluated by the executable model (a test of the statement, not a proof):
    objects 0, 5, 6 and final cursor 14 + 80 = 94 -/
example : accepted (xrefSectP (exPre ++ (encTable exSubs ++ exTrailer)) 14) =
    some ([⟨0, 65535, .free 0⟩, ⟨5, 7, .inUse 1234567890⟩, ⟨6, 0, .inUse 17⟩], 94) := by
  decide +kernel

end Parsley.LoaderE2E

