/-
  C03 - the object-loading stage with ALL THREE LOOPS of `parse_objects`, from any starting context:

    first pass    in-file entries: already bound -> skipped; plain -> read and registered; a stream whose
                  /Length is a reference -> registered if the holder is bound, else queued (InsufficientContext);
                  in-stream entries: the container's identifier goes to `obj_streams`
    second pass   every queued stream is read now (its holder has been registered meanwhile)
    third loop    the object streams (`LoaderObjStm.definedStreams_conts`, `objStmPass_conts`)

  `LoaderTwoPass.load_two_pass` does the first two from the EMPTY context without in-stream entries,
  `LoaderObjStm.stage_from_objstm` the first and third without dependent streams.  Here:

    Inv0                        the invariant of `LoaderTwoPass.Inv` relative to a starting context `defs0`
    firstPass_two0              the first pass over a MIXED entry list from any reachable state
    secondPass_two0             the second pass
    stage_two_pass_objstm       the stage theorem (conclusion as `stage_from_objstm`)
    stage_two_pass_from         its specialisation without object streams
    stage_two_pass_objstm_written   containers given declaratively (`WCont.OK`)
  and a concrete instance: dependent stream listed before its holder, a container with two members, a
  non-empty starting context.

  The holder of a dependent stream that is not yet bound must be EITHER a plain entry of the list that is
  not bound in `defs0` (listed before or after the stream) OR bound in `defs0` to the integer.
-/
import Parsley.Lemmas.LoaderE2EObjStmW
import Parsley.Lemmas.LoaderTwoPass
namespace Parsley.LoaderObjStm
open Parsley Parsley.Prim Parsley.Obj Parsley.Indirect Parsley.Loader
open Parsley.C03 (Item ReadsAt valDefs_get)
open Parsley.LoaderTwoPass (Entry ReadsDep key_inj fresh_of_nodup)

/-- the state of the loading stage started from `defs0`, after the entries `done` have been met, with
    the items `q` still queued for the second pass: every binding of `defs0` is kept; an identifier unbound
    in `defs0` is bound iff it is a registered entry, to the entry's value -/
structure Inv0 (defs0 : Defs) (done : List Entry) (defs : Defs) (q : List Item) : Prop where
  sorted : DefsSorted defs
  old : ∀ k v0, defsGet k defs0 = some v0 → defsGet k defs = some v0
  other : ∀ k, defsGet k defs0 = none → (∀ e ∈ done, e.item.key ≠ k) → defsGet k defs = none
  plain : ∀ it, Entry.plain it ∈ done → defsGet it.key defs0 = none → defsGet it.key defs = some it.v
  dep : ∀ it h, Entry.dep it h ∈ done → defsGet it.key defs0 = none →
    defsGet it.key defs = some it.v ∨ (defsGet it.key defs = none ∧ it ∈ q)
  queued : ∀ it ∈ q, ∃ h, Entry.dep it h ∈ done ∧ defsGet it.key defs0 = none

/-- the invariant after an entry that was skipped or queued: the definitions are unchanged -/
theorem Inv0.skip {defs0 : Defs} {done : List Entry} {defs : Defs} {qr : List Item} (inv : Inv0 defs0 done defs qr)
    (e : Entry) (hold : ∃ v0, defsGet e.item.key defs0 = some v0) : Inv0 defs0 (done ++ [e]) defs qr := by
  obtain ⟨v0, hv0⟩ := hold
  refine ⟨inv.sorted, inv.old, ?_, ?_, ?_, ?_⟩
  · intro k hk0 hk
    exact inv.other k hk0 fun e' he' => hk e' (by simp [he'])
  · intro it' hm h0
    rcases List.mem_append.mp hm with hm | hm
    · exact inv.plain it' hm h0
    · simp only [List.mem_singleton] at hm
      subst hm
      rw [show (Entry.plain it').item = it' from rfl, h0] at hv0; cases hv0
  · intro it' h' hm h0
    rcases List.mem_append.mp hm with hm | hm
    · exact inv.dep it' h' hm h0
    · simp only [List.mem_singleton] at hm
      subst hm
      rw [show (Entry.dep it' h').item = it' from rfl, h0] at hv0; cases hv0
  · intro it' hm
    obtain ⟨h', hh', h0⟩ := inv.queued it' hm
    exact ⟨h', by simp [hh'], h0⟩

/-- the invariant after an entry (unbound so far) has been registered -/
theorem Inv0.reg {defs0 : Defs} {done : List Entry} {defs : Defs} {qr : List Item} (inv : Inv0 defs0 done defs qr)
    (e : Entry) (h0 : defsGet e.item.key defs0 = none) (hfresh : ∀ e' ∈ done, e'.item.key ≠ e.item.key) :
    Inv0 defs0 (done ++ [e]) (defsInsert e.item.key e.item.v defs).2 qr := by
  refine ⟨defsInsert_sorted _ _ _ inv.sorted, ?_, ?_, ?_, ?_, ?_⟩
  · intro k v0 hk
    have hne : k ≠ e.item.key := fun h => by rw [h, h0] at hk; cases hk
    rw [defsGet_insert_other _ _ _ _ hne]
    exact inv.old k v0 hk
  · intro k hk0 hk
    have hne : k ≠ e.item.key := fun h => hk e (by simp) h.symm
    rw [defsGet_insert_other _ _ _ _ hne]
    exact inv.other k hk0 fun e' he' => hk e' (by simp [he'])
  · intro it' hm h0'
    rcases List.mem_append.mp hm with hm | hm
    · rw [defsGet_insert_other e.item.key it'.key e.item.v defs (hfresh _ hm)]
      exact inv.plain it' hm h0'
    · simp only [List.mem_singleton] at hm
      subst hm
      exact defsGet_insert_same _ _ _
  · intro it' h' hm h0'
    rcases List.mem_append.mp hm with hm | hm
    · rw [defsGet_insert_other e.item.key it'.key e.item.v defs (hfresh _ hm)]
      exact inv.dep it' h' hm h0'
    · simp only [List.mem_singleton] at hm
      subst hm
      exact Or.inl (defsGet_insert_same _ _ _)
  · intro it' hm
    obtain ⟨h', hh', h0'⟩ := inv.queued it' hm
    exact ⟨h', by simp [hh'], h0'⟩

section
variable (s : Bytes) (defs0 : Defs) (all : List Entry)
  (hnd : (all.map fun e => e.item.key).Nodup)
  (hplain : ∀ it, Entry.plain it ∈ all → defsGet it.key defs0 = none →
    it.ofs < s.length ∧ ReadsAt 0 50 false s it)
  (hdep : ∀ it h, Entry.dep it h ∈ all → defsGet it.key defs0 = none → it.ofs < s.length ∧
    ∃ len : Int, ReadsDep s it h len ∧
      ((∃ ht, Entry.plain ht ∈ all ∧ ht.key = h ∧ defsGet ht.key defs0 = none ∧ ht.v.val = .int len) ∨
       (∃ v0, defsGet h defs0 = some v0 ∧ v0.val = .int len)))
include hnd hplain hdep

/-- the first pass over a MIXED entry list from any reachable state: it ends without rejection in a state
    where every in-file entry is bound or queued; `obj_streams` collects the in-stream entries' containers -/
theorem firstPass_two0 : ∀ (infos : List ObjInfo) (rest done : List Entry) (defs : Defs) (qr : List Item)
    (os : List ObjId),
    all = done ++ rest → filesOf infos = rest.map (fun e => e.item.info) → Inv0 defs0 done defs qr →
    ∃ defs' q, firstPass infos ⟨defs, 0, 50, false⟩ s os (qr.map LoaderTwoPass.Item.triple) =
        (.ok (stmSet infos os, q.map LoaderTwoPass.Item.triple), ⟨defs', 0, 50, false⟩) ∧ Inv0 defs0 all defs' q
  | [], rest, done, defs, qr, os, hall, hf, inv => by
    cases rest with
    | cons e t => simp [filesOf] at hf
    | nil =>
      rw [List.append_nil] at hall
      subst hall
      refine ⟨defs, qr.reverse, ?_, ?_⟩
      · simp [firstPass, stmSet, List.map_reverse]
      · exact ⟨inv.sorted, inv.old, inv.other, inv.plain,
          fun it h hm h0 => (inv.dep it h hm h0).imp id (fun ⟨a, b⟩ => ⟨a, List.mem_reverse.mpr b⟩),
          fun it hm => inv.queued it (List.mem_reverse.mp hm)⟩
  | .inStm id gen :: t, rest, done, defs, qr, os, hall, hf, inv => by
    simp only [firstPass, stmSet]
    exact firstPass_two0 t rest done defs qr _ hall (by simpa [filesOf] using hf) inv
  | .inFile id gen ofs :: t, rest, done, defs, qr, os, hall, hf, inv => by
    cases rest with
    | nil => simp [filesOf] at hf
    | cons e rest =>
      simp only [filesOf, List.map_cons, List.cons.injEq] at hf
      obtain ⟨hinfo, hf'⟩ := hf
      simp only [Item.info, ObjInfo.inFile.injEq] at hinfo
      obtain ⟨rfl, rfl, rfl⟩ := hinfo
      have hfresh : ∀ e' ∈ done, e'.item.key ≠ e.item.key :=
        fresh_of_nodup (fun e : Entry => e.item.key) done rest e (hall ▸ hnd)
      have hall' : all = (done ++ [e]) ++ rest := by rw [hall]; simp
      have hein : e ∈ all := by rw [hall]; simp
      cases h0 : defsGet e.item.key defs0 with
      | some v0 =>
        -- bound before the stage started: skipped
        have hg : defsGet (e.item.id, e.item.gen) defs = some v0 := inv.old _ v0 h0
        simp only [firstPass, stmSet, hg, Option.isSome_some, if_true]
        exact firstPass_two0 t rest (done ++ [e]) defs qr os hall' hf' (inv.skip e ⟨v0, h0⟩)
      | none =>
        have hn : defsGet e.item.key defs = none := inv.other _ h0 hfresh
        have hn' : defsGet (e.item.id, e.item.gen) defs = none := hn
        cases e with
        | plain it =>
          obtain ⟨hlt, hr⟩ := hplain it hein h0
          obtain ⟨a, e, hp⟩ := hr defs inv.sorted hn
          have hlt' : (Entry.plain it).item.ofs < s.length := hlt
          simp only [firstPass, stmSet, hn', Option.isSome_none, Bool.false_eq_true,
            if_false, hlt', decide_true, Bool.not_true]
          simp only [Entry.item, hp, bne_self_eq_false, Bool.false_eq_true, if_false]
          exact firstPass_two0 t rest (done ++ [Entry.plain it]) _ qr os hall' hf'
            (inv.reg (Entry.plain it) h0 hfresh)
        | dep it h =>
          obtain ⟨hlt, len, ⟨hr1, hr2⟩, hholder⟩ := hdep it h hein h0
          have hlt' : (Entry.dep it h).item.ofs < s.length := hlt
          -- is the holder bound now?
          have hcase : (∃ lv, defsGet h defs = some lv ∧ lv.val = .int len) ∨ defsGet h defs = none := by
            rcases hholder with ⟨ht, htin, htk, ht0, htv⟩ | ⟨v0, hv0, hvv⟩
            · by_cases hdone : Entry.plain ht ∈ done
              · exact .inl ⟨ht.v, htk ▸ inv.plain ht hdone ht0, htv⟩
              · right
                rw [← htk]
                apply inv.other _ ht0
                intro e' he' hk
                have := key_inj (fun e : Entry => e.item.key) all hnd e' (by rw [hall]; simp [he']) _ htin hk
                exact hdone (this ▸ he')
            · exact .inl ⟨v0, inv.old h v0 hv0, hvv⟩
          rcases hcase with hh | hhn
          · obtain ⟨a, e, hp⟩ := hr1 defs inv.sorted hn hh
            simp only [firstPass, stmSet, hn', Option.isSome_none, Bool.false_eq_true,
              if_false, hlt', decide_true, Bool.not_true]
            simp only [Entry.item, hp, bne_self_eq_false, Bool.false_eq_true, if_false]
            exact firstPass_two0 t rest (done ++ [Entry.dep it h]) _ qr os hall' hf'
              (inv.reg (Entry.dep it h) h0 hfresh)
          · obtain ⟨j, hp⟩ := hr2 defs inv.sorted hn hhn
            simp only [firstPass, stmSet, hn', Option.isSome_none, Bool.false_eq_true,
              if_false, hlt', decide_true, Bool.not_true]
            simp only [Entry.item, hp]
            apply firstPass_two0 t rest (done ++ [Entry.dep it h]) defs (it :: qr) os hall' hf'
            refine ⟨inv.sorted, inv.old, ?_, ?_, ?_, ?_⟩
            · intro k hk0 hk
              exact inv.other k hk0 fun e' he' => hk e' (by simp [he'])
            · intro it' hm h0'
              rcases List.mem_append.mp hm with hm | hm
              · exact inv.plain it' hm h0'
              · simp at hm
            · intro it' h' hm h0'
              rcases List.mem_append.mp hm with hm | hm
              · exact (inv.dep it' h' hm h0').imp id (fun ⟨a, b⟩ => ⟨a, List.mem_cons_of_mem _ b⟩)
              · simp only [List.mem_singleton, Entry.dep.injEq] at hm
                obtain ⟨rfl, rfl⟩ := hm
                exact Or.inr ⟨hn, List.mem_cons_self⟩
            · intro it' hm
              rcases List.mem_cons.mp hm with rfl | hm
              · exact ⟨h, by simp, h0⟩
              · obtain ⟨h', hh', h0'⟩ := inv.queued it' hm
                exact ⟨h', by simp [hh'], h0'⟩

omit hplain in
/-- the second pass over the queue registers every queued entry -/
theorem secondPass_two0 : ∀ (q : List Item) (defs : Defs), Inv0 defs0 all defs q →
    ∃ defs', secondPass (q.map LoaderTwoPass.Item.triple) ⟨defs, 0, 50, false⟩ s = (.ok (), ⟨defs', 0, 50, false⟩) ∧
      Inv0 defs0 all defs' []
  | [], defs, inv => ⟨defs, by simp [secondPass], inv⟩
  | it :: t, defs, inv => by
    obtain ⟨h, hin, h0⟩ := inv.queued it List.mem_cons_self
    cases hg : defsGet it.key defs with
    | some v =>
      have hg' : defsGet (it.id, it.gen) defs = some v := hg
      simp only [List.map_cons, LoaderTwoPass.Item.triple, secondPass, hg', Option.isSome_some, if_true]
      apply secondPass_two0 t defs
      refine ⟨inv.sorted, inv.old, inv.other, inv.plain, ?_, fun x hx => inv.queued x (List.mem_cons_of_mem _ hx)⟩
      intro it' h' hm h0'
      rcases inv.dep it' h' hm h0' with h1 | ⟨h1, h2⟩
      · exact Or.inl h1
      · rcases List.mem_cons.mp h2 with rfl | h2
        · rw [hg] at h1; cases h1
        · exact Or.inr ⟨h1, h2⟩
    | none =>
      have hg' : defsGet (it.id, it.gen) defs = none := hg
      obtain ⟨hlt, len, ⟨hr1, _⟩, hholder⟩ := hdep it h hin h0
      have hh : ∃ lv, defsGet h defs = some lv ∧ lv.val = .int len := by
        rcases hholder with ⟨ht, htin, htk, ht0, htv⟩ | ⟨v0, hv0, hvv⟩
        · exact ⟨ht.v, htk ▸ inv.plain ht htin ht0, htv⟩
        · exact ⟨v0, inv.old h v0 hv0, hvv⟩
      obtain ⟨a, e, hp⟩ := hr1 defs inv.sorted hg hh
      simp only [List.map_cons, LoaderTwoPass.Item.triple, secondPass, hg', Option.isSome_none, Bool.false_eq_true,
        if_false, hlt, decide_true, Bool.not_true, hp, bne_self_eq_false]
      apply secondPass_two0 t _
      have hinj := key_inj (fun e : Entry => e.item.key) all hnd
      refine ⟨defsInsert_sorted _ _ _ inv.sorted, ?_, ?_, ?_, ?_, fun x hx => inv.queued x (List.mem_cons_of_mem _ hx)⟩
      · intro k v0 hk
        have hne : k ≠ it.key := fun h' => by rw [h', h0] at hk; cases hk
        rw [defsGet_insert_other _ _ _ _ hne]
        exact inv.old k v0 hk
      · intro k hk0 hk
        have hne : k ≠ it.key := fun h' => hk (Entry.dep it h) hin h'.symm
        rw [defsGet_insert_other _ _ _ _ hne]
        exact inv.other k hk0 hk
      · intro it' hm h0'
        have hne : it'.key ≠ it.key := fun hk => by
          have := hinj _ hm _ hin hk
          cases this
        rw [defsGet_insert_other _ _ _ _ hne]
        exact inv.plain it' hm h0'
      · intro it' h' hm h0'
        by_cases hk : it'.key = it.key
        · have := hinj _ hm _ hin hk
          cases this
          exact Or.inl (defsGet_insert_same _ _ _)
        · rw [defsGet_insert_other _ _ _ _ hk]
          rcases inv.dep it' h' hm h0' with h1 | ⟨h1, h2⟩
          · exact Or.inl h1
          · rcases List.mem_cons.mp h2 with rfl | h2
            · exact absurd rfl hk
            · exact Or.inr ⟨h1, h2⟩

end

/-- the starting context satisfies the invariant -/
theorem inv0_start (defs0 : Defs) (hs0 : DefsSorted defs0) : Inv0 defs0 [] defs0 [] :=
  ⟨hs0, fun _ _ h => h, fun _ h _ => h, fun _ h => (by cases h), fun _ _ h => (by cases h),
    fun _ h => (by cases h)⟩

/-- **stage_two_pass_objstm** (all three loops, arbitrary starting context).  `parse_objects`, unencrypted,
    started in a context that already binds `defs0` (sorted), on ANY entry list whose in-file entries are
    `es` (pairwise distinct identifiers) and whose in-stream entries name exactly the containers `conts`:
    an entry already bound in `defs0` is skipped by both passes; a plain entry not yet bound lies in the file
    and reads in every context; a dependent stream not yet bound lies in the file and reads once its /Length
    holder is bound to the integer `len` (`ReadsDep`), where the holder is a plain entry of the list not bound
    in `defs0` - listed BEFORE OR AFTER the stream - with value `len`, or is bound in `defs0` to `len`;
    containers as in `stage_from_objstm` (a container may be a plain or a dependent entry, or bound in `defs0`).
    Then the load ends without rejection and (a) every entry not yet bound is bound to the value written at
    its offset, (b) every member of every container is bound to its value, (c) an identifier that is neither
    an entry nor a member keeps what `defs0` said, (d) every binding of `defs0` survives. -/
theorem stage_two_pass_objstm (hofs : Nat) (s : Bytes) (defs0 : Defs) (hs0 : DefsSorted defs0)
    (infos : List ObjInfo) (es : List Entry) (conts : List Cont)
    (hfiles : filesOf infos = es.map fun e => e.item.info)
    (hstms : ∀ id, id ∈ stmsOf infos ↔ ∃ c ∈ conts, id = c.key)
    (hnd : (es.map fun e => e.item.key).Nodup)
    (hplain : ∀ it, Entry.plain it ∈ es → defsGet it.key defs0 = none →
      it.ofs < s.length ∧ ReadsAt 0 50 false s it)
    (hdep : ∀ it h, Entry.dep it h ∈ es → defsGet it.key defs0 = none → it.ofs < s.length ∧
      ∃ len : Int, ReadsDep s it h len ∧
        ((∃ ht, Entry.plain ht ∈ es ∧ ht.key = h ∧ defsGet ht.key defs0 = none ∧ ht.v.val = .int len) ∨
         (∃ v0, defsGet h defs0 = some v0 ∧ v0.val = .int len)))
    (hcnd : (conts.map Cont.num).Nodup)
    (hcont : ∀ c ∈ conts,
      ((∃ e ∈ es, e.item.key = c.key ∧ defsGet e.item.key defs0 = none ∧ e.item.v.val = .stream c.kvs c.sc) ∨
       (∃ v0, defsGet c.key defs0 = some v0 ∧ v0.val = .stream c.kvs c.sc)) ∧ c.Loads hofs s)
    (hmnd : (conts.flatMap fun c => c.members.map (·.1)).Nodup)
    (hfresh : ∀ c ∈ conts, ∀ m ∈ c.members, (∀ e ∈ es, e.item.key ≠ (m.1, 0)) ∧ defsGet (m.1, 0) defs0 = none) :
    ∃ defs, parseObjects hofs ⟨⟨defs0, 0, 50, false⟩, false⟩ infos s = .ok defs ∧
      (∀ e ∈ es, defsGet e.item.key defs0 = none → ObjStm.defsGet e.item.key defs = some e.item.v.val) ∧
      (∀ c ∈ conts, ∀ m ∈ c.members, ObjStm.defsGet (m.1, 0) defs = some m.2) ∧
      (∀ k, (∀ e ∈ es, e.item.key ≠ k) → (∀ c ∈ conts, ∀ m ∈ c.members, (m.1, 0) ≠ k) →
          ObjStm.defsGet k defs = (defsGet k defs0).map (·.val)) ∧
      (∀ k v0, defsGet k defs0 = some v0 → ObjStm.defsGet k defs = some v0.val) := by
  obtain ⟨defs1, q, hfp, inv1⟩ := firstPass_two0 s defs0 es hnd hplain hdep infos es [] defs0 [] [] rfl hfiles
    (inv0_start defs0 hs0)
  obtain ⟨D, hsp, inv⟩ := secondPass_two0 s defs0 es hnd hdep q defs1 inv1
  -- what the final definitions say about an entry
  have hentry : ∀ e ∈ es, defsGet e.item.key defs0 = none → defsGet e.item.key D = some e.item.v := by
    intro e he h0
    cases e with
    | plain it => exact inv.plain it he h0
    | dep it h =>
      rcases inv.dep it h he h0 with h1 | ⟨_, h2⟩
      · exact h1
      · cases h2
  have hnon : ∀ k, (∀ e ∈ es, e.item.key ≠ k) → defsGet k D = defsGet k defs0 := by
    intro k hk
    cases h0 : defsGet k defs0 with
    | some v0 => exact inv.old k v0 h0
    | none => exact inv.other k h0 hk
  -- the containers under the final definitions
  have hF : ∀ c ∈ conts, ∃ lv, defsGet c.key D = some lv ∧ lv.val = .stream c.kvs c.sc := by
    intro c hc
    rcases (hcont c hc).1 with ⟨e, he, hk, hn, hv⟩ | ⟨v0, h0, hv⟩
    · exact ⟨e.item.v, by rw [← hk]; exact hentry e he hn, hv⟩
    · exact ⟨v0, inv.old c.key v0 h0, hv⟩
  have hos : ∀ id ∈ stmSet infos [], ∃ c ∈ conts, id = c.key := by
    intro id hid
    rcases (mem_stmSet id infos []).mp hid with h | h
    · exact (hstms id).mp h
    · cases h
  obtain ⟨cs, hds, hkeys, hsub⟩ := definedStreams_conts conts D hF (stmSet infos []) hos
  have hosnd : (stmSet infos []).Nodup := setSorted_nodup _ (stmSet_sorted infos [] List.Pairwise.nil)
  have hcsnd : (cs.map Cont.num).Nodup := by
    have h1 : (cs.map Cont.key).Nodup := by rw [hkeys]; exact hosnd
    have h2 : cs.map Cont.key = (cs.map Cont.num).map (fun n => (n, 0)) := by simp [Cont.key]
    rw [h2] at h1
    exact nodup_of_nodup_map _ _ h1
  have hall : ∀ c ∈ conts, c ∈ cs := by
    intro c hc
    have h1 : c.key ∈ stmSet infos [] :=
      (mem_stmSet c.key infos []).mpr (.inl ((hstms c.key).mpr ⟨c, hc, rfl⟩))
    rw [← hkeys] at h1
    obtain ⟨c', hc', hk⟩ := List.mem_map.mp h1
    have hnum : c'.num = c.num := by simpa [Cont.key] using hk
    have : c' = c := inj_of_nodup_map Cont.num conts hcnd c' (hsub c' hc') c hc hnum
    rw [← this]; exact hc'
  have hdisj := disjoint_of_nodup conts hmnd
  have hfreshD : ∀ c ∈ cs, ∀ m ∈ c.members, ObjStm.defsGet (m.1, 0) (valDefs D) = none := by
    intro c hc m hm
    obtain ⟨h1, h2⟩ := hfresh c (hsub c hc) m hm
    rw [valDefs_get, hnon (m.1, 0) h1, h2]
    rfl
  obtain ⟨oc', hrun, hmem, hoth⟩ := objStmPass_conts hofs s cs ⟨valDefs D, ⟨0, 50⟩, false⟩
    rfl rfl (LoaderNoPanic.valDefs_sorted _ inv.sorted) (fun c hc => (hcont c (hsub c hc)).2) hcsnd
    (fun c1 h1 c2 h2 => hdisj c1 (hsub c1 h1) c2 (hsub c2 h2)) hfreshD
  refine ⟨oc'.defs, ?_, ?_, ?_, ?_, ?_⟩
  · unfold parseObjects
    show (match firstPass infos ⟨defs0, 0, 50, false⟩ s [] [] with
      | (.panic p, _) => _ | (.reject, _) => _ | (.ok (os, sp), c1) => _) = _
    rw [show ([] : List (Nat × Nat × Nat)) = ([] : List Item).map LoaderTwoPass.Item.triple from rfl, hfp]
    simp only [hsp, hds, hrun]
  · intro e he hn
    rw [hoth e.item.key (fun c hc m hm hk => (hfresh c (hsub c hc) m hm).1 e he hk.symm), valDefs_get,
      hentry e he hn]
    rfl
  · intro c hc m hm
    exact hmem c (hall c hc) m hm
  · intro k hk1 hk2
    rw [hoth k (fun c hc => hk2 c (hsub c hc)), valDefs_get, hnon k hk1]
  · intro k v0 h0
    rw [hoth k (fun c hc m hm hk => by
        have := (hfresh c (hsub c hc) m hm).2
        rw [hk, h0] at this; cases this),
      valDefs_get, inv.old k v0 h0]
    rfl

/-- **stage_two_pass_from**: no in-stream entries, any sorted starting context (`LoaderTwoPass.load_two_pass`
    from `defs0`; `LoaderStage.stage_from` with dependent streams) -/
theorem stage_two_pass_from (hofs : Nat) (s : Bytes) (defs0 : Defs) (hs0 : DefsSorted defs0) (es : List Entry)
    (hnd : (es.map fun e => e.item.key).Nodup)
    (hplain : ∀ it, Entry.plain it ∈ es → defsGet it.key defs0 = none →
      it.ofs < s.length ∧ ReadsAt 0 50 false s it)
    (hdep : ∀ it h, Entry.dep it h ∈ es → defsGet it.key defs0 = none → it.ofs < s.length ∧
      ∃ len : Int, ReadsDep s it h len ∧
        ((∃ ht, Entry.plain ht ∈ es ∧ ht.key = h ∧ defsGet ht.key defs0 = none ∧ ht.v.val = .int len) ∨
         (∃ v0, defsGet h defs0 = some v0 ∧ v0.val = .int len))) :
    ∃ defs, parseObjects hofs ⟨⟨defs0, 0, 50, false⟩, false⟩ (es.map fun e => e.item.info) s = .ok defs ∧
      (∀ e ∈ es, defsGet e.item.key defs0 = none → ObjStm.defsGet e.item.key defs = some e.item.v.val) ∧
      (∀ k, (∀ e ∈ es, e.item.key ≠ k) → ObjStm.defsGet k defs = (defsGet k defs0).map (·.val)) ∧
      (∀ k v0, defsGet k defs0 = some v0 → ObjStm.defsGet k defs = some v0.val) := by
  have hfo : ∀ l : List Entry, filesOf (l.map fun e => e.item.info) = l.map fun e => e.item.info := by
    intro l
    induction l with
    | nil => rfl
    | cons e t ih => exact congrArg (List.cons e.item.info) ih
  have hso : ∀ l : List Entry, stmsOf (l.map fun e => e.item.info) = [] := by
    intro l
    induction l with
    | nil => rfl
    | cons e t ih => exact ih
  obtain ⟨defs, h1, h2, -, h4, h5⟩ := stage_two_pass_objstm hofs s defs0 hs0 (es.map fun e => e.item.info) es []
    (hfo es) (by intro id; rw [hso]; simp) hnd hplain hdep (by simp) (by intro c hc; cases hc) (by simp)
    (by intro c hc; cases hc)
  exact ⟨defs, h1, h2, fun k hk => h4 k hk (by intro c hc; cases hc), h5⟩

/-- **stage_two_pass_objstm_written**: the containers are object streams AS WRITTEN (`WCont.OK`) -/
theorem stage_two_pass_objstm_written (hofs : Nat) (s : Bytes) (defs0 : Defs) (hs0 : DefsSorted defs0)
    (infos : List ObjInfo) (es : List Entry) (ws : List WCont)
    (hsize : hofs + s.length ≤ 2 ^ 63)
    (hfiles : filesOf infos = es.map fun e => e.item.info)
    (hstms : ∀ id, id ∈ stmsOf infos ↔ ∃ w ∈ ws, id = (w.num, 0))
    (hnd : (es.map fun e => e.item.key).Nodup)
    (hplain : ∀ it, Entry.plain it ∈ es → defsGet it.key defs0 = none →
      it.ofs < s.length ∧ ReadsAt 0 50 false s it)
    (hdep : ∀ it h, Entry.dep it h ∈ es → defsGet it.key defs0 = none → it.ofs < s.length ∧
      ∃ len : Int, ReadsDep s it h len ∧
        ((∃ ht, Entry.plain ht ∈ es ∧ ht.key = h ∧ defsGet ht.key defs0 = none ∧ ht.v.val = .int len) ∨
         (∃ v0, defsGet h defs0 = some v0 ∧ v0.val = .int len)))
    (hcnd : (ws.map WCont.num).Nodup)
    (hcont : ∀ w ∈ ws,
      ((∃ e ∈ es, e.item.key = (w.num, 0) ∧ defsGet e.item.key defs0 = none ∧ e.item.v.val = .stream w.kvs w.sc) ∨
       (∃ v0, defsGet (w.num, 0) defs0 = some v0 ∧ v0.val = .stream w.kvs w.sc)) ∧ w.OK s)
    (hmnd : (ws.flatMap fun w => w.mems.map (·.num)).Nodup)
    (hfresh : ∀ w ∈ ws, ∀ m ∈ w.mems, (∀ e ∈ es, e.item.key ≠ (m.num, 0)) ∧ defsGet (m.num, 0) defs0 = none) :
    ∃ defs, parseObjects hofs ⟨⟨defs0, 0, 50, false⟩, false⟩ infos s = .ok defs ∧
      (∀ e ∈ es, defsGet e.item.key defs0 = none → ObjStm.defsGet e.item.key defs = some e.item.v.val) ∧
      (∀ w ∈ ws, ∀ m ∈ w.mems, ObjStm.defsGet (m.num, 0) defs = some m.v) ∧
      (∀ k, (∀ e ∈ es, e.item.key ≠ k) → (∀ w ∈ ws, ∀ m ∈ w.mems, (m.num, 0) ≠ k) →
          ObjStm.defsGet k defs = (defsGet k defs0).map (·.val)) ∧
      (∀ k v0, defsGet k defs0 = some v0 → ObjStm.defsGet k defs = some v0.val) := by
  have hflat : ∀ l : List WCont, (l.map WCont.cont).flatMap (fun c => c.members.map (·.1)) =
      l.flatMap fun w => w.mems.map (·.num) := by
    intro l
    induction l with
    | nil => rfl
    | cons w t ih => simp only [List.map_cons, List.flatMap_cons, ih, WCont.cont, List.map_map]; rfl
  have hndw : ∀ l : List WCont, (l.flatMap fun w => w.mems.map (·.num)).Nodup →
      ∀ w ∈ l, (w.mems.map (·.num)).Nodup := by
    intro l
    induction l with
    | nil => intro _ w hw; cases hw
    | cons x t ih =>
      intro h w hw
      simp only [List.flatMap_cons, List.nodup_append] at h
      rcases List.mem_cons.mp hw with e | hw'
      · rw [e]; exact h.1
      · exact ih h.2.1 w hw'
  obtain ⟨defs, h1, h2, h3, h4, h5⟩ := stage_two_pass_objstm hofs s defs0 hs0 infos es (ws.map WCont.cont)
    hfiles
    (by
      intro id
      rw [hstms id]
      constructor
      · rintro ⟨w, hw, rfl⟩; exact ⟨w.cont, List.mem_map_of_mem hw, rfl⟩
      · rintro ⟨c, hc, rfl⟩
        obtain ⟨w, hw, rfl⟩ := List.mem_map.mp hc
        exact ⟨w, hw, rfl⟩)
    hnd hplain hdep
    (by simpa [List.map_map, Function.comp_def, WCont.cont] using hcnd)
    (by
      intro c hc
      obtain ⟨w, hw, rfl⟩ := List.mem_map.mp hc
      exact ⟨(hcont w hw).1, WCont.loads hofs s w hsize (hcont w hw).2 (hndw ws hmnd w hw)⟩)
    (by rw [hflat]; exact hmnd)
    (by
      intro c hc m hm
      obtain ⟨w, hw, rfl⟩ := List.mem_map.mp hc
      obtain ⟨x, hx, rfl⟩ := List.mem_map.mp hm
      exact hfresh w hw x hx)
  refine ⟨defs, h1, h2, ?_, ?_, h5⟩
  · intro w hw m hm
    exact h3 w.cont (List.mem_map_of_mem hw) (m.num, m.v) (List.mem_map.mpr ⟨m, hm, rfl⟩)
  · intro k hk1 hk2
    apply h4 k hk1
    intro c hc m hm
    obtain ⟨w, hw, rfl⟩ := List.mem_map.mp hc
    obtain ⟨x, hx, rfl⟩ := List.mem_map.mp hm
    exact hk2 w hw x hx

open Parsley.LoaderE2E (WStm WObj)

/-! ## non-vacuity -/

/-- `<</Length 2 0 R>>` -/
theorem tpRefDict_spells : C02.Spells 2 (.dict [([76, 101, 110, 103, 116, 104], .ref 2 0)])
    [60, 60, 47, 76, 101, 110, 103, 116, 104, 32, 50, 32, 48, 32, 82, 62, 62] :=
  C02.Spells.dict 1 _ _ []
    (C02.SpellsEntries.cons 1 [] [76, 101, 110, 103, 116, 104] (.ref 2 0) [] [] exRawCh [32] _ _ C02.WsRun.nil
      (by decide) (by simp) exWs32
      (C02.Spells.ref 0 [50] [32] [48] [32] (by simp) (by decide) (by decide) (by simp) (by decide) (by decide)
        exWs32 (by simp) exWs32 (by simp))
      (fun _ => by simp) (C02.SpellsEntries.nil 1 _)) C02.WsRun.nil

/-- `1 0 obj<</Length 2 0 R>>stream LF abc LF endstream SP endobj` -/
def tpStmF : WStm := ⟨[], [49], [32], [48], [32], [], [60, 60, 47, 76, 101, 110, 103, 116, 104, 32, 50, 32, 48, 32, 82, 62, 62],
  [], [10], [97, 98, 99], [10], [32], [([76, 101, 110, 103, 116, 104], .ref 2 0)], 2⟩
/-- `2 0 obj 3 endobj` -/
def tpHolder : WObj := ⟨[], [50], [32], [48], [32], [32], [51], [32], .int 3, 1⟩

theorem tpStmF_ok : tpStmF.OK where
  head := {
    pad := C02.WsRun.nil
    nne := by simp [tpStmF, WStm.head]
    ndig := by decide
    nfit := by decide
    w1 := exWs32
    w1ne := by simp [tpStmF, WStm.head]
    gne := by simp [tpStmF, WStm.head]
    gdig := by decide
    gfit := by decide
    w2 := exWs32
    w3 := C02.WsRun.nil
    spells := tpRefDict_spells
    depth := by decide
    w4 := C02.WsRun.nil
    w4req := by intro h; simp [tpStmF, WStm.head, C02.endsReg] at h }
  e1 := by decide
  e2 := by decide
  w4 := exWs32

theorem tpHolder_ok : tpHolder.OK where
  pad := C02.WsRun.nil
  nne := by simp [tpHolder]
  ndig := by decide
  nfit := by decide
  w1 := exWs32
  w1ne := by simp [tpHolder]
  gne := by simp [tpHolder]
  gdig := by decide
  gfit := by decide
  w2 := exWs32
  w3 := exWs32
  spells := C02.Spells.int 0 .none [51] (by simp) (by decide) (by decide)
  depth := by decide
  w4 := exWs32
  w4req := by intro _; simp [tpHolder]

/-- a header line; stream 1 with `/Length 2 0 R`; its holder 2 AFTER it; the object stream 3 of
    `LoaderE2EObjStmW` (members 11 and 12) -/
def tpFile : Bytes :=
  [37, 80, 68, 70, 10] ++ (tpStmF.bytes ++ ([10] ++ (tpHolder.bytes ++ ([10] ++ (exStm.bytes ++ [10, 10])))))
def tpO1 : Nat := 5
def tpO2 : Nat := 5 + tpStmF.bytes.length + 1
def tpO3 : Nat := tpO2 + tpHolder.bytes.length + 1

def tpIt1 : Item := ⟨tpStmF.num, tpStmF.gen, tpO1, tpStmF.val tpO1⟩
def tpIt2 : Item := ⟨tpHolder.num, tpHolder.gen, tpO2,
  ⟨tpHolder.v, tpO2 + tpHolder.valOfs, tpO2 + tpHolder.valOfs + tpHolder.tok.length⟩⟩
def tpIt3 : Item := ⟨3, 0, tpO3, exStm.val tpO3⟩
/-- an entry for an identifier the starting context already binds: skipped, never read (offset 0 holds no object) -/
def tpIt9 : Item := ⟨9, 0, 0, ⟨.null, 0, 0⟩⟩
def tpDefs0 : Defs := [((9, 0), ⟨.bool true, 0, 0⟩)]

def tpW : WCont := ⟨3, exStm.kvs, ⟨tpO3 + exStm.kwOfs + 6 + exStm.e1.length, exStm.data.length, exStm.data⟩,
  exEs, [32], exMems, []⟩

theorem tpIt1_dep : ReadsDep tpFile tpIt1 (2, 0) 3 :=
  LoaderE2E.reads_stream_ref tpFile tpO1 tpStmF ([10] ++ (tpHolder.bytes ++ ([10] ++ (exStm.bytes ++ [10, 10]))))
    (by decide +kernel) (by decide +kernel) tpStmF_ok (2, 0) (by rfl)

theorem tpIt2_reads : ReadsAt 0 50 false tpFile tpIt2 :=
  LoaderE2E.reads_spelled tpFile tpO2 tpHolder ([10] ++ (exStm.bytes ++ [10, 10])) (by decide +kernel) (by decide +kernel)
    tpHolder_ok

theorem tpIt3_reads : ReadsAt 0 50 false tpFile tpIt3 :=
  LoaderE2E.reads_stream_direct tpFile tpO3 exStm [10, 10] (by decide +kernel) (by decide +kernel) exStm_ok (by rfl)

theorem tpW_ok : tpW.OK tpFile :=
  WCont.ok_of_wstm tpFile tpO3 exStm [10, 10] tpW (by decide +kernel) (by decide +kernel) rfl {
    type := by rfl
    n := by rfl
    first := by rfl
    ne := by simp [tpW, exMems]
    decl := by decide
    layout := by decide
    bounded := by intro e he; simp [tpW, exEs] at he; rcases he with rfl | rfl <;> decide
    tail := by decide
    mems := exMems_ok
    stored := .plain (by rfl) (by decide) }

def tpEs : List Entry := [.dep tpIt1 (2, 0), .plain tpIt9, .plain tpIt2, .plain tpIt3]
def tpInfos : List ObjInfo := [.inStm 3 0, tpIt1.info, tpIt9.info, tpIt2.info, tpIt3.info, .inStm 3 0]

theorem tp_keys : tpEs.map (fun e => e.item.key) = [(1, 0), (9, 0), (2, 0), (3, 0)] := by decide

/-- the hypotheses of `stage_two_pass_objstm_written` are satisfiable: the dependent stream 1 is listed (and
    written) BEFORE its holder 2 - the first pass queues it, the second reads it; entry 9 is bound by the
    starting context and skipped (its offset holds no object); container 3 is loaded through its own entry
    and its members 11, 12 are bound by the third loop; nothing else is defined -/
theorem tp_loads : ∃ defs, parseObjects 0 ⟨⟨tpDefs0, 0, 50, false⟩, false⟩ tpInfos tpFile = .ok defs ∧
    ObjStm.defsGet (1, 0) defs = some (tpStmF.val tpO1).val ∧ ObjStm.defsGet (2, 0) defs = some (.int 3) ∧
    ObjStm.defsGet (3, 0) defs = some (exStm.val tpO3).val ∧
    ObjStm.defsGet (11, 0) defs = some (.int 11) ∧ ObjStm.defsGet (12, 0) defs = some (.bool true) ∧
    ObjStm.defsGet (9, 0) defs = some (.bool true) ∧ ObjStm.defsGet (13, 0) defs = none := by
  have hmems : ∀ m ∈ tpW.mems, m.num = 11 ∨ m.num = 12 := by
    intro m hm
    simp [tpW, exMems] at hm
    rcases hm with rfl | rfl
    · exact .inl rfl
    · exact .inr rfl
  have hkeys : ∀ e ∈ tpEs, e.item.key = (1, 0) ∨ e.item.key = (9, 0) ∨ e.item.key = (2, 0) ∨ e.item.key = (3, 0) := by
    intro e he
    have : e.item.key ∈ tpEs.map (fun e => e.item.key) := List.mem_map_of_mem he
    rw [tp_keys] at this
    simpa using this
  obtain ⟨defs, h1, h2, h3, h4, h5⟩ := stage_two_pass_objstm_written 0 tpFile tpDefs0
    (by simp [tpDefs0, DefsSorted]) tpInfos tpEs [tpW] (by decide +kernel) rfl
    (by intro id; simp [stmsOf, tpInfos, Item.info, tpW])
    (by rw [tp_keys]; decide)
    (by
      intro it hit h0
      simp only [tpEs, List.mem_cons, Entry.plain.injEq, List.mem_nil_iff, or_false, reduceCtorEq, false_or] at hit
      rcases hit with rfl | rfl | rfl
      · cases h0
      · exact ⟨by decide +kernel, tpIt2_reads⟩
      · exact ⟨by decide +kernel, tpIt3_reads⟩)
    (by
      intro it h hit h0
      simp only [tpEs, List.mem_cons, Entry.dep.injEq, List.mem_nil_iff, or_false, reduceCtorEq] at hit
      obtain ⟨rfl, rfl⟩ := hit
      exact ⟨by decide +kernel, 3, tpIt1_dep, .inl ⟨tpIt2, by simp [tpEs], rfl, rfl, rfl⟩⟩)
    (by simp)
    (by
      intro w hw
      simp only [List.mem_singleton] at hw
      subst hw
      exact ⟨.inl ⟨.plain tpIt3, by simp [tpEs], rfl, rfl, rfl⟩, tpW_ok⟩)
    (by decide)
    (by
      intro w hw m hm
      simp only [List.mem_singleton] at hw
      subst hw
      refine ⟨?_, ?_⟩
      · intro e he
        rcases hkeys e he with h | h | h | h <;> rw [h] <;> rcases hmems m hm with h' | h' <;> rw [h'] <;> decide
      · rcases hmems m hm with h' | h' <;> rw [h'] <;> rfl)
  have hnot13 : ∀ w ∈ [tpW], ∀ m ∈ w.mems, (m.num, 0) ≠ ((13, 0) : ObjId) := by
    intro w hw m hm
    simp only [List.mem_singleton] at hw
    subst hw
    rcases hmems m hm with h | h <;> rw [h] <;> decide
  refine ⟨defs, h1, h2 (.dep tpIt1 (2, 0)) (by simp [tpEs]) rfl, h2 (.plain tpIt2) (by simp [tpEs]) rfl,
    h2 (.plain tpIt3) (by simp [tpEs]) rfl,
    h3 tpW (by simp) ⟨11, [], [], [49, 49], .int 11, 1⟩ (by simp [tpW, exMems]),
    h3 tpW (by simp) ⟨12, [32, 120], [32], [116, 114, 117, 101], .bool true, 1⟩ (by simp [tpW, exMems]),
    h5 (9, 0) _ rfl, ?_⟩
  rw [h4 (13, 0) (by intro e he; rcases hkeys e he with h | h | h | h <;> rw [h] <;> decide) hnot13]
  rfl

end Parsley.LoaderObjStm
