/-
  C03 end-to-end, cross-reference STREAM layouts (follow-up C03c).

    xrefSectP_at_digit         `XrefSectP` fails (no panic) where an indirect object starts, so `parse_xref_section`
                               falls back to `parse_xref_stream`
    parseXrefStream_written    `parse_xref_stream` on a written stream object with a direct Length: the object is
                               registered, its content view is exactly the data written, and the result is what
                               `XrefStreamP` decodes from it
    xrefStreamP_decoded        `XrefStreamP` on a dictionary with /Type /XRef, /Size, /W [w0 w1 w2], /Index (or none)
                               whose filter chain yields the rows written by C13's encoder: exactly `streamEnts subs`
    xrefinfo_stream            `get_xref_info` on a single cross-reference stream section
-/
import Parsley.Lemmas.LoaderE2E
import Parsley.Lemmas.LoaderE2EXrefDict
import Parsley.Lemmas.LoaderStage
namespace Parsley.LoaderE2E
open Parsley Parsley.Prim Parsley.Obj Parsley.Indirect Parsley.Loader Parsley.C02 Parsley.Spelling
open Parsley.XrefSpec Parsley.C13 Parsley.LoaderChain

/-! ## `XrefSectP` at an indirect object: rejected, so `parse_xref_section` falls back to the stream parser -/

theorem xisWsEol_eq (b : UInt8) : Xref.isWsEol b = Prim.isWsEol b := rfl

theorem parseAllowed_step (p : UInt8 → Bool) (s : Bytes) (i : Nat) (b : UInt8) (r : Bytes)
    (hd : s.drop i = b :: r) (hb : p b = true) :
    Xref.parseAllowed p s i = (b :: (Xref.parseAllowed p s (i + 1)).1, (Xref.parseAllowed p s (i + 1)).2) := by
  have h1 : s.drop (i + 1) = r := C13.drop_cons_step hd
  simp only [Xref.parseAllowed, hd, h1, List.takeWhile_cons, hb, if_true, List.length_cons]
  congr 1
  omega

/-- one more white-space byte in front does not change where the loop ends -/
theorem wsEolLoop_step (f : Nat) (s : Bytes) (i : Nat) (b : UInt8) (r : Bytes) (hd : s.drop i = b :: r)
    (hb : Xref.isWsEol b = true) (fl1 fl2 : Bool) (c : Nat)
    (h : ∃ b', Xref.wsEolLoop (f + 1) s (i + 1) fl1 = (.ok b', c)) :
    ∃ b', Xref.wsEolLoop (f + 1) s i fl2 = (.ok b', c) := by
  obtain ⟨b', h⟩ := h
  have hpa := parseAllowed_step Xref.isWsEol s i b r hd hb
  simp only [Xref.wsEolLoop] at h ⊢
  rw [hpa]
  simp only
  generalize Xref.parseAllowed Xref.isWsEol s (i + 1) = pa at h ⊢
  obtain ⟨v, j⟩ := pa
  simp only at h ⊢
  by_cases h37 : (s[j]? == some 37) = true
  · simp only [h37, if_true] at h ⊢
    rcases hc : Xref.comment s j with ⟨rc, k⟩
    rw [hc] at h
    cases rc with
    | ok u => simp only at h ⊢; exact ⟨b', h⟩
    | err e => simp at h
    | panic p => simp at h
  · have h37' : (s[j]? == some 37) = false := by simpa using h37
    simp only [h37', Bool.false_eq_true, if_false] at h ⊢
    simp only [Prod.mk.injEq, Res.ok.injEq] at h
    exact ⟨_, by rw [h.2]⟩

theorem xcomment_body (s : Bytes) (i : Nat) (body r : Bytes) (hd : s.drop i = 37 :: body ++ 10 :: r)
    (hb : ∀ y ∈ body, y ≠ 10) : Xref.comment s i = (.ok (), i + 1 + body.length + 1) := by
  have h0 : s[i]? = some 37 := C13.getElem?_of_drop (by simpa using hd)
  have hd1 : s.drop (i + 1) = body ++ 10 :: r := C13.drop_cons_step (by simpa using hd)
  have hpa := C13.parseAllowed_prefix Xref.notLf s (i + 1) body (10 :: r) hd1
    (by simp only [List.all_eq_true]; intro y hy; simp [Xref.notLf, hb y hy])
    (by intro y hy; simp at hy; subst hy; rfl)
  have hd2 : s.drop (i + 1 + body.length) = 10 :: r := drop_next hd1
  have h10 : s[i + 1 + body.length]? = some 10 := C13.getElem?_of_drop hd2
  unfold Xref.comment
  simp [h0, hpa, h10]

/-- the `WhitespaceEOL` loop of the C13 model on a white-space / comment run -/
theorem xwsEolLoop_run (s : Bytes) (rest : Bytes) (hrest : ∀ b, rest.head? = some b → Prim.isWsEol b = false ∧ b ≠ 37) :
    ∀ (lead : Bytes), WsRun lead → ∀ (i f : Nat) (fl : Bool), s.drop i = lead ++ rest → lead.length + 1 ≤ f →
      ∃ b', Xref.wsEolLoop f s i fl = (.ok b', i + lead.length) := by
  intro lead hl
  induction hl with
  | nil =>
    intro i f fl hd hf
    obtain ⟨f', rfl⟩ : ∃ f', f = f' + 1 := ⟨f - 1, by simp at hf; omega⟩
    have hpa := C13.parseAllowed_prefix Xref.isWsEol s i [] rest (by simpa using hd) rfl (fun b hb => (hrest b hb).1)
    have hnext : s[i]? = rest.head? := C13.head_of_drop (by simpa using hd)
    have h37 : (s[i]? == some 37) = false := by
      rw [hnext]
      cases hh : rest.head? with
      | none => rfl
      | some b => have := (hrest b hh).2; simp [this]
    simp [Xref.wsEolLoop, hpa, h37]
  | ws b t hb _ ih =>
    intro i f fl hd hf
    obtain ⟨f', rfl⟩ : ∃ f', f = f' + 1 := ⟨f - 1, by simp at hf; omega⟩
    have hd' : s.drop i = b :: (t ++ rest) := by simpa using hd
    have := ih (i + 1) (f' + 1) fl (C13.drop_cons_step hd') (by simp at hf; omega)
    have h2 := wsEolLoop_step f' s i b _ hd' hb fl fl _ this
    simpa [Nat.add_assoc, Nat.add_comm 1] using h2
  | comment body t hbody _ ih =>
    intro i f fl hd hf
    obtain ⟨f', rfl⟩ : ∃ f', f = f' + 1 := ⟨f - 1, by simp at hf; omega⟩
    have hd' : s.drop i = 37 :: body ++ 10 :: (t ++ rest) := by simpa using hd
    have hpa := C13.parseAllowed_prefix Xref.isWsEol s i [] (37 :: body ++ 10 :: (t ++ rest)) (by simpa using hd') rfl
      (by intro y hy; simp at hy; subst hy; rfl)
    have h0 : s[i]? = some 37 := C13.getElem?_of_drop (by simpa using hd')
    have hc := xcomment_body s i body _ hd' hbody
    have hdk : s.drop (i + 1 + body.length + 1) = t ++ rest := by
      have h1 : s.drop (i + 1) = body ++ 10 :: (t ++ rest) := C13.drop_cons_step (by simpa using hd')
      have h2 : s.drop (i + 1 + body.length) = 10 :: (t ++ rest) := drop_next h1
      exact C13.drop_cons_step h2
    obtain ⟨b', hr⟩ := ih (i + 1 + body.length + 1) f' false hdk (by simp at hf; omega)
    refine ⟨b', ?_⟩
    simp only [Xref.wsEolLoop, hpa, List.length_nil, Nat.add_zero, h0, beq_self_eq_true, if_true, hc]
    have hlen : (37 :: body ++ 10 :: t).length = 1 + body.length + 1 + t.length := by
      simp only [List.cons_append, List.length_cons, List.length_append]; omega
    rw [hr, hlen]
    simp only [Prod.mk.injEq, true_and]
    omega

theorem xwsEol_run (s : Bytes) (i : Nat) (lead rest : Bytes) (hi : i ≤ s.length) (hd : s.drop i = lead ++ rest)
    (hl : WsRun lead) (hrest : ∀ b, rest.head? = some b → Prim.isWsEol b = false ∧ b ≠ 37) :
    Xref.wsEol true s i = (.ok (), i + lead.length) := by
  have hlen := drop_le hd hi
  obtain ⟨b', h⟩ := xwsEolLoop_run s rest hrest lead hl i (s.length - i + 1) true hd (by omega)
  unfold Xref.wsEol
  rw [h]
  simp

/-- `XrefSectP` fails (without panic) where an indirect object starts: white space / comments and then a digit -/
theorem xrefSectP_at_digit (s : Bytes) (i : Nat) (pad rest : Bytes) (hi : i ≤ s.length) (hd : s.drop i = pad ++ rest)
    (hp : WsRun pad) (hdig : ∃ b t, rest = b :: t ∧ Prim.isDigit b = true) :
    ∃ k c, Xref.xrefSectP s i = (.err k, c) := by
  obtain ⟨b, t, rfl, hb⟩ := hdig
  have hw := xwsEol_run s i pad (b :: t) hi hd hp (by
    intro y hy; simp at hy; subst hy
    revert hb
    apply byte_cases (fun y => Prim.isDigit y = true → Prim.isWsEol y = false ∧ y ≠ 37)
    decide +kernel)
  have hd1 : s.drop (i + pad.length) = b :: t := drop_next hd
  have hne : ([120, 114, 101, 102] : Bytes).isPrefixOf (s.drop (i + pad.length)) = false := by
    rw [hd1]
    have : b ≠ 120 := by intro h; subst h; revert hb; decide
    simp [List.isPrefixOf, Ne.symm this]
  refine ⟨.guard, i + pad.length, ?_⟩
  unfold Xref.xrefSectP
  rw [hw]
  simp [Xref.andThen, Xref.exact, hne]


/-! ## `parse_xref_stream` on a written stream object -/

/-- everything of a written stream object before the keyword `stream` -/
def WStm.preBytes (o : WStm) : Bytes :=
  o.pad ++ (o.nds ++ (o.w1 ++ (o.gds ++ (o.w2 ++ (kwObj ++ (o.w3 ++ (o.dtok ++ o.w5)))))))

theorem WStm.bytes_split (o : WStm) : o.bytes = o.preBytes ++ o.tailBytes := by
  simp [WStm.bytes, WObj.headBytes, WStm.preBytes, WStm.head]

theorem WStm.preBytes_length (o : WStm) : o.preBytes.length = o.kwOfs := by
  simp [WStm.preBytes, WStm.kwOfs, WObj.valOfs, WStm.head, kwObj]; omega

/-- where the data of a written stream object sits -/
theorem WStm.data_at (s : Bytes) (i : Nat) (o : WStm) (post : Bytes) (hi : i ≤ s.length)
    (hd : s.drop i = o.bytes ++ post) :
    s.drop (i + o.kwOfs + 6 + o.e1.length) = o.data ++ (o.e2 ++ (kwEndstream ++ (o.w4 ++ kwEndobj)) ++ post) ∧
    i + o.kwOfs + 6 + o.e1.length + o.data.length ≤ s.length := by
  have h0 : s.drop i = o.preBytes ++ (kwStream ++ (o.e1 ++ (o.data ++ (o.e2 ++ (kwEndstream ++ (o.w4 ++ kwEndobj)) ++ post)))) := by
    rw [hd, WStm.bytes_split]; simp [WStm.tailBytes]
  have h1 := drop_next h0
  have i1 := drop_le h0 hi
  have h2 := drop_next h1
  have i2 := drop_le h1 i1
  have h3 := drop_next h2
  have i3 := drop_le h2 i2
  have i4 := drop_le h3 i3
  rw [WStm.preBytes_length] at h1 i1 h2 i2 h3 i3 i4
  have hk : kwStream.length = 6 := rfl
  rw [hk] at h2 i2 h3 i3 i4
  exact ⟨h3, i4⟩

/-- **`parse_xref_stream` on a written stream object** (direct Length, identifier not yet bound): the object is
    registered, the content view is the data as written, and the entries are what `XrefStreamP` decodes. -/
theorem parseXrefStream_written (s : Bytes) (i : Nat) (o : WStm) (post : Bytes) (hi : i ≤ s.length)
    (hd : s.drop i = o.bytes ++ post) (hok : o.OK)
    (hlen : dictGet keyLength o.kvs = some (.int o.data.length))
    (defs : Defs) (hs : DefsSorted defs) (hn : defsGet (o.num, o.gen) defs = none)
    (l : List (Located Xref.Ent)) (c : Nat)
    (hdec : Xref.xrefStreamP false (toXDict o.kvs) (xrefXf o.kvs) o.data 0 = (.ok l, c)) :
    ∃ j, parseXrefStream ⟨⟨defs, 0, 50, false⟩, false⟩ s i =
      (.ok (some (l.map (·.val), dictGet kRoot o.kvs, ObjStm.getUsize o.kvs kPrev)), j,
        ⟨⟨(defsInsert (o.num, o.gen) (o.val i) defs).2, 0, 50, false⟩, false⟩) := by
  have hsl : streamLength defs o.kvs = .ok o.data.length := by
    simp [streamLength, hlen, convertStreamLength, isUsize]
  obtain ⟨a, e, hp⟩ := (stm_reads_of_len s i o post hi hd hok defs hs hn).1 hsl
  obtain ⟨hdat, hle⟩ := WStm.data_at s i o post hi hd
  have hview : (s.drop (i + o.kwOfs + 6 + o.e1.length)).take o.data.length = o.data := by
    rw [hdat]; exact List.take_left' rfl
  have hchk : (o.data.length ≤ s.length && i + o.kwOfs + 6 + o.e1.length ≤ s.length - o.data.length) = true := by
    simp only [Bool.and_eq_true, decide_eq_true_eq]; omega
  refine ⟨e, ?_⟩
  unfold parseXrefStream
  simp only [hp, WStm.val, hchk, Bool.not_true, Bool.false_eq_true, if_false, hview, hdec]


/-! ## the stream dictionary and the rows -/

/-- the /Index array for subsections -/
def indexAtoms : List (Nat × List SEnt) → List Obj
  | [] => []
  | p :: t => .int p.1 :: .int p.2.length :: indexAtoms t

theorem atomsOf_index (subs : List (Nat × List SEnt)) (k : Nat) :
    Xref.indexPairs (atomsOf (indexAtoms subs) k) = some (indexOf subs) ∧ (atomsOf (indexAtoms subs) k).length % 2 = 0 := by
  induction subs generalizing k with
  | nil => exact ⟨rfl, rfl⟩
  | cons p t ih =>
    obtain ⟨h1, h2⟩ := ih (k + 1 + 1)
    constructor
    · simp only [indexAtoms, atomsOf, atomOf, Xref.indexPairs, h1]
      simp [indexOf]
    · simp only [indexAtoms, atomsOf, List.length_cons]
      omega

/-- what the dictionary of a cross-reference stream must say, read through `dictGet` -/
structure XDictOK (kvs : List (Bytes × Obj)) (subs : List (Nat × List SEnt)) (w0 w1 w2 : Nat) : Prop where
  type : dictGet Xref.kType kvs = some (.name Xref.nXRef)
  size : ∃ size : Nat, dictGet Xref.kSize kvs = some (.int size) ∧
    (dictGet Xref.kIndex kvs = some (.arr (indexAtoms subs)) ∨
     (dictGet Xref.kIndex kvs = none ∧ ∃ es, subs = [(0, es)] ∧ size = es.length))
  hw : dictGet Xref.kW kvs = some (.arr [.int w0, .int w1, .int w2])
  hw0 : w0 ≤ 4
  hw1 : w1 ≤ 4
  hw1pos : 0 < w1
  hw2 : w2 ≤ 4

theorem getDictInfo_ok (kvs : List (Bytes × Obj)) (subs : List (Nat × List SEnt)) (w0 w1 w2 : Nat)
    (h : XDictOK kvs subs w0 w1 w2) (fs : List Xref.Filter)
    (hfs : Xref.streamFilters (toXDict kvs) = some fs) :
    ∃ m, Xref.getDictInfo (toXDict kvs) = .ok m ∧ m.w0 = w0 ∧ m.w1 = w1 ∧ m.w2 = w2 ∧ m.filters = fs ∧
      (match m.index with | some l => l | none => [(0, m.size)]) = indexOf subs := by
  obtain ⟨size, hsize, hidx⟩ := h.size
  have hT : Xref.getName (toXDict kvs) Xref.kType = some Xref.nXRef := getName_toXDict kvs _ _ h.type
  have hS : Xref.getUsize (toXDict kvs) Xref.kSize = some size := by
    simp [Xref.getUsize, dget_toXDict, hsize, valOf, atomOf]
  have hW : Xref.getArray (toXDict kvs) Xref.kW = some [.int w0, .int w1, .int w2] := by
    simp [Xref.getArray, dget_toXDict, h.hw, valOf, atomsOf, atomOf]
  have hwl : Xref.widthList [.int (w0 : Int), .int (w1 : Int), .int (w2 : Int)] = some [w0, w1, w2] := by
    have := h.hw0; have := h.hw1; have := h.hw2
    simp only [Xref.widthList, Int.toNat_natCast]
    have e0 : ¬ ((w0 : Int) < 0) := by omega
    have e1 : ¬ ((w1 : Int) < 0) := by omega
    have e2 : ¬ ((w2 : Int) < 0) := by omega
    have f0 : ¬ (w0 > 4) := by omega
    have f1 : ¬ (w1 > 4) := by omega
    have f2 : ¬ (w2 > 4) := by omega
    simp [e0, e1, e2, f0, f1, f2]
  have hw1 : (w1 == 0) = false := by have := h.hw1pos; simp; omega
  rcases hidx with hI | ⟨hI, es, hsub, hsz⟩
  · have hA : Xref.getArray (toXDict kvs) Xref.kIndex = some (atomsOf (indexAtoms subs) 0) := by
      simp [Xref.getArray, dget_toXDict, hI, valOf]
    obtain ⟨hp, hev⟩ := atomsOf_index subs 0
    refine ⟨⟨size, Xref.getUsize (toXDict kvs) Xref.kPrev, some (indexOf subs), w0, w1, w2, fs⟩, ?_, rfl, rfl, rfl, rfl, rfl⟩
    unfold Xref.getDictInfo
    simp [hT, hS, hA, hp, hev, hW, hwl, hw1, hfs]
  · have hA : Xref.getArray (toXDict kvs) Xref.kIndex = none := getArray_toXDict_none kvs _ hI
    refine ⟨⟨size, Xref.getUsize (toXDict kvs) Xref.kPrev, none, w0, w1, w2, fs⟩, ?_, rfl, rfl, rfl, rfl, ?_⟩
    · unfold Xref.getDictInfo
      simp [hT, hS, hA, hW, hwl, hw1, hfs]
    · simp [hsub, hsz, indexOf]

/-- **`XrefStreamP` on a written cross-reference stream**: a well-formed dictionary, a filter chain that yields the
    rows C13's encoder writes (followed by anything): exactly the entries `streamEnts subs` -/
theorem xrefStreamP_decoded (kvs : List (Bytes × Obj)) (subs : List (Nat × List SEnt)) (w0 w1 w2 : Nat)
    (h : XDictOK kvs subs w0 w1 w2) (fs : List Xref.Filter) (data extra : Bytes)
    (hfs : Xref.streamFilters (toXDict kvs) = some fs)
    (hap : Xref.applyFilters (xrefXf kvs) fs data 0 = .ok ((subs.flatMap fun p => encRows w0 w1 w2 p.2) ++ extra, 0))
    (hf : ∀ p ∈ subs, ∀ e ∈ p.2, e.fits w0 w1 w2)
    (hlim : ∀ p ∈ subs, p.1 + p.2.length ≤ Xref.usizeLim) :
    ∃ l c, Xref.xrefStreamP false (toXDict kvs) (xrefXf kvs) data 0 = (.ok l, c) ∧ l.map (·.val) = streamEnts subs := by
  obtain ⟨m, hm, e0, e1, e2, ef, hidx⟩ := getDictInfo_ok kvs subs w0 w1 w2 h fs hfs
  obtain ⟨l, hl, hmap⟩ := index_roundtrip w0 w1 w2 h.hw0 h.hw1 h.hw2 subs
    ((subs.flatMap fun p => encRows w0 w1 w2 p.2) ++ extra) 0 extra (by simp) hf hlim
  refine ⟨l, 0 + totalRows subs * (w0 + w1 + w2), ?_, hmap⟩
  unfold Xref.xrefStreamP
  simp only [hm, Bool.false_eq_true, if_false, ef, hap]
  show Xref.indexLoop m.w0 m.w1 m.w2 (match m.index with | some l => l | none => [(0, m.size)]) _ 0 = _
  rw [hidx, e0, e1, e2]
  exact hl


/-! ## `get_xref_info` on a single cross-reference stream section -/

theorem WStm.bytes_pos (o : WStm) : 0 < o.bytes.length := by
  simp [WStm.bytes, WObj.headBytes, kwObj]; omega

/-- **`parse_xref_section` where a cross-reference stream object is written**: `XrefSectP` fails, the stream parser
    takes over -/
theorem section_stream (s : Bytes) (i : Nat) (o : WStm) (post : Bytes) (hi : i ≤ s.length)
    (hd : s.drop i = o.bytes ++ post) (hok : o.OK)
    (hlen : dictGet keyLength o.kvs = some (.int o.data.length))
    (defs : Defs) (hs : DefsSorted defs) (hn : defsGet (o.num, o.gen) defs = none)
    (l : List (Located Xref.Ent)) (c : Nat)
    (hdec : Xref.xrefStreamP false (toXDict o.kvs) (xrefXf o.kvs) o.data 0 = (.ok l, c)) :
    ∃ j, parseXrefSection ⟨⟨defs, 0, 50, false⟩, false⟩ s i =
      (.ok (some (l.map (·.val), dictGet kRoot o.kvs, ObjStm.getUsize o.kvs kPrev)), j,
        ⟨⟨(defsInsert (o.num, o.gen) (o.val i) defs).2, 0, 50, false⟩, false⟩) := by
  have hd0 : s.drop i = o.pad ++ (o.nds ++ (o.w1 ++ (o.gds ++ (o.w2 ++ (kwObj ++ (o.w3 ++ (o.dtok ++ (o.w5 ++ o.tailBytes)))))) ++ post)) := by
    rw [hd]; simp [WStm.bytes, WObj.headBytes, WStm.head]
  obtain ⟨k, c0, hx⟩ := xrefSectP_at_digit s i o.pad _ hi hd0 hok.head.pad (by
    have hne : o.nds ≠ [] := hok.head.nne
    cases hnds : o.nds with
    | nil => exact absurd hnds hne
    | cons b t =>
      refine ⟨b, _, rfl, ?_⟩
      exact hok.head.ndig b (by show b ∈ o.nds; rw [hnds]; exact List.mem_cons_self))
  obtain ⟨j, hp⟩ := parseXrefStream_written s i o post hi hd hok hlen defs hs hn l c hdec
  refine ⟨j, ?_⟩
  unfold parseXrefSection
  rw [hx]
  exact hp

/-- **`get_xref_info` on a single cross-reference stream** (no /Prev, distinct object numbers): its entries and
    /Root; the stream object itself is registered in the context. -/
theorem xrefinfo_stream (s : Bytes) (i : Nat) (o : WStm) (post : Bytes) (hi : i ≤ s.length)
    (hd : s.drop i = o.bytes ++ post) (hok : o.OK)
    (hlen : dictGet keyLength o.kvs = some (.int o.data.length))
    (l : List (Located Xref.Ent)) (c : Nat)
    (hdec : Xref.xrefStreamP false (toXDict o.kvs) (xrefXf o.kvs) o.data 0 = (.ok l, c))
    (r : Obj) (hroot : dictGet kRoot o.kvs = some r) (hprev : ObjStm.getUsize o.kvs kPrev = none)
    (hnd : ((l.map (·.val)).map (·.obj)).Nodup) :
    getXrefInfo ⟨Ctx.new 50, false⟩ s i =
      (.ok (l.map (·.val), r), ⟨⟨[((o.num, o.gen), o.val i)], 0, 50, false⟩, false⟩) := by
  obtain ⟨j, hsec⟩ := section_stream s i o post hi hd hok hlen [] List.Pairwise.nil rfl l c hdec
  have hc : i < s.length := by
    have := drop_le hd hi
    have := WStm.bytes_pos o
    omega
  have hadd : addEnts (l.map (·.val)) [] [] = ((addEnts (l.map (·.val)) [] []).1, l.map (·.val)) := by
    have h2 := addEnts_snd (l.map (·.val)) [] []
    rw [dedupKey_nodup _ [] (keys_nodup_of_obj _ hnd) (by simp)] at h2
    simp only [List.nil_append] at h2
    exact Prod.ext rfl h2
  unfold getXrefInfo xrefLoop
  have hsec' : parseXrefSection ⟨Ctx.new 50, false⟩ s i = _ := hsec
  simp only [List.contains_nil, Bool.false_eq_true, if_false, hc, decide_true, Bool.not_true, hsec', hprev, hroot]
  rw [hadd]
  simp [defsInsert]

end Parsley.LoaderE2E
