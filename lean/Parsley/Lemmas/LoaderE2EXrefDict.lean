/-
  C03 end-to-end, cross-reference streams: the stream dictionary as the C13 model reads it
  (`toXDict`), looked up through the object model's `dictGet`.
-/
import Parsley.Model.Loader
namespace Parsley.LoaderE2E
open Parsley Parsley.Obj Parsley.Loader

/-- looking a key up in the translated dictionary = translating what `dictGet` finds -/
theorem dget_toXDict (k : Bytes) : ∀ kvs : List (Bytes × Obj),
    Xref.dget (toXDict kvs) k = (dictGet k kvs).map valOf
  | [] => rfl
  | (k', v) :: t => by
    simp only [toXDict, Xref.dget, dictGet]
    by_cases h : k = k'
    · subst h; simp
    · have h1 : (k' == k) = false := by simpa using fun hh => h hh.symm
      have h2 : (k == k') = false := by simpa using h
      simp only [h1, h2, Bool.false_eq_true, if_false]
      exact dget_toXDict k t

theorem getName_toXDict (kvs : List (Bytes × Obj)) (k n : Bytes) (h : dictGet k kvs = some (.name n)) :
    Xref.getName (toXDict kvs) k = some n := by
  simp [Xref.getName, dget_toXDict, h, valOf, atomOf]

theorem getName_toXDict_none (kvs : List (Bytes × Obj)) (k : Bytes) (h : dictGet k kvs = none) :
    Xref.getName (toXDict kvs) k = none := by
  simp [Xref.getName, dget_toXDict, h]

theorem getArray_toXDict_none (kvs : List (Bytes × Obj)) (k : Bytes) (h : dictGet k kvs = none) :
    Xref.getArray (toXDict kvs) k = none := by
  simp [Xref.getArray, dget_toXDict, h]

theorem getDictTag_toXDict_none (kvs : List (Bytes × Obj)) (k : Bytes) (h : dictGet k kvs = none) :
    Xref.getDictTag (toXDict kvs) k = none := by
  simp [Xref.getDictTag, dget_toXDict, h]

theorem getDictTag_toXDict (kvs : List (Bytes × Obj)) (k : Bytes) (d : List (Bytes × Obj))
    (h : dictGet k kvs = some (.dict d)) : Xref.getDictTag (toXDict kvs) k = some 0 := by
  simp [Xref.getDictTag, dget_toXDict, h, valOf, atomOf]

end Parsley.LoaderE2E
