/-
  C03 end-to-end: `parseData` on a whole single-revision file whose cross-reference data is a cross-reference
  STREAM (follow-up C03c).

  `XrefStreamFile` is the declarative layout: leading garbage, header, a body of written objects ONE of which is the
  cross-reference stream object (objects may follow it), anything up to `startxref`, white space / comments, the
  offset of the cross-reference stream object in any digit string, `%%EOF`, a tail.
  `load_xrefstream_core`: whatever the loading stage establishes (started in the context that binds the
  cross-reference stream object, on the entries `streamEnts subs`) holds of the loaded file.
  `load_xrefstream`: for direct objects - the file defines EXACTLY the objects of the body (the cross-reference
  stream object included), each bound to the value written, and reports the stream dictionary's /Root.
-/
import Parsley.Lemmas.LoaderE2EXref
namespace Parsley.LoaderE2E
open Parsley Parsley.Prim Parsley.Obj Parsley.Indirect Parsley.Loader Parsley.C02 Parsley.Spelling
open Parsley.XrefSpec Parsley.C13 Parsley.LoaderChain

theorem bodyBytes_append : ∀ (a b : List Placed), bodyBytes (a ++ b) = bodyBytes a ++ bodyBytes b
  | [], _ => rfl
  | q :: t, b => by simp [bodyBytes, bodyBytes_append t b]

theorem bodyBytes_length_place : ∀ (a : List Placed) (pos : Nat) (b : List Placed),
    place (a ++ b) pos = place a pos ++ place b (pos + (bodyBytes a).length)
  | [], _, _ => by simp [place, bodyBytes]
  | q :: t, pos, b => by
    simp only [List.cons_append, place, bodyBytes, List.length_append]
    rw [bodyBytes_length_place t _ b]
    simp only [List.cons.injEq, true_and]
    congr 2
    omega

/-- a single-revision file with a cross-reference stream, as written -/
structure XrefStreamFile where
  garbage : Bytes            -- anything before the header
  hdrRest : Bytes            -- the header after `%PDF-`
  body1 : List Placed        -- the objects written before the cross-reference stream object
  xs : WStm                  -- the cross-reference stream object
  xpost : Bytes              -- arbitrary bytes after it
  body2 : List Placed        -- objects written after it (usually none)
  gap : Bytes                -- anything before `startxref`
  wsx : Bytes                -- after `startxref`
  ds : Bytes                 -- the digits of the offset
  e : Bytes                  -- white space before `%%EOF`
  trail : Bytes              -- after `%%EOF`

namespace XrefStreamFile

def hdr (f : XrefStreamFile) : Bytes := kwPdf ++ f.hdrRest

/-- all objects in file order -/
def body (f : XrefStreamFile) : List Placed := f.body1 ++ ⟨f.xs.piece, f.xpost⟩ :: f.body2

def mid (f : XrefStreamFile) : Bytes := bodyBytes f.body ++ f.gap

def view (f : XrefStreamFile) : Bytes :=
  f.hdr ++ (f.mid ++ (kwStartxref ++ (f.wsx ++ (f.ds ++ (f.e ++ (kwEOF ++ f.trail))))))

def bytes (f : XrefStreamFile) : Bytes := f.garbage ++ f.view

/-- offset of the cross-reference stream object (relative to the header) -/
def xofs (f : XrefStreamFile) : Nat := f.hdr.length + (bodyBytes f.body1).length

/-- the objects with their offsets -/
def objs (f : XrefStreamFile) : List (Piece × Nat) := place f.body f.hdr.length

/-- the context `get_xref_info` leaves behind: the cross-reference stream object is registered -/
def defs0 (f : XrefStreamFile) : Defs := [((f.xs.num, f.xs.gen), f.xs.val f.xofs)]

/-- well-formedness apart from the objects: garbage, the cross-reference stream object and its dictionary, the
    rows, the tail.  `subs` are the /Index subsections with their rows, `w0 w1 w2` the /W widths. -/
structure WF0 (f : XrefStreamFile) (subs : List (Nat × List SEnt)) (w0 w1 w2 : Nat) (root : ObjId) : Prop where
  noMagic : ∀ k, k < f.garbage.length → kwPdf.isPrefixOf (f.bytes.drop k) = false
  /-- the cross-reference stream object is legally written, with a direct /Length -/
  xsOK : f.xs.OK
  xsLen : dictGet keyLength f.xs.kvs = some (.int f.xs.data.length)
  /-- /Type /XRef, /Size, /W, /Index -/
  dict : XDictOK f.xs.kvs subs w0 w1 w2
  root : dictGet kRoot f.xs.kvs = some (.ref root.1 root.2)
  noPrev : ObjStm.getUsize f.xs.kvs kPrev = none
  /-- every row fits the widths; object numbers stay in range and are mentioned at most once -/
  fits : ∀ p ∈ subs, ∀ e ∈ p.2, e.fits w0 w1 w2
  lim : ∀ p ∈ subs, p.1 + p.2.length ≤ Xref.usizeLim
  numsNodup : ((streamEnts subs).map (·.obj)).Nodup
  wsx : WsRun f.wsx
  wsxNe : f.wsx ≠ []
  wsxNoS : (115 : UInt8) ∉ f.wsx
  dsNe : f.ds ≠ []
  dsDig : ∀ y ∈ f.ds, isDigit y = true
  /-- `startxref` gives the offset of the cross-reference stream object -/
  startxref : digitsVal f.ds 0 = f.xofs
  ofsFits : digitsVal f.ds 0 ≤ i64Max
  e : ∀ y ∈ f.e, isWsEol y = true
  trail : ∀ k, 0 < k → kwEOF.isPrefixOf ((kwEOF ++ f.trail).drop k) = false

/-- the stream data decodes (through the filters its dictionary names) to the rows of `subs`, followed by anything -/
def Decodes (f : XrefStreamFile) (subs : List (Nat × List SEnt)) (w0 w1 w2 : Nat) : Prop :=
  ∃ fs extra, Xref.streamFilters (toXDict f.xs.kvs) = some fs ∧
    Xref.applyFilters (xrefXf f.xs.kvs) fs f.xs.data 0 = .ok ((subs.flatMap fun p => encRows w0 w1 w2 p.2) ++ extra, 0)

end XrefStreamFile

theorem XrefStreamFile.view_xs (f : XrefStreamFile) : f.xofs ≤ f.view.length ∧
    ∃ post, f.view.drop f.xofs = f.xs.bytes ++ post := by
  have hview : f.view = f.hdr ++ (bodyBytes f.body1 ++ (f.xs.bytes ++ (f.xpost ++ (bodyBytes f.body2 ++ (f.gap ++
      (kwStartxref ++ (f.wsx ++ (f.ds ++ (f.e ++ (kwEOF ++ f.trail)))))))))) := by
    simp [XrefStreamFile.view, XrefStreamFile.mid, XrefStreamFile.body, bodyBytes_append, bodyBytes, WStm.piece]
  refine ⟨by rw [hview]; simp [XrefStreamFile.xofs], ?_⟩
  rw [hview]
  exact ⟨_, drop_two _ _ _⟩

theorem XrefStreamFile.view_body (f : XrefStreamFile) : f.hdr.length ≤ f.view.length ∧
    ∃ rest, f.view.drop f.hdr.length = bodyBytes f.body ++ rest := by
  have hview : f.view = f.hdr ++ (bodyBytes f.body ++ (f.gap ++
      (kwStartxref ++ (f.wsx ++ (f.ds ++ (f.e ++ (kwEOF ++ f.trail))))))) := by
    simp [XrefStreamFile.view, XrefStreamFile.mid]
  refine ⟨by rw [hview]; simp, ?_⟩
  rw [hview]
  exact ⟨_, List.drop_left' rfl⟩

/-- the composition up to the loading stage -/
theorem load_xrefstream_core (f : XrefStreamFile) (subs : List (Nat × List SEnt)) (w0 w1 w2 : Nat) (root : ObjId)
    (h : f.WF0 subs w0 w1 w2 root) (hdec : f.Decodes subs w0 w1 w2)
    (P : ObjStm.Defs → Prop)
    (hstage : ∃ defs, parseObjects f.garbage.length ⟨⟨f.defs0, 0, 50, false⟩, false⟩ (infoOf (streamEnts subs)) f.view
      = .ok defs ∧ P defs) :
    ∃ L : Loaded, parseData f.bytes = .ok L ∧ L.root = root ∧ P L.defs := by
  have hpdf : kwPdf.isPrefixOf f.hdr = true := by
    rw [List.isPrefixOf_iff_prefix]; exact List.prefix_append _ _
  have hscan := parseData_scan f.garbage f.hdr f.mid f.wsx f.ds f.e f.trail h.noMagic hpdf h.wsx h.wsxNe h.wsxNoS
    h.dsNe h.dsDig h.ofsFits h.e h.trail
  obtain ⟨hxl, post, hdropX⟩ := f.view_xs
  obtain ⟨fs, extra, hfs, hap⟩ := hdec
  obtain ⟨l, c, hl, hmap⟩ := xrefStreamP_decoded f.xs.kvs subs w0 w1 w2 h.dict fs f.xs.data extra hfs hap h.fits h.lim
  have hx := xrefinfo_stream f.view f.xofs f.xs post hxl hdropX h.xsOK h.xsLen l c hl (.ref root.1 root.2) h.root h.noPrev
    (by rw [hmap]; exact h.numsNodup)
  rw [hmap] at hx
  have hlt : f.xofs < f.view.length := by
    have := drop_le hdropX hxl
    have := WStm.bytes_pos f.xs
    omega
  obtain ⟨defs, hpo, hP⟩ := hstage
  refine ⟨⟨defs, root⟩, ?_, rfl, hP⟩
  show parseData (f.garbage ++ f.view) = _
  unfold XrefStreamFile.view
  rw [hscan]
  unfold loadRest
  rw [h.startxref]
  have hlt' : f.xofs < (f.hdr ++ (f.mid ++ (kwStartxref ++ (f.wsx ++ (f.ds ++ (f.e ++ (kwEOF ++ f.trail))))))).length := hlt
  have hx' : getXrefInfo ⟨Ctx.new 50, false⟩ (f.hdr ++ (f.mid ++ (kwStartxref ++ (f.wsx ++ (f.ds ++ (f.e ++ (kwEOF ++ f.trail))))))) f.xofs = _ := hx
  have hpo' : parseObjects f.garbage.length ⟨⟨f.defs0, 0, 50, false⟩, false⟩ (infoOf (streamEnts subs))
    (f.hdr ++ (f.mid ++ (kwStartxref ++ (f.wsx ++ (f.ds ++ (f.e ++ (kwEOF ++ f.trail))))))) = _ := hpo
  simp only [hlt', decide_true, Bool.not_true, Bool.false_eq_true, if_false, hx']
  have hd0 : ([((f.xs.num, f.xs.gen), f.xs.val f.xofs)] : Defs) = f.defs0 := rfl
  simp only [hd0, hpo']

end Parsley.LoaderE2E
