/-
  C03 end-to-end, cross-reference stream layouts: the declarative description of HOW the rows are stored in the
  stream data (unfiltered / FlateDecode with stored blocks / FlateDecode + predictor), and the end-to-end theorem
  `load_xrefstream` for files whose objects are all file-level objects (type-1 rows; type-0 rows allowed).
-/
import Parsley.Lemmas.LoaderE2EXrefFile
import Parsley.Lemmas.LoaderE2EFilter
import Parsley.Lemmas.LoaderE2EFilterAny
namespace Parsley.LoaderE2E
open Parsley Parsley.Prim Parsley.Obj Parsley.Indirect Parsley.Loader Parsley.C02 Parsley.Spelling
open Parsley.XrefSpec Parsley.C13 Parsley.LoaderChain

/-- `Stored kvs rows data`: the stream data `data` holds the row bytes `rows` in the way the dictionary `kvs` announces:
    as they are; as a zlib stream of stored blocks (any partition into blocks, anything after the stream); or as a
    zlib stream of stored blocks holding the PNG / TIFF predicted image of the rows (C07's forward filter), with the
    predictor parameters in /DecodeParms.  In the first two cases arbitrary further bytes may follow the rows. -/
inductive Stored (kvs : List (Bytes × Obj)) (rows : Bytes) : Bytes → Prop
  | plain (extra : Bytes) : dictGet Xref.kFilter kvs = none → Stored kvs rows (rows ++ extra)
  | flate (parts : List Bytes) (trailing extra : Bytes) :
      dictGet Xref.kFilter kvs = some (.name Filters.nFlate) → dictGet Xref.kDecodeParms kvs = none →
      (∀ p ∈ parts, p.length ≤ 65535) → parts.flatten = rows ++ extra →
      Stored kvs rows (FiltersSpec.zlibStored parts ++ trailing)
  | flatePred (P : List (Bytes × Obj)) (p : PredSpec.Params) (img parts : List Bytes) (trailing : Bytes) :
      dictGet Xref.kFilter kvs = some (.name Filters.nFlate) → dictGet Xref.kDecodeParms kvs = some (.dict P) →
      dictGet kPredictor P = some (.int (p.predictor : Int)) → dictGet kColumns P = some (.int (p.columns : Int)) →
      (dictGet kColors P = some (.int (p.colors : Int)) ∨ (dictGet kColors P = none ∧ p.colors = 1)) →
      (dictGet kBpc P = some (.int (p.bpc : Int)) ∨ (dictGet kBpc P = none ∧ p.bpc = 8)) →
      p.accepted → p.columns < 18446744073709551616 → p.colors * p.bpc < 18446744073709551616 →
      p.columns * p.colors * p.bpc < 18446744073709551616 →
      (∀ r ∈ img, r.length = PredSpec.rowBytes p.columns p.colors p.bpc) → (p.predictor = 2 ∨ img ≠ []) →
      img.flatten = rows → parts.flatten = PredSpec.predict p img → (∀ q ∈ parts, q.length ≤ 65535) →
      Stored kvs rows (FiltersSpec.zlibStored parts ++ trailing)
  /-- /Filter /FlateDecode, no /DecodeParms, the stream content `z` being ANY zlib stream the modelled inflate decodes to
      the rows (followed by anything): in particular every stream of the specification's encoders - stored,
      fixed-Huffman and dynamic-Huffman blocks in any mixture (`stored_of_layerEnc`, C06's round-trip theorems) -/
  | flateAny (z extra : Bytes) :
      dictGet Xref.kFilter kvs = some (.name Filters.nFlate) → dictGet Xref.kDecodeParms kvs = none →
      Inflate.inflate z = .ok (rows ++ extra) → Stored kvs rows z
  /-- the same with a PNG / TIFF predictor: `z` inflates to the forward-filtered image of the rows -/
  | flatePredAny (P : List (Bytes × Obj)) (p : PredSpec.Params) (img : List Bytes) (z : Bytes) :
      dictGet Xref.kFilter kvs = some (.name Filters.nFlate) → dictGet Xref.kDecodeParms kvs = some (.dict P) →
      dictGet kPredictor P = some (.int (p.predictor : Int)) → dictGet kColumns P = some (.int (p.columns : Int)) →
      (dictGet kColors P = some (.int (p.colors : Int)) ∨ (dictGet kColors P = none ∧ p.colors = 1)) →
      (dictGet kBpc P = some (.int (p.bpc : Int)) ∨ (dictGet kBpc P = none ∧ p.bpc = 8)) →
      p.accepted → p.columns < 18446744073709551616 → p.colors * p.bpc < 18446744073709551616 →
      p.columns * p.colors * p.bpc < 18446744073709551616 →
      (∀ r ∈ img, r.length = PredSpec.rowBytes p.columns p.colors p.bpc) → (p.predictor = 2 ∨ img ≠ []) →
      img.flatten = rows → Inflate.inflate z = .ok (PredSpec.predict p img) → Stored kvs rows z

/-- the declarative storage implies that the model's filter chain yields the rows -/
theorem stored_decodes (kvs : List (Bytes × Obj)) (rows data : Bytes) (h : Stored kvs rows data) :
    ∃ fs extra, Xref.streamFilters (toXDict kvs) = some fs ∧
      Xref.applyFilters (xrefXf kvs) fs data 0 = .ok (rows ++ extra, 0) := by
  cases h with
  | plain extra hf => exact ⟨[], extra, streamFilters_unfiltered kvs hf, rfl⟩
  | flate parts trailing extra hf hp hparts hflat =>
    refine ⟨[⟨Filters.nFlate, none⟩], extra, streamFilters_flate kvs _ hf hp, ?_⟩
    rw [applyFilters_flate_stored kvs parts trailing hparts, hflat]
  | flatePred P p img parts trailing hf hd hpred hcols hcolors hbpc hacc h1 h2 h3 hrows hne himg hflat hparts =>
    refine ⟨[⟨Filters.nFlate, some 0⟩], [], streamFilters_flate_parms kvs P _ hf hd, ?_⟩
    rw [applyFilters_flate_pred kvs P p img parts trailing hd hpred hcols hcolors hbpc hacc h1 h2 h3 hrows hne hflat hparts,
      himg]
    simp
  | flateAny z extra hf hp hz =>
    exact ⟨[⟨Filters.nFlate, none⟩], extra, streamFilters_flate kvs _ hf hp, applyFilters_flate_any kvs data _ hz⟩
  | flatePredAny P p img z hf hd hpred hcols hcolors hbpc hacc h1 h2 h3 hrows hne himg hz =>
    refine ⟨[⟨Filters.nFlate, some 0⟩], [], streamFilters_flate_parms kvs P _ hf hd, ?_⟩
    rw [applyFilters_flate_pred_any kvs P p img data hd hpred hcols hcolors hbpc hacc h1 h2 h3 hrows hne hz, himg]
    simp

/-- every conformant Flate encoding in the sense of C06 (`LayerEnc`: stored blocks, the specification's fixed-Huffman
    encoder, its dynamic-Huffman / mixed-block encoder, or any stream the modelled inflate accepts) stores the rows -/
theorem stored_of_layerEnc (kvs : List (Bytes × Obj)) (rows extra z : Bytes)
    (hf : dictGet Xref.kFilter kvs = some (.name Filters.nFlate)) (hp : dictGet Xref.kDecodeParms kvs = none)
    (h : C06.LayerEnc Filters.nFlate (rows ++ extra) z) : Stored kvs rows z :=
  Stored.flateAny z extra hf hp (inflate_of_layerEnc h rfl)

namespace XrefStreamFile

/-- the row bytes of the subsections -/
def rowBytes (subs : List (Nat × List SEnt)) (w0 w1 w2 : Nat) : Bytes := subs.flatMap fun p => encRows w0 w1 w2 p.2

theorem decodes_of_stored (f : XrefStreamFile) (subs : List (Nat × List SEnt)) (w0 w1 w2 : Nat)
    (h : Stored f.xs.kvs (rowBytes subs w0 w1 w2) f.xs.data) : f.Decodes subs w0 w1 w2 :=
  stored_decodes _ _ _ h

/-- well-formedness of a file whose objects are all file-level objects readable in every context (plain objects,
    streams with a direct /Length): the rows are stored as the dictionary says, and the in-use rows are exactly the
    objects of the body - the cross-reference stream object included - at their offsets -/
structure WF (f : XrefStreamFile) (subs : List (Nat × List SEnt)) (w0 w1 w2 : Nat) (root : ObjId) : Prop
    extends WF0 f subs w0 w1 w2 root where
  stored : Stored f.xs.kvs (rowBytes subs w0 w1 w2) f.xs.data
  reads1 : ∀ q ∈ f.body1, q.p.Reads
  reads2 : ∀ q ∈ f.body2, q.p.Reads
  idsNodup : (f.objs.map fun q => (q.1.num, q.1.gen)).Nodup
  tableObjs : ∃ perm : List (Piece × Nat), perm.Perm f.objs ∧
    infoOf (streamEnts subs) = perm.map fun q => ObjInfo.inFile q.1.num q.1.gen q.2

end XrefStreamFile

theorem XrefStreamFile.xs_mem (f : XrefStreamFile) : (f.xs.piece, f.xofs) ∈ f.objs := by
  simp [XrefStreamFile.objs, XrefStreamFile.body, bodyBytes_length_place, place, XrefStreamFile.xofs]

/-- what holds at every offset of the body: the object there is the cross-reference stream object, or it reads -/
theorem XrefStreamFile.reads_objs (f : XrefStreamFile)
    (h1 : ∀ q ∈ f.body1, q.p.Reads) (h2 : ∀ q ∈ f.body2, q.p.Reads) :
    ∀ q ∈ f.objs, q.2 < f.view.length ∧
      ((q.1.num, q.1.gen) = (f.xs.num, f.xs.gen) ∨ C03.ReadsAt 0 50 false f.view (itemOf q)) := by
  obtain ⟨hhl, rest, hdropB⟩ := f.view_body
  apply body_all (fun p s i => (p.num, p.gen) = (f.xs.num, f.xs.gen) ∨ C03.ReadsAt 0 50 false s (p.item i))
    f.body f.view f.hdr.length rest hhl hdropB
  intro q hq
  simp only [XrefStreamFile.body, List.mem_append, List.mem_cons] at hq
  rcases hq with hq | rfl | hq
  · exact ⟨(h1 q hq).1, fun s i post hi hd => Or.inr ((h1 q hq).2 s i post hi hd)⟩
  · exact ⟨WStm.bytes_pos f.xs, fun s i post hi hd => Or.inl rfl⟩
  · exact ⟨(h2 q hq).1, fun s i post hi hd => Or.inr ((h2 q hq).2 s i post hi hd)⟩

/-- the loading stage for a body of file-level objects one of which (`x`, the cross-reference stream object) is
    already registered: every object is bound to the value written, nothing else is defined -/
theorem stage_with_xs (hofs : Nat) (view : Bytes) (objs : List (Piece × Nat)) (x : Piece × Nat) (hx : x ∈ objs)
    (X : List Xref.Ent)
    (hrb : ∀ q ∈ objs, q.2 < view.length ∧
      ((q.1.num, q.1.gen) = (x.1.num, x.1.gen) ∨ C03.ReadsAt 0 50 false view (itemOf q)))
    (idsNodup : (objs.map fun q => (q.1.num, q.1.gen)).Nodup)
    (tableObjs : ∃ perm : List (Piece × Nat), perm.Perm objs ∧
      infoOf X = perm.map fun q => ObjInfo.inFile q.1.num q.1.gen q.2) :
    ∃ defs, parseObjects hofs ⟨⟨[((x.1.num, x.1.gen), x.1.val x.2)], 0, 50, false⟩, false⟩ (infoOf X) view = .ok defs ∧
      (∀ q ∈ objs, ObjStm.defsGet (q.1.num, q.1.gen) defs = some (q.1.val q.2).val) ∧
      (∀ k, (∀ q ∈ objs, (q.1.num, q.1.gen) ≠ k) → ObjStm.defsGet k defs = none) := by
  obtain ⟨perm, hperm, htab⟩ := tableObjs
  have hmem : ∀ q, q ∈ perm ↔ q ∈ objs := fun q => hperm.mem_iff
  have hinfo : infoOf X = (perm.map itemOf).map C03.Item.info := by
    rw [htab, List.map_map]; rfl
  have hnd : ((perm.map itemOf).map C03.Item.key).Nodup := by
    have : (perm.map itemOf).map C03.Item.key = perm.map fun q => (q.1.num, q.1.gen) := by
      rw [List.map_map]; rfl
    rw [this]
    exact (hperm.map _).nodup_iff.mpr idsNodup
  -- the context left by the walk binds exactly the cross-reference stream object
  have hget0 : ∀ k, defsGet k [((x.1.num, x.1.gen), x.1.val x.2)] =
      if k = (x.1.num, x.1.gen) then some (x.1.val x.2) else none := by
    intro k
    simp only [defsGet]
    by_cases hk : k = (x.1.num, x.1.gen)
    · simp [hk]
    · simp [hk]
  have hs0 : DefsSorted [((x.1.num, x.1.gen), x.1.val x.2)] := by simp [DefsSorted]
  obtain ⟨defs, hpo, hA, hB, hC⟩ := LoaderStage.stage_from hofs false view _ hs0 (perm.map itemOf) hnd (by
    intro it hit hn
    obtain ⟨q, hq, rfl⟩ := List.mem_map.mp hit
    obtain ⟨hlt, hor⟩ := hrb q ((hmem q).mp hq)
    refine ⟨hlt, ?_⟩
    rcases hor with hx | hr
    · rw [hget0] at hn
      have : (itemOf q).key = (x.1.num, x.1.gen) := hx
      simp [this] at hn
    · exact hr)
  rw [← hinfo] at hpo
  -- the cross-reference stream object is the only object with its identifier
  have hxs_unique : ∀ q ∈ objs, (q.1.num, q.1.gen) = (x.1.num, x.1.gen) → q = x := by
    intro q hq hk
    exact LoaderTwoPass.key_inj (fun q : Piece × Nat => (q.1.num, q.1.gen)) objs idsNodup q hq _ hx hk
  refine ⟨defs, hpo, ?_, ?_⟩
  · intro q hq
    by_cases hk : (q.1.num, q.1.gen) = (x.1.num, x.1.gen)
    · have hq' := hxs_unique q hq hk
      have := hC (x.1.num, x.1.gen) (x.1.val x.2) (by rw [hget0]; simp)
      rw [hk, this, hq']
    · have := hA (itemOf q) (List.mem_map_of_mem ((hmem q).mpr hq)) (by
        rw [hget0]
        have : (itemOf q).key = (q.1.num, q.1.gen) := rfl
        simp [this, hk])
      exact this
  · intro k hk
    rw [hB k (by
      intro it hit
      obtain ⟨q, hq, rfl⟩ := List.mem_map.mp hit
      exact hk q ((hmem q).mp hq))]
    rw [hget0]
    have : k ≠ (x.1.num, x.1.gen) := fun hh => hk _ hx hh.symm
    simp [this]

/-- **`load_xrefstream` (C03, end to end, cross-reference stream + file-level objects)**: for every well-formed
    `XrefStreamFile`, `parse_data` accepts, reports the stream dictionary's /Root, binds every object of the body
    (the cross-reference stream object included) to the value that was written, and defines nothing else. -/
theorem load_xrefstream (f : XrefStreamFile) (subs : List (Nat × List SEnt)) (w0 w1 w2 : Nat) (root : ObjId)
    (h : f.WF subs w0 w1 w2 root) :
    ∃ L : Loaded, parseData f.bytes = .ok L ∧ L.root = root ∧
      (∀ q ∈ f.objs, ObjStm.defsGet (q.1.num, q.1.gen) L.defs = some (q.1.val q.2).val) ∧
      (∀ k, (∀ q ∈ f.objs, (q.1.num, q.1.gen) ≠ k) → ObjStm.defsGet k L.defs = none) :=
  load_xrefstream_core f subs w0 w1 w2 root h.toWF0 (f.decodes_of_stored subs w0 w1 w2 h.stored) (fun defs =>
    (∀ q ∈ f.objs, ObjStm.defsGet (q.1.num, q.1.gen) defs = some (q.1.val q.2).val) ∧
    (∀ k, (∀ q ∈ f.objs, (q.1.num, q.1.gen) ≠ k) → ObjStm.defsGet k defs = none))
    (stage_with_xs f.garbage.length f.view f.objs (f.xs.piece, f.xofs) f.xs_mem (streamEnts subs)
      (f.reads_objs h.reads1 h.reads2) h.idsNodup h.tableObjs)

end Parsley.LoaderE2E
