/-
  C03/C04 robustness of the document loader (Model/Loader.lean): no panic outcome is reachable
  from `parseData`, given that the stream-filter decoders are total (C06/C07) and that the
  `/Prev` loop's fuel suffices (Lemmas/LoaderChain.lean).

  Part 0  two facts about the object parser that the C16 lemmas do not state: the cursor stays
          inside the buffer on EVERY outcome, and every accepted Integer fits an i64
  Part 1  the same for the indirect-object parser, plus: the definitions stay sorted
  Part 2  the loader's own parsers (startxref, trailer) and the stream parsers it calls
  Part 3  the /Prev loop, the three passes of parse_objects, parse_data
-/
import Parsley.Model.Loader
import Parsley.Props.C05
import Parsley.Props.C13
import Parsley.Props.C14
import Parsley.Props.C16
namespace Parsley.LoaderNoPanic
open Parsley Parsley.Prim Parsley.Obj Parsley.Indirect Parsley.Loader Parsley.C15

/-! ## Part 0: the object parser - cursor inside the buffer on every outcome, integers fit i64 -/

mutual
/-- every Integer inside the value is at most `i64::MAX` -/
def intsOK : Obj → Bool
  | .int n => decide (n ≤ 2 ^ 63 - 1)
  | .arr xs => intsOKList xs
  | .dict kvs => intsOKKvs kvs
  | .stream kvs _ => intsOKKvs kvs
  | _ => true
def intsOKList : List Obj → Bool
  | [] => true
  | x :: t => intsOK x && intsOKList t
def intsOKKvs : List (Bytes × Obj) → Bool
  | [] => true
  | (_, v) :: t => intsOK v && intsOKKvs t
end

theorem intsOKList_iff (xs : List Obj) : intsOKList xs = true ↔ ∀ x ∈ xs, intsOK x = true := by
  induction xs with
  | nil => simp [intsOKList]
  | cons x t ih => simp [intsOKList, ih]

theorem intsOKKvs_iff (kvs : List (Bytes × Obj)) : intsOKKvs kvs = true ↔ ∀ kv ∈ kvs, intsOK kv.2 = true := by
  induction kvs with
  | nil => simp [intsOKKvs]
  | cons x t ih => obtain ⟨k, v⟩ := x; simp [intsOKKvs, ih]

theorem intsOKKvs_insert (k : Bytes) (v : Obj) (m : List (Bytes × Obj)) (hv : intsOK v = true)
    (hm : intsOKKvs m = true) : intsOKKvs (dictInsert k v m) = true := by
  induction m with
  | nil => simp [dictInsert, intsOKKvs, hv]
  | cons x t ih =>
    obtain ⟨k', v'⟩ := x
    simp only [intsOKKvs, Bool.and_eq_true] at hm
    unfold dictInsert
    split
    · simp [intsOKKvs, hv, hm.1, hm.2]
    · split
      · simp [intsOKKvs, hm.1, ih hm.2]
      · simp [intsOKKvs, hv, hm.2]

theorem intsOK_dictGet (k : Bytes) (kvs : List (Bytes × Obj)) (v : Obj) (h : intsOKKvs kvs = true)
    (hg : dictGet k kvs = some v) : intsOK v = true := by
  induction kvs with
  | nil => simp [dictGet] at hg
  | cons x t ih =>
    obtain ⟨k', v'⟩ := x
    simp only [intsOKKvs, Bool.and_eq_true] at h
    unfold dictGet at hg
    split at hg
    · cases hg; exact h.1
    · exact ih h.2 hg

/-- element parser: cursor inside the buffer, accepted integers fit -/
def good2 (n : Nat) : (Res (Located Obj) × Nat) × Nat → Prop
  | ((.ok v, c), _) => c ≤ n ∧ intsOK v.val = true
  | ((.err _, c), _) => c ≤ n
  | ((.panic _, _), _) => True

def Elem2 (el : Elem) : Prop := ∀ (cur : Nat) (s : Bytes) (i : Nat), i ≤ s.length → good2 s.length (el cur s i)

def goodI2 (n : Nat) : (Res Obj × Nat) × Nat → Prop
  | ((.ok v, c), _) => c ≤ n ∧ intsOK v = true
  | ((.err _, c), _) => c ≤ n
  | ((.panic _, _), _) => True

def refB (n : Nat) : Res (Nat × Nat) × Nat → Prop
  | (.panic _, _) => True
  | (_, c) => c ≤ n

theorem loc_le {α : Type} {i n : Nat} {r : Res (Located α) × Nat} (h : locOK i n r) (hi : i ≤ n) : r.2 ≤ n := by
  obtain ⟨r, c⟩ := r
  cases r with
  | ok v => obtain ⟨-, h2, -, h4⟩ := h; show c ≤ n; omega
  | err k => have : c = i := h; show c ≤ n; omega
  | panic p => exact h.elim

theorem liftTok_good2 {α : Type} (f : α → Obj) (cur i n : Nat) (r : Res (Located α) × Nat) (h : locOK i n r)
    (hi : i ≤ n) (hf : ∀ a, intsOK (f a) = true) : goodI2 n (liftTok f cur r) := by
  have hle := loc_le h hi
  obtain ⟨r, c⟩ := r
  cases r with
  | ok v => exact ⟨hle, hf _⟩
  | err k => exact hle
  | panic p => trivial

theorem referenceP_cur (s : Bytes) (i : Nat) (hi : i ≤ s.length) : refB s.length (referenceP s i) := by
  unfold referenceP
  have h1 := integerP_progress s i hi
  split
  · rename_i heq; rw [heq] at h1; have : _ = i := h1; show _ ≤ _; omega
  · trivial
  · rename_i num j heq
    rw [heq] at h1; obtain ⟨-, -, hj1, hj2⟩ := h1
    split
    · exact hi
    · have h2 := wsEOL_progress true s j hj2
      split
      · rename_i heq2; rw [heq2] at h2; have : _ = j := h2; show _ ≤ _; omega
      · trivial
      · rename_i u j1 heq2
        rw [heq2] at h2; obtain ⟨hk1, hk2, -⟩ := h2
        have h3 := integerP_progress s j1 hk2
        split
        · rename_i heq3; rw [heq3] at h3; have : _ = j1 := h3; show _ ≤ _; omega
        · trivial
        · rename_i gen j2 heq3
          rw [heq3] at h3; obtain ⟨-, -, hl1, hl2⟩ := h3
          split
          · exact hk2
          · have h4 := wsEOL_progress true s j2 hl2
            split
            · rename_i heq4; rw [heq4] at h4; have : _ = j2 := h4; show _ ≤ _; omega
            · trivial
            · rename_i u2 j3 heq4
              rw [heq4] at h4; obtain ⟨hm1, hm2, -⟩ := h4
              split
              · exact hm2
              · rename_i j4 heq5
                exact exact_ok_le heq5 (by decide)

theorem numberOrRef_good2 (cur : Nat) (s : Bytes) (i : Nat) (hi : i ≤ s.length) :
    goodI2 s.length (numberOrRef s i, cur) := by
  unfold numberOrRef
  have h1 := realP_progress s i hi
  split
  · rename_i heq; rw [heq] at h1; have : _ = i := h1; show _ ≤ _; omega
  · trivial
  · rename_i r j heq
    rw [heq] at h1; obtain ⟨-, -, hj1, hj2⟩ := h1
    simp only
    split
    · exact ⟨hj2, rfl⟩
    · rename_i hcond
      have hI : goodI2 s.length ((Res.ok (Obj.int r.val.1), j), cur) := by
        refine ⟨hj2, ?_⟩
        simp only [intsOK, decide_eq_true_eq]
        cases hb : decide (r.val.fst ≤ 2 ^ 63 - 1) with
        | true => simpa using hb
        | false => exact absurd (by rw [hb]; simp) hcond
      split
      · trivial
      · exact hI
      · split
        · trivial
        · exact hI
        · split
          · trivial
          · exact hI
          · split
            · have hr := referenceP_cur s i hi
              split
              · rename_i heq5; rw [heq5] at hr; exact ⟨hr, rfl⟩
              · rename_i heq5; rw [heq5] at hr; exact hr
              · trivial
            · exact hI

def arrGood2 (n : Nat) : (Res (List Obj) × Nat) × Nat → Prop
  | ((.ok xs, c), _) => c ≤ n ∧ intsOKList xs = true
  | ((.err _, c), _) => c ≤ n
  | ((.panic _, _), _) => True

theorem arrayLoop_good2 (el : Elem) (hel : Elem2 el) (f : Nat) : ∀ (cur : Nat) (s : Bytes) (i : Nat) (acc : List Obj),
    i ≤ s.length → intsOKList acc = true → arrGood2 s.length (arrayLoop el f cur s i acc) := by
  induction f with
  | zero => intro cur s i acc hi hacc; unfold arrayLoop; trivial
  | succ f ih =>
    intro cur s i acc hi hacc
    unfold arrayLoop
    have h1 := wsEOL_progress true s i hi
    split
    · rename_i heq; rw [heq] at h1; have : _ = i := h1; show _ ≤ _; omega
    · trivial
    · rename_i u j heq
      rw [heq] at h1; obtain ⟨hj1, hj2, -⟩ := h1
      split
      · rename_i k hex
        refine ⟨exact_ok_le hex (by decide), ?_⟩
        rw [intsOKList_iff] at hacc ⊢
        intro x hx; exact hacc x (by simpa using hx)
      · have he := hel cur s j hj2
        split
        · rename_i o k cur' heq2
          rw [heq2] at he
          exact ih cur' s k (o.val :: acc) he.1 (by simp [intsOKList, he.2, hacc])
        · rename_i heq2; rw [heq2] at he; exact he
        · trivial

def dictGood2 (n : Nat) : (Res (List (Bytes × Obj)) × Nat) × Nat → Prop
  | ((.ok kvs, c), _) => c ≤ n ∧ intsOKKvs kvs = true
  | ((.err _, c), _) => c ≤ n
  | ((.panic _, _), _) => True

theorem dictLoop_good2 (el : Elem) (hel : Elem2 el) (f : Nat) : ∀ (cur : Nat) (s : Bytes) (i : Nat)
    (names : List Bytes) (map : List (Bytes × Obj)),
    i ≤ s.length → intsOKKvs map = true → dictGood2 s.length (dictLoop el f cur s i names map) := by
  induction f with
  | zero => intro cur s i names map hi hacc; unfold dictLoop; trivial
  | succ f ih =>
    intro cur s i names map hi hacc
    unfold dictLoop
    have h1 := wsEOL_progress true s i hi
    split
    · rename_i heq; rw [heq] at h1; have : _ = i := h1; show _ ≤ _; omega
    · trivial
    · rename_i u j heq
      rw [heq] at h1; obtain ⟨hj1, hj2, -⟩ := h1
      split
      · rename_i k hex
        exact ⟨exact_ok_le hex (by decide), hacc⟩
      · have hn := nameP_loc s j hj2
        split
        · rename_i heq2; rw [heq2] at hn; have : _ = j := hn; show _ ≤ _; omega
        · trivial
        · rename_i key k heq2
          rw [heq2] at hn; obtain ⟨-, hn2, -, hn4⟩ := hn
          have hk : k ≤ s.length := by omega
          split
          · exact hk
          · have h3 := wsEOL_progress true s k hk
            split
            · rename_i heq3; rw [heq3] at h3; have : _ = k := h3; show _ ≤ _; omega
            · trivial
            · rename_i u2 k1 heq3
              rw [heq3] at h3; obtain ⟨-, hk1, -⟩ := h3
              have he := hel cur s k1 hk1
              split
              · rename_i heq4; rw [heq4] at he; exact he
              · trivial
              · rename_i o k2 cur' heq4
                rw [heq4] at he
                split
                · exact ih cur' s k2 names map he.1 hacc
                · exact ih cur' s k2 _ _ he.1 (intsOKKvs_insert _ _ _ he.2 hacc)

theorem parseInternal_good2 (el : Elem) (hel : Elem2 el) (cur : Nat) (s : Bytes) (i : Nat) (hi : i ≤ s.length) :
    goodI2 s.length (parseInternal el cur s i) := by
  unfold parseInternal
  split
  · exact hi
  · rename_i c hp
    have hlt := peek_some_lt hp
    split
    · exact liftTok_good2 _ _ _ _ _ (boolean_loc s i hi) hi (fun _ => rfl)
    · split
      · exact liftTok_good2 _ _ _ _ _ (null_loc s i hi) hi (fun _ => rfl)
      · split
        · exact liftTok_good2 _ _ _ _ _ (rawLitString_loc s i hi) hi (fun _ => rfl)
        · split
          · exact liftTok_good2 _ _ _ _ _ (comment_loc s i hi) hi (fun _ => rfl)
          · split
            · exact liftTok_good2 _ _ _ _ _ (nameP_loc s i hi) hi (fun _ => rfl)
            · split
              · have ha := arrayLoop_good2 el hel (s.length + 1 - i) cur s (i + 1) [] (by omega) rfl
                split
                · rename_i heq; rw [heq] at ha; exact ha
                · rename_i heq; rw [heq] at ha; exact ha
                · trivial
              · split
                · split
                  · rename_i hp2
                    have hp2' : peek s (i + 1) = some 60 := by simpa using hp2
                    have hlt2 := peek_some_lt hp2'
                    have hd := dictLoop_good2 el hel (s.length + 1 - i) cur s (i + 2) [] [] (by omega) rfl
                    split
                    · rename_i heq; rw [heq] at hd; exact hd
                    · rename_i heq; rw [heq] at hd; exact hd
                    · trivial
                  · exact liftTok_good2 _ _ _ _ _ (hexString_loc s i hi) hi (fun _ => rfl)
                · split
                  · exact hi
                  · exact numberOrRef_good2 cur s i hi

theorem objParse_good2 (el : Elem) (hel : Elem2 el) (cur1 : Nat) (s : Bytes) (i : Nat) (hi : i ≤ s.length) :
    good2 s.length (objParse el cur1 s i) := by
  unfold objParse
  have h1 := wsEOL_progress true s i hi
  split
  · rename_i heq; rw [heq] at h1; have : _ = i := h1; show _ ≤ _; omega
  · trivial
  · rename_i u st heq
    rw [heq] at h1; obtain ⟨-, hj2, -⟩ := h1
    have hp := parseInternal_good2 el hel cur1 s st hj2
    split
    · rename_i heq2; rw [heq2] at hp; exact hp
    · rename_i heq2; rw [heq2] at hp; exact hp
    · trivial

theorem leaveObj_good2 (n : Nat) (x : R × Nat) (h : good2 n x) : good2 n (leaveObj x) := by
  obtain ⟨⟨r, c⟩, cur2⟩ := x
  simp only [leaveObj]
  split
  · trivial
  · cases r with
    | ok v => exact h
    | err k => exact h
    | panic p => trivial

theorem parseObjB_good2 (max : Nat) : ∀ b, Elem2 (parseObjB max b) := by
  intro b
  induction b with
  | zero =>
    intro cur s i hi
    unfold parseObjB
    split
    · exact hi
    · trivial
  | succ b ih =>
    intro cur s i hi
    unfold parseObjB
    split
    · exact hi
    · exact leaveObj_good2 _ _ (objParse_good2 _ ih _ s i hi)

/-! ## Part 1: the indirect-object parser - cursor, sorted definitions, integers -/

def headGood2 (n : Nat) : (Res Head × Nat) × Ctx → Prop
  | ((.ok h, k), _) => k ≤ n ∧ intsOK h.o.val = true
  | ((.err _, k), _) => k ≤ n
  | ((.panic _, _), _) => True

theorem indirectHead_good2 (c : Ctx) (s : Bytes) (i : Nat) (hi : i ≤ s.length) :
    headGood2 s.length (indirectHead c s i) := by
  unfold indirectHead
  have h1 := integerP_progress s i hi
  split
  · rename_i heq; rw [heq] at h1; have : _ = i := h1; show _ ≤ _; omega
  · trivial
  · rename_i num j heq
    rw [heq] at h1; obtain ⟨-, -, hj1, hj2⟩ := h1
    split
    · exact hi
    · have h2 := wsEOL_progress true s j hj2
      split
      · rename_i heq2; rw [heq2] at h2; have : _ = j := h2; show _ ≤ _; omega
      · trivial
      · rename_i u j1 heq2
        rw [heq2] at h2; obtain ⟨hk1, hk2, -⟩ := h2
        have h3 := integerP_progress s j1 hk2
        split
        · rename_i heq3; rw [heq3] at h3; have : _ = j1 := h3; show _ ≤ _; omega
        · trivial
        · rename_i gen j2 heq3
          rw [heq3] at h3; obtain ⟨-, -, hl1, hl2⟩ := h3
          split
          · exact hk2
          · have h4 := wsEOL_progress true s j2 hl2
            split
            · rename_i heq4; rw [heq4] at h4; have : _ = j2 := h4; show _ ≤ _; omega
            · trivial
            · rename_i u2 j3 heq4
              rw [heq4] at h4; obtain ⟨hm1, hm2, -⟩ := h4
              split
              · exact hm2
              · rename_i j4 heq5
                have g1 := exact_ok_le heq5 (by decide)
                have h5 := wsEOL_progress true s j4 g1
                split
                · rename_i heq6; rw [heq6] at h5; have : _ = j4 := h5; show _ ≤ _; omega
                · trivial
                · rename_i u3 j5 heq6
                  rw [heq6] at h5; obtain ⟨hn1, hn2, -⟩ := h5
                  have hg := parseObjB_good2 c.max (c.max - c.cur) c.cur s j5 hn2
                  unfold parseObj
                  revert hg
                  generalize parseObjB c.max (c.max - c.cur) c.cur s j5 = r
                  obtain ⟨⟨r, k⟩, cur'⟩ := r
                  intro hg
                  cases r with
                  | ok v => exact hg
                  | err e => exact hg
                  | panic m => trivial

def bodyGood2 (n : Nat) : Res (Located Obj) × Nat → Prop
  | (.ok o, k) => k ≤ n ∧ intsOK o.val = true
  | (.err _, k) => k ≤ n
  | (.panic _, _) => True

theorem indirectBody_good2 (c : Ctx) (s : Bytes) (o : Located Obj) (j : Nat) (hj : j ≤ s.length)
    (ho : intsOK o.val = true) : bodyGood2 s.length (indirectBody c s o j) := by
  unfold indirectBody
  split
  · rename_i kvs hd
    have h2 := wsEOL_progress true s j hj
    split
    · rename_i heq2; rw [heq2] at h2; have : _ = j := h2; show _ ≤ _; omega
    · trivial
    · rename_i u p heq2
      rw [heq2] at h2; obtain ⟨hk1, hk2, -⟩ := h2
      split
      · split
        · exact hk2
        · trivial
        · rename_i n hn
          have hl := streamContentP_loc n c.eol s p hk2
          split
          · rename_i heq3; rw [heq3] at hl; have : _ = p := hl; show _ ≤ _; omega
          · trivial
          · rename_i sc e heq3; rw [heq3] at hl
            refine ⟨by have := hl.2.1; have := hl.2.2.2; show e ≤ _; omega, ?_⟩
            rw [hd] at ho
            simpa [intsOK] using ho
      · exact ⟨hk2, ho⟩
  · exact ⟨hj, ho⟩

def finGood2 (n : Nat) (obj : Located Obj) : (Res (Located Indirect) × Nat) × Ctx → Prop
  | ((.ok v, k), c') => k ≤ n ∧ DefsSorted c'.defs ∧ v.val.obj = obj
  | ((.err _, k), c') => k ≤ n ∧ DefsSorted c'.defs
  | ((.panic _, _), _) => True

theorem indirectFinish_good2 (c : Ctx) (s : Bytes) (start num gen : Nat) (obj : Located Obj) (j : Nat)
    (hj : j ≤ s.length) (hs : DefsSorted c.defs) :
    finGood2 s.length obj (indirectFinish c s start num gen obj j) := by
  unfold indirectFinish
  have h2 := wsEOL_progress true s j hj
  split
  · rename_i heq2; rw [heq2] at h2; exact ⟨by have : _ = j := h2; show _ ≤ _; omega, hs⟩
  · trivial
  · rename_i u j1 heq; rw [heq] at h2; obtain ⟨-, hk, -⟩ := h2
    split
    · exact ⟨hk, hs⟩
    · rename_i e hex
      have he := exact_ok_le hex (by decide)
      have hsort := defsInsert_sorted (num, gen) obj c.defs hs
      simp only
      cases hins : defsInsert (num, gen) obj c.defs with
      | mk old d =>
        rw [hins] at hsort
        cases old with
        | none => exact ⟨he, hsort, rfl⟩
        | some _ => exact ⟨he, hsort⟩

def indGood2 (n : Nat) : (Res (Located Indirect) × Nat) × Ctx → Prop
  | ((.ok v, k), c') => k ≤ n ∧ DefsSorted c'.defs ∧ intsOK v.val.obj.val = true
  | ((.err _, k), c') => k ≤ n ∧ DefsSorted c'.defs
  | ((.panic _, _), _) => True

theorem indirectInternal_good2 (c : Ctx) (s : Bytes) (i : Nat) (hi : i ≤ s.length) (hwf : C05.CtxWF c) :
    indGood2 s.length (indirectInternal c s i) := by
  unfold indirectInternal
  have hh := C05.indirectHead_good c s i hi hwf.1
  have hh2 := indirectHead_good2 c s i hi
  split
  · rename_i heq; rw [heq] at hh hh2; have : _ = c := hh; subst this; exact ⟨hh2, hwf.2⟩
  · trivial
  · rename_i h j c1 heq
    rw [heq] at hh hh2
    obtain ⟨hj, hc1, -⟩ := hh
    subst hc1
    have hb := indirectBody_good2 c1 s h.o j hj hh2.2
    split
    · rename_i heq2; rw [heq2] at hb; exact ⟨hb, hwf.2⟩
    · trivial
    · rename_i obj j' heq2
      rw [heq2] at hb
      have hf := indirectFinish_good2 c1 s i h.num h.gen obj j' hb.1 hwf.2
      revert hf
      generalize indirectFinish c1 s i h.num h.gen obj j' = r
      obtain ⟨⟨r, k⟩, c'⟩ := r
      cases r with
      | ok v => intro hf; exact ⟨hf.1, hf.2.1, by rw [hf.2.2]; exact hb.2⟩
      | err e => intro hf; exact hf
      | panic m => intro _; trivial

/-- everything the loader needs to know about one call of `parse_pdf_indirect_obj` -/
def IndOK (n : Nat) : (Res (Located Indirect) × Nat) × Ctx → Prop
  | ((.ok v, k), c') => k ≤ n ∧ C05.CtxWF c' ∧ intsOK v.val.obj.val = true
  | ((.err _, k), c') => k ≤ n ∧ C05.CtxWF c'
  | ((.panic _, _), _) => False

theorem parseIndirect_inv (c : Ctx) (s : Bytes) (i : Nat) (hi : i ≤ s.length) (hwf : C05.CtxWF c) :
    IndOK s.length (parseIndirect c s i) := by
  have hnp := C05.indirect_never_panics c s i hi hwf.1
  have h2 := wsEOL_progress true s i hi
  have key : indGood2 s.length (parseIndirect c s i) := by
    unfold parseIndirect
    split
    · rename_i heq; rw [heq] at h2; exact ⟨by have : _ = i := h2; show _ ≤ _; omega, hwf.2⟩
    · trivial
    · rename_i u j heq; rw [heq] at h2; exact indirectInternal_good2 c s j h2.2.1 hwf
  revert hnp key
  generalize parseIndirect c s i = r
  obtain ⟨⟨r, k⟩, c'⟩ := r
  intro hnp key
  obtain ⟨hp, hcur, hmax, -⟩ := hnp
  simp only at hp hcur hmax
  have hd : c'.cur ≤ c'.max := by rw [hcur, hmax]; exact hwf.1
  cases r with
  | ok v => exact ⟨key.1, ⟨hd, key.2.1⟩, key.2.2⟩
  | err e => exact ⟨key.1, ⟨hd, key.2⟩⟩
  | panic m => simp [Res.isPanic] at hp

/-! ## Part 2: the loader's own parsers and the stream parsers it calls -/

/-- the stream-filter decoders (zlib inflate, ASCII85, ASCIIHex, predictor) are total and their
    outputs are Rust buffers (at most `isize::MAX` bytes): properties C06/C07, not the loader's -/
def DecodersTotal : Prop :=
  (∀ (f : Filters.Filter) (d : Bytes) (p : String), Filters.applyFilter Loader.ext f d ≠ .panic p) ∧
  (∀ (f : Filters.Filter) (d d' : Bytes), Filters.applyFilter Loader.ext f d = .ok d' → d'.length ≤ 2 ^ 63)

theorem scanFwd_lt (tag : Bytes) : ∀ (l : Bytes) (k : Nat), scanFwd tag l = some k → k < l.length := by
  intro l
  induction l with
  | nil => intro k h; simp [scanFwd] at h
  | cons b t ih =>
    intro k h
    unfold scanFwd at h
    split at h
    · cases h; simp
    · cases hs : scanFwd tag t with
      | none => rw [hs] at h; simp at h
      | some k' =>
        rw [hs] at h; simp at h
        have := ih k' hs
        simp only [List.length_cons]; omega

theorem scanBack_lt (tag : Bytes) : ∀ (l : Bytes) (k : Nat), scanBack tag l = some k → k < l.length := by
  intro l
  induction l with
  | nil => intro k h; simp [scanBack] at h
  | cons b t ih =>
    intro k h
    unfold scanBack at h
    split at h
    · rename_i k' hs
      cases h
      have := ih k' hs
      simp only [List.length_cons]; omega
    · split at h
      · cases h; simp
      · cases h

theorem startXrefP_no_panic (s : Bytes) (i : Nat) (p : String) (c : Nat) :
    startXrefP s i ≠ (.panic p, c) := by
  intro h
  unfold startXrefP at h
  split at h
  · simp at h
  · rename_i j hex
    have hj := exact_ok_le hex (by decide)
    have h2 := wsEOL_progress false s j hj
    split at h
    · simp at h
    · rename_i heq; rw [heq] at h2; exact h2
    · rename_i u j1 heq
      rw [heq] at h2
      have h3 := integerP_progress s j1 h2.2.1
      split at h
      · simp at h
      · rename_i heq3; rw [heq3] at h3; exact h3
      · split at h <;> simp at h

theorem dictP_good (cur max : Nat) (s : Bytes) (i : Nat) (hc : cur ≤ max) :
    (∀ p, (dictP cur max s i).1.1 ≠ .panic p) ∧ (dictP cur max s i).2 = cur := by
  unfold dictP
  split
  · exact ⟨by simp, rfl⟩
  · rename_i j hex
    have hj := exact_ok_le hex (by decide)
    have hge := exact_ok_ge hex
    have hg := dictLoop_good max (max - cur) (parseObjB max (max - cur)) (parseObjB_good max (max - cur))
      (s.length + 1 - i) cur s j [] [] hj hc (Nat.le_refl _) (by omega) (by simp [depthKvs]; exact hc)
    revert hg
    generalize dictLoop (parseObjB max (max - cur)) (s.length + 1 - i) cur s j [] [] = r
    obtain ⟨⟨r, k⟩, cur'⟩ := r
    cases r with
    | ok v => intro hg; exact ⟨by simp, hg.1⟩
    | err e => intro hg; exact ⟨by simp, hg⟩
    | panic m => intro hg; exact hg.elim

theorem trailerP_good (c : Ctx) (s : Bytes) (i : Nat) (hwf : C05.CtxWF c) :
    (∀ p, (trailerP c s i).1.1 ≠ .panic p) ∧ C05.CtxWF (trailerP c s i).2 := by
  unfold trailerP
  split
  · exact ⟨by simp, hwf⟩
  · rename_i j hex
    have hj := exact_ok_le hex (by decide)
    have h2 := wsEOL_progress true s j hj
    split
    · exact ⟨by simp, hwf⟩
    · rename_i heq; rw [heq] at h2; exact h2.elim
    · rename_i u j1 heq
      rw [heq] at h2
      have hd := dictP_good c.cur c.max s j1 hwf.1
      revert hd
      generalize dictP c.cur c.max s j1 = r
      obtain ⟨⟨r, k⟩, cur'⟩ := r
      intro hd
      obtain ⟨hd1, hd2⟩ := hd
      simp only at hd1 hd2
      subst hd2
      cases r with
      | ok v => exact ⟨by simp, hwf.1, hwf.2⟩
      | err e => exact ⟨by simp, hwf.1, hwf.2⟩
      | panic m => exact absurd rfl (hd1 m)

/-! ### the cross-reference stream: filters and the /Size, /Index bounds -/

theorem applyFilters_no_panic (xf : Xref.Filter → Bytes → Res Bytes) (hxf : ∀ f d p, xf f d ≠ .panic p) :
    ∀ (fs : List Xref.Filter) (s : Bytes) (i : Nat) (p : String), Xref.applyFilters xf fs s i ≠ .panic p := by
  intro fs
  induction fs with
  | nil => intro s i p; simp [Xref.applyFilters]
  | cons f t ih =>
    intro s i p
    unfold Xref.applyFilters
    split
    · simp
    · split
      · exact ih _ _ _
      · simp
      · rename_i q heq; exact absurd heq (hxf _ _ _)

theorem xrefXf_no_panic (hdec : DecodersTotal) (kvs : List (Bytes × Obj)) (f : Xref.Filter) (d : Bytes) (p : String) :
    xrefXf kvs f d ≠ .panic p := by
  unfold xrefXf; exact hdec.1 _ _ _

theorem dget_toXDict (kvs : List (Bytes × Obj)) (k : Bytes) (val : Xref.Val)
    (h : Xref.dget (toXDict kvs) k = some val) : ∃ kv ∈ kvs, val = valOf kv.2 := by
  induction kvs with
  | nil => simp [toXDict, Xref.dget] at h
  | cons x t ih =>
    obtain ⟨k', v⟩ := x
    simp only [toXDict, Xref.dget] at h
    split at h
    · cases h; exact ⟨(k', v), by simp, rfl⟩
    · obtain ⟨kv, hkv, hv⟩ := ih h
      exact ⟨kv, by simp [hkv], hv⟩

theorem valOf_int (o : Obj) (v : Int) (h : valOf o = .atom (.int v)) : o = .int v := by
  cases o <;> simp [valOf, atomOf] at h
  subst h; rfl

theorem valOf_arr (o : Obj) (l : List Xref.Atom) (h : valOf o = .arr l) : ∃ xs, o = .arr xs ∧ l = atomsOf xs 0 := by
  cases o <;> simp [valOf] at h
  rename_i xs; exact ⟨xs, rfl, h.symm⟩

theorem mem_atomsOf (xs : List Obj) : ∀ (k : Nat) (v : Int), Xref.Atom.int v ∈ atomsOf xs k → Obj.int v ∈ xs := by
  induction xs with
  | nil => intro k v h; simp [atomsOf] at h
  | cons x t ih =>
    intro k v h
    simp only [atomsOf, List.mem_cons] at h
    rcases h with h | h
    · cases x <;> simp [atomOf] at h
      subst h; simp
    · exact List.mem_cons_of_mem _ (ih _ _ h)

theorem indexPairs_bound : ∀ (l : List Xref.Atom) (r : List (Nat × Nat)),
    (∀ v, Xref.Atom.int v ∈ l → v ≤ 2 ^ 63 - 1) → Xref.indexPairs l = some r →
    ∀ q ∈ r, q.1 + q.2 ≤ Xref.usizeLim := by
  intro l
  induction l using Xref.indexPairs.induct with
  | case1 s c t hs => intro r _ h; simp [Xref.indexPairs, hs] at h
  | case2 s c t hs hc => intro r _ h; simp [Xref.indexPairs, hs, hc] at h
  | case3 s c t hs hc l' hl' ih =>
    intro r hb h
    simp [Xref.indexPairs, hs, hc, hl'] at h
    subst h
    intro q hq
    simp only [List.mem_cons] at hq
    rcases hq with hq | hq
    · subst hq
      have h1 := hb s (by simp)
      have h2 := hb c (by simp)
      simp only [Xref.usizeLim]
      omega
    · exact ih l' (fun v hv => hb v (by simp [hv])) hl' q hq
  | case4 s c t hs hc hn ih => intro r _ h; simp [Xref.indexPairs, hs, hc, hn] at h
  | case5 => intro r _ h; simp [Xref.indexPairs] at h; subst h; simp
  | case6 a => intro r _ h; simp [Xref.indexPairs] at h; subst h; simp
  | case7 a b t hne => intro r _ h; rw [Xref.indexPairs] at h; cases h; all_goals (first | exact hne | skip)

theorem getUsize_toXDict_bound (kvs : List (Bytes × Obj)) (hk : intsOKKvs kvs = true) (k : Bytes) (n : Nat)
    (h : Xref.getUsize (toXDict kvs) k = some n) : n ≤ 2 ^ 63 - 1 := by
  unfold Xref.getUsize at h
  split at h
  · rename_i v hd
    obtain ⟨kv, hkv, hv⟩ := dget_toXDict kvs k _ hd
    have ho := valOf_int kv.2 v hv.symm
    have := (intsOKKvs_iff kvs).mp hk kv hkv
    rw [ho] at this
    simp only [intsOK, decide_eq_true_eq] at this
    split at h
    · cases h; omega
    · cases h
  · cases h

theorem getArray_toXDict_bound (kvs : List (Bytes × Obj)) (hk : intsOKKvs kvs = true) (k : Bytes) (l : List Xref.Atom)
    (h : Xref.getArray (toXDict kvs) k = some l) : ∀ v, Xref.Atom.int v ∈ l → v ≤ 2 ^ 63 - 1 := by
  unfold Xref.getArray at h
  split at h
  · rename_i l' hd
    cases h
    obtain ⟨kv, hkv, hv⟩ := dget_toXDict kvs k _ hd
    obtain ⟨xs, ho, hl⟩ := valOf_arr kv.2 l hv.symm
    have := (intsOKKvs_iff kvs).mp hk kv hkv
    rw [ho] at this
    simp only [intsOK] at this
    intro v hv
    rw [hl] at hv
    have hm := mem_atomsOf xs 0 v hv
    have := (intsOKList_iff xs).mp this _ hm
    simpa [intsOK] using this
  · cases h

/-- what `get_dict_info` accepted: `/Size` and the `/Index` pairs are the dictionary's -/
theorem getDictInfo_fields (d : Xref.Dict) (m : Xref.DictInfo) (h : Xref.getDictInfo d = .ok m) :
    Xref.getUsize d Xref.kSize = some m.size ∧
    (∀ l, m.index = some l → ∃ a, Xref.getArray d Xref.kIndex = some a ∧ Xref.indexPairs a = some l) := by
  unfold Xref.getDictInfo at h
  split at h
  · cases h
  · split at h
    · cases h
    · split at h
      · cases h
      · rename_i size hsz
        simp only at h
        split at h
        · cases h
        · rename_i index hidx
          split at h
          · cases h
          · split at h
            · cases h
            · split at h
              · cases h
              · split at h
                · cases h
                · split at h
                  · cases h
                  · cases h
                    refine ⟨hsz, ?_⟩
                    intro l hl
                    simp only at hl
                    subst hl
                    split at hidx
                    · rename_i a ha
                      split at hidx
                      · cases hidx
                      · split at hidx
                        · rename_i l' hl'
                          cases hidx
                          exact ⟨a, ha, hl'⟩
                        · cases hidx
                    · cases hidx
              · cases h

theorem xrefStreamP_no_panic (hdec : DecodersTotal) (enc : Bool) (kvs : List (Bytes × Obj))
    (hk : intsOKKvs kvs = true) (s : Bytes) (i : Nat) (p : String) (c : Nat) :
    Xref.xrefStreamP enc (toXDict kvs) (xrefXf kvs) s i ≠ (.panic p, c) := by
  intro h
  unfold Xref.xrefStreamP at h
  split at h
  · simp at h
  · rename_i q hq; exact C13.dictinfo_never_panics _ _ hq
  · rename_i m hm
    obtain ⟨hsz, hix⟩ := getDictInfo_fields _ m hm
    split at h
    · simp at h
    · split at h
      · simp at h
      · rename_i q hq
        exact applyFilters_no_panic _ (xrefXf_no_panic hdec kvs) _ _ _ _ hq
      · rename_i s' i' hq
        refine C13.parseStream_never_panics m s' i' ?_ ?_ p c h
        · have := getUsize_toXDict_bound kvs hk _ _ hsz
          simp only [Xref.usizeLim]; omega
        · intro l hl q hq
          obtain ⟨a, ha, hp⟩ := hix l hl
          exact indexPairs_bound a l (getArray_toXDict_bound kvs hk _ a ha) hp q hq

/-! ### parse_xref_stream, parse_xref_section -/

/-- a step that did not panic: cursor inside the buffer, context invariant kept -/
def XOK (n : Nat) : XStep → Prop
  | (.panic _, _, _) => False
  | (.ok _, c, st) => c ≤ n ∧ C05.CtxWF st.ctx
  | (.reject, c, st) => c ≤ n ∧ C05.CtxWF st.ctx

theorem parseXrefStream_ok (hdec : DecodersTotal) (st : St) (s : Bytes) (i : Nat) (hi : i ≤ s.length)
    (hwf : C05.CtxWF st.ctx) : XOK s.length (parseXrefStream st s i) := by
  unfold parseXrefStream
  have hI := parseIndirect_inv st.ctx s i hi hwf
  split
  · rename_i heq; rw [heq] at hI; exact ⟨hI.1, hI.2⟩
  · rename_i heq; rw [heq] at hI; exact hI.elim
  · rename_i ind j c heq
    rw [heq] at hI
    obtain ⟨hj, hc, hints⟩ := hI
    simp only
    split
    · rename_i kvs sc hv
      split
      · exact ⟨hj, hc⟩
      · have hx := xrefStreamP_no_panic hdec st.enc kvs (by rw [hv] at hints; simpa [intsOK] using hints)
          ((s.drop sc.start).take sc.size) 0
        split
        · exact ⟨hj, hc⟩
        · rename_i heq2; exact absurd heq2 (hx _ _)
        · exact ⟨hj, hc⟩
    · exact ⟨hj, hc⟩

/-- `parse_xref_section` did not panic; where it reports "no section here" the cursor it leaves
    (the one the second try starts from) is inside the buffer -/
def SOK (n : Nat) : XStep → Prop
  | (.panic _, _, _) => False
  | (.ok none, c, st) => c ≤ n ∧ C05.CtxWF st.ctx
  | (.ok (some _), _, st) => C05.CtxWF st.ctx
  | (.reject, _, st) => C05.CtxWF st.ctx

theorem parseXrefSection_ok (hdec : DecodersTotal) (st : St) (s : Bytes) (i : Nat) (hi : i ≤ s.length)
    (hwf : C05.CtxWF st.ctx) : SOK s.length (parseXrefSection st s i) := by
  unfold parseXrefSection
  split
  · rename_i heq; exact absurd heq (C13.table_never_panics s i _ _)
  · have hx := parseXrefStream_ok hdec st s i hi hwf
    revert hx
    generalize parseXrefStream st s i = r
    obtain ⟨o, c, st'⟩ := r
    intro hx
    cases o with
    | panic q => exact hx.elim
    | reject => exact hx.2
    | ok v =>
      cases v with
      | none => exact hx
      | some t => exact hx.2
  · rename_i xrs c heq
    simp only
    split
    · exact hwf
    · rename_i k hk
      have ht := trailerP_good st.ctx s (c + k) hwf
      split
      · rename_i heq2; rw [heq2] at ht; exact absurd rfl (ht.1 _)
      · rename_i heq2; rw [heq2] at ht; exact ht.2
      · rename_i d c1 ctx1 heq2
        rw [heq2] at ht
        split
        · exact ht.2
        · rename_i x hx
          split
          · exact ht.2
          · rename_i hxl
            have hx2 := parseXrefStream_ok hdec ⟨ctx1, st.enc || (dictGet kEncrypt d).isSome⟩ s x (by simpa using hxl) ht.2
            revert hx2
            generalize parseXrefStream ⟨ctx1, st.enc || (dictGet kEncrypt d).isSome⟩ s x = r
            obtain ⟨o, c2, st2⟩ := r
            intro hx2
            cases o with
            | panic q => exact hx2.elim
            | reject => exact hx2.2
            | ok v =>
              cases v with
              | none => exact hx2.2
              | some t => obtain ⟨ents, a, b⟩ := t; exact hx2.2

/-! ## Part 3: the /Prev loop, parse_objects, parse_data -/

/-- pigeonhole: a duplicate-free list of naturals below `n` has at most `n` elements -/
theorem nodup_bounded_length (n : Nat) (l : List Nat) (hnd : l.Nodup) (hlt : ∀ x ∈ l, x < n) :
    l.length ≤ n := by
  induction n generalizing l with
  | zero =>
    cases l with
    | nil => simp
    | cons a t => exact absurd (hlt a List.mem_cons_self) (Nat.not_lt_zero _)
  | succ n ih =>
    have h1 : (l.erase n).Nodup := hnd.erase n
    have h2 : ∀ x ∈ l.erase n, x < n := by
      intro x hx
      rw [hnd.mem_erase_iff] at hx
      have := hlt x hx.2
      omega
    have h3 := ih (l.erase n) h1 h2
    by_cases hm : n ∈ l
    · rw [List.length_erase_of_mem hm] at h3; omega
    · rw [List.erase_of_not_mem hm] at h3; omega

def LOK : Out (List Xref.Ent × Obj) × St → Prop
  | (.panic _, _) => False
  | (.ok _, st) => C05.CtxWF st.ctx
  | (.reject, st) => C05.CtxWF st.ctx

/-- `get_xref_info`'s loop never panics - in particular the model's fuel is never exhausted: every
    iteration adds a new in-range offset to `cursorset` -/
theorem xrefLoop_ok (hdec : DecodersTotal) (s : Bytes) : ∀ (f : Nat) (st : St) (next : Nat) (cs : List Nat)
    (ids : List (Nat × Nat)) (xs : List Xref.Ent) (root : Option Obj),
    C05.CtxWF st.ctx → cs.Nodup → (∀ x ∈ cs, x < s.length) → s.length + 1 ≤ f + cs.length →
    LOK (xrefLoop f st s next cs ids xs root) := by
  intro f
  induction f with
  | zero =>
    intro st next cs ids xs root _ hnd hlt hf
    have := nodup_bounded_length s.length cs hnd hlt
    omega
  | succ f ih =>
    intro st next cs ids xs root hwf hnd hlt hf
    unfold xrefLoop
    split
    · exact hwf
    · rename_i hnot
      split
      · exact hwf
      · rename_i hlt'
        have hnext : next < s.length := by simpa using hlt'
        have hnd' : (next :: cs).Nodup := by
          refine List.nodup_cons.mpr ⟨?_, hnd⟩
          intro hm; apply hnot; simpa using hm
        have hlt2 : ∀ x ∈ next :: cs, x < s.length := by
          intro x hx
          simp only [List.mem_cons] at hx
          rcases hx with hx | hx
          · subst hx; exact hnext
          · exact hlt x hx
        have hf' : s.length + 1 ≤ f + (next :: cs).length := by simp only [List.length_cons]; omega
        have h1 := parseXrefSection_ok hdec st s next (by omega) hwf
        split
        · rename_i heq; rw [heq] at h1; exact h1.elim
        · rename_i heq; rw [heq] at h1; exact h1
        · rename_i x1 c1 st1 heq
          rw [heq] at h1
          cases x1 with
          | some info =>
            obtain ⟨ents, rt, prev⟩ := info
            have hwf2 : C05.CtxWF st1.ctx := h1
            simp only
            split
            · exact hwf2
            · rename_i root'' hr
              split
              · split
                · exact hwf2
                · exact hwf2
              · rename_i p
                exact ih st1 p (next :: cs) _ _ root'' hwf2 hnd' hlt2 hf'
          | none =>
            have h2 := parseXrefStream_ok hdec st1 s c1 h1.1 h1.2
            simp only
            revert h2
            generalize parseXrefStream st1 s c1 = r
            obtain ⟨o, c2, st2⟩ := r
            intro h2
            cases o with
            | panic q => exact h2.elim
            | reject => exact h2.2
            | ok v =>
              cases v with
              | none => exact h2.2
              | some info =>
                obtain ⟨ents, rt, prev⟩ := info
                have hwf2 : C05.CtxWF st2.ctx := h2.2
                simp only
                split
                · exact hwf2
                · rename_i root'' hr
                  split
                  · split
                    · exact hwf2
                    · exact hwf2
                  · rename_i p
                    exact ih st2 p (next :: cs) _ _ root'' hwf2 hnd' hlt2 hf'

theorem getXrefInfo_ok (hdec : DecodersTotal) (st : St) (s : Bytes) (start : Nat) (hwf : C05.CtxWF st.ctx) :
    LOK (getXrefInfo st s start) := by
  unfold getXrefInfo
  exact xrefLoop_ok hdec s _ st start [] [] [] none hwf List.nodup_nil (by simp) (by simp)

/-! ### parse_objects: first and second pass -/

def POK {α : Type} : Out α × Ctx → Prop
  | (.panic _, _) => False
  | (.ok _, c) => C05.CtxWF c
  | (.reject, c) => C05.CtxWF c

theorem firstPass_ok (s : Bytes) : ∀ (infos : List ObjInfo) (c : Ctx) (os : List ObjId) (sp : List (Nat × Nat × Nat)),
    C05.CtxWF c → POK (firstPass infos c s os sp) := by
  intro infos
  induction infos with
  | nil => intro c os sp hwf; rw [firstPass]; exact hwf
  | cons x t ih =>
    intro c os sp hwf
    cases x with
    | inStm id gen => rw [firstPass]; exact ih _ _ _ hwf
    | inFile id gen ofs =>
      rw [firstPass]
      split
      · exact ih _ _ _ hwf
      · split
        · exact hwf
        · rename_i hlt
          have hofs : ofs < s.length := by simpa using hlt
          have hI := parseIndirect_inv c s ofs (by omega) hwf
          split
          · rename_i heq; rw [heq] at hI
            split
            · exact hI.2.1
            · exact ih _ _ _ hI.2.1
          · rename_i heq; rw [heq] at hI; exact ih _ _ _ hI.2
          · rename_i heq; rw [heq] at hI; exact hI.2
          · rename_i heq; rw [heq] at hI; exact hI.elim

theorem secondPass_ok (s : Bytes) : ∀ (l : List (Nat × Nat × Nat)) (c : Ctx),
    C05.CtxWF c → POK (secondPass l c s) := by
  intro l
  induction l with
  | nil => intro c hwf; rw [secondPass]; exact hwf
  | cons x t ih =>
    intro c hwf
    obtain ⟨id, gen, ofs⟩ := x
    rw [secondPass]
    split
    · exact ih _ hwf
    · split
      · exact hwf
      · rename_i hlt
        have hofs : ofs < s.length := by simpa using hlt
        have hI := parseIndirect_inv c s ofs (by omega) hwf
        split
        · rename_i heq; rw [heq] at hI
          split
          · exact hI.2.1
          · exact ih _ hI.2.1
        · rename_i heq; rw [heq] at hI; exact hI.2
        · rename_i heq; rw [heq] at hI; exact hI.elim

/-! ### the object-stream pass -/

theorem mem_valDefs (d : Defs) (kv : ObjStm.ObjId × Obj) (h : kv ∈ valDefs d) : ∃ y ∈ d, y.1 = kv.1 := by
  induction d with
  | nil => simp [valDefs] at h
  | cons x t ih =>
    obtain ⟨k, v⟩ := x
    simp only [valDefs, List.mem_cons] at h
    rcases h with h | h
    · subst h; exact ⟨(k, v), by simp, rfl⟩
    · obtain ⟨y, hy, he⟩ := ih h
      exact ⟨y, by simp [hy], he⟩

theorem valDefs_sorted (d : Defs) (h : DefsSorted d) : ObjStm.DefsSorted (valDefs d) := by
  induction d with
  | nil => trivial
  | cons x t ih =>
    obtain ⟨k, v⟩ := x
    have h' := List.pairwise_cons.mp h
    refine ⟨?_, ih h'.2⟩
    intro kv hkv
    obtain ⟨y, hy, he⟩ := mem_valDefs t kv hkv
    have := h'.1 y hy
    rw [← he]
    exact this

/-- the invariant of the context as `ObjStreamP` sees it -/
def OInv (oc : ObjStm.Ctx) : Prop := oc.depth.cur ≤ oc.depth.max ∧ ObjStm.DefsSorted oc.defs

theorem streamLoop_inv (vstart : Nat) (s : Bytes) : ∀ (pairs : ObjStm.Meta) (ctx : ObjStm.Ctx) (i : Nat)
    (acc : List ObjStm.Member), OInv ctx → OInv (ObjStm.streamLoop vstart s pairs ctx i acc).2 := by
  intro pairs
  induction pairs with
  | nil => intro ctx i acc h; rw [ObjStm.streamLoop]; exact h
  | cons p t ih =>
    obtain ⟨onum, ofs⟩ := p
    intro ctx i acc h
    rw [ObjStm.streamLoop]
    split
    · exact h
    · split
      · exact h
      · rename_i hlen
        have hlen' : ofs ≤ s.length := by simpa using hlen
        split
        · exact h
        · have hw := wsEOL_progress true s ofs hlen'
          split
          · exact h
          · exact h
          · rename_i u j heq
            rw [heq] at hw
            have hdr := C16.depth_restored ctx.depth s j hw.2.1 h.1
            split
            · rename_i heq2; rw [heq2] at hdr; simp only at hdr; subst hdr; exact h
            · rename_i heq2; rw [heq2] at hdr; simp only at hdr; subst hdr; exact h
            · rename_i o e d' heq2
              rw [heq2] at hdr; simp only at hdr; subst hdr
              have hsort := ObjStm.defsInsert_sorted (onum, 0) o.val ctx.defs h.2
              split
              · rename_i hins; rw [hins] at hsort; exact ⟨h.1, hsort⟩
              · rename_i hins; rw [hins] at hsort; exact ih _ _ _ ⟨h.1, hsort⟩

theorem parseViews_inv (vbase : Nat) (ctx : ObjStm.Ctx) (n first : Nat) (data : Bytes) (h : OInv ctx) :
    OInv (ObjStm.parseViews vbase ctx n first data).2 := by
  unfold ObjStm.parseViews
  split
  · exact h
  · split
    · exact h
    · exact h
    · split
      · exact h
      · exact streamLoop_inv _ _ _ _ _ _ h

theorem objStmParse_inv (dec : ObjStm.Decoder) (vbase : Nat) (ctx : ObjStm.Ctx) (dict : ObjStm.Dict) (view : Bytes)
    (cur : Nat) (h : OInv ctx) : OInv (ObjStm.objStmParse dec vbase ctx dict view cur).2 := by
  unfold ObjStm.objStmParse
  split
  · exact h
  · exact h
  · split
    · exact h
    · exact h
    · split
      · exact h
      · split
        · exact parseViews_inv _ _ _ _ _ h
        · split
          · exact h
          · exact h
          · exact parseViews_inv _ _ _ _ _ h

theorem objDec_no_panic (hdec : DecodersTotal) (f : ObjStm.Filter) (d : Bytes) (p : String) : objDec f d ≠ .panic p := by
  unfold objDec; exact hdec.1 _ _ _

theorem objDec_len (hdec : DecodersTotal) (f : ObjStm.Filter) (d d' : Bytes) (h : objDec f d = .ok d') :
    d'.length ≤ 2 ^ 63 := by
  unfold objDec at h; exact hdec.2 _ _ _ h

theorem objStmPass_ok (hdec : DecodersTotal) (hofs : Nat) (s : Bytes) (hlen : hofs + s.length ≤ 2 ^ 63) :
    ∀ (l : List (ObjId × List (Bytes × Obj) × StreamContent)) (oc : ObjStm.Ctx), OInv oc →
    ∀ p, (objStmPass hofs s l oc).1 ≠ .panic p := by
  intro l
  induction l with
  | nil => intro oc _ p; rw [objStmPass]; simp
  | cons x t ih =>
    obtain ⟨id, kvs, sc⟩ := x
    intro oc h p
    rw [objStmPass]
    split
    · exact ih oc h p
    · rename_i hcond
      have hc : sc.size ≤ s.length ∧ sc.start ≤ s.length - sc.size := by simpa using hcond
      have hview : hofs + sc.start + ((s.drop sc.start).take sc.size).length ≤ 2 ^ 63 := by
        simp only [List.length_take, List.length_drop]; omega
      have hnp := C14.objstm_never_panics objDec (hofs + sc.start) oc kvs ((s.drop sc.start).take sc.size) 0
        (objDec_no_panic hdec) (objDec_len hdec) hview h.1 h.2
      have hinv := objStmParse_inv objDec (hofs + sc.start) oc kvs ((s.drop sc.start).take sc.size) 0 h
      split
      · rename_i heq; rw [heq] at hnp; simp [Res.isPanic] at hnp
      · rename_i r oc' _ heq; rw [heq] at hinv; exact ih oc' hinv p

theorem parseObjects_no_panic (hdec : DecodersTotal) (hofs : Nat) (st : St) (infos : List ObjInfo) (s : Bytes)
    (hlen : hofs + s.length ≤ 2 ^ 63) (hwf : C05.CtxWF st.ctx) (p : String) :
    parseObjects hofs st infos s ≠ .panic p := by
  unfold parseObjects
  have h1 := firstPass_ok s infos st.ctx [] [] hwf
  split
  · rename_i heq; rw [heq] at h1; exact h1.elim
  · simp
  · rename_i os sp c1 heq
    rw [heq] at h1
    have h2 := secondPass_ok s sp c1 h1
    split
    · rename_i heq2; rw [heq2] at h2; exact h2.elim
    · simp
    · rename_i u c2 heq2
      rw [heq2] at h2
      have h3 := objStmPass_ok hdec hofs s hlen (definedStreams os c2.defs)
        ⟨valDefs c2.defs, ⟨c2.cur, c2.max⟩, st.enc⟩ ⟨h2.1, valDefs_sorted _ h2.2⟩
      simp only
      split
      · rename_i q _ heq3; exact absurd (by rw [heq3]) (h3 q)
      · simp
      · simp

/-! ### parse_data -/

theorem loadView_no_panic (hdec : DecodersTotal) (hofs : Nat) (s : Bytes) (hlen : hofs + s.length ≤ 2 ^ 63)
    (p : String) : loadView hofs s ≠ .panic p := by
  unfold loadView
  have hc := comment_loc s 0 (Nat.zero_le _)
  split
  · simp
  · rename_i heq; rw [heq] at hc; exact hc.elim
  · simp only
    split
    · simp
    · rename_i sx hsx
      split
      · simp
      · rename_i heq; exact absurd heq (startXrefP_no_panic s sx _ _)
      · rename_i ofs c0 heq0
        split
        · simp
        · have hg := getXrefInfo_ok hdec ⟨Ctx.new 50, false⟩ s ofs (by exact ⟨Nat.zero_le _, List.Pairwise.nil⟩)
          split
          · rename_i heq; rw [heq] at hg; exact hg.elim
          · simp
          · rename_i ents rootRef st heq
            rw [heq] at hg
            have hp := parseObjects_no_panic hdec hofs st (infoOf ents) s hlen hg
            split
            · rename_i q heq2; exact absurd heq2 (hp q)
            · simp
            · split <;> simp

theorem parseData_no_panic (hdec : DecodersTotal) (data : Bytes) (hlen : data.length ≤ 2 ^ 63) (p : String) :
    parseData data ≠ .panic p := by
  unfold parseData
  split
  · simp
  · rename_i n hn
    have := scanFwd_lt _ _ _ hn
    exact loadView_no_panic hdec n (data.drop n) (by simp only [List.length_drop]; omega) p

/-- **C03/C04 robustness.**  `parse_data` reaches no panic site on any input that fits a Rust buffer,
    provided the stream-filter decoders are total (C06/C07): not in the token, object, indirect-object,
    cross-reference-table, cross-reference-stream or object-stream parsers it composes, not in its own
    glue - and the model's `/Prev`-loop fuel is never exhausted. -/
theorem load_never_panics_partial (data : Bytes) (hlen : data.length < 2 ^ 62)
    (hdec : DecodersTotal) : (Loader.parseData data).isPanic = false := by
  have h := parseData_no_panic hdec data (by omega)
  cases hr : parseData data with
  | ok v => rfl
  | reject => rfl
  | panic p => exact absurd hr (h p)

end Parsley.LoaderNoPanic
