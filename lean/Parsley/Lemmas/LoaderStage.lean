/-
  C03/C04 - from the cross-reference entries collected along the /Prev chain to the FINAL CONTEXT.

  `C04.merge_is_newest_wins_partial` describes the ENTRIES `get_xref_info` keeps; `C03.load_defines_exactly_partial`
  describes what `parse_objects` defines, but only when it starts from the empty context.  This file composes
  them (all theorems are about the faithful model `Parsley.Loader`, Model/Loader.lean):

    stage_from                        the object-loading stage for direct objects from ANY sorted starting context
                                      (`parse_xref_stream` registers the cross-reference stream objects while the
                                      chain is walked; the first pass skips in-file entries already defined):
                                      every entry not yet defined is bound to the value written at its offset, every
                                      binding present before is kept, nothing else is defined.
    newest_wins_in_context_partial    after `get_xref_info` + `parse_objects`: for every object number, with `e` the
                                      NEWEST entry along the chain,  e free => the number is not defined (under any
                                      generation);  e in use at o => (n, e.gen) is bound to what is written at o and
                                      no other generation of n is defined;  never mentioned => undefined.
                                      (Everything "unless the context held it before", i.e. unless it is one of the
                                      cross-reference stream objects registered while walking.)
    newest_wins_classic_partial       the same when walking registered nothing (`st'.ctx = Ctx.new 50`): no provisos.
    classic_chain_ctx                 ... which holds when every section of the chain is a classic table without
    chain_classic_noStm               /XRefStm (`ClassicAt`), and then there is no in-stream entry either;
    newest_wins_classic_chain_partial puts the three together for the chain the caller names (`chain_unique`: there
                                      is only one): hypotheses left are stable generations and `ReadsAt`.
  `_partial`, excluded by hypothesis (the first two are real defects of the code, not proof gaps):
    * in-stream entries / object streams (`hnostm`)            - known finding #30 (C04.objstm_member_redefined_witness)
    * generations that change along the chain (`StableGen X`)  - known finding #29 (C04.free_with_bumped_generation_witness)
    * objects that do not read in every context that lacks them (`ReadsAt`): a stream whose /Length is a
      forward reference fails in the first pass and is only loaded by the second pass.
  Also a premise, not proved here: `ReadsAt` itself for the object texts (C02/C05 material; `C03.tiny_reads` and
  `fs_reads` below are proved instances).  The end of the file instantiates every theorem on concrete bytes.
-/
import Parsley.Props.C03
import Parsley.Props.C04
import Parsley.Props.C13
namespace Parsley.LoaderStage
open Parsley Parsley.Obj Parsley.Indirect Parsley.Loader Parsley.LoaderChain
open Parsley.C03 (Item ReadsAt valDefs_get)
open Parsley.C04 (StableGen)

/-! ## (1) the stage from an arbitrary context -/

/-- the definitions after the first pass: an item whose identifier is already bound is skipped -/
def insertNew : List Item → Defs → Defs
  | [], d => d
  | it :: t, d =>
    if (defsGet it.key d).isSome then insertNew t d else insertNew t (defsInsert it.key it.v d).2

theorem insertNew_sorted : ∀ (items : List Item) (d : Defs), DefsSorted d → DefsSorted (insertNew items d)
  | [], _, h => h
  | it :: t, d, h => by
    simp only [insertNew]
    split
    · exact insertNew_sorted t d h
    · exact insertNew_sorted t _ (defsInsert_sorted it.key it.v d h)

theorem defsGet_insertNew_other (k : ObjId) : ∀ (items : List Item) (d : Defs),
    (∀ it ∈ items, it.key ≠ k) → defsGet k (insertNew items d) = defsGet k d
  | [], _, _ => rfl
  | it :: t, d, h => by
    have ht : ∀ x ∈ t, x.key ≠ k := fun x hx => h x (List.mem_cons_of_mem _ hx)
    simp only [insertNew]
    split
    · exact defsGet_insertNew_other k t d ht
    · rw [defsGet_insertNew_other k t _ ht]
      exact defsGet_insert_other it.key k it.v d (fun hk => h it List.mem_cons_self hk.symm)

/-- a binding present before the pass is never replaced -/
theorem defsGet_insertNew_old (k : ObjId) (v0 : Located Obj) : ∀ (items : List Item) (d : Defs),
    defsGet k d = some v0 → defsGet k (insertNew items d) = some v0
  | [], _, h => h
  | it :: t, d, h => by
    simp only [insertNew]
    split
    · exact defsGet_insertNew_old k v0 t d h
    · rename_i hn
      apply defsGet_insertNew_old k v0 t
      rw [defsGet_insert_other it.key k it.v d (fun hk => hn (by rw [← hk, h]; rfl))]
      exact h

theorem defsGet_insertNew_mem : ∀ (items : List Item) (d : Defs) (it : Item),
    (items.map Item.key).Nodup → it ∈ items → defsGet it.key d = none →
    defsGet it.key (insertNew items d) = some it.v
  | [], _, _, _, h, _ => by cases h
  | x :: t, d, it, hnd, h, hn => by
    simp only [List.map_cons, List.nodup_cons] at hnd
    simp only [insertNew]
    rcases List.mem_cons.mp h with rfl | hin
    · rw [hn]
      simp only [Option.isSome_none, Bool.false_eq_true, if_false]
      rw [defsGet_insertNew_other it.key t _ (fun y hy hk => hnd.1 (by rw [← hk]; exact List.mem_map_of_mem hy))]
      exact defsGet_insert_same it.key it.v d
    · have hne : it.key ≠ x.key := fun hk => hnd.1 (by rw [← hk]; exact List.mem_map_of_mem hin)
      split
      · exact defsGet_insertNew_mem t d it hnd.2 hin hn
      · apply defsGet_insertNew_mem t _ it hnd.2 hin
        rw [defsGet_insert_other x.key it.key x.v d hne]
        exact hn

/-- the first pass over in-use entries, from ANY sorted context: an entry whose identifier is already
    bound is skipped, every other one is read and registered -/
theorem firstPass_from (cur max : Nat) (eol : Bool) (s : Bytes) :
    ∀ (items : List Item) (defs : Defs) (os : List ObjId) (sp : List (Nat × Nat × Nat)),
      DefsSorted defs → (items.map Item.key).Nodup →
      (∀ it ∈ items, defsGet it.key defs = none → it.ofs < s.length ∧ ReadsAt cur max eol s it) →
      firstPass (items.map Item.info) ⟨defs, cur, max, eol⟩ s os sp =
        (.ok (os, sp.reverse), ⟨insertNew items defs, cur, max, eol⟩)
  | [], _, _, _, _, _, _ => by simp [firstPass, insertNew]
  | it :: t, defs, os, sp, hs, hnd, hread => by
    simp only [List.map_cons, List.nodup_cons] at hnd
    cases hg : defsGet it.key defs with
    | some v0 =>
      have hg' : defsGet (it.id, it.gen) defs = some v0 := hg
      simp only [List.map_cons, Item.info, firstPass, hg', Option.isSome_some, if_true, insertNew, hg]
      exact firstPass_from cur max eol s t defs os sp hs hnd.2 (fun x hx => hread x (List.mem_cons_of_mem _ hx))
    | none =>
      obtain ⟨hlt, hr⟩ := hread it List.mem_cons_self hg
      obtain ⟨a, e, hp⟩ := hr defs hs hg
      have hg' : defsGet (it.id, it.gen) defs = none := hg
      simp only [List.map_cons, Item.info, firstPass, hg', Option.isSome_none, Bool.false_eq_true, if_false, hlt,
        decide_true, Bool.not_true, hp, bne_self_eq_false, insertNew, hg]
      apply firstPass_from cur max eol s t _ os sp (defsInsert_sorted it.key it.v defs hs) hnd.2
      intro x hx
      rw [defsGet_insert_other it.key x.key it.v defs
        (fun hk => hnd.1 (by rw [← hk]; exact List.mem_map_of_mem hx))]
      exact hread x (List.mem_cons_of_mem _ hx)

/-- **stage_from** (stage: direct objects, arbitrary starting context).  `parse_objects` started in a context that
    already binds `defs0` (sorted, as every `BTreeMap` is), on in-use entries with pairwise distinct identifiers:
    if every entry NOT yet bound lies in the file and holds an object that reads as the entry says, then the load
    ends without rejection and (a) every such entry is bound to the value written at its offset, (b) an identifier
    no entry names keeps what `defs0` said (in particular stays undefined), (c) every binding of `defs0` survives -
    an entry for an identifier already bound is skipped, never re-read.  The infos are `items.map Item.info`, i.e.
    in-file infos only: `obj_streams` is empty and the object-stream pass does nothing. -/
theorem stage_from (hofs : Nat) (enc : Bool) (s : Bytes) (defs0 : Defs) (hs0 : DefsSorted defs0)
    (items : List Item) (hnd : (items.map Item.key).Nodup)
    (hread : ∀ it ∈ items, defsGet it.key defs0 = none → it.ofs < s.length ∧ ReadsAt 0 50 false s it) :
    ∃ defs, parseObjects hofs ⟨⟨defs0, 0, 50, false⟩, enc⟩ (items.map Item.info) s = .ok defs ∧
      (∀ it ∈ items, defsGet it.key defs0 = none → ObjStm.defsGet it.key defs = some it.v.val) ∧
      (∀ k, (∀ it ∈ items, it.key ≠ k) → ObjStm.defsGet k defs = (defsGet k defs0).map (·.val)) ∧
      (∀ k v0, defsGet k defs0 = some v0 → ObjStm.defsGet k defs = some v0.val) := by
  have hfp := firstPass_from 0 50 false s items defs0 [] [] hs0 hnd hread
  refine ⟨valDefs (insertNew items defs0), ?_, ?_, ?_, ?_⟩
  · unfold parseObjects
    show (match firstPass (items.map Item.info) ⟨defs0, 0, 50, false⟩ s [] [] with
      | (.panic p, _) => _ | (.reject, _) => _ | (.ok (os, sp), c1) => _) = _
    rw [hfp]
    simp [secondPass, definedStreams, objStmPass]
  · intro it hit hn
    rw [valDefs_get, defsGet_insertNew_mem items defs0 it hnd hit hn]
    rfl
  · intro k hk
    rw [valDefs_get, defsGet_insertNew_other k items defs0 hk]
  · intro k v0 h0
    rw [valDefs_get, defsGet_insertNew_old k v0 items defs0 h0]
    rfl


/-! ## (2) from the entries collected along the /Prev chain to the final context -/

/-- the in-use entries, in order, each with the value `val` assigns to (number, generation, offset) -/
def itemsOf (val : Nat → Nat → Nat → Located Obj) : List Xref.Ent → List Item
  | [] => []
  | e :: t =>
    match e.st with
    | .inUse o => ⟨e.obj, e.gen, o, val e.obj e.gen o⟩ :: itemsOf val t
    | _ => itemsOf val t

/-- without in-stream entries `info_from_xref_entries` yields exactly the in-file infos of the in-use entries -/
theorem infoOf_eq_items (val : Nat → Nat → Nat → Located Obj) : ∀ X : List Xref.Ent,
    (∀ e ∈ X, ∀ a b, e.st ≠ .inStream a b) → infoOf X = (itemsOf val X).map Item.info
  | [], _ => rfl
  | e :: t, h => by
    have ih := infoOf_eq_items val t (fun x hx => h x (List.mem_cons_of_mem _ hx))
    unfold infoOf itemsOf
    cases hst : e.st with
    | free n => simpa using ih
    | inUse o => simp [ih, Item.info]
    | inStream a b => exact absurd hst (h e List.mem_cons_self a b)

theorem mem_itemsOf (val : Nat → Nat → Nat → Located Obj) (it : Item) : ∀ X : List Xref.Ent,
    it ∈ itemsOf val X ↔ ∃ e ∈ X, e.st = .inUse it.ofs ∧ it = ⟨e.obj, e.gen, it.ofs, val e.obj e.gen it.ofs⟩
  | [] => by simp [itemsOf]
  | e :: t => by
    have ih := mem_itemsOf val it t
    unfold itemsOf
    cases hst : e.st with
    | free n => simp [ih, hst]
    | inStream a b => simp [ih, hst]
    | inUse o =>
      simp only [List.mem_cons, ih, exists_eq_or_imp, hst, Xref.Status.inUse.injEq]
      constructor
      · rintro (h | h)
        · left; subst h; exact ⟨rfl, rfl⟩
        · right; exact h
      · rintro (⟨h1, h2⟩ | h)
        · left; rw [h2, h1]
        · right; exact h

theorem itemsOf_keys_sublist (val : Nat → Nat → Nat → Located Obj) : ∀ X : List Xref.Ent,
    ((itemsOf val X).map Item.key).Sublist (X.map keyOf)
  | [] => List.Sublist.slnil
  | e :: t => by
    have ih := itemsOf_keys_sublist val t
    unfold itemsOf
    cases hst : e.st with
    | free n => exact List.Sublist.cons _ ih
    | inStream a b => exact List.Sublist.cons _ ih
    | inUse o => exact List.Sublist.cons_cons _ ih

/-- the merged table holds every (number, generation) at most once -/
theorem dedupKey_keys_nodup (L : List Xref.Ent) : ((dedupKey L []).map keyOf).Nodup := by
  have := (addEnts_keys L [] [] (by simp) (by simp)).2
  rw [addEnts_snd] at this
  simpa using this

/-- every key of the concatenated sections is represented in the merged table -/
theorem dedupKey_covers (L : List Xref.Ent) (a : Xref.Ent) (ha : a ∈ L) :
    ∃ a' ∈ dedupKey L [], keyOf a' = keyOf a := by
  cases hf : L.find? (fun x => keyOf x == keyOf a) with
  | none =>
    have := List.find?_eq_none.mp hf a ha
    simp at this
  | some a' =>
    have hk : keyOf a' = keyOf a := by simpa using List.find?_some hf
    refine ⟨a', (mem_dedupKey a' L []).mpr ⟨by simp, ?_⟩, hk⟩
    rw [hk]; exact hf

/-- stable generations of the merged table are stable generations of the whole chain -/
theorem stableGen_of_merged (L : List Xref.Ent) (h : StableGen (dedupKey L [])) : StableGen L := by
  intro a ha b hb hab
  obtain ⟨a', ha', hka⟩ := dedupKey_covers L a ha
  obtain ⟨b', hb', hkb⟩ := dedupKey_covers L b hb
  simp only [keyOf, Prod.mk.injEq] at hka hkb
  have := h a' ha' b' hb' (by rw [hka.1, hkb.1, hab])
  rw [← hka.2, ← hkb.2, this]


/-- the keys of the items built from a merged table are pairwise distinct -/
theorem itemsOf_nodup (val : Nat → Nat → Nat → Located Obj) (L : List Xref.Ent) :
    ((itemsOf val (dedupKey L [])).map Item.key).Nodup :=
  List.Nodup.sublist (itemsOf_keys_sublist val _) (dedupKey_keys_nodup L)

/-- with stable generations, the merged table keeps per object NUMBER exactly the newest entry of the chain -/
theorem newest_of_merged (X L : List Xref.Ent) (hX : X = dedupKey L []) (hstable : StableGen X) (n : Nat) :
    X.filter (·.obj == n) = (L.find? (·.obj == n)).toList := by
  rw [hX]
  exact stable_gen_first_per_number L (stableGen_of_merged L (hX ▸ hstable)) n

/-- what "exactly the newest entry of number `n` survives" says about the items to load -/
theorem items_of_number (val : Nat → Nat → Nat → Located Obj) (X L : List Xref.Ent) (n : Nat)
    (hfil : X.filter (·.obj == n) = (L.find? (·.obj == n)).toList) (it : Item)
    (hit : it ∈ itemsOf val X) (hid : it.id = n) :
    ∃ e, L.find? (·.obj == n) = some e ∧ e.st = .inUse it.ofs ∧ it.gen = e.gen := by
  obtain ⟨e, heX, hst, hitq⟩ := (mem_itemsOf val it X).mp hit
  have hobj : e.obj = n := by rw [← hid, hitq]
  have hm : e ∈ X.filter (·.obj == n) := by simp [List.mem_filter, heX, hobj]
  rw [hfil] at hm
  cases hf : L.find? (·.obj == n) with
  | none => rw [hf] at hm; simp at hm
  | some e' =>
    rw [hf] at hm
    have : e = e' := by simpa using hm
    subst this
    exact ⟨e, rfl, hst, by rw [hitq]⟩

/-- **newest_wins_in_context_partial.**  `get_xref_info` from the empty context returned the table `X` and left the
    context `defs0` (the cross-reference stream objects it registered); `X` has no in-stream entry and one
    generation per number; every in-use entry of `X` not bound in `defs0` lies in the file and holds an object that
    reads as `(obj, gen) -> val obj gen ofs`.  Then `parse_objects` succeeds and the final context obeys
    "newest revision wins", stated against the sections `infos` of the /Prev chain (newest first), `e` being the
    first = NEWEST entry for the number `n` in their concatenation.
    `_partial`: object streams, changing generations (known findings #30, #29) and objects that only load in the
    second pass (forward-referenced /Length: `ReadsAt` fails) are excluded by the hypotheses. -/
theorem newest_wins_in_context_partial (hofs : Nat) (s : Bytes) (start : Nat) (X : List Xref.Ent) (r : Obj)
    (st' : St) (defs0 : Defs) (val : Nat → Nat → Nat → Located Obj)
    (h : getXrefInfo ⟨Ctx.new 50, false⟩ s start = (.ok (X, r), st'))
    (hctx : st'.ctx = ⟨defs0, 0, 50, false⟩) (hs0 : DefsSorted defs0)
    (hnostm : ∀ e ∈ X, ∀ a b, e.st ≠ .inStream a b)
    (hstable : StableGen X)
    (hread : ∀ e ∈ X, ∀ o, e.st = .inUse o → defsGet (e.obj, e.gen) defs0 = none →
      o < s.length ∧ ReadsAt 0 50 false s ⟨e.obj, e.gen, o, val e.obj e.gen o⟩) :
    ∃ infos : List SectInfo, Chain s ⟨Ctx.new 50, false⟩ start [] infos ∧
      X = dedupKey (infos.map (·.1)).flatten [] ∧
      ∃ defs, parseObjects hofs st' (infoOf X) s = .ok defs ∧
        -- the newest entry of `n` is free: `n` is not defined (under any generation)
        (∀ n e nx, (infos.map (·.1)).flatten.find? (·.obj == n) = some e → e.st = .free nx →
            ∀ g, defsGet (n, g) defs0 = none → ObjStm.defsGet (n, g) defs = none) ∧
        -- the newest entry of `n` is in use at `o`: bound to what is written THERE, no stale generation
        (∀ n e o, (infos.map (·.1)).flatten.find? (·.obj == n) = some e → e.st = .inUse o →
            (defsGet (n, e.gen) defs0 = none → ObjStm.defsGet (n, e.gen) defs = some (val n e.gen o).val) ∧
            (∀ g, g ≠ e.gen → defsGet (n, g) defs0 = none → ObjStm.defsGet (n, g) defs = none)) ∧
        -- a number no section mentions keeps whatever the context held before
        (∀ n, (infos.map (·.1)).flatten.find? (·.obj == n) = none →
            ∀ g, ObjStm.defsGet (n, g) defs = (defsGet (n, g) defs0).map (·.val)) ∧
        -- what walking the chain registered (cross-reference stream objects) is still there
        (∀ k v0, defsGet k defs0 = some v0 → ObjStm.defsGet k defs = some v0.val) := by
  obtain ⟨infos, hc, hX, hnew⟩ := C04.merge_is_newest_wins_partial _ s start X r st' h
  have hst : StableGen (infos.map (·.1)).flatten := stableGen_of_merged _ (hX ▸ hstable)
  obtain ⟨hfil, -, -⟩ := hnew hst
  refine ⟨infos, hc, hX, ?_⟩
  generalize (infos.map (·.1)).flatten = L at hX hfil
  obtain ⟨ctx, enc⟩ := st'
  simp only at hctx
  subst hctx
  have hnd : ((itemsOf val X).map Item.key).Nodup := by rw [hX]; exact itemsOf_nodup val L
  obtain ⟨defs, hpo, hA, hB, hC⟩ := stage_from hofs enc s defs0 hs0 (itemsOf val X) hnd (by
    intro it hit hn
    obtain ⟨e, heX, hst, hitq⟩ := (mem_itemsOf val it X).mp hit
    have hn' : defsGet (e.obj, e.gen) defs0 = none := by rw [hitq] at hn; exact hn
    have := hread e heX it.ofs hst hn'
    rw [hitq]; exact this)
  rw [← infoOf_eq_items val X hnostm] at hpo
  refine ⟨defs, hpo, ?_, ?_, ?_, hC⟩
  · intro n e nx hf hfree g hg
    rw [hB (n, g), hg]; · rfl
    intro it hit hk
    have hid : it.id = n := congrArg Prod.fst hk
    obtain ⟨e', hf', hst', _⟩ := items_of_number val X L n (hfil n) it hit hid
    rw [hf] at hf'; cases hf'
    rw [hfree] at hst'; cases hst'
  · intro n e o hf huse
    have hm : e ∈ X.filter (·.obj == n) := by rw [hfil n, hf]; simp
    obtain ⟨heX, hen⟩ := List.mem_filter.mp hm
    have hen : e.obj = n := by simpa using hen
    constructor
    · intro hg
      have hit : (⟨e.obj, e.gen, o, val e.obj e.gen o⟩ : Item) ∈ itemsOf val X :=
        (mem_itemsOf val _ X).mpr ⟨e, heX, huse, rfl⟩
      have := hA _ hit (by rw [hen]; exact hg)
      rw [hen] at this
      exact this
    · intro g hne hg
      rw [hB (n, g), hg]; · rfl
      intro it hit hk
      have hid : it.id = n := congrArg Prod.fst hk
      obtain ⟨e', hf', _, hgen⟩ := items_of_number val X L n (hfil n) it hit hid
      rw [hf] at hf'; cases hf'
      exact hne (by rw [← hgen]; exact (congrArg Prod.snd hk).symm)
  · intro n hf g
    apply hB (n, g)
    intro it hit hk
    have hid : it.id = n := congrArg Prod.fst hk
    obtain ⟨e', hf', _, _⟩ := items_of_number val X L n (hfil n) it hit hid
    rw [hf] at hf'; cases hf'


/-! ## (3) chains of classic tables: nothing is registered while walking -/

/-- **newest_wins_classic_partial.**  The same when walking the chain registered nothing - the case of classic
    tables (`classic_chain_ctx`): the final context defines exactly the newest in-use entries. -/
theorem newest_wins_classic_partial (hofs : Nat) (s : Bytes) (start : Nat) (X : List Xref.Ent) (r : Obj)
    (st' : St) (val : Nat → Nat → Nat → Located Obj)
    (h : getXrefInfo ⟨Ctx.new 50, false⟩ s start = (.ok (X, r), st'))
    (hctx : st'.ctx = Ctx.new 50)
    (hnostm : ∀ e ∈ X, ∀ a b, e.st ≠ .inStream a b)
    (hstable : StableGen X)
    (hread : ∀ e ∈ X, ∀ o, e.st = .inUse o →
      o < s.length ∧ ReadsAt 0 50 false s ⟨e.obj, e.gen, o, val e.obj e.gen o⟩) :
    ∃ infos : List SectInfo, Chain s ⟨Ctx.new 50, false⟩ start [] infos ∧
      X = dedupKey (infos.map (·.1)).flatten [] ∧
      ∃ defs, parseObjects hofs st' (infoOf X) s = .ok defs ∧
        (∀ n e nx, (infos.map (·.1)).flatten.find? (·.obj == n) = some e → e.st = .free nx →
            ∀ g, ObjStm.defsGet (n, g) defs = none) ∧
        (∀ n e o, (infos.map (·.1)).flatten.find? (·.obj == n) = some e → e.st = .inUse o →
            ObjStm.defsGet (n, e.gen) defs = some (val n e.gen o).val ∧
            ∀ g, g ≠ e.gen → ObjStm.defsGet (n, g) defs = none) ∧
        (∀ n, (infos.map (·.1)).flatten.find? (·.obj == n) = none → ∀ g, ObjStm.defsGet (n, g) defs = none) := by
  obtain ⟨infos, hc, hX, defs, hpo, h1, h2, h3, _⟩ :=
    newest_wins_in_context_partial hofs s start X r st' [] val h hctx List.Pairwise.nil hnostm hstable
      (fun e he o ho _ => hread e he o ho)
  refine ⟨infos, hc, hX, defs, hpo, ?_, ?_, ?_⟩
  · intro n e nx hf hfree g; exact h1 n e nx hf hfree g rfl
  · intro n e o hf huse
    exact ⟨(h2 n e o hf huse).1 rfl, fun g hg => (h2 n e o hf huse).2 g hg rfl⟩
  · intro n hf g; exact h3 n hf g

/-- `TrailerP` gives the context back unchanged (the depth counter returns to its start) -/
theorem trailerP_ctx (c : Ctx) (s : Bytes) (i : Nat) (hc : c.cur ≤ c.max) : (trailerP c s i).2 = c := by
  unfold trailerP
  split
  · rfl
  · split
    · rfl
    · rfl
    · rename_i u j1 heq
      have hd := (LoaderNoPanic.dictP_good c.cur c.max s j1 hc).2
      revert hd
      generalize dictP c.cur c.max s j1 = r
      obtain ⟨⟨r, k⟩, cur'⟩ := r
      intro hd
      simp only at hd
      subst hd
      cases r <;> rfl

/-- the section at `i` is a classic table (`XrefSectP` accepts it) whose trailer - if the scan finds one and it
    parses - has no /XRefStm: reading it never calls `parse_xref_stream` -/
def ClassicAt (s : Bytes) (i : Nat) : Prop :=
  ∃ xrs c, Xref.xrefSectP s i = (.ok xrs, c) ∧
    ∀ k d c1 ctx1, scanFwd kwTrailer (s.drop c) = some k →
      trailerP (Ctx.new 50) s (c + k) = ((.ok d, c1), ctx1) → ObjStm.getUsize d kXRefStm = none

theorem firstInfo_classic (s : Bytes) (i : Nat) (enc : Bool) (hcl : ClassicAt s i) :
    ((firstInfo ⟨Ctx.new 50, enc⟩ s i).2.2).ctx = Ctx.new 50 := by
  obtain ⟨xrs, c, hx, htr⟩ := hcl
  unfold firstInfo parseXrefSection
  rw [hx]
  simp only
  cases hsc : scanFwd kwTrailer (s.drop c) with
  | none => rfl
  | some k =>
    simp only
    have hctx := trailerP_ctx (Ctx.new 50) s (c + k) (by decide)
    rcases ht : trailerP (Ctx.new 50) s (c + k) with ⟨⟨r, c1⟩, ctx1⟩
    rw [ht] at hctx
    simp only at hctx
    subst hctx
    cases r with
    | panic p => rfl
    | err e => rfl
    | ok d =>
      simp only
      rw [htr k d c1 _ hsc ht]


/-- the offsets of the sections of a chain: the start, then every /Prev -/
def offsets (start : Nat) (infos : List SectInfo) : List Nat := start :: infos.filterMap (·.2.2)

/-- walking a chain of classic tables leaves the context as it was -/
theorem xrefLoop_classic_ctx (s : Bytes) (f : Nat) : ∀ (st : St) (next : Nat) (cs : List Nat) (ids : List (Nat × Nat))
    (xs : List Xref.Ent) (root : Option Obj) (X : List Xref.Ent) (r : Obj) (st' : St) (infos : List SectInfo),
    xrefLoop f st s next cs ids xs root = (.ok (X, r), st') → Chain s st next cs infos →
    st.ctx = Ctx.new 50 → (∀ i ∈ offsets next infos, ClassicAt s i) → st'.ctx = Ctx.new 50 := by
  induction f with
  | zero => intro st next cs ids xs root X r st' infos h; simp only [xrefLoop] at h; cases h
  | succ f ih =>
    intro st next cs ids xs root X r st' infos h hch hctx hcl
    obtain ⟨_, _, ents, rt, prev, c, st2, r0, hfi, _, hcase⟩ := xrefLoop_ok_inv h
    have hst2 : st2.ctx = Ctx.new 50 := by
      obtain ⟨ctx, enc⟩ := st
      simp only at hctx
      subst hctx
      have := firstInfo_classic s next enc (hcl next List.mem_cons_self)
      rw [hfi] at this
      exact this
    cases hch with
    | last _ _ hfi' =>
      rw [hfi] at hfi'
      simp only [Prod.mk.injEq, Out.ok.injEq, Option.some.injEq] at hfi'
      rcases hcase with ⟨_, _, _, hst'⟩ | ⟨p, hp, _⟩
      · rw [hst']; exact hst2
      · rw [hp] at hfi'; simp at hfi'
    | more _ _ hfi' hrest =>
      rw [hfi] at hfi'
      simp only [Prod.mk.injEq, Out.ok.injEq, Option.some.injEq] at hfi'
      obtain ⟨⟨_, _, hprev⟩, _, hst⟩ := hfi'
      rcases hcase with ⟨hp, _⟩ | ⟨p', hp, hrec⟩
      · rw [hp] at hprev; cases hprev
      · rw [hp] at hprev
        cases hprev
        subst hst
        apply ih _ _ _ _ _ _ _ _ _ _ hrec hrest hst2
        intro i hi
        apply hcl i
        simp only [offsets, List.filterMap_cons, List.mem_cons] at hi ⊢
        right; exact hi

theorem classic_chain_ctx (s : Bytes) (start : Nat) (enc : Bool) (X : List Xref.Ent) (r : Obj) (st' : St)
    (infos : List SectInfo)
    (h : getXrefInfo ⟨Ctx.new 50, enc⟩ s start = (.ok (X, r), st'))
    (hch : Chain s ⟨Ctx.new 50, enc⟩ start [] infos)
    (hcl : ∀ i ∈ offsets start infos, ClassicAt s i) : st'.ctx = Ctx.new 50 :=
  xrefLoop_classic_ctx s _ _ _ _ _ _ _ _ _ _ infos h hch rfl hcl

/-- a chain is determined by where it starts -/
theorem chain_unique (s : Bytes) {st : St} {next : Nat} {cs : List Nat} {infos infos' : List SectInfo}
    (h : Chain s st next cs infos) (h' : Chain s st next cs infos') : infos = infos' := by
  induction h generalizing infos' with
  | last _ _ hfi =>
    cases h' with
    | last _ _ hfi' =>
      rw [hfi] at hfi'
      simp only [Prod.mk.injEq, Out.ok.injEq, Option.some.injEq] at hfi'
      obtain ⟨⟨h1, h2, _⟩, _, _⟩ := hfi'
      rw [h1, h2]
    | more _ _ hfi' _ =>
      rw [hfi] at hfi'
      simp at hfi'
  | more _ _ hfi _ ih =>
    cases h' with
    | last _ _ hfi' =>
      rw [hfi] at hfi'
      simp at hfi'
    | more _ _ hfi' hrest' =>
      rw [hfi] at hfi'
      simp only [Prod.mk.injEq, Out.ok.injEq, Option.some.injEq] at hfi'
      obtain ⟨⟨h1, h2, h3⟩, _, h4⟩ := hfi'
      subst h1 h2 h3 h4
      rw [ih hrest']

/-! ### a classic table has no in-stream entries -/

def NoStm (e : Xref.Ent) : Prop := ∀ a b, e.st ≠ .inStream a b

theorem andThen_ok_inv {α β : Type} (r : Xref.Step α) (f : α → Nat → Xref.Step β) (v : β) (c : Nat)
    (h : Xref.andThen r f = (.ok v, c)) : ∃ a c1, r = (.ok a, c1) ∧ f a c1 = (.ok v, c) := by
  obtain ⟨r, c1⟩ := r
  cases r with
  | ok a => exact ⟨a, c1, rfl, h⟩
  | err k => simp [Xref.andThen] at h
  | panic p => simp [Xref.andThen] at h

theorem entsLoop_noStm : ∀ (n obj : Nat) (s : Bytes) (c : Nat) (l : List (Located Xref.Ent)) (c' : Nat),
    Xref.entsLoop n obj s c = (.ok l, c') → ∀ e ∈ l, NoStm e.val := by
  intro n
  induction n with
  | zero => intro obj s c l c' h; simp [Xref.entsLoop] at h; obtain ⟨rfl, rfl⟩ := h; simp
  | succ n ih =>
    intro obj s c l c' h
    simp only [Xref.entsLoop] at h
    split at h
    · simp at h
    · cases hr : Xref.xrefEntP obj s c with
      | mk r c1 =>
        cases r with
        | ok e =>
          simp only [hr] at h
          cases hl : Xref.entsLoop n (obj + 1) s c1 with
          | mk r2 c2 =>
            cases r2 with
            | ok es =>
              simp only [hl] at h
              simp only [Prod.mk.injEq, Res.ok.injEq] at h
              obtain ⟨rfl, rfl⟩ := h
              obtain ⟨x, _, he, _⟩ := C13.entry_ok_inv obj s c e c1 hr
              intro e' he'
              rcases List.mem_cons.mp he' with rfl | he'
              · intro a b
                rw [he]
                simp only [XrefSpec.mkEnt]
                split <;> simp
              · exact ih (obj + 1) s c1 es c2 hl e' he'
            | err k => simp [hl] at h
            | panic p => simp [hl] at h
        | err k => simp [hr] at h
        | panic p => simp [hr] at h

theorem subSect_noStm (s : Bytes) (i : Nat) (ss : Located Xref.SubSect) (c : Nat)
    (h : Xref.xrefSubSectP s i = (.ok ss, c)) : ∀ e ∈ ss.val.ents, NoStm e.val := by
  unfold Xref.xrefSubSectP at h
  obtain ⟨_, c0, _, h⟩ := andThen_ok_inv _ _ _ _ h
  obtain ⟨xs, c1, _, h⟩ := andThen_ok_inv _ _ _ _ h
  split at h
  · simp at h
  obtain ⟨_, c2, _, h⟩ := andThen_ok_inv _ _ _ _ h
  obtain ⟨xc, c3, _, h⟩ := andThen_ok_inv _ _ _ _ h
  split at h
  · simp at h
  obtain ⟨_, c4, _, h⟩ := andThen_ok_inv _ _ _ _ h
  obtain ⟨es, c5, hes, h⟩ := andThen_ok_inv _ _ _ _ h
  simp only [Prod.mk.injEq, Res.ok.injEq] at h
  obtain ⟨rfl, _⟩ := h
  exact entsLoop_noStm _ _ _ _ _ _ hes

theorem sectLoop_noStm : ∀ (f : Nat) (s : Bytes) (c : Nat) (first : Bool) (l : List (Located Xref.SubSect)) (c' : Nat),
    Xref.sectLoop f s c first = (.ok l, c') → ∀ ss ∈ l, ∀ e ∈ ss.val.ents, NoStm e.val := by
  intro f
  induction f with
  | zero => intro s c first l c' h; simp [Xref.sectLoop] at h
  | succ f ih =>
    intro s c first l c' h
    simp only [Xref.sectLoop] at h
    split at h
    · rename_i cm _
      cases hss : Xref.xrefSubSectP s cm with
      | mk r c1 =>
        cases r with
        | ok ss =>
          simp only [hss] at h
          cases hl : Xref.sectLoop f s c1 false with
          | mk r2 c2 =>
            cases r2 with
            | ok l' =>
              simp only [hl] at h
              simp only [Prod.mk.injEq, Res.ok.injEq] at h
              obtain ⟨rfl, rfl⟩ := h
              intro ss' hss'
              rcases List.mem_cons.mp hss' with rfl | hss'
              · exact subSect_noStm s cm _ c1 hss
              · exact ih s c1 false l' c2 hl ss' hss'
            | err k => simp [hl] at h
            | panic p => simp [hl] at h
        | err k => simp [hss] at h
        | panic p => simp [hss] at h
    · simp only [Prod.mk.injEq, Res.ok.injEq] at h
      obtain ⟨rfl, _⟩ := h
      simp
    · simp at h
    · simp at h

theorem xrefSectP_noStm (s : Bytes) (i : Nat) (xrs : Located (List (Located Xref.SubSect))) (c : Nat)
    (h : Xref.xrefSectP s i = (.ok xrs, c)) : ∀ e ∈ Xref.sectEnts xrs.val, NoStm e := by
  unfold Xref.xrefSectP at h
  obtain ⟨_, c0, _, h⟩ := andThen_ok_inv _ _ _ _ h
  obtain ⟨_, c1, _, h⟩ := andThen_ok_inv _ _ _ _ h
  obtain ⟨_, c2, _, h⟩ := andThen_ok_inv _ _ _ _ h
  obtain ⟨l, c3, hl, h⟩ := andThen_ok_inv _ _ _ _ h
  simp only [Prod.mk.injEq, Res.ok.injEq] at h
  obtain ⟨rfl, _⟩ := h
  intro e he
  simp only [Xref.sectEnts, List.mem_flatMap, List.mem_map] at he
  obtain ⟨ss, hss, e', he', rfl⟩ := he
  exact sectLoop_noStm _ _ _ _ _ _ hl ss hss e' he'


/-- reading a classic section yields the table's own entries only -/
theorem firstInfo_classic_ents (s : Bytes) (i : Nat) (enc : Bool) (hcl : ClassicAt s i)
    (ents : List Xref.Ent) (rt : Option Obj) (prev : Option Nat) (c : Nat) (st2 : St)
    (h : firstInfo ⟨Ctx.new 50, enc⟩ s i = (.ok (some (ents, rt, prev)), c, st2)) : ∀ e ∈ ents, NoStm e := by
  obtain ⟨xrs, c0, hx, htr⟩ := hcl
  have hno := xrefSectP_noStm s i xrs c0 hx
  unfold firstInfo parseXrefSection at h
  rw [hx] at h
  simp only at h
  cases hsc : scanFwd kwTrailer (s.drop c0) with
  | none =>
    rw [hsc] at h
    simp only [Prod.mk.injEq, Out.ok.injEq, Option.some.injEq] at h
    obtain ⟨⟨rfl, _⟩, _⟩ := h
    exact hno
  | some k =>
    rw [hsc] at h
    simp only at h
    rcases ht : trailerP (Ctx.new 50) s (c0 + k) with ⟨⟨r, c1⟩, ctx1⟩
    rw [ht] at h
    cases r with
    | panic p => simp at h
    | err e =>
      simp only [Prod.mk.injEq, Out.ok.injEq, Option.some.injEq] at h
      obtain ⟨⟨rfl, _⟩, _⟩ := h
      exact hno
    | ok d =>
      simp only at h
      rw [htr k d c1 _ hsc ht] at h
      simp only [Prod.mk.injEq, Out.ok.injEq, Option.some.injEq] at h
      obtain ⟨⟨rfl, _⟩, _⟩ := h
      exact hno

/-- a chain of classic tables carries no in-stream entry -/
theorem chain_classic_noStm (s : Bytes) {st : St} {next : Nat} {cs : List Nat} {infos : List SectInfo}
    (hch : Chain s st next cs infos) (hctx : st.ctx = Ctx.new 50)
    (hcl : ∀ i ∈ offsets next infos, ClassicAt s i) : ∀ e ∈ (infos.map (·.1)).flatten, NoStm e := by
  induction hch with
  | @last st next cs ents rt c st1 _ _ hfi =>
    obtain ⟨ctx, enc⟩ := st
    simp only at hctx
    subst hctx
    intro e he
    simp only [List.map_cons, List.map_nil, List.flatten_cons, List.flatten_nil, List.append_nil] at he
    exact firstInfo_classic_ents s next enc (hcl next List.mem_cons_self) _ _ _ _ _ hfi e he
  | @more st next cs ents rt p c st1 rest _ _ hfi _ ih =>
    obtain ⟨ctx, enc⟩ := st
    simp only at hctx
    subst hctx
    have h1 := firstInfo_classic s next enc (hcl next List.mem_cons_self)
    rw [hfi] at h1
    intro e he
    simp only [List.map_cons, List.flatten_cons, List.mem_append] at he
    rcases he with he | he
    · exact firstInfo_classic_ents s next enc (hcl next List.mem_cons_self) _ _ _ _ _ hfi e he
    · refine ih h1 ?_ e he
      intro i hi
      apply hcl i
      simp only [offsets, List.filterMap_cons, List.mem_cons] at hi ⊢
      right; exact hi

theorem mem_dedupKey_sub (L : List Xref.Ent) (e : Xref.Ent) (h : e ∈ dedupKey L []) : e ∈ L :=
  List.mem_of_find?_eq_some ((mem_dedupKey e L []).mp h).2


/-- **newest_wins_classic_chain_partial.**  For the chain `infos` the caller names: if every section it visits is a
    classic table without /XRefStm, the final context defines exactly the newest in-use entries.  Neither
    "nothing was registered" nor "no in-stream entry" is assumed: both are proved from `ClassicAt`. -/
theorem newest_wins_classic_chain_partial (hofs : Nat) (s : Bytes) (start : Nat) (X : List Xref.Ent) (r : Obj)
    (st' : St) (val : Nat → Nat → Nat → Located Obj) (infos : List SectInfo)
    (h : getXrefInfo ⟨Ctx.new 50, false⟩ s start = (.ok (X, r), st'))
    (hch : Chain s ⟨Ctx.new 50, false⟩ start [] infos)
    (hcl : ∀ i ∈ offsets start infos, ClassicAt s i)
    (hstable : StableGen X)
    (hread : ∀ e ∈ X, ∀ o, e.st = .inUse o →
      o < s.length ∧ ReadsAt 0 50 false s ⟨e.obj, e.gen, o, val e.obj e.gen o⟩) :
    X = dedupKey (infos.map (·.1)).flatten [] ∧
    ∃ defs, parseObjects hofs st' (infoOf X) s = .ok defs ∧
      (∀ n e nx, (infos.map (·.1)).flatten.find? (·.obj == n) = some e → e.st = .free nx →
          ∀ g, ObjStm.defsGet (n, g) defs = none) ∧
      (∀ n e o, (infos.map (·.1)).flatten.find? (·.obj == n) = some e → e.st = .inUse o →
          ObjStm.defsGet (n, e.gen) defs = some (val n e.gen o).val ∧
          ∀ g, g ≠ e.gen → ObjStm.defsGet (n, g) defs = none) ∧
      (∀ n, (infos.map (·.1)).flatten.find? (·.obj == n) = none → ∀ g, ObjStm.defsGet (n, g) defs = none) := by
  have hnostm : ∀ e ∈ X, ∀ a b, e.st ≠ .inStream a b := by
    obtain ⟨infos0, hc0, _, hX0⟩ := getXrefInfo_merges_chain _ s start X r st' h
    have := chain_unique s hc0 hch
    subst this
    intro e he
    exact chain_classic_noStm s hch rfl hcl e (mem_dedupKey_sub _ e (hX0 ▸ he))
  obtain ⟨infos', hc', hX, hrest⟩ := newest_wins_classic_partial hofs s start X r st' val h
    (classic_chain_ctx s start false X r st' infos h hch hcl) hnostm hstable hread
  have := chain_unique s hc' hch
  subst this
  exact ⟨hX, hrest⟩

/-! ## non-vacuity -/

set_option maxRecDepth 100000 in
theorem fs_head (defs : Defs) :
    indirectHead ⟨defs, 0, 50, false⟩ C04.freeStable 9 = ((.ok ⟨1, 0, ⟨.int 7, 17, 18⟩⟩, 18), ⟨defs, 0, 50, false⟩) := by
  rfl

set_option maxRecDepth 100000 in
theorem fs_reads : ReadsAt 0 50 false C04.freeStable ⟨1, 0, 9, ⟨.int 7, 17, 18⟩⟩ := by
  intro defs hs hn
  have hold : (defsInsert (1, 0) ⟨.int 7, 17, 18⟩ defs).1 = none := by
    have hn' : defsGet (1, 0) defs = none := hn
    rw [defsInsert_old (1, 0) ⟨.int 7, 17, 18⟩ defs hs, hn']
  refine ⟨9, 25, ?_⟩
  have hw : Prim.wsEOL true C04.freeStable 9 = (.ok ⟨(), 9, 9⟩, 9) := by rfl
  have hb : indirectBody ⟨defs, 0, 50, false⟩ C04.freeStable ⟨.int 7, 17, 18⟩ 18 = (.ok ⟨.int 7, 17, 18⟩, 18) := by rfl
  have hw2 : Prim.wsEOL true C04.freeStable 18 = (.ok ⟨(), 18, 19⟩, 19) := by rfl
  have he : Prim.exact kwEndobj C04.freeStable 19 = (true, 25) := by rfl
  unfold parseIndirect
  rw [hw]
  simp only []
  unfold indirectInternal
  rw [fs_head]
  simp only [hb]
  unfold indirectFinish
  rw [hw2]
  simp only [he]
  rcases hd : defsInsert (1, 0) ⟨.int 7, 17, 18⟩ defs with ⟨old, d⟩
  rw [hd] at hold
  simp only at hold
  subst hold
  simp [Item.key, hd]


/-- the table `get_xref_info` returns on `C04.freeStable` -/
def fsX : List Xref.Ent := [⟨2, 0, .free 0⟩, ⟨0, 65535, .free 0⟩, ⟨1, 0, .inUse 9⟩]

def walkIs (X : List Xref.Ent) (o : Out (List Xref.Ent × Obj) × St) : Bool :=
  match o with
  | (.ok (X', _), st') =>
    X' == X && st'.ctx.defs.isEmpty && st'.ctx.cur == 0 && st'.ctx.max == 50 && !st'.ctx.eol
  | _ => false

theorem walkIs_elim (X : List Xref.Ent) (o : Out (List Xref.Ent × Obj) × St) (h : walkIs X o = true) :
    ∃ r st', o = (.ok (X, r), st') ∧ st'.ctx = Ctx.new 50 := by
  obtain ⟨o, st'⟩ := o
  cases o with
  | reject => simp [walkIs] at h
  | panic p => simp [walkIs] at h
  | ok v =>
    obtain ⟨X', r⟩ := v
    obtain ⟨⟨defs, cur, max, eol⟩, enc⟩ := st'
    simp only [walkIs, Bool.and_eq_true, beq_iff_eq, List.isEmpty_iff, Bool.not_eq_true'] at h
    obtain ⟨⟨⟨⟨h1, h2⟩, h3⟩, h4⟩, h5⟩ := h
    subst h1 h2 h3 h4 h5
    exact ⟨r, _, rfl, rfl⟩

theorem fs_walk : walkIs fsX (getXrefInfo ⟨Ctx.new 50, false⟩ C04.freeStable 169) = true := by
  decide +kernel

/-- (1) on concrete bytes, from a NON-empty context: (1,0) is read and bound, (2,0) - already bound, its entry
    points at offset 0 where object 1 is written - is skipped and keeps its binding, (3,0) stays undefined -/
example : ∃ defs, parseObjects 0 ⟨⟨[((2, 0), ⟨.null, 0, 0⟩)], 0, 50, false⟩, false⟩ [.inFile 1 0 0, .inFile 2 0 0]
      C03.tinyObj = .ok defs ∧
    ObjStm.defsGet (1, 0) defs = some (.int 7) ∧ ObjStm.defsGet (2, 0) defs = some .null ∧
    ObjStm.defsGet (3, 0) defs = none := by
  obtain ⟨defs, h1, h2, h3, h4⟩ := stage_from 0 false C03.tinyObj [((2, 0), ⟨.null, 0, 0⟩)]
    (by simp [DefsSorted]) [⟨1, 0, 0, ⟨.int 7, 8, 9⟩⟩, ⟨2, 0, 0, ⟨.null, 0, 0⟩⟩] (by simp [Item.key])
    (by
      intro it hit hn
      simp only [List.mem_cons, List.not_mem_nil, or_false] at hit
      rcases hit with rfl | rfl
      · exact ⟨by decide, C03.tiny_reads⟩
      · simp [Item.key, defsGet] at hn)
  refine ⟨defs, h1, h2 _ List.mem_cons_self rfl, h4 (2, 0) _ rfl, ?_⟩
  rw [h3 (3, 0) (by intro it hit; simp at hit; rcases hit with rfl | rfl <;> simp [Item.key])]
  rfl

/-- (2)/(3) end to end on `C04.freeStable` (base revision: 1 = 7, 2 = 8; update: `2 0 f`): every hypothesis of
    `newest_wins_classic_partial` holds, and its conclusion says: 1 is bound to the 7 written at offset 9, the
    freed 2 is undefined under every generation, and so is the never-mentioned 5 -/
example : ∃ X r st' defs, getXrefInfo ⟨Ctx.new 50, false⟩ C04.freeStable 169 = (.ok (X, r), st') ∧
    parseObjects 0 st' (infoOf X) C04.freeStable = .ok defs ∧
    ObjStm.defsGet (1, 0) defs = some (.int 7) ∧ (∀ g, ObjStm.defsGet (2, g) defs = none) ∧
    (∀ g, ObjStm.defsGet (5, g) defs = none) := by
  obtain ⟨r, st', hw, hctx⟩ := walkIs_elim _ _ fs_walk
  have hstable : StableGen fsX := by
    intro a ha b hb
    simp only [fsX, List.mem_cons, List.not_mem_nil, or_false] at ha hb
    rcases ha with rfl | rfl | rfl <;> rcases hb with rfl | rfl | rfl <;> simp
  obtain ⟨infos, _, hX, defs, hpo, h1, h2, h3⟩ := newest_wins_classic_partial 0 C04.freeStable 169 fsX r st'
    (fun _ _ _ => ⟨.int 7, 17, 18⟩) hw hctx
    (by
      intro e he a b
      simp only [fsX, List.mem_cons, List.not_mem_nil, or_false] at he
      rcases he with rfl | rfl | rfl <;> simp)
    hstable
    (by
      intro e he o ho
      simp only [fsX, List.mem_cons, List.not_mem_nil, or_false] at he
      rcases he with rfl | rfl | rfl
      · cases ho
      · cases ho
      · cases ho; exact ⟨by decide +kernel, fs_reads⟩)
  have hfil := newest_of_merged fsX _ hX hstable
  refine ⟨fsX, r, st', defs, hw, hpo, ?_, ?_, ?_⟩
  · have h := hfil 1
    cases hf : (infos.map (·.1)).flatten.find? (·.obj == 1) with
    | none => rw [hf] at h; simp [fsX] at h
    | some e =>
      rw [hf] at h
      have he : e = ⟨1, 0, .inUse 9⟩ := by simpa [fsX] using h.symm
      subst he
      exact (h2 1 _ 9 hf rfl).1
  · have h := hfil 2
    cases hf : (infos.map (·.1)).flatten.find? (·.obj == 2) with
    | none => rw [hf] at h; simp [fsX] at h
    | some e =>
      rw [hf] at h
      have he : e = ⟨2, 0, .free 0⟩ := by simpa [fsX] using h.symm
      subst he
      exact h1 2 _ 0 hf rfl
  · have h := hfil 5
    cases hf : (infos.map (·.1)).flatten.find? (·.obj == 5) with
    | none => exact h3 5 hf
    | some e => rw [hf] at h; simp [fsX] at h

/-! ### the chain form on a concrete file: `ClassicAt` and `Chain` are checkable by evaluation -/

/-- `ClassicAt` is decidable by running the two parsers: a checker for concrete files -/
def classicChk (s : Bytes) (i : Nat) : Bool :=
  match Xref.xrefSectP s i with
  | (.ok _, c) =>
    (match scanFwd kwTrailer (s.drop c) with
    | none => true
    | some k =>
      match trailerP (Ctx.new 50) s (c + k) with
      | ((.ok d, _), _) => (ObjStm.getUsize d kXRefStm).isNone
      | _ => true)
  | _ => false

theorem classicAt_of_chk (s : Bytes) (i : Nat) (h : classicChk s i = true) : ClassicAt s i := by
  unfold classicChk at h
  rcases hx : Xref.xrefSectP s i with ⟨r, c⟩
  rw [hx] at h
  cases r with
  | err k => simp at h
  | panic p => simp at h
  | ok xrs =>
    refine ⟨xrs, c, hx, ?_⟩
    intro k d c1 ctx1 hsc ht
    simp only [hsc, ht] at h
    simpa using h

/-- both sections of `C04.freeStable` (the update at 169, the base table at 43) are classic -/
example : ClassicAt C04.freeStable 169 ∧ ClassicAt C04.freeStable 43 :=
  ⟨classicAt_of_chk _ _ (by decide +kernel), classicAt_of_chk _ _ (by decide +kernel)⟩


def stepIs (prev : Option Nat) (enc : Bool) (x : XStep) : Bool :=
  match x with
  | (.ok (some (_, _, p)), _, st) =>
    p == prev && st.ctx.defs.isEmpty && st.ctx.cur == 0 && st.ctx.max == 50 && !st.ctx.eol && st.enc == enc
  | _ => false

theorem stepIs_elim (prev : Option Nat) (enc : Bool) (x : XStep) (h : stepIs prev enc x = true) :
    ∃ ents rt c, x = (.ok (some (ents, rt, prev)), c, ⟨Ctx.new 50, enc⟩) := by
  obtain ⟨o, c, st⟩ := x
  cases o with
  | reject => simp [stepIs] at h
  | panic p => simp [stepIs] at h
  | ok v =>
    cases v with
    | none => simp [stepIs] at h
    | some i =>
      obtain ⟨ents, rt, p⟩ := i
      obtain ⟨⟨defs, cur, max, eol⟩, enc'⟩ := st
      simp only [stepIs, Bool.and_eq_true, beq_iff_eq, List.isEmpty_iff, Bool.not_eq_true'] at h
      obtain ⟨⟨⟨⟨⟨h1, h2⟩, h3⟩, h4⟩, h5⟩, h6⟩ := h
      subst h1 h2 h3 h4 h5 h6
      exact ⟨ents, rt, c, rfl⟩

/-- the chain of `C04.freeStable`: the update at 169, then the base table at 43 -/
theorem fs_chain : ∃ infos, Chain C04.freeStable ⟨Ctx.new 50, false⟩ 169 [] infos ∧ offsets 169 infos = [169, 43] := by
  obtain ⟨e1, r1, c1, h1⟩ := stepIs_elim (some 43) false
    (firstInfo ⟨Ctx.new 50, false⟩ C04.freeStable 169) (by decide +kernel)
  obtain ⟨e2, r2, c2, h2⟩ := stepIs_elim none false
    (firstInfo ⟨Ctx.new 50, false⟩ C04.freeStable 43) (by decide +kernel)
  exact ⟨[(e1, r1, some 43), (e2, r2, none)],
    Chain.more (by decide) (by decide +kernel) h1 (Chain.last (by decide) (by decide +kernel) h2), rfl⟩

/-- (3) end to end, with NOTHING assumed about the walk: both sections are checked to be classic tables -/
example : ∃ X r st' defs, getXrefInfo ⟨Ctx.new 50, false⟩ C04.freeStable 169 = (.ok (X, r), st') ∧
    parseObjects 0 st' (infoOf X) C04.freeStable = .ok defs ∧
    ObjStm.defsGet (1, 0) defs = some (.int 7) ∧ (∀ g, ObjStm.defsGet (2, g) defs = none) := by
  obtain ⟨r, st', hw, _⟩ := walkIs_elim _ _ fs_walk
  obtain ⟨infos, hch, hoffs⟩ := fs_chain
  have hstable : C04.StableGen fsX := by
    intro a ha b hb
    simp only [fsX, List.mem_cons, List.not_mem_nil, or_false] at ha hb
    rcases ha with rfl | rfl | rfl <;> rcases hb with rfl | rfl | rfl <;> simp
  obtain ⟨hX, defs, hpo, h1, h2, _⟩ := newest_wins_classic_chain_partial 0 C04.freeStable 169 fsX r st'
    (fun _ _ _ => ⟨.int 7, 17, 18⟩) infos hw hch
    (by
      rw [hoffs]
      intro i hi
      simp only [List.mem_cons, List.not_mem_nil, or_false] at hi
      rcases hi with rfl | rfl
      · exact classicAt_of_chk _ _ (by decide +kernel)
      · exact classicAt_of_chk _ _ (by decide +kernel))
    hstable
    (by
      intro e he o ho
      simp only [fsX, List.mem_cons, List.not_mem_nil, or_false] at he
      rcases he with rfl | rfl | rfl
      · cases ho
      · cases ho
      · cases ho; exact ⟨by decide +kernel, fs_reads⟩)
  have hfil := newest_of_merged fsX _ hX hstable
  refine ⟨fsX, r, st', defs, hw, hpo, ?_, ?_⟩
  · have h := hfil 1
    cases hf : (infos.map (·.1)).flatten.find? (·.obj == 1) with
    | none => rw [hf] at h; simp [fsX] at h
    | some e =>
      rw [hf] at h
      have he : e = ⟨1, 0, .inUse 9⟩ := by simpa [fsX] using h.symm
      subst he
      exact (h2 1 _ 9 hf rfl).1
  · have h := hfil 2
    cases hf : (infos.map (·.1)).flatten.find? (·.obj == 2) with
    | none => rw [hf] at h; simp [fsX] at h
    | some e =>
      rw [hf] at h
      have he : e = ⟨2, 0, .free 0⟩ := by simpa [fsX] using h.symm
      subst he
      exact h1 2 _ 0 hf rfl

end Parsley.LoaderStage
