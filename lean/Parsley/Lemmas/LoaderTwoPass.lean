/-
  C03b - the loading stage INCLUDING THE SECOND PASS (forward-referenced /Length).

  `Props/C03.lean: load_defines_exactly_partial` covers entry lists whose objects read in every context
  (the second pass is never entered).  Here an entry may also be a stream whose /Length is a reference to
  another object of the same list - written/listed before OR after it.  `parse_objects` (Model/Loader.lean:
  firstPass, secondPass, definedStreams, objStmPass) then

    first pass   registers every plain entry; a dependent stream is registered when its holder is already
                 registered, otherwise `parse_pdf_indirect_obj` fails with InsufficientContext and the entry is
                 pushed on `second_pass`;
    second pass  every holder is registered now, so every queued stream reads and is registered.

    load_two_pass      for ALL entry lists with pairwise distinct identifiers: the load is accepted, defines
                       every entry's identifier with its value and defines nothing else.
    twoObjs_loads      non-vacuity: proved instances of `ReadsDep` / `ReadsAt` on concrete bytes where the holder
                       comes AFTER the stream, and the theorem applied to them.
  The proof does not track the list of definitions (the insertion order differs between the passes) but the
  invariant `Inv`: sorted, and `defsGet` = the value exactly for the entries registered so far.
-/
import Parsley.Props.C03
namespace Parsley.LoaderTwoPass
open Parsley Parsley.Obj Parsley.Indirect Parsley.Loader Parsley.C03

/-- an entry of the loading stage: an object that reads in every context, or a stream whose /Length is the
    reference `holder` -/
inductive Entry where
  | plain (it : Item)
  | dep (it : Item) (holder : ObjId)

def Entry.item : Entry → Item | .plain it => it | .dep it _ => it

/-- a dependent object: in a context that binds the holder to an integer object it reads and is registered
    with value `it.v`; in a context that does not define the holder it fails with InsufficientContext and
    leaves the context unchanged -/
def ReadsDep (s : Bytes) (it : Item) (holder : ObjId) (len : Int) : Prop :=
  (∀ defs : Defs, DefsSorted defs → defsGet it.key defs = none →
      (∃ lv, defsGet holder defs = some lv ∧ lv.val = .int len) →
      ∃ a e, parseIndirect ⟨defs, 0, 50, false⟩ s it.ofs =
        ((.ok ⟨⟨it.id, it.gen, it.v⟩, a, e⟩, e), ⟨(defsInsert it.key it.v defs).2, 0, 50, false⟩)) ∧
  (∀ defs : Defs, DefsSorted defs → defsGet it.key defs = none → defsGet holder defs = none →
      ∃ j, parseIndirect ⟨defs, 0, 50, false⟩ s it.ofs = ((.err .ctx, j), ⟨defs, 0, 50, false⟩))

/-- the `second_pass` record of an item -/
def Item.triple (it : Item) : Nat × Nat × Nat := (it.id, it.gen, it.ofs)

/-- the state of the loading stage after the entries `done` have been met, with the items `q` still queued
    for the second pass -/
structure Inv (done : List Entry) (defs : Defs) (q : List Item) : Prop where
  sorted : DefsSorted defs
  other : ∀ k, (∀ e ∈ done, e.item.key ≠ k) → defsGet k defs = none
  plain : ∀ it, Entry.plain it ∈ done → defsGet it.key defs = some it.v
  dep : ∀ it h, Entry.dep it h ∈ done → defsGet it.key defs = some it.v ∨ (defsGet it.key defs = none ∧ it ∈ q)
  queued : ∀ it ∈ q, ∃ h, Entry.dep it h ∈ done

/-- distinct keys: an element of the list is determined by its key -/
theorem key_inj {α β : Type} (f : α → β) : ∀ (l : List α), (l.map f).Nodup → ∀ a ∈ l, ∀ b ∈ l, f a = f b → a = b
  | [], _, _, h, _, _, _ => by cases h
  | x :: t, hnd, a, ha, b, hb, hab => by
    simp only [List.map_cons, List.nodup_cons] at hnd
    rcases List.mem_cons.mp ha with rfl | ha' <;> rcases List.mem_cons.mp hb with rfl | hb'
    · rfl
    · exact absurd (hab ▸ List.mem_map_of_mem hb') hnd.1
    · exact absurd (hab ▸ List.mem_map_of_mem ha') hnd.1
    · exact key_inj f t hnd.2 a ha' b hb' hab

theorem fresh_of_nodup {α β : Type} (f : α → β) (done rest : List α) (e : α)
    (hnd : ((done ++ e :: rest).map f).Nodup) : ∀ e' ∈ done, f e' ≠ f e := by
  intro e' he' heq
  rw [List.map_append, List.nodup_append] at hnd
  exact hnd.2.2 _ (List.mem_map_of_mem he') _ (List.mem_map_of_mem List.mem_cons_self) heq

section
variable (s : Bytes) (all : List Entry)
  (hnd : (all.map fun e => e.item.key).Nodup)
  (hplain : ∀ it, Entry.plain it ∈ all → it.ofs < s.length ∧ ReadsAt 0 50 false s it)
  (hdep : ∀ it h, Entry.dep it h ∈ all → it.ofs < s.length ∧
        ∃ len : Int, ReadsDep s it h len ∧ ∃ ht, Entry.plain ht ∈ all ∧ ht.key = h ∧ ht.v.val = .int len)
include hnd hplain hdep

/-- the first pass from any reachable state: it ends without rejection in a state where every entry is
    registered or queued (`sp` is exactly the queue, `os` is untouched) -/
theorem firstPass_two : ∀ (rest done : List Entry) (defs : Defs) (qr : List Item) (os : List ObjId),
    all = done ++ rest → Inv done defs qr →
    ∃ defs' q, firstPass (rest.map fun e => e.item.info) ⟨defs, 0, 50, false⟩ s os (qr.map Item.triple) =
        (.ok (os, q.map Item.triple), ⟨defs', 0, 50, false⟩) ∧ Inv all defs' q
  | [], done, defs, qr, os, hall, inv => by
    rw [List.append_nil] at hall
    subst hall
    refine ⟨defs, qr.reverse, ?_, ?_⟩
    · simp [firstPass, List.map_reverse]
    · exact ⟨inv.sorted, inv.other, inv.plain,
        fun it h hm => (inv.dep it h hm).imp id (fun ⟨a, b⟩ => ⟨a, List.mem_reverse.mpr b⟩),
        fun it hm => inv.queued it (List.mem_reverse.mp hm)⟩
  | e :: rest, done, defs, qr, os, hall, inv => by
    have hfresh : ∀ e' ∈ done, e'.item.key ≠ e.item.key :=
      fresh_of_nodup (fun e : Entry => e.item.key) done rest e (hall ▸ hnd)
    have hn : defsGet e.item.key defs = none := inv.other _ hfresh
    have hall' : all = (done ++ [e]) ++ rest := by rw [hall]; simp
    have hein : e ∈ all := by rw [hall]; simp
    cases e with
    | plain it =>
      obtain ⟨hlt, hr⟩ := hplain it hein
      obtain ⟨a, e, hp⟩ := hr defs inv.sorted hn
      have hn' : defsGet (it.id, it.gen) defs = none := hn
      simp only [List.map_cons, Entry.item, Item.info, firstPass, hn', Option.isSome_none, Bool.false_eq_true,
        if_false, hlt, decide_true, Bool.not_true, hp, bne_self_eq_false]
      apply firstPass_two rest (done ++ [Entry.plain it]) _ qr os hall'
      refine ⟨defsInsert_sorted _ _ _ inv.sorted, ?_, ?_, ?_, ?_⟩
      · intro k hk
        have hne : k ≠ it.key := fun h => hk (Entry.plain it) (by simp) h.symm
        rw [defsGet_insert_other _ _ _ _ hne]
        exact inv.other k fun e' he' => hk e' (by simp [he'])
      · intro it' hm
        rcases List.mem_append.mp hm with hm | hm
        · rw [defsGet_insert_other it.key it'.key it.v defs (hfresh _ hm)]
          exact inv.plain it' hm
        · simp only [List.mem_singleton, Entry.plain.injEq] at hm
          subst hm
          exact defsGet_insert_same _ _ _
      · intro it' h hm
        rcases List.mem_append.mp hm with hm | hm
        · rw [defsGet_insert_other it.key it'.key it.v defs (hfresh _ hm)]
          exact inv.dep it' h hm
        · simp at hm
      · intro it' hm
        obtain ⟨h, hh⟩ := inv.queued it' hm
        exact ⟨h, by simp [hh]⟩
    | dep it h =>
      obtain ⟨hlt, len, ⟨hr1, hr2⟩, ht, htin, htk, htv⟩ := hdep it h hein
      have hn' : defsGet (it.id, it.gen) defs = none := hn
      by_cases hdone : Entry.plain ht ∈ done
      · -- the holder is registered: the stream reads now
        have hh : ∃ lv, defsGet h defs = some lv ∧ lv.val = .int len :=
          ⟨ht.v, htk ▸ inv.plain ht hdone, htv⟩
        obtain ⟨a, e, hp⟩ := hr1 defs inv.sorted hn hh
        simp only [List.map_cons, Entry.item, Item.info, firstPass, hn', Option.isSome_none, Bool.false_eq_true,
          if_false, hlt, decide_true, Bool.not_true, hp, bne_self_eq_false]
        apply firstPass_two rest (done ++ [Entry.dep it h]) _ qr os hall'
        refine ⟨defsInsert_sorted _ _ _ inv.sorted, ?_, ?_, ?_, ?_⟩
        · intro k hk
          have hne : k ≠ it.key := fun h' => hk (Entry.dep it h) (by simp) h'.symm
          rw [defsGet_insert_other _ _ _ _ hne]
          exact inv.other k fun e' he' => hk e' (by simp [he'])
        · intro it' hm
          rcases List.mem_append.mp hm with hm | hm
          · rw [defsGet_insert_other it.key it'.key it.v defs (hfresh _ hm)]
            exact inv.plain it' hm
          · simp at hm
        · intro it' h' hm
          rcases List.mem_append.mp hm with hm | hm
          · rw [defsGet_insert_other it.key it'.key it.v defs (hfresh _ hm)]
            exact inv.dep it' h' hm
          · simp only [List.mem_singleton, Entry.dep.injEq] at hm
            obtain ⟨rfl, rfl⟩ := hm
            exact Or.inl (defsGet_insert_same _ _ _)
        · intro it' hm
          obtain ⟨h', hh'⟩ := inv.queued it' hm
          exact ⟨h', by simp [hh']⟩
      · -- the holder comes later: InsufficientContext, queued
        have hhn : defsGet h defs = none := by
          rw [← htk]
          apply inv.other
          intro e' he' hk
          have := key_inj (fun e : Entry => e.item.key) all hnd e' (by rw [hall]; simp [he']) _ htin hk
          exact hdone (this ▸ he')
        obtain ⟨j, hp⟩ := hr2 defs inv.sorted hn hhn
        simp only [List.map_cons, Entry.item, Item.info, firstPass, hn', Option.isSome_none, Bool.false_eq_true,
          if_false, hlt, decide_true, Bool.not_true, hp]
        apply firstPass_two rest (done ++ [Entry.dep it h]) defs (it :: qr) os hall'
        refine ⟨inv.sorted, ?_, ?_, ?_, ?_⟩
        · intro k hk
          exact inv.other k fun e' he' => hk e' (by simp [he'])
        · intro it' hm
          rcases List.mem_append.mp hm with hm | hm
          · exact inv.plain it' hm
          · simp at hm
        · intro it' h' hm
          rcases List.mem_append.mp hm with hm | hm
          · exact (inv.dep it' h' hm).imp id (fun ⟨a, b⟩ => ⟨a, List.mem_cons_of_mem _ b⟩)
          · simp only [List.mem_singleton, Entry.dep.injEq] at hm
            obtain ⟨rfl, rfl⟩ := hm
            exact Or.inr ⟨hn, List.mem_cons_self⟩
        · intro it' hm
          rcases List.mem_cons.mp hm with rfl | hm
          · exact ⟨h, by simp⟩
          · obtain ⟨h', hh'⟩ := inv.queued it' hm
            exact ⟨h', by simp [hh']⟩

omit hplain in
/-- the second pass over the queue registers every queued entry -/
theorem secondPass_two : ∀ (q : List Item) (defs : Defs), Inv all defs q →
    ∃ defs', secondPass (q.map Item.triple) ⟨defs, 0, 50, false⟩ s = (.ok (), ⟨defs', 0, 50, false⟩) ∧
      Inv all defs' []
  | [], defs, inv => ⟨defs, by simp [secondPass], inv⟩
  | it :: t, defs, inv => by
    obtain ⟨h, hin⟩ := inv.queued it List.mem_cons_self
    cases hg : defsGet it.key defs with
    | some v =>
      have hg' : defsGet (it.id, it.gen) defs = some v := hg
      simp only [List.map_cons, Item.triple, secondPass, hg', Option.isSome_some, if_true]
      apply secondPass_two t defs
      refine ⟨inv.sorted, inv.other, inv.plain, ?_, fun x hx => inv.queued x (List.mem_cons_of_mem _ hx)⟩
      intro it' h' hm
      rcases inv.dep it' h' hm with h1 | ⟨h1, h2⟩
      · exact Or.inl h1
      · rcases List.mem_cons.mp h2 with rfl | h2
        · rw [hg] at h1; cases h1
        · exact Or.inr ⟨h1, h2⟩
    | none =>
      have hg' : defsGet (it.id, it.gen) defs = none := hg
      obtain ⟨hlt, len, ⟨hr1, _⟩, ht, htin, htk, htv⟩ := hdep it h hin
      have hh : ∃ lv, defsGet h defs = some lv ∧ lv.val = .int len :=
        ⟨ht.v, htk ▸ inv.plain ht htin, htv⟩
      obtain ⟨a, e, hp⟩ := hr1 defs inv.sorted hg hh
      simp only [List.map_cons, Item.triple, secondPass, hg', Option.isSome_none, Bool.false_eq_true,
        if_false, hlt, decide_true, Bool.not_true, hp, bne_self_eq_false]
      apply secondPass_two t _
      have hinj := key_inj (fun e : Entry => e.item.key) all hnd
      refine ⟨defsInsert_sorted _ _ _ inv.sorted, ?_, ?_, ?_, fun x hx => inv.queued x (List.mem_cons_of_mem _ hx)⟩
      · intro k hk
        have hne : k ≠ it.key := fun h' => hk (Entry.dep it h) hin h'.symm
        rw [defsGet_insert_other _ _ _ _ hne]
        exact inv.other k hk
      · intro it' hm
        have hne : it'.key ≠ it.key := fun hk => by
          have := hinj _ hm _ hin hk
          cases this
        rw [defsGet_insert_other _ _ _ _ hne]
        exact inv.plain it' hm
      · intro it' h' hm
        by_cases hk : it'.key = it.key
        · have := hinj _ hm _ hin hk
          cases this
          exact Or.inl (defsGet_insert_same _ _ _)
        · rw [defsGet_insert_other _ _ _ _ hk]
          rcases inv.dep it' h' hm with h1 | ⟨h1, h2⟩
          · exact Or.inl h1
          · rcases List.mem_cons.mp h2 with rfl | h2
            · exact absurd rfl hk
            · exact Or.inr ⟨h1, h2⟩

end

/-- **load_two_pass.**  Entry lists with pairwise distinct identifiers whose plain objects read in every
    context and whose dependent streams read once their /Length holder - a plain integer object of the same
    list, before or after the stream - is defined: `parse_objects`, started with an empty context, ends
    without rejection, defines every entry's identifier with the value that was written, and defines NOTHING
    else. -/
theorem load_two_pass (hofs : Nat) (enc : Bool) (s : Bytes) (es : List Entry)
    (hnd : (es.map fun e => e.item.key).Nodup)
    (hplain : ∀ it, Entry.plain it ∈ es → it.ofs < s.length ∧ ReadsAt 0 50 false s it)
    (hdep : ∀ it h, Entry.dep it h ∈ es → it.ofs < s.length ∧
        ∃ len : Int, ReadsDep s it h len ∧ ∃ ht, Entry.plain ht ∈ es ∧ ht.key = h ∧ ht.v.val = .int len) :
    ∃ defs, parseObjects hofs ⟨Ctx.new 50, enc⟩ (es.map fun e => e.item.info) s = .ok defs ∧
      (∀ e ∈ es, ObjStm.defsGet e.item.key defs = some e.item.v.val) ∧
      (∀ k, (∀ e ∈ es, e.item.key ≠ k) → ObjStm.defsGet k defs = none) := by
  have inv0 : Inv [] [] [] := ⟨List.Pairwise.nil, fun _ _ => rfl, fun _ h => (by cases h), fun _ _ h => (by cases h),
    fun _ h => (by cases h)⟩
  obtain ⟨defs1, q, hfp, inv1⟩ := firstPass_two s es hnd hplain hdep es [] [] [] [] rfl inv0
  obtain ⟨defs2, hsp, inv2⟩ := secondPass_two s es hnd hdep q defs1 inv1
  refine ⟨valDefs defs2, ?_, ?_, ?_⟩
  · unfold parseObjects
    show (match firstPass (es.map fun e => e.item.info) ⟨[], 0, 50, false⟩ s [] [] with
      | (.panic p, _) => _ | (.reject, _) => _ | (.ok (os, sp), c1) => _) = _
    rw [show ([] : List (Nat × Nat × Nat)) = ([] : List Item).map Item.triple from rfl, hfp]
    simp only [hsp]
    simp [definedStreams, objStmPass]
  · intro e he
    rw [valDefs_get]
    cases e with
    | plain it => rw [show (Entry.plain it).item = it from rfl, inv2.plain it he]; rfl
    | dep it h =>
      rcases inv2.dep it h he with h1 | ⟨_, h2⟩
      · rw [show (Entry.dep it h).item = it from rfl, h1]; rfl
      · cases h2
  · intro k hk
    rw [valDefs_get, inv2.other k hk]
    rfl

/-! ## non-vacuity: proved instances of `ReadsDep` and `ReadsAt`, and the theorem applied to them -/

/-- `1 0 obj <</Length 2 0 R>>stream\nabc\nendstream endobj\n2 0 obj 3 endobj`: the holder is written AFTER the stream -/
def twoObjs : Bytes := [49, 32, 48, 32, 111, 98, 106, 32, 60, 60, 47, 76, 101, 110, 103, 116, 104, 32, 50, 32, 48, 32, 82, 62, 62,
  115, 116, 114, 101, 97, 109, 10, 97, 98, 99, 10, 101, 110, 100, 115, 116, 114, 101, 97, 109, 32, 101, 110, 100, 111, 98, 106, 10,
  50, 32, 48, 32, 111, 98, 106, 32, 51, 32, 101, 110, 100, 111, 98, 106]

def streamItem : Item := ⟨1, 0, 0, ⟨.stream [(keyLength, .ref 2 0)] ⟨32, 3, [97, 98, 99]⟩, 8, 45⟩⟩
def holderItem : Item := ⟨2, 0, 53, ⟨.int 3, 61, 62⟩⟩

set_option maxRecDepth 10000 in
theorem holder_head (defs : Defs) :
    indirectHead ⟨defs, 0, 50, false⟩ twoObjs 53 = ((.ok ⟨2, 0, ⟨.int 3, 61, 62⟩⟩, 62), ⟨defs, 0, 50, false⟩) := by
  rfl

set_option maxRecDepth 10000 in
theorem stream_head (defs : Defs) :
    indirectHead ⟨defs, 0, 50, false⟩ twoObjs 0 =
      ((.ok ⟨1, 0, ⟨.dict [(keyLength, .ref 2 0)], 8, 25⟩⟩, 25), ⟨defs, 0, 50, false⟩) := by
  with_unfolding_all rfl

set_option maxRecDepth 10000 in
theorem holder_reads : ReadsAt 0 50 false twoObjs holderItem := by
  intro defs hs hn
  have hold : (defsInsert (2, 0) ⟨.int 3, 61, 62⟩ defs).1 = none := by
    have hn' : defsGet (2, 0) defs = none := hn
    rw [defsInsert_old (2, 0) ⟨.int 3, 61, 62⟩ defs hs, hn']
  refine ⟨53, 69, ?_⟩
  have hw : Prim.wsEOL true twoObjs 53 = (.ok ⟨(), 53, 53⟩, 53) := by rfl
  have hb : indirectBody ⟨defs, 0, 50, false⟩ twoObjs ⟨.int 3, 61, 62⟩ 62 = (.ok ⟨.int 3, 61, 62⟩, 62) := by rfl
  have hw2 : Prim.wsEOL true twoObjs 62 = (.ok ⟨(), 62, 63⟩, 63) := by rfl
  have he : Prim.exact kwEndobj twoObjs 63 = (true, 69) := by rfl
  show parseIndirect _ twoObjs 53 = _
  unfold parseIndirect
  rw [hw]
  simp only []
  unfold indirectInternal
  rw [holder_head]
  simp only [hb]
  unfold indirectFinish
  rw [hw2]
  simp only [he]
  rcases hd : defsInsert (2, 0) ⟨.int 3, 61, 62⟩ defs with ⟨old, d⟩
  rw [hd] at hold
  simp only at hold
  subst hold
  simp [holderItem, Item.key, hd]

set_option maxRecDepth 10000 in
theorem stream_reads_dep : ReadsDep twoObjs streamItem (2, 0) 3 := by
  have hw : Prim.wsEOL true twoObjs 0 = (.ok ⟨(), 0, 0⟩, 0) := by rfl
  have hw1 : Prim.wsEOL true twoObjs 25 = (.ok ⟨(), 25, 25⟩, 25) := by rfl
  have hsw : Prim.startsWith Prim.kwStream twoObjs 25 = true := by rfl
  have hdg : dictGet keyLength [(keyLength, Obj.ref 2 0)] = some (.ref 2 0) := by rfl
  constructor
  · intro defs hs hn ⟨lv, hlv, hval⟩
    have hold : (defsInsert (1, 0) streamItem.v defs).1 = none := by
      have hn' : defsGet (1, 0) defs = none := hn
      rw [defsInsert_old (1, 0) _ defs hs, hn']
    refine ⟨0, 52, ?_⟩
    have hsc : Prim.streamContentP 3 false twoObjs 25 = (.ok ⟨⟨32, 3, [97, 98, 99]⟩, 25, 45⟩, 45) := by rfl
    have hsl : streamLength defs [(keyLength, Obj.ref 2 0)] = .ok 3 := by
      unfold streamLength
      rw [hdg]
      simp only [hlv, hval]
      rfl
    have hb : indirectBody ⟨defs, 0, 50, false⟩ twoObjs ⟨.dict [(keyLength, .ref 2 0)], 8, 25⟩ 25 =
        (.ok streamItem.v, 45) := by
      unfold indirectBody
      simp only [hw1, hsw, if_true, hsl, hsc]
      rfl
    have hw2 : Prim.wsEOL true twoObjs 45 = (.ok ⟨(), 45, 46⟩, 46) := by rfl
    have he : Prim.exact kwEndobj twoObjs 46 = (true, 52) := by rfl
    show parseIndirect _ twoObjs 0 = _
    unfold parseIndirect
    rw [hw]
    simp only []
    unfold indirectInternal
    rw [stream_head]
    simp only [hb]
    unfold indirectFinish
    rw [hw2]
    simp only [he]
    rcases hd : defsInsert (1, 0) streamItem.v defs with ⟨old, d⟩
    rw [hd] at hold
    simp only at hold
    subst hold
    have hd2 : (defsInsert streamItem.key streamItem.v defs).2 = d := by
      show (defsInsert (1, 0) streamItem.v defs).2 = d
      rw [hd]
    rw [hd2]
    rfl
  · intro defs hs hn hnone
    refine ⟨25, ?_⟩
    have hsl : streamLength defs [(keyLength, Obj.ref 2 0)] = .err .ctx := by
      unfold streamLength
      rw [hdg]
      simp only [hnone]
    have hb : indirectBody ⟨defs, 0, 50, false⟩ twoObjs ⟨.dict [(keyLength, .ref 2 0)], 8, 25⟩ 25 =
        (.err .ctx, 25) := by
      unfold indirectBody
      simp only [hw1, hsw, if_true, hsl]
    show parseIndirect _ twoObjs 0 = _
    unfold parseIndirect
    rw [hw]
    simp only []
    unfold indirectInternal
    rw [stream_head]
    simp only [hb]


/-- non-vacuity of `load_two_pass` with a genuinely forward-referenced /Length: the stream (1,0) comes first
    in the entry list and in the file, its holder (2,0) after it; the first pass queues the stream, the
    second pass reads it -/
theorem twoObjs_loads :
    ∃ defs, parseObjects 0 ⟨Ctx.new 50, false⟩ [.inFile 1 0 0, .inFile 2 0 53] twoObjs = .ok defs ∧
      ObjStm.defsGet (1, 0) defs = some (.stream [(keyLength, .ref 2 0)] ⟨32, 3, [97, 98, 99]⟩) ∧
      ObjStm.defsGet (2, 0) defs = some (.int 3) ∧ ObjStm.defsGet (3, 0) defs = none := by
  obtain ⟨defs, h1, h2, h3⟩ := load_two_pass 0 false twoObjs [.dep streamItem (2, 0), .plain holderItem]
    (by simp [Entry.item, streamItem, holderItem, Item.key])
    (by
      intro it hit
      simp at hit
      subst hit
      exact ⟨by decide, holder_reads⟩)
    (by
      intro it h hit
      simp at hit
      obtain ⟨rfl, rfl⟩ := hit
      exact ⟨by decide, 3, stream_reads_dep, holderItem, by simp, rfl, rfl⟩)
  refine ⟨defs, h1, h2 (.dep streamItem (2, 0)) (by simp), h2 (.plain holderItem) (by simp), h3 (3, 0) ?_⟩
  intro e he
  simp at he
  rcases he with rfl | rfl <;> simp [Entry.item, streamItem, holderItem, Item.key]

/-- with plain entries only, `load_two_pass` is `load_defines_exactly_partial` -/
example (hofs : Nat) (enc : Bool) (s : Bytes) (items : List Item)
    (hnd : (items.map Item.key).Nodup)
    (hread : ∀ it ∈ items, it.ofs < s.length ∧ ReadsAt 0 50 false s it) :
    ∃ defs, parseObjects hofs ⟨Ctx.new 50, enc⟩ (items.map Item.info) s = .ok defs ∧
      (∀ it ∈ items, ObjStm.defsGet it.key defs = some it.v.val) ∧
      (∀ k, (∀ it ∈ items, it.key ≠ k) → ObjStm.defsGet k defs = none) := by
  have hm : ∀ f : Item → ObjInfo, (items.map Entry.plain).map (fun e => f e.item) = items.map f := by
    intro f; simp [List.map_map, Function.comp_def, Entry.item]
  have hk : (items.map Entry.plain).map (fun e => e.item.key) = items.map Item.key := by
    simp [List.map_map, Function.comp_def, Entry.item]
  obtain ⟨defs, h1, h2, h3⟩ := load_two_pass hofs enc s (items.map Entry.plain) (by rw [hk]; exact hnd)
    (by
      intro it hit
      simp only [List.mem_map, Entry.plain.injEq, exists_eq_right] at hit
      exact hread it hit)
    (by
      intro it h hit
      simp at hit)
  refine ⟨defs, ?_, ?_, ?_⟩
  · rw [← hm Item.info]; exact h1
  · intro it hit
    exact h2 (.plain it) (List.mem_map_of_mem hit)
  · intro k hk'
    apply h3 k
    intro e he
    simp only [List.mem_map] at he
    obtain ⟨it, hit, rfl⟩ := he
    exact hk' it hit

end Parsley.LoaderTwoPass
