/-
  Invariants of the object-parser model (Model/Obj.lean), by induction on the
  nesting budget: cursor bounds, progress, depth restoration, depth bound of the
  accepted value, and unreachability of every panic site (incl. loop fuel).
-/
import Parsley.Props.C15
import Parsley.Model.Obj
namespace Parsley.Obj
open Parsley Parsley.Prim Parsley.C15

/-- What a call of an element parser guarantees, for context depth `cur`, cursor `i`. -/
def good (max cur : Nat) (n i : Nat) : (Res (Located Obj) × Nat) × Nat → Prop
  | ((.ok v, c), cur') =>
      cur' = cur ∧ i ≤ v.start ∧ v.start < v.stop ∧ c = v.stop ∧ v.stop ≤ n ∧ cur + depth v.val ≤ max
  | ((.err _, _), cur') => cur' = cur
  | ((.panic _, _), _) => False

def ElemOK (max b : Nat) (el : Elem) : Prop :=
  ∀ (cur : Nat) (s : Bytes) (i : Nat), i ≤ s.length → cur ≤ max → max - cur ≤ b →
    good max cur s.length i (el cur s i)

/-- same for the unlocated result of `parse_internal` / `numberOrRef`, run at depth `cur` (already entered) -/
def goodI (max cur : Nat) (n i : Nat) : (Res Obj × Nat) × Nat → Prop
  | ((.ok v, c), cur') => cur' = cur ∧ i < c ∧ c ≤ n ∧ cur + depth v ≤ max + 1
  | ((.err _, _), cur') => cur' = cur
  | ((.panic _, _), _) => False

/-! ### token facts: success consumes at least one byte -/

/-- success: span starts at `i`, cursor = end, at least one byte consumed, inside the buffer;
    failure: cursor unmoved; never a panic -/
def prog {α : Type} (i n : Nat) : Res (Located α) × Nat → Prop
  | (.ok v, c) => v.start = i ∧ c = v.stop ∧ i < c ∧ c ≤ n
  | (.err _, c) => c = i
  | (.panic _, _) => False

theorem pok {α : Type} {i n e : Nat} {v : α} (h1 : i < e) (h2 : e ≤ n) :
    prog i n (Res.ok ⟨v, i, e⟩, e) := ⟨rfl, rfl, h1, h2⟩
theorem perr {α : Type} {i n : Nat} {k : ErrK} : prog (α := α) i n (Res.err k, i) := rfl

/-- whitespace: only forward, inside the buffer, non-empty when required; never a panic -/
def wsProg (e : Bool) (i n : Nat) : Res (Located Unit) × Nat → Prop
  | (.ok _, c) => i ≤ c ∧ c ≤ n ∧ (e = false → i < c)
  | (.err _, c) => c = i
  | (.panic _, _) => False


theorem exact_consumes {tag s : Bytes} {i j : Nat} (h : exact tag s i = (true, j)) (ht : tag ≠ []) : i < j := by
  unfold exact at h
  split at h
  · cases h
    have : 0 < tag.length := List.length_pos_iff.mpr ht
    omega
  · cases h

theorem realP_progress (s : Bytes) (i : Nat) (hi : i ≤ s.length) : prog i s.length (realP s i) := by
  unfold realP
  have h1 := signPrefix_bound s i hi
  generalize signPrefix s i = a at *
  obtain ⟨minus, i1⟩ := a
  simp only at h1 ⊢
  have h2 := allowed_bound isDigit s i1 h1.2
  have h2s := allowed_snd isDigit s i1
  generalize allowed isDigit s i1 = b at *
  obtain ⟨ds, j⟩ := b
  simp only at h2 h2s ⊢
  split
  · exact perr
  · rename_i hne
    split
    · exact perr
    · split
      · rename_i hp
        have hp' : peek s j = some 46 := by simpa using hp
        have hjl := peek_some_lt hp'
        have h3 := allowed_bound isDigit s (j + 1) (by omega)
        generalize allowed isDigit s (j + 1) = c at *
        obtain ⟨fs, k⟩ := c
        simp only at h3 ⊢
        split
        · exact perr
        · exact pok (by omega) (by omega)
      · rename_i hp
        have : ds ≠ [] := by
          intro hh; subst hh; simp at hne; simp [hne] at hp
        have : 0 < ds.length := List.length_pos_iff.mpr this
        exact pok (by omega) (by omega)

theorem integerP_progress (s : Bytes) (i : Nat) (hi : i ≤ s.length) : prog i s.length (integerP s i) := by
  unfold integerP
  have h1 := signPrefix_bound s i hi
  generalize signPrefix s i = a at *
  obtain ⟨minus, i1⟩ := a
  simp only at h1 ⊢
  have h2 := allowed_bound isDigit s i1 h1.2
  have h2s := allowed_snd isDigit s i1
  generalize allowed isDigit s i1 = b at *
  obtain ⟨ds, j⟩ := b
  simp only at h2 h2s ⊢
  split
  · exact perr
  · rename_i hne
    split
    · exact perr
    · have : ds ≠ [] := by intro hh; subst hh; simp at hne
      have : 0 < ds.length := List.length_pos_iff.mpr this
      exact pok (by omega) (by omega)

/-- `wsEOL` never panics and only moves forward inside the buffer -/
theorem wsEOL_progress (e : Bool) (s : Bytes) (i : Nat) (hi : i ≤ s.length) :
    wsProg e i s.length (wsEOL e s i) := by
  unfold wsEOL
  obtain ⟨j, e', h1, h2, h3, h4⟩ := wsEOLLoop_spec (s.length + 1 - i) s i true hi (Nat.le_refl _)
  rw [h1]
  simp only
  split
  · rename_i h
    simp only [Bool.and_eq_true] at h
    exact (h4 h.1).2
  · rename_i h
    refine ⟨h2, h3, ?_⟩
    intro he; subst he
    by_cases hj : j = i
    · exfalso
      -- not consumed anything means isEmpty stayed true
      have := wsEOLLoop_empty (s.length + 1 - i) s i j e' h1 hj
      subst this; simp at h
    · omega

/-! ### references and the number/reference branch -/

def refProg (i n : Nat) : Res (Nat × Nat) × Nat → Prop
  | (.ok _, c) => i < c ∧ c ≤ n
  | (.err _, _) => True
  | (.panic _, _) => False

theorem referenceP_prog (s : Bytes) (i : Nat) (hi : i ≤ s.length) : refProg i s.length (referenceP s i) := by
  unfold referenceP
  have h1 := integerP_progress s i hi
  split
  · trivial
  · rename_i heq; rw [heq] at h1; exact h1.elim
  · rename_i num j heq
    rw [heq] at h1; obtain ⟨-, -, hj1, hj2⟩ := h1
    split
    · trivial
    · have h2 := wsEOL_progress true s j hj2
      split
      · trivial
      · rename_i heq2; rw [heq2] at h2; exact h2.elim
      · rename_i u j1 heq2
        rw [heq2] at h2; obtain ⟨hk1, hk2, -⟩ := h2
        have h3 := integerP_progress s j1 hk2
        split
        · trivial
        · rename_i heq3; rw [heq3] at h3; exact h3.elim
        · rename_i gen j2 heq3
          rw [heq3] at h3; obtain ⟨-, -, hl1, hl2⟩ := h3
          split
          · trivial
          · have h4 := wsEOL_progress true s j2 hl2
            split
            · trivial
            · rename_i heq4; rw [heq4] at h4; exact h4.elim
            · rename_i u2 j3 heq4
              rw [heq4] at h4; obtain ⟨hm1, hm2, -⟩ := h4
              split
              · trivial
              · rename_i j4 heq5
                have := exact_ok_ge heq5
                have := exact_ok_le heq5 (by decide)
                exact ⟨by omega, by omega⟩

theorem depth_scalar_le (v : Obj) (h : ∀ xs, v ≠ .arr xs) (h2 : ∀ kvs, v ≠ .dict kvs)
    (h3 : ∀ kvs sc, v ≠ .stream kvs sc) : depth v = 1 := by
  cases v <;> simp_all [depth]

theorem numberOrRef_good (max cur : Nat) (s : Bytes) (i : Nat) (hi : i ≤ s.length) (hc : cur ≤ max) :
    goodI max cur s.length i (numberOrRef s i, cur) := by
  unfold numberOrRef
  have h1 := realP_progress s i hi
  split
  · rfl
  · rename_i heq; rw [heq] at h1; exact h1.elim
  · rename_i r j heq
    rw [heq] at h1; obtain ⟨-, -, hj1, hj2⟩ := h1
    have dint : ∀ n : Int, cur + depth (.int n) ≤ max + 1 := by intro n; simp [depth]; omega
    simp only
    split
    · exact ⟨rfl, hj1, hj2, by simp [depth]; omega⟩
    · have h2 := wsEOL_progress false s j hj2
      split
      · rename_i heq2; rw [heq2] at h2; exact h2.elim
      · exact ⟨rfl, hj1, hj2, dint _⟩
      · rename_i u j1 heq2
        rw [heq2] at h2; obtain ⟨hk1, hk2, -⟩ := h2
        have h3 := integerP_progress s j1 hk2
        split
        · rename_i heq3; rw [heq3] at h3; exact h3.elim
        · exact ⟨rfl, hj1, hj2, dint _⟩
        · rename_i g j2 heq3
          rw [heq3] at h3; obtain ⟨-, -, hl1, hl2⟩ := h3
          have h4 := wsEOL_progress false s j2 hl2
          split
          · rename_i heq4; rw [heq4] at h4; exact h4.elim
          · exact ⟨rfl, hj1, hj2, dint _⟩
          · split
            · have h5 := referenceP_prog s i hi
              split
              · rename_i a g' j4 heq5
                rw [heq5] at h5
                exact ⟨rfl, h5.1, h5.2, by simp [depth]; omega⟩
              · rfl
              · rename_i heq5; rw [heq5] at h5; exact h5.elim
            · exact ⟨rfl, hj1, hj2, dint _⟩

/-! ### depth of lists and dictionaries -/

theorem depthList_le_iff (l : List Obj) (m : Nat) : depthList l ≤ m ↔ ∀ x ∈ l, depth x ≤ m := by
  induction l with
  | nil => simp [depthList]
  | cons a t ih =>
    simp only [depthList, List.mem_cons, forall_eq_or_imp]
    rw [← ih]
    exact Nat.max_le

theorem depthList_reverse_le (l : List Obj) (m : Nat) (h : depthList l ≤ m) : depthList l.reverse ≤ m := by
  rw [depthList_le_iff] at *
  intro x hx; exact h x (List.mem_reverse.mp hx)

theorem depthKvs_insert_le (k : Bytes) (v : Obj) (kvs : List (Bytes × Obj)) (m : Nat)
    (hv : depth v ≤ m) (h : depthKvs kvs ≤ m) : depthKvs (dictInsert k v kvs) ≤ m := by
  induction kvs with
  | nil => simp [dictInsert, depthKvs]; exact hv
  | cons a t ih =>
    obtain ⟨k', v'⟩ := a
    simp only [depthKvs] at h
    have h1 := (Nat.max_le.mp h).1
    have h2 := (Nat.max_le.mp h).2
    unfold dictInsert
    split
    · simp only [depthKvs]; exact Nat.max_le.mpr ⟨hv, Nat.max_le.mpr ⟨h1, h2⟩⟩
    · split
      · simp only [depthKvs]; exact Nat.max_le.mpr ⟨h1, ih h2⟩
      · simp only [depthKvs]; exact Nat.max_le.mpr ⟨hv, h2⟩

/-! ### the element loops -/

def arrGood (max cur n i : Nat) : (Res (List Obj) × Nat) × Nat → Prop
  | ((.ok xs, k), cur') => cur' = cur ∧ i < k ∧ k ≤ n ∧ cur + depthList xs ≤ max
  | ((.err _, _), cur') => cur' = cur
  | ((.panic _, _), _) => False

theorem arrayLoop_good (max b : Nat) (el : Elem) (hel : ElemOK max b el) (f cur : Nat) (s : Bytes) (i : Nat)
    (acc : List Obj) (hi : i ≤ s.length) (hc : cur ≤ max) (hb : max - cur ≤ b)
    (hf : s.length + 1 - i ≤ f) (hacc : cur + depthList acc ≤ max) :
    arrGood max cur s.length i (arrayLoop el f cur s i acc) := by
  induction f generalizing i acc with
  | zero => omega
  | succ f ih =>
    unfold arrayLoop
    have h1 := wsEOL_progress true s i hi
    split
    · rfl
    · rename_i heq; rw [heq] at h1; exact h1.elim
    · rename_i u j heq
      rw [heq] at h1; obtain ⟨hj1, hj2, -⟩ := h1
      split
      · rename_i k hex
        have := exact_ok_ge hex
        have := exact_consumes hex (by decide)
        have := exact_ok_le hex (by decide)
        refine ⟨rfl, by omega, by omega, ?_⟩
        have : depthList acc.reverse ≤ max - cur := depthList_reverse_le _ _ (by omega)
        omega
      · have h2 := hel cur s j hj2 hc hb
        split
        · rename_i o k cur' heq2
          rw [heq2] at h2
          obtain ⟨e1, e2, e3, e4, e5, e6⟩ := h2
          subst e1
          have hk : k ≤ s.length := by omega
          have := ih k (o.val :: acc) hk (by omega) (by
            simp only [depthList]
            have : Nat.max (depth o.val) (depthList acc) ≤ max - cur' := Nat.max_le.mpr ⟨by omega, by omega⟩
            omega)
          revert this
          generalize arrayLoop el f cur' s k (o.val :: acc) = r
          obtain ⟨⟨r, k2⟩, c2⟩ := r
          cases r with
          | ok xs => intro ⟨a1, a2, a3, a4⟩; exact ⟨a1, by omega, a3, a4⟩
          | err _ => exact id
          | panic _ => exact id
        · rename_i heq2; rw [heq2] at h2; exact h2
        · rename_i heq2; rw [heq2] at h2; exact h2.elim

def dictGood (max cur n i : Nat) : (Res (List (Bytes × Obj)) × Nat) × Nat → Prop
  | ((.ok kvs, k), cur') => cur' = cur ∧ i < k ∧ k ≤ n ∧ cur + depthKvs kvs ≤ max
  | ((.err _, _), cur') => cur' = cur
  | ((.panic _, _), _) => False

theorem dictLoop_good (max b : Nat) (el : Elem) (hel : ElemOK max b el) (f cur : Nat) (s : Bytes) (i : Nat)
    (names : List Bytes) (map : List (Bytes × Obj)) (hi : i ≤ s.length) (hc : cur ≤ max) (hb : max - cur ≤ b)
    (hf : s.length + 1 - i ≤ f) (hacc : cur + depthKvs map ≤ max) :
    dictGood max cur s.length i (dictLoop el f cur s i names map) := by
  induction f generalizing i names map with
  | zero => omega
  | succ f ih =>
    unfold dictLoop
    have h1 := wsEOL_progress true s i hi
    split
    · rfl
    · rename_i heq; rw [heq] at h1; exact h1.elim
    · rename_i u j heq
      rw [heq] at h1; obtain ⟨hj1, hj2, -⟩ := h1
      split
      · rename_i k hex
        have := exact_ok_ge hex
        have := exact_consumes hex (by decide)
        have := exact_ok_le hex (by decide)
        exact ⟨rfl, by omega, by omega, hacc⟩
      · have hn := nameP_loc s j hj2
        split
        · rfl
        · rename_i heqn; rw [heqn] at hn; exact hn.elim
        · rename_i key k heqn
          rw [heqn] at hn
          obtain ⟨n1, n2, n3, n4⟩ := hn
          have hkj : j < k := by
            have := nameP_consumes s j key k heqn
            omega
          split
          · rfl
          · have h3 := wsEOL_progress true s k (by omega)
            split
            · rfl
            · rename_i heq3; rw [heq3] at h3; exact h3.elim
            · rename_i u2 k1 heq3
              rw [heq3] at h3; obtain ⟨hk1, hk2, -⟩ := h3
              have h2 := hel cur s k1 hk2 hc hb
              split
              · rename_i heq2; rw [heq2] at h2; exact h2
              · rename_i heq2; rw [heq2] at h2; exact h2.elim
              · rename_i o k2 cur' heq2
                rw [heq2] at h2
                obtain ⟨e1, e2, e3, e4, e5, e6⟩ := h2
                subst e1
                have hk : k2 ≤ s.length := by omega
                have fin : ∀ nm mp, cur' + depthKvs mp ≤ max →
                    dictGood max cur' s.length i (dictLoop el f cur' s k2 nm mp) := by
                  intro nm mp hmp
                  have := ih k2 nm mp hk (by omega) hmp
                  revert this
                  generalize dictLoop el f cur' s k2 nm mp = r
                  obtain ⟨⟨r, k3⟩, c2⟩ := r
                  cases r with
                  | ok xs => intro ⟨a1, a2, a3, a4⟩; exact ⟨a1, by omega, a3, a4⟩
                  | err _ => exact id
                  | panic _ => exact id
                split
                · exact fin _ _ hacc
                · apply fin
                  have : depthKvs (dictInsert key.val o.val map) ≤ max - cur' :=
                    depthKvs_insert_le _ _ _ _ (by omega) (by omega)
                  omega

/-! ### progress of the remaining token parsers -/

theorem boolean_prog (s : Bytes) (i : Nat) (hi : i ≤ s.length) : prog i s.length (boolean s i) := by
  unfold boolean
  split
  · rename_i j h; exact pok (exact_consumes h (by decide)) (exact_ok_le h (by decide))
  · split
    · rename_i j h; exact pok (exact_consumes h (by decide)) (exact_ok_le h (by decide))
    · exact perr

theorem null_prog (s : Bytes) (i : Nat) (hi : i ≤ s.length) : prog i s.length (null s i) := by
  unfold null
  split
  · rename_i j h; exact pok (exact_consumes h (by decide)) (exact_ok_le h (by decide))
  · exact perr

theorem lit_prog (s : Bytes) (i : Nat) (hi : i ≤ s.length) : prog i s.length (rawLitString s i) := by
  unfold rawLitString
  split
  · exact perr
  · rename_i h
    have hlt : i < s.length := by
      cases hp : peek s i with
      | none => simp [hp] at h
      | some b => exact peek_some_lt hp
    split
    · exact perr
    · rename_i v j hl
      have := litLoop_bound _ _ _ _ _ _ _ hl
      simp only [List.length_drop] at this
      exact pok (by omega) (by omega)

theorem comment_prog (s : Bytes) (i : Nat) (hi : i ≤ s.length) : prog i s.length (comment s i) := by
  have h := comment_loc s i hi
  cases hc : comment s i with
  | mk r c =>
    rw [hc] at h
    cases r with
    | ok v =>
      obtain ⟨a, b, c1, d⟩ := h
      have hp : peek s i = some 37 := by
        unfold comment at hc
        split at hc
        · cases hc
        · rename_i hh; simpa using hh
      have := comment_consumes s i hp v c hc
      exact ⟨a, b, by omega, by omega⟩
    | err k => exact h
    | panic p => exact h.elim

theorem name_prog (s : Bytes) (i : Nat) (hi : i ≤ s.length) : prog i s.length (nameP s i) := by
  have h := nameP_loc s i hi
  cases hc : nameP s i with
  | mk r c =>
    rw [hc] at h
    cases r with
    | ok v =>
      obtain ⟨a, b, c1, d⟩ := h
      have := nameP_consumes s i v c hc
      exact ⟨a, b, by omega, by omega⟩
    | err k => exact h
    | panic p => exact h.elim

theorem hex_prog (s : Bytes) (i : Nat) (hi : i ≤ s.length) : prog i s.length (hexString s i) := by
  unfold hexString
  split
  · exact perr
  · rename_i h
    have hlt : i < s.length := by
      cases hp : peek s i with
      | none => simp [hp] at h
      | some b => exact peek_some_lt hp
    have h2 := allowed_bound (fun b => isHexDigit b || isHexWs b) s (i + 1) (by omega)
    generalize allowed (fun b => isHexDigit b || isHexWs b) s (i + 1) = c at *
    obtain ⟨bytes, j⟩ := c
    simp only at h2 ⊢
    split
    · exact perr
    · rename_i h3
      have hj : j < s.length := by
        cases hp : peek s j with
        | none => simp [hp] at h3
        | some b => exact peek_some_lt hp
      exact pok (by omega) (by omega)

/-- lift a token parser's progress to the dispatcher's result shape -/
theorem goodI_of_prog {α : Type} (max cur : Nat) (n i : Nat) (r : Res (Located α) × Nat) (f : α → Obj)
    (hd : ∀ a, depth (f a) = 1) (hc : cur ≤ max) (h : prog i n r) :
    goodI max cur n i (liftTok f cur r) := by
  obtain ⟨r, c⟩ := r
  cases r with
  | ok v => obtain ⟨-, -, h3, h4⟩ := h; exact ⟨rfl, h3, h4, by rw [hd]; omega⟩
  | err k => rfl
  | panic p => exact h.elim

theorem parseInternal_good (max b : Nat) (el : Elem) (hel : ElemOK max b el) (cur : Nat) (s : Bytes) (i : Nat)
    (hi : i ≤ s.length) (hc : cur ≤ max) (hb : max - cur ≤ b) :
    goodI max cur s.length i (parseInternal el cur s i) := by
  unfold parseInternal
  split
  · rfl
  · rename_i c hp
    have hlt := peek_some_lt hp
    split
    · exact goodI_of_prog max cur _ i _ (fun b => Obj.bool b) (fun _ => rfl) hc (boolean_prog s i hi)
    · split
      · exact goodI_of_prog max cur _ i _ (fun _ => Obj.null) (fun _ => rfl) hc (null_prog s i hi)
      · split
        · exact goodI_of_prog max cur _ i _ (fun v => Obj.str v) (fun _ => rfl) hc (lit_prog s i hi)
        · split
          · exact goodI_of_prog max cur _ i _ (fun v => Obj.comment v) (fun _ => rfl) hc (comment_prog s i hi)
          · split
            · exact goodI_of_prog max cur _ i _ (fun v => Obj.name v) (fun _ => rfl) hc (name_prog s i hi)
            · split
              · -- array
                have h := arrayLoop_good max b el hel (s.length + 1 - i) cur s (i + 1) [] (by omega) hc hb
                  (by omega) (by simp [depthList]; omega)
                revert h
                generalize arrayLoop el (s.length + 1 - i) cur s (i + 1) [] = r
                obtain ⟨⟨r, k⟩, c2⟩ := r
                cases r with
                | ok xs =>
                  intro ⟨a1, a2, a3, a4⟩
                  exact ⟨a1, by omega, a3, by simp only [depth]; omega⟩
                | err _ => exact id
                | panic _ => exact id
              · split
                · split
                  · -- dictionary
                    rename_i hp2
                    have hp2' : peek s (i + 1) = some 60 := by simpa using hp2
                    have := peek_some_lt hp2'
                    have h := dictLoop_good max b el hel (s.length + 1 - i) cur s (i + 2) [] [] (by omega) hc hb
                      (by omega) (by simp [depthKvs]; omega)
                    revert h
                    generalize dictLoop el (s.length + 1 - i) cur s (i + 2) [] [] = r
                    obtain ⟨⟨r, k⟩, c2⟩ := r
                    cases r with
                    | ok xs =>
                      intro ⟨a1, a2, a3, a4⟩
                      exact ⟨a1, by omega, a3, by simp only [depth]; omega⟩
                    | err _ => exact id
                    | panic _ => exact id
                  · exact goodI_of_prog max cur _ i _ (fun v => Obj.str v) (fun _ => rfl) hc (hex_prog s i hi)
                · split
                  · rfl
                  · exact numberOrRef_good max cur s i hi hc

/-- **The invariant of `parse_pdf_obj`**, for every budget that covers the remaining depth. -/
theorem parseObjB_good (max : Nat) : ∀ b, ElemOK max b (parseObjB max b) := by
  intro b
  induction b with
  | zero =>
    intro cur s i hi hc hb
    have : cur = max := by omega
    unfold parseObjB
    simp [this, good]
  | succ b ih =>
    intro cur s i hi hc hb
    unfold parseObjB
    split
    · rfl
    · rename_i hne
      have hne' : cur ≠ max := by simpa using hne
      have hw := wsEOL_progress true s i hi
      simp only
      unfold objParse
      split
      · -- whitespace error (unreachable, but harmless)
        simp [good, leaveObj]
      · rename_i heq; rw [heq] at hw; exact hw.elim
      · rename_i u start heq
        rw [heq] at hw; obtain ⟨w1, w2, -⟩ := hw
        have hI := parseInternal_good max b (parseObjB max b) ih (cur + 1) s start w2 (by omega) (by omega)
        revert hI
        generalize parseInternal (parseObjB max b) (cur + 1) s start = r
        obtain ⟨⟨r, j⟩, c2⟩ := r
        cases r with
        | ok v =>
          intro ⟨a1, a2, a3, a4⟩
          subst a1
          simp [good, leaveObj]
          omega
        | err k => intro a1; subst a1; simp [good, leaveObj]
        | panic p => intro a1; exact a1.elim
