/-
  Helper lemmas for C14 (object streams).
   A. token parsers at a position: white-space run, decimal number
   B. the definitions map (sorted association list = BTreeMap)
  The decimal-digit lemmas (digitsVal … decDigits_spec) follow the ones of Props/C02.lean
  (restated here so that this property does not depend on a file that is still growing).
-/
import Parsley.Lemmas.Obj
import Parsley.Model.ObjStm
import Parsley.Spec.ObjStm
namespace Parsley.ObjStm
open Parsley Parsley.Prim Parsley.Obj Parsley.Spelling Parsley.ObjStmSpec

/-! ## A. tokens at a position -/

theorem drop_at (pre rest : Bytes) : List.drop pre.length (pre ++ rest) = rest := List.drop_left

theorem peek_at (pre rest : Bytes) : peek (pre ++ rest) pre.length = rest.head? := by
  unfold peek
  cases rest with
  | nil => simp
  | cons a t => simp

theorem allowed_at (f : UInt8 → Bool) (pre ds ctx : Bytes) (hds : ∀ y ∈ ds, f y = true)
    (hctx : ∀ y, ctx.head? = some y → f y = false) :
    allowed f (pre ++ (ds ++ ctx)) pre.length = (ds, pre.length + ds.length) := by
  unfold allowed
  rw [drop_at]
  have : List.takeWhile f (ds ++ ctx) = ds := by
    rw [List.takeWhile_append_of_pos hds]
    cases ctx with
    | nil => simp
    | cons y t => simp [List.takeWhile_cons, hctx y rfl]
  rw [this]

/-- a run of white-space bytes followed by something that is neither white space nor a comment -/
theorem wsEOL_at (pre w rest : Bytes) (hw : ∀ y ∈ w, isWsEol y = true)
    (hr : ∀ y, rest.head? = some y → isWsEol y = false ∧ y ≠ 37) :
    wsEOL true (pre ++ (w ++ rest)) pre.length =
      (.ok ⟨(), pre.length, pre.length + w.length⟩, pre.length + w.length) := by
  unfold wsEOL
  obtain ⟨k, hk⟩ : ∃ k, (pre ++ (w ++ rest)).length + 1 - pre.length = k + 1 :=
    ⟨w.length + rest.length, by simp only [List.length_append]; omega⟩
  rw [hk]
  unfold wsEOLLoop
  rw [allowed_at isWsEol pre w rest hw (fun y hy => (hr y hy).1)]
  simp only
  have hp : peek (pre ++ (w ++ rest)) (pre.length + w.length) = rest.head? := by
    have := peek_at (pre ++ w) rest
    simpa [List.append_assoc] using this
  rw [hp]
  have hne : (rest.head? == some 37) = false := by
    cases hh : rest.head? with
    | none => rfl
    | some y =>
      have := (hr y hh).2
      simp [this]
  simp [hne]

/-! ### decimal digits -/

def digitsVal (ds : Bytes) (acc : Nat) : Nat := ds.foldl (fun a c => a * 10 + (c.toNat - 48)) acc

theorem digitsVal_ge (ds : Bytes) (acc : Nat) : acc ≤ digitsVal ds acc := by
  induction ds generalizing acc with
  | nil => exact Nat.le_refl _
  | cons c t ih =>
    simp only [digitsVal, List.foldl_cons]
    have := ih (acc * 10 + (c.toNat - 48))
    simp only [digitsVal] at this
    omega

theorem accDigits_eq (limit : Nat) (ds : Bytes) (acc : Nat) (h : digitsVal ds acc ≤ limit) :
    accDigits limit ds acc = some (digitsVal ds acc) := by
  induction ds generalizing acc with
  | nil => rfl
  | cons c t ih =>
    simp only [digitsVal, List.foldl_cons] at h
    have hge := digitsVal_ge t (acc * 10 + (c.toNat - 48))
    simp only [digitsVal] at hge
    unfold accDigits
    have h1 : ¬ (acc * 10 > limit) := by omega
    have h2 : ¬ (acc * 10 + (c.toNat - 48) > limit) := by omega
    simp only [h1, h2, if_false]
    exact ih _ h

/-- the checked accumulation never exceeds its limit -/
theorem accDigits_le (limit : Nat) (ds : Bytes) (acc m : Nat) (ha : acc ≤ limit)
    (h : accDigits limit ds acc = some m) : m ≤ limit := by
  induction ds generalizing acc with
  | nil => simp [accDigits] at h; omega
  | cons c t ih =>
    unfold accDigits at h
    split at h
    · cases h
    · split at h
      · cases h
      · exact ih _ (by omega) h

theorem digitsVal_append (a b : Bytes) (acc : Nat) : digitsVal (a ++ b) acc = digitsVal b (digitsVal a acc) := by
  simp [digitsVal, List.foldl_append]

theorem digit_ofNat (d : Nat) (h : d < 10) :
    isDigit (UInt8.ofNat (48 + d)) = true ∧ (UInt8.ofNat (48 + d)).toNat - 48 = d := by
  have : ∀ d : Fin 10, isDigit (UInt8.ofNat (48 + d.val)) = true ∧ (UInt8.ofNat (48 + d.val)).toNat - 48 = d.val := by
    decide
  exact this ⟨d, h⟩

theorem decDigits_spec (f n : Nat) (h : n < 10 ^ f) :
    digitsVal (decDigits f n) 0 = n ∧ (∀ y ∈ decDigits f n, isDigit y = true) ∧ decDigits f n ≠ [] := by
  induction f generalizing n with
  | zero =>
    have : n = 0 := by simp at h; exact h
    subst this
    refine ⟨rfl, ?_, by simp [decDigits]⟩
    intro y hy; simp [decDigits] at hy; subst hy; decide
  | succ f ih =>
    unfold decDigits
    split
    · rename_i hlt
      have := digit_ofNat n hlt
      refine ⟨?_, ?_, by simp⟩
      · simp only [digitsVal, List.foldl_cons, List.foldl_nil, this.2]; omega
      · intro y hy; simp only [List.mem_singleton] at hy; subst hy; exact this.1
    · rename_i hge
      have hq : n / 10 < 10 ^ f := by
        rw [Nat.pow_succ] at h
        exact Nat.div_lt_of_lt_mul (by omega)
      obtain ⟨h1, h2, h3⟩ := ih (n / 10) hq
      have hd := digit_ofNat (n % 10) (Nat.mod_lt _ (by decide))
      refine ⟨?_, ?_, by simp⟩
      · rw [digitsVal_append, h1]
        simp only [digitsVal, List.foldl_cons, List.foldl_nil, hd.2]
        omega
      · intro y hy
        simp only [List.mem_append, List.mem_singleton] at hy
        rcases hy with hy | hy
        · exact h2 y hy
        · subst hy; exact hd.1

theorem natDigits_spec (n : Nat) (h : n ≤ i64Max) :
    digitsVal (natDigits n) 0 = n ∧ (∀ y ∈ natDigits n, isDigit y = true) ∧ natDigits n ≠ [] := by
  have : i64Max < 10 ^ 64 := by decide
  exact decDigits_spec 64 n (by omega)

theorem isDigit_cases (y : UInt8) (h : isDigit y = true) : ∃ d : Fin 10, y = UInt8.ofNat (48 + d.val) := by
  simp only [isDigit, Bool.and_eq_true, decide_eq_true_eq] at h
  have h1 : 48 ≤ y.toNat := by have := UInt8.le_iff_toNat_le.mp h.1; simpa using this
  have h2 : y.toNat ≤ 57 := by have := UInt8.le_iff_toNat_le.mp h.2; simpa using this
  refine ⟨⟨y.toNat - 48, by omega⟩, ?_⟩
  apply UInt8.toNat_inj.mp
  have : 48 + (y.toNat - 48) = y.toNat := by omega
  simp only [this, UInt8.toNat_ofNat']
  have := y.toNat_lt
  omega

theorem isDigit_not_ws (y : UInt8) (h : isDigit y = true) : isWsEol y = false ∧ y ≠ 37 ∧ y ≠ 45 ∧ y ≠ 43 := by
  obtain ⟨d, rfl⟩ := isDigit_cases y h
  revert d; decide

/-- the head of a decimal spelling is a digit -/
theorem natDigits_head (n : Nat) (h : n ≤ i64Max) (rest : Bytes) :
    ∃ d, (natDigits n ++ rest).head? = some d ∧ isDigit d = true := by
  obtain ⟨-, hd, hne⟩ := natDigits_spec n h
  cases hn : natDigits n with
  | nil => exact absurd hn hne
  | cons d t => exact ⟨d, rfl, hd d (by rw [hn]; exact List.mem_cons_self)⟩

/-- `IntegerP` at a position holding the decimal spelling of `a`, not followed by a digit -/
theorem integerP_at (pre rest : Bytes) (a : Nat) (ha : a ≤ i64Max)
    (hr : ∀ y, rest.head? = some y → isDigit y = false) :
    integerP (pre ++ (natDigits a ++ rest)) pre.length =
      (.ok ⟨(a : Int), pre.length, pre.length + (natDigits a).length⟩, pre.length + (natDigits a).length) := by
  obtain ⟨hv, hd, hne⟩ := natDigits_spec a ha
  obtain ⟨d, hhd, hdd⟩ := natDigits_head a ha rest
  have hnd := isDigit_not_ws d hdd
  unfold integerP
  have hs : signPrefix (pre ++ (natDigits a ++ rest)) pre.length = (false, pre.length) := by
    unfold signPrefix
    rw [peek_at, hhd]
    simp [hnd.2.2.1, hnd.2.2.2]
  rw [hs]
  simp only
  rw [allowed_at isDigit pre (natDigits a) rest hd hr]
  simp only
  have hemp : (natDigits a).isEmpty = false := by
    cases h : natDigits a with
    | nil => exact absurd h hne
    | cons _ _ => rfl
  rw [hemp]
  have hacc := accDigits_eq i64Max (natDigits a) 0 (by rw [hv]; exact ha)
  rw [hacc, hv]
  simp

/-- the value `IntegerP` returns fits an `i64` -/
theorem integerP_le (s : Bytes) (i : Nat) (v : Located Int) (c : Nat) (h : integerP s i = (.ok v, c)) :
    v.val ≤ (i64Max : Int) := by
  unfold integerP at h
  generalize signPrefix s i = sp at h
  obtain ⟨minus, i1⟩ := sp
  simp only at h
  generalize allowed isDigit s i1 = al at h
  obtain ⟨ds, j⟩ := al
  simp only at h
  split at h
  · cases h
  · split at h
    · cases h
    · rename_i n hn
      have := accDigits_le i64Max ds 0 n (Nat.zero_le _) hn
      cases h
      simp only
      split <;> omega

/-! ## B. the definitions map -/

theorem idLt_irrefl (a : ObjId) : idLt a a = false := by
  simp [idLt]

theorem idLt_trans {a b c : ObjId} (h1 : idLt a b = true) (h2 : idLt b c = true) : idLt a c = true := by
  simp only [idLt, Bool.or_eq_true, decide_eq_true_eq, Bool.and_eq_true, beq_iff_eq] at *
  omega

theorem idLt_asymm {a b : ObjId} (h1 : idLt a b = true) : idLt b a = false := by
  cases h : idLt b a with
  | false => rfl
  | true =>
    simp only [idLt, Bool.or_eq_true, decide_eq_true_eq, Bool.and_eq_true, beq_iff_eq] at *
    omega

theorem idLt_total {a b : ObjId} (h1 : idLt a b = false) (h2 : idLt b a = false) : a = b := by
  obtain ⟨a1, a2⟩ := a
  obtain ⟨b1, b2⟩ := b
  simp only [idLt, Bool.or_eq_false_iff, decide_eq_false_iff_not, Bool.and_eq_false_iff, beq_eq_false_iff_ne] at *
  have : a1 = b1 := by omega
  subst this
  have : a2 = b2 := by omega
  subst this
  rfl

theorem idLt_ne {a b : ObjId} (h : idLt a b = true) : (b == a) = false := by
  cases hb : b == a with
  | false => rfl
  | true =>
    have : b = a := by simpa using hb
    subst this
    rw [idLt_irrefl] at h; cases h

theorem defsGet_insert_same (k : ObjId) (v : Obj) (d : Defs) : defsGet k (defsInsert k v d).2 = some v := by
  induction d with
  | nil => simp [defsInsert, defsGet]
  | cons kv t ih =>
    obtain ⟨k', v'⟩ := kv
    unfold defsInsert
    split
    · simp [defsGet]
    · split
      · rename_i h2
        simp only [defsGet]
        have : (k == k') = false := idLt_ne h2
        simp only [this, Bool.false_eq_true, if_false]
        exact ih
      · simp [defsGet]

theorem defsGet_insert_other (k k2 : ObjId) (v : Obj) (d : Defs) (hne : k2 ≠ k) :
    defsGet k2 (defsInsert k v d).2 = defsGet k2 d := by
  have hne' : (k2 == k) = false := by simpa using hne
  induction d with
  | nil => simp [defsInsert, defsGet, hne']
  | cons kv t ih =>
    obtain ⟨k', v'⟩ := kv
    unfold defsInsert
    split
    · simp [defsGet, hne']
    · split
      · simp only [defsGet]
        split
        · rfl
        · exact ih
      · rename_i h1 h2
        have : k = k' := idLt_total (by simpa using h1) (by simpa using h2)
        subst this
        simp [defsGet, hne']

/-- an identifier that cannot be looked up is not reported as already present -/
theorem defsInsert_none_of_get_none (k : ObjId) (v : Obj) (d : Defs) (h : defsGet k d = none) :
    (defsInsert k v d).1 = none := by
  induction d with
  | nil => rfl
  | cons kv t ih =>
    obtain ⟨k', v'⟩ := kv
    simp only [defsGet] at h
    split at h
    · cases h
    · rename_i hkk
      unfold defsInsert
      split
      · rfl
      · split
        · exact ih h
        · rename_i h1 h2
          have : k = k' := idLt_total (by simpa using h1) (by simpa using h2)
          subst this
          simp at hkk

/-- the BTreeMap invariant: keys strictly increasing -/
def DefsSorted : Defs → Prop
  | [] => True
  | (k, _) :: t => (∀ kv ∈ t, idLt k kv.1 = true) ∧ DefsSorted t

theorem defsGet_none_of_lt (k : ObjId) (d : Defs) (h : ∀ kv ∈ d, idLt k kv.1 = true) : defsGet k d = none := by
  induction d with
  | nil => rfl
  | cons kv t ih =>
    obtain ⟨k', v'⟩ := kv
    have h1 := h (k', v') List.mem_cons_self
    have : (k == k') = false := by
      cases hb : k == k' with
      | false => rfl
      | true =>
        have : k = k' := by simpa using hb
        subst this; rw [idLt_irrefl] at h1; cases h1
    simp only [defsGet, this, Bool.false_eq_true, if_false]
    exact ih (fun kv hkv => h kv (List.mem_cons_of_mem _ hkv))

/-- on a sorted map `insert` reports exactly what `lookup` finds -/
theorem defsInsert_old_sorted (k : ObjId) (v : Obj) (d : Defs) (hs : DefsSorted d) :
    (defsInsert k v d).1 = defsGet k d := by
  induction d with
  | nil => rfl
  | cons kv t ih =>
    obtain ⟨k', v'⟩ := kv
    obtain ⟨hlt, hst⟩ := hs
    unfold defsInsert
    split
    · rename_i h1
      -- k < k' < everything after: not present
      have hk : (k == k') = false := by
        cases hb : k == k' with
        | false => rfl
        | true =>
          have : k = k' := by simpa using hb
          subst this; rw [idLt_irrefl] at h1; cases h1
      simp only [defsGet, hk, Bool.false_eq_true, if_false]
      exact (defsGet_none_of_lt k t (fun kv hkv => idLt_trans h1 (hlt kv hkv))).symm
    · split
      · rename_i h1 h2
        have hk : (k == k') = false := idLt_ne h2
        simp only [defsGet, hk, Bool.false_eq_true, if_false]
        exact ih hst
      · rename_i h1 h2
        have : k = k' := idLt_total (by simpa using h1) (by simpa using h2)
        subst this
        simp [defsGet]

theorem defsInsert_mem (k : ObjId) (v : Obj) (d : Defs) :
    ∀ kv ∈ (defsInsert k v d).2, kv.1 = k ∨ kv ∈ d := by
  induction d with
  | nil => intro kv h; simp [defsInsert] at h; left; rw [h]
  | cons kv0 t ih =>
    obtain ⟨k', v'⟩ := kv0
    intro kv h
    unfold defsInsert at h
    split at h
    · simp only [List.mem_cons] at h ⊢
      rcases h with h | h | h
      · left; rw [h]
      · right; left; exact h
      · right; right; exact h
    · split at h
      · simp only [List.mem_cons] at h ⊢
        rcases h with h | h
        · right; left; exact h
        · rcases ih kv h with h | h
          · left; exact h
          · right; right; exact h
      · simp only [List.mem_cons] at h ⊢
        rcases h with h | h
        · left; rw [h]
        · right; right; exact h

theorem defsInsert_sorted (k : ObjId) (v : Obj) (d : Defs) (hs : DefsSorted d) :
    DefsSorted (defsInsert k v d).2 := by
  induction d with
  | nil => simp [defsInsert, DefsSorted]
  | cons kv0 t ih =>
    obtain ⟨k', v'⟩ := kv0
    obtain ⟨hlt, hst⟩ := hs
    unfold defsInsert
    split
    · rename_i h1
      refine ⟨?_, hlt, hst⟩
      intro kv hkv
      simp only [List.mem_cons] at hkv
      rcases hkv with hkv | hkv
      · rw [hkv]; exact h1
      · exact idLt_trans h1 (hlt kv hkv)
    · split
      · rename_i h1 h2
        refine ⟨?_, ih hst⟩
        intro kv hkv
        rcases defsInsert_mem k v t kv hkv with h | h
        · rw [h]; exact h2
        · exact hlt kv h
      · rename_i h1 h2
        have : k = k' := idLt_total (by simpa using h1) (by simpa using h2)
        subst this
        exact ⟨hlt, hst⟩

end Parsley.ObjStm
