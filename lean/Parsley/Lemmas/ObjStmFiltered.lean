/-
  C14 x C06/C07 - the filter decoders of the object-stream parser, INSTANTIATED.

  Model/ObjStm.lean takes the decoders as a parameter `dec`; the loader (Model/Loader.lean) instantiates it
  with `Loader.objDec f inp = Filters.applyFilter Loader.ext ⟨f.name, f.parms.map toFKvs⟩ inp`, i.e. with
  the C06 model of the three decoders and the C07 model of the predictor tail.  This file is about THAT
  instantiation:

    toF, decodeLoop_objDec     the `for filter in &filters` loop of `ObjStreamP::parse` over `objDec` IS
                               C06's `Filters.runChain Loader.ext` on the translated filter list - for every
                               list, known names or not, on every input (same result, same error kind)
    filters_toF                the two models of `StreamT::filters` agree: `Filters.filters` on the translated
                               dictionary = `ObjStm.filters` translated (so C06's `filters_shape` decision
                               table and `decode_stream_roundtrip` speak about the object-stream parser too)
    objStmParse_decodeStream   hence: `ObjStreamP` on a filtered stream = `parseViews` on what C06's
                               `decodeStream` returns for the translated dictionary
    NoPredictor, predictorOf_one, ParmsOf, flate_pred_layer
                               the /DecodeParms dictionary read declaratively (through `dictGet`): no
                               /Predictor other than 1, or the parameters of a C07 predictor
    FilterSpelled, filters_of_spelled
                               the five accepting spellings of /Filter [/DecodeParms] -> the filter list
  Proof-only.  Uses C06 (`layer_roundtrip`, `inflate_stored_roundtrip`) and C07 (`predictor_roundtrip`)
  through Lemmas/LoaderE2EFilter.lean.
-/
import Parsley.Props.C14
import Parsley.Lemmas.LoaderE2EFilter
import Parsley.Lemmas.LoaderDecoders
namespace Parsley.C14
open Parsley Parsley.Prim Parsley.Obj Parsley.ObjStm Parsley.Loader

/-! ## the translation the loader applies to a filter -/

/-- `Loader.objDec` hands `Filters.applyFilter` the filter with its /DecodeParms translated -/
def toF (f : ObjStm.Filter) : Filters.Filter := ⟨f.name, f.parms.map toFKvs⟩

theorem objDec_eq (f : ObjStm.Filter) (inp : Bytes) :
    objDec f inp = Filters.applyFilter Loader.ext (toF f) inp := rfl

theorem names_eq : ObjStm.nFlate = Filters.nFlate ∧ ObjStm.nA85 = Filters.nA85 ∧
    ObjStm.nAHex = Filters.nHex ∧ ObjStm.nDCT = Filters.nDCT := ⟨rfl, rfl, rfl, rfl⟩

theorem keys_eq : ObjStm.kFilter = Filters.kFilter ∧ ObjStm.kDecodeParms = Filters.kDecodeParms ∧
    Loader.kDecodeParms = ObjStm.kDecodeParms ∧ Loader.kPredictor = Filters.kPredictor := ⟨rfl, rfl, rfl, rfl⟩

theorem known_iff (n : Bytes) : knownFilter n = true ↔
    (n = Filters.nFlate ∨ n = Filters.nA85 ∨ n = Filters.nHex ∨ n = Filters.nDCT) := by
  simp only [knownFilter, Bool.or_eq_true, beq_iff_eq, names_eq.1, names_eq.2.1, names_eq.2.2.1, names_eq.2.2.2]
  constructor
  · rintro (((h | h) | h) | h)
    · exact .inl h
    · exact .inr (.inl h)
    · exact .inr (.inr (.inl h))
    · exact .inr (.inr (.inr h))
  · rintro (h | h | h | h)
    · exact .inl (.inl (.inl h))
    · exact .inl (.inl (.inr h))
    · exact .inl (.inr h)
    · exact .inr h

/-- a name the object-stream loop refuses is refused by `applyFilter` with the same error kind -/
theorem applyFilter_unknown (ext : Filters.Ext) (f : Filters.Filter) (x : Bytes) (h : knownFilter f.name = false) :
    Filters.applyFilter ext f x = .err .guard := by
  have hk : ¬ (f.name = Filters.nFlate ∨ f.name = Filters.nA85 ∨ f.name = Filters.nHex ∨ f.name = Filters.nDCT) := by
    rw [← known_iff]; simp [h]
  unfold Filters.applyFilter
  rw [if_neg (fun e => hk (.inl e)), if_neg (fun e => hk (.inr (.inl e))),
    if_neg (fun e => hk (.inr (.inr (.inl e)))), if_neg (fun e => hk (.inr (.inr (.inr e))))]

/-- **the composition**: the filter loop of `ObjStreamP::parse`, run with the loader's decoders, is C06's
    `runChain` over the loader's `ext` on the translated filter list - for EVERY filter list and input. -/
theorem decodeLoop_objDec : ∀ (fs : List ObjStm.Filter) (d : Bytes),
    decodeLoop objDec fs d = Filters.runChain Loader.ext (fs.map toF) d
  | [], d => rfl
  | f :: t, d => by
    simp only [decodeLoop, List.map_cons, Filters.runChain]
    cases hk : knownFilter f.name with
    | false =>
      have : Filters.applyFilter Loader.ext (toF f) d = .err .guard := applyFilter_unknown _ _ _ hk
      simp only [Bool.not_false, if_true, this]
    | true =>
      simp only [Bool.not_true, Bool.false_eq_true, if_false, objDec_eq]
      cases Filters.applyFilter Loader.ext (toF f) d with
      | ok d' => exact decodeLoop_objDec t d'
      | err k => rfl
      | panic p => rfl

/-! ## the two models of `StreamT::filters` agree -/

def mapRes {α β : Type} (g : α → β) : Res α → Res β
  | .ok a => .ok (g a)
  | .err k => .err k
  | .panic p => .panic p

theorem toFObj_name (o : Obj) (n : Bytes) : toFObj o = .name n ↔ o = .name n := by
  cases o <;> simp [toFObj]

theorem toFObj_int (o : Obj) (i : Int) : toFObj o = .int i ↔ o = .int i := by
  cases o <;> simp [toFObj]

theorem getName_toFKvs (d : Dict) (k : Bytes) : Filters.getNameObj (toFKvs d) k = ObjStm.getName d k := by
  unfold Filters.getNameObj ObjStm.getName
  rw [LoaderE2E.lookup_toFKvs]
  cases dictGet k d with
  | none => rfl
  | some o => cases o <;> rfl

theorem getDict_toFKvs (d : Dict) (k : Bytes) : Filters.getDict (toFKvs d) k = (ObjStm.getDict d k).map toFKvs := by
  unfold Filters.getDict ObjStm.getDict
  rw [LoaderE2E.lookup_toFKvs]
  cases dictGet k d with
  | none => rfl
  | some o => cases o <;> rfl

theorem getArray_toFKvs (d : Dict) (k : Bytes) : Filters.getArray (toFKvs d) k = (ObjStm.getArray d k).map toFList := by
  unfold Filters.getArray ObjStm.getArray
  rw [LoaderE2E.lookup_toFKvs]
  cases dictGet k d with
  | none => rfl
  | some o => cases o <;> rfl

theorem toFList_length : ∀ l : List Obj, (toFList l).length = l.length
  | [] => rfl
  | _ :: t => by simp [toFList, toFList_length t]

theorem filtersNames_toF : ∀ (fa : List Obj) (acc : List ObjStm.Filter),
    Filters.namesOnly (toFList fa) (acc.reverse.map toF) = mapRes (List.map toF) (filtersNames fa acc)
  | [], acc => by simp [toFList, Filters.namesOnly, filtersNames, mapRes]
  | o :: t, acc => by
    cases o with
    | name n =>
      simp only [toFList, toFObj, Filters.namesOnly, filtersNames]
      have := filtersNames_toF t (⟨n, none⟩ :: acc)
      simpa [toF] using this
    | _ => simp [toFList, toFObj, Filters.namesOnly, filtersNames, mapRes]

theorem filtersZip_toF : ∀ (fa da : List Obj) (acc : List ObjStm.Filter),
    Filters.zipFilters (toFList fa) (toFList da) (acc.reverse.map toF) = mapRes (List.map toF) (filtersZip fa da acc)
  | [], da, acc => by cases da <;> simp [toFList, Filters.zipFilters, filtersZip, mapRes]
  | f :: ft, [], acc => by simp [toFList, Filters.zipFilters, filtersZip, mapRes]
  | f :: ft, p :: pt, acc => by
    cases f with
    | name n =>
      cases p with
      | null =>
        simp only [toFList, toFObj, Filters.zipFilters, filtersZip]
        have := filtersZip_toF ft pt (⟨n, none⟩ :: acc)
        simpa [toF] using this
      | dict kv =>
        simp only [toFList, toFObj, Filters.zipFilters, filtersZip]
        have := filtersZip_toF ft pt (⟨n, some kv⟩ :: acc)
        simpa [toF] using this
      | _ => simp [toFList, toFObj, Filters.zipFilters, filtersZip, mapRes]
    | _ => cases p <;> simp [toFList, toFObj, Filters.zipFilters, filtersZip, mapRes]

/-- **filters_toF**: C06's model of `StreamT::filters` on the translated dictionary returns the
    translation of what C14's model returns on the dictionary - same filters, same order, same parameters,
    same error in the same cases. -/
theorem filters_toF (d : Dict) : Filters.filters (toFKvs d) = mapRes (List.map toF) (ObjStm.filters d) := by
  unfold Filters.filters ObjStm.filters
  rw [← keys_eq.1, ← keys_eq.2.1, getName_toFKvs, getDict_toFKvs, getArray_toFKvs, getArray_toFKvs]
  cases getName d ObjStm.kFilter with
  | some n =>
    simp only
    cases ObjStm.getDict d ObjStm.kDecodeParms with
    | some p => simp [mapRes, toF]
    | none =>
      cases ObjStm.getArray d ObjStm.kDecodeParms with
      | some a => simp [mapRes]
      | none => simp [mapRes, toF]
  | none =>
    simp only
    cases ObjStm.getArray d ObjStm.kFilter with
    | none => simp [mapRes]
    | some fa =>
      cases ObjStm.getArray d ObjStm.kDecodeParms with
      | none =>
        simp only [Option.map_some, Option.map_none]
        exact filtersNames_toF fa []
      | some da =>
        simp only [Option.map_some, toFList_length]
        split
        · simp [mapRes]
        · exact filtersZip_toF fa da []

/-- `ObjStreamP::parse` on a stream with at least one filter = the view parsers on what C06's
    `decode_stream` model returns for the translated dictionary and the bytes from the cursor on. -/
theorem objStmParse_decodeStream (vbase : Nat) (ctx : Ctx) (dict : Dict) (view : Bytes) (cur : Nat)
    (n first : Nat) (f : ObjStm.Filter) (fs : List ObjStm.Filter)
    (hdict : getDictInfo dict = .ok (n, first)) (hfs : ObjStm.filters dict = .ok (f :: fs))
    (henc : ctx.encrypted = false) :
    objStmParse objDec vbase ctx dict view cur =
      match Filters.decodeStream Loader.ext (toFKvs dict) (view.drop cur) with
      | .ok (data, _) => parseViews 0 ctx n first data
      | .err k => (.err k, ctx)
      | .panic p => (.panic p, ctx) := by
  unfold objStmParse Filters.decodeStream
  rw [filters_toF, hfs]
  simp only [hdict, henc, mapRes, Bool.false_eq_true, if_false, decodeLoop_objDec]
  cases Filters.runChain Loader.ext (List.map toF (f :: fs)) (List.drop cur view) <;> rfl

/-! ## /DecodeParms, declaratively -/

/-- the parameters name no predictor other than 1 (what an encoder that does not predict writes:
    no /DecodeParms, `null`, a dictionary without /Predictor, or /Predictor 1) -/
def NoPredictor (parms : Option Dict) : Prop :=
  ∀ P, parms = some P → ∀ v : Int, dictGet Loader.kPredictor P = some (.int v) → v = 1

theorem predictorOf_one (parms : Option Dict) (h : NoPredictor parms) :
    Filters.predictorOf (parms.map toFKvs) = 1 := by
  cases parms with
  | none => rfl
  | some P =>
    simp only [Option.map_some, Filters.predictorOf]
    rw [← keys_eq.2.2.2, LoaderE2E.lookup_toFKvs]
    cases hg : dictGet Loader.kPredictor P with
    | none => rfl
    | some o =>
      cases o with
      | int v => simp [toFObj, h P rfl v hg]
      | _ => rfl

/-- the /DecodeParms dictionary `P` carries the predictor parameters `p`: each of /Columns, /Colors and
    /BitsPerComponent written out, or absent when its value is the default of ISO 32000-1 Table 8
    (`PredSpec.defaultColumns` = 1, `defaultColors` = 1, `defaultBpc` = 8), within the sizes C07's round
    trip is stated for -/
structure ParmsOf (P : Dict) (p : PredSpec.Params) : Prop where
  pred : dictGet Loader.kPredictor P = some (.int (p.predictor : Int))
  cols : dictGet Loader.kColumns P = some (.int (p.columns : Int)) ∨
    (dictGet Loader.kColumns P = none ∧ p.columns = PredSpec.defaultColumns)
  colors : dictGet Loader.kColors P = some (.int (p.colors : Int)) ∨
    (dictGet Loader.kColors P = none ∧ p.colors = PredSpec.defaultColors)
  bpc : dictGet Loader.kBpc P = some (.int (p.bpc : Int)) ∨
    (dictGet Loader.kBpc P = none ∧ p.bpc = PredSpec.defaultBpc)
  acc : p.accepted
  colsLt : p.columns < 18446744073709551616
  fit1 : p.colors * p.bpc < 18446744073709551616
  fit2 : p.columns * p.colors * p.bpc < 18446744073709551616

/-- what the loader's predictor tail computes on the translated /DecodeParms dictionary: the option glue
    reads every absent entry as the specification's default (`C07.transformTail_spelled`) -/
theorem ext_post_spelled (P : Dict) (p : PredSpec.Params) (data : Bytes) (hP : ParmsOf P p) :
    Loader.ext.post (toFKvs P) data =
      Pred.transformTail (some (p.predictor : Int)) (some (p.colors : Int)) (some (p.columns : Int))
        (some (p.bpc : Int)) data := by
  have sp : ∀ (k : Bytes) (v dflt : Nat),
      (dictGet k P = some (.int (v : Int)) ∨ (dictGet k P = none ∧ v = dflt)) →
      PredSpec.Spelled v dflt (Loader.fInt (toFKvs P) k) := by
    intro k v dflt h
    rcases h with h | ⟨h, e⟩
    · exact .inl (LoaderE2E.fInt_toFKvs_some P _ _ h)
    · exact .inr ⟨LoaderE2E.fInt_toFKvs_none P _ h, e⟩
  exact C07.transformTail_spelled p _ _ _ _ data (sp _ _ _ (.inl hP.pred)) (sp _ _ _ hP.colors)
    (sp _ _ _ hP.cols) (sp _ _ _ hP.bpc)

/-- **Flate + predictor layer**: any zlib stream that inflates to the forward-filtered rows (C07's
    `PredSpec.predict`), decoded by the loader's FlateDecode with these /DecodeParms, yields the rows. -/
theorem flate_pred_layer (P : Dict) (p : PredSpec.Params) (rows : List Bytes) (e : Bytes)
    (hP : ParmsOf P p)
    (hrows : ∀ r ∈ rows, r.length = PredSpec.rowBytes p.columns p.colors p.bpc)
    (hne : p.predictor = 2 ∨ rows ≠ [])
    (hinf : Inflate.inflate e = .ok (PredSpec.predict p rows)) :
    objDec ⟨ObjStm.nFlate, some P⟩ e = .ok rows.flatten := by
  have hp1 : Filters.predictorOf (some (toFKvs P)) ≠ 1 := by
    rw [LoaderE2E.predictorOf_toFKvs P _ hP.pred]
    rcases hP.acc with ⟨h, _⟩ | ⟨h, _⟩ <;> omega
  rw [objDec_eq]
  unfold Filters.applyFilter
  simp only [toF, names_eq.1, if_true, Option.map_some]
  rw [LoaderE2E.flateDecode_post Loader.ext _ _ _ hp1 hinf]
  simp only [Option.getD_some]
  rw [ext_post_spelled P p _ hP]
  exact C07.predictor_roundtrip p rows hP.acc hP.colsLt hP.fit1 hP.fit2 hrows hne

/-- a layer without predictor: C06's `layer_roundtrip` through the loader's decoder -/
theorem plain_layer (f : ObjStm.Filter) (x e : Bytes) (h : C06.LayerEnc f.name x e) (hp : NoPredictor f.parms) :
    objDec f e = .ok x := by
  rw [objDec_eq]
  exact C06.layer_roundtrip Loader.ext (toF f) x e h (predictorOf_one f.parms hp)

theorem layerEnc_known {n x e : Bytes} (h : C06.LayerEnc n x e) : knownFilter n = true := by
  rw [known_iff]
  cases h <;> first | exact .inl rfl | exact .inr (.inl rfl) | exact .inr (.inr (.inl rfl))

/-! ## /Filter [/DecodeParms], declaratively -/

/-- the /DecodeParms array entry an encoder writes for a filter: `null` or the dictionary -/
def parmObj (f : ObjStm.Filter) : Obj :=
  match f.parms with
  | none => .null
  | some P => .dict P

/-- **how the dictionary spells the filter list** (the accepting rows of C06's `filters_shape`):
    no /Filter; a name without usable /DecodeParms; a name with a parameter dictionary; an array of
    names without /DecodeParms; an array of names with a parallel array of `null`/dictionary entries. -/
inductive FilterSpelled (dict : Dict) : List ObjStm.Filter → Prop
  | none (hf : dictGet ObjStm.kFilter dict = none) : FilterSpelled dict []
  | name (n : Bytes) (hf : dictGet ObjStm.kFilter dict = some (.name n))
      (hp : ObjStm.getDict dict ObjStm.kDecodeParms = none) (ha : ObjStm.getArray dict ObjStm.kDecodeParms = none) :
      FilterSpelled dict [⟨n, none⟩]
  | nameParms (n : Bytes) (P : Dict) (hf : dictGet ObjStm.kFilter dict = some (.name n))
      (hp : dictGet ObjStm.kDecodeParms dict = some (.dict P)) : FilterSpelled dict [⟨n, some P⟩]
  | names (ns : List Bytes) (hf : dictGet ObjStm.kFilter dict = some (.arr (ns.map Obj.name)))
      (ha : ObjStm.getArray dict ObjStm.kDecodeParms = none) : FilterSpelled dict (ns.map fun n => ⟨n, none⟩)
  | namesParms (fs : List ObjStm.Filter)
      (hf : dictGet ObjStm.kFilter dict = some (.arr (fs.map fun f => .name f.name)))
      (hp : dictGet ObjStm.kDecodeParms dict = some (.arr (fs.map parmObj))) : FilterSpelled dict fs

theorem filtersNames_ok : ∀ (ns : List Bytes) (acc : List ObjStm.Filter),
    filtersNames (ns.map Obj.name) acc = .ok (acc.reverse ++ ns.map fun n => ⟨n, none⟩)
  | [], acc => by simp [filtersNames]
  | n :: t, acc => by simp [filtersNames, filtersNames_ok t]

theorem filtersZip_ok : ∀ (fs acc : List ObjStm.Filter),
    filtersZip (fs.map fun f => .name f.name) (fs.map parmObj) acc = .ok (acc.reverse ++ fs)
  | [], acc => by simp [filtersZip]
  | f :: t, acc => by
    obtain ⟨n, parms⟩ := f
    cases parms with
    | none => simp [filtersZip, parmObj, filtersZip_ok t]
    | some P => simp [filtersZip, parmObj, filtersZip_ok t]

/-- the model's `StreamT::filters` on a dictionary that spells `fs` returns `fs` -/
theorem filters_of_spelled (dict : Dict) (fs : List ObjStm.Filter) (h : FilterSpelled dict fs) :
    ObjStm.filters dict = .ok fs := by
  cases h with
  | none hf => simp [ObjStm.filters, ObjStm.getName, ObjStm.getArray, hf]
  | name n hf hp ha => simp [ObjStm.filters, ObjStm.getName, hf, hp, ha]
  | nameParms n P hf hp => simp [ObjStm.filters, ObjStm.getName, ObjStm.getDict, hf, hp]
  | names ns hf ha =>
    simp [ObjStm.filters, ObjStm.getName, ObjStm.getArray, hf, filtersNames_ok] at ha ⊢
    simp [ha]
  | namesParms fs hf hp =>
    simp [ObjStm.filters, ObjStm.getName, ObjStm.getArray, hf, hp, filtersZip_ok]

/-! ## no panic, for the loader's decoders -/

/-- `objstm_never_panics` instantiated: with the loader's decoders (C06/C07 models) no panic site of
    `ObjStreamP::parse` is reachable; the only hypothesis on the decoders left is the size clause
    `LoaderDecoders.DecodedSizes` (outputs of more than 2^63 bytes need inputs beyond any Rust buffer). -/
theorem objstm_never_panics_loader (hs : LoaderDecoders.DecodedSizes) (vbase : Nat) (ctx : Ctx) (dict : Dict)
    (view : Bytes) (cur : Nat) (hview : vbase + view.length ≤ 2 ^ 63)
    (hdepth : ctx.depth.cur ≤ ctx.depth.max) (hsorted : DefsSorted ctx.defs) :
    (objStmParse objDec vbase ctx dict view cur).1.isPanic = false :=
  objstm_never_panics objDec vbase ctx dict view cur
    (fun f d p => LoaderDecoders.applyFilter_no_panic (toF f) d p)
    (fun f d d' h => LoaderDecoders.applyFilter_buffer hs (toF f) d d' h) hview hdepth hsorted

end Parsley.C14
