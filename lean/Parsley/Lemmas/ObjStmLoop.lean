/-
  C14: the content loop `parse_stream` (model `streamLoop`): soundness + no panic for EVERY
  input, and completeness on well-formed contents.
-/
import Parsley.Lemmas.ObjStm
import Parsley.Props.C16
namespace Parsley.ObjStm
open Parsley Parsley.Prim Parsley.Obj Parsley.ObjStmSpec

/-- "the object located at offset `o`" for the object parser of C02/C16: optional white space
    and comments, then `parse_pdf_obj`; the span runs from the first byte of the object to the
    cursor after it -/
def readAt (c : Depth) (s : Bytes) : Reader := fun o =>
  match wsEOL true s o with
  | (.ok _, j) =>
    match (parseObj c s j).1 with
    | (.ok v, e) => some ⟨v.val, j, e⟩
    | _ => none
  | _ => none

def mkMember (p : Nat × Located Obj) : Member := ⟨p.1, 0, p.2⟩

def definedIn (d : Defs) : ObjId → Bool := fun k => (defsGet k d).isSome

theorem usize_room : i64Max + 2 ^ 63 < usizeLimit := by decide

/-- what the content loop guarantees -/
def StreamGood (c : Depth) (s : Bytes) (pairs : Meta) (ctx : Ctx) (i : Nat) (acc : List Member) : SR → Prop
  | (.ok res, ctx') =>
    ∃ r, res = acc.reverse ++ r.map mkMember ∧ Extracts (readAt c s) s.length i pairs r ∧
      Fresh (definedIn ctx.defs) (pairs.map (·.1)) ∧
      ctx'.depth = c ∧ ctx'.encrypted = ctx.encrypted ∧ DefsSorted ctx'.defs ∧
      (∀ p ∈ r, defsGet (p.1, 0) ctx'.defs = some p.2.val) ∧
      (∀ k, (∀ id ∈ pairs.map (·.1), k ≠ (id, 0)) → defsGet k ctx'.defs = defsGet k ctx.defs)
  | (.err _, _) => True
  | (.panic _, _) => False

theorem streamLoop_good (vstart : Nat) (s : Bytes) (c : Depth) (hc : c.cur ≤ c.max) (hv : vstart ≤ 2 ^ 63) :
    ∀ (pairs : Meta) (ctx : Ctx) (i : Nat) (acc : List Member),
      ctx.depth = c → DefsSorted ctx.defs → (∀ p ∈ pairs, p.2 ≤ i64Max) →
      StreamGood c s pairs ctx i acc (streamLoop vstart s pairs ctx i acc) := by
  intro pairs
  induction pairs with
  | nil =>
    intro ctx i acc hd hs _
    rw [streamLoop]
    exact ⟨[], by simp, rfl, ⟨List.nodup_nil, by simp⟩, hd, rfl, hs, by simp, fun _ _ => rfl⟩
  | cons p t ih =>
    obtain ⟨onum, ofs⟩ := p
    intro ctx i acc hd hs hb
    have hofs : ofs ≤ i64Max := hb (onum, ofs) List.mem_cons_self
    rw [streamLoop]
    split
    · trivial
    · rename_i hio
      split
      · trivial
      · rename_i hlen
        split
        · rename_i hov
          have := usize_room
          omega
        · skip
          have hlen' : ofs ≤ s.length := by simpa using hlen
          have hw := wsEOL_progress true s ofs hlen'
          split
          · trivial
          · rename_i heq; rw [heq] at hw; exact hw.elim
          · rename_i u j heq
            rw [heq] at hw
            obtain ⟨w1, w2, -⟩ := hw
            rw [hd]
            have hdr := C16.depth_restored c s j w2 hc
            have hnp := C16.parse_never_panics c s j w2 hc
            split
            · trivial
            · rename_i p0 c0 d' heq2
              rw [heq2] at hnp; simp [Res.isPanic] at hnp
            · rename_i o e d' heq2
              have hloc := C16.obj_loc c s j w2 hc o e (by rw [heq2])
              have hd' : d' = c := by rw [heq2] at hdr; exact hdr
              subst hd'
              have hold := defsInsert_old_sorted (onum, 0) o.val ctx.defs hs
              have hsort := defsInsert_sorted (onum, 0) o.val ctx.defs hs
              have hsame := defsGet_insert_same (onum, 0) o.val ctx.defs
              split
              · trivial
              · rename_i defs' hins
                rw [hins] at hold hsort hsame
                simp only at hold hsort hsame
                have hih := ih { ctx with defs := defs', depth := d' } e
                  (⟨onum, 0, ⟨o.val, j, e⟩⟩ :: acc) rfl hsort
                  (fun p hp => hb p (List.mem_cons_of_mem _ hp))
                revert hih
                generalize streamLoop vstart s t { ctx with defs := defs', depth := d' } e
                  (⟨onum, 0, ⟨o.val, j, e⟩⟩ :: acc) = res
                obtain ⟨r0, ctx'⟩ := res
                cases r0 with
                | err k => intro _; trivial
                | panic p => intro h; exact h
                | ok res =>
                  intro ⟨r, h1, h2, ⟨h3a, h3b⟩, h4, h5, h6, h7, h8⟩
                  have hread : readAt d' s ofs = some ⟨o.val, j, e⟩ := by
                    simp only [readAt, heq, heq2]
                  have hnotin : onum ∉ t.map (·.1) := by
                    intro hin
                    have := h3b onum hin
                    simp [definedIn, hsame] at this
                  have hother : ∀ k, k ≠ (onum, 0) → defsGet k defs' = defsGet k ctx.defs := by
                    intro k hk
                    have := defsGet_insert_other (onum, 0) k o.val ctx.defs hk
                    rw [hins] at this; exact this
                  refine ⟨(onum, ⟨o.val, j, e⟩) :: r, ?_, ?_, ?_, h4, h5, h6, ?_, ?_⟩
                  · rw [h1]; simp [mkMember]
                  · exact ⟨⟨o.val, j, e⟩, r, rfl, by omega, hlen', hread, h2⟩
                  · refine ⟨?_, ?_⟩
                    · simp only [List.map_cons, List.nodup_cons]; exact ⟨hnotin, h3a⟩
                    · intro id hid
                      simp only [List.map_cons, List.mem_cons] at hid
                      rcases hid with hid | hid
                      · subst hid; simp [definedIn, ← hold]
                      · have hne : (id, 0) ≠ (onum, 0) := by
                          intro h; cases h; exact hnotin hid
                        have := h3b id hid
                        simp only [definedIn] at this ⊢
                        rw [← hother _ hne]; exact this
                  · intro p hp
                    simp only [List.mem_cons] at hp
                    rcases hp with hp | hp
                    · subst hp
                      simp only
                      rw [h8 (onum, 0) (fun id hid h => by cases h; exact hnotin hid)]
                      exact hsame
                    · exact h7 p hp
                  · intro k hk
                    have hk1 : k ≠ (onum, 0) := hk onum (by simp)
                    rw [h8 k (fun id hid => hk id (by simp only [List.map_cons, List.mem_cons]; right; exact hid))]
                    exact hother k hk1

/-- the reader is a function: a well-formed content has exactly one extraction -/
theorem extracts_unique (rd : Reader) (size : Nat) : ∀ (pairs : Meta) (e : Nat) (r r' : List (Nat × Located Obj)),
    Extracts rd size e pairs r → Extracts rd size e pairs r' → r = r' := by
  intro pairs
  induction pairs with
  | nil => intro e r r' h h'; simp only [Extracts] at h h'; rw [h, h']
  | cons p t ih =>
    obtain ⟨id, ofs⟩ := p
    intro e r r' h h'
    obtain ⟨o, r1, rfl, -, -, ho, h1⟩ := h
    obtain ⟨o', r1', rfl, -, -, ho', h1'⟩ := h'
    rw [ho] at ho'; cases ho'
    rw [ih _ _ _ h1 h1']

/-- **completeness**: on a well-formed content with fresh identifiers the loop does not fail -/
theorem streamLoop_complete (vstart : Nat) (s : Bytes) (c : Depth) (hc : c.cur ≤ c.max) (hv : vstart ≤ 2 ^ 63) :
    ∀ (pairs : Meta) (ctx : Ctx) (i : Nat) (acc : List Member) (r : List (Nat × Located Obj)),
      ctx.depth = c → (∀ p ∈ pairs, p.2 ≤ i64Max) →
      Extracts (readAt c s) s.length i pairs r → Fresh (definedIn ctx.defs) (pairs.map (·.1)) →
      ∃ ctx', streamLoop vstart s pairs ctx i acc = (.ok (acc.reverse ++ r.map mkMember), ctx') := by
  intro pairs
  induction pairs with
  | nil =>
    intro ctx i acc r _ _ hex _
    simp only [Extracts] at hex
    subst hex
    exact ⟨ctx, by simp [streamLoop]⟩
  | cons p t ih =>
    obtain ⟨onum, ofs⟩ := p
    intro ctx i acc r hd hb hex hfr
    obtain ⟨o, r1, rfl, hio, hlen, hread, hrest⟩ := hex
    have hofs : ofs ≤ i64Max := hb (onum, ofs) List.mem_cons_self
    -- unfold the reader
    simp only [readAt] at hread
    have hw := wsEOL_progress true s ofs hlen
    cases hws : wsEOL true s ofs with
    | mk rw j =>
      rw [hws] at hread hw
      cases rw with
      | err k => simp at hread
      | panic p => simp at hread
      | ok u =>
        obtain ⟨w1, w2, -⟩ := hw
        simp only at hread
        have hdr := C16.depth_restored c s j w2 hc
        cases hpo : parseObj c s j with
        | mk re d' =>
          obtain ⟨ro, e⟩ := re
          rw [hpo] at hread hdr
          simp only at hdr
          subst hdr
          cases ro with
          | err k => simp at hread
          | panic p => simp at hread
          | ok v =>
            simp only [Option.some.injEq] at hread
            subst hread
            obtain ⟨hnd, hfresh⟩ := hfr
            simp only [List.map_cons, List.nodup_cons] at hnd
            have hnone : defsGet (onum, 0) ctx.defs = none := by
              have := hfresh onum (by simp)
              simpa [definedIn] using this
            have hins := defsInsert_none_of_get_none (onum, 0) v.val ctx.defs hnone
            cases hi2 : defsInsert (onum, 0) v.val ctx.defs with
            | mk old defs' =>
              rw [hi2] at hins
              simp only at hins
              subst hins
              have hother : ∀ k, k ≠ (onum, 0) → defsGet k defs' = defsGet k ctx.defs := by
                intro k hk
                have := defsGet_insert_other (onum, 0) k v.val ctx.defs hk
                rw [hi2] at this; exact this
              obtain ⟨ctx', hctx'⟩ := ih { ctx with defs := defs', depth := d' } e
                (⟨onum, 0, ⟨v.val, j, e⟩⟩ :: acc) r1 rfl
                (fun p hp => hb p (List.mem_cons_of_mem _ hp)) hrest
                ⟨hnd.2, by
                  intro id hid
                  have hne : (id, 0) ≠ (onum, 0) := by
                    intro h; cases h; exact hnd.1 hid
                  have := hfresh id (by simp only [List.map_cons, List.mem_cons]; right; exact hid)
                  simp only [definedIn] at this ⊢
                  rw [hother _ hne]; exact this⟩
              refine ⟨ctx', ?_⟩
              rw [streamLoop]
              have h1 : ¬ (i > ofs) := by omega
              have h2 : ¬ (vstart + ofs ≥ usizeLimit) := by have := usize_room; omega
              simp only [h1, h2, hlen, hws, hd, hpo, hi2, if_false, decide_true, Bool.not_true, Bool.false_eq_true]
              rw [hctx']
              simp [mkMember]

/-! ## the reader is `parse_pdf_obj` at the offset -/

theorem takeWhile_dropWhile_nil {α : Type} (p : α → Bool) (l : List α) : (l.dropWhile p).takeWhile p = [] := by
  induction l with
  | nil => rfl
  | cons a t ih =>
    simp only [List.dropWhile_cons]
    split
    · exact ih
    · rename_i h; simp [h]

/-- where a maximal run of allowed bytes ends, no further allowed byte starts -/
theorem allowed_idem (f : UInt8 → Bool) (s : Bytes) (i : Nat) :
    allowed f s (allowed f s i).2 = ([], (allowed f s i).2) := by
  simp only [allowed]
  have hsplit := List.takeWhile_append_dropWhile (p := f) (l := s.drop i)
  have h0 : (s.drop i).drop ((s.drop i).takeWhile f).length = (s.drop i).dropWhile f := by
    conv => lhs; arg 2; rw [← hsplit]
    exact List.drop_left
  have h1 : s.drop (i + ((s.drop i).takeWhile f).length) = (s.drop i).dropWhile f := by
    rw [← List.drop_drop]; exact h0
  rw [h1, takeWhile_dropWhile_nil]
  simp

/-- the white-space/comment loop stops where neither white space nor a comment starts -/
theorem wsEOLLoop_stop (f : Nat) (s : Bytes) (i j : Nat) (e e' : Bool)
    (h : wsEOLLoop f s i e = some (j, e')) :
    allowed isWsEol s j = ([], j) ∧ (peek s j == some 37) = false := by
  induction f generalizing i e with
  | zero => simp [wsEOLLoop] at h
  | succ f ih =>
    unfold wsEOLLoop at h
    have hid := allowed_idem isWsEol s i
    generalize allowed isWsEol s i = a at *
    obtain ⟨v, k⟩ := a
    simp only at h hid
    split at h
    · split at h
      · exact ih _ _ h
      · cases h
    · rename_i hp
      cases h
      exact ⟨hid, by simpa using hp⟩

/-- `WhitespaceEOL(true)` is idempotent -/
theorem wsEOL_idem (s : Bytes) (i j : Nat) (u : Located Unit) (hj : j ≤ s.length)
    (h : wsEOL true s i = (.ok u, j)) : ∃ u', wsEOL true s j = (.ok u', j) := by
  unfold wsEOL at h
  cases hl : wsEOLLoop (s.length + 1 - i) s i true with
  | none => rw [hl] at h; cases h
  | some je =>
    obtain ⟨j0, e0⟩ := je
    rw [hl] at h
    simp only [Bool.not_true, Bool.and_false, Bool.false_eq_true, if_false] at h
    cases h
    obtain ⟨h1, h2⟩ := wsEOLLoop_stop _ _ _ _ _ _ hl
    unfold wsEOL
    obtain ⟨k, hk⟩ : ∃ k, s.length + 1 - j = k + 1 := ⟨s.length - j, by omega⟩
    rw [hk]
    unfold wsEOLLoop
    rw [h1]
    simp [h2]

/-- `parse_pdf_obj` skips the white space itself: starting after it changes nothing -/
theorem parseObj_skip_ws (c : Depth) (s : Bytes) (o j : Nat) (u : Located Unit) (hj : j ≤ s.length)
    (hlt : c.cur < c.max) (hws : wsEOL true s o = (.ok u, j)) : parseObj c s j = parseObj c s o := by
  obtain ⟨u', hidem⟩ := wsEOL_idem s o j u hj hws
  unfold parseObj
  obtain ⟨b, hb⟩ : ∃ b, c.max - c.cur = b + 1 := ⟨c.max - c.cur - 1, by omega⟩
  have hne : (c.cur == c.max) = false := by simp; omega
  rw [hb]
  unfold parseObjB
  simp only [hne, Bool.false_eq_true, if_false]
  have : objParse (parseObjB c.max b) (c.cur + 1) s j = objParse (parseObjB c.max b) (c.cur + 1) s o := by
    unfold objParse
    simp only [hws, hidem]
  rw [this]

/-- **the object located at offset `o` is what `parse_pdf_obj` itself reads at `o`**: the explicit
    white-space skip before it changes neither the value nor the end; the span starts at the
    first byte of the object -/
theorem readAt_eq_parseObj (c : Depth) (s : Bytes) (o : Nat) (ho : o ≤ s.length) (hlt : c.cur < c.max) :
    readAt c s o =
      match wsEOL true s o with
      | (.ok _, j) => (match (parseObj c s o).1 with | (.ok v, e) => some ⟨v.val, j, e⟩ | _ => none)
      | _ => none := by
  have hw := wsEOL_progress true s o ho
  unfold readAt
  cases hws : wsEOL true s o with
  | mk r j =>
    rw [hws] at hw
    cases r with
    | panic p => exact hw.elim
    | err k => rfl
    | ok u =>
      obtain ⟨w1, w2, -⟩ := hw
      simp only
      rw [parseObj_skip_ws c s o j u w2 hlt hws]


end Parsley.ObjStm
