/-
  C14: the header loop `parse_metadata` (model `metaLoop`) on encoded headers, its
  soundness (what an accepted header looks like) and fuel sufficiency.
-/
import Parsley.Lemmas.ObjStm
namespace Parsley.ObjStm
open Parsley Parsley.Prim Parsley.Obj Parsley.Spelling Parsley.ObjStmSpec

theorem allWs_mem {w : Bytes} (h : allWs w = true) : ∀ y ∈ w, isWsEol y = true := by
  simpa [allWs, List.all_eq_true] using h

theorem ws_not_digit (y : UInt8) (h : isWsEol y = true) : isDigit y = false := by
  cases hd : isDigit y with
  | false => rfl
  | true => have := (isDigit_not_ws y hd).1; rw [h] at this; cases this

/-- one iteration of the header loop on an encoded pair -/
theorem metaLoop_step (n f : Nat) (pre rest : Bytes) (e : HdrEntry) (last : Nat) (acc : Meta)
    (hpre : allWs e.pre = true) (hmid : allWs e.mid = true) (hmne : e.mid ≠ [])
    (hid : e.id ≤ i64Max) (hofs : e.ofs ≤ i64Max)
    (hr : ∀ y, rest.head? = some y → isDigit y = false) :
    metaLoop n (f + 1) (pre ++ (encodePair e ++ rest)) pre.length last acc =
      if (decide (e.ofs ≤ last) && !acc.isEmpty) = true then
        (.err .guard, pre.length + e.pre.length + (natDigits e.id).length + e.mid.length)
      else if (acc.length + 1 == n) = true then
        (.ok ((e.id, e.ofs) :: acc).reverse,
          pre.length + e.pre.length + (natDigits e.id).length + e.mid.length + (natDigits e.ofs).length)
      else metaLoop n f (pre ++ (encodePair e ++ rest))
        (pre.length + e.pre.length + (natDigits e.id).length + e.mid.length + (natDigits e.ofs).length)
        e.ofs ((e.id, e.ofs) :: acc) := by
  generalize hs : pre ++ (encodePair e ++ rest) = s
  have hidh := natDigits_head e.id hid (e.mid ++ (natDigits e.ofs ++ rest))
  have hofh := natDigits_head e.ofs hofs rest
  -- 1. white space before the identifier
  have e1 : wsEOL true s pre.length = (.ok ⟨(), pre.length, pre.length + e.pre.length⟩, pre.length + e.pre.length) := by
    have := wsEOL_at pre e.pre (natDigits e.id ++ (e.mid ++ (natDigits e.ofs ++ rest))) (allWs_mem hpre)
      (by
        intro y hy
        obtain ⟨d, hd1, hd2⟩ := hidh
        rw [hd1] at hy; cases hy
        exact ⟨(isDigit_not_ws _ hd2).1, (isDigit_not_ws _ hd2).2.1⟩)
    rw [← hs]; simpa [encodePair, List.append_assoc] using this
  -- 2. the identifier
  have e2 : integerP s (pre.length + e.pre.length) =
      (.ok ⟨(e.id : Int), pre.length + e.pre.length, pre.length + e.pre.length + (natDigits e.id).length⟩,
        pre.length + e.pre.length + (natDigits e.id).length) := by
    have := integerP_at (pre ++ e.pre) (e.mid ++ (natDigits e.ofs ++ rest)) e.id hid
      (by
        intro y hy
        cases hm : e.mid with
        | nil => exact absurd hm hmne
        | cons m t =>
          rw [hm] at hy; simp at hy; subst hy
          exact ws_not_digit _ (allWs_mem hmid m (by rw [hm]; exact List.mem_cons_self)))
    rw [← hs]; simpa [encodePair, List.append_assoc] using this
  -- 3. white space between identifier and offset
  have e3 : wsEOL true s (pre.length + e.pre.length + (natDigits e.id).length) =
      (.ok ⟨(), pre.length + e.pre.length + (natDigits e.id).length,
        pre.length + e.pre.length + (natDigits e.id).length + e.mid.length⟩,
        pre.length + e.pre.length + (natDigits e.id).length + e.mid.length) := by
    have := wsEOL_at (pre ++ (e.pre ++ natDigits e.id)) e.mid (natDigits e.ofs ++ rest) (allWs_mem hmid)
      (by
        intro y hy
        obtain ⟨d, hd1, hd2⟩ := hofh
        rw [hd1] at hy; cases hy
        exact ⟨(isDigit_not_ws _ hd2).1, (isDigit_not_ws _ hd2).2.1⟩)
    rw [← hs]; simpa [encodePair, List.append_assoc, Nat.add_assoc] using this
  -- 4. the offset
  have e4 : integerP s (pre.length + e.pre.length + (natDigits e.id).length + e.mid.length) =
      (.ok ⟨(e.ofs : Int), pre.length + e.pre.length + (natDigits e.id).length + e.mid.length,
        pre.length + e.pre.length + (natDigits e.id).length + e.mid.length + (natDigits e.ofs).length⟩,
        pre.length + e.pre.length + (natDigits e.id).length + e.mid.length + (natDigits e.ofs).length) := by
    have := integerP_at (pre ++ (e.pre ++ (natDigits e.id ++ e.mid))) rest e.ofs hofs hr
    rw [← hs]; simpa [encodePair, List.append_assoc, Nat.add_assoc] using this
  rw [metaLoop]
  simp only [e1, e2, e3, e4, isUsize, Int.natCast_nonneg, decide_true, Bool.not_true, Bool.false_eq_true,
    if_false, Int.toNat_natCast, List.length_cons]

theorem encodePair_length (e : HdrEntry) :
    (encodePair e).length = e.pre.length + (natDigits e.id).length + e.mid.length + (natDigits e.ofs).length := by
  simp [encodePair]; omega

/-- the head of what follows a pair in a legal layout is not a digit -/
theorem hdr_rest_head (t : List HdrEntry) (tail : Bytes) (hl : layoutsOK false t = true)
    (ht : ∀ y, tail.head? = some y → isDigit y = false) :
    ∀ y, (encodeHeader t ++ tail).head? = some y → isDigit y = false := by
  cases t with
  | nil => simpa [encodeHeader] using ht
  | cons e2 t2 =>
    intro y hy
    simp only [layoutsOK, layoutOK, Bool.and_eq_true, Bool.or_eq_true, Bool.false_eq_true, false_or,
      Bool.not_eq_true'] at hl
    obtain ⟨⟨⟨⟨hp, -⟩, -⟩, hne⟩, -⟩ := hl
    cases hpre : e2.pre with
    | nil => simp [hpre] at hne
    | cons m w =>
      simp only [encodeHeader, encodePair, hpre, List.cons_append, List.head?_cons, Option.some.injEq] at hy
      subst hy
      exact ws_not_digit _ (allWs_mem hp m (by rw [hpre]; exact List.mem_cons_self))

/-- the order check of the loop, on the declared offsets (`ne` = the accumulator is non-empty) -/
def chainOK : Bool → Nat → List HdrEntry → Bool
  | _, _, [] => true
  | ne, last, e :: t => !(decide (e.ofs ≤ last) && ne) && chainOK true e.ofs t

def lastOfs : Nat → List HdrEntry → Nat
  | l, [] => l
  | _, e :: t => lastOfs e.ofs t

def Bounded (es : List HdrEntry) : Prop := ∀ e ∈ es, e.id ≤ i64Max ∧ e.ofs ≤ i64Max

/-- a prefix of well-ordered pairs that does not yet complete the header is consumed -/
theorem metaLoop_prefix (n : Nat) : ∀ (good : List HdrEntry) (f : Nat) (pre rest : Bytes) (last : Nat) (acc : Meta) (b : Bool),
    layoutsOK b good = true → Bounded good → chainOK (!acc.isEmpty) last good = true →
    acc.length + good.length < n →
    (∀ y, rest.head? = some y → isDigit y = false) →
    metaLoop n (f + good.length) (pre ++ (encodeHeader good ++ rest)) pre.length last acc =
      metaLoop n f (pre ++ (encodeHeader good ++ rest)) (pre.length + (encodeHeader good).length)
        (lastOfs last good) ((declared good).reverse ++ acc) := by
  intro good
  induction good with
  | nil => intro f pre rest last acc b _ _ _ _ _; simp [encodeHeader, lastOfs, declared]
  | cons e t ih =>
    intro f pre rest last acc b hl hb hc hn hr
    simp only [layoutsOK, Bool.and_eq_true] at hl
    obtain ⟨hle, hlt⟩ := hl
    simp only [layoutOK, Bool.and_eq_true, Bool.not_eq_true', List.isEmpty_eq_false_iff] at hle
    obtain ⟨⟨⟨hp, hm⟩, hmne⟩, -⟩ := hle
    have hbe := hb e List.mem_cons_self
    simp only [chainOK, Bool.and_eq_true, Bool.not_eq_true'] at hc
    obtain ⟨hc1, hc2⟩ := hc
    have hrest := hdr_rest_head t rest hlt hr
    have hstep := metaLoop_step n (f + t.length) pre (encodeHeader t ++ rest) e last acc hp hm hmne hbe.1 hbe.2 hrest
    have hsA : pre ++ (encodeHeader (e :: t) ++ rest) = pre ++ (encodePair e ++ (encodeHeader t ++ rest)) := by
      simp [encodeHeader, List.append_assoc]
    have hfl : f + (e :: t).length = f + t.length + 1 := by simp; omega
    rw [hsA, hfl, hstep]
    simp only [hc1, Bool.false_eq_true, if_false]
    have hnn : (acc.length + 1 == n) = false := by
      simp only [List.length_cons] at hn
      simp; omega
    simp only [hnn, Bool.false_eq_true, if_false]
    have hsB : pre ++ (encodePair e ++ (encodeHeader t ++ rest)) = (pre ++ encodePair e) ++ (encodeHeader t ++ rest) := by
      simp [List.append_assoc]
    have hpos : pre.length + e.pre.length + (natDigits e.id).length + e.mid.length + (natDigits e.ofs).length
        = (pre ++ encodePair e).length := by
      rw [List.length_append, encodePair_length]; omega
    rw [hsB, hpos]
    have := ih f (pre ++ encodePair e) rest e.ofs ((e.id, e.ofs) :: acc) false hlt
      (fun x hx => hb x (List.mem_cons_of_mem _ hx)) (by simpa using hc2)
      (by simp only [List.length_cons] at hn ⊢; omega) hr
    rw [this]
    simp [encodeHeader, lastOfs, declared, List.length_append, Nat.add_assoc]

/-- **header round trip** (general form): pairs that complete the header, in any legal layout,
    well ordered, followed by anything that does not continue the last number -/
theorem metaLoop_accept (n : Nat) : ∀ (es : List HdrEntry) (f : Nat) (pre rest : Bytes) (last : Nat) (acc : Meta) (b : Bool),
    es ≠ [] → layoutsOK b es = true → Bounded es → chainOK (!acc.isEmpty) last es = true →
    acc.length + es.length = n →
    (∀ y, rest.head? = some y → isDigit y = false) →
    metaLoop n (f + es.length) (pre ++ (encodeHeader es ++ rest)) pre.length last acc =
      (.ok (acc.reverse ++ declared es), pre.length + (encodeHeader es).length) := by
  intro es
  induction es with
  | nil => intro f pre rest last acc b h; exact absurd rfl h
  | cons e t ih =>
    intro f pre rest last acc b _ hl hb hc hn hr
    simp only [layoutsOK, Bool.and_eq_true] at hl
    obtain ⟨hle, hlt⟩ := hl
    simp only [layoutOK, Bool.and_eq_true, Bool.not_eq_true', List.isEmpty_eq_false_iff] at hle
    obtain ⟨⟨⟨hp, hm⟩, hmne⟩, -⟩ := hle
    have hbe := hb e List.mem_cons_self
    simp only [chainOK, Bool.and_eq_true, Bool.not_eq_true'] at hc
    obtain ⟨hc1, hc2⟩ := hc
    have hrest := hdr_rest_head t rest hlt hr
    have hstep := metaLoop_step n (f + t.length) pre (encodeHeader t ++ rest) e last acc hp hm hmne hbe.1 hbe.2 hrest
    have hsA : pre ++ (encodeHeader (e :: t) ++ rest) = pre ++ (encodePair e ++ (encodeHeader t ++ rest)) := by
      simp [encodeHeader, List.append_assoc]
    have hfl : f + (e :: t).length = f + t.length + 1 := by simp; omega
    rw [hsA, hfl, hstep]
    simp only [hc1, Bool.false_eq_true, if_false]
    have hpos : pre.length + e.pre.length + (natDigits e.id).length + e.mid.length + (natDigits e.ofs).length
        = (pre ++ encodePair e).length := by
      rw [List.length_append, encodePair_length]; omega
    cases t with
    | nil =>
      have hnn : (acc.length + 1 == n) = true := by simp at hn ⊢; omega
      simp only [hnn, if_true]
      simp [declared, encodeHeader, hpos]
    | cons e2 t2 =>
      have hnn : (acc.length + 1 == n) = false := by
        simp only [List.length_cons] at hn
        simp; omega
      simp only [hnn, Bool.false_eq_true, if_false]
      have hsB : pre ++ (encodePair e ++ (encodeHeader (e2 :: t2) ++ rest)) =
          (pre ++ encodePair e) ++ (encodeHeader (e2 :: t2) ++ rest) := by
        simp [List.append_assoc]
      rw [hsB, hpos]
      have := ih f (pre ++ encodePair e) rest e.ofs ((e.id, e.ofs) :: acc) false (by simp) hlt
        (fun x hx => hb x (List.mem_cons_of_mem _ hx)) (by simpa using hc2)
        (by simp only [List.length_cons] at hn ⊢; omega) hr
      rw [this]
      simp [encodeHeader, declared, List.length_append, Nat.add_assoc]

theorem chainOK_true (es : List HdrEntry) : ∀ (last : Nat),
    List.Pairwise (· < ·) (last :: es.map (·.ofs)) → chainOK true last es = true := by
  induction es with
  | nil => intro _ _; rfl
  | cons e t ih =>
    intro last h
    simp only [List.map_cons, List.pairwise_cons] at h
    obtain ⟨h1, h2, h3⟩ := h
    have : last < e.ofs := h1 e.ofs List.mem_cons_self
    simp only [chainOK, Bool.and_true, Bool.and_eq_true, Bool.not_eq_true', decide_eq_false_iff_not]
    refine ⟨by omega, ih e.ofs ?_⟩
    simp only [List.pairwise_cons]
    exact ⟨h2, h3⟩

theorem chainOK_false (es : List HdrEntry) (last : Nat)
    (h : List.Pairwise (· < ·) (es.map (·.ofs))) : chainOK false last es = true := by
  cases es with
  | nil => rfl
  | cons e t =>
    simp only [chainOK, Bool.and_false, Bool.not_false, Bool.true_and]
    exact chainOK_true t e.ofs (by simpa using h)

theorem encodeHeader_append (a b : List HdrEntry) : encodeHeader (a ++ b) = encodeHeader a ++ encodeHeader b := by
  induction a with
  | nil => rfl
  | cons e t ih => simp [encodeHeader, ih, List.append_assoc]

theorem layoutsOK_append (a c : List HdrEntry) (b : Bool) (h : layoutsOK b (a ++ c) = true) :
    layoutsOK b a = true ∧ layoutsOK (b && a.isEmpty) c = true := by
  induction a generalizing b with
  | nil => simpa [layoutsOK] using h
  | cons e t ih =>
    simp only [List.cons_append, layoutsOK, Bool.and_eq_true] at h ⊢
    obtain ⟨h1, h2⟩ := h
    have := ih false h2
    simp only [Bool.false_and] at this
    exact ⟨⟨h1, this.1⟩, by simpa using this.2⟩

theorem chainOK_append (a c : List HdrEntry) (ne : Bool) (last : Nat) (h : chainOK ne last (a ++ c) = true) :
    chainOK ne last a = true := by
  induction a generalizing ne last with
  | nil => rfl
  | cons e t ih =>
    simp only [List.cons_append, chainOK, Bool.and_eq_true] at h ⊢
    exact ⟨h.1, ih true e.ofs h.2⟩

/-- `IntegerP` fails where no number starts -/
theorem integerP_fail_at (pre rest : Bytes)
    (hr : ∀ y, rest.head? = some y → isDigit y = false ∧ y ≠ 45 ∧ y ≠ 43) :
    integerP (pre ++ rest) pre.length = (.err .guard, pre.length) := by
  unfold integerP
  have hs : signPrefix (pre ++ rest) pre.length = (false, pre.length) := by
    unfold signPrefix
    rw [peek_at]
    cases hh : rest.head? with
    | none => simp
    | some y => have := hr y hh; simp [this.2.1, this.2.2]
  rw [hs]
  simp only
  have := allowed_at isDigit pre [] rest (by simp) (fun y hy => (hr y hy).1)
  simp only [List.nil_append, List.length_nil, Nat.add_zero] at this
  rw [this]
  simp

/-- **fewer than /N pairs**: a header whose well-formed pairs run out before `n` of them were
    read, followed by white space and then nothing or something that does not start a number -/
theorem metaLoop_short (n : Nat) (es : List HdrEntry) (f : Nat) (pre w rest : Bytes) (b : Bool)
    (hl : layoutsOK b es = true) (hb : Bounded es) (hc : chainOK false 0 es = true)
    (hn : es.length < n) (hw : allWs w = true)
    (hr : ∀ y, rest.head? = some y → isDigit y = false ∧ y ≠ 45 ∧ y ≠ 43 ∧ isWsEol y = false ∧ y ≠ 37) :
    (metaLoop n (f + 1 + es.length) (pre ++ (encodeHeader es ++ (w ++ rest))) pre.length 0 []).1 = .err .guard := by
  have hhead : ∀ y, (w ++ rest).head? = some y → isDigit y = false := by
    intro y hy
    cases hw' : w with
    | nil => rw [hw'] at hy; exact (hr y (by simpa using hy)).1
    | cons m t =>
      rw [hw'] at hy; simp at hy; subst hy
      exact ws_not_digit _ (allWs_mem hw m (by rw [hw']; exact List.mem_cons_self))
  have hp := metaLoop_prefix n es (f + 1) pre (w ++ rest) 0 [] b hl hb (by simpa using hc) (by simpa using hn) hhead
  rw [hp]
  have hsA : pre ++ (encodeHeader es ++ (w ++ rest)) = (pre ++ encodeHeader es) ++ (w ++ rest) := by
    simp [List.append_assoc]
  have hpos : pre.length + (encodeHeader es).length = (pre ++ encodeHeader es).length := by simp
  rw [hsA, hpos, metaLoop]
  rw [wsEOL_at (pre ++ encodeHeader es) w rest (allWs_mem hw) (fun y hy => ⟨(hr y hy).2.2.2.1, (hr y hy).2.2.2.2⟩)]
  simp only
  have hsB : (pre ++ encodeHeader es) ++ (w ++ rest) = (pre ++ encodeHeader es ++ w) ++ rest := by
    simp [List.append_assoc]
  have hpos2 : (pre ++ encodeHeader es).length + w.length = (pre ++ encodeHeader es ++ w).length := by
    simp only [List.length_append]
  rw [hsB, hpos2, integerP_fail_at _ rest (fun y hy => ⟨(hr y hy).1, (hr y hy).2.1, (hr y hy).2.2.1⟩)]

/-- **non-increasing offsets**: after at least one pair, a pair whose offset is not greater than
    the previous one, read before the header is complete, is rejected -/
theorem metaLoop_order (n : Nat) (good : List HdrEntry) (bad : HdrEntry) (more : List HdrEntry) (f : Nat)
    (pre rest : Bytes) (b : Bool)
    (hg : good ≠ []) (hl : layoutsOK b (good ++ bad :: more) = true) (hb : Bounded (good ++ bad :: more))
    (hc : chainOK false 0 good = true) (hn : good.length < n)
    (hbad : bad.ofs ≤ lastOfs 0 good)
    (hr : ∀ y, rest.head? = some y → isDigit y = false) :
    (metaLoop n (f + 1 + good.length) (pre ++ (encodeHeader (good ++ bad :: more) ++ rest)) pre.length 0 []).1 =
      .err .guard := by
  obtain ⟨hl1, hl2⟩ := layoutsOK_append good (bad :: more) b hl
  have hge : good.isEmpty = false := by cases good <;> simp_all
  simp only [hge, Bool.and_false, layoutsOK, Bool.and_eq_true] at hl2
  obtain ⟨hlb, hlm⟩ := hl2
  have hsA : pre ++ (encodeHeader (good ++ bad :: more) ++ rest) =
      pre ++ (encodeHeader good ++ (encodePair bad ++ (encodeHeader more ++ rest))) := by
    simp [encodeHeader_append, encodeHeader, List.append_assoc]
  have hhead := hdr_rest_head (bad :: more) rest (by simp [layoutsOK, hlb, hlm]) hr
  have hhead' : ∀ y, (encodePair bad ++ (encodeHeader more ++ rest)).head? = some y → isDigit y = false := by
    simpa [encodeHeader, List.append_assoc] using hhead
  have hbg : Bounded good := fun e he => hb e (List.mem_append_left _ he)
  have hp := metaLoop_prefix n good (f + 1) pre (encodePair bad ++ (encodeHeader more ++ rest)) 0 [] b hl1 hbg
    (by simpa using hc) (by simpa using hn) hhead'
  rw [hsA, hp]
  have hsB : pre ++ (encodeHeader good ++ (encodePair bad ++ (encodeHeader more ++ rest))) =
      (pre ++ encodeHeader good) ++ (encodePair bad ++ (encodeHeader more ++ rest)) := by
    simp [List.append_assoc]
  have hpos : pre.length + (encodeHeader good).length = (pre ++ encodeHeader good).length := by simp
  simp only [layoutOK, Bool.and_eq_true, Bool.not_eq_true', List.isEmpty_eq_false_iff] at hlb
  obtain ⟨⟨⟨hp1, hm1⟩, hmne⟩, -⟩ := hlb
  have hbb := hb bad (List.mem_append_right _ List.mem_cons_self)
  rw [hsB, hpos, metaLoop_step n f (pre ++ encodeHeader good) (encodeHeader more ++ rest) bad _ _ hp1 hm1 hmne hbb.1 hbb.2
    (hdr_rest_head more rest hlm hr)]
  have hne : declared good ≠ [] := by
    cases good with
    | nil => exact absurd rfl hg
    | cons e t => simp [declared]
  simp [hbad, hne]

/-! ## soundness and fuel sufficiency of the header loop, for EVERY input -/

/-- invariant of the accumulator (the pairs read so far, newest first) -/
def MetaInv (last : Nat) (acc : Meta) : Prop :=
  List.Pairwise (· > ·) (acc.map (·.2)) ∧ (∀ p ∈ acc, p.2 ≤ last) ∧ (∀ p ∈ acc, p.2 ≤ i64Max)

/-- what the header loop guarantees: never a panic; an accepted header has exactly `n` pairs,
    strictly increasing offsets, each representable as an `i64` -/
def MetaGood (n : Nat) : Res Meta × Nat → Prop
  | (.ok md, _) => md.length = n ∧ List.Pairwise (· < ·) (md.map (·.2)) ∧ (∀ p ∈ md, p.2 ≤ i64Max)
  | (.err _, _) => True
  | (.panic _, _) => False

theorem metaLoop_good (n : Nat) : ∀ (f : Nat) (s : Bytes) (i last : Nat) (acc : Meta),
    i ≤ s.length → s.length + 1 - i ≤ f → MetaInv last acc → MetaGood n (metaLoop n f s i last acc) := by
  intro f
  induction f with
  | zero => intro s i last acc hi hf; omega
  | succ f ih =>
    intro s i last acc hi hf hinv
    rw [metaLoop]
    have hw := wsEOL_progress true s i hi
    split
    · trivial
    · rename_i heq; rw [heq] at hw; exact hw.elim
    · rename_i u j heq
      rw [heq] at hw
      obtain ⟨w1, w2, -⟩ := hw
      have hp := integerP_progress s j w2
      split
      · trivial
      · rename_i heq2; rw [heq2] at hp; exact hp.elim
      · rename_i obj j1 heq2
        rw [heq2] at hp
        obtain ⟨p1, p2, p3, p4⟩ := hp
        split
        · trivial
        · have hw2 := wsEOL_progress true s j1 p4
          split
          · trivial
          · rename_i heq3; rw [heq3] at hw2; exact hw2.elim
          · rename_i u2 j2 heq3
            rw [heq3] at hw2
            obtain ⟨w3, w4, -⟩ := hw2
            have hp2 := integerP_progress s j2 w4
            split
            · trivial
            · rename_i heq4; rw [heq4] at hp2; exact hp2.elim
            · rename_i ofs j3 heq4
              have hle := integerP_le s j2 ofs j3 heq4
              rw [heq4] at hp2
              obtain ⟨q1, q2, q3, q4⟩ := hp2
              split
              · trivial
              · rename_i hus
                have hus' : 0 ≤ ofs.val := by simpa [isUsize] using hus
                have hob : ofs.val.toNat ≤ i64Max := by omega
                dsimp only
                split
                · trivial
                · rename_i hord
                  have hord' : acc = [] ∨ last < ofs.val.toNat := by
                    cases acc with
                    | nil => left; rfl
                    | cons a t => right; simpa using hord
                  obtain ⟨i1, i2, i3⟩ := hinv
                  have hinv' : MetaInv ofs.val.toNat ((obj.val.toNat, ofs.val.toNat) :: acc) := by
                    refine ⟨?_, ?_, ?_⟩
                    · simp only [List.map_cons, List.pairwise_cons]
                      refine ⟨?_, i1⟩
                      intro x hx
                      obtain ⟨p, hp, rfl⟩ := List.mem_map.mp hx
                      rcases hord' with h | h
                      · subst h; cases hp
                      · have := i2 p hp; omega
                    · intro p hp
                      simp only [List.mem_cons] at hp
                      rcases hp with hp | hp
                      · subst hp; exact Nat.le_refl _
                      · rcases hord' with h | h
                        · subst h; cases hp
                        · have := i2 p hp; omega
                    · intro p hp
                      simp only [List.mem_cons] at hp
                      rcases hp with hp | hp
                      · subst hp; exact hob
                      · exact i3 p hp
                  split
                  · rename_i hlen
                    obtain ⟨k1, k2, k3⟩ := hinv'
                    refine ⟨?_, ?_, ?_⟩
                    · simpa using hlen
                    · rw [List.map_reverse, List.pairwise_reverse]; exact k1
                    · intro p hp; exact k3 p (List.mem_reverse.mp hp)
                  · exact ih s j3 _ _ q4 (by omega) hinv'

theorem parseMetadata_good (s : Bytes) (n : Nat) : MetaGood n (parseMetadata s n) :=
  metaLoop_good n (s.length + 1) s 0 0 [] (Nat.zero_le _) (by omega) ⟨by simp, by simp, by simp⟩

end Parsley.ObjStm
