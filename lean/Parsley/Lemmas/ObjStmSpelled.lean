/-
  C14 - object streams AS SPELLED: the premises of `C14.objstm_roundtrip` discharged from a
  declarative description of the decoded bytes, by composing it with C02's `spell_parse`
  (Props/C02Struct.lean: every value, every legal spelling).

    SMem, contentOf, pairsOf, locatedOf, MemsOK
                          the content of an object stream: per member ARBITRARY gap bytes, then - at the
                          declared offset - an optional white-space/comment run and the value in ANY legal
                          spelling (`C02.Spells`), followed by a context `parse_pdf_obj` accepts after it
                          (`C02.Follows`)
    extracts_spelled      such a content has, at every declared offset, exactly the member's value, ending
                          at or before the next declared offset (the premise `Extracts` of the round trip),
                          for every parser context that leaves room for the spelling depth
    LayoutC, LayoutsC     header layouts WITH COMMENTS: the runs between the numbers are `C02.WsRun`s
                          (white-space bytes and `%...LF` comments)
    metaLoop_accept_c, metaLoop_short_c, metaLoop_order_c
                          the header theorems of Lemmas/ObjStmMeta.lean for such layouts (the real
                          parse_metadata accepts comments: it skips with WhitespaceEOL, checked through the
                          harness - corpus/C14/comments.case)

  (Lemmas/LoaderE2EObjStmW.lean of C03 has the same composition for the loader's fixed budget ⟨0,50⟩ and
  white-space headers; it imports Props/C14.lean, so it cannot be imported here - the four small
  positional lemmas are restated.)
-/
import Parsley.Props.C02Struct
import Parsley.Lemmas.ObjStmMeta
import Parsley.Lemmas.ObjStmLoop
namespace Parsley.C14
open Parsley Parsley.Prim Parsley.Obj Parsley.ObjStmSpec
open Parsley.ObjStm (Meta readAt metaLoop parseMetadata Bounded chainOK lastOfs)
open Parsley.C02 (WsRun Spells Follows)
open Parsley.Spelling (natDigits)

/-! ## positions -/

theorem take_len {s : Bytes} {i : Nat} (hi : i ≤ s.length) : (s.take i).length = i := by
  simp [List.length_take, Nat.min_eq_left hi]

theorem split_at {s : Bytes} {i : Nat} {r : Bytes} (h : s.drop i = r) : s = s.take i ++ r := by
  rw [← h]; simp

theorem drop_next {s : Bytes} {i : Nat} {x r : Bytes} (h : s.drop i = x ++ r) : s.drop (i + x.length) = r := by
  rw [← List.drop_drop, h]; simp

theorem drop_le {s : Bytes} {i : Nat} {x r : Bytes} (h : s.drop i = x ++ r) (hi : i ≤ s.length) :
    i + x.length ≤ s.length := by
  have := congrArg List.length h
  simp only [List.length_drop, List.length_append] at this
  omega

/-- a white-space/comment run at a cursor, followed by something that is neither -/
theorem ws_d (e : Bool) (s : Bytes) (i : Nat) (lead rest : Bytes) (hi : i ≤ s.length)
    (hd : s.drop i = lead ++ rest) (hlead : WsRun lead)
    (hrest : ∀ b, rest.head? = some b → isWsEol b = false ∧ b ≠ 37) (hne : lead ≠ [] ∨ e = true) :
    wsEOL e s i = (.ok ⟨(), i, i + lead.length⟩, i + lead.length) := by
  have := C02.ws_at' e s (s.take i) lead rest (split_at hd) hlead hrest hne
  rw [take_len hi] at this
  exact this

/-- `spell_parse` at a cursor -/
theorem obj_d {d : Nat} {v : Obj} {tok : Bytes} (h : Spells d v tok) (c : Depth) (hc : c.cur + d ≤ c.max)
    (s : Bytes) (i : Nat) (rest : Bytes) (hi : i ≤ s.length) (hd : s.drop i = tok ++ rest) (hf : Follows v rest) :
    parseObj c s i = ((.ok ⟨v, i, i + tok.length⟩, i + tok.length), c) := by
  have := C02.spell_parse_at h c hc (s.take i) [] WsRun.nil rest hf
  simp only [List.nil_append, List.length_nil, Nat.zero_add, Nat.add_zero] at this
  rw [← split_at hd, take_len hi] at this
  exact this

/-! ## the content, declaratively -/

/-- one member as written: gap bytes that belong to no object, then (at the declared offset) a
    white-space/comment run and the spelling `tok` of the value `v` (spelling depth index `d`) -/
structure SMem where
  id : Nat
  gap : Bytes
  lead : Bytes
  tok : Bytes
  v : Obj
  d : Nat

/-- the content bytes: the members in order, then `fin` -/
def contentOf : List SMem → Bytes → Bytes
  | [], fin => fin
  | m :: t, fin => m.gap ++ (m.lead ++ (m.tok ++ contentOf t fin))

/-- the (identifier, offset) pairs the header has to declare when the first member's gap starts at `pos` -/
def pairsOf : List SMem → Nat → List (Nat × Nat)
  | [], _ => []
  | m :: t, pos => (m.id, pos + m.gap.length) :: pairsOf t (pos + m.gap.length + m.lead.length + m.tok.length)

/-- the members with the spans their spellings occupy -/
def locatedOf : List SMem → Nat → List (Nat × Located Obj)
  | [], _ => []
  | m :: t, pos =>
    (m.id, ⟨m.v, pos + m.gap.length + m.lead.length, pos + m.gap.length + m.lead.length + m.tok.length⟩) ::
      locatedOf t (pos + m.gap.length + m.lead.length + m.tok.length)

/-- lexical well-formedness of the members for a parser context with `room = max - cur` nesting levels
    left: the run at the offset is white space/comments, the token is a legal spelling of the value
    nested at most `room` deep, and what comes after it - the next member's gap, or `fin` - is a legal
    context (`C02.Follows`: a token ending in a regular character is not followed by a regular
    character; an integer is not followed by `ws int ws R`).  NO condition on the gap bytes otherwise. -/
def MemsOK (room : Nat) : List SMem → Bytes → Prop
  | [], _ => True
  | m :: t, fin =>
    WsRun m.lead ∧ Spells m.d m.v m.tok ∧ m.d ≤ room ∧ Follows m.v (contentOf t fin) ∧ MemsOK room t fin

theorem locatedOf_vals : ∀ (ms : List SMem) (pos : Nat),
    (locatedOf ms pos).map (fun p => (p.1, p.2.val)) = ms.map fun m => (m.id, m.v)
  | [], _ => rfl
  | m :: t, pos => by simp [locatedOf, locatedOf_vals t]

theorem pairsOf_ids : ∀ (ms : List SMem) (pos : Nat), (pairsOf ms pos).map (·.1) = ms.map (·.id)
  | [], _ => rfl
  | m :: t, pos => by simp [pairsOf, pairsOf_ids t]

theorem pairsOf_length : ∀ (ms : List SMem) (pos : Nat), (pairsOf ms pos).length = ms.length
  | [], _ => rfl
  | m :: t, pos => by simp [pairsOf, pairsOf_length t]

theorem tok_pos {d : Nat} {v : Obj} {tok : Bytes} (h : Spells d v tok) : 0 < tok.length := by
  obtain ⟨b0, tl, htok, -⟩ := h.head
  rw [htok]; simp

/-- the declared offsets are strictly increasing (a spelling is never empty), start at or after `pos`
    and lie strictly inside the content -/
theorem pairsOf_inc (room : Nat) : ∀ (ms : List SMem) (fin : Bytes) (pos : Nat), MemsOK room ms fin →
    List.Pairwise (· < ·) ((pairsOf ms pos).map (·.2)) ∧
    ∀ o ∈ (pairsOf ms pos).map (·.2), pos ≤ o ∧ o < pos + (contentOf ms fin).length
  | [], _, _, _ => by simp [pairsOf]
  | m :: t, fin, pos, h => by
    obtain ⟨-, hsp, -, -, hrest⟩ := h
    have hlen := tok_pos hsp
    obtain ⟨ih1, ih2⟩ := pairsOf_inc room t fin (pos + m.gap.length + m.lead.length + m.tok.length) hrest
    simp only [pairsOf, List.map_cons, List.pairwise_cons, List.mem_cons, contentOf, List.length_append]
    refine ⟨⟨?_, ih1⟩, ?_⟩
    · intro o ho; have := ih2 o ho; omega
    · rintro o (rfl | ho)
      · omega
      · have := ih2 o ho; omega

theorem contentOf_ne (room : Nat) (ms : List SMem) (fin : Bytes) (hne : ms ≠ []) (h : MemsOK room ms fin) :
    contentOf ms fin ≠ [] := by
  cases ms with
  | nil => exact absurd rfl hne
  | cons m t =>
    obtain ⟨-, hsp, -⟩ := h
    have := tok_pos hsp
    intro hc
    have := congrArg List.length hc
    simp only [contentOf, List.length_append, List.length_nil] at this
    omega

/-- **the content holds every member at its declared offset**: the `Extracts` premise of
    `objstm_roundtrip`, for every parser context `c` with `c.max - c.cur` levels of room -/
theorem extracts_spelled (c : Depth) (hc : c.cur ≤ c.max) (content : Bytes) :
    ∀ (ms : List SMem) (fin : Bytes) (pos e : Nat),
    pos ≤ content.length → content.drop pos = contentOf ms fin → MemsOK (c.max - c.cur) ms fin → e ≤ pos →
    Extracts (readAt c content) content.length e (pairsOf ms pos) (locatedOf ms pos)
  | [], _, _, _, _, _, _, _ => rfl
  | m :: t, fin, pos, e, hpos, hd, hok, he => by
    obtain ⟨hlead, hsp, hdep, hfol, hrest⟩ := hok
    have hd0 : content.drop pos = m.gap ++ (m.lead ++ (m.tok ++ contentOf t fin)) := hd
    have hd1 := drop_next hd0
    have hi1 := drop_le hd0 hpos
    obtain ⟨b0, tl, htok, hstart, -, -⟩ := hsp.head
    obtain ⟨f1, f2, -, -, -⟩ := C02.tokStart_facts b0 hstart
    have hw := ws_d true content _ m.lead _ hi1 hd1 hlead
      (by intro b hb; rw [htok] at hb; simp at hb; subst hb; exact ⟨f1, f2⟩) (Or.inr rfl)
    have hd2 := drop_next hd1
    have hi2 := drop_le hd1 hi1
    have hp := obj_d hsp c (by omega) content _ _ hi2 hd2 hfol
    have hd3 := drop_next hd2
    have hi3 := drop_le hd2 hi2
    refine ⟨_, _, rfl, by omega, hi1, ?_, extracts_spelled c hc content t fin _ _ hi3 hd3 hrest (Nat.le_refl _)⟩
    unfold readAt
    simp only [hw, hp]

/-! ## header layouts with comments -/

/-- a legal layout of one header pair: white-space/comment runs (`C02.WsRun`: the six white-space
    bytes and `%...LF` comments), non-empty where two numbers would otherwise touch -/
def LayoutC (isFirst : Bool) (e : HdrEntry) : Prop :=
  WsRun e.pre ∧ WsRun e.mid ∧ e.mid ≠ [] ∧ (isFirst = true ∨ e.pre ≠ [])

def LayoutsC : Bool → List HdrEntry → Prop
  | _, [] => True
  | f, e :: t => LayoutC f e ∧ LayoutsC false t

theorem wsRun_of_allWs : ∀ w : Bytes, allWs w = true → WsRun w
  | [], _ => WsRun.nil
  | b :: t, h => by
    have hb := ObjStm.allWs_mem h b List.mem_cons_self
    have ht : allWs t = true := by
      simp only [allWs, List.all_cons, Bool.and_eq_true] at h ⊢; exact h.2
    exact WsRun.ws b t hb (wsRun_of_allWs t ht)

/-- the white-space-only layouts of Spec/ObjStm.lean are layouts in this sense -/
theorem layoutsC_of_layoutsOK : ∀ (es : List HdrEntry) (b : Bool), layoutsOK b es = true → LayoutsC b es
  | [], _, _ => trivial
  | e :: t, b, h => by
    simp only [layoutsOK, layoutOK, Bool.and_eq_true, Bool.or_eq_true, Bool.not_eq_true',
      List.isEmpty_eq_false_iff] at h
    obtain ⟨⟨⟨⟨hp, hm⟩, hmne⟩, hf⟩, ht⟩ := h
    exact ⟨⟨wsRun_of_allWs _ hp, wsRun_of_allWs _ hm, hmne, hf⟩, layoutsC_of_layoutsOK t false ht⟩

/-- the head of a non-empty white-space/comment run is not a digit -/
theorem wsRun_head_not_digit (w rest : Bytes) (hw : WsRun w) (hne : w ≠ []) :
    ∀ y, (w ++ rest).head? = some y → isDigit y = false := by
  intro y hy
  exact (C02.nonreg_facts y (C02.wsRun_head w rest hw hne y hy)).1

/-- one iteration of the header loop on an encoded pair whose runs may contain comments -/
theorem metaLoop_step_c (n f : Nat) (pre rest : Bytes) (e : HdrEntry) (last : Nat) (acc : Meta)
    (hpre : WsRun e.pre) (hmid : WsRun e.mid) (hmne : e.mid ≠ [])
    (hid : e.id ≤ i64Max) (hofs : e.ofs ≤ i64Max)
    (hr : ∀ y, rest.head? = some y → isDigit y = false) :
    metaLoop n (f + 1) (pre ++ (encodePair e ++ rest)) pre.length last acc =
      if (decide (e.ofs ≤ last) && !acc.isEmpty) = true then
        (.err .guard, pre.length + e.pre.length + (natDigits e.id).length + e.mid.length)
      else if (acc.length + 1 == n) = true then
        (.ok ((e.id, e.ofs) :: acc).reverse,
          pre.length + e.pre.length + (natDigits e.id).length + e.mid.length + (natDigits e.ofs).length)
      else metaLoop n f (pre ++ (encodePair e ++ rest))
        (pre.length + e.pre.length + (natDigits e.id).length + e.mid.length + (natDigits e.ofs).length)
        e.ofs ((e.id, e.ofs) :: acc) := by
  generalize hs : pre ++ (encodePair e ++ rest) = s
  have hidh := ObjStm.natDigits_head e.id hid (e.mid ++ (natDigits e.ofs ++ rest))
  have hofh := ObjStm.natDigits_head e.ofs hofs rest
  -- 1. white space / comments before the identifier
  have e1 : wsEOL true s pre.length = (.ok ⟨(), pre.length, pre.length + e.pre.length⟩, pre.length + e.pre.length) := by
    have := C02.ws_at true pre e.pre (natDigits e.id ++ (e.mid ++ (natDigits e.ofs ++ rest))) hpre
      (by
        intro y hy
        obtain ⟨d, hd1, hd2⟩ := hidh
        rw [hd1] at hy; cases hy
        exact ⟨(ObjStm.isDigit_not_ws _ hd2).1, (ObjStm.isDigit_not_ws _ hd2).2.1⟩) (Or.inr rfl)
    rw [← hs]; simpa [encodePair, List.append_assoc] using this
  -- 2. the identifier
  have e2 : integerP s (pre.length + e.pre.length) =
      (.ok ⟨(e.id : Int), pre.length + e.pre.length, pre.length + e.pre.length + (natDigits e.id).length⟩,
        pre.length + e.pre.length + (natDigits e.id).length) := by
    have := ObjStm.integerP_at (pre ++ e.pre) (e.mid ++ (natDigits e.ofs ++ rest)) e.id hid
      (wsRun_head_not_digit e.mid _ hmid hmne)
    rw [← hs]; simpa [encodePair, List.append_assoc] using this
  -- 3. white space / comments between identifier and offset
  have e3 : wsEOL true s (pre.length + e.pre.length + (natDigits e.id).length) =
      (.ok ⟨(), pre.length + e.pre.length + (natDigits e.id).length,
        pre.length + e.pre.length + (natDigits e.id).length + e.mid.length⟩,
        pre.length + e.pre.length + (natDigits e.id).length + e.mid.length) := by
    have := C02.ws_at true (pre ++ (e.pre ++ natDigits e.id)) e.mid (natDigits e.ofs ++ rest) hmid
      (by
        intro y hy
        obtain ⟨d, hd1, hd2⟩ := hofh
        rw [hd1] at hy; cases hy
        exact ⟨(ObjStm.isDigit_not_ws _ hd2).1, (ObjStm.isDigit_not_ws _ hd2).2.1⟩) (Or.inr rfl)
    rw [← hs]; simpa [encodePair, List.append_assoc, Nat.add_assoc] using this
  -- 4. the offset
  have e4 : integerP s (pre.length + e.pre.length + (natDigits e.id).length + e.mid.length) =
      (.ok ⟨(e.ofs : Int), pre.length + e.pre.length + (natDigits e.id).length + e.mid.length,
        pre.length + e.pre.length + (natDigits e.id).length + e.mid.length + (natDigits e.ofs).length⟩,
        pre.length + e.pre.length + (natDigits e.id).length + e.mid.length + (natDigits e.ofs).length) := by
    have := ObjStm.integerP_at (pre ++ (e.pre ++ (natDigits e.id ++ e.mid))) rest e.ofs hofs hr
    rw [← hs]; simpa [encodePair, List.append_assoc, Nat.add_assoc] using this
  rw [metaLoop]
  simp only [e1, e2, e3, e4, isUsize, Int.natCast_nonneg, decide_true, Bool.not_true, Bool.false_eq_true,
    if_false, Int.toNat_natCast, List.length_cons]

/-- the head of what follows a pair in a legal layout is not a digit -/
theorem hdr_rest_head_c (t : List HdrEntry) (tail : Bytes) (hl : LayoutsC false t)
    (ht : ∀ y, tail.head? = some y → isDigit y = false) :
    ∀ y, (encodeHeader t ++ tail).head? = some y → isDigit y = false := by
  cases t with
  | nil => simpa [encodeHeader] using ht
  | cons e2 t2 =>
    obtain ⟨⟨hp, -, -, hne⟩, -⟩ := hl
    have hne' : e2.pre ≠ [] := by
      rcases hne with h | h
      · cases h
      · exact h
    have := wsRun_head_not_digit e2.pre (natDigits e2.id ++ (e2.mid ++ natDigits e2.ofs) ++ (encodeHeader t2 ++ tail)) hp hne'
    simpa [encodeHeader, encodePair, List.append_assoc] using this

/-- a prefix of well-ordered pairs that does not yet complete the header is consumed -/
theorem metaLoop_prefix_c (n : Nat) : ∀ (good : List HdrEntry) (f : Nat) (pre rest : Bytes) (last : Nat) (acc : Meta) (b : Bool),
    LayoutsC b good → Bounded good → chainOK (!acc.isEmpty) last good = true →
    acc.length + good.length < n →
    (∀ y, rest.head? = some y → isDigit y = false) →
    metaLoop n (f + good.length) (pre ++ (encodeHeader good ++ rest)) pre.length last acc =
      metaLoop n f (pre ++ (encodeHeader good ++ rest)) (pre.length + (encodeHeader good).length)
        (lastOfs last good) ((declared good).reverse ++ acc) := by
  intro good
  induction good with
  | nil => intro f pre rest last acc b _ _ _ _ _; simp [encodeHeader, lastOfs, declared]
  | cons e t ih =>
    intro f pre rest last acc b hl hb hc hn hr
    obtain ⟨⟨hp, hm, hmne, -⟩, hlt⟩ := hl
    have hbe := hb e List.mem_cons_self
    simp only [chainOK, Bool.and_eq_true, Bool.not_eq_true'] at hc
    obtain ⟨hc1, hc2⟩ := hc
    have hrest := hdr_rest_head_c t rest hlt hr
    have hstep := metaLoop_step_c n (f + t.length) pre (encodeHeader t ++ rest) e last acc hp hm hmne hbe.1 hbe.2 hrest
    have hsA : pre ++ (encodeHeader (e :: t) ++ rest) = pre ++ (encodePair e ++ (encodeHeader t ++ rest)) := by
      simp [encodeHeader, List.append_assoc]
    have hfl : f + (e :: t).length = f + t.length + 1 := by simp; omega
    rw [hsA, hfl, hstep]
    simp only [hc1, Bool.false_eq_true, if_false]
    have hnn : (acc.length + 1 == n) = false := by
      simp only [List.length_cons] at hn
      simp; omega
    simp only [hnn, Bool.false_eq_true, if_false]
    have hsB : pre ++ (encodePair e ++ (encodeHeader t ++ rest)) = (pre ++ encodePair e) ++ (encodeHeader t ++ rest) := by
      simp [List.append_assoc]
    have hpos : pre.length + e.pre.length + (natDigits e.id).length + e.mid.length + (natDigits e.ofs).length
        = (pre ++ encodePair e).length := by
      rw [List.length_append, ObjStm.encodePair_length]; omega
    rw [hsB, hpos]
    have := ih f (pre ++ encodePair e) rest e.ofs ((e.id, e.ofs) :: acc) false hlt
      (fun x hx => hb x (List.mem_cons_of_mem _ hx)) (by simpa using hc2)
      (by simp only [List.length_cons] at hn ⊢; omega) hr
    rw [this]
    simp [encodeHeader, lastOfs, declared, List.length_append, Nat.add_assoc]

/-- **header round trip with comments**: pairs that complete the header, in any legal layout of
    white space and comments, well ordered, followed by anything that does not continue the last number -/
theorem metaLoop_accept_c (n : Nat) : ∀ (es : List HdrEntry) (f : Nat) (pre rest : Bytes) (last : Nat) (acc : Meta) (b : Bool),
    es ≠ [] → LayoutsC b es → Bounded es → chainOK (!acc.isEmpty) last es = true →
    acc.length + es.length = n →
    (∀ y, rest.head? = some y → isDigit y = false) →
    metaLoop n (f + es.length) (pre ++ (encodeHeader es ++ rest)) pre.length last acc =
      (.ok (acc.reverse ++ declared es), pre.length + (encodeHeader es).length) := by
  intro es
  induction es with
  | nil => intro f pre rest last acc b h; exact absurd rfl h
  | cons e t ih =>
    intro f pre rest last acc b _ hl hb hc hn hr
    obtain ⟨⟨hp, hm, hmne, -⟩, hlt⟩ := hl
    have hbe := hb e List.mem_cons_self
    simp only [chainOK, Bool.and_eq_true, Bool.not_eq_true'] at hc
    obtain ⟨hc1, hc2⟩ := hc
    have hrest := hdr_rest_head_c t rest hlt hr
    have hstep := metaLoop_step_c n (f + t.length) pre (encodeHeader t ++ rest) e last acc hp hm hmne hbe.1 hbe.2 hrest
    have hsA : pre ++ (encodeHeader (e :: t) ++ rest) = pre ++ (encodePair e ++ (encodeHeader t ++ rest)) := by
      simp [encodeHeader, List.append_assoc]
    have hfl : f + (e :: t).length = f + t.length + 1 := by simp; omega
    rw [hsA, hfl, hstep]
    simp only [hc1, Bool.false_eq_true, if_false]
    have hpos : pre.length + e.pre.length + (natDigits e.id).length + e.mid.length + (natDigits e.ofs).length
        = (pre ++ encodePair e).length := by
      rw [List.length_append, ObjStm.encodePair_length]; omega
    cases t with
    | nil =>
      have hnn : (acc.length + 1 == n) = true := by simp at hn ⊢; omega
      simp only [hnn, if_true]
      simp [declared, encodeHeader, hpos]
    | cons e2 t2 =>
      have hnn : (acc.length + 1 == n) = false := by
        simp only [List.length_cons] at hn
        simp; omega
      simp only [hnn, Bool.false_eq_true, if_false]
      have hsB : pre ++ (encodePair e ++ (encodeHeader (e2 :: t2) ++ rest)) =
          (pre ++ encodePair e) ++ (encodeHeader (e2 :: t2) ++ rest) := by
        simp [List.append_assoc]
      rw [hsB, hpos]
      have := ih f (pre ++ encodePair e) rest e.ofs ((e.id, e.ofs) :: acc) false (by simp) hlt
        (fun x hx => hb x (List.mem_cons_of_mem _ hx)) (by simpa using hc2)
        (by simp only [List.length_cons] at hn ⊢; omega) hr
      rw [this]
      simp [encodeHeader, declared, List.length_append, Nat.add_assoc]

theorem layoutsC_append (a c : List HdrEntry) (b : Bool) (h : LayoutsC b (a ++ c)) :
    LayoutsC b a ∧ LayoutsC (b && a.isEmpty) c := by
  induction a generalizing b with
  | nil => simpa [LayoutsC] using h
  | cons e t ih =>
    obtain ⟨h1, h2⟩ := h
    have := ih false h2
    simp only [Bool.false_and] at this
    exact ⟨⟨h1, this.1⟩, by simpa using this.2⟩

theorem layoutsC_length (es : List HdrEntry) (b : Bool) (hl : LayoutsC b es) :
    es.length ≤ (encodeHeader es).length := by
  induction es generalizing b with
  | nil => simp
  | cons e t ih =>
    obtain ⟨⟨-, -, hmne, -⟩, ht⟩ := hl
    have := ih false ht
    have hm : e.mid.length ≠ 0 := fun h => hmne (List.length_eq_zero_iff.mp h)
    simp only [encodeHeader, List.length_append, List.length_cons, ObjStm.encodePair_length]
    omega

/-- **fewer than /N pairs**, layouts with comments: the well-formed pairs run out before `n` of them
    were read; after them a white-space/comment run and then nothing or something that does not start
    a number -/
theorem metaLoop_short_c (n : Nat) (es : List HdrEntry) (f : Nat) (pre w rest : Bytes) (b : Bool)
    (hl : LayoutsC b es) (hb : Bounded es) (hc : chainOK false 0 es = true)
    (hn : es.length < n) (hw : WsRun w)
    (hr : ∀ y, rest.head? = some y → isDigit y = false ∧ y ≠ 45 ∧ y ≠ 43 ∧ isWsEol y = false ∧ y ≠ 37) :
    (metaLoop n (f + 1 + es.length) (pre ++ (encodeHeader es ++ (w ++ rest))) pre.length 0 []).1 = .err .guard := by
  have hhead : ∀ y, (w ++ rest).head? = some y → isDigit y = false := by
    intro y hy
    by_cases hw' : w = []
    · subst hw'; exact (hr y (by simpa using hy)).1
    · exact wsRun_head_not_digit w rest hw hw' y hy
  have hp := metaLoop_prefix_c n es (f + 1) pre (w ++ rest) 0 [] b hl hb (by simpa using hc) (by simpa using hn) hhead
  rw [hp]
  have hsA : pre ++ (encodeHeader es ++ (w ++ rest)) = (pre ++ encodeHeader es) ++ (w ++ rest) := by
    simp [List.append_assoc]
  have hpos : pre.length + (encodeHeader es).length = (pre ++ encodeHeader es).length := by simp
  rw [hsA, hpos, metaLoop]
  rw [C02.ws_at true (pre ++ encodeHeader es) w rest hw (fun y hy => ⟨(hr y hy).2.2.2.1, (hr y hy).2.2.2.2⟩) (Or.inr rfl)]
  simp only
  have hsB : (pre ++ encodeHeader es) ++ (w ++ rest) = (pre ++ encodeHeader es ++ w) ++ rest := by
    simp [List.append_assoc]
  have hpos2 : (pre ++ encodeHeader es).length + w.length = (pre ++ encodeHeader es ++ w).length := by
    simp only [List.length_append]
  rw [hsB, hpos2, ObjStm.integerP_fail_at _ rest (fun y hy => ⟨(hr y hy).1, (hr y hy).2.1, (hr y hy).2.2.1⟩)]

/-- **non-increasing offsets**, layouts with comments -/
theorem metaLoop_order_c (n : Nat) (good : List HdrEntry) (bad : HdrEntry) (more : List HdrEntry) (f : Nat)
    (pre rest : Bytes) (b : Bool)
    (hg : good ≠ []) (hl : LayoutsC b (good ++ bad :: more)) (hb : Bounded (good ++ bad :: more))
    (hc : chainOK false 0 good = true) (hn : good.length < n)
    (hbad : bad.ofs ≤ lastOfs 0 good)
    (hr : ∀ y, rest.head? = some y → isDigit y = false) :
    (metaLoop n (f + 1 + good.length) (pre ++ (encodeHeader (good ++ bad :: more) ++ rest)) pre.length 0 []).1 =
      .err .guard := by
  obtain ⟨hl1, hl2⟩ := layoutsC_append good (bad :: more) b hl
  have hge : good.isEmpty = false := by cases good <;> simp_all
  simp only [hge, Bool.and_false] at hl2
  obtain ⟨hlb, hlm⟩ := hl2
  have hsA : pre ++ (encodeHeader (good ++ bad :: more) ++ rest) =
      pre ++ (encodeHeader good ++ (encodePair bad ++ (encodeHeader more ++ rest))) := by
    simp [ObjStm.encodeHeader_append, encodeHeader, List.append_assoc]
  have hhead := hdr_rest_head_c (bad :: more) rest ⟨hlb, hlm⟩ hr
  have hhead' : ∀ y, (encodePair bad ++ (encodeHeader more ++ rest)).head? = some y → isDigit y = false := by
    simpa [encodeHeader, List.append_assoc] using hhead
  have hbg : Bounded good := fun e he => hb e (List.mem_append_left _ he)
  have hp := metaLoop_prefix_c n good (f + 1) pre (encodePair bad ++ (encodeHeader more ++ rest)) 0 [] b hl1 hbg
    (by simpa using hc) (by simpa using hn) hhead'
  rw [hsA, hp]
  have hsB : pre ++ (encodeHeader good ++ (encodePair bad ++ (encodeHeader more ++ rest))) =
      (pre ++ encodeHeader good) ++ (encodePair bad ++ (encodeHeader more ++ rest)) := by
    simp [List.append_assoc]
  have hpos : pre.length + (encodeHeader good).length = (pre ++ encodeHeader good).length := by simp
  obtain ⟨hp1, hm1, hmne, -⟩ := hlb
  have hbb := hb bad (List.mem_append_right _ List.mem_cons_self)
  rw [hsB, hpos, metaLoop_step_c n f (pre ++ encodeHeader good) (encodeHeader more ++ rest) bad _ _ hp1 hm1 hmne hbb.1 hbb.2
    (hdr_rest_head_c more rest hlm hr)]
  have hne : declared good ≠ [] := by
    cases good with
    | nil => exact absurd rfl hg
    | cons e t => simp [declared]
  simp [hbad, hne]

end Parsley.C14
