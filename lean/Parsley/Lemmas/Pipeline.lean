/-
  Lemmas about the end-to-end model Model/Pipeline.lean (property C01):
    parseDataE_eq      the loader variant that also returns the final context agrees with Loader.parseData
    decodeStream_np    decode_stream never panics when no decoder does (`DecNP`: clause 1 of C03's DecodersTotal,
                       a theorem since Lemmas/LoaderDecoders.lean `applyFilter_no_panic`; Props/C01.lean discharges it)
    dumpRoot_ok        dump_root's breadth-first traversal finishes within its budget |objU|+1, for every
                       definition map and root (cyclic graphs included): the processed set is duplicate-free
                       and stays inside the finite universe `TC.Term.objU`, which is closed under components
                       and reference look-up
    typeCheck_np       the type-check machine never reaches its two `unreachable!` sites on the SHIPPED
                       specification (no node of the regenerated specification is a disjunction without
                       alternatives: decided on the regenerated term), and finishes within C09's work bound
-/
import Parsley.Model.Pipeline
import Parsley.Lemmas.LoaderNoPanic
import Parsley.Lemmas.TypeCheckTerm
namespace Parsley.PipelineLemmas
open Parsley Parsley.Obj Parsley.Loader Parsley.Pipeline

/-- no stream-filter decoder reaches a panic site (clause 1 of `LoaderNoPanic.DecodersTotal`; proved outright in
    Lemmas/LoaderDecoders.lean, which this file does not import) -/
def DecNP : Prop := ∀ (f : Filters.Filter) (d : Bytes) (p : String), Filters.applyFilter Loader.ext f d ≠ .panic p

/-! ## the loader with its context -/
theorem parseObjectsE_eq (hofs : Nat) (st : St) (infos : List ObjInfo) (s : Bytes) :
    Pipeline.Out.map (·.defs) (parseObjectsE hofs st infos s) = parseObjects hofs st infos s := by
  unfold parseObjectsE parseObjects
  rcases firstPass infos st.ctx s [] [] with ⟨o, c1⟩
  cases o with
  | panic p => rfl
  | reject => rfl
  | ok v =>
    rcases v with ⟨os, sp⟩
    simp only []
    rcases secondPass sp c1 s with ⟨o2, c2⟩
    cases o2 with
    | panic p => rfl
    | reject => rfl
    | ok v2 =>
      simp only []
      rcases objStmPass hofs s (definedStreams os c2.defs) ⟨valDefs c2.defs, ⟨c2.cur, c2.max⟩, st.enc⟩ with ⟨o3, oc⟩
      cases o3 <;> rfl

theorem loadViewE_eq (hofs : Nat) (s : Bytes) :
    Pipeline.Out.map LoadedE.toLoaded (loadViewE hofs s) = loadView hofs s := by
  unfold loadViewE loadView
  rcases Prim.comment s 0 with ⟨r, c⟩
  cases r with
  | err k => rfl
  | panic p => rfl
  | ok v =>
    simp only []
    cases scanBack kwStartxref (s.take (match scanBack kwEOF s with | some k => k | none => s.length)) with
    | none => rfl
    | some sx =>
      simp only []
      rcases startXrefP s sx with ⟨r2, c2⟩
      cases r2 with
      | err k => rfl
      | panic p => rfl
      | ok ofs =>
        simp only []
        split
        · rfl
        · rcases getXrefInfo ⟨Indirect.Ctx.new 50, false⟩ s ofs with ⟨r3, st⟩
          cases r3 with
          | panic p => rfl
          | reject => rfl
          | ok v3 =>
            rcases v3 with ⟨ents, rootRef⟩
            simp only []
            rw [← parseObjectsE_eq]
            cases parseObjectsE hofs st (infoOf ents) s with
            | panic p => rfl
            | reject => rfl
            | ok oc =>
              simp only [Pipeline.Out.map]
              cases rootRef <;> rfl

theorem parseDataE_eq (data : Bytes) :
    Pipeline.Out.map LoadedE.toLoaded (parseDataE data) = parseData data := by
  unfold parseDataE parseData
  cases scanFwd kwPdf data with
  | none => rfl
  | some n => exact loadViewE_eq n _

/-! ## decode_stream never panics (given total decoders) -/

theorem zipFilters_np : ∀ (fa da : List Filters.Obj) (acc : List Filters.Filter) (p : String),
    Filters.zipFilters fa da acc ≠ .panic p := by
  intro fa
  induction fa with
  | nil => intro da acc p; simp [Filters.zipFilters]
  | cons f fs ih =>
    intro da acc p
    cases da with
    | nil => simp [Filters.zipFilters]
    | cons d ds =>
      unfold Filters.zipFilters
      split
      · exact ih _ _ _
      · exact ih _ _ _
      · simp
      · simp

theorem namesOnly_np : ∀ (fa : List Filters.Obj) (acc : List Filters.Filter) (p : String),
    Filters.namesOnly fa acc ≠ .panic p := by
  intro fa
  induction fa with
  | nil => intro acc p; simp [Filters.namesOnly]
  | cons f fs ih =>
    intro acc p
    cases f <;> simp [Filters.namesOnly]
    exact ih _ _

theorem filters_np (d : Filters.Dict) (p : String) : Filters.filters d ≠ .panic p := by
  unfold Filters.filters
  split
  · split
    · simp
    · split <;> simp
  · split
    · split
      · split
        · simp
        · exact zipFilters_np _ _ _ _
      · exact namesOnly_np _ _ _
    · simp

theorem runChain_np (hdec : DecNP) : ∀ (fs : List Filters.Filter) (x : Bytes) (p : String),
    Filters.runChain Loader.ext fs x ≠ .panic p := by
  intro fs
  induction fs with
  | nil => intro x p; simp [Filters.runChain]
  | cons f fs ih =>
    intro x p
    unfold Filters.runChain
    split
    · exact ih _ _
    · simp
    · rename_i m hm; exact absurd hm (hdec _ _ _)

theorem decodeStream_np (hdec : DecNP) (d : Filters.Dict) (c : Bytes) (p : String) :
    Filters.decodeStream Loader.ext d c ≠ .panic p := by
  unfold Filters.decodeStream
  split
  · split
    · simp
    · simp
    · rename_i m hm; exact absurd hm (runChain_np hdec _ _ _)
  · simp
  · rename_i m hm; exact absurd hm (filters_np _ _)

theorem decodeObjStream_np (hdec : DecNP) (kvs : List (Bytes × Obj)) (sc : Prim.StreamContent)
    (p : String) : decodeObjStream kvs sc ≠ .panic p := decodeStream_np hdec _ _ _

/-! ## dump_root terminates within its budget and never panics -/

theorem vals_toTCArr : ∀ xs : List Obj, (toTCArr xs).vals = xs.map toTC := by
  intro xs
  induction xs with
  | nil => simp [toTCArr, TC.ObjL.vals, TC.ObjL.toList]
  | cons x t ih =>
    simp only [toTCArr, TC.ObjL.vals, TC.ObjL.toList, List.map_cons] at ih ⊢
    rw [ih]

theorem vals_toTCKvs : ∀ kvs : List (Bytes × Obj), (toTCKvs kvs).vals = kvs.map (fun kv => toTC kv.2) := by
  intro kvs
  induction kvs with
  | nil => simp [toTCKvs, TC.ObjL.vals, TC.ObjL.toList]
  | cons x t ih =>
    obtain ⟨k, v⟩ := x
    simp only [toTCKvs, TC.ObjL.vals, TC.ObjL.toList, List.map_cons] at ih ⊢
    rw [ih]

theorem lookup_toGraph (id : Nat × Nat) : ∀ (defs : ObjStm.Defs) (o : Obj),
    ObjStm.defsGet id defs = some o → (toGraph defs).lookup id = some (toTC o) := by
  intro defs
  induction defs with
  | nil => intro o h; simp [ObjStm.defsGet] at h
  | cons x t ih =>
    obtain ⟨k, v⟩ := x
    intro o h
    simp only [ObjStm.defsGet] at h
    simp only [toGraph, TC.Graph.lookup]
    by_cases hk : k = id
    · subst hk; simp at h; subst h; simp
    · have : (id == k) = false := by
        simp; exact fun e => hk e.symm
      rw [this] at h
      simp only [Bool.false_eq_true, if_false] at h
      simp [hk, ih o h]

section
variable (defs : ObjStm.Defs) (root : Obj)

/-- the universe the traversal stays in -/
abbrev U : List TC.Obj := TC.Term.objU (toGraph defs) (toTC root)

theorem kids_in_U (o : Obj) (ho : toTC o ∈ U defs root) : ∀ c ∈ kidsOf defs o, toTC c ∈ U defs root := by
  intro c hc
  cases o with
  | arr xs =>
    apply TC.Term.objU_kids _ _ _ _ ho
    simp only [toTC, TC.Term.objKids, vals_toTCArr]
    simp only [kidsOf] at hc
    exact List.mem_map_of_mem hc
  | dict kvs =>
    apply TC.Term.objU_kids _ _ _ _ ho
    simp only [toTC, TC.Term.objKids, vals_toTCKvs]
    simp only [kidsOf, List.mem_map] at hc
    obtain ⟨kv, hkv, e⟩ := hc
    subst e
    exact List.mem_map.mpr ⟨kv, hkv, rfl⟩
  | stream kvs sc =>
    apply TC.Term.objU_kids _ _ _ _ ho
    simp only [toTC, TC.Term.objKids, vals_toTCKvs]
    simp only [kidsOf, List.mem_map] at hc
    obtain ⟨kv, hkv, e⟩ := hc
    subst e
    exact List.mem_map.mpr ⟨kv, hkv, rfl⟩
  | ref n g =>
    simp only [kidsOf] at hc
    cases h : ObjStm.defsGet (n, g) defs with
    | none => simp [h] at hc
    | some t =>
      simp only [h, List.mem_singleton] at hc
      subst hc
      exact TC.Term.objU_lookup _ _ _ _ (lookup_toGraph (n, g) defs _ h)
  | null => simp [kidsOf] at hc
  | bool b => simp [kidsOf] at hc
  | int n => simp [kidsOf] at hc
  | real n d => simp [kidsOf] at hc
  | str b => simp [kidsOf] at hc
  | name b => simp [kidsOf] at hc
  | comment b => simp [kidsOf] at hc

/-- queue entries and the processed set lie in the universe; the processed set has no duplicates -/
structure BInv (q : List Obj) (p : List TC.Obj) : Prop where
  qU : ∀ o ∈ q, toTC o ∈ U defs root
  pU : ∀ x ∈ p, x ∈ U defs root
  nodup : p.Nodup

theorem pushNew_inv : ∀ (cs q : List Obj) (p : List TC.Obj), (∀ c ∈ cs, toTC c ∈ U defs root) → BInv defs root q p →
    BInv defs root (pushNew cs q p).1 (pushNew cs q p).2 ∧
    (pushNew cs q p).1.length + p.length = q.length + (pushNew cs q p).2.length := by
  intro cs
  induction cs with
  | nil => intro q p _ h; exact ⟨h, rfl⟩
  | cons c t ih =>
    intro q p hcs h
    have hc := hcs c (by simp)
    have ht : ∀ c ∈ t, toTC c ∈ U defs root := fun x hx => hcs x (by simp [hx])
    unfold pushNew
    split
    · exact ih q p ht h
    · rename_i hnc
      have hnm : toTC c ∉ p := by simpa using hnc
      have h' : BInv defs root (q ++ [c]) (toTC c :: p) := by
        refine ⟨?_, ?_, List.nodup_cons.mpr ⟨hnm, h.nodup⟩⟩
        · intro o ho
          simp only [List.mem_append, List.mem_singleton] at ho
          rcases ho with ho | ho
          · exact h.qU o ho
          · subst ho; exact hc
        · intro x hx
          simp only [List.mem_cons] at hx
          rcases hx with hx | hx
          · subst hx; exact hc
          · exact h.pU x hx
      obtain ⟨i1, i2⟩ := ih (q ++ [c]) (toTC c :: p) ht h'
      refine ⟨i1, ?_⟩
      simp only [List.length_append, List.length_cons, List.length_nil] at i2
      omega

theorem bfs_ok (hdec : DecNP) (enc : Bool) : ∀ (f : Nat) (q : List Obj) (p : List TC.Obj),
    BInv defs root q p → q.length + ((U defs root).length - p.length) < f → bfs enc defs f q p = .ok () := by
  intro f
  induction f with
  | zero => intro q p _ h; omega
  | succ f ih =>
    intro q p hinv hm
    cases q with
    | nil => simp [bfs]
    | cons o q =>
      have ho := hinv.qU o (by simp)
      have hq : BInv defs root q p := ⟨fun x hx => hinv.qU x (by simp [hx]), hinv.pU, hinv.nodup⟩
      obtain ⟨i1, i2⟩ := pushNew_inv defs root (kidsOf defs o) q p (kids_in_U defs root o ho) hq
      have hlen' := TC.Term.nodup_length_le _ _ i1.nodup i1.pU
      have hlen := TC.Term.nodup_length_le _ _ hinv.nodup hinv.pU
      have hrec : bfs enc defs f (pushNew (kidsOf defs o) q p).1 (pushNew (kidsOf defs o) q p).2 = .ok () := by
        apply ih _ _ i1
        simp only [List.length_cons] at hm
        omega
      unfold bfs
      simp only []
      split
      · rename_i kvs sc
        split
        · split
          · rename_i s hs; exact absurd hs (decodeObjStream_np hdec _ _ _)
          · exact hrec
        · exact hrec
      · exact hrec

theorem dumpRoot_ok (hdec : DecNP) (enc : Bool) : dumpRoot enc defs root = .ok () := by
  unfold dumpRoot bfsFuel
  apply bfs_ok defs root hdec
  · refine ⟨?_, ?_, by simp⟩
    · intro o ho
      simp only [List.mem_singleton] at ho
      subst ho
      simp [TC.Term.objU, TC.Term.objSubs_self]
    · intro x hx
      simp only [List.mem_singleton] at hx
      subst hx
      simp [TC.Term.objU, TC.Term.objSubs_self]
  · show [root].length + ((TC.Term.objU (toGraph defs) (toTC root)).length - [toTC root].length) <
      (TC.Term.objU (toGraph defs) (toTC root)).length + 1
    have h1 : 1 ≤ (TC.Term.objU (toGraph defs) (toTC root)).length := by simp [TC.Term.objU]
    simp only [List.length_cons, List.length_nil]
    omega

/-! ### the depth labels of dump_root as written (`bfsD`): below the number of processed objects -/

/-- every queued label is smaller than the number of processed objects -/
def DInv (q : List (Obj × Nat)) (p : List TC.Obj) : Prop := ∀ x ∈ q, x.2 + 1 ≤ p.length

theorem pushNewD_eq (lim d : Nat) (hlim : (U defs root).length ≤ lim) :
    ∀ (cs : List Obj) (q : List (Obj × Nat)) (p : List TC.Obj), (∀ c ∈ cs, toTC c ∈ U defs root) →
    BInv defs root (q.map (·.1)) p → DInv q p → d + 1 ≤ p.length →
    ∃ q', pushNewD lim d cs q p = some (q', (pushNew cs (q.map (·.1)) p).2) ∧
      q'.map (·.1) = (pushNew cs (q.map (·.1)) p).1 ∧ DInv q' (pushNew cs (q.map (·.1)) p).2 := by
  intro cs
  induction cs with
  | nil => intro q p _ _ hd _; exact ⟨q, rfl, rfl, hd⟩
  | cons c t ih =>
    intro q p hcs h hd hdp
    have hc := hcs c (by simp)
    have ht : ∀ c ∈ t, toTC c ∈ U defs root := fun x hx => hcs x (by simp [hx])
    unfold pushNewD pushNew
    by_cases hcon : p.contains (toTC c) = true
    · rw [if_pos hcon, if_pos hcon]
      exact ih q p ht h hd hdp
    · rw [if_neg hcon, if_neg hcon]
      have hnm : toTC c ∉ p := by simpa using hcon
      have hnd : (toTC c :: p).Nodup := List.nodup_cons.mpr ⟨hnm, h.nodup⟩
      have hsub : ∀ x ∈ toTC c :: p, x ∈ U defs root := by
        intro x hx
        simp only [List.mem_cons] at hx
        rcases hx with hx | hx
        · subst hx; exact hc
        · exact h.pU x hx
      have hlen := TC.Term.nodup_length_le _ _ hnd hsub
      simp only [List.length_cons] at hlen
      rw [if_neg (by omega)]
      have h' : BInv defs root ((q ++ [(c, d + 1)]).map (·.1)) (toTC c :: p) := by
        refine ⟨?_, hsub, hnd⟩
        intro o ho
        simp only [List.map_append, List.map_cons, List.map_nil, List.mem_append, List.mem_singleton] at ho
        rcases ho with ho | ho
        · exact h.qU o ho
        · subst ho; exact hc
      have hd' : DInv (q ++ [(c, d + 1)]) (toTC c :: p) := by
        intro x hx
        simp only [List.mem_append, List.mem_singleton] at hx
        simp only [List.length_cons]
        rcases hx with hx | hx
        · have := hd x hx; omega
        · subst hx; simp only; omega
      have := ih (q ++ [(c, d + 1)]) (toTC c :: p) ht h' hd' (by simp only [List.length_cons]; omega)
      simpa only [List.map_append, List.map_cons, List.map_nil] using this

/-- **the labelled loop is the unlabelled one** as long as the universe of the traversal has at most `lim`
    objects: `depth + 1` cannot overflow before `lim` distinct objects have been processed -/
theorem bfsD_eq_bfs (lim : Nat) (hlim : (U defs root).length ≤ lim) (enc : Bool) :
    ∀ (f : Nat) (q : List (Obj × Nat)) (p : List TC.Obj), BInv defs root (q.map (·.1)) p → DInv q p →
    bfsD lim enc defs f q p = bfs enc defs f (q.map (·.1)) p := by
  intro f
  induction f with
  | zero => intro q p _ _; simp [bfsD, bfs]
  | succ f ih =>
    intro q p hinv hd
    cases q with
    | nil => simp [bfsD, bfs]
    | cons od q =>
      obtain ⟨o, d⟩ := od
      have ho := hinv.qU o (by simp)
      have hq : BInv defs root (q.map (·.1)) p :=
        ⟨fun x hx => hinv.qU x (by simp only [List.map_cons, List.mem_cons]; exact Or.inr hx), hinv.pU, hinv.nodup⟩
      have hdq : DInv q p := fun x hx => hd x (by simp [hx])
      have hdp : d + 1 ≤ p.length := hd (o, d) (by simp)
      obtain ⟨q', e1, e2, e3⟩ := pushNewD_eq defs root lim d hlim (kidsOf defs o) q p (kids_in_U defs root o ho) hq hdq hdp
      obtain ⟨i1, _⟩ := pushNew_inv defs root (kidsOf defs o) (q.map (·.1)) p (kids_in_U defs root o ho) hq
      have hrec := ih q' (pushNew (kidsOf defs o) (q.map (·.1)) p).2 (by rw [e2]; exact i1) e3
      rw [e2] at hrec
      simp only [List.map_cons]
      unfold bfsD bfs
      simp only [e1]
      split
      · split
        · split <;> first | rfl | exact hrec
        · exact hrec
      · exact hrec

theorem dumpRootD_eq (hlim : (U defs root).length ≤ depthLim) (enc : Bool) :
    dumpRootD enc defs root = dumpRoot enc defs root := by
  unfold dumpRootD dumpRoot
  apply bfsD_eq_bfs defs root depthLim hlim enc
  · refine ⟨?_, ?_, by simp⟩
    · intro o ho
      simp only [List.map_cons, List.map_nil, List.mem_singleton] at ho
      subst ho
      simp [TC.Term.objU, TC.Term.objSubs_self]
    · intro x hx
      simp only [List.mem_singleton] at hx
      subst hx
      simp [TC.Term.objU, TC.Term.objSubs_self]
  · intro x hx
    simp only [List.mem_singleton] at hx
    subst hx
    simp
end


end Parsley.PipelineLemmas

namespace Parsley.PipelineTC
open Parsley Parsley.TC Parsley.TC.Term Parsley.TC.Spec

/-! ## the type-check machine never reaches its two `unreachable!` sites -/

def notPanic : St ⊕ (Outcome × Nat) → Prop
  | .inr (.panic _, _) => False
  | _ => True

theorem issue_np (fx : Fix) (g : Graph) (ctx : Ctx) (s : St) (o : Obj) (tc : Chk) (hne : s.todo ≠ []) :
    notPanic (issue fx g ctx s o tc) := by
  unfold issue
  cases resolve ctx tc with
  | none => simp [notPanic]
  | some c =>
    simp only []
    split
    · simp [notPanic]
    · cases processCheck fx g ctx o tc c with
      | hard k => simp [notPanic]
      | fail k => simp [notPanic]
      | pass => simp [notPanic]
      | ret p =>
        simp only []
        cases h : s.todo with
        | nil => exact absurd h hne
        | cons e rest => simp [notPanic]
      | push ps => simp [notPanic]
      | pushRaw ps => simp [notPanic]

theorem unwindOr_np (s : St) (t : List Ent) (k : EK) : notPanic (unwindOr s t k) := by
  unfold unwindOr
  cases unwind t <;> simp [notPanic]

section
variable (fx : Fix) (g : Graph) (ctx : Ctx) (o0 : Obj) (c0 : Chk)

/-- no node of the (normalised) specification universe is a disjunction without alternatives -/
def DisjOK : Prop := ∀ a set, Chk.disj a set ∈ chkU ctx c0 → set.chks ≠ []

theorem step_np (hd : DisjOK ctx c0) (st0 : St) (hinv : Inv g ctx o0 c0 st0.todo st0.examined) :
    notPanic (step fx g ctx st0) := by
  unfold step
  generalize hst : (if st0.fresh = true then { st0 with steps := st0.steps + 1, fresh := false } else st0) = s
  have hs1 : st0.todo = s.todo := by subst hst; split <;> rfl
  rw [hs1] at hinv
  clear hst hs1
  simp only []
  cases htd : s.todo with
  | nil => cases s.err <;> simp [notPanic]
  | cons e rest =>
    rw [htd] at hinv
    have hpend := hinv.pendU
    rw [pendU_cons] at hpend
    simp only []
    have hrs : ∀ (s' : St) (e' : Ent), (restore fx s' e').todo = s'.todo := by
      intro s' e'; unfold restore; split <;> rfl
    cases hp : e.pending with
    | nil =>
      simp only []
      cases s.err with
      | none => simp [notPanic]
      | some k => exact unwindOr_np _ _ _
    | cons p ptl =>
      obtain ⟨obj, tc⟩ := p
      rw [hp] at hpend
      have hInFront : InU g ctx o0 c0 (obj, tc) := hpend.1 _ (by simp)
      simp only []
      have single : ∀ (tc' : Chk),
          notPanic (match s.err with
            | some k => unwindOr s ({ e with pending := ptl } :: rest) k
            | none => issue fx g ctx { s with todo := { e with pending := ptl } :: rest } obj tc') := by
        intro tc'
        cases s.err with
        | some k => exact unwindOr_np _ _ _
        | none => exact issue_np _ _ _ _ _ _ (by simp)
      cases tc with
      | disj a set =>
        simp only []
        split
        · cases s.err with
          | none => simp [notPanic]
          | some k =>
            simp only []
            cases set.chks[e.idx]? with
            | none => exact unwindOr_np _ _ _
            | some c => exact issue_np _ _ _ _ _ _ (by rw [hrs]; simp)
        · cases s.err with
          | some k => exact unwindOr_np _ _ _
          | none =>
            simp only []
            cases hc : set.chks with
            | nil => exact absurd hc (hd a set hInFront.2)
            | cons c0' cs =>
              simp only []
              split
              · exact issue_np _ _ _ _ _ _ (by simp)
              · exact issue_np _ _ _ _ _ _ (by simp)
      | named n => exact single _
      | any a => exact single _
      | prim a p => exact single _
      | array a el sz => exact single _
      | het a es => exact single _
      | dict a es => exact single _
      | dictStar a es so sc => exact single _
      | stream a es => exact single _

theorem run_np (htr : fx.trail = false) (hd : DisjOK ctx c0) :
    ∀ (n : Nat) (st : St), Inv g ctx o0 c0 st.todo st.examined → ∀ s, (run fx g ctx n st).1 ≠ .panic s
  | 0, st, _, s => by simp [run]
  | n+1, st, hinv, s => by
    simp only [run]
    have hnp := step_np fx g ctx o0 c0 hd st hinv
    cases hs : step fx g ctx st with
    | inr r =>
      rw [hs] at hnp
      obtain ⟨o, k⟩ := r
      cases o <;> simp_all [notPanic]
    | inl st' =>
      simp only []
      exact run_np htr hd n st' (step_ok fx g ctx o0 c0 htr st hinv st' hs).1 s
end

/-- `check_type` on a root check whose normalised universe has no empty disjunction never panics -/
theorem checkTypeFuel_np (fx : Fix) (htr : fx.trail = false) (g : Graph) (ctx : Ctx) (fuel : Nat) (o : Obj) (chk : Chk)
    (hd : ∀ rep, resolve ctx chk = some rep → DisjOK ctx (rep.norm fx)) (s : String) :
    (checkTypeFuel fx g ctx fuel o chk).1 ≠ .panic s := by
  unfold checkTypeFuel
  cases hr : resolve ctx chk with
  | none => simp
  | some rep =>
    simp only []
    have hIn : InU g ctx o (rep.norm fx) (o, rep.norm fx) :=
      ⟨by simp [objU, objSubs_self], base_sub_chkU ctx _ _ (by simp [baseU, chkSubs_self])⟩
    apply run_np fx g ctx o (rep.norm fx) htr (hd rep hr)
    refine ⟨by simp [initSt], by simp [initSt], ?_⟩
    simp only [initSt, pendU_cons]
    refine ⟨?_, by simp [PendU]⟩
    intro p hp
    simp only [List.mem_singleton] at hp
    subst hp; exact hIn

/-! ### the shipped specification -/

def disjOKb : Chk → Bool
  | .disj _ set => !set.chks.isEmpty
  | _ => true

mutual
/-- every disjunction inside the check has at least one alternative -/
def deepOK : Chk → Bool
  | .named _ => true
  | .any _ => true
  | .prim _ _ => true
  | .array _ e _ => deepOK e
  | .het _ es => deepOKL es
  | .dict _ es => deepOKL es
  | .dictStar _ es _ sc => deepOKL es && deepOK sc
  | .stream _ es => deepOKL es
  | .disj _ os => !os.chks.isEmpty && deepOKL os
def deepOKL : ChkL → Bool
  | .nil => true
  | .cons _ _ c t => deepOK c && deepOKL t
end

mutual
theorem deepOK_subs : ∀ (c : Chk), deepOK c = true → ∀ d ∈ chkSubs c, disjOKb d = true
  | .named n, _, d, hd => by simp [chkSubs] at hd; subst hd; rfl
  | .any a, _, d, hd => by simp [chkSubs] at hd; subst hd; rfl
  | .prim a p, _, d, hd => by simp [chkSubs] at hd; subst hd; rfl
  | .array a e sz, h, d, hd => by
    simp only [chkSubs, List.mem_cons] at hd
    rcases hd with hd | hd
    · subst hd; rfl
    · exact deepOK_subs e (by simpa [deepOK] using h) d hd
  | .het a es, h, d, hd => by
    simp only [chkSubs, List.mem_cons] at hd
    rcases hd with hd | hd
    · subst hd; rfl
    · exact deepOKL_subs es (by simpa [deepOK] using h) d hd
  | .dict a es, h, d, hd => by
    simp only [chkSubs, List.mem_cons] at hd
    rcases hd with hd | hd
    · subst hd; rfl
    · exact deepOKL_subs es (by simpa [deepOK] using h) d hd
  | .dictStar a es so sc, h, d, hd => by
    simp only [deepOK, Bool.and_eq_true] at h
    simp only [chkSubs, List.mem_cons, List.mem_append] at hd
    rcases hd with hd | hd | hd
    · subst hd; rfl
    · exact deepOKL_subs es h.1 d hd
    · exact deepOK_subs sc h.2 d hd
  | .stream a es, h, d, hd => by
    simp only [chkSubs, List.mem_cons] at hd
    rcases hd with hd | hd
    · subst hd; rfl
    · exact deepOKL_subs es (by simpa [deepOK] using h) d hd
  | .disj a os, h, d, hd => by
    simp only [deepOK, Bool.and_eq_true] at h
    simp only [chkSubs, List.mem_cons] at hd
    rcases hd with hd | hd
    · subst hd; simpa [disjOKb] using h.1
    · exact deepOKL_subs os h.2 d hd
theorem deepOKL_subs : ∀ (l : ChkL), deepOKL l = true → ∀ d ∈ chkLSubs l, disjOKb d = true
  | .nil, _, d, hd => by simp [chkLSubs] at hd
  | .cons k o c t, h, d, hd => by
    simp only [deepOKL, Bool.and_eq_true] at h
    simp only [chkLSubs, List.mem_append] at hd
    rcases hd with hd | hd
    · exact deepOK_subs c h.1 d hd
    · exact deepOKL_subs t h.2 d hd
end

theorem disjOK_of_deep (ctx : Ctx) (c0 : Chk) (h0 : deepOK c0 = true) (hctx : ctx.all (fun d => deepOK d.2) = true) :
    DisjOK ctx c0 := by
  intro a set hmem
  simp only [chkU, List.mem_flatMap] at hmem
  obtain ⟨b, hb, hdec⟩ := hmem
  have hbOK : disjOKb b = true := by
    simp only [baseU, List.mem_append, List.mem_flatMap] at hb
    rcases hb with hb | ⟨d, hd, hb⟩
    · exact deepOK_subs c0 h0 b hb
    · exact deepOK_subs d.2 (List.all_eq_true.mp hctx d hd) b hb
  have key : ∀ at', b.setAttr at' = Chk.disj a set → set.chks ≠ [] := by
    intro at' he
    cases b <;> simp [Chk.setAttr] at he
    obtain ⟨_, he⟩ := he
    subst he
    simpa [disjOKb] using hbOK
  simp only [decor, List.mem_cons, List.not_mem_nil, or_false] at hdec
  rcases hdec with hdec | hdec | hdec | hdec | hdec
  · subst hdec; simpa [disjOKb] using hbOK
  · exact key _ hdec.symm
  · exact key _ hdec.symm
  · cases hdec
  · cases hdec

theorem shipped_resolve : resolve Pipeline.shippedCtx Pipeline.shippedCat = some Pipeline.shippedCat := by
  decide +kernel

theorem shipped_deep_cat : deepOK (Pipeline.shippedCat.norm Fix.tree) = true := by decide +kernel

theorem shipped_deep_ctx : Pipeline.shippedCtx.all (fun d => deepOK d.2) = true := by decide +kernel

theorem shipped_disjOK : DisjOK Pipeline.shippedCtx (Pipeline.shippedCat.norm Fix.tree) :=
  disjOK_of_deep _ _ shipped_deep_cat shipped_deep_ctx

theorem verdictOf_eq (p : Outcome × Nat) : Pipeline.verdictOf p = p.1 := by cases p; rfl

theorem typeCheck_np (g : Graph) (o : Obj) (s : String) : Pipeline.typeCheck g o ≠ .panic s := by
  unfold Pipeline.typeCheck
  rw [verdictOf_eq]
  apply checkTypeFuel_np Fix.tree rfl
  intro rep hr
  rw [shipped_resolve] at hr
  injection hr with hr
  subst hr
  exact shipped_disjOK

theorem typeCheck_fuel (g : Graph) (o : Obj) : Pipeline.typeCheck g o ≠ .outOfFuel := by
  unfold Pipeline.typeCheck
  rw [verdictOf_eq]
  exact checkTypeFuel_terminates Fix.tree rfl g Pipeline.shippedCtx o Pipeline.shippedCat

end Parsley.PipelineTC
