/-
  C01, third follow-up: the loader's no-panic theorem with the decoder hypothesis of C03 removed as far as
  the models allow.

  `LoaderNoPanic.DecodersTotal` has two clauses.  Clause 1 (no decoder reaches a panic site, the inflate
  model's fuel included) is a theorem (`LoaderDecoders.applyFilter_no_panic`).  Clause 2 (every decoder output
  is at most 2^63 bytes) is false of the list model for absurdly long inputs (`LoaderDecoders.size_clause_false`)
  and is used in ONE place only: `objStmPass`, where the decoded data of an object stream becomes the buffer
  whose `set_cursor` address arithmetic must not overflow.  This file

    * re-proves the cross-reference half of the loader (`getXrefInfo_ok'` …) from clause 1 alone
      (the proofs of Lemmas/LoaderNoPanic.lean with the hypothesis replaced by the theorem);
    * proves the object-stream pass from a RELATIVE size bound: a chain of `n` filters multiplies the length by
      at most `2064 ^ n` (`decodeLoop_len`, from `applyFilter_len`), so for a document view `s` with
      `2064 ^ k * |s| ≤ 2^63` whose defined streams name at most `k` filters the pass reaches no panic site
      (`objStmPass_ok'`);
    * carries "every defined stream names at most `k` filters" through the loader as an invariant of the
      definitions map (`DefsChains`), from a hypothesis about the FILE only: every dictionary the object parser
      can read at any offset of the document names at most `k` filters (`FilterArraysLE`);
    * concludes `parseData_no_panic_small`: no panic site of the loader is reachable for such files.
-/
import Parsley.Lemmas.LoaderDecoders
import Parsley.Lemmas.IndirectLocal
import Parsley.Lemmas.LoaderDefsInv
import Parsley.Lemmas.Pipeline
namespace Parsley.PipelineSized
open Parsley Parsley.Prim Parsley.Obj Parsley.Indirect Parsley.Loader Parsley.LoaderNoPanic Parsley.C15

/-! ## the cross-reference half, from clause 1 alone -/

theorem xrefXf_np (kvs : List (Bytes × Obj)) (f : Xref.Filter) (d : Bytes) (p : String) :
    xrefXf kvs f d ≠ .panic p := by
  unfold xrefXf; exact LoaderDecoders.applyFilter_no_panic _ _ _

theorem xrefStreamP_no_panic' (enc : Bool) (kvs : List (Bytes × Obj))
    (hk : intsOKKvs kvs = true) (s : Bytes) (i : Nat) (p : String) (c : Nat) :
    Xref.xrefStreamP enc (toXDict kvs) (xrefXf kvs) s i ≠ (.panic p, c) := by
  intro h
  unfold Xref.xrefStreamP at h
  split at h
  · simp at h
  · rename_i q hq; exact C13.dictinfo_never_panics _ _ hq
  · rename_i m hm
    obtain ⟨hsz, hix⟩ := getDictInfo_fields _ m hm
    split at h
    · simp at h
    · split at h
      · simp at h
      · rename_i q hq
        exact applyFilters_no_panic _ (xrefXf_np kvs) _ _ _ _ hq
      · rename_i s' i' hq
        refine C13.parseStream_never_panics m s' i' ?_ ?_ p c h
        · have := getUsize_toXDict_bound kvs hk _ _ hsz
          simp only [Xref.usizeLim]; omega
        · intro l hl q hq
          obtain ⟨a, ha, hp⟩ := hix l hl
          exact indexPairs_bound a l (getArray_toXDict_bound kvs hk _ a ha) hp q hq


theorem parseXrefStream_ok' (st : St) (s : Bytes) (i : Nat) (hi : i ≤ s.length)
    (hwf : C05.CtxWF st.ctx) : XOK s.length (parseXrefStream st s i) := by
  unfold parseXrefStream
  have hI := parseIndirect_inv st.ctx s i hi hwf
  split
  · rename_i heq; rw [heq] at hI; exact ⟨hI.1, hI.2⟩
  · rename_i heq; rw [heq] at hI; exact hI.elim
  · rename_i ind j c heq
    rw [heq] at hI
    obtain ⟨hj, hc, hints⟩ := hI
    simp only
    split
    · rename_i kvs sc hv
      split
      · exact ⟨hj, hc⟩
      · have hx := xrefStreamP_no_panic' st.enc kvs (by rw [hv] at hints; simpa [intsOK] using hints)
          ((s.drop sc.start).take sc.size) 0
        split
        · exact ⟨hj, hc⟩
        · rename_i heq2; exact absurd heq2 (hx _ _)
        · exact ⟨hj, hc⟩
    · exact ⟨hj, hc⟩

theorem parseXrefSection_ok' (st : St) (s : Bytes) (i : Nat) (hi : i ≤ s.length)
    (hwf : C05.CtxWF st.ctx) : SOK s.length (parseXrefSection st s i) := by
  unfold parseXrefSection
  split
  · rename_i heq; exact absurd heq (C13.table_never_panics s i _ _)
  · have hx := parseXrefStream_ok' st s i hi hwf
    revert hx
    generalize parseXrefStream st s i = r
    obtain ⟨o, c, st'⟩ := r
    intro hx
    cases o with
    | panic q => exact hx.elim
    | reject => exact hx.2
    | ok v =>
      cases v with
      | none => exact hx
      | some t => exact hx.2
  · rename_i xrs c heq
    simp only
    split
    · exact hwf
    · rename_i k hk
      have ht := trailerP_good st.ctx s (c + k) hwf
      split
      · rename_i heq2; rw [heq2] at ht; exact absurd rfl (ht.1 _)
      · rename_i heq2; rw [heq2] at ht; exact ht.2
      · rename_i d c1 ctx1 heq2
        rw [heq2] at ht
        split
        · exact ht.2
        · rename_i x hx
          split
          · exact ht.2
          · rename_i hxl
            have hx2 := parseXrefStream_ok' ⟨ctx1, st.enc || (dictGet kEncrypt d).isSome⟩ s x (by simpa using hxl) ht.2
            revert hx2
            generalize parseXrefStream ⟨ctx1, st.enc || (dictGet kEncrypt d).isSome⟩ s x = r
            obtain ⟨o, c2, st2⟩ := r
            intro hx2
            cases o with
            | panic q => exact hx2.elim
            | reject => exact hx2.2
            | ok v =>
              cases v with
              | none => exact hx2.2
              | some t => obtain ⟨ents, a, b⟩ := t; exact hx2.2

theorem xrefLoop_ok' (s : Bytes) : ∀ (f : Nat) (st : St) (next : Nat) (cs : List Nat)
    (ids : List (Nat × Nat)) (xs : List Xref.Ent) (root : Option Obj),
    C05.CtxWF st.ctx → cs.Nodup → (∀ x ∈ cs, x < s.length) → s.length + 1 ≤ f + cs.length →
    LOK (xrefLoop f st s next cs ids xs root) := by
  intro f
  induction f with
  | zero =>
    intro st next cs ids xs root _ hnd hlt hf
    have := nodup_bounded_length s.length cs hnd hlt
    omega
  | succ f ih =>
    intro st next cs ids xs root hwf hnd hlt hf
    unfold xrefLoop
    split
    · exact hwf
    · rename_i hnot
      split
      · exact hwf
      · rename_i hlt'
        have hnext : next < s.length := by simpa using hlt'
        have hnd' : (next :: cs).Nodup := by
          refine List.nodup_cons.mpr ⟨?_, hnd⟩
          intro hm; apply hnot; simpa using hm
        have hlt2 : ∀ x ∈ next :: cs, x < s.length := by
          intro x hx
          simp only [List.mem_cons] at hx
          rcases hx with hx | hx
          · subst hx; exact hnext
          · exact hlt x hx
        have hf' : s.length + 1 ≤ f + (next :: cs).length := by simp only [List.length_cons]; omega
        have h1 := parseXrefSection_ok' st s next (by omega) hwf
        split
        · rename_i heq; rw [heq] at h1; exact h1.elim
        · rename_i heq; rw [heq] at h1; exact h1
        · rename_i x1 c1 st1 heq
          rw [heq] at h1
          cases x1 with
          | some info =>
            obtain ⟨ents, rt, prev⟩ := info
            have hwf2 : C05.CtxWF st1.ctx := h1
            simp only
            split
            · exact hwf2
            · rename_i root'' hr
              split
              · split
                · exact hwf2
                · exact hwf2
              · rename_i p
                exact ih st1 p (next :: cs) _ _ root'' hwf2 hnd' hlt2 hf'
          | none =>
            have h2 := parseXrefStream_ok' st1 s c1 h1.1 h1.2
            simp only
            revert h2
            generalize parseXrefStream st1 s c1 = r
            obtain ⟨o, c2, st2⟩ := r
            intro h2
            cases o with
            | panic q => exact h2.elim
            | reject => exact h2.2
            | ok v =>
              cases v with
              | none => exact h2.2
              | some info =>
                obtain ⟨ents, rt, prev⟩ := info
                have hwf2 : C05.CtxWF st2.ctx := h2.2
                simp only
                split
                · exact hwf2
                · rename_i root'' hr
                  split
                  · split
                    · exact hwf2
                    · exact hwf2
                  · rename_i p
                    exact ih st2 p (next :: cs) _ _ root'' hwf2 hnd' hlt2 hf'

theorem getXrefInfo_ok' (st : St) (s : Bytes) (start : Nat) (hwf : C05.CtxWF st.ctx) :
    LOK (getXrefInfo st s start) := by
  unfold getXrefInfo
  exact xrefLoop_ok' s _ st start [] [] [] none hwf List.nodup_nil (by simp) (by simp)

/-! ## filter chains: relative size bound -/

theorem objDec_np (f : ObjStm.Filter) (d : Bytes) (p : String) : objDec f d ≠ .panic p := by
  unfold objDec; exact LoaderDecoders.applyFilter_no_panic _ _ _

theorem objDec_len' (f : ObjStm.Filter) (d d' : Bytes) (h : objDec f d = .ok d') : d'.length ≤ 2064 * d.length := by
  unfold objDec at h; exact LoaderDecoders.applyFilter_len _ _ _ h

theorem decodeLoop_np : ∀ (fs : List ObjStm.Filter) (d : Bytes) (p : String),
    ObjStm.decodeLoop objDec fs d ≠ .panic p := by
  intro fs
  induction fs with
  | nil => intro d p; simp [ObjStm.decodeLoop]
  | cons f t ih =>
    intro d p
    unfold ObjStm.decodeLoop
    split
    · simp
    · split
      · exact ih _ _
      · simp
      · rename_i q hq; exact absurd hq (objDec_np _ _ _)

/-- a chain of `n` filters multiplies the length by at most `2064 ^ n` -/
theorem decodeLoop_len : ∀ (fs : List ObjStm.Filter) (d d' : Bytes),
    ObjStm.decodeLoop objDec fs d = .ok d' → d'.length ≤ 2064 ^ fs.length * d.length := by
  intro fs
  induction fs with
  | nil => intro d d' h; simp [ObjStm.decodeLoop] at h; subst h; simp
  | cons f t ih =>
    intro d d' h
    unfold ObjStm.decodeLoop at h
    split at h
    · cases h
    · split at h
      · rename_i x hx
        have h1 := objDec_len' _ _ _ hx
        have h2 := ih _ _ h
        calc d'.length ≤ 2064 ^ t.length * x.length := h2
          _ ≤ 2064 ^ t.length * (2064 * d.length) := Nat.mul_le_mul_left _ h1
          _ = 2064 ^ (f :: t).length * d.length := by
            rw [List.length_cons, Nat.pow_succ, Nat.mul_assoc]
      · cases h
      · cases h

/-- the dictionary names at most `k` filters -/
def ChainLE (k : Nat) (kvs : ObjStm.Dict) : Prop := ∀ fs, ObjStm.filters kvs = .ok fs → fs.length ≤ k

/-- `ChainLE` as a Bool (for evaluating it on concrete dictionaries) -/
def chainLEb (k : Nat) (kvs : ObjStm.Dict) : Bool :=
  match ObjStm.filters kvs with
  | .ok fs => fs.length ≤ k
  | _ => true

theorem chainLE_of_b (k : Nat) (kvs : ObjStm.Dict) (h : chainLEb k kvs = true) : ChainLE k kvs := by
  intro fs hfs
  unfold chainLEb at h
  rw [hfs] at h
  simpa using h

/-- `C14.objstm_never_panics` for the loader's decoder, with the size hypothesis on the decoder replaced by one
    about the data this call actually produces -/
theorem objStmParse_np_rel (vbase : Nat) (ctx : ObjStm.Ctx) (dict : ObjStm.Dict) (view : Bytes) (cur : Nat)
    (hfinal : ∀ fs data, ObjStm.filters dict = .ok fs → ObjStm.decodeLoop objDec fs (view.drop cur) = .ok data →
      data.length ≤ 2 ^ 63)
    (hview : vbase + view.length ≤ 2 ^ 63)
    (hdepth : ctx.depth.cur ≤ ctx.depth.max) (hsorted : ObjStm.DefsSorted ctx.defs) :
    (ObjStm.objStmParse objDec vbase ctx dict view cur).1.isPanic = false := by
  unfold ObjStm.objStmParse
  have h1 := C14.getDictInfo_no_panic dict
  split
  · rfl
  · rename_i p heq; exact absurd heq (h1 p)
  · rename_i n first heq
    have h2 := C14.filters_no_panic dict
    split
    · rfl
    · rename_i p heq2; exact absurd heq2 (h2 p)
    · rename_i fs heq2
      split
      · rfl
      · split
        · have := C14.parseViews_good vbase ctx n first view hdepth hsorted hview
          revert this
          generalize ObjStm.parseViews vbase ctx n first view = res
          obtain ⟨r0, c'⟩ := res
          cases r0 <;> simp [C14.ViewsGood, Res.isPanic]
        · rename_i f t
          split
          · rfl
          · rename_i p heq3; exact absurd heq3 (decodeLoop_np _ _ _)
          · rename_i data heq3
            have hd := hfinal _ _ heq2 heq3
            have := C14.parseViews_good 0 ctx n first data hdepth hsorted (by omega)
            revert this
            generalize ObjStm.parseViews 0 ctx n first data = res
            obtain ⟨r0, c'⟩ := res
            cases r0 <;> simp [C14.ViewsGood, Res.isPanic]

/-- the object-stream pass: no panic site for a document view whose `k`-fold decoded size fits a Rust buffer and
    whose candidate streams name at most `k` filters -/
theorem objStmPass_ok' (k : Nat) (hofs : Nat) (s : Bytes) (hlen : hofs + s.length ≤ 2 ^ 63)
    (hk : 2064 ^ k * s.length ≤ 2 ^ 63) :
    ∀ (l : List (ObjId × List (Bytes × Obj) × StreamContent)) (oc : ObjStm.Ctx), OInv oc →
    (∀ x ∈ l, ChainLE k x.2.1) → ∀ p, (objStmPass hofs s l oc).1 ≠ .panic p := by
  intro l
  induction l with
  | nil => intro oc _ _ p; rw [objStmPass]; simp
  | cons x t ih =>
    obtain ⟨id, kvs, sc⟩ := x
    intro oc h hch p
    have hch' : ∀ x ∈ t, ChainLE k x.2.1 := fun x hx => hch x (List.mem_cons_of_mem _ hx)
    rw [objStmPass]
    split
    · exact ih oc h hch' p
    · rename_i hcond
      have hc : sc.size ≤ s.length ∧ sc.start ≤ s.length - sc.size := by simpa using hcond
      have hvl : ((s.drop sc.start).take sc.size).length ≤ s.length := by
        simp only [List.length_take, List.length_drop]; omega
      have hview : hofs + sc.start + ((s.drop sc.start).take sc.size).length ≤ 2 ^ 63 := by
        simp only [List.length_take, List.length_drop]; omega
      have hfinal : ∀ fs data, ObjStm.filters kvs = .ok fs →
          ObjStm.decodeLoop objDec fs (((s.drop sc.start).take sc.size).drop 0) = .ok data → data.length ≤ 2 ^ 63 := by
        intro fs data hfs hdl
        have h1 := decodeLoop_len _ _ _ hdl
        have h2 : fs.length ≤ k := hch (id, kvs, sc) List.mem_cons_self fs hfs
        have h3 : 2064 ^ fs.length ≤ 2064 ^ k := Nat.pow_le_pow_right (by decide) h2
        simp only [List.drop_zero] at h1
        calc data.length ≤ 2064 ^ fs.length * ((s.drop sc.start).take sc.size).length := h1
          _ ≤ 2064 ^ k * s.length := Nat.mul_le_mul h3 hvl
          _ ≤ 2 ^ 63 := hk
      have hnp := objStmParse_np_rel (hofs + sc.start) oc kvs ((s.drop sc.start).take sc.size) 0 hfinal hview h.1 h.2
      have hinv := objStmParse_inv objDec (hofs + sc.start) oc kvs ((s.drop sc.start).take sc.size) 0 h
      split
      · rename_i heq; rw [heq] at hnp; simp [Res.isPanic] at hnp
      · rename_i r oc' _ heq; rw [heq] at hinv; exact ih oc' hinv hch' p

/-! ## "every defined stream names at most `k` filters" as an invariant of the definitions map -/

/-- every stream object bound in the definitions map names at most `k` filters -/
def DefsChains (k : Nat) (defs : Defs) : Prop :=
  ∀ id kvs sc a b, defsGet id defs = some ⟨.stream kvs sc, a, b⟩ → ChainLE k kvs

/-- THE HYPOTHESIS ABOUT THE FILE: every dictionary that the object parser (`parse_pdf_obj`, property C16/C02's
    model) can read at any offset of the buffer, at any nesting depth, names at most `k` filters
    (`/Filter` a name: 1; `/Filter` an array: its length) -/
def FilterArraysLE (k : Nat) (s : Bytes) : Prop :=
  ∀ (d : Obj.Depth) (j e : Nat) (d' : Obj.Depth) (o : Located Obj) (kvs : List (Bytes × Obj)),
    parseObj d s j = ((.ok o, e), d') → o.val = .dict kvs → ChainLE k kvs

theorem parseObj_not_stream (d : Obj.Depth) (s : Bytes) (j e : Nat) (d' : Obj.Depth) (o : Located Obj)
    (h : parseObj d s j = ((.ok o, e), d')) : ∀ kvs sc, o.val ≠ .stream kvs sc := by
  unfold parseObj at h
  cases hb : parseObjB d.max (d.max - d.cur) d.cur s j with
  | mk r cur' =>
    rw [hb] at h
    simp only [Prod.mk.injEq] at h
    obtain ⟨h1, _⟩ := h
    subst h1
    exact IndirectLocal.parseObjB_not_stream _ _ _ _ _ _ _ _ hb

theorem preserved_chains (k : Nat) (s : Bytes) (h : FilterArraysLE k s) :
    LoaderDefsInv.Preserved s (DefsChains k) := by
  intro c i hI
  rcases LoaderDefsInv.parseIndirect_defs c s i with heq | ⟨num, gen, j, e, d', o, v, hpo, heq, hv⟩
  · rw [heq]; exact hI
  · rw [heq]
    intro id kvs sc a b hget
    rcases LoaderDefsInv.defsGet_insert_cases _ _ _ _ _ hget with hx | hx
    · rcases hv with hv | ⟨kvs', sc', a', b', ho, hv, _⟩
      · subst hv
        have := parseObj_not_stream _ _ _ _ _ _ hpo kvs sc
        rw [← hx] at this
        exact absurd rfl this
      · rw [hv] at hx
        simp only [Located.mk.injEq, Obj.stream.injEq] at hx
        obtain ⟨⟨hk, _⟩, _, _⟩ := hx
        subst hk
        exact h _ _ _ _ _ _ hpo ho
    · exact hI id kvs sc a b hx

theorem definedStreams_chains (k : Nat) (defs : Defs) (h : DefsChains k defs) :
    ∀ (os : List ObjId), ∀ x ∈ definedStreams os defs, ChainLE k x.2.1 := by
  intro os
  induction os with
  | nil => intro x hx; simp [definedStreams] at hx
  | cons id t ih =>
    intro x hx
    unfold definedStreams at hx
    split at hx
    · rename_i kvs sc a b hget
      simp only [List.mem_cons] at hx
      rcases hx with hx | hx
      · subst hx; exact h id kvs sc a b hget
      · exact ih x hx
    · exact ih x hx

/-! ## parse_objects, parse_data for files whose filter arrays are short -/

theorem parseObjects_no_panic' (k : Nat) (hofs : Nat) (st : St) (infos : List ObjInfo) (s : Bytes)
    (hlen : hofs + s.length ≤ 2 ^ 63) (hk : 2064 ^ k * s.length ≤ 2 ^ 63) (hfa : FilterArraysLE k s)
    (hwf : C05.CtxWF st.ctx) (hI : DefsChains k st.ctx.defs) (p : String) :
    parseObjects hofs st infos s ≠ .panic p := by
  unfold parseObjects
  have hp := preserved_chains k s hfa
  have h1 := firstPass_ok s infos st.ctx [] [] hwf
  have i1 := LoaderDefsInv.firstPass_inv s _ hp infos st.ctx [] [] hI
  split
  · rename_i heq; rw [heq] at h1; exact h1.elim
  · simp
  · rename_i os sp c1 heq
    rw [heq] at h1 i1
    have h2 := secondPass_ok s sp c1 h1
    have i2 := LoaderDefsInv.secondPass_inv s _ hp sp c1 i1
    split
    · rename_i heq2; rw [heq2] at h2; exact h2.elim
    · simp
    · rename_i u c2 heq2
      rw [heq2] at h2 i2
      have h3 := objStmPass_ok' k hofs s hlen hk (definedStreams os c2.defs)
        ⟨valDefs c2.defs, ⟨c2.cur, c2.max⟩, st.enc⟩ ⟨h2.1, valDefs_sorted _ h2.2⟩
        (definedStreams_chains k c2.defs i2 os)
      simp only
      split
      · rename_i q _ heq3; exact absurd (by rw [heq3]) (h3 q)
      · simp
      · simp

theorem loadView_no_panic' (k : Nat) (hofs : Nat) (s : Bytes) (hlen : hofs + s.length ≤ 2 ^ 63)
    (hk : 2064 ^ k * s.length ≤ 2 ^ 63) (hfa : FilterArraysLE k s) (p : String) : loadView hofs s ≠ .panic p := by
  unfold loadView
  have hc := comment_loc s 0 (Nat.zero_le _)
  split
  · simp
  · rename_i heq; rw [heq] at hc; exact hc.elim
  · simp only
    split
    · simp
    · rename_i sx hsx
      split
      · simp
      · rename_i heq; exact absurd heq (startXrefP_no_panic s sx _ _)
      · rename_i ofs c0 heq0
        split
        · simp
        · have hg := getXrefInfo_ok' ⟨Ctx.new 50, false⟩ s ofs (by exact ⟨Nat.zero_le _, List.Pairwise.nil⟩)
          have ig := LoaderDefsInv.getXrefInfo_inv s _ (preserved_chains k s hfa) ⟨Ctx.new 50, false⟩ ofs
            (by intro id kvs sc a b hget; simp [Ctx.new, defsGet] at hget)
          split
          · rename_i heq; rw [heq] at hg; exact hg.elim
          · simp
          · rename_i ents rootRef st heq
            rw [heq] at hg ig
            have hp := parseObjects_no_panic' k hofs st (infoOf ents) s hlen hk hfa hg ig
            split
            · rename_i q heq2; exact absurd heq2 (hp q)
            · simp
            · split <;> simp

/-- **the loader without a decoder hypothesis.**  No panic site of `parse_data` is reachable on a file of at most
    `2^63` bytes whose `k`-fold decoded size `2064^k · |file|` fits a Rust buffer and in which no dictionary names
    more than `k` filters. -/
theorem parseData_no_panic_small (k : Nat) (data : Bytes) (hlen : data.length ≤ 2 ^ 63)
    (hk : 2064 ^ k * data.length ≤ 2 ^ 63) (hfa : ∀ n, FilterArraysLE k (data.drop n)) (p : String) :
    parseData data ≠ .panic p := by
  unfold parseData
  split
  · simp
  · rename_i n hn
    have := scanFwd_lt _ _ _ hn
    refine loadView_no_panic' k n (data.drop n) (by simp only [List.length_drop]; omega) ?_ (hfa n) p
    have hle : (data.drop n).length ≤ data.length := by simp only [List.length_drop]; omega
    exact Nat.le_trans (Nat.mul_le_mul_left _ hle) hk

/-! ## closed forms: what one `decode_stream` and one page's content buffer can grow to -/

theorem runChain_len : ∀ (fs : List Filters.Filter) (x y : Bytes),
    Filters.runChain Loader.ext fs x = .ok y → y.length ≤ 2064 ^ fs.length * x.length := by
  intro fs
  induction fs with
  | nil => intro x y h; simp [Filters.runChain] at h; subst h; simp
  | cons f t ih =>
    intro x y h
    unfold Filters.runChain at h
    split at h
    · rename_i z hz
      have h1 := LoaderDecoders.applyFilter_len _ _ _ hz
      have h2 := ih _ _ h
      calc y.length ≤ 2064 ^ t.length * z.length := h2
        _ ≤ 2064 ^ t.length * (2064 * x.length) := Nat.mul_le_mul_left _ h1
        _ = 2064 ^ (f :: t).length * x.length := by
          rw [List.length_cons, Nat.pow_succ, Nat.mul_assoc]
    · cases h
    · cases h

/-- the number of filters `decode_stream` applies for this dictionary -/
def nFilters (kvs : List (Bytes × Obj)) : Nat :=
  match Filters.filters (toFKvs kvs) with
  | .ok fs => fs.length
  | _ => 0

/-- `decode_stream` of a stream object: at most `2064 ^ (number of filters)` times its raw content -/
theorem decodeObjStream_len (kvs : List (Bytes × Obj)) (sc : StreamContent) (out : Bytes) (d : Filters.Dict)
    (h : Pipeline.decodeObjStream kvs sc = .ok (out, d)) : out.length ≤ 2064 ^ nFilters kvs * sc.content.length := by
  unfold Pipeline.decodeObjStream Filters.decodeStream at h
  unfold nFilters
  split at h
  · rename_i fs hfs
    rw [hfs]
    split at h
    · rename_i o ho
      simp only [Res.ok.injEq, Prod.mk.injEq] at h
      rw [← h.1]
      exact runChain_len _ _ _ ho
    · cases h
    · cases h
  · cases h
  · cases h

/-- the content buffer of one page (`'_content_loop`): with `m` content streams, each of at most `n` raw bytes
    behind at most `k` filters, at most `m · (1 + 2064^k · n)` bytes are appended -/
theorem collect_len (k n : Nat) : ∀ (cs : List (PageDom.Src × Obj)) (buf out : Bytes),
    (∀ c ∈ cs, ∀ kvs sc, c.2 = .stream kvs sc → nFilters kvs ≤ k ∧ sc.content.length ≤ n) →
    Pipeline.collect cs buf = .ok (some out) → out.length ≤ buf.length + cs.length * (1 + 2064 ^ k * n) := by
  intro cs
  induction cs with
  | nil => intro buf out _ h; simp [Pipeline.collect] at h; subst h; simp
  | cons c t ih =>
    intro buf out hcs h
    obtain ⟨src, o⟩ := c
    cases o <;> simp only [Pipeline.collect] at h <;> try (cases h)
    rename_i kvs sc
    split at h
    · rename_i o' d' hd
      have hb := decodeObjStream_len _ _ _ _ hd
      obtain ⟨hk, hn⟩ := hcs (src, .stream kvs sc) (by simp) kvs sc rfl
      have := ih _ _ (fun c hc => hcs c (List.mem_cons_of_mem _ hc)) h
      have h3 : 2064 ^ nFilters kvs * sc.content.length ≤ 2064 ^ k * n :=
        Nat.mul_le_mul (Nat.pow_le_pow_right (by decide) hk) hn
      simp only [List.length_append, List.length_cons] at this ⊢
      rw [Nat.add_mul]
      omega
    · cases h
    · cases h

/-- every stream object bound in the definitions map has a raw content no longer than the buffer -/
def DefsContent (n : Nat) (defs : Defs) : Prop :=
  ∀ id kvs sc a b, defsGet id defs = some ⟨.stream kvs sc, a, b⟩ → sc.content.length ≤ n

theorem preserved_content (s : Bytes) : LoaderDefsInv.Preserved s (DefsContent s.length) := by
  intro c i hI
  rcases LoaderDefsInv.parseIndirect_defs c s i with heq | ⟨num, gen, j, e, d', o, v, hpo, heq, hv⟩
  · rw [heq]; exact hI
  · rw [heq]
    intro id kvs sc a b hget
    rcases LoaderDefsInv.defsGet_insert_cases _ _ _ _ _ hget with hx | hx
    · rcases hv with hv | ⟨kvs', sc', a', b', ho, hv, hlen⟩
      · subst hv
        have := parseObj_not_stream _ _ _ _ _ _ hpo kvs sc
        rw [← hx] at this
        exact absurd rfl this
      · rw [hv] at hx
        simp only [Located.mk.injEq, Obj.stream.injEq] at hx
        obtain ⟨⟨_, hk⟩, _, _⟩ := hx
        subst hk
        exact hlen
    · exact hI id kvs sc a b hx

end Parsley.PipelineSized
