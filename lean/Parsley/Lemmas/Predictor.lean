/-
  Helper lemmas for C07 (model of the predictor code vs. the PNG/TIFF forward filters).
-/
import Parsley.Model.Predictor
import Parsley.Spec.Predictor
namespace Parsley.C07
open Parsley

theorem absI_eq (x : Int) : Pred.absI x = PredSpec.iabs x := rfl

theorem paeth_eq_spec (a b c : UInt8) : Pred.paeth a b c = PredSpec.paeth a b c := by
  unfold Pred.paeth PredSpec.paeth
  simp only [absI_eq]
  have e1 : ((a.toNat : Int) + b.toNat - c.toNat - a.toNat) = (b.toNat : Int) - c.toNat := by omega
  have e2 : ((a.toNat : Int) + b.toNat - c.toNat - b.toNat) = (a.toNat : Int) - c.toNat := by omega
  have e3 : ((a.toNat : Int) + b.toNat - c.toNat - c.toNat) = (a.toNat : Int) + b.toNat - 2 * c.toNat := by omega
  rw [e1, e2, e3]; rfl

theorem average_eq_spec (a b : UInt8) : Pred.average a b = PredSpec.average a b := rfl


theorem predByte_eq (predictor : Nat) (h : 10 ≤ predictor ∧ predictor ≤ 14) (a b c : UInt8) :
    Pred.predByte predictor a b c = PredSpec.predicted (predictor - 10) a b c := by
  have : predictor = 10 ∨ predictor = 11 ∨ predictor = 12 ∨ predictor = 13 ∨ predictor = 14 := by omega
  rcases this with rfl | rfl | rfl | rfl | rfl <;>
    simp [Pred.predByte, PredSpec.predicted, paeth_eq_spec, average_eq_spec]

theorem getD_of_lt (l : Bytes) (i : Nat) (h : i < l.length) : l.getD i 0 = l[i] := by
  simp [List.getD, List.getElem?_eq_getElem h]

theorem getElem?_getD (l : Bytes) (i : Nat) (h : i < l.length) : l[i]? = some (l.getD i 0) := by
  simp [List.getD, List.getElem?_eq_getElem h]

theorem take_succ_getD (l : Bytes) (k : Nat) (h : k < l.length) :
    l.take k ++ [l.getD k 0] = l.take (k + 1) := by
  rw [List.take_add_one, List.getElem?_eq_getElem h, getD_of_lt l k h]; rfl

theorem filterRow_length (ft bpp : Nat) (ps raw : Bytes) :
    (PredSpec.pngFilterRow ft bpp ps raw).length = raw.length := by
  simp [PredSpec.pngFilterRow]

theorem filterRow_getElem (ft bpp : Nat) (ps raw : Bytes) (k : Nat) (h : k < raw.length) :
    (PredSpec.pngFilterRow ft bpp ps raw)[k]'(by rw [filterRow_length]; exact h) =
      raw.getD k 0 - PredSpec.predicted ft (PredSpec.leftOf raw bpp k) (ps.getD k 0) (PredSpec.leftOf ps bpp k) := by
  simp [PredSpec.pngFilterRow]

/-- One PNG row: the model's reconstruction loop undoes the forward filter of the spec. -/
theorem pngRowLoop_spec (predictor bpp : Nat) (hp : 10 ≤ predictor ∧ predictor ≤ 14) (hb : 1 ≤ bpp)
    (pm ps raw : Bytes) (hprev : ∀ i, i < raw.length → pm[i]? = some (ps.getD i 0)) :
    ∀ (m k : Nat), k + m = raw.length →
      Pred.pngRowLoop predictor bpp pm ((PredSpec.pngFilterRow (predictor - 10) bpp ps raw).drop k) k
        (raw.take k) = .ok raw := by
  intro m
  induction m with
  | zero =>
    intro k hk
    have hk' : k = raw.length := by omega
    subst hk'
    rw [List.drop_of_length_le (by rw [filterRow_length]; exact Nat.le_refl _)]
    simp [Pred.pngRowLoop]
  | succ m ih =>
    intro k hk
    have hlt : k < raw.length := by omega
    have hlt' : k < (PredSpec.pngFilterRow (predictor - 10) bpp ps raw).length := by
      rw [filterRow_length]; exact hlt
    rw [List.drop_eq_getElem_cons hlt', filterRow_getElem _ _ _ _ _ hlt]
    unfold Pred.pngRowLoop
    have hb' : pm[k]? = some (ps.getD k 0) := hprev k hlt
    have hb0 : ¬ bpp = 0 := by omega
    by_cases hkb : k ≥ bpp
    · have h1 : (raw.take k)[k - bpp]? = some (raw.getD (k - bpp) 0) := by
        rw [List.getElem?_take]
        have : k - bpp < k := by omega
        simp only [this, if_true]
        exact getElem?_getD raw _ (by omega)
      have h2 : pm[k - bpp]? = some (ps.getD (k - bpp) 0) := hprev _ (by omega)
      have hl1 : PredSpec.leftOf raw bpp k = raw.getD (k - bpp) 0 := by
        unfold PredSpec.leftOf; rw [if_neg (by omega)]
      have hl2 : PredSpec.leftOf ps bpp k = ps.getD (k - bpp) 0 := by
        unfold PredSpec.leftOf; rw [if_neg (by omega)]
      simp only [hkb, if_true, hb0, if_false, h1, h2, hb', hl1, hl2, predByte_eq predictor hp, UInt8.sub_add_cancel]
      rw [take_succ_getD raw k hlt]
      exact ih (k + 1) (by omega)
    · have hl1 : PredSpec.leftOf raw bpp k = 0 := by
        unfold PredSpec.leftOf; rw [if_pos (by omega)]
      have hl2 : PredSpec.leftOf ps bpp k = 0 := by
        unfold PredSpec.leftOf; rw [if_pos (by omega)]
      simp only [hkb, if_false, hb', hl1, hl2, predByte_eq predictor hp, UInt8.sub_add_cancel]
      rw [take_succ_getD raw k hlt]
      exact ih (k + 1) (by omega)


/-- All PNG rows: the model's row loop over the chunks of the encoder's output returns the rows. -/
theorem pngRows_spec (predictor bpp n : Nat) (hp : 10 ≤ predictor ∧ predictor ≤ 14) (hb : 1 ≤ bpp) :
    ∀ (rows : List Bytes) (pm ps out : Bytes), (∀ r ∈ rows, r.length = n) →
      (∀ i, i < n → pm[i]? = some (ps.getD i 0)) →
      Pred.pngRows predictor bpp (n + 1) rows.length
        (PredSpec.pngRows (predictor - 10) bpp ps rows) pm out = .ok (out ++ rows.flatten) := by
  intro rows
  induction rows with
  | nil => intro pm ps out _ _; simp [Pred.pngRows]
  | cons r rs ih =>
    intro pm ps out hlen hprev
    have hr : r.length = n := hlen r (by simp)
    have hF : (PredSpec.pngFilterRow (predictor - 10) bpp ps r).length = n := by
      rw [filterRow_length]; exact hr
    have htag : (UInt8.ofNat (predictor - 10)).toNat = predictor - 10 := by
      rw [UInt8.toNat_ofNat']; omega
    have hloop := pngRowLoop_spec predictor bpp hp hb pm ps r (by rw [hr]; exact hprev) r.length 0 (by omega)
    simp only [List.drop_zero, List.take_zero] at hloop
    simp only [List.length_cons, PredSpec.pngRows, Pred.pngRows, List.take_succ_cons,
      List.take_left' hF, List.drop_succ_cons, List.drop_left' hF]
    have h15 : ¬ predictor = 15 := by omega
    simp only [h15, if_false, htag, ne_eq, not_true_eq_false, hloop]
    rw [ih r r (out ++ r) (fun x hx => hlen x (by simp [hx]))
      (fun i hi => getElem?_getD r i (by omega))]
    simp [List.append_assoc]


/-! ### TIFF predictor 2 -/

theorem getD_of_lt' {α : Type} [Inhabited α] (l : List α) (i : Nat) (h : i < l.length) :
    l.getD i default = l[i] := by
  simp [List.getD, List.getElem?_eq_getElem h]

theorem take_succ_getD' {α : Type} [Inhabited α] (l : List α) (k : Nat) (h : k < l.length) :
    l.take k ++ [l.getD k default] = l.take (k + 1) := by
  rw [List.take_add_one, List.getElem?_eq_getElem h, getD_of_lt' l k h]; rfl

theorem diffLeft_length {α : Type} [Sub α] [Inhabited α] (d : Nat) (s : List α) :
    (PredSpec.diffLeft d s).length = s.length := by
  simp [PredSpec.diffLeft]

theorem diffLeft_getElem {α : Type} [Sub α] [Inhabited α] (d : Nat) (s : List α) (k : Nat)
    (h : k < s.length) :
    (PredSpec.diffLeft d s)[k]'(by rw [diffLeft_length]; exact h) =
      if k < d then s.getD k default else s.getD k default - s.getD (k - d) default := by
  simp [PredSpec.diffLeft]

/-- One TIFF row of samples of a type in which `x - y + y = x`. -/
theorem sumLeftLoop_spec {α : Type} [Add α] [Sub α] [Inhabited α]
    (hc : ∀ x y : α, x - y + y = x) (d : Nat) (hd : 1 ≤ d) (raw : List α) :
    ∀ (m k : Nat), k + m = raw.length →
      Pred.sumLeftLoop (· + ·) d ((PredSpec.diffLeft d raw).drop k) k (raw.take k) = .ok raw := by
  intro m
  induction m with
  | zero =>
    intro k hk
    have hk' : k = raw.length := by omega
    subst hk'
    rw [List.drop_of_length_le (by rw [diffLeft_length]; exact Nat.le_refl _)]
    simp [Pred.sumLeftLoop]
  | succ m ih =>
    intro k hk
    have hlt : k < raw.length := by omega
    have hlt' : k < (PredSpec.diffLeft d raw).length := by rw [diffLeft_length]; exact hlt
    rw [List.drop_eq_getElem_cons hlt', diffLeft_getElem d raw k hlt]
    unfold Pred.sumLeftLoop
    by_cases hkd : k < d
    · simp only [hkd, if_true]
      rw [take_succ_getD' raw k hlt]
      exact ih (k + 1) (by omega)
    · have hd0 : ¬ d = 0 := by omega
      have h1 : (raw.take k)[k - d]? = some (raw.getD (k - d) default) := by
        rw [List.getElem?_take]
        have : k - d < k := by omega
        simp only [this, if_true]
        have h2 : k - d < raw.length := by omega
        simp [List.getD, List.getElem?_eq_getElem h2]
      simp only [hkd, if_false, hd0, h1, hc]
      rw [take_succ_getD' raw k hlt]
      exact ih (k + 1) (by omega)

theorem be16_eq : ∀ bs : Bytes, Pred.be16 bs = PredSpec.samples16 bs
  | [] => rfl
  | [_] => rfl
  | hi :: lo :: t => by
    simp only [Pred.be16, PredSpec.samples16, be16_eq t, Nat.mul_comm]

theorem unbe16_eq : ∀ ss : List UInt16, Pred.unbe16 ss = PredSpec.bytes16 ss
  | [] => rfl
  | s :: t => by simp only [Pred.unbe16, PredSpec.bytes16, unbe16_eq t]

theorem samples16_bytes16 : ∀ ss : List UInt16, PredSpec.samples16 (PredSpec.bytes16 ss) = ss
  | [] => rfl
  | s :: t => by
    simp only [PredSpec.bytes16, PredSpec.samples16, samples16_bytes16 t, UInt8.toNat_ofNat']
    have hs := s.toNat_lt
    have : 256 * (s.toNat / 256 % 256) + s.toNat % 256 % 256 = s.toNat := by omega
    rw [this, UInt16.ofNat_toNat]

theorem bytes16_samples16 : ∀ (bs : Bytes), bs.length % 2 = 0 →
    PredSpec.bytes16 (PredSpec.samples16 bs) = bs
  | [], _ => rfl
  | [_], h => by simp at h
  | hi :: lo :: t, h => by
    have ht : t.length % 2 = 0 := by simp only [List.length_cons] at h; omega
    simp only [PredSpec.samples16, PredSpec.bytes16, bytes16_samples16 t ht, UInt16.toNat_ofNat']
    have h1 := hi.toNat_lt; have h2 := lo.toNat_lt
    have e1 : (256 * hi.toNat + lo.toNat) % 2 ^ 16 / 256 = hi.toNat := by omega
    have e2 : (256 * hi.toNat + lo.toNat) % 2 ^ 16 % 256 = lo.toNat := by omega
    rw [e1, e2, UInt8.ofNat_toNat, UInt8.ofNat_toNat]

theorem samples16_length : ∀ (bs : Bytes), (PredSpec.samples16 bs).length = bs.length / 2
  | [] => rfl
  | [_] => by simp [PredSpec.samples16]
  | _ :: _ :: t => by
    simp only [PredSpec.samples16, List.length_cons, samples16_length t]; omega

theorem bytes16_length : ∀ (ss : List UInt16), (PredSpec.bytes16 ss).length = 2 * ss.length
  | [] => rfl
  | _ :: t => by simp only [PredSpec.bytes16, List.length_cons, bytes16_length t]; omega

theorem tiffFilterRow_length (bpc colors : Nat) (raw : Bytes) (he : bpc = 16 → raw.length % 2 = 0) :
    (PredSpec.tiffFilterRow bpc colors raw).length = raw.length := by
  unfold PredSpec.tiffFilterRow
  by_cases h : bpc = 16
  · simp only [h, if_true, bytes16_length, diffLeft_length, samples16_length]
    have := he h; omega
  · simp only [h, if_false, diffLeft_length]

/-- One TIFF row (8- or 16-bit samples). -/
theorem tiffRow_spec (bpc colors : Nat) (hbpc : bpc = 8 ∨ bpc = 16) (hc : 1 ≤ colors) (raw : Bytes)
    (he : bpc = 16 → raw.length % 2 = 0) :
    Pred.tiffRow bpc colors (PredSpec.tiffFilterRow bpc colors raw) = .ok raw := by
  unfold Pred.tiffRow PredSpec.tiffFilterRow
  rcases hbpc with h | h
  · subst h
    have h := sumLeftLoop_spec (α := UInt8) UInt8.sub_add_cancel colors hc raw raw.length 0 (by omega)
    simp only [List.drop_zero, List.take_zero] at h
    simp [h]
  · subst h
    have h := sumLeftLoop_spec (α := UInt16) UInt16.sub_add_cancel colors hc (PredSpec.samples16 raw)
      (PredSpec.samples16 raw).length 0 (by omega)
    simp only [List.drop_zero, List.take_zero] at h
    simp only [if_true, be16_eq, samples16_bytes16, h, unbe16_eq, bytes16_samples16 raw (he rfl)]
    simp

theorem tiffRows_spec (bpc colors n : Nat) (hbpc : bpc = 8 ∨ bpc = 16) (hc : 1 ≤ colors)
    (hn : bpc = 16 → n % 2 = 0) :
    ∀ (rows : List Bytes) (out : Bytes), (∀ r ∈ rows, r.length = n) →
      Pred.tiffRows bpc colors n rows.length
        ((rows.map (PredSpec.tiffFilterRow bpc colors)).flatten) out = .ok (out ++ rows.flatten) := by
  intro rows
  induction rows with
  | nil => intro out _; simp [Pred.tiffRows]
  | cons r rs ih =>
    intro out hlen
    have hr : r.length = n := hlen r (by simp)
    have he : bpc = 16 → r.length % 2 = 0 := by rw [hr]; exact hn
    have hF : (PredSpec.tiffFilterRow bpc colors r).length = n := by
      rw [tiffFilterRow_length bpc colors r he]; exact hr
    simp only [List.length_cons, List.map_cons, List.flatten_cons, Pred.tiffRows,
      List.take_left' hF, List.drop_left' hF, tiffRow_spec bpc colors hbpc hc r he]
    rw [ih (out ++ r) (fun x hx => hlen x (by simp [hx]))]
    simp [List.append_assoc]


/-! ### No index of the row loops is ever out of bounds -/

theorem pngRowLoop_total (predictor bpp : Nat) (prev : Bytes) :
    ∀ (rest : Bytes) (k : Nat) (acc : Bytes), acc.length = k → k + rest.length ≤ prev.length →
      ∃ r, Pred.pngRowLoop predictor bpp prev rest k acc = .ok r ∧ r.length = k + rest.length := by
  intro rest
  induction rest with
  | nil => intro k acc h _; exact ⟨acc, by simp [Pred.pngRowLoop], by simpa using h⟩
  | cons x t ih =>
    intro k acc hacc hlen
    simp only [List.length_cons] at hlen
    have hk : k < prev.length := by omega
    have hb : prev[k]? = some prev[k] := List.getElem?_eq_getElem hk
    unfold Pred.pngRowLoop
    by_cases hkb : k ≥ bpp
    · by_cases hb0 : bpp = 0
      · simp only [if_true, hb0, hb]
        obtain ⟨r, h1, h2⟩ := ih (k + 1) (acc ++ [x + Pred.predByte predictor x prev[k] prev[k]])
          (by simp [hacc]) (by omega)
        subst hb0
        exact ⟨r, h1, by simp only [List.length_cons]; omega⟩
      · have h1 : k - bpp < acc.length := by omega
        have h2 : k - bpp < prev.length := by omega
        simp only [hkb, if_true, hb0, if_false, List.getElem?_eq_getElem h1,
          List.getElem?_eq_getElem h2, hb]
        obtain ⟨r, h3, h4⟩ := ih (k + 1)
          (acc ++ [x + Pred.predByte predictor acc[k - bpp] prev[k] prev[k - bpp]])
          (by simp [hacc]) (by omega)
        exact ⟨r, h3, by simp only [List.length_cons]; omega⟩
    · simp only [hkb, if_false, hb]
      obtain ⟨r, h3, h4⟩ := ih (k + 1) (acc ++ [x + Pred.predByte predictor 0 prev[k] 0])
        (by simp [hacc]) (by omega)
      exact ⟨r, h3, by simp only [List.length_cons]; omega⟩

theorem pngRows_no_panic (predictor bpp rl : Nat) (hrl : 1 ≤ rl) :
    ∀ (n : Nat) (data prev out : Bytes), prev.length = rl - 1 → n * rl ≤ data.length →
      ∀ s, Pred.pngRows predictor bpp rl n data prev out ≠ .panic s := by
  intro n
  induction n with
  | zero => intro data prev out _ _ s; simp [Pred.pngRows]
  | succ n ih =>
    intro data prev out hprev hdata s
    rw [Nat.succ_mul] at hdata
    unfold Pred.pngRows
    have htl : (data.take rl).length = rl := by rw [List.length_take]; omega
    cases htake : data.take rl with
    | nil => rw [htake] at htl; simp at htl; omega
    | cons tag enc =>
      rw [htake] at htl
      simp only [List.length_cons] at htl
      simp only
      by_cases h15 : predictor = 15
      · simp [h15]
      · by_cases htag : tag.toNat ≠ predictor - 10
        · simp [h15, htag]
        · obtain ⟨row, h1, h2⟩ := pngRowLoop_total predictor bpp prev enc 0 [] rfl (by omega)
          simp only [h15, htag, if_false, h1]
          exact ih (data.drop rl) row (out ++ row) (by omega) (by rw [List.length_drop]; omega) s

theorem sumLeftLoop_total {α : Type} (add : α → α → α) (d : Nat) :
    ∀ (rest : List α) (k : Nat) (acc : List α), acc.length = k →
      ∃ r, Pred.sumLeftLoop add d rest k acc = .ok r := by
  intro rest
  induction rest with
  | nil => intro k acc _; exact ⟨acc, by simp [Pred.sumLeftLoop]⟩
  | cons x t ih =>
    intro k acc hacc
    unfold Pred.sumLeftLoop
    by_cases hkd : k < d
    · simp only [hkd, if_true]; exact ih (k + 1) _ (by simp [hacc])
    · by_cases hd0 : d = 0
      · subst hd0
        simp only [hkd, if_false, if_true]; exact ih (k + 1) _ (by simp [hacc])
      · have h1 : k - d < acc.length := by omega
        simp only [hkd, if_false, hd0, List.getElem?_eq_getElem h1]
        exact ih (k + 1) _ (by simp [hacc])

theorem tiffRow_total (bpc colors : Nat) (row : Bytes) : ∃ r, Pred.tiffRow bpc colors row = .ok r := by
  unfold Pred.tiffRow
  by_cases h : bpc = 8
  · simp only [h, if_true]; exact sumLeftLoop_total _ _ _ _ _ rfl
  · obtain ⟨r, hr⟩ := sumLeftLoop_total (· + ·) colors (Pred.be16 row) 0 [] rfl
    simp only [h, if_false, hr]; exact ⟨_, rfl⟩

theorem tiffRows_total (bpc colors rl : Nat) :
    ∀ (n : Nat) (data out : Bytes), ∃ r, Pred.tiffRows bpc colors rl n data out = .ok r := by
  intro n
  induction n with
  | zero => intro data out; exact ⟨out, by simp [Pred.tiffRows]⟩
  | succ n ih =>
    intro data out
    obtain ⟨r, hr⟩ := tiffRow_total bpc colors (data.take rl)
    unfold Pred.tiffRows
    simp only [hr]
    exact ih _ _

/-! ### The converse direction (PNG): the decoder's output re-encodes to its input -/

theorem getD_append_left' (l t : Bytes) (i : Nat) (h : i < l.length) : (l ++ t).getD i 0 = l.getD i 0 := by
  simp [List.getD, List.getElem?_append_left h]

theorem getD_append_at (l t : Bytes) (x : UInt8) : (l ++ x :: t).getD l.length 0 = x := by
  simp [List.getD]

/-- Invariant of the PNG row loop on ARBITRARY input: the result extends `acc` by one byte per input
    byte, each being the input byte plus the predictor of the already reconstructed neighbours. -/
theorem pngRowLoop_inv (predictor bpp : Nat) (hb : 1 ≤ bpp) (pm : Bytes) :
    ∀ (rest : Bytes) (k : Nat) (acc r : Bytes), acc.length = k →
      Pred.pngRowLoop predictor bpp pm rest k acc = .ok r →
      ∃ tail, r = acc ++ tail ∧ tail.length = rest.length ∧
        ∀ j, (hj : j < rest.length) →
          r.getD (k + j) 0 = rest[j] + Pred.predByte predictor
            (if k + j < bpp then 0 else r.getD (k + j - bpp) 0) (pm.getD (k + j) 0)
            (if k + j < bpp then 0 else pm.getD (k + j - bpp) 0) := by
  intro rest
  induction rest with
  | nil =>
    intro k acc r _ h
    simp only [Pred.pngRowLoop] at h
    cases h
    exact ⟨[], by simp, rfl, fun j hj => absurd hj (by simp)⟩
  | cons x t ih =>
    intro k acc r hacc h
    unfold Pred.pngRowLoop at h
    have hb0 : ¬ bpp = 0 := by omega
    by_cases hkb : k ≥ bpp
    · simp only [hkb, if_true, hb0, if_false] at h
      cases ha : acc[k - bpp]? with
      | none => simp [ha] at h
      | some a =>
        cases hc : pm[k - bpp]? with
        | none => simp [ha, hc] at h
        | some c =>
          cases hbv : pm[k]? with
          | none => simp [ha, hc, hbv] at h
          | some b =>
            simp only [ha, hc, hbv] at h
            obtain ⟨tail, hr, hlen, hall⟩ := ih (k + 1) _ r (by simp [hacc]) h
            refine ⟨(x + Pred.predByte predictor a b c) :: tail, by simp [hr], by simp [hlen], ?_⟩
            intro j hj
            cases j with
            | zero =>
              have hnl : ¬ k < bpp := by omega
              have h1 : k - bpp < acc.length := by omega
              simp only [Nat.add_zero, hnl, if_false, List.getElem_cons_zero]
              rw [hr]
              have e1 : (acc ++ [x + Pred.predByte predictor a b c] ++ tail).getD k 0 = x + Pred.predByte predictor a b c := by
                rw [List.append_assoc, ← hacc]; exact getD_append_at _ _ _
              have e2 : (acc ++ [x + Pred.predByte predictor a b c] ++ tail).getD (k - bpp) 0 = a := by
                rw [List.append_assoc, getD_append_left' _ _ _ h1]
                simp [List.getD, ha]
              have e3 : pm.getD k 0 = b := by simp [List.getD, hbv]
              have e4 : pm.getD (k - bpp) 0 = c := by simp [List.getD, hc]
              rw [e1, e2, e3, e4]
            | succ j =>
              have := hall j (by simpa using hj)
              simp only [List.getElem_cons_succ]
              have e : k + (j + 1) = k + 1 + j := by omega
              rw [e]; exact this
    · simp only [hkb, if_false] at h
      cases hbv : pm[k]? with
      | none => simp [hbv] at h
      | some b =>
        simp only [hbv] at h
        obtain ⟨tail, hr, hlen, hall⟩ := ih (k + 1) _ r (by simp [hacc]) h
        refine ⟨(x + Pred.predByte predictor 0 b 0) :: tail, by simp [hr], by simp [hlen], ?_⟩
        intro j hj
        cases j with
        | zero =>
          have hnl : k < bpp := by omega
          simp only [Nat.add_zero, hnl, if_true, List.getElem_cons_zero]
          rw [hr]
          have e1 : (acc ++ [x + Pred.predByte predictor 0 b 0] ++ tail).getD k 0 = x + Pred.predByte predictor 0 b 0 := by
            rw [List.append_assoc, ← hacc]; exact getD_append_at _ _ _
          have e3 : pm.getD k 0 = b := by simp [List.getD, hbv]
          rw [e1, e3]
        | succ j =>
          have := hall j (by simpa using hj)
          simp only [List.getElem_cons_succ]
          have e : k + (j + 1) = k + 1 + j := by omega
          rw [e]; exact this


/-- Converse of `pngRowLoop_spec`: whatever bytes the loop is given, the forward filter of the
    row it reconstructs is exactly those bytes. -/
theorem pngRowLoop_reencodes (predictor bpp : Nat) (hp : 10 ≤ predictor ∧ predictor ≤ 14) (hb : 1 ≤ bpp)
    (pm ps enc r : Bytes) (hprev : ∀ i, i < enc.length → pm[i]? = some (ps.getD i 0))
    (h : Pred.pngRowLoop predictor bpp pm enc 0 [] = .ok r) :
    r.length = enc.length ∧ PredSpec.pngFilterRow (predictor - 10) bpp ps r = enc := by
  obtain ⟨tail, hr, hlen, hall⟩ := pngRowLoop_inv predictor bpp hb pm enc 0 [] r rfl h
  have hrl : r.length = enc.length := by rw [hr]; simpa using hlen
  refine ⟨hrl, ?_⟩
  apply List.ext_getElem
  · rw [filterRow_length]; exact hrl
  · intro j h1 h2
    have hj : j < r.length := by rw [filterRow_length] at h1; exact h1
    rw [filterRow_getElem _ _ _ _ _ hj]
    have hpm : ∀ i, i < enc.length → pm.getD i 0 = ps.getD i 0 := by
      intro i hi; simp [List.getD, hprev i hi]
    have := hall j h2
    simp only [Nat.zero_add] at this
    rw [this, predByte_eq predictor hp, hpm j h2]
    unfold PredSpec.leftOf
    by_cases hjb : j < bpp
    · simp only [hjb, if_true, UInt8.add_sub_cancel]
    · simp only [hjb, if_false, hpm (j - bpp) (by omega), UInt8.add_sub_cancel]

/-- Converse of `pngRows_spec`: if the row loop over `cnt` chunks of ANY data succeeds, its output is
    a list of rows whose PNG encoding (forward filters of the specification) is that data. -/
theorem pngRows_reencodes (predictor bpp n : Nat) (hp : 10 ≤ predictor ∧ predictor ≤ 14) (hb : 1 ≤ bpp) :
    ∀ (cnt : Nat) (data pm ps out res : Bytes), data.length = cnt * (n + 1) →
      (∀ i, i < n → pm[i]? = some (ps.getD i 0)) →
      Pred.pngRows predictor bpp (n + 1) cnt data pm out = .ok res →
      ∃ rows : List Bytes, res = out ++ rows.flatten ∧ rows.length = cnt ∧ (∀ r ∈ rows, r.length = n) ∧
        PredSpec.pngRows (predictor - 10) bpp ps rows = data := by
  intro cnt
  induction cnt with
  | zero =>
    intro data pm ps out res hd _ h
    simp only [Pred.pngRows] at h
    cases h
    have : data = [] := List.length_eq_zero_iff.mp (by simpa using hd)
    exact ⟨[], by simp, rfl, by simp, by simp [PredSpec.pngRows, this]⟩
  | succ cnt ih =>
    intro data pm ps out res hd hprev h
    rw [Nat.succ_mul] at hd
    unfold Pred.pngRows at h
    have htl : (data.take (n + 1)).length = n + 1 := by rw [List.length_take]; omega
    cases htake : data.take (n + 1) with
    | nil => rw [htake] at htl; simp at htl
    | cons tag enc =>
      rw [htake] at htl h
      simp only [List.length_cons] at htl
      have hel : enc.length = n := by omega
      simp only at h
      by_cases h15 : predictor = 15
      · omega
      · by_cases htag : tag.toNat ≠ predictor - 10
        · simp [h15, htag] at h
        · simp only [h15, htag, if_false] at h
          cases hloop : Pred.pngRowLoop predictor bpp pm enc 0 [] with
          | err e => simp [hloop] at h
          | panic s => simp [hloop] at h
          | ok row =>
            simp only [hloop] at h
            obtain ⟨hrl, hre⟩ := pngRowLoop_reencodes predictor bpp hp hb pm ps enc row
              (by rw [hel]; exact hprev) hloop
            obtain ⟨rows, hres, hcnt, hlens, henc⟩ := ih (data.drop (n + 1)) row row (out ++ row) res
              (by rw [List.length_drop]; omega)
              (fun i hi => getElem?_getD row i (by omega)) h
            refine ⟨row :: rows, by simp [hres, List.append_assoc], by simp [hcnt], ?_, ?_⟩
            · intro r hr
              rcases List.mem_cons.mp hr with rfl | hr
              · omega
              · exact hlens r hr
            · have htag' : tag = UInt8.ofNat (predictor - 10) := by
                have : tag.toNat = predictor - 10 := by omega
                rw [← this, UInt8.ofNat_toNat]
              simp only [PredSpec.pngRows, hre, henc, ← htag']
              rw [← List.cons_append, ← htake, List.take_append_drop]


end Parsley.C07
