/-
  Helper lemmas for C07, converse direction for TIFF predictor 2: whatever data the model's TIFF
  row loops are given, the rows they reconstruct re-encode (horizontal differencing of the
  specification) to exactly that data.  Mirrors `pngRowLoop_inv` / `pngRowLoop_reencodes` /
  `pngRows_reencodes` of Lemmas/Predictor.lean.
-/
import Parsley.Lemmas.Predictor
namespace Parsley.C07
open Parsley

theorem getD_append_left_gen {α : Type} [Inhabited α] (l t : List α) (i : Nat) (h : i < l.length) :
    (l ++ t).getD i default = l.getD i default := by
  simp [List.getD, List.getElem?_append_left h]

theorem getD_append_at_gen {α : Type} [Inhabited α] (l t : List α) (x : α) :
    (l ++ x :: t).getD l.length default = x := by
  simp [List.getD]

/-- Invariant of the TIFF sample loop on ARBITRARY input: the result extends `acc` by one sample per
    input sample; the first `d` samples of the row are copied, every later one is the input sample
    plus the already reconstructed sample `d` positions to its left. -/
theorem sumLeftLoop_inv {α : Type} [Add α] [Inhabited α] (d : Nat) (hd : 1 ≤ d) :
    ∀ (rest : List α) (k : Nat) (acc r : List α), acc.length = k →
      Pred.sumLeftLoop (· + ·) d rest k acc = .ok r →
      ∃ tail, r = acc ++ tail ∧ tail.length = rest.length ∧
        ∀ j, (hj : j < rest.length) →
          r.getD (k + j) default =
            if k + j < d then rest[j] else rest[j] + r.getD (k + j - d) default := by
  intro rest
  induction rest with
  | nil =>
    intro k acc r _ h
    simp only [Pred.sumLeftLoop] at h
    cases h
    exact ⟨[], by simp, rfl, fun j hj => absurd hj (by simp)⟩
  | cons x t ih =>
    intro k acc r hacc h
    unfold Pred.sumLeftLoop at h
    have hd0 : ¬ d = 0 := by omega
    by_cases hkd : k < d
    · simp only [hkd, if_true] at h
      obtain ⟨tail, hr, hlen, hall⟩ := ih (k + 1) _ r (by simp [hacc]) h
      refine ⟨x :: tail, by simp [hr], by simp [hlen], ?_⟩
      intro j hj
      cases j with
      | zero =>
        simp only [Nat.add_zero, hkd, if_true, List.getElem_cons_zero]
        rw [hr, List.append_assoc, ← hacc]; exact getD_append_at_gen _ _ _
      | succ j =>
        have := hall j (by simpa using hj)
        simp only [List.getElem_cons_succ]
        have e : k + (j + 1) = k + 1 + j := by omega
        rw [e]; exact this
    · simp only [hkd, if_false, hd0] at h
      cases ha : acc[k - d]? with
      | none => simp [ha] at h
      | some a =>
        simp only [ha] at h
        obtain ⟨tail, hr, hlen, hall⟩ := ih (k + 1) _ r (by simp [hacc]) h
        refine ⟨(x + a) :: tail, by simp [hr], by simp [hlen], ?_⟩
        intro j hj
        cases j with
        | zero =>
          have h1 : k - d < acc.length := by omega
          simp only [Nat.add_zero, hkd, if_false, List.getElem_cons_zero]
          have e1 : r.getD k default = x + a := by
            rw [hr, List.append_assoc, ← hacc]; exact getD_append_at_gen _ _ _
          have e2 : r.getD (k - d) default = a := by
            rw [hr, List.append_assoc, getD_append_left_gen _ _ _ h1]
            simp [List.getD, ha]
          rw [e1, e2]
        | succ j =>
          have := hall j (by simpa using hj)
          simp only [List.getElem_cons_succ]
          have e : k + (j + 1) = k + 1 + j := by omega
          rw [e]; exact this

/-- Converse of `sumLeftLoop_spec`: whatever samples the loop is given, horizontal differencing of the
    row it reconstructs gives back exactly those samples (in any type where `x + y - y = x`). -/
theorem sumLeftLoop_reencodes {α : Type} [Add α] [Sub α] [Inhabited α]
    (hc : ∀ x y : α, x + y - y = x) (d : Nat) (hd : 1 ≤ d) (enc r : List α)
    (h : Pred.sumLeftLoop (· + ·) d enc 0 [] = .ok r) :
    r.length = enc.length ∧ PredSpec.diffLeft d r = enc := by
  obtain ⟨tail, hr, hlen, hall⟩ := sumLeftLoop_inv d hd enc 0 [] r rfl h
  have hrl : r.length = enc.length := by rw [hr]; simpa using hlen
  refine ⟨hrl, ?_⟩
  apply List.ext_getElem
  · rw [diffLeft_length]; exact hrl
  · intro j h1 h2
    have hj : j < r.length := by rw [diffLeft_length] at h1; exact h1
    rw [diffLeft_getElem d r j hj]
    have := hall j h2
    simp only [Nat.zero_add] at this
    by_cases hjd : j < d
    · rw [if_pos hjd] at this ⊢; exact this
    · rw [if_neg hjd] at this ⊢; rw [this, hc]

theorem be16_length (bs : Bytes) : (Pred.be16 bs).length = bs.length / 2 := by
  rw [be16_eq]; exact samples16_length bs

/-- Converse of `tiffRow_spec`: one TIFF row of ANY bytes (of even length for 16-bit samples). -/
theorem tiffRow_reencodes (bpc colors : Nat) (hbpc : bpc = 8 ∨ bpc = 16) (hc : 1 ≤ colors)
    (row r : Bytes) (he : bpc = 16 → row.length % 2 = 0)
    (h : Pred.tiffRow bpc colors row = .ok r) :
    r.length = row.length ∧ PredSpec.tiffFilterRow bpc colors r = row := by
  unfold Pred.tiffRow at h
  unfold PredSpec.tiffFilterRow
  rcases hbpc with h8 | h16
  · subst h8
    rw [if_pos rfl] at h
    rw [if_neg (by decide)]
    exact sumLeftLoop_reencodes (α := UInt8) UInt8.add_sub_cancel colors hc row r h
  · subst h16
    rw [if_neg (by decide)] at h
    rw [if_pos rfl]
    cases hl : Pred.sumLeftLoop (· + ·) colors (Pred.be16 row) 0 [] with
    | err e => rw [hl] at h; cases h
    | panic s => rw [hl] at h; cases h
    | ok ss =>
      rw [hl] at h
      dsimp only at h
      cases h
      obtain ⟨h1, h2⟩ := sumLeftLoop_reencodes (α := UInt16) UInt16.add_sub_cancel colors hc
        (Pred.be16 row) ss hl
      have hev := he rfl
      refine ⟨?_, ?_⟩
      · rw [unbe16_eq, bytes16_length, h1, be16_length]; omega
      · rw [unbe16_eq, samples16_bytes16, h2, be16_eq, bytes16_samples16 row hev]

/-- Converse of `tiffRows_spec`: if the row loop over `cnt` chunks of ANY data succeeds (it always
    does), its output is a list of rows whose TIFF-2 encoding (horizontal differencing of the
    specification) is that data. -/
theorem tiffRows_reencodes (bpc colors n : Nat) (hbpc : bpc = 8 ∨ bpc = 16) (hc : 1 ≤ colors)
    (hn : bpc = 16 → n % 2 = 0) :
    ∀ (cnt : Nat) (data out res : Bytes), data.length = cnt * n →
      Pred.tiffRows bpc colors n cnt data out = .ok res →
      ∃ rows : List Bytes, res = out ++ rows.flatten ∧ rows.length = cnt ∧
        (∀ r ∈ rows, r.length = n) ∧
        (rows.map (PredSpec.tiffFilterRow bpc colors)).flatten = data := by
  intro cnt
  induction cnt with
  | zero =>
    intro data out res hd h
    simp only [Pred.tiffRows] at h
    cases h
    have : data = [] := List.length_eq_zero_iff.mp (by simpa using hd)
    exact ⟨[], by simp, rfl, by simp, by simp [this]⟩
  | succ cnt ih =>
    intro data out res hd h
    rw [Nat.succ_mul] at hd
    unfold Pred.tiffRows at h
    have htl : (data.take n).length = n := by rw [List.length_take]; omega
    cases hrow : Pred.tiffRow bpc colors (data.take n) with
    | err e => rw [hrow] at h; cases h
    | panic s => rw [hrow] at h; cases h
    | ok row =>
      rw [hrow] at h
      dsimp only at h
      obtain ⟨hrl, hre⟩ := tiffRow_reencodes bpc colors hbpc hc (data.take n) row
        (by rw [htl]; exact hn) hrow
      obtain ⟨rows, hres, hcnt, hlens, henc⟩ := ih (data.drop n) (out ++ row) res
        (by rw [List.length_drop]; omega) h
      refine ⟨row :: rows, by simp [hres, List.append_assoc], by simp [hcnt], ?_, ?_⟩
      · intro r hr
        rcases List.mem_cons.mp hr with rfl | hr
        · omega
        · exact hlens r hr
      · simp only [List.map_cons, List.flatten_cons, hre, henc, List.take_append_drop]

end Parsley.C07
