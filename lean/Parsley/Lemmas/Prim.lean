/-
  Helper lemmas about the ParseBuffer primitives of Model/Prim.lean.
-/
import Parsley.Model.Prim
namespace Parsley.Prim
open Parsley

theorem takeWhile_length_le {α : Type} (p : α → Bool) (l : List α) : (l.takeWhile p).length ≤ l.length := by
  induction l with
  | nil => simp
  | cons a t ih => simp only [List.takeWhile_cons]; split <;> simp <;> omega

theorem allowed_snd (f : UInt8 → Bool) (s : Bytes) (i : Nat) :
    (allowed f s i).2 = i + (allowed f s i).1.length := rfl

theorem allowed_bound (f : UInt8 → Bool) (s : Bytes) (i : Nat) (h : i ≤ s.length) :
    i ≤ (allowed f s i).2 ∧ (allowed f s i).2 ≤ s.length := by
  have := takeWhile_length_le f (s.drop i)
  simp only [allowed, List.length_drop] at *
  omega

theorem untilB_bound (f : UInt8 → Bool) (s : Bytes) (i : Nat) (h : i ≤ s.length) :
    i ≤ (untilB f s i).2 ∧ (untilB f s i).2 ≤ s.length := allowed_bound _ s i h

theorem isPrefixOf_length {a b : Bytes} (h : a.isPrefixOf b = true) : a.length ≤ b.length := by
  induction a generalizing b with
  | nil => simp
  | cons x t ih =>
    cases b with
    | nil => simp [List.isPrefixOf] at h
    | cons y u =>
      simp only [List.isPrefixOf, Bool.and_eq_true] at h
      have := ih h.2
      simp; omega

theorem startsWith_bound {tag s : Bytes} {i : Nat} (h : startsWith tag s i = true) :
    i + tag.length ≤ s.length ∨ tag.length = 0 := by
  have := isPrefixOf_length h
  simp only [List.length_drop] at this
  omega

theorem exact_ok {tag s : Bytes} {i j : Nat} (h : exact tag s i = (true, j)) (hi : i ≤ s.length) :
    j = i + tag.length ∧ j ≤ s.length := by
  unfold exact at h
  split at h
  · rename_i hs
    cases h
    have := startsWith_bound hs
    omega
  · cases h

theorem exact_fail {tag s : Bytes} {i j : Nat} (h : exact tag s i = (false, j)) : j = i := by
  unfold exact at h
  split at h
  · cases h
  · cases h; rfl

theorem peek_some_lt {s : Bytes} {i : Nat} {b : UInt8} (h : peek s i = some b) : i < s.length := by
  unfold peek at h
  have := List.getElem?_eq_some_iff.mp h
  exact this.1


theorem exact_ok_ge {tag s : Bytes} {i j : Nat} (h : exact tag s i = (true, j)) : i ≤ j := by
  unfold exact at h
  split at h
  · cases h; omega
  · cases h

/-- `exact` never leaves the buffer when it succeeds on a non-empty tag or starts inside it -/
theorem exact_ok_le {tag s : Bytes} {i j : Nat} (h : exact tag s i = (true, j)) (ht : tag ≠ []) :
    j ≤ s.length := by
  unfold exact at h
  split at h
  · rename_i hs
    cases h
    have := startsWith_bound hs
    have : tag.length ≠ 0 := by intro hh; exact ht (List.length_eq_zero_iff.mp hh)
    omega
  · cases h

/-- at a '%', `comment` succeeds … -/
theorem comment_ok (s : Bytes) (j : Nat) (h : peek s j = some 37) : ∀ k c, comment s j ≠ (.err k, c) := by
  intro k c
  unfold comment
  simp only [h, bne_self_eq_false, Bool.false_eq_true, if_false]
  split <;> simp

/-- … and consumes at least the '%' -/
theorem comment_consumes (s : Bytes) (j : Nat) (h : peek s j = some 37) :
    ∀ w c, comment s j = (.ok w, c) → j + 1 ≤ c := by
  intro w c
  unfold comment
  simp only [h, bne_self_eq_false, Bool.false_eq_true, if_false]
  have := (allowed_snd (fun b => !(b == 10)) s (j + 1))
  unfold untilB
  generalize allowed (fun b => !(b == 10)) s (j + 1) = a at *
  obtain ⟨cc, jj⟩ := a
  simp only at this ⊢
  split <;> (intro hh; cases hh; omega)

end Parsley.Prim
