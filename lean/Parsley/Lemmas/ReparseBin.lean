/-
  C15 for the binary parsers of src/pcore/prim_binary.rs (model: Model/Bin.lean, C19).

  C19 proves `Sat p w e val`: with `w` bytes left the parser returns the value those bytes denote,
  span `[i, i+w)`, cursor `i+w`; otherwise `EndOfBuffer` with the cursor unmoved.  From that
  contract alone (plus injectivity of `toNat` / `toInt` on the machine types) this file derives
  the window-determinacy `Win p w` (the value is a function of the `w` spanned bytes and of nothing
  else) and from it every clause of the C15 contract used by Lemmas/ReparseComb.lean:
  faithful locations, prefix independence, suffix truncation at every cut, stability of failure
  under truncation and of success under extension, and the re-parse clause.
-/
import Parsley.Props.C19
import Parsley.Props.C15Reparse
namespace Parsley.C15
open Parsley Parsley.Bin Parsley.BinSpec Parsley.Shift Parsley.Trunc

/-! ### windows under prefixing and truncation -/

theorem window_pre (pre s : Bytes) (i w : Nat) : window (pre ++ s) (pre.length + i) w = window s i w := by
  unfold window
  rw [drop_pre]
  simp only [List.length_append]
  by_cases h : i + w ≤ s.length
  · have : pre.length + i + w ≤ pre.length + s.length := by omega
    simp [h, this]
  · have : ¬ (pre.length + i + w ≤ pre.length + s.length) := by omega
    simp [h, this]

theorem window_bound {s : Bytes} {i w : Nat} {bs : Bytes} (h : window s i w = some bs) : i + w ≤ s.length := by
  unfold window at h
  split at h
  · assumption
  · cases h

theorem window_eq {s : Bytes} {i w : Nat} {bs : Bytes} (h : window s i w = some bs) :
    bs = (s.drop i).take w := by
  unfold window at h
  split at h
  · cases h; rfl
  · cases h

theorem window_take {s : Bytes} {i w n : Nat} (h : i + w ≤ n) : window (s.take n) i w = window s i w := by
  unfold window
  simp only [List.length_take]
  by_cases h1 : i + w ≤ s.length
  · have : i + w ≤ min n s.length := by omega
    simp only [h1, this, if_true]
    congr 1
    rw [List.drop_take, List.take_take]
    congr 1
    omega
  · have : ¬ (i + w ≤ min n s.length) := by omega
    simp [h1, this]

theorem window_take_none {s : Bytes} {i w n : Nat} (h : window s i w = none) : window (s.take n) i w = none := by
  by_cases h1 : i + w ≤ s.length
  · simp [window, h1] at h
  · have : ¬ (i + w ≤ (s.take n).length) := by simp only [List.length_take]; omega
    simp only [window, this, if_false]

/-- the window of a parsed span, read in the span alone -/
theorem window_span {s : Bytes} {i w : Nat} {bs : Bytes} (h : window s i w = some bs) :
    window ((s.drop i).take (i + w - i)) 0 w = some bs := by
  have hb := window_bound h
  have he := window_eq h
  unfold window
  have e1 : i + w - i = w := by omega
  rw [e1]
  have : 0 + w ≤ ((s.drop i).take w).length := by simp only [List.length_take, List.length_drop]; omega
  simp only [this, if_true, List.drop_zero, List.take_take, Nat.min_self, he]

/-! ### window determinacy -/

/-- `p` is a `w`-byte window parser: with fewer than `w` bytes left (cursor inside the buffer) it fails
    with `EndOfBuffer` and does not move; otherwise it succeeds with span `[i, i+w)`, cursor `i+w`,
    and a value that is the same wherever the same `w` bytes are found. -/
def Win {α : Type} (p : P α) (w : Nat) : Prop :=
  (∀ (s : Bytes) (i : Nat), i ≤ s.length → window s i w = none → p s i = (.err .eob, i)) ∧
  (∀ (s : Bytes) (i : Nat) (bs : Bytes), window s i w = some bs →
    ∃ v, p s i = (.ok ⟨v, i, i + w⟩, i + w) ∧
      ∀ (s' : Bytes) (i' : Nat), window s' i' w = some bs → p s' i' = (.ok ⟨v, i', i' + w⟩, i' + w))

theorem win_of_sat {α : Type} {p : P α} {w : Nat} {e : Endian} {val : α → Nat}
    (hp : C19.Sat p w e val) (hinj : ∀ a b, val a = val b → a = b) : Win p w := by
  constructor
  · intro s i _ hw
    have h := hp s i
    simp only [hw] at h
    exact h
  · intro s i bs hw
    have h := hp s i
    simp only [hw] at h
    obtain ⟨v, hv, hd⟩ := h
    refine ⟨v, hv, ?_⟩
    intro s' i' hw'
    have h' := hp s' i'
    simp only [hw'] at h'
    obtain ⟨v', hv', hd'⟩ := h'
    have : v' = v := hinj _ _ (by rw [hd, hd'])
    rw [hv', this]

theorem win_of_satS {α : Type} {p : P α} {w : Nat} {e : Endian} {val : α → Int}
    (hp : C19.SatS p w e val) (hinj : ∀ a b, val a = val b → a = b) : Win p w := by
  constructor
  · intro s i _ hw
    have h := hp s i
    simp only [hw] at h
    exact h
  · intro s i bs hw
    have h := hp s i
    simp only [hw] at h
    obtain ⟨v, hv, hd⟩ := h
    refine ⟨v, hv, ?_⟩
    intro s' i' hw'
    have h' := hp s' i'
    simp only [hw'] at h'
    obtain ⟨v', hv', hd'⟩ := h'
    have : v' = v := hinj _ _ (by rw [hd, hd'])
    rw [hv', this]

theorem win_byteVec (len : Nat) : Win (byteVecP len) len := by
  constructor
  · intro s i hi hw
    have h := C19.bytevec_spec len s i hi
    simp only [hw] at h
    exact h
  · intro s i bs hw
    have hi : i ≤ s.length := by have := window_bound hw; omega
    have h := C19.bytevec_spec len s i hi
    simp only [hw] at h
    refine ⟨bs, h, ?_⟩
    intro s' i' hw'
    have hi' : i' ≤ s'.length := by have := window_bound hw'; omega
    have h' := C19.bytevec_spec len s' i' hi'
    simp only [hw'] at h'
    exact h'

/-! ### what follows from window determinacy -/

/-- stability of failure under truncation: cutting the buffer anywhere at or after the cursor cannot
    turn a failure into a success -/
def FailTrunc {α : Type} (p : P α) : Prop :=
  ∀ (s : Bytes) (i n : Nat) (k : ErrK) (c : Nat), i ≤ s.length → i ≤ n → p s i = (.err k, c) →
    ∃ k', p (s.take n) i = (.err k', i)

/-- stability of success under extension: a success on a truncated buffer is the result on the whole -/
def Ext {α : Type} (p : P α) : Prop :=
  ∀ (s : Bytes) (i n : Nat) (v : Located α) (c : Nat), i ≤ s.length → i ≤ n → p (s.take n) i = (.ok v, c) →
    p s i = (.ok v, c)

/-- every success consumes at least one byte -/
def Consumes {α : Type} (p : P α) : Prop :=
  ∀ (s : Bytes) (i : Nat) (v : Located α) (c : Nat), i ≤ s.length → p s i = (.ok v, c) → v.start < v.stop

theorem win_loc {α : Type} {p : P α} {w : Nat} (h : Win p w) : LocOK p := by
  intro s i hi
  cases hw : window s i w with
  | none => rw [h.1 s i hi hw]; exact lerr
  | some bs =>
    obtain ⟨v, hv, -⟩ := h.2 s i bs hw
    rw [hv]
    have := window_bound hw
    exact lok (by omega) this

theorem win_trunc {α : Type} {p : P α} {w : Nat} (h : Win p w) : Trunc p := by
  intro s i n v c hi hp hn
  cases hw : window s i w with
  | none => rw [h.1 s i hi hw] at hp; cases hp
  | some bs =>
    obtain ⟨v', hv, hdet⟩ := h.2 s i bs hw
    rw [hv] at hp
    simp only [Prod.mk.injEq, Res.ok.injEq] at hp
    obtain ⟨h1, h2⟩ := hp
    subst h1
    have hw' : window (s.take n) i w = some bs := by rw [window_take (by omega)]; exact hw
    rw [hdet _ _ hw', h2]

theorem win_failTrunc {α : Type} {p : P α} {w : Nat} (h : Win p w) : FailTrunc p := by
  intro s i n k c hi hn hp
  cases hw : window s i w with
  | some bs => obtain ⟨v, hv, -⟩ := h.2 s i bs hw; rw [hv] at hp; cases hp
  | none =>
    refine ⟨.eob, h.1 _ _ ?_ (window_take_none hw)⟩
    simp only [List.length_take]; omega

theorem win_ext {α : Type} {p : P α} {w : Nat} (h : Win p w) : Ext p := by
  intro s i n v c hi hn hp
  have hi' : i ≤ (s.take n).length := by simp only [List.length_take]; omega
  cases hw : window (s.take n) i w with
  | none => rw [h.1 _ _ hi' hw] at hp; cases hp
  | some bs =>
    obtain ⟨v', hv, hdet⟩ := h.2 _ _ bs hw
    have hb := window_bound hw
    simp only [List.length_take] at hb
    have hw2 : window s i w = some bs := by rw [← window_take (n := n) (by omega)]; exact hw
    rw [hv] at hp
    rw [hdet s i hw2, ← hp]

theorem win_consumes {α : Type} {p : P α} {w : Nat} (h : Win p w) (hw0 : 0 < w) : Consumes p := by
  intro s i v c hi hp
  cases hw : window s i w with
  | none => rw [h.1 s i hi hw] at hp; cases hp
  | some bs =>
    obtain ⟨v', hv, -⟩ := h.2 s i bs hw
    rw [hv] at hp
    simp only [Prod.mk.injEq, Res.ok.injEq] at hp
    rw [← hp.1]
    simp only; omega

/-- the re-parse clause, directly from window determinacy (no prefix-independence needed: the value
    is the same wherever the window is found) -/
theorem win_reparses {α : Type} {p : P α} {w : Nat} (h : Win p w) : Reparses p := by
  intro s i hi v c hp
  cases hw : window s i w with
  | none => rw [h.1 s i hi hw] at hp; cases hp
  | some bs =>
    obtain ⟨v', hv, hdet⟩ := h.2 s i bs hw
    rw [hv] at hp
    simp only [Prod.mk.injEq, Res.ok.injEq] at hp
    obtain ⟨h1, -⟩ := hp
    subst h1
    have := hdet _ _ (window_span hw)
    simp only at this ⊢
    have e1 : i + w - i = w := by omega
    rw [e1] at this ⊢
    rw [this]; simp

/-- prefix independence from the C19 contract (cursor anywhere, also beyond the end) -/
theorem pre_of_sat {α : Type} {p : P α} {w : Nat} {e : Endian} {val : α → Nat}
    (hp : C19.Sat p w e val) (hinj : ∀ a b, val a = val b → a = b) : Pre p := by
  intro pre s i
  have h1 := hp (pre ++ s) (pre.length + i)
  have h2 := hp s i
  rw [window_pre] at h1
  cases hw : window s i w with
  | none => simp only [hw] at h1 h2; rw [h1, h2]; rfl
  | some bs =>
    simp only [hw] at h1 h2
    obtain ⟨v1, hv1, hd1⟩ := h1
    obtain ⟨v2, hv2, hd2⟩ := h2
    have : v1 = v2 := hinj _ _ (by rw [hd1, hd2])
    rw [hv1, hv2, this]
    simp [shift, Nat.add_assoc]

theorem pre_of_satS {α : Type} {p : P α} {w : Nat} {e : Endian} {val : α → Int}
    (hp : C19.SatS p w e val) (hinj : ∀ a b, val a = val b → a = b) : Pre p := by
  intro pre s i
  have h1 := hp (pre ++ s) (pre.length + i)
  have h2 := hp s i
  rw [window_pre] at h1
  cases hw : window s i w with
  | none => simp only [hw] at h1 h2; rw [h1, h2]; rfl
  | some bs =>
    simp only [hw] at h1 h2
    obtain ⟨v1, hv1, hd1⟩ := h1
    obtain ⟨v2, hv2, hd2⟩ := h2
    have : v1 = v2 := hinj _ _ (by rw [hd1, hd2])
    rw [hv1, hv2, this]
    simp [shift, Nat.add_assoc]

theorem byteVecP_pre (len : Nat) : Pre (byteVecP len) := by
  intro pre s i
  unfold byteVecP
  have hl : (pre ++ s).length - (pre.length + i) = s.length - i := by simp only [List.length_append]; omega
  rw [hl, drop_pre]
  split
  · rfl
  · simp [shift, Nat.add_assoc]

/-! ### the nine binary parsers are window parsers -/

theorem uint8_inj (a b : UInt8) (h : a.toNat = b.toNat) : a = b := UInt8.toNat_inj.mp h
theorem uint16_inj (a b : UInt16) (h : a.toNat = b.toNat) : a = b := UInt16.toNat_inj.mp h
theorem uint32_inj (a b : UInt32) (h : a.toNat = b.toNat) : a = b := UInt32.toNat_inj.mp h
theorem uint64_inj (a b : UInt64) (h : a.toNat = b.toNat) : a = b := UInt64.toNat_inj.mp h
theorem int8_inj (a b : Int8) (h : a.toInt = b.toInt) : a = b := Int8.toInt_inj.mp h
theorem int16_inj (a b : Int16) (h : a.toInt = b.toInt) : a = b := Int16.toInt_inj.mp h
theorem int32_inj (a b : Int32) (h : a.toInt = b.toInt) : a = b := Int32.toInt_inj.mp h
theorem int64_inj (a b : Int64) (h : a.toInt = b.toInt) : a = b := Int64.toInt_inj.mp h

theorem uint8_win : Win uint8P 1 := win_of_sat (C19.uint8_sat .big) uint8_inj
theorem uint16_win (e : Endian) : Win (uint16P e) 2 := win_of_sat (C19.uint16_sat e) uint16_inj
theorem uint32_win (e : Endian) : Win (uint32P e) 4 := win_of_sat (C19.uint32_sat e) uint32_inj
theorem uint64_win (e : Endian) : Win (uint64P e) 8 := win_of_sat (C19.uint64_sat e) uint64_inj
theorem int8_win : Win int8P 1 := win_of_satS (C19.int_parse_spec .big).1 int8_inj
theorem int16_win (e : Endian) : Win (int16P e) 2 := win_of_satS (C19.int_parse_spec e).2.1 int16_inj
theorem int32_win (e : Endian) : Win (int32P e) 4 := win_of_satS (C19.int_parse_spec e).2.2.1 int32_inj
theorem int64_win (e : Endian) : Win (int64P e) 8 := win_of_satS (C19.int_parse_spec e).2.2.2 int64_inj

theorem uint8_pre : Pre uint8P := pre_of_sat (C19.uint8_sat .big) uint8_inj
theorem uint16_pre (e : Endian) : Pre (uint16P e) := pre_of_sat (C19.uint16_sat e) uint16_inj
theorem uint32_pre (e : Endian) : Pre (uint32P e) := pre_of_sat (C19.uint32_sat e) uint32_inj
theorem uint64_pre (e : Endian) : Pre (uint64P e) := pre_of_sat (C19.uint64_sat e) uint64_inj
theorem int8_pre : Pre int8P := pre_of_satS (C19.int_parse_spec .big).1 int8_inj
theorem int16_pre (e : Endian) : Pre (int16P e) := pre_of_satS (C19.int_parse_spec e).2.1 int16_inj
theorem int32_pre (e : Endian) : Pre (int32P e) := pre_of_satS (C19.int_parse_spec e).2.2.1 int32_inj
theorem int64_pre (e : Endian) : Pre (int64P e) := pre_of_satS (C19.int_parse_spec e).2.2.2 int64_inj

end Parsley.C15
