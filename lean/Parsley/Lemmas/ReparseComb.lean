/-
  C15 for the four combinators of src/pcore/prim_combinators.rs (generic model: Model/CombP.lean):
  CONTRACT PRESERVATION over arbitrary component parsers.

  The contract of a parser `p : P α` whose values may carry positions (`sh : Sh α` says how they move):
    `Faithful sh p` = faithful locations and cursor restore (`LocOK`, Props/C15.lean)
                    + prefix independence (`PreV sh.up`)
                    + suffix truncation at the end of the parse (`TruncC`)
                    ⟹ the re-parse clause `ReparsesV sh.down p`  (`Faithful.reparses`).
    `Local sh p`    = the same with truncation at EVERY cut at or after the end (`Trunc`): the parser
                      does not look beyond its span in a way that could change its result.
  Why two levels: the first component of a sequence is re-run on a span that continues after its
  own end, so it must be `Local`; `WhitespaceNoEOL` (give-back of `\r`), `Not` and `Star` are look-ahead
  parsers that are only `Faithful` in general.  Side conditions that are NECESSARY (counterexamples in
  Props/C15Bin.lean): the body of `Star`/`Not` must fail at the end of the buffer (`FailEOB`, implied by
  `Consumes`), and a failure of the first branch of `Alternate` must survive truncation (`FailTrunc`).
-/
import Parsley.Model.CombP
import Parsley.Lemmas.ReparseBin
namespace Parsley.C15
open Parsley Parsley.CombP Parsley.Shift Parsley.Trunc

/-! ### values that carry positions -/

/-- how the positions stored inside a value move when the buffer gets a prefix of `k` bytes (`up`)
    and how they are re-based to a span starting at `k` (`down`) -/
structure Sh (α : Type) where
  up : Nat → α → α
  down : Nat → α → α
  down_up : ∀ k x, down k (up k x) = x

/-- a value without positions -/
def Sh.plain (α : Type) : Sh α := ⟨fun _ x => x, fun _ x => x, fun _ _ => rfl⟩

def Sh.loc {α : Type} (sh : Sh α) : Sh (Located α) where
  up k v := ⟨sh.up k v.val, k + v.start, k + v.stop⟩
  down k v := ⟨sh.down k v.val, v.start - k, v.stop - k⟩
  down_up k x := by simp [sh.down_up]

def Sh.prod {α β : Type} (a : Sh α) (b : Sh β) : Sh (α × β) where
  up k v := (a.up k v.1, b.up k v.2)
  down k v := (a.down k v.1, b.down k v.2)
  down_up k x := by simp [a.down_up, b.down_up]

def Sh.alt {α β : Type} (a : Sh α) (b : Sh β) : Sh (Alt α β) where
  up k v := match v with | .left x => .left (a.up k x) | .right y => .right (b.up k y)
  down k v := match v with | .left x => .left (a.down k x) | .right y => .right (b.down k y)
  down_up k x := by cases x <;> simp [a.down_up, b.down_up]

def Sh.list {α : Type} (a : Sh α) : Sh (List α) where
  up k v := v.map (a.up k)
  down k v := v.map (a.down k)
  down_up k x := by simp [List.map_map, Function.comp_def, a.down_up]

/-! ### the contract -/

structure Faithful {α : Type} (sh : Sh α) (p : P α) : Prop where
  loc : LocOK p
  pre : PreV sh.up p
  trunc : TruncC p

structure Local {α : Type} (sh : Sh α) (p : P α) : Prop where
  loc : LocOK p
  pre : PreV sh.up p
  trunc : Trunc p

theorem Local.faithful {α : Type} {sh : Sh α} {p : P α} (h : Local sh p) : Faithful sh p :=
  ⟨h.loc, h.pre, h.trunc.toC⟩

/-- the contract gives the re-parse clause -/
theorem Faithful.reparses {α : Type} {sh : Sh α} {p : P α} (h : Faithful sh p) : ReparsesV sh.down p :=
  reparsesV_of sh.up sh.down sh.down_up h.loc h.pre h.trunc

theorem Faithful.reparses_plain {α : Type} {p : P α} (h : Faithful (Sh.plain α) p) : Reparses p :=
  h.reparses

/-- the body fails at the end of the buffer -/
def FailEOB {α : Type} (p : P α) : Prop :=
  ∀ (s : Bytes), ∃ k, p s s.length = (.err k, s.length)

theorem failEOB_of_consumes {α : Type} {p : P α} (hl : LocOK p) (hc : Consumes p) : FailEOB p := by
  intro s
  have h := hl s s.length (Nat.le_refl _)
  cases hp : p s s.length with
  | mk r c =>
    rw [hp] at h
    cases r with
    | err k => exact ⟨k, by rw [show c = s.length from h]⟩
    | panic st => exact h.elim
    | ok v =>
      obtain ⟨h1, h2, h3, h4⟩ := h
      have := hc s s.length v c (Nat.le_refl _) hp
      omega

/-! ### cursor primitives -/

theorem setCursor_ok {s : Bytes} {j : Nat} (h : j ≤ s.length) : setCursor s j = some j := by
  simp [setCursor, h]

theorem restore_ok {α : Type} {s : Bytes} {i : Nat} (k : ErrK) (cur : Nat) (h : i ≤ s.length) :
    restore (α := α) s i k cur = (.err k, i) := by
  simp [restore, setCursor_ok h]

theorem restore_ne_ok {α : Type} {s : Bytes} {i : Nat} {k : ErrK} {cur : Nat} {v : Located α} {c : Nat} :
    restore (α := α) s i k cur ≠ (.ok v, c) := by
  unfold restore
  split <;> simp

theorem setCursor_pre (pre s : Bytes) (j : Nat) :
    setCursor (pre ++ s) (pre.length + j) = (setCursor s j).map (pre.length + ·) := by
  unfold setCursor
  simp only [List.length_append]
  by_cases h : j ≤ s.length
  · have : pre.length + j ≤ pre.length + s.length := by omega
    simp [h, this]
  · have : ¬ (pre.length + j ≤ pre.length + s.length) := by omega
    simp [h, this]

theorem restore_pre {α : Type} (g : α → α) (pre s : Bytes) (i : Nat) (k : ErrK) (cur : Nat) :
    restore (α := α) (pre ++ s) (pre.length + i) k (pre.length + cur) =
      shiftV g pre.length (restore s i k cur) := by
  unfold restore
  rw [setCursor_pre]
  cases setCursor s i <;> simp [shiftV]

theorem length_take_le {s : Bytes} {n i : Nat} (hi : i ≤ s.length) (hn : i ≤ n) : i ≤ (s.take n).length := by
  simp only [List.length_take]; omega

/-! ## Sequence -/

theorem seq_loc {α β : Type} {p1 : P α} {p2 : P β} (l1 : LocOK p1) (l2 : LocOK p2) : LocOK (seqP p1 p2) := by
  intro s i hi
  unfold seqP
  have h1 := l1 s i hi
  cases hp1 : p1 s i with
  | mk r1 c1 =>
    rw [hp1] at h1
    cases r1 with
    | err k => simp only [restore_ok k c1 hi]; exact lerr
    | panic st => exact h1.elim
    | ok o1 =>
      obtain ⟨a1, a2, a3, a4⟩ := h1
      have h2 := l2 s c1 (by omega)
      simp only
      cases hp2 : p2 s c1 with
      | mk r2 c2 =>
        rw [hp2] at h2
        cases r2 with
        | err k => simp only [restore_ok k c2 hi]; exact lerr
        | panic st => exact h2.elim
        | ok o2 =>
          obtain ⟨b1, b2, b3, b4⟩ := h2
          exact ⟨rfl, rfl, by simp only; omega, by simp only; omega⟩

/-- **failure clause of `Sequence`, for ARBITRARY components** (no contract assumed: also components
    that leave the cursor anywhere when they fail): a failed sequence puts the cursor back where it
    started - in particular when the first component succeeded and the second failed. -/
theorem seq_failure_restores {α β : Type} (p1 : P α) (p2 : P β) (s : Bytes) (i : Nat) (hi : i ≤ s.length)
    (k : ErrK) (c : Nat) (h : seqP p1 p2 s i = (.err k, c)) : c = i := by
  unfold seqP at h
  cases hp1 : p1 s i with
  | mk r1 c1 =>
    rw [hp1] at h
    cases r1 with
    | err k1 => simp only [restore_ok k1 c1 hi, Prod.mk.injEq] at h; exact h.2.symm
    | panic st => cases h
    | ok o1 =>
      simp only at h
      cases hp2 : p2 s c1 with
      | mk r2 c2 =>
        rw [hp2] at h
        cases r2 with
        | err k2 => simp only [restore_ok k2 c2 hi, Prod.mk.injEq] at h; exact h.2.symm
        | panic st => cases h
        | ok o2 => cases h

theorem seq_pre {α β : Type} {sh1 : Sh α} {sh2 : Sh β} {p1 : P α} {p2 : P β}
    (h1 : PreV sh1.up p1) (h2 : PreV sh2.up p2) :
    PreV (Sh.prod (Sh.loc sh1) (Sh.loc sh2)).up (seqP p1 p2) := by
  intro pre s i
  unfold seqP
  rw [h1 pre s i]
  cases hp1 : p1 s i with
  | mk r1 c1 =>
    cases r1 with
    | err k => simp only [shiftV]; exact restore_pre _ pre s i k c1
    | panic st => simp only [shiftV]
    | ok o1 =>
      simp only [shiftV]
      rw [h2 pre s c1]
      cases hp2 : p2 s c1 with
      | mk r2 c2 =>
        cases r2 with
        | err k => simp only [shiftV]; exact restore_pre _ pre s i k c2
        | panic st => simp only [shiftV]
        | ok o2 => simp only [shiftV, Sh.prod, Sh.loc]

/-- truncation of a sequence at any cut `n` at or after its end, given the same for the second
    component at `n` -/
theorem seq_trunc_at {α β : Type} {p1 : P α} {p2 : P β} (l1 : LocOK p1) (l2 : LocOK p2) (t1 : Trunc p1)
    (s : Bytes) (i n : Nat) (v : Located (Located α × Located β)) (c : Nat) (hi : i ≤ s.length)
    (h : seqP p1 p2 s i = (.ok v, c)) (hn : c ≤ n)
    (t2 : ∀ (j : Nat) (o2 : Located β), j ≤ s.length → p2 s j = (.ok o2, c) → p2 (s.take n) j = (.ok o2, c)) :
    seqP p1 p2 (s.take n) i = (.ok v, c) := by
  unfold seqP at h ⊢
  have g1 := l1 s i hi
  cases hp1 : p1 s i with
  | mk r1 c1 =>
    rw [hp1] at h g1
    cases r1 with
    | err k => exact (restore_ne_ok h).elim
    | panic st => cases h
    | ok o1 =>
      obtain ⟨a1, a2, a3, a4⟩ := g1
      simp only at h
      have g2 := l2 s c1 (by omega)
      cases hp2 : p2 s c1 with
      | mk r2 c2 =>
        rw [hp2] at h g2
        cases r2 with
        | err k => exact (restore_ne_ok h).elim
        | panic st => cases h
        | ok o2 =>
          obtain ⟨b1, b2, b3, b4⟩ := g2
          simp only [Prod.mk.injEq, Res.ok.injEq] at h
          obtain ⟨hv, hc⟩ := h
          subst hc
          rw [t1 s i n o1 c1 hi hp1 (by omega)]
          simp only
          rw [t2 c1 o2 (by omega) hp2]
          simp only [hv]

theorem seq_truncC {α β : Type} {p1 : P α} {p2 : P β} (l1 : LocOK p1) (l2 : LocOK p2) (t1 : Trunc p1)
    (t2 : TruncC p2) : TruncC (seqP p1 p2) := by
  intro s i v c hi h
  exact seq_trunc_at l1 l2 t1 s i c v c hi h (Nat.le_refl _) (fun j o2 hj hp => t2 s j o2 c hj hp)

theorem seq_trunc {α β : Type} {p1 : P α} {p2 : P β} (l1 : LocOK p1) (l2 : LocOK p2) (t1 : Trunc p1)
    (t2 : Trunc p2) : Trunc (seqP p1 p2) := by
  intro s i n v c hi h hn
  exact seq_trunc_at l1 l2 t1 s i n v c hi h hn (fun j o2 hj hp => t2 s j n o2 c hj hp hn)

/-- **`Sequence` preserves the contract**: first component local, second faithful. -/
theorem seq_faithful {α β : Type} {sh1 : Sh α} {sh2 : Sh β} {p1 : P α} {p2 : P β}
    (h1 : Local sh1 p1) (h2 : Faithful sh2 p2) :
    Faithful (Sh.prod (Sh.loc sh1) (Sh.loc sh2)) (seqP p1 p2) :=
  ⟨seq_loc h1.loc h2.loc, seq_pre h1.pre h2.pre, seq_truncC h1.loc h2.loc h1.trunc h2.trunc⟩

theorem seq_local {α β : Type} {sh1 : Sh α} {sh2 : Sh β} {p1 : P α} {p2 : P β}
    (h1 : Local sh1 p1) (h2 : Local sh2 p2) :
    Local (Sh.prod (Sh.loc sh1) (Sh.loc sh2)) (seqP p1 p2) :=
  ⟨seq_loc h1.loc h2.loc, seq_pre h1.pre h2.pre, seq_trunc h1.loc h2.loc h1.trunc h2.trunc⟩

theorem seq_consumes {α β : Type} {p1 : P α} {p2 : P β} (l1 : LocOK p1) (l2 : LocOK p2)
    (hc : Consumes p1 ∨ Consumes p2) : Consumes (seqP p1 p2) := by
  intro s i v c hi h
  unfold seqP at h
  have g1 := l1 s i hi
  cases hp1 : p1 s i with
  | mk r1 c1 =>
    rw [hp1] at h g1
    cases r1 with
    | err k => exact (restore_ne_ok h).elim
    | panic st => cases h
    | ok o1 =>
      obtain ⟨a1, a2, a3, a4⟩ := g1
      simp only at h
      have g2 := l2 s c1 (by omega)
      cases hp2 : p2 s c1 with
      | mk r2 c2 =>
        rw [hp2] at h g2
        cases r2 with
        | err k => exact (restore_ne_ok h).elim
        | panic st => cases h
        | ok o2 =>
          obtain ⟨b1, b2, b3, b4⟩ := g2
          simp only [Prod.mk.injEq, Res.ok.injEq] at h
          rw [← h.1]
          simp only
          rcases hc with hc | hc
          · have := hc s i o1 c1 hi hp1; omega
          · have := hc s c1 o2 c2 (by omega) hp2; omega

/-- failure of a sequence survives truncation when the successes of the first component survive
    extension and the failures of the second survive truncation -/
theorem seq_failTrunc {α β : Type} {p1 : P α} {p2 : P β} (l1 : LocOK p1)
    (e1 : Ext p1) (f2 : FailTrunc p2) : FailTrunc (seqP p1 p2) := by
  intro s i n k c hi hn h
  have hi' := length_take_le hi hn
  unfold seqP at h ⊢
  have g1 := l1 s i hi
  have g1' := l1 (s.take n) i hi'
  cases hq1 : p1 (s.take n) i with
  | mk q1 d1 =>
    rw [hq1] at g1'
    cases q1 with
    | err k' => exact ⟨k', by simp only [restore_ok k' d1 hi']⟩
    | panic st => exact g1'.elim
    | ok o1 =>
      obtain ⟨a1, a2, a3, a4⟩ := g1'
      have hp1 := e1 s i n o1 d1 hi hn hq1
      rw [hp1] at h
      simp only at h ⊢
      have hd1 : d1 ≤ s.length := by simp only [List.length_take] at a4; omega
      have hdn : d1 ≤ n := by simp only [List.length_take] at a4; omega
      cases hp2 : p2 s d1 with
      | mk r2 c2 =>
        rw [hp2] at h
        cases r2 with
        | panic st => cases h
        | ok o2 => cases h
        | err k2 =>
          obtain ⟨k', hk'⟩ := f2 s d1 n k2 c2 hd1 hdn hp2
          rw [hk']
          exact ⟨k', by simp only [restore_ok k' d1 hi']⟩

/-! ## Alternate -/

theorem alt_loc {α β : Type} {p1 : P α} {p2 : P β} (l1 : LocOK p1) (l2 : LocOK p2) : LocOK (altP p1 p2) := by
  intro s i hi
  unfold altP
  have h1 := l1 s i hi
  cases hp1 : p1 s i with
  | mk r1 c1 =>
    rw [hp1] at h1
    cases r1 with
    | ok o1 =>
      obtain ⟨a1, a2, a3, a4⟩ := h1
      exact ⟨rfl, rfl, by simp only; omega, by simp only; omega⟩
    | panic st => exact h1.elim
    | err k =>
      simp only [setCursor_ok hi]
      have h2 := l2 s i hi
      cases hp2 : p2 s i with
      | mk r2 c2 =>
        rw [hp2] at h2
        cases r2 with
        | err k => simp only [restore_ok k c2 hi]; exact lerr
        | panic st => exact h2.elim
        | ok o2 =>
          obtain ⟨b1, b2, b3, b4⟩ := h2
          exact ⟨rfl, rfl, by simp only; omega, by simp only; omega⟩

/-- **failure clause of `Alternate`, for ARBITRARY components.** -/
theorem alt_failure_restores {α β : Type} (p1 : P α) (p2 : P β) (s : Bytes) (i : Nat) (hi : i ≤ s.length)
    (k : ErrK) (c : Nat) (h : altP p1 p2 s i = (.err k, c)) : c = i := by
  unfold altP at h
  cases hp1 : p1 s i with
  | mk r1 c1 =>
    rw [hp1] at h
    cases r1 with
    | ok o1 => cases h
    | panic st => cases h
    | err k1 =>
      simp only [setCursor_ok hi] at h
      cases hp2 : p2 s i with
      | mk r2 c2 =>
        rw [hp2] at h
        cases r2 with
        | err k2 => simp only [restore_ok k2 c2 hi, Prod.mk.injEq] at h; exact h.2.symm
        | panic st => cases h
        | ok o2 => cases h

theorem alt_pre {α β : Type} {sh1 : Sh α} {sh2 : Sh β} {p1 : P α} {p2 : P β}
    (h1 : PreV sh1.up p1) (h2 : PreV sh2.up p2) :
    PreV (Sh.alt (Sh.loc sh1) (Sh.loc sh2)).up (altP p1 p2) := by
  intro pre s i
  unfold altP
  rw [h1 pre s i]
  cases hp1 : p1 s i with
  | mk r1 c1 =>
    cases r1 with
    | ok o1 => simp only [shiftV, Sh.alt, Sh.loc]
    | panic st => simp only [shiftV]
    | err k =>
      simp only [shiftV]
      rw [setCursor_pre]
      cases hs : setCursor s i with
      | none => simp only [Option.map]
      | some c =>
        have hc : c = i := by
          unfold setCursor at hs; split at hs
          · cases hs; rfl
          · cases hs
        subst hc
        simp only [Option.map]
        rw [h2 pre s c]
        cases hp2 : p2 s c with
        | mk r2 c2 =>
          cases r2 with
          | err k => simp only [shiftV]; exact restore_pre _ pre s c k c2
          | panic st => simp only [shiftV]
          | ok o2 => simp only [shiftV, Sh.alt, Sh.loc]

theorem alt_trunc_at {α β : Type} {p1 : P α} {p2 : P β} (l1 : LocOK p1) (l2 : LocOK p2) (f1 : FailTrunc p1)
    (s : Bytes) (i n : Nat) (v : Located (Alt (Located α) (Located β))) (c : Nat) (hi : i ≤ s.length)
    (h : altP p1 p2 s i = (.ok v, c)) (hn : c ≤ n)
    (t1 : ∀ (o1 : Located α), p1 s i = (.ok o1, c) → p1 (s.take n) i = (.ok o1, c))
    (t2 : ∀ (o2 : Located β), p2 s i = (.ok o2, c) → p2 (s.take n) i = (.ok o2, c)) :
    altP p1 p2 (s.take n) i = (.ok v, c) := by
  unfold altP at h ⊢
  have g1 := l1 s i hi
  cases hp1 : p1 s i with
  | mk r1 c1 =>
    rw [hp1] at h g1
    cases r1 with
    | ok o1 =>
      simp only [Prod.mk.injEq, Res.ok.injEq] at h
      obtain ⟨hv, hc⟩ := h
      subst hc
      rw [t1 o1 hp1]
      simp only [hv]
    | panic st => cases h
    | err k =>
      simp only [setCursor_ok hi] at h
      have g2 := l2 s i hi
      cases hp2 : p2 s i with
      | mk r2 c2 =>
        rw [hp2] at h g2
        cases r2 with
        | err k => exact (restore_ne_ok h).elim
        | panic st => cases h
        | ok o2 =>
          obtain ⟨b1, b2, b3, b4⟩ := g2
          simp only [Prod.mk.injEq, Res.ok.injEq] at h
          obtain ⟨hv, hc⟩ := h
          subst hc
          have hin : i ≤ n := by omega
          obtain ⟨k', hk'⟩ := f1 s i n k c1 hi hin hp1
          rw [hk']
          simp only [setCursor_ok (length_take_le hi hin)]
          rw [t2 o2 hp2]
          simp only [hv]

theorem alt_truncC {α β : Type} {p1 : P α} {p2 : P β} (l1 : LocOK p1) (l2 : LocOK p2) (f1 : FailTrunc p1)
    (t1 : TruncC p1) (t2 : TruncC p2) : TruncC (altP p1 p2) := by
  intro s i v c hi h
  exact alt_trunc_at l1 l2 f1 s i c v c hi h (Nat.le_refl _) (fun o1 hp => t1 s i o1 c hi hp)
    (fun o2 hp => t2 s i o2 c hi hp)

theorem alt_trunc {α β : Type} {p1 : P α} {p2 : P β} (l1 : LocOK p1) (l2 : LocOK p2) (f1 : FailTrunc p1)
    (t1 : Trunc p1) (t2 : Trunc p2) : Trunc (altP p1 p2) := by
  intro s i n v c hi h hn
  exact alt_trunc_at l1 l2 f1 s i n v c hi h hn (fun o1 hp => t1 s i n o1 c hi hp hn)
    (fun o2 hp => t2 s i n o2 c hi hp hn)

/-- **`Alternate` preserves the contract** when a failure of the first branch survives truncation. -/
theorem alt_faithful {α β : Type} {sh1 : Sh α} {sh2 : Sh β} {p1 : P α} {p2 : P β}
    (h1 : Faithful sh1 p1) (f1 : FailTrunc p1) (h2 : Faithful sh2 p2) :
    Faithful (Sh.alt (Sh.loc sh1) (Sh.loc sh2)) (altP p1 p2) :=
  ⟨alt_loc h1.loc h2.loc, alt_pre h1.pre h2.pre, alt_truncC h1.loc h2.loc f1 h1.trunc h2.trunc⟩

theorem alt_local {α β : Type} {sh1 : Sh α} {sh2 : Sh β} {p1 : P α} {p2 : P β}
    (h1 : Local sh1 p1) (f1 : FailTrunc p1) (h2 : Local sh2 p2) :
    Local (Sh.alt (Sh.loc sh1) (Sh.loc sh2)) (altP p1 p2) :=
  ⟨alt_loc h1.loc h2.loc, alt_pre h1.pre h2.pre, alt_trunc h1.loc h2.loc f1 h1.trunc h2.trunc⟩

theorem alt_consumes {α β : Type} {p1 : P α} {p2 : P β} (c1 : Consumes p1) (c2 : Consumes p2)
    (l1 : LocOK p1) (l2 : LocOK p2) : Consumes (altP p1 p2) := by
  intro s i v c hi h
  unfold altP at h
  have g1 := l1 s i hi
  cases hp1 : p1 s i with
  | mk r1 d1 =>
    rw [hp1] at h g1
    cases r1 with
    | ok o1 =>
      obtain ⟨a1, a2, a3, a4⟩ := g1
      simp only [Prod.mk.injEq, Res.ok.injEq] at h
      rw [← h.1]
      have := c1 s i o1 d1 hi hp1
      simp only; omega
    | panic st => cases h
    | err k =>
      simp only [setCursor_ok hi] at h
      have g2 := l2 s i hi
      cases hp2 : p2 s i with
      | mk r2 d2 =>
        rw [hp2] at h g2
        cases r2 with
        | err k => exact (restore_ne_ok h).elim
        | panic st => cases h
        | ok o2 =>
          obtain ⟨b1, b2, b3, b4⟩ := g2
          simp only [Prod.mk.injEq, Res.ok.injEq] at h
          rw [← h.1]
          have := c2 s i o2 d2 hi hp2
          simp only; omega

theorem alt_failTrunc {α β : Type} {p1 : P α} {p2 : P β}
    (f1 : FailTrunc p1) (f2 : FailTrunc p2) : FailTrunc (altP p1 p2) := by
  intro s i n k c hi hn h
  have hi' := length_take_le hi hn
  unfold altP at h ⊢
  cases hp1 : p1 s i with
  | mk r1 d1 =>
    rw [hp1] at h
    cases r1 with
    | ok o1 => cases h
    | panic st => cases h
    | err k1 =>
      simp only [setCursor_ok hi] at h
      obtain ⟨k', hk'⟩ := f1 s i n k1 d1 hi hn hp1
      rw [hk']
      simp only [setCursor_ok hi']
      cases hp2 : p2 s i with
      | mk r2 d2 =>
        rw [hp2] at h
        cases r2 with
        | ok o2 => cases h
        | panic st => cases h
        | err k2 =>
          obtain ⟨k'', hk''⟩ := f2 s i n k2 d2 hi hn hp2
          rw [hk'']
          exact ⟨k'', by simp only [restore_ok k'' i hi']⟩

/-! ## Not -/

theorem not_loc {α : Type} {p : P α} (l : LocOK p) : LocOK (notP p) := by
  intro s i hi
  unfold notP
  have h := l s i hi
  cases hp : p s i with
  | mk r c =>
    rw [hp] at h
    cases r with
    | panic st => exact h.elim
    | ok o => simp only [setCursor_ok hi]; exact lerr
    | err k => simp only [setCursor_ok hi]; exact ⟨rfl, rfl, Nat.le_refl _, hi⟩

/-- **failure clause of `Not`, for an ARBITRARY body**: a failed negation (= the body succeeded and
    consumed) puts the cursor back. -/
theorem not_failure_restores {α : Type} (p : P α) (s : Bytes) (i : Nat) (hi : i ≤ s.length)
    (k : ErrK) (c : Nat) (h : notP p s i = (.err k, c)) : c = i := by
  unfold notP at h
  cases hp : p s i with
  | mk r d =>
    rw [hp] at h
    cases r with
    | panic st => cases h
    | ok o => simp only [setCursor_ok hi, Prod.mk.injEq] at h; exact h.2.symm
    | err k => simp only [setCursor_ok hi] at h; cases h

/-- … and a successful negation consumes nothing, whatever the body did with the cursor -/
theorem not_never_consumes {α : Type} (p : P α) (s : Bytes) (i : Nat) (hi : i ≤ s.length)
    (v : Located Unit) (c : Nat) (h : notP p s i = (.ok v, c)) : c = i ∧ v = ⟨(), i, i⟩ := by
  unfold notP at h
  cases hp : p s i with
  | mk r d =>
    rw [hp] at h
    cases r with
    | panic st => cases h
    | ok o => simp only [setCursor_ok hi] at h; cases h
    | err k =>
      simp only [setCursor_ok hi, Prod.mk.injEq, Res.ok.injEq] at h
      exact ⟨h.2.symm, h.1.symm⟩

theorem not_pre {α : Type} {g : Nat → α → α} {p : P α} (h : PreV g p) : PreV (Sh.plain Unit).up (notP p) := by
  intro pre s i
  unfold notP
  rw [h pre s i]
  cases hp : p s i with
  | mk r c =>
    cases r with
    | panic st => simp only [shiftV]
    | ok o =>
      simp only [shiftV]
      rw [setCursor_pre]
      cases setCursor s i <;> simp
    | err k =>
      simp only [shiftV]
      rw [setCursor_pre]
      cases setCursor s i <;> simp [Sh.plain]

theorem not_truncC {α : Type} {p : P α} (f : FailEOB p) : TruncC (notP p) := by
  intro s i v c hi h
  obtain ⟨hc, hv⟩ := not_never_consumes p s i hi v c h
  rw [hc, hv]
  have hlen : (s.take i).length = i := by simp only [List.length_take]; omega
  obtain ⟨k, hk⟩ := f (s.take i)
  rw [hlen] at hk
  unfold notP
  rw [hk]
  simp only [setCursor_ok (Nat.le_of_eq hlen.symm)]

/-- **`Not` preserves the contract** when its body fails at the end of the buffer
    (e.g. because it consumes: `failEOB_of_consumes`). -/
theorem not_faithful {α : Type} {sh : Sh α} {p : P α} (l : LocOK p) (hp : PreV sh.up p) (f : FailEOB p) :
    Faithful (Sh.plain Unit) (notP p) :=
  ⟨not_loc l, not_pre hp, not_truncC f⟩

/-! ## Star -/

/-- the iterations of the loop of `Star::parse` from cursor `c`: the body succeeds with the values `l`
    one after the other and then fails at `e` (no fuel, no accumulator) -/
inductive Iter {α : Type} (p : P α) (s : Bytes) : Nat → List (Located α) → Nat → Prop where
  | stop (c : Nat) (k : ErrK) (cur : Nat) : p s c = (.err k, cur) → Iter p s c [] c
  | step (c : Nat) (o : Located α) (cur : Nat) (l : List (Located α)) (e : Nat) :
      p s c = (.ok o, cur) → Iter p s cur l e → Iter p s c (o :: l) e

theorem iter_bounds {α : Type} {p : P α} (hl : LocOK p) {s : Bytes} {c e : Nat} {l : List (Located α)}
    (h : Iter p s c l e) (hc : c ≤ s.length) : c ≤ e ∧ e ≤ s.length := by
  induction h with
  | stop c k cur hp => exact ⟨Nat.le_refl _, hc⟩
  | step c o cur l e hp _ ih =>
    have g := hl s c hc
    rw [hp] at g
    obtain ⟨a1, a2, a3, a4⟩ := g
    have := ih (by omega)
    omega

theorem iter_len {α : Type} {p : P α} (hl : LocOK p) (hcons : Consumes p) {s : Bytes} {c e : Nat}
    {l : List (Located α)} (h : Iter p s c l e) (hc : c ≤ s.length) : c + l.length ≤ e := by
  induction h with
  | stop c k cur hp => simp
  | step c o cur l e hp _ ih =>
    have g := hl s c hc
    rw [hp] at g
    obtain ⟨a1, a2, a3, a4⟩ := g
    have := hcons s c o cur hc hp
    have := ih (by omega)
    simp only [List.length_cons]
    omega

/-- the loop computes the iterations, given enough fuel -/
theorem starLoop_of_iter {α : Type} {p : P α} (hl : LocOK p) {s : Bytes} {start c e : Nat}
    {l : List (Located α)} (h : Iter p s c l e) (hc : c ≤ s.length) :
    ∀ (f : Nat) (v : List (Located α)), l.length < f →
      starLoop p s start f c v = (.ok ⟨v ++ l, start, e⟩, e) := by
  induction h with
  | stop c k cur hp =>
    intro f v hf
    cases f with
    | zero => omega
    | succ f =>
      unfold starLoop
      rw [hp]
      simp only [setCursor_ok hc, List.append_nil]
  | step c o cur l e hp _ ih =>
    intro f v hf
    have g := hl s c hc
    rw [hp] at g
    obtain ⟨a1, a2, a3, a4⟩ := g
    cases f with
    | zero => omega
    | succ f =>
      unfold starLoop
      rw [hp]
      simp only
      rw [ih (by omega) f (v ++ [o]) (by simp only [List.length_cons] at hf; omega)]
      simp

/-- … and whatever the loop returns as a success is the iterations -/
theorem iter_of_starLoop {α : Type} {p : P α} (hl : LocOK p) {s : Bytes} {start : Nat} :
    ∀ (f c : Nat) (v : List (Located α)) (w : Located (List (Located α))) (cc : Nat), c ≤ s.length →
      starLoop p s start f c v = (.ok w, cc) → ∃ l, w = ⟨v ++ l, start, cc⟩ ∧ Iter p s c l cc := by
  intro f
  induction f with
  | zero => intro c v w cc _ h; unfold starLoop at h; cases h
  | succ f ih =>
    intro c v w cc hc h
    unfold starLoop at h
    have g := hl s c hc
    cases hp : p s c with
    | mk r cur =>
      rw [hp] at h g
      cases r with
      | panic st => cases h
      | err k =>
        simp only [setCursor_ok hc, Prod.mk.injEq, Res.ok.injEq] at h
        obtain ⟨h1, h2⟩ := h
        subst h2
        exact ⟨[], by rw [← h1]; simp, Iter.stop c k cur hp⟩
      | ok o =>
        obtain ⟨a1, a2, a3, a4⟩ := g
        simp only at h
        obtain ⟨l, hw, hit⟩ := ih cur (v ++ [o]) w cc (by omega) h
        exact ⟨o :: l, by rw [hw]; simp, Iter.step c o cur l cc hp hit⟩

/-- a consuming body always yields a finite run of iterations -/
theorem iter_exists {α : Type} {p : P α} (hl : LocOK p) (hcons : Consumes p) (s : Bytes) :
    ∀ (m c : Nat), s.length - c ≤ m → c ≤ s.length → ∃ l e, Iter p s c l e := by
  intro m
  induction m with
  | zero =>
    intro c hm hc
    have g := hl s c hc
    cases hp : p s c with
    | mk r cur =>
      rw [hp] at g
      cases r with
      | panic st => exact g.elim
      | err k => exact ⟨[], c, Iter.stop c k cur hp⟩
      | ok o =>
        obtain ⟨a1, a2, a3, a4⟩ := g
        have := hcons s c o cur hc hp
        omega
  | succ m ih =>
    intro c hm hc
    have g := hl s c hc
    cases hp : p s c with
    | mk r cur =>
      rw [hp] at g
      cases r with
      | panic st => exact g.elim
      | err k => exact ⟨[], c, Iter.stop c k cur hp⟩
      | ok o =>
        obtain ⟨a1, a2, a3, a4⟩ := g
        have := hcons s c o cur hc hp
        obtain ⟨l, e, hit⟩ := ih cur (by omega) (by omega)
        exact ⟨o :: l, e, Iter.step c o cur l e hp hit⟩

/-- **`Star::parse` with a consuming body**: the fuel of the model is never exhausted (the Rust loop
    terminates), the parse always succeeds, and its value is the maximal run of iterations. -/
theorem starP_iter {α : Type} {p : P α} (hl : LocOK p) (hcons : Consumes p) (s : Bytes) (i : Nat)
    (hi : i ≤ s.length) : ∃ l e, Iter p s i l e ∧ starP p s i = (.ok ⟨l, i, e⟩, e) := by
  obtain ⟨l, e, hit⟩ := iter_exists hl hcons s (s.length - i) i (Nat.le_refl _) hi
  refine ⟨l, e, hit, ?_⟩
  have hb := iter_bounds hl hit hi
  have hn := iter_len hl hcons hit hi
  unfold starP
  rw [starLoop_of_iter hl hit hi _ [] (by omega)]
  simp

theorem star_loc {α : Type} {p : P α} (hl : LocOK p) (hcons : Consumes p) : LocOK (starP p) := by
  intro s i hi
  obtain ⟨l, e, hit, h⟩ := starP_iter hl hcons s i hi
  have hb := iter_bounds hl hit hi
  rw [h]
  exact ⟨rfl, rfl, hb.1, hb.2⟩

/-- **`Star` never fails, for an ARBITRARY body** (so its failure clause is vacuous): the only
    outcomes are success, a propagated panic of the body, or the unbounded loop. -/
theorem starLoop_never_err {α : Type} (p : P α) (s : Bytes) (start : Nat) :
    ∀ (f c : Nat) (v : List (Located α)) (k : ErrK) (cc : Nat), starLoop p s start f c v ≠ (.err k, cc) := by
  intro f
  induction f with
  | zero => intro c v k cc h; unfold starLoop at h; cases h
  | succ f ih =>
    intro c v k cc h
    unfold starLoop at h
    cases hp : p s c with
    | mk r cur =>
      rw [hp] at h
      cases r with
      | panic st => cases h
      | ok o => exact ih _ _ _ _ h
      | err k' =>
        simp only at h
        split at h <;> cases h

theorem star_never_fails {α : Type} (p : P α) (s : Bytes) (i : Nat) (k : ErrK) (c : Nat) :
    starP p s i ≠ (.err k, c) := starLoop_never_err p s i _ _ _ k c

theorem starLoop_pre {α : Type} {sh : Sh α} {p : P α} (hp : PreV sh.up p) (pre s : Bytes) (start : Nat) :
    ∀ (f c : Nat) (v : List (Located α)),
      starLoop p (pre ++ s) (pre.length + start) f (pre.length + c) (v.map ((Sh.loc sh).up pre.length)) =
        shiftV ((Sh.list (Sh.loc sh)).up pre.length) pre.length (starLoop p s start f c v) := by
  intro f
  induction f with
  | zero => intro c v; simp only [starLoop, shiftV]
  | succ f ih =>
    intro c v
    unfold starLoop
    rw [hp pre s c]
    cases hq : p s c with
    | mk r cur =>
      cases r with
      | panic st => simp only [shiftV]
      | ok o =>
        simp only [shiftV]
        have := ih cur (v ++ [o])
        simp only [List.map_append, List.map_cons, List.map_nil] at this
        exact this
      | err k =>
        simp only [shiftV]
        rw [setCursor_pre]
        cases hs : setCursor s c with
        | none => simp only [Option.map]
        | some c' =>
          have hc : c' = c := by
            unfold setCursor at hs; split at hs
            · cases hs; rfl
            · cases hs
          subst hc
          simp only [Option.map, Sh.list]

theorem star_pre {α : Type} {sh : Sh α} {p : P α} (hp : PreV sh.up p) :
    PreV (Sh.list (Sh.loc sh)).up (starP p) := by
  intro pre s i
  unfold starP
  have hl : (pre ++ s).length - (pre.length + i) + 1 = s.length - i + 1 := by
    simp only [List.length_append]; omega
  rw [hl]
  exact starLoop_pre hp pre s i _ i []

/-- truncation of the iterations at a cut `n` at or after their end, given that the final failure of the
    body is still a failure in the truncated buffer -/
theorem iter_trunc {α : Type} {p : P α} (hl : LocOK p) (ht : Trunc p) {s : Bytes} {c e n : Nat}
    {l : List (Located α)} (h : Iter p s c l e) (hc : c ≤ s.length) (hn : e ≤ n)
    (hf : ∀ k cur, p s e = (.err k, cur) → ∃ k', p (s.take n) e = (.err k', e)) :
    Iter p (s.take n) c l e := by
  induction h with
  | stop c k cur hp =>
    obtain ⟨k', hk'⟩ := hf k cur hp
    exact Iter.stop c k' c hk'
  | step c o cur l e hp hit ih =>
    have g := hl s c hc
    rw [hp] at g
    obtain ⟨a1, a2, a3, a4⟩ := g
    have hb := iter_bounds hl hit (by omega : cur ≤ s.length)
    have := ht s c n o cur hc hp (by omega)
    exact Iter.step c o cur l e this (ih (by omega) hn hf)

theorem star_trunc_at {α : Type} {p : P α} (hl : LocOK p) (hcons : Consumes p) (ht : Trunc p)
    (s : Bytes) (i n : Nat) (v : Located (List (Located α))) (c : Nat) (hi : i ≤ s.length)
    (h : starP p s i = (.ok v, c)) (hn : c ≤ n)
    (hf : ∀ k cur, p s c = (.err k, cur) → ∃ k', p (s.take n) c = (.err k', c)) :
    starP p (s.take n) i = (.ok v, c) := by
  unfold starP at h
  obtain ⟨l, hv, hit⟩ := iter_of_starLoop hl _ i [] v c hi h
  have hb := iter_bounds hl hit hi
  have hi' : i ≤ (s.take n).length := length_take_le hi (by omega)
  have hit' := iter_trunc hl ht hit hi hn hf
  have hlen := iter_len hl hcons hit hi
  have hb' := iter_bounds hl hit' hi'
  unfold starP
  rw [starLoop_of_iter hl hit' hi' _ [] (by omega), hv]

theorem star_truncC {α : Type} {p : P α} (hl : LocOK p) (hcons : Consumes p) (ht : Trunc p) :
    TruncC (starP p) := by
  intro s i v c hi h
  refine star_trunc_at hl hcons ht s i c v c hi h (Nat.le_refl _) ?_
  intro k cur _
  have hc : c ≤ s.length := by
    have g := star_loc hl hcons s i hi
    rw [h] at g
    obtain ⟨a1, a2, a3, a4⟩ := g
    omega
  have hlen : (s.take c).length = c := by simp only [List.length_take]; omega
  obtain ⟨k', hk'⟩ := failEOB_of_consumes hl hcons (s.take c)
  rw [hlen] at hk'
  exact ⟨k', hk'⟩

theorem star_trunc {α : Type} {p : P α} (hl : LocOK p) (hcons : Consumes p) (ht : Trunc p)
    (hf : FailTrunc p) : Trunc (starP p) := by
  intro s i n v c hi h hn
  refine star_trunc_at hl hcons ht s i n v c hi h hn ?_
  intro k cur hp
  have hc : c ≤ s.length := by
    have g := star_loc hl hcons s i hi
    rw [h] at g
    obtain ⟨a1, a2, a3, a4⟩ := g
    omega
  exact hf s c n k cur hc hn hp

/-- **`Star` preserves the contract** when its body is local and consumes. -/
theorem star_faithful {α : Type} {sh : Sh α} {p : P α} (h : Local sh p) (hcons : Consumes p) :
    Faithful (Sh.list (Sh.loc sh)) (starP p) :=
  ⟨star_loc h.loc hcons, star_pre h.pre, star_truncC h.loc hcons h.trunc⟩

/-- … and is itself local when the failures of the body survive truncation -/
theorem star_local {α : Type} {sh : Sh α} {p : P α} (h : Local sh p) (hcons : Consumes p) (hf : FailTrunc p) :
    Local (Sh.list (Sh.loc sh)) (starP p) :=
  ⟨star_loc h.loc hcons, star_pre h.pre, star_trunc h.loc hcons h.trunc hf⟩

theorem star_failTrunc {α : Type} (p : P α) : FailTrunc (starP p) := by
  intro s i n k c _ _ h
  exact (star_never_fails p s i k c h).elim

/-! ## AsciiChar -/

/-- does `AsciiChar` accept the byte? -/
def chrAccept (guard : Option (UInt8 → Bool)) (c : UInt8) : Bool :=
  c.toNat < 128 && guardPass guard c

/-- the error of `AsciiChar` on a rejected byte -/
def chrErr (_guard : Option (UInt8 → Bool)) (c : UInt8) : ErrK :=
  if c.toNat ≥ 128 then .prim else .guard

theorem chrP_eq (guard : Option (UInt8 → Bool)) (s : Bytes) (i : Nat) (hi : i ≤ s.length) :
    chrP guard s i =
      match s[i]? with
      | none => (.err .eob, i)
      | some c => if chrAccept guard c then (.ok ⟨c, i, i + 1⟩, i + 1) else (.err (chrErr guard c), i) := by
  unfold chrP
  have hn : ¬ (i > s.length) := by omega
  simp only [hn, if_false]
  by_cases hlt : i < s.length
  · rw [List.drop_eq_getElem_cons hlt, List.getElem?_eq_getElem hlt]
    simp only [chrAccept, chrErr]
    by_cases h128 : s[i].toNat ≥ 128
    · have : ¬ (s[i].toNat < 128) := by omega
      simp [h128, this]
    · have h' : s[i].toNat < 128 := by omega
      simp only [h128, if_false, h', decide_true, Bool.true_and]
      cases hg : guardPass guard s[i]
      · simp
      · simp [setCursor_ok (show i + 1 ≤ s.length by omega)]
  · have : s.length ≤ i := by omega
    rw [List.drop_eq_nil_of_le this, List.getElem?_eq_none this]

theorem chrP_loc (g : Option (UInt8 → Bool)) : LocOK (chrP g) := by
  intro s i hi
  rw [chrP_eq g s i hi]
  cases h : s[i]? with
  | none => exact lerr
  | some c =>
    have hlt : i < s.length := by
      rcases Nat.lt_or_ge i s.length with h' | h'
      · exact h'
      · rw [List.getElem?_eq_none h'] at h; cases h
    simp only
    split
    · exact lok (by omega) (by omega)
    · exact lerr

theorem chrP_pre (g : Option (UInt8 → Bool)) : PreV (Sh.plain UInt8).up (chrP g) := by
  intro pre s i
  by_cases hi : i ≤ s.length
  · rw [chrP_eq g s i hi, chrP_eq g (pre ++ s) (pre.length + i) (by simp only [List.length_append]; omega)]
    rw [List.getElem?_append_right (by omega)]
    have : pre.length + i - pre.length = i := by omega
    rw [this]
    cases s[i]? with
    | none => rfl
    | some c =>
      simp only
      split
      · simp [shiftV, Sh.plain, Nat.add_assoc]
      · rfl
  · unfold chrP
    have h1 : i > s.length := by omega
    have h2 : pre.length + i > (pre ++ s).length := by simp only [List.length_append]; omega
    simp only [h1, h2, if_true, shiftV]

theorem getElem?_take_lt {s : Bytes} {n i : Nat} (h : i < n) : (s.take n)[i]? = s[i]? := by
  rw [List.getElem?_take]; simp [h]

theorem chrP_trunc (g : Option (UInt8 → Bool)) : Trunc (chrP g) := by
  intro s i n v c hi h hn
  rw [chrP_eq g s i hi] at h
  cases hs : s[i]? with
  | none => rw [hs] at h; cases h
  | some b =>
    rw [hs] at h
    simp only at h
    split at h
    · rename_i hacc
      simp only [Prod.mk.injEq, Res.ok.injEq] at h
      obtain ⟨hv, hc⟩ := h
      have hlt : i < s.length := by
        rcases Nat.lt_or_ge i s.length with h' | h'
        · exact h'
        · rw [List.getElem?_eq_none h'] at hs; cases hs
      rw [chrP_eq g _ i (length_take_le hi (by omega)), getElem?_take_lt (by omega), hs]
      subst hv hc
      simp only [hacc, if_true]
    · cases h

theorem chrP_failTrunc (g : Option (UInt8 → Bool)) : FailTrunc (chrP g) := by
  intro s i n k c hi hn h
  rw [chrP_eq g s i hi] at h
  rw [chrP_eq g _ i (length_take_le hi hn)]
  by_cases hlt : i < n
  · rw [getElem?_take_lt hlt]
    cases hs : s[i]? with
    | none => exact ⟨.eob, rfl⟩
    | some b =>
      rw [hs] at h
      simp only at h ⊢
      split at h
      · cases h
      · rename_i hacc
        exact ⟨chrErr g b, by simp only [hacc]; rfl⟩
  · have : (s.take n).length ≤ i := by simp only [List.length_take]; omega
    rw [List.getElem?_eq_none this]
    exact ⟨.eob, rfl⟩

theorem chrP_ext (g : Option (UInt8 → Bool)) : Ext (chrP g) := by
  intro s i n v c hi hn h
  rw [chrP_eq g _ i (length_take_le hi hn)] at h
  rw [chrP_eq g s i hi]
  by_cases hlt : i < n
  · rw [getElem?_take_lt hlt] at h
    exact h
  · have : (s.take n).length ≤ i := by simp only [List.length_take]; omega
    rw [List.getElem?_eq_none this] at h
    cases h

theorem chrP_consumes (g : Option (UInt8 → Bool)) : Consumes (chrP g) := by
  intro s i v c hi h
  rw [chrP_eq g s i hi] at h
  cases hs : s[i]? with
  | none => rw [hs] at h; cases h
  | some b =>
    rw [hs] at h
    simp only at h
    split at h
    · simp only [Prod.mk.injEq, Res.ok.injEq] at h
      rw [← h.1]; simp
    · cases h

theorem chrP_local (g : Option (UInt8 → Bool)) : Local (Sh.plain UInt8) (chrP g) :=
  ⟨chrP_loc g, chrP_pre g, chrP_trunc g⟩

end Parsley.C15
