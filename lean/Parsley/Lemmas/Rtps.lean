/-
  Helper lemmas for C20: each parser of Model/Rtps.lean characterised by the shape of the
  unread input `s.drop i`.  Core Lean only.
-/
import Parsley.Model.Rtps
import Parsley.Spec.Rtps
namespace Parsley.Rtps
open Parsley Parsley.Bin

/-! ### list plumbing -/

theorem drop_getElem? {s l : Bytes} {i : Nat} (h : s.drop i = l) (k : Nat) : s[i + k]? = l[k]? := by
  rw [← h, List.getElem?_drop]

theorem drop_add_of_eq {s l : Bytes} {i : Nat} (h : s.drop i = l) (k : Nat) : s.drop (i + k) = l.drop k := by
  rw [← h, List.drop_drop]

theorem lt_length_of_drop_cons {s r : Bytes} {a : UInt8} {i : Nat} (h : s.drop i = a :: r) : i < s.length := by
  apply Classical.byContradiction
  intro hn
  have : s.drop i = [] := List.drop_of_length_le (by omega)
  rw [this] at h; cases h

theorem length_of_drop_eq {s l : Bytes} {i : Nat} (h : s.drop i = l) (hi : i ≤ s.length) :
    s.length = i + l.length := by
  have := congrArg List.length h
  simp at this; omega

/-! ### the C19 primitives, by shape of the unread input -/

theorem uint8P_nil {s : Bytes} {i : Nat} (h : s.drop i = []) : uint8P s i = (.err .eob, i) := by
  have := drop_getElem? h 0
  simp at this
  simp [uint8P, this]

theorem uint8P_cons {s r : Bytes} {a : UInt8} {i : Nat} (h : s.drop i = a :: r) :
    uint8P s i = (.ok ⟨a, i, i + 1⟩, i + 1) := by
  have := drop_getElem? h 0
  simp at this
  simp [uint8P, this]

/-- the 16-bit value `UInt16P` builds from two consecutive bytes -/
def val16 (e : Endian) (a b : UInt8) : UInt16 :=
  match e with | .big => comb16 a b | .little => comb16 b a

theorem uint16P_cons2 {s r : Bytes} {a b : UInt8} {i : Nat} (e : Endian) (h : s.drop i = a :: b :: r) :
    uint16P e s i = (.ok ⟨val16 e a b, i, i + 2⟩, i + 2) := by
  have h1 : s.drop (i + 1) = b :: r := by simpa using drop_add_of_eq h 1
  unfold uint16P pair
  rw [uint8P_cons h]; simp only []
  rw [uint8P_cons h1]
  cases e <;> rfl

theorem uint16P_short {s : Bytes} {i : Nat} (e : Endian) (h : (s.drop i).length < 2) :
    uint16P e s i = (.err .eob, i) := by
  unfold uint16P pair
  cases hd : s.drop i with
  | nil => rw [uint8P_nil hd]
  | cons a r =>
    have h1 : s.drop (i + 1) = r := by simpa using drop_add_of_eq hd 1
    rw [hd] at h
    have : r = [] := by
      cases r with
      | nil => rfl
      | cons b t => simp at h; omega
    subst this
    rw [uint8P_cons hd]; simp only []
    rw [uint8P_nil h1]

/-! ### buffer primitives -/

theorem remaining_ok {s : Bytes} {i : Nat} (hi : i ≤ s.length) : remaining s i = .ok (s.length - i) := by
  simp [remaining, hi]

theorem extractP_eq {s : Bytes} {i : Nat} (len : Nat) (hi : i ≤ s.length) :
    extractP len s i =
      if s.length - i < len then (.err .eob, i)
      else (.ok ⟨(s.drop i).take len, i, i + len⟩, i + len) := by
  simp [extractP, remaining_ok hi]

theorem restoreErr_eq {α : Type} {s : Bytes} {i : Nat} (k : ErrK) (j : Nat) (hi : i ≤ s.length) :
    (restoreErr s i k j : Res (Located α) × Nat) = (.err k, i) := by
  simp [restoreErr, hi]

/-! ### sub-message header and sub-message -/

theorem subHdrP_cons4 {s r : Bytes} {a f x y : UInt8} {i : Nat} (h : s.drop i = a :: f :: x :: y :: r) :
    subHdrP s i = (.ok ⟨⟨a, f, val16 (msgEndian f) x y⟩, i, i + 4⟩, i + 4) := by
  have h1 : s.drop (i + 1) = f :: x :: y :: r := by simpa using drop_add_of_eq h 1
  have h2 : s.drop (i + 1 + 1) = x :: y :: r := by simpa using drop_add_of_eq h1 1
  unfold subHdrP
  rw [uint8P_cons h]; simp only []
  rw [uint8P_cons h1]; simp only []
  rw [uint16P_cons2 _ h2]

theorem subHdrP_short {s : Bytes} {i : Nat} (h : (s.drop i).length < 4) :
    subHdrP s i = (.err .eob, i) := by
  unfold subHdrP
  cases hd : s.drop i with
  | nil => rw [uint8P_nil hd]
  | cons a r1 =>
    have hi : i ≤ s.length := Nat.le_of_lt (lt_length_of_drop_cons hd)
    have h1 : s.drop (i + 1) = r1 := by simpa using drop_add_of_eq hd 1
    rw [uint8P_cons hd]; simp only []
    cases r1 with
    | nil => rw [uint8P_nil h1]; simp only []; exact restoreErr_eq _ _ hi
    | cons f r2 =>
      have h2 : s.drop (i + 1 + 1) = r2 := by simpa using drop_add_of_eq h1 1
      rw [uint8P_cons h1]; simp only []
      have : (s.drop (i + 1 + 1)).length < 2 := by
        rw [h2]; rw [hd] at h; simp at h; omega
      rw [uint16P_short _ this]; simp only []
      exact restoreErr_eq _ _ hi

theorem subMsgP_cons4 {s r : Bytes} {a f x y : UInt8} {i : Nat} (h : s.drop i = a :: f :: x :: y :: r) :
    subMsgP s i =
      if val16 (msgEndian f) x y = 0 then
        (.ok ⟨⟨⟨a, f, val16 (msgEndian f) x y⟩, r⟩, i, s.length⟩, s.length)
      else if r.length < (val16 (msgEndian f) x y).toNat then (.err .eob, i + 4)
      else (.ok ⟨⟨⟨a, f, val16 (msgEndian f) x y⟩, r.take (val16 (msgEndian f) x y).toNat⟩,
              i, i + 4 + (val16 (msgEndian f) x y).toNat⟩, i + 4 + (val16 (msgEndian f) x y).toNat) := by
  have hi : i ≤ s.length := Nat.le_of_lt (lt_length_of_drop_cons h)
  have hlen : s.length = i + (r.length + 4) := by simpa using length_of_drop_eq h hi
  have h4 : s.drop (i + 4) = r := by simpa using drop_add_of_eq h 4
  have hi4 : i + 4 ≤ s.length := by omega
  unfold subMsgP
  rw [subHdrP_cons4 h]; simp only []
  by_cases hv : val16 (msgEndian f) x y = 0
  · simp only [hv, beq_self_eq_true, if_true, remaining_ok hi4]
    rw [extractP_eq _ hi4]
    have e1 : s.length - (i + 4) = r.length := by omega
    have e2 : i + 4 + r.length = s.length := by omega
    simp [h4, e1, e2]
  · have hv' : (val16 (msgEndian f) x y == 0) = false := by simpa using hv
    simp only [hv', hv, if_false, Bool.false_eq_true]
    rw [extractP_eq _ hi4]
    have e1 : s.length - (i + 4) = r.length := by omega
    rw [e1, h4]
    by_cases hs : r.length < (val16 (msgEndian f) x y).toNat
    · simp [hs]
    · simp [hs]

theorem subMsgP_short {s : Bytes} {i : Nat} (h : (s.drop i).length < 4) :
    subMsgP s i = (.err .eob, i) := by
  unfold subMsgP
  rw [subHdrP_short h]

/-! ### header -/

theorem exactP_eq {s : Bytes} {i : Nat} (tag : Bytes) (hi : i ≤ s.length) :
    exactP tag s i = if tag.isPrefixOf (s.drop i) then (.ok true, i + tag.length) else (.err .guard, i) := by
  have : ¬ s.length < i := by omega
  simp [exactP, this]

theorem u16leP_cons2 {s r : Bytes} {a b : UInt8} {i : Nat} (h : s.drop i = a :: b :: r) :
    u16leP s i = (.ok ⟨comb16 b a, i, i + 2⟩, i + 2) := by
  unfold u16leP; rw [uint16P_cons2 _ h]; rfl

theorem u16leP_short {s : Bytes} {i : Nat} (h : (s.drop i).length < 2) :
    u16leP s i = (.err .eob, i) := by
  unfold u16leP; rw [uint16P_short _ h]

theorem guidPrefixP_eq {s : Bytes} {i : Nat} (hi : i ≤ s.length) :
    guidPrefixP s i =
      if s.length - i < 12 then (.err .eob, i)
      else (.ok ⟨(s.drop i).take 12, i, i + 12⟩, i + 12) := by
  unfold guidPrefixP
  rw [extractP_eq _ hi]
  by_cases h : s.length - i < 12
  · simp [h]
  · have : ((s.drop i).take 12).length = 12 := by simp; omega
    simp [h, this]

/-- A buffer that continues with magic, four bytes and at least 12 more: `HeaderP` succeeds. -/
theorem headerP_shape {s g : Bytes} {v0 v1 w0 w1 : UInt8} {i : Nat}
    (h : s.drop i = 0x52 :: 0x54 :: 0x50 :: 0x53 :: v0 :: v1 :: w0 :: w1 :: g) :
    headerP s i =
      if g.length < 12 then (.err .eob, i)
      else (.ok ⟨⟨comb16 v1 v0, comb16 w1 w0, g.take 12⟩, i, i + 20⟩, i + 20) := by
  have hi : i ≤ s.length := Nat.le_of_lt (lt_length_of_drop_cons h)
  have hlen : s.length = i + (g.length + 8) := by simpa using length_of_drop_eq h hi
  have h4 : s.drop (i + 4) = v0 :: v1 :: w0 :: w1 :: g := by simpa using drop_add_of_eq h 4
  have h6 : s.drop (i + 4 + 2) = w0 :: w1 :: g := by simpa using drop_add_of_eq h4 2
  have h8 : s.drop (i + 4 + 2 + 2) = g := by simpa using drop_add_of_eq h6 2
  have hi8 : i + 4 + 2 + 2 ≤ s.length := by omega
  unfold headerP
  rw [exactP_eq _ hi]
  have hp : magic.isPrefixOf (s.drop i) = true := by rw [h]; rfl
  simp only [hp, if_true, protocolVersionP, vendorIdP]
  have ml : magic.length = 4 := rfl
  rw [ml, u16leP_cons2 h4]; simp only []
  rw [u16leP_cons2 h6]; simp only []
  rw [guidPrefixP_eq hi8, h8]
  have e : s.length - (i + 4 + 2 + 2) = g.length := by omega
  rw [e]
  by_cases hg : g.length < 12
  · simp only [hg, if_true]; exact restoreErr_eq _ _ hi
  · simp only [hg, if_false]

/-- … and in every other case it fails with the cursor where it was (never panics). -/
theorem headerP_cases {s : Bytes} {i : Nat} (hi : i ≤ s.length) :
    (∃ k, headerP s i = (.err k, i)) ∨
    (∃ v0 v1 w0 w1 g, s.drop i = 0x52 :: 0x54 :: 0x50 :: 0x53 :: v0 :: v1 :: w0 :: w1 :: g ∧ 12 ≤ g.length) := by
  by_cases hp : magic.isPrefixOf (s.drop i) = true
  · have hpre := List.isPrefixOf_iff_prefix.mp hp
    obtain ⟨r1, hr1⟩ := hpre
    have h0 : s.drop i = 0x52 :: 0x54 :: 0x50 :: 0x53 :: r1 := by rw [← hr1]; rfl
    have h4 : s.drop (i + 4) = r1 := by simpa using drop_add_of_eq h0 4
    have ml : magic.length = 4 := rfl
    -- helper: what headerP does once the magic matched
    match r1, h0, h4 with
    | v0 :: v1 :: w0 :: w1 :: g, h0, _ =>
      by_cases hg : g.length < 12
      · left; exact ⟨.eob, by rw [headerP_shape h0]; simp [hg]⟩
      · right; exact ⟨v0, v1, w0, w1, g, h0, by omega⟩
    | [], _, h4 =>
      left; refine ⟨.eob, ?_⟩
      unfold headerP; rw [exactP_eq _ hi]; simp only [hp, if_true, protocolVersionP, ml]
      rw [u16leP_short (by rw [h4]; simp)]; exact restoreErr_eq _ _ hi
    | [_], _, h4 =>
      left; refine ⟨.eob, ?_⟩
      unfold headerP; rw [exactP_eq _ hi]; simp only [hp, if_true, protocolVersionP, ml]
      rw [u16leP_short (by rw [h4]; simp)]; exact restoreErr_eq _ _ hi
    | [v0, v1], _, h4 =>
      left; refine ⟨.eob, ?_⟩
      have h6 : s.drop (i + 4 + 2) = [] := by simpa using drop_add_of_eq h4 2
      unfold headerP; rw [exactP_eq _ hi]; simp only [hp, if_true, protocolVersionP, vendorIdP, ml]
      rw [u16leP_cons2 h4]; simp only []
      rw [u16leP_short (by rw [h6]; simp)]; exact restoreErr_eq _ _ hi
    | [v0, v1, w0], _, h4 =>
      left; refine ⟨.eob, ?_⟩
      have h6 : s.drop (i + 4 + 2) = [w0] := by simpa using drop_add_of_eq h4 2
      unfold headerP; rw [exactP_eq _ hi]; simp only [hp, if_true, protocolVersionP, vendorIdP, ml]
      rw [u16leP_cons2 h4]; simp only []
      rw [u16leP_short (by rw [h6]; simp)]; exact restoreErr_eq _ _ hi
  · left; refine ⟨.guard, ?_⟩
    unfold headerP; rw [exactP_eq _ hi]; simp [hp]

end Parsley.Rtps
