/-
  Prefix independence: every parser of the model looks only at the bytes from the cursor on.
  `p (pre ++ s) (|pre| + i)` is `p s i` with all positions shifted by `|pre|`.
-/
import Parsley.Lemmas.Obj
namespace Parsley.Shift
open Parsley Parsley.Prim Parsley.Obj

/-- shift every position of a located result and the cursor by `k` -/
def shift {α : Type} (k : Nat) : Res (Located α) × Nat → Res (Located α) × Nat
  | (.ok v, c) => (.ok ⟨v.val, k + v.start, k + v.stop⟩, k + c)
  | (.err e, c) => (.err e, k + c)
  | (.panic p, c) => (.panic p, k + c)

variable (pre s : Bytes) (i : Nat)

@[simp] theorem drop_pre : (pre ++ s).drop (pre.length + i) = s.drop i := by
  rw [← List.drop_drop, List.drop_left]

@[simp] theorem peek_pre : peek (pre ++ s) (pre.length + i) = peek s i := by
  unfold peek
  rw [List.getElem?_append_right (by omega)]
  congr 1; omega

@[simp] theorem allowed_pre (f : UInt8 → Bool) :
    allowed f (pre ++ s) (pre.length + i) = ((allowed f s i).1, pre.length + (allowed f s i).2) := by
  simp [allowed, Nat.add_assoc]

@[simp] theorem untilB_pre (f : UInt8 → Bool) :
    untilB f (pre ++ s) (pre.length + i) = ((untilB f s i).1, pre.length + (untilB f s i).2) := by
  simp [untilB]

@[simp] theorem startsWith_pre (tag : Bytes) : startsWith tag (pre ++ s) (pre.length + i) = startsWith tag s i := by
  simp [startsWith]

@[simp] theorem exact_pre (tag : Bytes) :
    exact tag (pre ++ s) (pre.length + i) = ((exact tag s i).1, pre.length + (exact tag s i).2) := by
  unfold exact
  simp only [startsWith_pre]
  split <;> simp [Nat.add_assoc]

theorem boolean_pre : boolean (pre ++ s) (pre.length + i) = shift pre.length (boolean s i) := by
  unfold boolean
  simp only [exact_pre]
  cases h1 : exact kwTrue s i with
  | mk b1 j1 =>
    cases b1 with
    | true => simp [shift]
    | false =>
      simp only
      cases h2 : exact kwFalse s i with
      | mk b2 j2 => cases b2 <;> simp [shift]

theorem null_pre : null (pre ++ s) (pre.length + i) = shift pre.length (null s i) := by
  unfold null
  simp only [exact_pre]
  cases h1 : exact kwNull s i with
  | mk b1 j1 => cases b1 <;> simp [shift]

theorem comment_pre : comment (pre ++ s) (pre.length + i) = shift pre.length (comment s i) := by
  unfold comment
  simp only [peek_pre]
  split
  · simp [shift]
  · have h := untilB_pre pre s (i + 1) (· == 10)
    rw [← Nat.add_assoc] at h
    rw [h]
    simp only [peek_pre]
    split <;> simp [shift, Nat.add_assoc]

theorem length_pre_sub (k : Nat) : (pre ++ s).length - (pre.length + k) = s.length - k := by
  simp only [List.length_append]; omega

theorem wsEOLLoop_pre (f : Nat) (e : Bool) :
    wsEOLLoop f (pre ++ s) (pre.length + i) e =
      (wsEOLLoop f s i e).map (fun r => (pre.length + r.1, r.2)) := by
  induction f generalizing i e with
  | zero => rfl
  | succ f ih =>
    unfold wsEOLLoop
    simp only [allowed_pre, peek_pre]
    split
    · rw [comment_pre]
      cases hc : comment s ((allowed isWsEol s i).2) with
      | mk r k =>
        cases r with
        | ok v => simp only [shift]; rw [ih]
        | err e' => simp [shift]
        | panic p => simp [shift]
    · simp

theorem wsEOL_pre (e : Bool) : wsEOL e (pre ++ s) (pre.length + i) = shift pre.length (wsEOL e s i) := by
  unfold wsEOL
  have hl : (pre ++ s).length + 1 - (pre.length + i) = s.length + 1 - i := by
    simp only [List.length_append]; omega
  rw [hl, wsEOLLoop_pre]
  cases wsEOLLoop (s.length + 1 - i) s i true with
  | none => simp [shift]
  | some r =>
    obtain ⟨j, em⟩ := r
    simp only [Option.map_some]
    split <;> simp [shift]

theorem signPrefix_pre : signPrefix (pre ++ s) (pre.length + i) =
    ((signPrefix s i).1, pre.length + (signPrefix s i).2) := by
  unfold signPrefix
  simp only [peek_pre]
  split
  · simp [Nat.add_assoc]
  · split <;> simp [Nat.add_assoc]

theorem integerP_pre : integerP (pre ++ s) (pre.length + i) = shift pre.length (integerP s i) := by
  unfold integerP
  rw [signPrefix_pre]
  simp only [allowed_pre, peek_pre]
  split
  · simp [shift]
  · split <;> simp [shift]

theorem realP_pre : realP (pre ++ s) (pre.length + i) = shift pre.length (realP s i) := by
  unfold realP
  rw [signPrefix_pre]
  simp only [allowed_pre, peek_pre]
  split
  · simp [shift]
  · split
    · simp [shift]
    · split
      · have h := allowed_pre pre s ((allowed isDigit s (signPrefix s i).2).2 + 1) isDigit
        rw [← Nat.add_assoc] at h
        rw [h]
        simp only
        split <;> simp [shift]
      · simp [shift]

theorem hexString_pre : hexString (pre ++ s) (pre.length + i) = shift pre.length (hexString s i) := by
  unfold hexString
  simp only [peek_pre]
  split
  · simp [shift]
  · have h := allowed_pre pre s (i + 1) (fun b => isHexDigit b || isHexWs b)
    rw [← Nat.add_assoc] at h
    rw [h]
    simp only [peek_pre]
    split <;> simp [shift, Nat.add_assoc]

theorem litLoop_shift (k : Nat) (rest : Bytes) (pos : Nat) (ls : Option Nat) (depth : Nat) (acc : Bytes) :
    litLoop rest (k + pos) (ls.map (k + ·)) depth acc =
      (litLoop rest pos ls depth acc).map (fun r => (r.1, k + r.2)) := by
  induction rest generalizing pos ls depth acc with
  | nil => rfl
  | cons b t ih =>
    have a1 : k + pos + 1 = k + (pos + 1) := by omega
    cases ls with
    | none =>
      conv => lhs; unfold litLoop
      conv => rhs; unfold litLoop
      simp only [Option.map_none, a1, Bool.false_eq_true, if_false]
      split
      · exact ih _ none _ _
      · split
        · split
          · simp
          · exact ih _ none _ _
        · split
          · exact ih _ (some pos) _ _
          · exact ih _ none _ _
    | some p =>
      have hc : (k + p + 1 == k + pos) = (p + 1 == pos) := by
        rw [Bool.eq_iff_iff]; simp only [beq_iff_eq]; omega
      conv => lhs; unfold litLoop
      conv => rhs; unfold litLoop
      simp only [Option.map_some, a1, hc]
      split
      · split
        · exact ih _ (some p) _ _
        · exact ih _ none _ _
      · split
        · split
          · exact ih _ (some p) _ _
          · split
            · simp
            · exact ih _ none _ _
        · split
          · split
            · exact ih _ none _ _
            · exact ih _ (some pos) _ _
          · exact ih _ (some p) _ _

theorem rawLitString_pre : rawLitString (pre ++ s) (pre.length + i) = shift pre.length (rawLitString s i) := by
  unfold rawLitString
  simp only [peek_pre]
  split
  · simp [shift]
  · have hd : (pre ++ s).drop (pre.length + i + 1) = s.drop (i + 1) := by
      rw [Nat.add_assoc]; exact drop_pre pre s (i + 1)
    rw [hd]
    have := litLoop_shift pre.length (s.drop (i + 1)) (i + 1) none 1 []
    simp only [Option.map_none] at this
    rw [Nat.add_assoc, this]
    cases litLoop (s.drop (i + 1)) (i + 1) none 1 [] with
    | none => simp [shift]
    | some r => simp [shift]

theorem nameP_pre : nameP (pre ++ s) (pre.length + i) = shift pre.length (nameP s i) := by
  unfold nameP
  simp only [peek_pre]
  split
  · simp [shift]
  · have h := untilB_pre pre s (i + 1) isNameTerm
    rw [← Nat.add_assoc] at h
    rw [h]
    simp only
    split <;> simp [shift]

/-! ### the object parser -/

/-- shift for results without a span -/
def shiftC {α : Type} (k : Nat) : Res α × Nat → Res α × Nat
  | (r, c) => (r, k + c)

theorem referenceP_pre : referenceP (pre ++ s) (pre.length + i) = shiftC pre.length (referenceP s i) := by
  unfold referenceP
  rw [integerP_pre]
  cases h1 : integerP s i with
  | mk r1 j =>
    cases r1 with
    | err e => simp [shift, shiftC]
    | panic p => simp [shift, shiftC]
    | ok num =>
      simp only [shift]
      split
      · simp [shiftC]
      · rw [wsEOL_pre]
        cases h2 : wsEOL true s j with
        | mk r2 j1 =>
          cases r2 with
          | err e => simp [shift, shiftC]
          | panic p => simp [shift, shiftC]
          | ok u =>
            simp only [shift]
            rw [integerP_pre]
            cases h3 : integerP s j1 with
            | mk r3 j2 =>
              cases r3 with
              | err e => simp [shift, shiftC]
              | panic p => simp [shift, shiftC]
              | ok gen =>
                simp only [shift]
                split
                · simp [shiftC]
                · rw [wsEOL_pre]
                  cases h4 : wsEOL true s j2 with
                  | mk r4 j3 =>
                    cases r4 with
                    | err e => simp [shift, shiftC]
                    | panic p => simp [shift, shiftC]
                    | ok u2 =>
                      simp only [shift, exact_pre]
                      cases h5 : exact [82] s j3 with
                      | mk b5 j4 => cases b5 <;> simp [shiftC]

theorem numberOrRef_pre : numberOrRef (pre ++ s) (pre.length + i) = shiftC pre.length (numberOrRef s i) := by
  unfold numberOrRef
  rw [realP_pre]
  cases h1 : realP s i with
  | mk r1 j =>
    cases r1 with
    | err e => simp [shift, shiftC]
    | panic p => simp [shift, shiftC]
    | ok r =>
      simp only [shift]
      split
      · simp [shiftC]
      · rw [wsEOL_pre]
        cases h2 : wsEOL false s j with
        | mk r2 j1 =>
          cases r2 with
          | err e => simp [shift, shiftC]
          | panic p => simp [shift, shiftC]
          | ok u =>
            simp only [shift]
            rw [integerP_pre]
            cases h3 : integerP s j1 with
            | mk r3 j2 =>
              cases r3 with
              | err e => simp [shift, shiftC]
              | panic p => simp [shift, shiftC]
              | ok g =>
                simp only [shift]
                rw [wsEOL_pre]
                cases h4 : wsEOL false s j2 with
                | mk r4 j3 =>
                  cases r4 with
                  | err e => simp [shift, shiftC]
                  | panic p => simp [shift, shiftC]
                  | ok u2 =>
                    simp only [shift, startsWith_pre]
                    have hp : peek (pre ++ s) (pre.length + j3 + 1) = peek s (j3 + 1) := by
                      rw [Nat.add_assoc]; exact peek_pre pre s (j3 + 1)
                    rw [hp]
                    split
                    · rw [referenceP_pre]
                      cases h5 : referenceP s i with
                      | mk r5 j4 => cases r5 <;> simp [shiftC]
                    · simp [shiftC]

/-- shift for an element-parser result (located value, cursor, context depth) -/
def shiftR (k : Nat) : R × Nat → R × Nat
  | (r, cur) => (shift k r, cur)

/-- shift for loop / dispatcher results (unlocated value, cursor, context depth) -/
def shiftL {α : Type} (k : Nat) : (Res α × Nat) × Nat → (Res α × Nat) × Nat
  | ((r, c), cur) => ((r, k + c), cur)

def ElemPre (el : Elem) (pre : Bytes) : Prop :=
  ∀ (cur : Nat) (s : Bytes) (i : Nat), el cur (pre ++ s) (pre.length + i) = shiftR pre.length (el cur s i)

theorem arrayLoop_pre (el : Elem) (hel : ElemPre el pre) (f cur : Nat) (acc : List Obj) :
    arrayLoop el f cur (pre ++ s) (pre.length + i) acc = shiftL pre.length (arrayLoop el f cur s i acc) := by
  induction f generalizing i cur acc with
  | zero => rfl
  | succ f ih =>
    unfold arrayLoop
    rw [wsEOL_pre]
    cases h1 : wsEOL true s i with
    | mk r1 j =>
      cases r1 with
      | err e => simp [shift, shiftL]
      | panic p => simp [shift, shiftL]
      | ok u =>
        simp only [shift, exact_pre]
        cases h2 : exact [93] s j with
        | mk b2 k2 =>
          cases b2 with
          | true => simp [shiftL]
          | false =>
            simp only
            rw [hel]
            cases h3 : el cur s j with
            | mk r3 cur' =>
              obtain ⟨r3, k3⟩ := r3
              cases r3 with
              | ok o => simp only [shiftR, shift]; rw [ih]
              | err e => simp [shiftR, shift, shiftL]
              | panic p => simp [shiftR, shift, shiftL]

theorem dictLoop_pre (el : Elem) (hel : ElemPre el pre) (f cur : Nat) (names : List Bytes)
    (map : List (Bytes × Obj)) :
    dictLoop el f cur (pre ++ s) (pre.length + i) names map =
      shiftL pre.length (dictLoop el f cur s i names map) := by
  induction f generalizing i cur names map with
  | zero => rfl
  | succ f ih =>
    unfold dictLoop
    rw [wsEOL_pre]
    cases h1 : wsEOL true s i with
    | mk r1 j =>
      cases r1 with
      | err e => simp [shift, shiftL]
      | panic p => simp [shift, shiftL]
      | ok u =>
        simp only [shift, exact_pre]
        cases h2 : exact [62, 62] s j with
        | mk b2 k2 =>
          cases b2 with
          | true => simp [shiftL]
          | false =>
            simp only
            rw [nameP_pre]
            cases h3 : nameP s j with
            | mk r3 k =>
              cases r3 with
              | err e => simp [shift, shiftL]
              | panic p => simp [shift, shiftL]
              | ok key =>
                simp only [shift]
                split
                · simp [shiftL]
                · rw [wsEOL_pre]
                  cases h4 : wsEOL true s k with
                  | mk r4 k1 =>
                    cases r4 with
                    | err e => simp [shift, shiftL]
                    | panic p => simp [shift, shiftL]
                    | ok u2 =>
                      simp only [shift]
                      rw [hel]
                      cases h5 : el cur s k1 with
                      | mk r5 cur' =>
                        obtain ⟨r5, k2'⟩ := r5
                        cases r5 with
                        | err e => simp [shiftR, shift, shiftL]
                        | panic p => simp [shiftR, shift, shiftL]
                        | ok o =>
                          simp only [shiftR, shift]
                          split <;> rw [ih]

theorem liftTok_shift {α : Type} (f : α → Obj) (cur k : Nat) (r : Res (Located α) × Nat) :
    liftTok f cur (shift k r) = shiftL k (liftTok f cur r) := by
  obtain ⟨r, c⟩ := r
  cases r <;> rfl

theorem parseInternal_pre (el : Elem) (hel : ElemPre el pre) (cur : Nat) :
    parseInternal el cur (pre ++ s) (pre.length + i) = shiftL pre.length (parseInternal el cur s i) := by
  unfold parseInternal
  simp only [peek_pre]
  have hfuel : (pre ++ s).length + 1 - (pre.length + i) = s.length + 1 - i := by
    simp only [List.length_append]; omega
  cases hp : peek s i with
  | none => simp [shiftL]
  | some c =>
    simp only
    split
    · rw [boolean_pre, liftTok_shift]
    · split
      · rw [null_pre, liftTok_shift]
      · split
        · rw [rawLitString_pre, liftTok_shift]
        · split
          · rw [comment_pre, liftTok_shift]
          · split
            · rw [nameP_pre, liftTok_shift]
            · split
              · rw [hfuel, Nat.add_assoc, arrayLoop_pre pre s (i + 1) el hel]
                cases arrayLoop el (s.length + 1 - i) cur s (i + 1) [] with
                | mk r cur' =>
                  obtain ⟨r, k⟩ := r
                  cases r <;> simp [shiftL]
              · split
                · have hp1 : peek (pre ++ s) (pre.length + i + 1) = peek s (i + 1) := by
                    rw [Nat.add_assoc]; exact peek_pre pre s (i + 1)
                  rw [hp1]
                  split
                  · rw [hfuel, Nat.add_assoc, dictLoop_pre pre s (i + 2) el hel]
                    cases dictLoop el (s.length + 1 - i) cur s (i + 2) [] [] with
                    | mk r cur' =>
                      obtain ⟨r, k⟩ := r
                      cases r <;> simp [shiftL]
                  · rw [hexString_pre, liftTok_shift]
                · split
                  · simp [shiftL]
                  · rw [numberOrRef_pre]
                    cases numberOrRef s i with
                    | mk r k => simp [shiftC, shiftL]

theorem leaveObj_shift (k : Nat) (x : R × Nat) : leaveObj (shiftR k x) = shiftR k (leaveObj x) := by
  obtain ⟨⟨r, c⟩, cur⟩ := x
  by_cases h : cur = 0
  · subst h
    cases r <;> simp [shiftR, leaveObj, shift]
  · have hb : (cur == 0) = false := by simp [h]
    cases r <;> simp [shiftR, leaveObj, shift, hb]

theorem objParse_pre (el : Elem) (hel : ElemPre el pre) (cur1 : Nat) :
    objParse el cur1 (pre ++ s) (pre.length + i) = shiftR pre.length (objParse el cur1 s i) := by
  unfold objParse
  rw [wsEOL_pre]
  cases h1 : wsEOL true s i with
  | mk r1 st =>
    cases r1 with
    | err e => simp [shift, shiftR]
    | panic p => simp [shift, shiftR]
    | ok u =>
      simp only [shift]
      rw [parseInternal_pre pre s st el hel]
      cases parseInternal el cur1 s st with
      | mk r cur' =>
        obtain ⟨r, k⟩ := r
        cases r <;> simp [shiftL, shiftR, shift]

/-- **Prefix independence of `parse_pdf_obj`**: parsing at cursor `|pre| + i` of `pre ++ s` is
    parsing at cursor `i` of `s`, with every reported position shifted by `|pre|`. -/
theorem parseObjB_pre (max : Nat) (b : Nat) : ElemPre (parseObjB max b) pre := by
  induction b with
  | zero =>
    intro cur s i
    unfold parseObjB
    split <;> simp [shiftR, shift]
  | succ b ih =>
    intro cur s i
    unfold parseObjB
    split
    · simp [shiftR, shift]
    · simp only
      rw [objParse_pre pre s i (parseObjB max b) ih, leaveObj_shift]

theorem parseObj_pre (c : Depth) :
    parseObj c (pre ++ s) (pre.length + i) =
      (shift pre.length (parseObj c s i).1, (parseObj c s i).2) := by
  unfold parseObj
  rw [parseObjB_pre pre c.max (c.max - c.cur) c.cur s i]
  cases parseObjB c.max (c.max - c.cur) c.cur s i with
  | mk r cur' => rfl
