/-
  Prefix independence: every parser of the model looks only at the bytes from the cursor on.
  `p (pre ++ s) (|pre| + i)` is `p s i` with all positions shifted by `|pre|`.
-/
import Parsley.Lemmas.Obj
namespace Parsley.Shift
open Parsley Parsley.Prim Parsley.Obj

/-- shift every position of a located result and the cursor by `k` -/
def shift {α : Type} (k : Nat) : Res (Located α) × Nat → Res (Located α) × Nat
  | (.ok v, c) => (.ok ⟨v.val, k + v.start, k + v.stop⟩, k + c)
  | (.err e, c) => (.err e, k + c)
  | (.panic p, c) => (.panic p, k + c)

variable (pre s : Bytes) (i : Nat)

@[simp] theorem drop_pre : (pre ++ s).drop (pre.length + i) = s.drop i := by
  rw [← List.drop_drop, List.drop_left]

@[simp] theorem peek_pre : peek (pre ++ s) (pre.length + i) = peek s i := by
  unfold peek
  rw [List.getElem?_append_right (by omega)]
  congr 1; omega

@[simp] theorem allowed_pre (f : UInt8 → Bool) :
    allowed f (pre ++ s) (pre.length + i) = ((allowed f s i).1, pre.length + (allowed f s i).2) := by
  simp [allowed, Nat.add_assoc]

@[simp] theorem untilB_pre (f : UInt8 → Bool) :
    untilB f (pre ++ s) (pre.length + i) = ((untilB f s i).1, pre.length + (untilB f s i).2) := by
  simp [untilB]

@[simp] theorem startsWith_pre (tag : Bytes) : startsWith tag (pre ++ s) (pre.length + i) = startsWith tag s i := by
  simp [startsWith]

@[simp] theorem exact_pre (tag : Bytes) :
    exact tag (pre ++ s) (pre.length + i) = ((exact tag s i).1, pre.length + (exact tag s i).2) := by
  unfold exact
  simp only [startsWith_pre]
  split <;> simp [Nat.add_assoc]

theorem boolean_pre : boolean (pre ++ s) (pre.length + i) = shift pre.length (boolean s i) := by
  unfold boolean
  simp only [exact_pre]
  cases h1 : exact kwTrue s i with
  | mk b1 j1 =>
    cases b1 with
    | true => simp [shift]
    | false =>
      simp only
      cases h2 : exact kwFalse s i with
      | mk b2 j2 => cases b2 <;> simp [shift]

theorem null_pre : null (pre ++ s) (pre.length + i) = shift pre.length (null s i) := by
  unfold null
  simp only [exact_pre]
  cases h1 : exact kwNull s i with
  | mk b1 j1 => cases b1 <;> simp [shift]

theorem comment_pre : comment (pre ++ s) (pre.length + i) = shift pre.length (comment s i) := by
  unfold comment
  simp only [peek_pre]
  split
  · simp [shift]
  · have h := untilB_pre pre s (i + 1) (· == 10)
    rw [← Nat.add_assoc] at h
    rw [h]
    simp only [peek_pre]
    split <;> simp [shift, Nat.add_assoc]
