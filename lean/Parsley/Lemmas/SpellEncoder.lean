/-
  C02 — the executable encoder `spell` of Spec/Spelling.lean (the generator the driver uses)
  produces legal spellings in the sense of the relational spec `Spells` of Props/C02Struct.lean,
  for ALL values in its domain `wfDeep` (Spec/SpellingWF.lean) — scalars, references, arrays and
  dictionaries nested to any depth — and EVERY choice stream:

      spell_is_Spells :  wfDeep v → depth v ≤ d → Spells d (canon v) (spell v ch).1

  where `canon v` is `v` with every dictionary as a sorted map (the encoder writes the entries in
  the order given; entry order is one of the freedoms of the statement), and `canon v = v` for a
  value whose dictionaries are sorted (`canon_sorted`).

  Ingredients: the byte-level separator function `sepFor` (decides on the last/first BYTE) agrees
  with the value-kind rule of the relational spec (`Spells.starts_regular`, `Spells.ends_regular`);
  `Spells` is monotone in the depth index (`Spells.mono`); whitespace written after a dictionary
  value belongs to the next entry (or to the closing `>>`); the encoder's optional extra entry
  `/#01nul null` is a written entry with a null value under a key that has no non-null value yet.
-/
import Parsley.Props.C02Struct
import Parsley.Spec.SpellingWF
namespace Parsley.C02
open Parsley Parsley.Prim Parsley.Obj Parsley.Spelling

/-! ## (1) separators: bytes vs. value kinds -/

theorem endsRegular_append (a b : Bytes) (hb : b ≠ []) : endsRegular (a ++ b) = endsRegular b := by
  unfold endsRegular
  rw [List.getLast?_append]
  cases h : b.getLast? with
  | none => exact absurd (List.getLast?_eq_none_iff.mp h) hb
  | some x => rfl

theorem endsRegular_all (b : Bytes) (hne : b ≠ []) (h : ∀ y ∈ b, isRegular y = true) : endsRegular b = true := by
  unfold endsRegular
  rw [List.getLast?_eq_some_getLast hne]
  have := h _ (List.getLast_mem hne)
  simp only [isRegularByte, Bool.or_eq_true]
  left; exact this

theorem Spells.starts_regular {d : Nat} {v : Obj} {tok : Bytes} (h : Spells d v tok) (hs : startsReg v = true) :
    startsRegular tok = true := by
  have dig : ∀ (y : UInt8) (t : Bytes), isDigit y = true → startsRegular (y :: t) = true :=
    fun y t hy => (digit_facts y hy).2.1
  cases h with
  | null => decide
  | tru => decide
  | fls => decide
  | int d sg ds hne hds hfit =>
    cases sg with
    | none =>
      cases ds with
      | nil => exact absurd rfl hne
      | cons y t => exact dig y t (hds y List.mem_cons_self)
    | plus => rfl
    | minus => rfl
  | real d sg ds fs hfne hds hfs hfit hden =>
    cases sg with
    | none =>
      cases ds with
      | nil => rfl
      | cons y t => exact dig y _ (hds y List.mem_cons_self)
    | plus => rfl
    | minus => rfl
  | name d b ch hb => simp [startsReg] at hs
  | lit d body hb => simp [startsReg] at hs
  | hex d body hb => simp [startsReg] at hs
  | ref d ds1 w1 ds2 w2 h1ne h1 =>
    cases ds1 with
    | nil => exact absurd rfl h1ne
    | cons y t => exact dig y _ (h1 y List.mem_cons_self)
  | arr d xs body h => simp [startsReg] at hs
  | dict d ents body sep h hsep => simp [startsReg] at hs

theorem Spells.ends_regular {d : Nat} {v : Obj} {tok : Bytes} (h : Spells d v tok) (hs : endsReg v = true) :
    endsRegular tok = true := by
  have digs : ∀ (ds : Bytes), ds ≠ [] → (∀ y ∈ ds, isDigit y = true) → endsRegular ds = true :=
    fun ds hne hds => endsRegular_all ds hne (fun y hy => (digit_facts y (hds y hy)).2.1)
  cases h with
  | null => decide
  | tru => decide
  | fls => decide
  | int d sg ds hne hds hfit => rw [endsRegular_append _ _ hne]; exact digs ds hne hds
  | real d sg ds fs hfne hds hfs hfit hden => rw [endsRegular_append _ _ hfne]; exact digs fs hfne hfs
  | name d b ch hb =>
    by_cases hnb : (nameBody b ch).1 = []
    · rw [hnb]; decide
    · have : (47 :: (nameBody b ch).1) = [47] ++ (nameBody b ch).1 := rfl
      rw [this, endsRegular_append _ _ hnb]
      exact endsRegular_all _ hnb (fun y hy => by simp [isRegular, nameBody_regular b ch y hy])
  | lit d body hb => simp [endsReg] at hs
  | hex d body hb => simp [endsReg] at hs
  | ref d ds1 w1 ds2 w2 h1ne h1 =>
    have : ds1 ++ (w1 ++ (ds2 ++ (w2 ++ [82]))) = (ds1 ++ (w1 ++ (ds2 ++ w2))) ++ [82] := by simp
    rw [this, endsRegular_append _ _ (by simp)]; decide
  | arr d xs body h => simp [endsReg] at hs
  | dict d ents body sep h hsep => simp [endsReg] at hs

/-! ## (2) the depth index is an upper bound -/

mutual
theorem Spells.mono : ∀ {d : Nat} {v : Obj} {tok : Bytes}, Spells d v tok → ∀ d', d ≤ d' → Spells d' v tok
  | _, _, _, .null d, d', h => by obtain ⟨e, rfl⟩ : ∃ e, d' = e + 1 := ⟨d' - 1, by omega⟩; exact .null e
  | _, _, _, .tru d, d', h => by obtain ⟨e, rfl⟩ : ∃ e, d' = e + 1 := ⟨d' - 1, by omega⟩; exact .tru e
  | _, _, _, .fls d, d', h => by obtain ⟨e, rfl⟩ : ∃ e, d' = e + 1 := ⟨d' - 1, by omega⟩; exact .fls e
  | _, _, _, .int d sg ds a b c, d', h => by obtain ⟨e, rfl⟩ : ∃ e, d' = e + 1 := ⟨d' - 1, by omega⟩; exact .int e sg ds a b c
  | _, _, _, .real d sg ds fs a b c f g, d', h => by
    obtain ⟨e, rfl⟩ : ∃ e, d' = e + 1 := ⟨d' - 1, by omega⟩; exact .real e sg ds fs a b c f g
  | _, _, _, .name d b ch hb, d', h => by obtain ⟨e, rfl⟩ : ∃ e, d' = e + 1 := ⟨d' - 1, by omega⟩; exact .name e b ch hb
  | _, _, _, .lit d b hb, d', h => by obtain ⟨e, rfl⟩ : ∃ e, d' = e + 1 := ⟨d' - 1, by omega⟩; exact .lit e b hb
  | _, _, _, .hex d b hb, d', h => by obtain ⟨e, rfl⟩ : ∃ e, d' = e + 1 := ⟨d' - 1, by omega⟩; exact .hex e b hb
  | _, _, _, .ref d ds1 w1 ds2 w2 a1 a2 a3 a4 a5 a6 a7 a8 a9 a10, d', h => by
    obtain ⟨e, rfl⟩ : ∃ e, d' = e + 1 := ⟨d' - 1, by omega⟩; exact .ref e ds1 w1 ds2 w2 a1 a2 a3 a4 a5 a6 a7 a8 a9 a10
  | _, _, _, .arr d xs body he, d', h => by
    obtain ⟨e, rfl⟩ : ∃ e, d' = e + 1 := ⟨d' - 1, by omega⟩
    exact .arr e xs body (SpellsElems.mono he e (by omega))
  | _, _, _, .dict d ents body sep he hsep, d', h => by
    obtain ⟨e, rfl⟩ : ∃ e, d' = e + 1 := ⟨d' - 1, by omega⟩
    exact .dict e ents body sep (SpellsEntries.mono he e (by omega)) hsep
theorem SpellsElems.mono : ∀ {d : Nat} {p : Bool} {xs : List Obj} {body : Bytes}, SpellsElems d p xs body →
    ∀ d', d ≤ d' → SpellsElems d' p xs body
  | _, _, _, _, .nil d p sep hsep, d', _ => .nil d' p sep hsep
  | _, _, _, _, .cons d p x xs sep sx r hsep hx hreq hr, d', h =>
    .cons d' p x xs sep sx r hsep (Spells.mono hx d' h) hreq (SpellsElems.mono hr d' h)
theorem SpellsEntries.mono : ∀ {d : Nat} {names : List Bytes} {ents : List (Bytes × Obj)} {body : Bytes},
    SpellsEntries d names ents body → ∀ d', d ≤ d' → SpellsEntries d' names ents body
  | _, _, _, _, .nil d names, d', _ => .nil d' names
  | _, _, _, _, .cons d names k v ents sep1 ch sep2 sv r hsep1 hk hnew hsep2 hv hreq hr, d', h =>
    .cons d' names k v ents sep1 ch sep2 sv r hsep1 hk hnew hsep2 (Spells.mono hv d' h) hreq (SpellsEntries.mono hr d' h)
end

/-! ## (3) the encoder's equations -/

theorem wsOpt_run (c : Ch) : WsRun (wsOpt c).1 := by
  unfold wsOpt; exact wsRun_run _ _

theorem sepFor_run (l r : Bytes) (c : Ch) :
    WsRun (sepFor l r c).1 ∧ (endsRegular l = true → startsRegular r = true → (sepFor l r c).1 ≠ []) := by
  unfold sepFor
  by_cases h : (endsRegular l && startsRegular r) = true
  · rw [if_pos h]; exact ⟨(wsReq_run c).1, fun _ _ => (wsReq_run c).2⟩
  · rw [if_neg h]
    refine ⟨wsOpt_run c, fun h1 h2 => ?_⟩
    rw [h1, h2] at h; exact absurd rfl h

theorem spell_arr (xs : List Obj) (c : Ch) :
    (spell (.arr xs) c).1 = 91 :: ((wsOpt c).1 ++ (spellElems xs [91] (wsOpt c).2).1) := by
  simp only [spell]; rfl

theorem spellElems_nil (prev : Bytes) (c : Ch) : (spellElems [] prev c).1 = [93] := by
  simp only [spellElems]

theorem spellElems_cons (x : Obj) (t : List Obj) (prev : Bytes) (c : Ch) :
    (spellElems (x :: t) prev c).1 =
      (sepFor prev (spell x c).1 (spell x c).2).1 ++ ((spell x c).1 ++
        (spellElems t (spell x c).1 (sepFor prev (spell x c).1 (spell x c).2).2).1) := by
  simp only [spellElems, List.append_assoc]

theorem spell_dict (kvs : List (Bytes × Obj)) (c : Ch) :
    (spell (.dict kvs) c).1 = 60 :: 60 :: ((wsOpt c).1 ++ (spellEntries kvs (wsOpt c).2).1) := by
  simp only [spell]; rfl

theorem spellEntries_nil (c : Ch) : (spellEntries [] c).1 = (wsOpt c).1 ++ [62, 62] := by
  unfold spellEntries; rfl

def nulCh : Ch := [0, 0, 0, 1, 0, 0, 1, 0, 0, 1, 0, 0]

theorem extra_eq : bs "/#01nul" ++ [32] ++ bs "null" ++ [10] =
    47 :: (nameBody nulKey nulCh).1 ++ ([32] ++ (kwNull ++ [10])) := by decide +kernel

theorem spellEntries_cons (k : Bytes) (v : Obj) (t : List (Bytes × Obj)) (c : Ch) :
    ∃ (c1 c2 c3 c4 : Ch) (ex : Bool),
      (spellEntries ((k, v) :: t) c).1 =
        (if ex then 47 :: (nameBody nulKey nulCh).1 ++ ([32] ++ (kwNull ++ [10])) else []) ++
          (47 :: (nameBody k c).1 ++ ((sepFor (47 :: (nameBody k c).1) (spell v c1).1 c2).1 ++
            ((spell v c1).1 ++ ((wsOpt c3).1 ++ (spellEntries t c4).1)))) := by
  refine ⟨(nameBody k c).2, (spell v (nameBody k c).2).2,
    (sepFor (47 :: (nameBody k c).1) (spell v (nameBody k c).2).1 (spell v (nameBody k c).2).2).2,
    (pick (wsOpt (sepFor (47 :: (nameBody k c).1) (spell v (nameBody k c).2).1 (spell v (nameBody k c).2).2).2).2 5).2,
    (pick (wsOpt (sepFor (47 :: (nameBody k c).1) (spell v (nameBody k c).2).1 (spell v (nameBody k c).2).2).2).2 5).1 == 1, ?_⟩
  rw [← extra_eq]
  conv => lhs; unfold spellEntries
  simp only [List.append_assoc, List.cons_append]

theorem SpellsElems.prepend {d : Nat} {p : Bool} {xs : List Obj} {body : Bytes} (h : SpellsElems d p xs body)
    (w : Bytes) (hw : WsRun w) : SpellsElems d p xs (w ++ body) := by
  cases h with
  | nil d p sep hsep => rw [← List.append_assoc]; exact SpellsElems.nil d p (w ++ sep) (hw.append hsep)
  | cons d p x xs sep sx r hsep hx hreq hr =>
    rw [← List.append_assoc]
    exact SpellsElems.cons d p x xs (w ++ sep) sx r (hw.append hsep) hx
      (fun a b => by simp [hreq a b]) hr

theorem depth_pos (v : Obj) : 1 ≤ depth v := by
  cases v <;> simp [depth] <;> omega

theorem endsReg_canon (v : Obj) : endsReg (canon v) = endsReg v := by cases v <;> simp [canon, endsReg]
theorem startsReg_canon (v : Obj) : startsReg (canon v) = startsReg v := by cases v <;> simp [canon, startsReg]
theorem isNullV_canon (v : Obj) : isNullV (canon v) = isNullO v := by cases v <;> simp [canon, isNullV, isNullO]


theorem natmax_le {a b d : Nat} (h : Nat.max a b ≤ d) : a ≤ d ∧ b ≤ d := by
  simp only [Nat.max_def] at h
  split at h <;> omega

theorem ws10 : WsRun [10] := WsRun.ws 10 [] (by decide) WsRun.nil

/-! ## (4) the encoder produces legal spellings -/

mutual
/-- **`spell_is_Spells`**: for every value in the encoder's domain and every choice stream, the
    encoder's output is a legal spelling of the (canonical form of the) value, at every depth index
    from the value's nesting depth on. -/
theorem spell_is_Spells : ∀ (v : Obj) (c : Ch) (d : Nat), wfDeep v = true → depth v ≤ d →
    Spells d (canon v) (spell v c).1
  | .null, c, d, _, hd => (spell_is_Spells_partial .null c rfl trivial).mono d (by simpa [depth] using hd)
  | .bool b, c, d, _, hd => (spell_is_Spells_partial (.bool b) c rfl trivial).mono d (by simpa [depth] using hd)
  | .int n, c, d, hwf, hd =>
    (spell_is_Spells_partial (.int n) c (by simpa [wf, wfDeep] using hwf) trivial).mono d (by simpa [depth] using hd)
  | .real n k, c, d, hwf, hd =>
    (spell_is_Spells_partial (.real n k) c (by simpa [wf, wfDeep] using hwf) trivial).mono d (by simpa [depth] using hd)
  | .str b, c, d, _, hd => (spell_is_Spells_partial (.str b) c rfl trivial).mono d (by simpa [depth] using hd)
  | .name b, c, d, hwf, hd =>
    (spell_is_Spells_partial (.name b) c (by simpa [wf, wfDeep] using hwf) trivial).mono d (by simpa [depth] using hd)
  | .ref n g, c, d, hwf, hd => by
    simp only [wfDeep, Bool.and_eq_true, decide_eq_true_eq] at hwf
    exact (spell_is_Spells_partial (.ref n g) c (by simpa [wf] using hwf.2) (by simp only [encSimple, i64Max]; exact hwf.1)).mono d
      (by simpa [depth] using hd)
  | .comment b, _, _, hwf, _ => by simp [wfDeep] at hwf
  | .stream kvs sc, _, _, hwf, _ => by simp [wfDeep] at hwf
  | .arr xs, c, d, hwf, hd => by
    obtain ⟨e, rfl⟩ : ∃ e, d = e + 1 := ⟨d - 1, by have := depth_pos (.arr xs); omega⟩
    have hdl : depthList xs ≤ e := by simp only [depth] at hd; omega
    have := spellElems_is_Spells xs [91] (wsOpt c).2 e false (by simpa [wfDeep] using hwf) hdl (fun h => by cases h)
    rw [spell_arr]
    simp only [canon]
    exact Spells.arr e _ _ (this.prepend _ (wsOpt_run c))
  | .dict kvs, c, d, hwf, hd => by
    obtain ⟨e, rfl⟩ : ∃ e, d = e + 1 := ⟨d - 1, by have := depth_pos (.dict kvs); omega⟩
    have hdl : depthKvs kvs ≤ e := by simp only [depth] at hd; omega
    obtain ⟨ents, body, sep, heq, hsep, hents, hmap⟩ :=
      spellEntries_is_Spells kvs (wsOpt c).2 e [] (wsOpt c).1 (by simpa [wfDeep] using hwf) hdl (wsOpt_run c)
        (by simp) (by simp)
    rw [spell_dict, heq]
    simp only [canon]
    rw [← hmap []]
    exact Spells.dict e ents body sep hents hsep
/-- the encoder's element list after a token `prev`, whose last byte is regular if `p` says so -/
theorem spellElems_is_Spells : ∀ (xs : List Obj) (prev : Bytes) (c : Ch) (d : Nat) (p : Bool),
    wfDeepList xs = true → depthList xs ≤ d → (p = true → endsRegular prev = true) →
    SpellsElems d p (canonList xs) (spellElems xs prev c).1
  | [], prev, c, d, p, _, _, _ => by
    rw [spellElems_nil]
    simp only [canonList]
    exact SpellsElems.nil d p [] WsRun.nil
  | x :: t, prev, c, d, p, hwf, hd, hp => by
    simp only [wfDeepList, Bool.and_eq_true] at hwf
    obtain ⟨hdx, hdt⟩ := natmax_le (by simpa only [depthList] using hd)
    have hx := spell_is_Spells x c d hwf.1 hdx
    obtain ⟨hs1, hs2⟩ := sepFor_run prev (spell x c).1 (spell x c).2
    rw [spellElems_cons]
    simp only [canonList]
    exact SpellsElems.cons d p (canon x) (canonList t) _ _ _ hs1 hx
      (fun hp1 hsr => hs2 (hp hp1) (hx.starts_regular hsr))
      (spellElems_is_Spells t (spell x c).1 _ d (endsReg (canon x)) hwf.2 hdt (fun he => hx.ends_regular he))
/-- the encoder's entry list after the whitespace `lead`, when `names` already have a non-null
    value: the written entries `ents` (the encoder's extra null entries included), the whitespace
    before `>>`, and the map the written entries denote -/
theorem spellEntries_is_Spells : ∀ (kvs : List (Bytes × Obj)) (c : Ch) (d : Nat) (names : List Bytes) (lead : Bytes),
    wfDeepKvs kvs = true → depthKvs kvs ≤ d → WsRun lead → (∀ q ∈ kvs, q.1 ∉ names) →
    (kvs ≠ [] → nulKey ∉ names) →
    ∃ (ents : List (Bytes × Obj)) (body sep : Bytes),
      lead ++ (spellEntries kvs c).1 = body ++ (sep ++ [62, 62]) ∧ WsRun sep ∧
      SpellsEntries d names ents body ∧ ∀ map, accMap map ents = insAll map (canonKvs kvs)
  | [], c, d, names, lead, _, _, hl, _, _ => by
    refine ⟨[], [], lead ++ (wsOpt c).1, ?_, hl.append (wsOpt_run c), SpellsEntries.nil d names, fun map => ?_⟩
    · rw [spellEntries_nil]; simp
    · simp [accMap, insAll, canonKvs]
  | (k, v) :: t, c, d, names, lead, hwf, hd, hl, hdisj, hnul => by
    obtain ⟨c1, c2, c3, c4, ex, heq⟩ := spellEntries_cons k v t c
    simp only [wfDeepKvs, Bool.and_eq_true] at hwf
    obtain ⟨⟨⟨⟨⟨hk, hv⟩, hnn⟩, hfresh⟩, hlast⟩, hwt⟩ := hwf
    obtain ⟨hdv, hdt⟩ := natmax_le (by simpa only [depthKvs] using hd)
    have h1 : 1 ≤ d := Nat.le_trans (depth_pos v) hdv
    have hsv := spell_is_Spells v c1 d hv hdv
    obtain ⟨hs1, hs2⟩ := sepFor_run (47 :: (nameBody k c).1) (spell v c1).1 c2
    have hkn : k ∉ names := hdisj (k, v) (by simp)
    have hnv : isNullV (canon v) = false := by rw [isNullV_canon]; simpa using hnn
    have hdisj' : ∀ q ∈ t, q.1 ∉ k :: names := by
      intro q hq hmem
      rcases List.mem_cons.mp hmem with h | h
      · have := List.all_eq_true.mp hfresh q hq
        simp [h] at this
      · exact hdisj q (List.mem_cons_of_mem _ hq) h
    have hnul' : t ≠ [] → nulKey ∉ k :: names := by
      intro hne hmem
      rcases List.mem_cons.mp hmem with h | h
      · cases t with
        | nil => exact hne rfl
        | cons a t' => simp [h] at hlast
      · exact hnul (by simp) h
    obtain ⟨ents', body', sep', heq', hsep', hents', hmap'⟩ :=
      spellEntries_is_Spells t c4 d (k :: names) (wsOpt c3).1 hwt hdt (wsOpt_run c3) hdisj' hnul'
    have hkeyEnds : endsRegular (47 :: (nameBody k c).1) = true := (Spells.name 0 k c hk).ends_regular rfl
    have entry : ∀ sep1, WsRun sep1 → SpellsEntries d names ((k, canon v) :: ents')
        (sep1 ++ (47 :: (nameBody k c).1 ++ ((sepFor (47 :: (nameBody k c).1) (spell v c1).1 c2).1 ++
          ((spell v c1).1 ++ body')))) := fun sep1 h =>
      SpellsEntries.cons d names k (canon v) ents' sep1 c _ _ body' h hk hkn hs1 hsv
        (fun hsr => hs2 hkeyEnds (hsv.starts_regular hsr)) (by rw [hnv]; exact hents')
    have hmap : ∀ map, accMap map ((k, canon v) :: ents') = insAll map (canonKvs ((k, v) :: t)) := by
      intro map
      simp only [accMap, canonKvs, insAll, hnv]
      exact hmap' _
    rw [heq, heq']
    cases ex with
    | false =>
      refine ⟨(k, canon v) :: ents', _, sep', ?_, hsep', entry lead hl, hmap⟩
      simp only [Bool.false_eq_true, if_false, List.append_assoc, List.cons_append, List.nil_append]
    | true =>
      have hextra := SpellsEntries.cons d names nulKey .null ((k, canon v) :: ents') lead nulCh [32] kwNull _
        hl (by decide) (hnul (by simp)) ws32 ((Spells.null 0).mono d h1) (fun _ => by simp) (entry [10] ws10)
      refine ⟨(nulKey, .null) :: (k, canon v) :: ents', _, sep', ?_, hsep', hextra, fun map => ?_⟩
      · simp only [if_true, List.append_assoc, List.cons_append, List.nil_append]
      · rw [← hmap map]; rfl
end

/-! ## (5) sorted values are their own canonical form -/

theorem bytesLt_asymm : ∀ (a b : Bytes), bytesLt a b = true → bytesLt b a = false
  | [], [], h => by simp [bytesLt] at h
  | [], _ :: _, _ => by simp [bytesLt]
  | _ :: _, [], h => by simp [bytesLt] at h
  | x :: s, y :: t, h => by
    unfold bytesLt at h ⊢
    by_cases h1 : x < y
    · have h2 : ¬ y < x := by
        rw [UInt8.lt_iff_toNat_lt] at h1 ⊢; omega
      simp [h1, h2]
    · by_cases h2 : y < x
      · simp [h1, h2] at h
      · simp only [h1, h2, if_false] at h ⊢
        exact bytesLt_asymm s t h

theorem dictInsert_last (k : Bytes) (v : Obj) : ∀ (map : List (Bytes × Obj)),
    (∀ q ∈ map, bytesLt q.1 k = true) → dictInsert k v map = map ++ [(k, v)]
  | [], _ => rfl
  | (k', v') :: t, h => by
    have h1 : bytesLt k' k = true := h (k', v') (by simp)
    have h2 : bytesLt k k' = false := bytesLt_asymm k' k h1
    simp only [dictInsert, h1, h2, Bool.false_eq_true, if_false, if_true, List.cons_append]
    rw [dictInsert_last k v t (fun q hq => h q (List.mem_cons_of_mem _ hq))]

theorem insAll_sorted : ∀ (kvs map : List (Bytes × Obj)), sortedDeepKvs kvs = true →
    (∀ q ∈ map, ∀ p ∈ kvs, bytesLt q.1 p.1 = true) → insAll map kvs = map ++ kvs
  | [], map, _, _ => by simp [insAll]
  | (k, v) :: t, map, hs, hlt => by
    simp only [sortedDeepKvs, Bool.and_eq_true] at hs
    simp only [insAll]
    rw [dictInsert_last k v map (fun q hq => hlt q hq (k, v) (by simp))]
    rw [insAll_sorted t (map ++ [(k, v)]) hs.2 ?_]
    · simp
    · intro q hq p hp
      rcases List.mem_append.mp hq with h | h
      · exact hlt q h p (List.mem_cons_of_mem _ hp)
      · simp only [List.mem_singleton] at h; subst h
        exact List.all_eq_true.mp hs.1.1 p hp

mutual
/-- **`canon_sorted`**: a value whose dictionaries are sorted is its own canonical form -/
theorem canon_sorted : ∀ (v : Obj), sortedDeep v = true → canon v = v
  | .arr xs, h => by simp only [canon]; rw [canonList_sorted xs (by simpa [sortedDeep] using h)]
  | .dict kvs, h => by
    have hk : sortedDeepKvs kvs = true := by simpa [sortedDeep] using h
    simp only [canon]
    rw [canonKvs_sorted kvs hk, insAll_sorted kvs [] hk (by simp)]
    rfl
  | .null, _ | .bool _, _ | .int _, _ | .real _ _, _ | .str _, _ | .name _, _ | .ref _ _, _ | .comment _, _
  | .stream _ _, _ => by simp only [canon]
theorem canonList_sorted : ∀ (xs : List Obj), sortedDeepList xs = true → canonList xs = xs
  | [], _ => by simp only [canonList]
  | x :: t, h => by
    simp only [sortedDeepList, Bool.and_eq_true] at h
    simp only [canonList]; rw [canon_sorted x h.1, canonList_sorted t h.2]
theorem canonKvs_sorted : ∀ (kvs : List (Bytes × Obj)), sortedDeepKvs kvs = true → canonKvs kvs = kvs
  | [], _ => by simp only [canonKvs]
  | (k, v) :: t, h => by
    simp only [sortedDeepKvs, Bool.and_eq_true] at h
    simp only [canonKvs]; rw [canon_sorted v h.1.2, canonKvs_sorted t h.2]
end

theorem follows_canon (v : Obj) (rest : Bytes) (h : Follows v rest) : Follows (canon v) rest := by
  refine ⟨fun he => h.1 (by rwa [endsReg_canon] at he), fun ⟨n, hn⟩ => h.2 ⟨n, ?_⟩⟩
  cases v <;> simp_all [canon]

end Parsley.C02
