/-
  Suffix truncation: a successful parse does not depend on the bytes after its end
  (`Trunc p`: for every cut point `n` at or after the end, `p (s.take n) i = p s i`),
  except through a look-ahead whose outcome is the same at the end of the buffer.
  Token parsers of Model/Prim.lean.  (`WhitespaceNoEOL` only satisfies the weaker `TruncC`,
  cut exactly at the end: cutting between a given-back `\r` and its `\n` changes the result.)
  Companion of Lemmas/Shift.lean (prefix independence); used by Props/C15Reparse.lean.
-/
import Parsley.Props.C02
namespace Parsley.Trunc
open Parsley Parsley.Prim Parsley.Obj Parsley.C02

theorem takeWhile_take {α : Type} (f : α → Bool) (l : List α) (m : Nat) :
    (l.take m).takeWhile f = (l.takeWhile f).take m := by
  induction l generalizing m with
  | nil => simp
  | cons a t ih =>
    cases m with
    | zero => simp
    | succ m =>
      simp only [List.take_succ_cons, List.takeWhile_cons]
      split
      · simp [ih]
      · simp

theorem peek_take (s : Bytes) (n j : Nat) : peek (s.take n) j = if j < n then peek s j else none := by
  unfold peek
  rw [List.getElem?_take]

theorem peek_take_lt {s : Bytes} {n j : Nat} (h : j < n) : peek (s.take n) j = peek s j := by
  rw [peek_take, if_pos h]

theorem peek_take_ge {s : Bytes} {n j : Nat} (h : n ≤ j) : peek (s.take n) j = none := by
  rw [peek_take, if_neg (by omega)]

/-- a peek that sees a byte on the truncated buffer sees the same byte on the full one -/
theorem peek_take_some {s : Bytes} {n j : Nat} {b : UInt8} (h : peek (s.take n) j = some b) :
    peek s j = some b ∧ j < n := by
  rw [peek_take] at h
  split at h
  · exact ⟨h, by assumption⟩
  · cases h

theorem drop_take' (s : Bytes) (n i : Nat) : (s.take n).drop i = (s.drop i).take (n - i) := by
  rw [List.drop_take]

theorem allowed_take (f : UInt8 → Bool) (s : Bytes) (n i : Nat) :
    allowed f (s.take n) i = ((allowed f s i).1.take (n - i), i + min (allowed f s i).1.length (n - i)) := by
  simp only [allowed, drop_take', takeWhile_take, List.length_take, Nat.min_comm]

theorem allowed_take_le {f : UInt8 → Bool} {s : Bytes} {n i : Nat} (h : (allowed f s i).2 ≤ n) :
    allowed f (s.take n) i = allowed f s i := by
  rw [allowed_take]
  have hs := allowed_snd f s i
  have hl : (allowed f s i).1.length ≤ n - i := by omega
  rw [List.take_of_length_le hl, Nat.min_eq_left hl, ← hs]

theorem untilB_take_le {f : UInt8 → Bool} {s : Bytes} {n i : Nat} (h : (untilB f s i).2 ≤ n) :
    untilB f (s.take n) i = untilB f s i := allowed_take_le h

theorem startsWith_take {tag s : Bytes} {n i : Nat} :
    startsWith tag (s.take n) i = (startsWith tag s i && decide (tag.length ≤ n - i)) := by
  unfold startsWith
  rw [drop_take', Bool.eq_iff_iff]
  simp only [List.isPrefixOf_iff_prefix, Bool.and_eq_true, decide_eq_true_eq]
  exact List.prefix_take_iff

theorem exact_take_ok {tag s : Bytes} {n i j : Nat} (h : exact tag s i = (true, j)) (hj : j ≤ n) :
    exact tag (s.take n) i = (true, j) := by
  unfold exact at h ⊢
  split at h
  · rename_i hs
    cases h
    have : startsWith tag (s.take n) i = true := by
      rw [startsWith_take, hs]; simp; omega
    simp [this]
  · cases h

theorem exact_take_fail {tag s : Bytes} {n i j : Nat} (h : exact tag s i = (false, j)) :
    exact tag (s.take n) i = (false, i) := by
  unfold exact at h ⊢
  split at h
  · cases h
  · rename_i hs
    have : startsWith tag (s.take n) i = false := by
      rw [startsWith_take]; simp at hs; simp [hs]
    simp [this]

mutual
theorem skipWs_take (l : Bytes) (m : Nat) : skipWs (l.take m) = min (skipWs l) m := by
  cases l with
  | nil => simp [skipWs]
  | cons b t =>
    cases m with
    | zero => simp [skipWs]
    | succ m =>
      simp only [List.take_succ_cons, skipWs]
      split
      · rw [skipWs_take t m]; omega
      · split
        · rw [skipComment_take t m]; omega
        · omega
theorem skipComment_take (l : Bytes) (m : Nat) : skipComment (l.take m) = min (skipComment l) m := by
  cases l with
  | nil => simp [skipComment]
  | cons b t =>
    cases m with
    | zero => simp [skipComment]
    | succ m =>
      simp only [List.take_succ_cons, skipComment]
      split
      · rw [skipWs_take t m]; omega
      · rw [skipComment_take t m]; omega
end

/-- `wsEOL` on a truncated buffer, in closed form -/
theorem wsEOL_take (e : Bool) (s : Bytes) (n i : Nat) (hi : i ≤ s.length) (hn : i ≤ n) :
    wsEOL e (s.take n) i =
      if (min (skipWs (s.drop i)) (n - i) == 0) && !e then (.err .guard, i)
      else (.ok ⟨(), i, i + min (skipWs (s.drop i)) (n - i)⟩, i + min (skipWs (s.drop i)) (n - i)) := by
  rw [wsEOL_eq e _ i (by simp only [List.length_take]; omega), drop_take', skipWs_take]

/-- what a parser guarantees under truncation of the buffer at any point at or after its end -/
def Trunc {α : Type} (p : P α) : Prop :=
  ∀ (s : Bytes) (i n : Nat) (v : Located α) (c : Nat), i ≤ s.length →
    p s i = (.ok v, c) → c ≤ n → p (s.take n) i = (.ok v, c)

/-- … at exactly its end -/
def TruncC {α : Type} (p : P α) : Prop :=
  ∀ (s : Bytes) (i : Nat) (v : Located α) (c : Nat), i ≤ s.length →
    p s i = (.ok v, c) → p (s.take c) i = (.ok v, c)

theorem Trunc.toC {α : Type} {p : P α} (h : Trunc p) : TruncC p :=
  fun s i v c hi hp => h s i c v c hi hp (Nat.le_refl _)

theorem wsEOL_ok_iff (e : Bool) (s : Bytes) (i : Nat) (hi : i ≤ s.length) (v : Located Unit) (c : Nat) :
    wsEOL e s i = (.ok v, c) ↔
      (¬ (skipWs (s.drop i) = 0 ∧ e = false)) ∧ v = ⟨(), i, i + skipWs (s.drop i)⟩ ∧ c = i + skipWs (s.drop i) := by
  rw [wsEOL_eq e s i hi]
  constructor
  · intro h
    split at h
    · cases h
    · rename_i hne
      cases h
      refine ⟨?_, rfl, rfl⟩
      intro ⟨a, b⟩; apply hne; simp [a, b]
  · intro ⟨h1, h2, h3⟩
    subst h2 h3
    rw [if_neg]
    intro hh; apply h1; simpa using hh

theorem wsEOL_trunc (e : Bool) : Trunc (wsEOL e) := by
  intro s i n v c hi h hc
  rw [wsEOL_ok_iff e s i hi] at h
  obtain ⟨h1, h2, h3⟩ := h
  rw [wsEOL_ok_iff e _ i (by simp only [List.length_take]; omega), drop_take', skipWs_take]
  have : min (skipWs (s.drop i)) (n - i) = skipWs (s.drop i) := by omega
  rw [this]
  exact ⟨h1, h2, h3⟩

/-- extension: a whitespace run that ends strictly inside the truncated buffer is the run of the full buffer -/
theorem wsEOL_ext (e : Bool) (s : Bytes) (i n : Nat) (v : Located Unit) (c : Nat) (hi : i ≤ s.length) (hin : i ≤ n)
    (h : wsEOL e (s.take n) i = (.ok v, c)) (hc : c < n) : wsEOL e s i = (.ok v, c) := by
  rw [wsEOL_ok_iff e _ i (by simp only [List.length_take]; omega), drop_take', skipWs_take] at h
  rw [wsEOL_ok_iff e s i hi]
  obtain ⟨h1, h2, h3⟩ := h
  have : min (skipWs (s.drop i)) (n - i) = skipWs (s.drop i) := by omega
  rw [this] at h1 h2 h3
  exact ⟨h1, h2, h3⟩


/-! ## token parsers -/

theorem comment_trunc : Trunc comment := by
  intro s i n v c hi h hc
  have hp := Parsley.Obj.comment_prog s i hi
  rw [h] at hp
  obtain ⟨-, -, hic, -⟩ := hp
  unfold comment at h ⊢
  rw [peek_take_lt (by omega)]
  split at h
  · cases h
  · rename_i hp
    rw [if_neg hp]
    have hs := allowed_snd (fun b => !(b == 10)) s (i + 1)
    simp only at h ⊢
    split at h
    · rename_i h10
      cases h
      rw [untilB_take_le (by omega), peek_take_lt (by omega), if_pos h10]
    · rename_i h10
      cases h
      rw [untilB_take_le (by omega)]
      rw [if_neg]
      intro hh
      apply h10
      have : peek (s.take n) (untilB (fun x => x == 10) s (i + 1)).2 = some 10 := by simpa using hh
      have := (peek_take_some this).1
      simp [this]

theorem boolean_trunc : Trunc boolean := by
  intro s i n v c hi h hc
  unfold boolean at h ⊢
  split at h
  · rename_i j h1
    cases h
    rw [exact_take_ok h1 hc]
  · rename_i j h1
    rw [exact_take_fail h1]
    simp only
    split at h
    · rename_i j2 h2
      cases h
      rw [exact_take_ok h2 hc]
    · cases h

theorem null_trunc : Trunc null := by
  intro s i n v c hi h hc
  unfold null at h ⊢
  split at h
  · rename_i j h1
    cases h
    rw [exact_take_ok h1 hc]
  · cases h

theorem signPrefix_ge (s : Bytes) (i : Nat) : i ≤ (signPrefix s i).2 := by
  unfold signPrefix; split
  · simp
  · split <;> simp

theorem signPrefix_take_lt {s : Bytes} {n i : Nat} (h : i < n) : signPrefix (s.take n) i = signPrefix s i := by
  unfold signPrefix
  rw [peek_take_lt h]

theorem integerP_take (s : Bytes) (n i : Nat) (hi : i < n)
    (hj : (allowed isDigit s (signPrefix s i).2).2 ≤ n) : integerP (s.take n) i = integerP s i := by
  unfold integerP
  rw [signPrefix_take_lt hi]
  simp only
  rw [allowed_take_le hj]

theorem integerP_end {s : Bytes} {i c : Nat} {v : Located Int} (h : integerP s i = (.ok v, c)) :
    c = (allowed isDigit s (signPrefix s i).2).2 ∧ i < c := by
  unfold integerP at h
  have h1 := signPrefix_ge s i
  have h2 := allowed_snd isDigit s (signPrefix s i).2
  simp only at h
  split at h
  · cases h
  · rename_i hne
    split at h
    · cases h
    · cases h
      refine ⟨rfl, ?_⟩
      have : (allowed isDigit s (signPrefix s i).2).1 ≠ [] := by
        intro hh; rw [hh] at hne; simp at hne
      have := List.length_pos_iff.mpr this
      omega

theorem integerP_trunc : Trunc integerP := by
  intro s i n v c hi h hc
  have := integerP_end h
  rw [integerP_take s n i (by omega) (by omega)]
  exact h

theorem integerP_ext (s : Bytes) (i n : Nat) (v : Located Int) (c : Nat)
    (h : integerP (s.take n) i = (.ok v, c)) (hc : c < n) : integerP s i = (.ok v, c) := by
  have he := integerP_end h
  have hin : i < n := by omega
  rw [signPrefix_take_lt hin, allowed_take] at he
  rw [← integerP_take s n i hin]
  · exact h
  · have := allowed_snd isDigit s (signPrefix s i).2
    simp only at he
    omega

theorem realP_trunc : Trunc realP := by
  intro s i n v c hi h hc
  have hp := Parsley.Obj.realP_progress s i hi
  rw [h] at hp
  obtain ⟨-, -, hic, -⟩ := hp
  unfold realP at h ⊢
  rw [signPrefix_take_lt (by omega)]
  have h1 := signPrefix_ge s i
  have h2 := allowed_snd isDigit s (signPrefix s i).2
  have h3 := allowed_snd isDigit s ((allowed isDigit s (signPrefix s i).2).2 + 1)
  simp only at h ⊢
  split at h
  · cases h
  · rename_i hg
    split at h
    · cases h
    · rename_i m hacc
      split at h
      · rename_i hdot
        split at h
        · cases h
        · rename_i n' d hfr
          cases h
          rw [allowed_take_le (by omega), peek_take_lt (by omega)]
          rw [if_neg hg, hacc]
          simp only
          rw [if_pos hdot, allowed_take_le (by omega), hfr]
      · rename_i hdot
        cases h
        rw [allowed_take_le (by omega)]
        have hpk : (peek (s.take n) (allowed isDigit s (signPrefix s i).2).2 == some 46) = false := by
          apply Bool.eq_false_iff.mpr
          intro hh
          apply hdot
          have : peek (s.take n) (allowed isDigit s (signPrefix s i).2).2 = some 46 := by simpa using hh
          simp [(peek_take_some this).1]
        have hg' : ¬ (((allowed isDigit s (signPrefix s i).2).1.isEmpty &&
            peek (s.take n) (allowed isDigit s (signPrefix s i).2).2 != some 46) = true) := by
          intro hh
          apply hg
          simp only [Bool.and_eq_true, bne_iff_ne, ne_eq] at hh ⊢
          refine ⟨hh.1, ?_⟩
          intro h46; apply hdot; simp [h46]
        rw [if_neg hg', hacc]
        simp only
        rw [hpk]
        rfl


theorem hexString_trunc : Trunc hexString := by
  intro s i n v c hi h hc
  have hp := Parsley.Obj.hex_prog s i hi
  rw [h] at hp
  obtain ⟨-, -, hic, -⟩ := hp
  unfold hexString at h ⊢
  rw [peek_take_lt (by omega)]
  have h2 := allowed_snd (fun b => isHexDigit b || isHexWs b) s (i + 1)
  split at h
  · cases h
  · rename_i hp
    rw [if_neg hp]
    simp only at h ⊢
    split at h
    · cases h
    · rename_i hp2
      cases h
      rw [allowed_take_le (by omega), peek_take_lt (by omega), if_neg hp2]

theorem litLoop_take (l : Bytes) (m pos : Nat) (ls : Option Nat) (depth : Nat) (acc v : Bytes) (j : Nat)
    (h : litLoop l pos ls depth acc = some (v, j)) (hj : j ≤ pos + m) :
    litLoop (l.take m) pos ls depth acc = some (v, j) := by
  induction l generalizing m pos ls depth acc with
  | nil => simp [litLoop] at h
  | cons b t ih =>
    have hb := Parsley.C15.litLoop_bound _ _ _ _ _ _ _ h
    cases m with
    | zero => omega
    | succ m =>
      rw [List.take_succ_cons]
      have hj' : j ≤ pos + 1 + m := by omega
      cases ls with
      | none =>
        unfold litLoop at h ⊢
        simp only [Bool.false_eq_true, if_false] at h ⊢
        by_cases h40 : (b == 40) = true
        · rw [if_pos h40] at h ⊢; exact ih _ _ _ _ _ h hj'
        · rw [if_neg h40] at h ⊢
          by_cases h41 : (b == 41) = true
          · rw [if_pos h41] at h ⊢
            by_cases hd : (depth - 1 == 0) = true
            · rw [if_pos hd] at h ⊢; exact h
            · rw [if_neg hd] at h ⊢; exact ih _ _ _ _ _ h hj'
          · rw [if_neg h41] at h ⊢
            by_cases h92 : (b == 92) = true
            · rw [if_pos h92] at h ⊢; exact ih _ _ _ _ _ h hj'
            · rw [if_neg h92] at h ⊢; exact ih _ _ _ _ _ h hj'
      | some p =>
        unfold litLoop at h ⊢
        simp only at h ⊢
        by_cases hesc : (p + 1 == pos) = true
        · simp only [hesc, if_true] at h ⊢
          by_cases h40 : (b == 40) = true
          · rw [if_pos h40] at h ⊢; exact ih _ _ _ _ _ h hj'
          · rw [if_neg h40] at h ⊢
            by_cases h41 : (b == 41) = true
            · rw [if_pos h41] at h ⊢; exact ih _ _ _ _ _ h hj'
            · rw [if_neg h41] at h ⊢
              by_cases h92 : (b == 92) = true
              · rw [if_pos h92] at h ⊢; exact ih _ _ _ _ _ h hj'
              · rw [if_neg h92] at h ⊢; exact ih _ _ _ _ _ h hj'
        · simp only [hesc, Bool.false_eq_true, if_false] at h ⊢
          by_cases h40 : (b == 40) = true
          · rw [if_pos h40] at h ⊢; exact ih _ _ _ _ _ h hj'
          · rw [if_neg h40] at h ⊢
            by_cases h41 : (b == 41) = true
            · rw [if_pos h41] at h ⊢
              by_cases hd : (depth - 1 == 0) = true
              · rw [if_pos hd] at h ⊢; exact h
              · rw [if_neg hd] at h ⊢; exact ih _ _ _ _ _ h hj'
            · rw [if_neg h41] at h ⊢
              by_cases h92 : (b == 92) = true
              · rw [if_pos h92] at h ⊢; exact ih _ _ _ _ _ h hj'
              · rw [if_neg h92] at h ⊢; exact ih _ _ _ _ _ h hj'

theorem rawLitString_trunc : Trunc rawLitString := by
  intro s i n v c hi h hc
  have hp := Parsley.Obj.lit_prog s i hi
  rw [h] at hp
  obtain ⟨-, -, hic, -⟩ := hp
  unfold rawLitString at h ⊢
  rw [peek_take_lt (by omega)]
  split at h
  · cases h
  · rename_i hp
    rw [if_neg hp]
    split at h
    · cases h
    · rename_i w j hl
      cases h
      rw [drop_take', litLoop_take _ _ _ _ _ _ _ _ hl (by omega)]

theorem nameP_trunc : Trunc nameP := by
  intro s i n v c hi h hc
  have hp := Parsley.Obj.name_prog s i hi
  rw [h] at hp
  obtain ⟨-, -, hic, -⟩ := hp
  unfold nameP at h ⊢
  rw [peek_take_lt (by omega)]
  split at h
  · cases h
  · rename_i hp
    rw [if_neg hp]
    simp only at h ⊢
    split at h
    · cases h
    · rename_i r hd
      cases h
      rw [untilB_take_le (by omega), hd]

theorem operatorP_trunc : Trunc operatorP := by
  intro s i n v c hi h hc
  unfold operatorP at h ⊢
  simp only at h ⊢
  split at h
  · cases h
  · rename_i hne
    split at h
    · cases h
    · rename_i r hd
      split at h
      · rename_i hu
        cases h
        rw [untilB_take_le (by omega), if_neg hne, hd]
        simp only
        rw [if_pos hu]
      · cases h

theorem skipByte_take_lt {b : UInt8} {s : Bytes} {n j : Nat} (h : j < n) : skipByte b (s.take n) j = skipByte b s j := by
  unfold skipByte
  rw [peek_take_lt h]

theorem streamContentP_trunc (len : Nat) (eol : Bool) : Trunc (streamContentP len eol) := by
  intro s i n v c hi h hc
  unfold streamContentP at h ⊢
  split at h
  · cases h
  · rename_i j0 h0
    have he := exact_ok_ge h0
    have b1 := Parsley.C15.skipByte_bound 13 s j0
    simp only at h
    split at h
    · cases h
    · rename_i hlf
      split at h
      · cases h
      · rename_i hlen
        have b2 := Parsley.C15.skipByte_bound 13 s (skipByte 13 s j0 + 1 + len)
        have b3 := Parsley.C15.skipByte_bound 10 s (skipByte 13 s (skipByte 13 s j0 + 1 + len))
        split at h
        · cases h
        · rename_i heol
          split at h
          · cases h
          · rename_i e3 h3
            cases h
            have g1 := exact_ok_ge h3
            have g2 := exact_consumes h3 (by decide)
            rw [exact_take_ok h0 (by omega)]
            simp only
            rw [skipByte_take_lt (by omega), peek_take_lt (by omega), if_neg hlf]
            have hl2 : ¬ ((s.take n).length - (skipByte 13 s j0 + 1) < len) := by
              simp only [List.length_take]; omega
            rw [if_neg hl2]
            rw [skipByte_take_lt (b := 13) (j := skipByte 13 s j0 + 1 + len) (by omega),
              skipByte_take_lt (b := 10) (by omega), if_neg heol, exact_take_ok h3 hc]
            simp only
            rw [drop_take', List.take_take, Nat.min_eq_left (by omega)]

/-- the tag matcher (`parsebuffer.rs` `exact` wrapped as a parser, as the driver runs it) -/
def tagP (tag : Bytes) : P Bool := fun s i =>
  match exact tag s i with
  | (true, j) => (.ok ⟨true, i, j⟩, j)
  | (false, _) => (.err .guard, i)

theorem tagP_trunc (tag : Bytes) : Trunc (tagP tag) := by
  intro s i n v c hi h hc
  unfold tagP at h ⊢
  split at h
  · rename_i j h1
    cases h
    rw [exact_take_ok h1 hc]
  · cases h

/-- `WhitespaceNoEOL` is stable under truncation **at its end** only: cutting between a trailing
    `\r` that was given back and its `\n` makes the `\r` ordinary whitespace. -/
theorem wsNoEOL_truncC (e : Bool) : TruncC (wsNoEOL e) := by
  intro s i v c hi h
  have hs := allowed_snd isWsNoEol s i
  unfold wsNoEOL at h ⊢
  rw [allowed_take]
  simp only at h ⊢
  split at h
  · cases h
  · rename_i hemp
    split at h
    · rename_i hgb
      split at h
      · cases h
      · rename_i hne
        cases h
        simp only [Bool.and_eq_true, beq_iff_eq] at hgb
        have hpos : 0 < (allowed isWsNoEol s i).1.length := by
          cases hw : (allowed isWsNoEol s i).1 with
          | nil => rw [hw] at hgb; simp at hgb
          | cons a t => simp
        have hm : min (allowed isWsNoEol s i).1.length ((allowed isWsNoEol s i).2 - 1 - i) =
            (allowed isWsNoEol s i).2 - 1 - i := by omega
        rw [hm]
        have hc2 : i + ((allowed isWsNoEol s i).2 - 1 - i) = (allowed isWsNoEol s i).2 - 1 := by omega
        rw [hc2, peek_take_ge (Nat.le_refl _)]
        have hemp' : ¬ ((List.take ((allowed isWsNoEol s i).2 - 1 - i) (allowed isWsNoEol s i).1).isEmpty && !e) = true := by
          intro hh
          apply hne
          simp only [Bool.and_eq_true, List.isEmpty_iff, beq_iff_eq] at hh ⊢
          refine ⟨?_, hh.2⟩
          have := congrArg List.length hh.1
          simp only [List.length_take, List.length_nil] at this
          omega
        rw [if_neg hemp']
        simp
    · rename_i hgb
      cases h
      have hl : (allowed isWsNoEol s i).1.length ≤ (allowed isWsNoEol s i).2 - i := by omega
      rw [List.take_of_length_le hl, Nat.min_eq_left hl, ← hs, if_neg hemp, peek_take_ge (Nat.le_refl _)]
      simp

end Parsley.Trunc
