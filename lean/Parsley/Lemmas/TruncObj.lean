/-
  Suffix truncation of the object parser (Model/Obj.lean): the number / reference look-ahead,
  `ReferenceP`, the array and dictionary loops, the dispatcher and the depth wrapper.

  `parseObjB_trunc`: a successful `parse_pdf_obj` is unchanged when the buffer is cut at a point
  `n` at or after its end `c`, provided `n = c` or the byte before the cut is not `R` (`CutOK`):
  a cut immediately after an `R` that is followed by a regular character would turn
  `1 2 Rx` (integer 1) into `1 2 R` (a reference).  Arrays and dictionaries end in `]` / `>`,
  so their elements are always cut at a legal point.
  Continues Lemmas/Trunc.lean; used by Props/C15Reparse.lean.
-/
import Parsley.Lemmas.Trunc
namespace Parsley.Trunc
open Parsley Parsley.Prim Parsley.Obj Parsley.C02 Parsley.C15

/-! ## at the end of the buffer every step of the reference look-ahead fails -/

theorem drop_of_peek {s : Bytes} {j : Nat} {b : UInt8} (hp : peek s j = some b) :
    s.drop j = b :: s.drop (j + 1) := by
  have hj := peek_some_lt hp
  rw [List.drop_eq_getElem_cons hj]
  congr 1
  unfold peek at hp
  rw [List.getElem?_eq_getElem hj] at hp
  exact Option.some.inj hp

theorem integerP_eob (t : Bytes) (j : Nat) (hj : t.length ≤ j) : integerP t j = (.err .guard, j) := by
  have hp : peek t j = none := by unfold peek; simp; omega
  unfold integerP signPrefix allowed
  simp [hp, List.drop_of_length_le hj]

theorem wsEOL_false_eob (t : Bytes) : wsEOL false t t.length = (.err .guard, t.length) := by
  rw [wsEOL_eq false t t.length (Nat.le_refl _)]
  simp [skipWs]

theorem startsWith_peek {b : UInt8} {tag s : Bytes} {j : Nat} (h : startsWith (b :: tag) s j = true) :
    peek s j = some b := by
  unfold startsWith at h
  cases hd : s.drop j with
  | nil => rw [hd] at h; simp [List.isPrefixOf] at h
  | cons a r =>
    rw [hd] at h
    simp only [List.isPrefixOf, Bool.and_eq_true, beq_iff_eq] at h
    unfold peek
    rw [← List.head?_drop, hd]
    simp [h.1]

/-! ## the look-ahead as a relation with its intermediate cursors -/

/-- the dispatcher's look-ahead after a first integer ending at `j` succeeds, the generation number
    being `g` and the `R` standing at `j3` -/
def LA (s : Bytes) (j : Nat) (g : Located Int) (j1 j2 j3 : Nat) : Prop :=
  (∃ u1, wsEOL false s j = (.ok u1, j1)) ∧ integerP s j1 = (.ok g, j2) ∧
  (∃ u3, wsEOL false s j2 = (.ok u3, j3)) ∧ startsWith [82] s j3 = true ∧
  (peek s (j3 + 1)).any isRegular = false

theorem lookAhead_iff (s : Bytes) (j : Nat) : lookAhead s j = true ↔ ∃ g j1 j2 j3, LA s j g j1 j2 j3 := by
  unfold lookAhead LA
  constructor
  · intro h
    split at h
    · rename_i u1 j1 h1
      split at h
      · rename_i g j2 h2
        split at h
        · rename_i u3 j3 h3
          simp only [Bool.and_eq_true, Bool.not_eq_true'] at h
          exact ⟨g, j1, j2, j3, ⟨u1, h1⟩, h2, ⟨u3, h3⟩, h.1, h.2⟩
        · cases h
      · cases h
    · cases h
  · intro ⟨g, j1, j2, j3, ⟨u1, h1⟩, h2, ⟨u3, h3⟩, h4, h5⟩
    simp only [h1, h2, h3, h4, h5]
    rfl

/-- (B) a successful look-ahead survives any cut after the `R` -/
theorem LA_take {s : Bytes} {j : Nat} {g : Located Int} {j1 j2 j3 : Nat} (n : Nat) (hj : j ≤ s.length)
    (h : LA s j g j1 j2 j3) (hn : j3 + 1 ≤ n) : LA (s.take n) j g j1 j2 j3 := by
  obtain ⟨⟨u1, h1⟩, h2, ⟨u3, h3⟩, h4, h5⟩ := h
  have p1 := wsEOL_progress false s j hj
  rw [h1] at p1
  obtain ⟨a1, a2, a3⟩ := p1
  have p2 := integerP_progress s j1 a2
  rw [h2] at p2
  obtain ⟨-, -, b3, b4⟩ := p2
  have p3 := wsEOL_progress false s j2 b4
  rw [h3] at p3
  obtain ⟨c1, c2, c3⟩ := p3
  have q3 := c3 rfl
  refine ⟨⟨u1, wsEOL_trunc false s j n u1 j1 hj h1 (by omega)⟩,
    integerP_trunc s j1 n g j2 a2 h2 (by omega),
    ⟨u3, wsEOL_trunc false s j2 n u3 j3 b4 h3 (by omega)⟩, ?_, ?_⟩
  · rw [startsWith_take, h4]; simp; omega
  · rw [peek_take]
    split
    · exact h5
    · rfl

/-- (A) a look-ahead that succeeds on the truncated buffer succeeds on the full one, unless the
    cut is immediately after the `R` -/
theorem LA_ext {s : Bytes} {j : Nat} {g : Located Int} {j1 j2 j3 : Nat} (n : Nat) (hj : j ≤ s.length)
    (hjn : j ≤ n) (hn : n ≤ s.length) (h : LA (s.take n) j g j1 j2 j3) :
    j < j3 ∧ j3 + 1 ≤ n ∧ (j3 + 1 < n → LA s j g j1 j2 j3) ∧ peek s j3 = some 82 := by
  obtain ⟨⟨u1, h1⟩, h2, ⟨u3, h3⟩, h4, h5⟩ := h
  have hl : (s.take n).length = n := by simp only [List.length_take]; omega
  have p1 := wsEOL_progress false (s.take n) j (by omega)
  rw [h1] at p1
  obtain ⟨a1, a2, a3⟩ := p1
  have p2 := integerP_progress (s.take n) j1 a2
  rw [h2] at p2
  obtain ⟨-, -, b3, b4⟩ := p2
  have p3 := wsEOL_progress false (s.take n) j2 b4
  rw [h3] at p3
  obtain ⟨c1, c2, c3⟩ := p3
  have q1 := a3 rfl
  have q3 := c3 rfl
  rw [hl] at a2 b4 c2
  have hb := startsWith_bound h4
  rw [hl] at hb
  simp only [List.length_cons, List.length_nil] at hb
  have hj3 : j3 + 1 ≤ n := by omega
  rw [startsWith_take] at h4
  simp only [Bool.and_eq_true] at h4
  refine ⟨by omega, hj3, ?_, startsWith_peek h4.1⟩
  intro hlt
  refine ⟨⟨u1, wsEOL_ext false s j n u1 j1 hj hjn h1 (by omega)⟩,
    integerP_ext s j1 n g j2 h2 (by omega),
    ⟨u3, wsEOL_ext false s j2 n u3 j3 (by omega) (by omega) h3 (by omega)⟩, h4.1, ?_⟩
  rw [peek_take_lt hlt] at h5
  exact h5


/-! ## `ReferenceP` follows the path of the look-ahead -/

theorem ws_false_true {s : Bytes} {j : Nat} {u : Located Unit} {c : Nat} (h : wsEOL false s j = (.ok u, c)) :
    wsEOL true s j = (.ok u, c) := by
  unfold wsEOL at h ⊢
  split at h
  · cases h
  · rename_i j' em heq
    split at h
    · cases h
    · cases h; simp

/-- `RealP` and `IntegerP` from the same cursor stop at the same place unless a '.' follows the digits -/
theorem real_int_end {s : Bytes} {i j j' : Nat} {r : Located (Int × Nat)} {num : Located Int}
    (hr : realP s i = (.ok r, j)) (hint : integerP s i = (.ok num, j')) : j' = j ∨ peek s j' = some 46 := by
  unfold realP at hr
  unfold integerP at hint
  simp only at hr hint
  split at hint
  · cases hint
  · split at hint
    · cases hint
    · cases hint
      split at hr
      · cases hr
      · split at hr
        · cases hr
        · split at hr
          · rename_i hdot
            right
            simpa using hdot
          · cases hr
            left; rfl

theorem integerP_at_dot {s : Bytes} {j : Nat} (hp : peek s j = some 46) : integerP s j = (.err .guard, j) := by
  unfold integerP signPrefix allowed
  simp [hp, drop_of_peek hp, isDigit]

theorem wsEOL_at_dot {s : Bytes} {j c : Nat} {u : Located Unit} (hj : j ≤ s.length) (hp : peek s j = some 46)
    (h : wsEOL true s j = (.ok u, c)) : c = j := by
  rw [wsEOL_ok_iff true s j hj] at h
  have : skipWs (s.drop j) = 0 := by
    rw [drop_of_peek hp, skipWs]
    simp [isWsEol]
  omega

/-- if `ReferenceP` succeeds where `RealP` succeeds, its first integer ends where the real ends -/
theorem ref_first_int (s : Bytes) (i : Nat) (hi : i ≤ s.length) (r : Located (Int × Nat)) (j : Nat)
    (hr : realP s i = (.ok r, j)) (a g c : Nat) (h : referenceP s i = (.ok (a, g), c)) :
    ∃ num, integerP s i = (.ok num, j) := by
  unfold referenceP at h
  split at h
  · cases h
  · cases h
  · rename_i num j' h0
    have p0 := integerP_progress s i hi
    rw [h0] at p0
    obtain ⟨-, -, -, hj'⟩ := p0
    rcases real_int_end hr h0 with he | hdot
    · subst he; exact ⟨num, h0⟩
    · exfalso
      split at h
      · cases h
      · split at h
        · cases h
        · cases h
        · rename_i u j1 h1
          have := wsEOL_at_dot hj' hdot h1
          subst this
          rw [integerP_at_dot hdot] at h
          cases h

theorem referenceP_of_LA {s : Bytes} {i j : Nat} {num g : Located Int} {j1 j2 j3 : Nat}
    (h0 : integerP s i = (.ok num, j)) (hla : LA s j g j1 j2 j3) :
    referenceP s i =
      if !isUsize num.val then (.err .guard, i)
      else if !isUsize g.val then (.err .guard, j1)
      else (.ok (num.val.toNat, g.val.toNat), j3 + 1) := by
  obtain ⟨⟨u1, h1⟩, h2, ⟨u3, h3⟩, h4, h5⟩ := hla
  have hex : exact [82] s j3 = (true, j3 + 1) := by unfold exact; simp [h4]
  unfold referenceP
  simp only [h0, ws_false_true h1, h2, ws_false_true h3, hex]

/-! ## the number / reference branch under truncation -/

/-- the cut condition: the buffer is cut at `n`, at or after the end `c` of a parse; a cut strictly
    after the end must not fall immediately after an `R` (that `R` could complete a reference that
    the full buffer rejects because a regular character follows it) -/
def CutOK (s : Bytes) (c n : Nat) : Prop := c ≤ n ∧ (c = n ∨ peek s (n - 1) ≠ some 82)

theorem numberOrRef_trunc (s : Bytes) (i n : Nat) (o : Obj) (c : Nat) (hi : i ≤ s.length) (hn : n ≤ s.length)
    (h : numberOrRef s i = (.ok o, c)) (hcut : CutOK s c n) : numberOrRef (s.take n) i = (.ok o, c) := by
  obtain ⟨hcn, hcut⟩ := hcut
  have hl : (s.take n).length = n := by simp only [List.length_take]; omega
  have pr := realP_progress s i hi
  cases hr : realP s i with
  | mk rr j =>
    rw [hr] at pr
    cases rr with
    | err k => unfold numberOrRef at h; rw [hr] at h; cases h
    | panic q => exact pr.elim
    | ok r =>
      obtain ⟨r1, r2, r3, r4⟩ := pr
      by_cases hint : (r.val.2 == 1 && decide (-(2 ^ 63 : Int) ≤ r.val.1) && decide (r.val.1 ≤ (2 ^ 63 - 1 : Int))) = true
      · -- integer-valued
        have hd : r.val.2 = 1 := by simp only [Bool.and_eq_true, beq_iff_eq] at hint; exact hint.1.1
        have hrange : -(2 ^ 63 : Int) ≤ r.val.1 ∧ r.val.1 ≤ (2 ^ 63 - 1 : Int) := by
          simp only [Bool.and_eq_true, decide_eq_true_eq] at hint; exact ⟨hint.1.2, hint.2⟩
        have hr' : realP s i = (.ok ⟨(r.val.1, 1), i, j⟩, j) := by
          rw [hr]; congr 2
          obtain ⟨⟨m, d⟩, st, sp⟩ := r
          simp only at hd r1 r2
          subst hd r1 r2; rfl
        have hs := numberOrRef_after_int s i j r.val.1 hi hr' hrange
        rw [hs] at h
        by_cases hla : lookAhead s j = true
        · -- a reference on the full buffer
          rw [if_pos hla] at h
          obtain ⟨g, j1, j2, j3, hLA⟩ := (lookAhead_iff s j).mp hla
          cases hrf : referenceP s i with
          | mk rf c4 =>
            rw [hrf] at h
            cases rf with
            | err k => cases h
            | panic q => cases h
            | ok ag =>
              obtain ⟨a, g'⟩ := ag
              simp only [Prod.mk.injEq, Res.ok.injEq] at h
              obtain ⟨ho, hc⟩ := h
              subst hc
              obtain ⟨num, h0⟩ := ref_first_int s i hi _ j hr a g' c4 hrf
              have hrf2 := referenceP_of_LA h0 hLA
              rw [hrf] at hrf2
              have hc4 : c4 = j3 + 1 := by
                split at hrf2
                · cases hrf2
                · split at hrf2
                  · cases hrf2
                  · cases hrf2; rfl
              have hjn : j ≤ n := by
                have := (LA_ext (s := s) (j := j) s.length r4 r4 (Nat.le_refl _) (by rw [List.take_length]; exact hLA)).1
                omega
              have hr't := realP_trunc s i n _ j hi hr' hjn
              have hst := numberOrRef_after_int (s.take n) i j r.val.1 (by omega) hr't hrange
              have hLAt := LA_take n r4 hLA (by omega)
              have hlat : lookAhead (s.take n) j = true := (lookAhead_iff _ j).mpr ⟨g, j1, j2, j3, hLAt⟩
              have h0t := integerP_trunc s i n num j hi h0 hjn
              have hrft := referenceP_of_LA h0t hLAt
              rw [hst, if_pos hlat, hrft, ← referenceP_of_LA h0 hLA, hrf]
              simp only [ho]
        · -- an integer on the full buffer
          rw [if_neg hla] at h
          simp only [Prod.mk.injEq, Res.ok.injEq] at h
          obtain ⟨ho, hc⟩ := h
          subst hc
          have hr't := realP_trunc s i n _ j hi hr' hcn
          have hst := numberOrRef_after_int (s.take n) i j r.val.1 (by omega) hr't hrange
          have hlat : ¬ lookAhead (s.take n) j = true := by
            intro hh
            obtain ⟨g, j1, j2, j3, hLAt⟩ := (lookAhead_iff _ j).mp hh
            obtain ⟨e1, e2, e3, e4⟩ := LA_ext n r4 hcn hn hLAt
            by_cases hlt : j3 + 1 < n
            · exact hla ((lookAhead_iff s j).mpr ⟨g, j1, j2, j3, e3 hlt⟩)
            · have hnn : n - 1 = j3 := by omega
              rcases hcut with hc | hc
              · omega
              · rw [hnn] at hc; exact hc e4
          rw [hst, if_neg hlat, ho]
      · -- a real
        unfold numberOrRef at h ⊢
        rw [hr] at h
        have hnot : (!(r.val.2 == 1 && decide (-(2 ^ 63 : Int) ≤ r.val.1) && decide (r.val.1 ≤ (2 ^ 63 - 1 : Int)))) = true := by
          rw [Bool.not_eq_true']; exact Bool.eq_false_iff.mpr hint
        simp only at h
        rw [if_pos hnot] at h
        simp only [Prod.mk.injEq, Res.ok.injEq] at h
        obtain ⟨ho, hc⟩ := h
        subst hc
        rw [realP_trunc s i n r j hi hr hcn]
        simp only
        rw [if_pos hnot, ho]


/-! ## arrays and dictionaries -/

theorem arrayLoop_end (el : Elem) (f cur : Nat) (s : Bytes) (i : Nat) (acc xs : List Obj) (k cur' : Nat)
    (h : arrayLoop el f cur s i acc = ((.ok xs, k), cur')) : 1 ≤ k ∧ peek s (k - 1) = some 93 := by
  induction f generalizing cur i acc with
  | zero => simp [arrayLoop] at h
  | succ f ih =>
    unfold arrayLoop at h
    split at h
    · cases h
    · cases h
    · split at h
      · rename_i k' hex
        cases h
        unfold exact at hex
        split at hex
        · rename_i hs
          cases hex
          exact ⟨by simp, by simpa using startsWith_peek hs⟩
        · cases hex
      · split at h
        · exact ih _ _ _ h
        · cases h
        · cases h

theorem dictLoop_end (el : Elem) (f cur : Nat) (s : Bytes) (i : Nat) (names : List Bytes)
    (map kvs : List (Bytes × Obj)) (k cur' : Nat)
    (h : dictLoop el f cur s i names map = ((.ok kvs, k), cur')) : 2 ≤ k ∧ peek s (k - 1) = some 62 := by
  induction f generalizing cur i names map with
  | zero => simp [dictLoop] at h
  | succ f ih =>
    unfold dictLoop at h
    split at h
    · cases h
    · cases h
    · split at h
      · rename_i k' hex
        cases h
        unfold exact at hex
        split at hex
        · rename_i hs
          cases hex
          unfold startsWith at hs
          refine ⟨by simp, ?_⟩
          rename_i j _ _
          cases hd : s.drop j with
          | nil => rw [hd] at hs; simp [List.isPrefixOf] at hs
          | cons a r =>
            cases r with
            | nil => rw [hd] at hs; simp [List.isPrefixOf] at hs
            | cons a2 r2 =>
              rw [hd] at hs
              simp only [List.isPrefixOf, Bool.and_eq_true, beq_iff_eq] at hs
              have : (s.drop (j + 1)) = a2 :: r2 := by
                rw [← List.drop_drop, hd]; rfl
              have e : j + [(62 : UInt8), 62].length - 1 = j + 1 := by simp
              rw [e]
              unfold peek
              rw [← List.head?_drop, this]
              simp [hs.2.1]
        · cases hex
      · split at h
        · cases h
        · cases h
        · split at h
          · cases h
          · split at h
            · cases h
            · cases h
            · split at h
              · cases h
              · cases h
              · split at h
                · exact ih _ _ _ _ h
                · exact ih _ _ _ _ h

/-- truncation stability of an element parser (the object parser at a smaller budget) -/
def ElemTrunc (max b : Nat) (el : Elem) : Prop :=
  ∀ (cur : Nat) (s : Bytes) (i n : Nat) (v : Located Obj) (c cur' : Nat),
    i ≤ s.length → n ≤ s.length → cur ≤ max → max - cur ≤ b →
    el cur s i = ((.ok v, c), cur') → CutOK s c n → el cur (s.take n) i = ((.ok v, c), cur')

theorem arrayLoop_trunc (max b : Nat) (el : Elem) (hel : ElemOK max b el) (helT : ElemTrunc max b el)
    (n : Nat) (s : Bytes) (hn : n ≤ s.length) (hR : peek s (n - 1) ≠ some 82)
    (f f' cur i : Nat) (acc xs : List Obj) (k cur' : Nat) (hi : i ≤ s.length) (hc : cur ≤ max)
    (hb : max - cur ≤ b) (hf : s.length + 1 - i ≤ f) (hf' : n + 1 - i ≤ f')
    (hacc : cur + depthList acc ≤ max)
    (h : arrayLoop el f cur s i acc = ((.ok xs, k), cur')) (hk : k ≤ n) :
    arrayLoop el f' cur (s.take n) i acc = ((.ok xs, k), cur') := by
  induction f generalizing f' i acc with
  | zero => omega
  | succ f ih =>
    unfold arrayLoop at h
    have pw := wsEOL_progress true s i hi
    split at h
    · cases h
    · cases h
    · rename_i u j heq
      rw [heq] at pw
      obtain ⟨hj1, hj2, -⟩ := pw
      split at h
      · rename_i k' hex
        cases h
        have := exact_ok hex hj2
        obtain ⟨f'', rfl⟩ : ∃ f'', f' = f'' + 1 := ⟨f' - 1, by omega⟩
        unfold arrayLoop
        rw [wsEOL_trunc true s i n u j hi heq (by omega)]
        simp only
        rw [exact_take_ok hex hk]
      · rename_i k0 hex
        split at h
        · rename_i o k2 cur2 heq2
          have h2 := hel cur s j hj2 hc hb
          rw [heq2] at h2
          obtain ⟨e1, e2, e3, e4, e5, e6⟩ := h2
          subst e1
          have hacc' : cur2 + depthList (o.val :: acc) ≤ max := by
            simp only [depthList]
            have : Nat.max (depth o.val) (depthList acc) ≤ max - cur2 := Nat.max_le.mpr ⟨by omega, by omega⟩
            omega
          have hg := arrayLoop_good max b el hel f cur2 s k2 (o.val :: acc) (by omega) hc hb (by omega) hacc'
          rw [h] at hg
          obtain ⟨-, hk2k, -, -⟩ := hg
          obtain ⟨f'', rfl⟩ : ∃ f'', f' = f'' + 1 := ⟨f' - 1, by omega⟩
          unfold arrayLoop
          rw [wsEOL_trunc true s i n u j hi heq (by omega)]
          simp only
          rw [exact_take_fail hex]
          simp only
          rw [helT cur2 s j n o k2 cur2 hj2 hn hc hb heq2 ⟨by omega, Or.inr hR⟩]
          simp only
          exact ih f'' k2 (o.val :: acc) (by omega) (by omega) (by omega) hacc' h
        · cases h
        · cases h

theorem dictLoop_trunc (max b : Nat) (el : Elem) (hel : ElemOK max b el) (helT : ElemTrunc max b el)
    (n : Nat) (s : Bytes) (hn : n ≤ s.length) (hR : peek s (n - 1) ≠ some 82)
    (f f' cur i : Nat) (names : List Bytes) (map kvs : List (Bytes × Obj)) (k cur' : Nat) (hi : i ≤ s.length)
    (hc : cur ≤ max) (hb : max - cur ≤ b) (hf : s.length + 1 - i ≤ f) (hf' : n + 1 - i ≤ f')
    (hacc : cur + depthKvs map ≤ max)
    (h : dictLoop el f cur s i names map = ((.ok kvs, k), cur')) (hk : k ≤ n) :
    dictLoop el f' cur (s.take n) i names map = ((.ok kvs, k), cur') := by
  induction f generalizing f' i names map with
  | zero => omega
  | succ f ih =>
    unfold dictLoop at h
    have pw := wsEOL_progress true s i hi
    split at h
    · cases h
    · cases h
    · rename_i u j heq
      rw [heq] at pw
      obtain ⟨hj1, hj2, -⟩ := pw
      split at h
      · rename_i k' hex
        cases h
        have := exact_ok hex hj2
        obtain ⟨f'', rfl⟩ : ∃ f'', f' = f'' + 1 := ⟨f' - 1, by omega⟩
        unfold dictLoop
        rw [wsEOL_trunc true s i n u j hi heq (by omega)]
        simp only
        rw [exact_take_ok hex hk]
      · rename_i k0 hex
        have pn := name_prog s j hj2
        split at h
        · cases h
        · cases h
        · rename_i key kk heqn
          rw [heqn] at pn
          obtain ⟨n1, n2, n3, n4⟩ := pn
          split at h
          · cases h
          · rename_i hdup
            have pw2 := wsEOL_progress true s kk n4
            split at h
            · cases h
            · cases h
            · rename_i u2 k1 heq3
              rw [heq3] at pw2
              obtain ⟨hk1, hk2, -⟩ := pw2
              have h2 := hel cur s k1 hk2 hc hb
              split at h
              · cases h
              · cases h
              · rename_i o k2 cur2 heq2
                rw [heq2] at h2
                obtain ⟨e1, e2, e3, e4, e5, e6⟩ := h2
                subst e1
                -- the rest of the loop, for either continuation
                have fin : ∀ nm mp, cur2 + depthKvs mp ≤ max →
                    dictLoop el f cur2 s k2 nm mp = ((.ok kvs, k), cur') →
                    ∀ f'', n + 1 - k2 ≤ f'' → k2 < k ∧
                      dictLoop el f'' cur2 (s.take n) k2 nm mp = ((.ok kvs, k), cur') := by
                  intro nm mp hmp hh f'' hf''
                  have hg := dictLoop_good max b el hel f cur2 s k2 nm mp (by omega) hc hb (by omega) hmp
                  rw [hh] at hg
                  obtain ⟨-, hk2k, -, -⟩ := hg
                  exact ⟨hk2k, ih f'' k2 nm mp (by omega) (by omega) hf'' hmp hh⟩
                have hk2k : k2 < k := by
                  split at h
                  · exact (fin _ _ hacc h (n + 1) (by omega)).1
                  · refine (fin _ _ ?_ h (n + 1) (by omega)).1
                    have : depthKvs (dictInsert key.val o.val map) ≤ max - cur2 :=
                      depthKvs_insert_le _ _ _ _ (by omega) (by omega)
                    omega
                obtain ⟨f'', rfl⟩ : ∃ f'', f' = f'' + 1 := ⟨f' - 1, by omega⟩
                unfold dictLoop
                rw [wsEOL_trunc true s i n u j hi heq (by omega)]
                simp only
                rw [exact_take_fail hex]
                simp only
                rw [nameP_trunc s j n key kk hj2 heqn (by omega)]
                simp only
                rw [if_neg hdup, wsEOL_trunc true s kk n u2 k1 n4 heq3 (by omega)]
                simp only
                rw [helT cur2 s k1 n o k2 cur2 hk2 hn hc hb heq2 ⟨by omega, Or.inr hR⟩]
                simp only
                split at h
                · exact (fin _ _ hacc h f'' (by omega)).2
                · rename_i v hv
                  have hmp : cur2 + depthKvs (dictInsert key.val o.val map) ≤ max := by
                    have : depthKvs (dictInsert key.val o.val map) ≤ max - cur2 :=
                      depthKvs_insert_le _ _ _ _ (by omega) (by omega)
                    omega
                  exact (fin _ _ hmp h f'' (by omega)).2


/-! ## the dispatcher and the depth wrapper -/

theorem liftTok_trunc {α : Type} (f : α → Obj) (cur : Nat) (p : P α) (hT : Trunc p) (s : Bytes) (i n : Nat)
    (o : Obj) (c cur' : Nat) (hi : i ≤ s.length) (h : liftTok f cur (p s i) = ((.ok o, c), cur')) (hcn : c ≤ n) :
    liftTok f cur (p (s.take n) i) = ((.ok o, c), cur') := by
  cases hq : p s i with
  | mk r c1 =>
    rw [hq] at h
    cases r with
    | err k => cases h
    | panic q => cases h
    | ok v =>
      have hc : c1 = c := by simp only [liftTok, Prod.mk.injEq] at h; exact h.1.2
      rw [hT s i n v c1 hi hq (by omega)]
      exact h

theorem parseInternal_trunc (max b : Nat) (el : Elem) (hel : ElemOK max b el) (helT : ElemTrunc max b el)
    (cur : Nat) (s : Bytes) (i n : Nat) (o : Obj) (c cur' : Nat) (hi : i ≤ s.length) (hn : n ≤ s.length)
    (hc : cur ≤ max) (hb : max - cur ≤ b)
    (h : parseInternal el cur s i = ((.ok o, c), cur')) (hcut : CutOK s c n) :
    parseInternal el cur (s.take n) i = ((.ok o, c), cur') := by
  have hg := parseInternal_good max b el hel cur s i hi hc hb
  rw [h] at hg
  obtain ⟨-, hic, hcl, -⟩ := hg
  have hcn := hcut.1
  have hl : (s.take n).length = n := by simp only [List.length_take]; omega
  unfold parseInternal at h ⊢
  rw [peek_take_lt (by omega)]
  cases hp : peek s i with
  | none => rw [hp] at h; cases h
  | some c0 =>
    rw [hp] at h
    simp only at h ⊢
    by_cases c1 : (c0 == 116 || c0 == 102) = true
    · rw [if_pos c1] at h ⊢; exact liftTok_trunc _ cur boolean boolean_trunc s i n o c cur' hi h hcn
    rw [if_neg c1] at h ⊢
    by_cases c2 : (c0 == 110) = true
    · rw [if_pos c2] at h ⊢; exact liftTok_trunc _ cur null null_trunc s i n o c cur' hi h hcn
    rw [if_neg c2] at h ⊢
    by_cases c3 : (c0 == 40) = true
    · rw [if_pos c3] at h ⊢; exact liftTok_trunc _ cur rawLitString rawLitString_trunc s i n o c cur' hi h hcn
    rw [if_neg c3] at h ⊢
    by_cases c4 : (c0 == 37) = true
    · rw [if_pos c4] at h ⊢; exact liftTok_trunc _ cur comment comment_trunc s i n o c cur' hi h hcn
    rw [if_neg c4] at h ⊢
    by_cases c5 : (c0 == 47) = true
    · rw [if_pos c5] at h ⊢; exact liftTok_trunc _ cur nameP nameP_trunc s i n o c cur' hi h hcn
    rw [if_neg c5] at h ⊢
    by_cases c6 : (c0 == 91) = true
    · rw [if_pos c6] at h ⊢
      rw [hl]
      cases hA : arrayLoop el (s.length + 1 - i) cur s (i + 1) [] with
      | mk rk cur2 =>
        obtain ⟨r, k⟩ := rk
        rw [hA] at h
        cases r with
        | err e => cases h
        | panic q => cases h
        | ok xs =>
          simp only [Prod.mk.injEq, Res.ok.injEq] at h
          obtain ⟨⟨ho, hk⟩, hcur⟩ := h
          subst hk hcur ho
          obtain ⟨k1, kend⟩ := arrayLoop_end _ _ _ _ _ _ _ _ _ hA
          have hR : peek s (n - 1) ≠ some 82 := by
            rcases hcut.2 with e | e
            · rw [← e, kend]; decide
            · exact e
          rw [arrayLoop_trunc max b el hel helT n s hn hR (s.length + 1 - i) (n + 1 - i) cur (i + 1) [] xs k cur2
            (by omega) hc hb (by omega) (by omega) (by simp [depthList]; omega) hA hcn]
    rw [if_neg c6] at h ⊢
    by_cases c7 : (c0 == 60) = true
    · rw [if_pos c7] at h ⊢
      by_cases c8 : (peek s (i + 1) == some 60) = true
      · rw [if_pos c8] at h
        have hp1 : peek s (i + 1) = some 60 := by simpa using c8
        have := peek_some_lt hp1
        cases hA : dictLoop el (s.length + 1 - i) cur s (i + 2) [] [] with
        | mk rk cur2 =>
          obtain ⟨r, k⟩ := rk
          rw [hA] at h
          cases r with
          | err e => cases h
          | panic q => cases h
          | ok kvs =>
            simp only [Prod.mk.injEq, Res.ok.injEq] at h
            obtain ⟨⟨ho, hk⟩, hcur⟩ := h
            subst hk hcur ho
            have hg2 := dictLoop_good max b el hel (s.length + 1 - i) cur s (i + 2) [] [] (by omega) hc hb
              (by omega) (by simp [depthKvs]; omega)
            rw [hA] at hg2
            obtain ⟨-, hk2, -, -⟩ := hg2
            obtain ⟨k1, kend⟩ := dictLoop_end _ _ _ _ _ _ _ _ _ _ hA
            have hR : peek s (n - 1) ≠ some 82 := by
              rcases hcut.2 with e | e
              · rw [← e, kend]; decide
              · exact e
            rw [peek_take_lt (by omega), if_pos c8, hl]
            rw [dictLoop_trunc max b el hel helT n s hn hR (s.length + 1 - i) (n + 1 - i) cur (i + 2) [] [] kvs k cur2
              (by omega) hc hb (by omega) (by omega) (by simp [depthKvs]; omega) hA hcn]
      · rw [if_neg c8] at h
        have c8' : ¬ (peek (s.take n) (i + 1) == some 60) = true := by
          intro hh
          apply c8
          have : peek (s.take n) (i + 1) = some 60 := by simpa using hh
          simp [(peek_take_some this).1]
        rw [if_neg c8']
        exact liftTok_trunc _ cur hexString hexString_trunc s i n o c cur' hi h hcn
    rw [if_neg c7] at h ⊢
    by_cases c9 : (!(isDigit c0 || c0 == 45 || c0 == 43 || c0 == 46)) = true
    · rw [if_pos c9] at h; cases h
    rw [if_neg c9] at h ⊢
    simp only [Prod.mk.injEq] at h
    obtain ⟨h1, h2⟩ := h
    rw [numberOrRef_trunc s i n o c hi hn h1 hcut, h2]

theorem objParse_trunc (max b : Nat) (el : Elem) (hel : ElemOK max b el) (helT : ElemTrunc max b el)
    (cur : Nat) (s : Bytes) (i n : Nat) (v : Located Obj) (c cur' : Nat) (hi : i ≤ s.length) (hn : n ≤ s.length)
    (hc : cur ≤ max) (hb : max - cur ≤ b)
    (h : objParse el cur s i = ((.ok v, c), cur')) (hcut : CutOK s c n) :
    objParse el cur (s.take n) i = ((.ok v, c), cur') := by
  unfold objParse at h ⊢
  have pw := wsEOL_progress true s i hi
  split at h
  · cases h
  · cases h
  · rename_i u st heq
    rw [heq] at pw
    obtain ⟨w1, w2, -⟩ := pw
    cases hI : parseInternal el cur s st with
    | mk rk cur2 =>
      obtain ⟨r, k⟩ := rk
      rw [hI] at h
      cases r with
      | err e => cases h
      | panic q => cases h
      | ok o =>
        simp only [Prod.mk.injEq, Res.ok.injEq] at h
        obtain ⟨⟨hv, hk⟩, hcur⟩ := h
        subst hk hcur
        have hg := parseInternal_good max b el hel cur s st w2 hc hb
        rw [hI] at hg
        obtain ⟨-, hic, -, -⟩ := hg
        rw [wsEOL_trunc true s i n u st hi heq (by have := hcut.1; omega)]
        simp only
        rw [parseInternal_trunc max b el hel helT cur s st n o k cur2 w2 hn hc hb hI hcut]
        simp only [hv]

/-- **Suffix truncation of `parse_pdf_obj`**, every nesting budget: a successful parse is unchanged
    when the buffer is cut at its end, or anywhere after it except immediately after an `R`. -/
theorem parseObjB_trunc (max : Nat) : ∀ b, ElemTrunc max b (parseObjB max b) := by
  intro b
  induction b with
  | zero =>
    intro cur s i n v c cur' hi hn hc hb h hcut
    unfold parseObjB at h
    split at h <;> cases h
  | succ b ih =>
    intro cur s i n v c cur' hi hn hc hb h hcut
    unfold parseObjB at h ⊢
    split at h
    · cases h
    · rename_i hne
      rw [if_neg hne]
      have hne' : cur ≠ max := by simpa using hne
      simp only at h ⊢
      cases hO : objParse (parseObjB max b) (cur + 1) s i with
      | mk rk cur2 =>
        obtain ⟨r, k⟩ := rk
        rw [hO] at h
        unfold leaveObj at h
        simp only at h
        split at h
        · cases h
        · rename_i hz
          simp only [Prod.mk.injEq] at h
          obtain ⟨⟨hr, hk⟩, hcur⟩ := h
          subst hr hk
          rw [objParse_trunc max b (parseObjB max b) (parseObjB_good max b) ih (cur + 1) s i n v k cur2 hi hn
            (by omega) (by omega) hO hcut]
          unfold leaveObj
          simp only
          rw [if_neg hz, hcur]

end Parsley.Trunc
